/-
Line-protocol driver for the C16 models.  Parsing glue only; every reply is computed by the definitions of
`MenpoModel.Core.C16` the theorems are about.
ops:
  ljson G {name n d c₁…c_{n·d} (E | -1) [a b]… L {label b₁…b_n}}   export → JSON tree → import
        → ok G {name cls n d coords E [a b]… L {label bits}} | err kind
  ljson2 ROWS EDGES L {label k i₁…i_k}                                a version-2 document → import
  ljson1 G {label ROWS EDGES}                                          a version-1 document → import
        ROWS = n {d c₁…c_d} (rows may be ragged), EDGES = -2 (key absent) | -1 (null) | E [a b]…
        → the same reply as `ljson`
  pts n {y x}          → ok {y' x'}                 (points format round trip, exact rationals)
  ptsn ROWS            → ok n {y' x'} | err         (any dimension, `nan` = missing; err = fewer than two axes)
  ptree FILE TREE      → ok TREE      (export_pickle → import_pickle around the serialiser; TREE in prefix form:
                         A n | P c k parts… | L k trees… | T k trees… | D k {key tree}… | O cls k {field tree}…)
  u8 k                 → ok trunc round             (IEEE binary64: coded and repaired eight-bit conversion)
  q8 x                 → ok trunc round             (exact quantisation of a float pixel)
  lost N lo hi         → ok nT {k} nR {k} | nT {k} nR {k}    levels lo ≤ k < hi of the range 0…N that normalise → denormalise
                         does not return (T: truncating cast, R: rounding), by the exact 53-bit model | by Lean `Float`
  mode channels dims   → ok L | ok RGB | err
  norm cwd E {name value} spelling    → ok /a/b/c /a/b/c      (`_norm_path(Path(s))`, `_norm_path(s)` of the raw str)
  ext kind name        → ok .ext | err
  exts kind            → ok .e₁ .e₂ …
  lmfront multi (userext | -) name   → ok .ext | err      (export_landmark_file: front check + extension)
  dec kind name        → (ok .ext gz | err) | (.ext importer gz | err)     exporter's and importer's decision for a name
  guard cwd E {name value} m {existing} n {kind spelling (userext | -) overwrite asStr}
        → ok o₁…o_n | {path content} || o₁…o_n | {path content}     (as coded || with checked path = written path)
        (content = number of the export whose bytes the file holds, 1000+j for the j-th pre-existing file)
-/
import MenpoModel.Core.Codec
import MenpoModel.Core.C16
import MenpoModel.Core.C16Ext
import MenpoModel.Core.C16Soft
import MenpoModel.Core.C16PtsN
import MenpoModel.Core.C16Pickle
import MenpoModel.Props.C16Src
import MenpoModel.Core.C16SrcFmt
import MenpoModel.Props.C16Legacy

namespace MenpoModel.Drive.C16
open MenpoModel.Codec MenpoModel.C16

def pShape : P (String × Shape) := do
  let name ← tok
  let n ← pNat
  let d ← pNat
  let pts ← pMany (pMany pORat d) n
  let e ← pInt
  let conn ← if e < 0 then pure none else do
    let es ← pMany (do let a ← pNat; let b ← pNat; pure (a, b)) e.toNat
    pure (some es)
  let nl ← pNat
  let labels ← pMany (do let l ← tok; let m ← pMany pBool n; pure (l, m)) nl
  pure (name, { points := pts, conn := conn, labels := labels })

def pRows : P (List (List (Option Rat))) := pList (pList pORat)

/-- `-2`: no `connectivity` key; `-1`: `null`; otherwise the list of pairs -/
def pEdges : P (List (Key × Json)) := do
  let e ← pInt
  if e == -2 then pure []
  else if e < 0 then pure [(.connectivity, .null)]
  else do
    let es ← pMany (do let a ← pNat; let b ← pNat; pure (a, b)) e.toNat
    pure [(.connectivity, .arr (es.map jPair))]

def jRows (rows : List (List (Option Rat))) : List Json := rows.map fun r => Json.arr (r.map jOpt)

/-- the JSON tree of a version-2 file (glue: the tree is what `json.load` hands to the parser) -/
def pDocV2 : P Json := do
  let rows ← pRows
  let conn ← pEdges
  let labels ← pList (do let l ← tok; let idx ← pList pNat; pure (l, idx))
  pure (.obj [(.labels, .arr (labels.map fun l => .obj [(.label, .str l.1), (.mask, .arr (l.2.map jNat))])),
              (.landmarks, .obj (conn ++ [(.points, .arr (jRows rows))])), (.version, jNat 2)])

def pDocV1 : P Json := do
  let groups ← pList (do
    let l ← tok
    let rows ← pRows
    let conn ← pEdges
    pure (Json.obj (conn ++ [(.label, .str l), (.landmarks, .arr ((jRows rows).map fun r => .obj [(.point, r)]))])))
  pure (.obj [(.groups, .arr groups), (.version, jNat 1)])

partial def pTree : P PVal := do
  let t ← tok
  match t with
  | "A" => do let n ← pNat; pure (.atom n)
  | "P" => do let c ← pBool; let ps ← pList tok; pure (.path c ps)
  | "L" => do let n ← pNat; let xs ← pMany pTree n; pure (.list xs)
  | "T" => do let n ← pNat; let xs ← pMany pTree n; pure (.tuple xs)
  | "D" => do let n ← pNat; let kvs ← pMany (do let k ← tok; let v ← pTree; pure (k, v)) n; pure (.dict kvs)
  | "O" => do let c ← tok; let n ← pNat; let fs ← pMany (do let k ← tok; let v ← pTree; pure (k, v)) n; pure (.obj c fs)
  | _ => failure

partial def fTree : PVal → String
  | .atom n => "A " ++ toString n
  | .path c ps => " ".intercalate (["P", if c then "1" else "0", toString ps.length] ++ ps)
  | .list xs => " ".intercalate (["L", toString xs.length] ++ xs.map fTree)
  | .tuple xs => " ".intercalate (["T", toString xs.length] ++ xs.map fTree)
  | .dict kvs => " ".intercalate (["D", toString kvs.length] ++ kvs.flatMap fun kv => [kv.1, fTree kv.2])
  | .obj c fs => " ".intercalate (["O", c, toString fs.length] ++ fs.flatMap fun kv => [kv.1, fTree kv.2])

def fORat : Option Rat → String
  | none => "nan"
  | some q => fmtRat q

def fImported (g : String × Imported) : String :=
  let i := g.2
  let d := match i.points with
    | [] => 0
    | r :: _ => r.length
  let cls := match i.cls with
    | .pug => "PointUndirectedGraph"
    | .lpug => "LabelledPointUndirectedGraph"
    | .pc => "PointCloud"
  " ".intercalate ([g.1, cls, toString i.points.length, toString d] ++ i.points.flatten.map fORat ++
    [toString i.edges.length] ++ i.edges.flatMap (fun e => [toString e.1, toString e.2]) ++
    [toString i.labels.length] ++ i.labels.flatMap (fun l => l.1 :: l.2.map fun b => if b then "1" else "0"))

def fErr : Err → String
  | .unknownVersion => "unknown-version"
  | .edgeOutOfRange => "edge-out-of-range"
  | .emptyLabels => "empty-labels"
  | .unlabelledPoint => "unlabelled-point"
  | .emptyPoints => "empty-points"
  | .malformed => "malformed"

def pKind : P Kind := do
  let t ← tok
  match t with
  | "landmark" => pure .landmark
  | "image" => pure .image
  | "pickle" => pure .pickle
  | "video" => pure .video
  | _ => failure

def fPath (p : Path) : String := "/" ++ "/".intercalate (p.map String.ofList)

def cwdOf (s : String) : Path := normAbs (splitC '/' s.toList)

def pOp (i : Nat) : P Op := do
  let k ← pKind
  let sp ← tok
  let ue ← tok
  let ow ← pBool
  let st ← tok                                   -- 0: Path, 1: str, and with a trailing `d`: a dictionary of shapes
  pure { kind := k, spelling := sp.toList, userExt := if ue == "-" then none else some ue.toList,
         overwrite := ow, content := if st.endsWith "d" then i + 500000 else i, asStr := st.startsWith "1" }

/-- `E {name value}`: the environment variables `_norm_path` can see -/
def pEnv : P Env := do
  let vs ← pList (do let n ← tok; let v ← tok; pure (n.toList, (if v == "-" then "" else v).toList))
  pure ⟨vs⟩

def pOps : Nat → Nat → P (List Op)
  | 0, _ => pure []
  | n+1, i => do let o ← pOp i; let r ← pOps n (i + 1); pure (o :: r)

def fOutcome : Outcome → String
  | .written => "w"
  | .overwriteError => "o"
  | .valueError => "v"

/-! the translated export plumbing: the SPECIFICATIONS of `Core/C16SrcIO.lean` (proved equal to the translation of the
source text by `GenProps/C16SrcIO.lean`) run on a model file system -/

def xopOf (o : Op) : XOp :=
  let fp := if o.asStr then Fp.str o.spelling else Fp.path o.spelling
  -- a dictionary of shapes is marked by an offset on the content number (parsing glue only)
  let obj : ExObj := ⟨o.content % 500000, decide (o.content < 500000), true⟩
  match o.kind with
  | .landmark => .landmark (exporterTable .landmark) obj fp o.userExt o.overwrite
  | .image => .image (exporterTable .image) obj fp o.userExt o.overwrite
  | .pickle => .pickle (exporterTable .pickle) obj fp o.overwrite 2
  | .video => .video (exporterTable .video) obj fp o.overwrite 30 []

def fXOutcome : Except Exc Unit → String
  | .ok _ => "w"
  | .error .overwriteError => "o"
  | .error .valueError => "v"
  | .error _ => "x"

def fKey : Key → String
  | .version => "version" | .groups => "groups" | .labels => "labels" | .landmarks => "landmarks"
  | .points => "points" | .connectivity => "connectivity" | .label => "label" | .mask => "mask" | .point => "point"
  | .user s => s

/-- canonical text of a JSON value tree (keys in the order of the tree, numbers as exact rationals) -/
partial def cJson : Json → String
  | .null => "null"
  | .num q => fmtRat q
  | .str s => "\"" ++ s ++ "\""
  | .arr xs => "[" ++ ",".intercalate (xs.map cJson) ++ "]"
  | .obj kvs => "{" ++ ",".intercalate (kvs.map fun kv => fKey kv.1 ++ ":" ++ cJson kv.2) ++ "}"

def fPLine : PLine → String
  | .open_ => "{"
  | .close => "}"
  | .other => "H"
  | .row toks => "r" ++ toString toks.length ++ " " ++ " ".intercalate (toks.map fORat)

def pDType : P DType := do
  let t ← tok
  match t with
  | "uint8" => pure .uint8 | "uint16" => pure .uint16 | "float32" => pure .float32 | "float64" => pure .float64
  | "bool" => pure .bool | _ => pure .other

def fDType : DType → String
  | .uint8 => "uint8" | .uint16 => "uint16" | .float32 => "float32" | .float64 => "float64" | .bool => "bool"
  | .other => "other"

def fPix (r : Except Exc PixArr) : String := match r with
  | .ok p => "ok " ++ fDType p.dtype ++ " " ++ fmtRats p.vals
  | .error _ => "err"

/-- a token that stands for the empty string -/
def unE (s : String) : List Char := if s == "@E@" then [] else s.toList

def step (toks : List String) : String :=
  match toks with
  | "ljson" :: r => match runP (pList pShape) r with
    | some gs => match decodeDoc (encodeDoc gs) with
      | .ok res => "ok " ++ toString res.length ++ " " ++ " ".intercalate (res.map fImported)
      | .error e => "err " ++ fErr e
    | none => "bad-op"
  | "ljson2" :: r => match runP pDocV2 r with
    | some j => match decodeDoc j with
      | .ok res => "ok " ++ toString res.length ++ " " ++ " ".intercalate (res.map fImported)
      | .error e => "err " ++ fErr e
    | none => "bad-op"
  | "ljson1" :: r => match runP pDocV1 r with
    | some j => match decodeDoc j with
      | .ok res => "ok " ++ toString res.length ++ " " ++ " ".intercalate (res.map fImported)
      | .error e => "err " ++ fErr e
    | none => "bad-op"
  | "pts" :: r => match runP (pList (do let y ← pRat; let x ← pRat; pure (y, x))) r with
    | some ps => "ok " ++ fmtRats ((ptsRoundTrip ps).flatMap fun p => [p.1, p.2])
    | none => "bad-op"
  | "ptsn" :: r => match runP pRows r with
    | some rows => match ptsRoundTripN rows with
      | some back => "ok " ++ toString back.length ++ " " ++ " ".intercalate (back.flatten.map fORat)
      | none => "err"
    | none => "bad-op"
  | "ptree" :: r => match runP (do let f ← pTree; let v ← pTree; pure (f, v)) r with
    | some (f, v) => "ok " ++ fTree (pickleRoundTrip f v)
    | none => "bad-op"
  | ["u8", k] => match k.toNat? with
    | some k => s!"ok {(denormTrunc (norm8 k)).toNat} {(denormRound (norm8 k)).toNat}"
    | none => "bad-op"
  | "q8" :: r => match runP pRat r with
    | some x => s!"ok {quantTrunc x} {quantRound x}"
    | none => "bad-op"
  | "lost" :: r => match runP (do let n ← pNat; let lo ← pNat; let hi ← pNat; pure (n, lo, hi)) r with
    | some (n, lo, hi) =>
      let f := fun (l : List Nat) => toString l.length ++ (if l.isEmpty then "" else " ") ++ fmtNats l
      "ok " ++ f (lostValues n true lo hi) ++ " " ++ f (lostValues n false lo hi) ++ " | " ++
        f (lostValuesF n true lo hi) ++ " " ++ f (lostValuesF n false lo hi)
    | none => "bad-op"
  | "mode" :: r => match runP (do let c ← pNat; let d ← pNat; pure (c, d)) r with
    | some (c, d) => match pilMode c d with
      | some .L => "ok L"
      | some .RGB => "ok RGB"
      | none => "err"
    | none => "bad-op"
  | "norm" :: cwd :: r => match runP (do let e ← pEnv; let sp ← tok; pure (e, sp)) r with
    | some (e, sp) => "ok " ++ fPath (normPath e (cwdOf cwd) sp.toList) ++ " " ++ fPath (normPathRaw e (cwdOf cwd) sp.toList)
    | none => "bad-op"
  | "ext" :: r => match runP (do let k ← pKind; let n ← tok; pure (k, n)) r with
    | some (k, n) => match parseExt (knownExts k) n.toList with
      | some e => "ok " ++ String.ofList e
      | none => "err"
    | none => "bad-op"
  | "dec" :: r => match runP (do let k ← pKind; let n ← tok; pure (k, n)) r with
    | some (k, n) =>
      let b := fun (x : Bool) => if x then "1" else "0"
      let ex := match exportDecision k n.toList with
        | some d => "ok " ++ String.ofList d.1 ++ " " ++ b d.2
        | none => "err"
      let im := match importerFor k n.toList, importDecision k n.toList with
        | some r, some d => String.ofList r.1 ++ " " ++ r.2 ++ " " ++ b d.2
        | _, _ => "err"
      ex ++ " | " ++ im
    | none => "bad-op"
  | ["lmfront", m, ue, n] =>
    match exportLandmarkDecision (m == "1") (if ue == "-" then none else some ue.toList) n.toList with
    | some e => "ok " ++ String.ofList e
    | none => "err"
  | "exts" :: r => match runP pKind r with
    | some k => "ok " ++ " ".intercalate (extTable k)
    | none => "bad-op"
  | "guard" :: cwd :: r =>
    match runP (do let e ← pEnv; let pre ← pList tok; let n ← pNat; let ops ← pOps n 0; pure (e, pre, ops)) r with
    | some (e, pre, ops) =>
      let c := cwdOf cwd
      let prePaths := pre.map fun s => normAbs (c ++ splitC '/' s.toList)     -- literal relative paths, no expansion
      let fs0 : FS := fun q => (prePaths.idxOf? q).map (· + 1000)
      let paths := (prePaths ++ ops.flatMap fun o => [normPath e c o.spelling, writePathCoded e c o]).eraseDups
      let show_ := fun (res : List Outcome × FS) =>
        let listing := paths.filterMap fun p => (res.2 p).map fun v => fPath p ++ " " ++ toString v
        "".intercalate (res.1.map fOutcome) ++ " | " ++ " ".intercalate listing
      -- the same history through the specifications of the translated entry points
      let xs := ops.map xopOf
      let fsb0 : FSb := fun q => (prePaths.idxOf? q).map fun j => ⟨j + 1000, none, "", false, [], true⟩
      let xpaths := (prePaths ++ xs.map fun x => targetKey e c x.fp).eraseDups
      -- both variants of export_landmark_file: the dictionary check before the guard (as coded), the guard first
      let xshow := fun (gf : Bool) =>
        let xres := runX gf e c fsb0 xs
        let xlisting := xpaths.filterMap fun p => (xres.2 p).map fun b => fPath p ++ " " ++ toString b.content
        "".intercalate (xres.1.map fXOutcome) ++ " | " ++ " ".intercalate xlisting
      "ok " ++ show_ (runHistoryCoded e c fs0 ops) ++ " || " ++ show_ (runHistory e c fs0 ops) ++ " || " ++
        xshow false ++ " || " ++ xshow true
    | none => "bad-op"
  | "ljsondoc" :: r => match runP (pList pShape) r with
    | some gs => match ljsonExporterSpec (.multi gs) with
      | .ok j => "ok " ++ cJson j
      | .error _ => "err"
    | none => "bad-op"
  | "v3parse" :: r => match runP (pList pShape) r with
    | some gs => match parseV3Spec ((sortGroups gs).map fun g => (g.1, exportedGroup g.2)) with
      | .ok res => "ok " ++ toString res.length ++ " " ++ " ".intercalate (res.map fImported)
      | .error _ => "err"
    | none => "bad-op"
  | "v3doc" :: r =>
    match runP (pList (do
        let name ← tok
        let rows ← pRows
        let e ← pInt
        let conn ← if e < 0 then pure none else do
          let es ← pMany (do let a ← pNat; let b ← pNat; pure (a, b)) e.toNat
          pure (some es)
        let labels ← pList (do let l ← tok; let idx ← pList pNat; pure (⟨l, idx⟩ : JLabel))
        pure (name, (⟨rows, conn, labels⟩ : JGroup)))) r with
    | some d => match parseV3Spec d with
      | .ok res => "ok " ++ toString res.length ++ " " ++ " ".intercalate (res.map fImported)
      | .error .indexError => "err IndexError"
      | .error .valueError => "err ValueError"
      | .error _ => "err other"
    | none => "bad-op"
  | "v1doc" :: r =>
    match runP (pList (do
        let l ← tok
        let rows ← pRows
        let e ← pInt
        let conn ← if e < 0 then pure none else do
          let es ← pMany (do let a ← pNat; let b ← pNat; pure (a, b)) e.toNat
          pure (some es)
        pure (⟨l, rows, conn⟩ : JV1Group))) r with
    | some d => match parseV1Spec d with
      | .ok res => "ok " ++ toString res.length ++ " " ++ " ".intercalate (res.map fImported)
      | .error .indexError => "err IndexError"
      | .error .valueError => "err ValueError"
      | .error _ => "err other"
    | none => "bad-op"
  | "v2doc" :: r =>
    match runP (do
        let rows ← pRows
        let e ← pInt
        let conn ← if e < 0 then pure none else do
          let es ← pMany (do let a ← pNat; let b ← pNat; pure (a, b)) e.toNat
          pure (some es)
        let labels ← pList (do let l ← tok; let idx ← pList pNat; pure (⟨l, idx⟩ : JLabel))
        pure (⟨rows, conn, labels⟩ : JGroup)) r with
    | some g => match parseV2Spec g with
      | .ok res => "ok " ++ toString res.length ++ " " ++ " ".intercalate (res.map fImported)
      | .error .indexError => "err IndexError"
      | .error .valueError => "err ValueError"
      | .error _ => "err other"
    | none => "bad-op"
  | "ptsfile" :: r => match runP pRows r with
    | some rows => match ptsExporterSpec rows with
      | .ok lines =>
        let back := match ptsImporterSpec lines true with
          | .ok b => "ok " ++ toString b.length ++ " " ++ " ".intercalate (b.flatten.map fORat)
          | .error _ => "err"
        "ok " ++ " ".intercalate (lines.map fPLine) ++ " | " ++ back
      | .error _ => "err"
    | none => "bad-op"
  | "pixnorm" :: r => match runP (do let d ← pDType; let e ← pBool; let vs ← pList pRat; pure (d, e, vs)) r with
    | some (d, e, vs) => fPix (normalizeSpec ⟨d, vs⟩ e)
    | none => "bad-op"
  | "pixdenorm" :: r => match runP (do let d ← pDType; let o ← pDType; let vs ← pList pRat; pure (d, o, vs)) r with
    | some (d, o, vs) => fPix (denormalizeSpec ⟨d, vs⟩ o)
    | none => "bad-op"
  | "ljsonver" :: r => match runP pRat r with
    | some v => match ljsonDispatchSpec parserTable (.obj [(.version, .num v)]) with
      | .ok nm => "ok " ++ nm
      | .error _ => "err"
    | none => "bad-op"
  | "normsrc" :: cwd :: r => match runP (do let e ← pEnv; let sp ← tok; pure (e, sp)) r with
    | some (e, sp) =>
      let c := cwdOf cwd
      "ok " ++ String.ofList (normPathSpec e c (.path sp.toList)).toStr ++ " " ++
        String.ofList (normPathSpec e c (.str sp.toList)).toStr ++ " " ++
        fPath (targetKey e c (.path sp.toList)) ++ " " ++ fPath ((normPathSpec e c (.str sp.toList)).key c)
    | none => "bad-op"
  | ["oslib", cwd, s] =>
    let c := cwdOf cwd
    let x := unE s
    "ok " ++ String.ofList (osNormpath x) ++ " " ++ String.ofList (osAbspath c x) ++ " " ++ String.ofList (pathStr x)
  | ["xdec", k, n] => match runP pKind [k] with
    | some k =>
      let p := Fp.path n.toList
      let f := fun (r : Except Exc OStr) => match r with
        | .ok (some e) => "ok " ++ String.ofList e
        | .ok none => "ok -"
        | .error _ => "err"
      let g := fun (r : Except Exc (Option String)) => match r with
        | .ok (some c) => c
        | .ok none => "-"
        | .error _ => "err"
      f (parseAndValidateSpec p none (exporterTable k)) ++ " | " ++ g (importerForSpec p (importerTable k)) ++ " | " ++
        String.ofList p.fileName ++ " | " ++ " ".intercalate ((possibleExts p).map fun e => String.ofList (e.getD []))
    | none => "bad-op"
  | _ => "bad-op"

end MenpoModel.Drive.C16
