/-
Line-protocol driver for the C20 models.  Parsing glue only.
ops: rot2 c s | rot3 x|y|z c s | shear2 tp ts | about2 cx cy a b tx c d ty | about3 cx cy cz l₁…l₉ t₁ t₂ t₃
     scalefac n k₁…k_n | scalescalar k n | tcoords h w | axis2 c s | quat w x y z | rodrigues ax ay az c s
     quatk w x y z   (K(R(q))·q, should be q for unit q)
     centres n x₁ y₁ …            centre of mass and centre of bounds of a 2-D point set
     obj2 <obj> <op>               <obj> = cloud n x₁ y₁ … | mesh n x₁ y₁ … | image h w
                                   <op>  = scale k | scalearr kx ky | rotate c s | shear tp ts | affine a b tx c d ty
     obj3 <obj> <op>               <obj> = cloud n x₁ y₁ z₁ … | mesh … | image a b c ;  <op> = scale k | rotate c s | shear tp ts
     scalefull coded|fixed scalar k <n|none>  /  scalefull coded|fixed array n k₁…k_n <n|none>
     identity <Class> n | tcoordsshape h w | aa3defined c s | table
-/
import MenpoModel.Core.Codec
import MenpoModel.Core.C20Ext

namespace MenpoModel.Drive.C20
open MenpoModel.Codec MenpoModel.C20

def fA2 (m : Aff2) : String := fmtRats [m.a, m.b, m.tx, m.c, m.d, m.ty]
def fV3 (v : V3) : String := fmtRats [v.x, v.y, v.z]
def fL3 (m : Lin3) : String := fV3 m.r0 ++ " " ++ fV3 m.r1 ++ " " ++ fV3 m.r2
def pV3 : P V3 := do let x ← pRat; let y ← pRat; let z ← pRat; pure ⟨x, y, z⟩
def pA2 : P Aff2 := do
  let a ← pRat; let b ← pRat; let tx ← pRat; let c ← pRat; let d ← pRat; let ty ← pRat
  pure ⟨a, b, tx, c, d, ty⟩

def pV2 : P V2 := do let x ← pRat; let y ← pRat; pure ⟨x, y⟩
def fV2 (v : V2) : String := fmtRats [v.x, v.y]
def fA3 (a : Aff3) : String := fL3 a.l ++ " " ++ fV3 a.t

def pObj2 : P Obj2 := do
  let k ← tok
  if k == "cloud" then do let pts ← pList pV2; pure (.cloud pts)
  else if k == "mesh" then do let pts ← pList pV2; pure (.mesh pts [])
  else if k == "image" then do let h ← pNat; let w ← pNat; pure (.image h w)
  else failure

def pObj3 : P Obj3 := do
  let k ← tok
  if k == "cloud" then do let pts ← pList pV3; pure (.cloud pts)
  else if k == "mesh" then do let pts ← pList pV3; pure (.mesh pts [])
  else if k == "image" then do let a ← pNat; let b ← pNat; let c ← pNat; pure (.image a b c)
  else failure

def pONat : P (Option Nat) := do
  let t ← tok
  if t == "none" then pure none else match t.toNat? with
    | some n => pure (some n)
    | none => failure

def pScaleArg : P ScaleArg := do
  let k ← tok
  if k == "scalar" then do let x ← pRat; pure (.scalar x)
  else if k == "array" then do let ks ← pList pRat; pure (.array ks)
  else failure

def clsOfName (s : String) : Option Cls :=
  [Cls.homogeneous, .affine, .similarity, .translation, .rotation, .uniformScale, .nonUniformScale, .transformChain].find?
    (fun k => k.name == s)

def fErr : Err → String
  | .valueError => "err ValueError"
  | .typeError => "err TypeError"
  | .indexError => "exc IndexError"
  | .notImplementedError => "exc NotImplementedError"

def fExA2 : Except Err Aff2 → String
  | .ok m => "ok " ++ fA2 m
  | .error e => fErr e

def stepExt (toks : List String) : Option String :=
  match toks with
  | "centres" :: r => match runP (pList pV2) r with
    | some pts => some ("ok " ++ fV2 (centreOfMass2 pts) ++ " " ++ fV2 (centreOfBounds2 pts))
    | none => some "bad-op"
  | "obj2" :: r =>
    match runP (do let o ← pObj2; let op ← tok; let args ← pMany pRat (if op == "affine" then 6 else if op == "scale" then 1 else 2)
                   pure (o, op, args)) r with
    | some (o, "scale", [k]) => some (match scaleAboutCentre (.d2 o) k with
        | .a2 m => "ok " ++ fA2 m
        | .a3 m => "ok " ++ fA3 m)
    | some (o, "scalearr", [kx, ky]) => some ("ok " ++ fA2 (scaleAboutCentreArr2 o kx ky))
    | some (o, "rotate", [c, s]) => some (fExA2 (rotateCcwAboutCentre (.d2 o) c s))
    | some (o, "shear", [tp, ts]) => some (fExA2 (shearAboutCentre (.d2 o) tp ts))
    | some (o, "affine", [a, b, tx, c, d, ty]) => some ("ok " ++ fA2 (aboutCentre2 o.centre ⟨a, b, tx, c, d, ty⟩))
    | _ => some "bad-op"
  | "obj3" :: r =>
    match runP (do let o ← pObj3; let op ← tok; let args ← pMany pRat (if op == "scale" then 1 else 2); pure (o, op, args)) r with
    | some (o, "scale", [k]) => some (match scaleAboutCentre (.d3 o) k with
        | .a2 m => "ok " ++ fA2 m
        | .a3 m => "ok " ++ fA3 m)
    | some (o, "rotate", [c, s]) => some (fExA2 (rotateCcwAboutCentre (.d3 o) c s))
    | some (o, "shear", [tp, ts]) => some (fExA2 (shearAboutCentre (.d3 o) tp ts))
    | _ => some "bad-op"
  | "scalefull" :: which :: r =>
    match runP (do let a ← pScaleArg; let n ← pONat; pure (a, n)) r with
    | some (a, n) =>
      let res := if which == "fixed" then scaleFactoryFixed a n else scaleFactoryCoded a n
      some (match res with
        | .ok o => s!"ok {o.cls.name} {o.nDims} " ++ fmtRats o.diag
        | .error e => fErr e)
    | none => some "bad-op"
  | ["identity", cls, n] => match clsOfName cls, n.toNat? with
    | some k, some n => some (match initIdentity k n with
        | .ok (k', n') => s!"ok {k'.name} {n'}"
        | .error e => fErr e)
    | _, _ => some "bad-op"
  | ["tcoordsshape", h, w] => match h.toNat?, w.toNat? with
    | some h, some w => some (match tcoordsToImageShape h w, imageToTcoordsShape h w with
        | some t, some ti => "ok " ++ fA2 t ++ " " ++ fA2 ti
        | _, _ => "err ValueError")
    | _, _ => some "bad-op"
  | "aa3defined" :: r => match runP (do let c ← pRat; let s ← pRat; pure (c, s)) r with
    | some (c, s) => some (if axisAngle3Defined c s then "ok 1" else "ok 0")
    | none => some "bad-op"
  | ["table"] => some ("ok " ++ " ".intercalate (modelCtorTable.map fun r => s!"{r.owner}|{r.name}|{r.arg}|{r.result}|{r.nDims}"))
  | _ => none

def step (toks : List String) : String :=
  match stepExt toks with
  | some r => r
  | none =>
  match toks with
  | "rot2" :: r => match runP (do let c ← pRat; let s ← pRat; pure (c, s)) r with
    | some (c, s) => "ok " ++ fA2 (rot2 c s)
    | none => "bad-op"
  | "rot3" :: ax :: r => match runP (do let c ← pRat; let s ← pRat; pure (c, s)) r with
    | some (c, s) => match ax with
      | "x" => "ok " ++ fL3 (rot3x c s)
      | "y" => "ok " ++ fL3 (rot3y c s)
      | "z" => "ok " ++ fL3 (rot3z c s)
      | _ => "bad-op"
    | none => "bad-op"
  | "shear2" :: r => match runP (do let a ← pRat; let b ← pRat; pure (a, b)) r with
    | some (a, b) => "ok " ++ fA2 (shear2 a b)
    | none => "bad-op"
  | "about2" :: r => match runP (do let cx ← pRat; let cy ← pRat; let m ← pA2; pure (cx, cy, m)) r with
    | some (cx, cy, m) => "ok " ++ fA2 (aboutCentre2 ⟨cx, cy⟩ m)
    | none => "bad-op"
  | "about3" :: r => match runP (do let c ← pV3; let r0 ← pV3; let r1 ← pV3; let r2 ← pV3; let t ← pV3
                                    pure (c, (⟨⟨r0, r1, r2⟩, t⟩ : Aff3))) r with
    | some (c, m) => let a := aboutCentre3 c m; "ok " ++ fL3 a.l ++ " " ++ fV3 a.t
    | none => "bad-op"
  | "scalefac" :: r => match runP (pList pRat) r with
    | some ks => match scaleFactory ks with
      | none => "err"
      | some (.uniform k n) => s!"ok uniform {fmtRat k} {n}"
      | some (.nonUniform l) => "ok nonuniform " ++ fmtRats l
    | none => "bad-op"
  | "scalescalar" :: r => match runP (do let k ← pRat; let n ← pNat; pure (k, n)) r with
    | some (k, n) => match scaleFactoryScalar k n with
      | some (.uniform k n) => s!"ok uniform {fmtRat k} {n}"
      | _ => "err"
    | none => "bad-op"
  | "tcoords" :: r => match runP (do let h ← pRat; let w ← pRat; pure (h, w)) r with
    | some (h, w) => if h == 1 || w == 1 then "err" else
        "ok " ++ fA2 (tcoordsToImage h w) ++ " " ++ fA2 (imageToTcoords h w)
    | none => "bad-op"
  | "axis2" :: r => match runP (do let c ← pRat; let s ← pRat; pure (c, s)) r with
    | some (c, s) => let a := axisAngle2Coded (rot2 c s); let b := axisAngle2Spec (rot2 c s)
        "ok " ++ fmtRats [a.1, a.2, b.1, b.2]
    | none => "bad-op"
  | "quat" :: r => match runP (pMany pRat 4) r with
    | some [w, x, y, z] => if w * w + x * x + y * y + z * z == 0 then "err" else "ok " ++ fL3 (quatToLin w x y z)
    | _ => "bad-op"
  | "quatk" :: r => match runP (pMany pRat 4) r with
    | some [w, x, y, z] => if w * w + x * x + y * y + z * z == 0 then "err" else
        let (a, b, c, d) := quatK (quatToLin w x y z) x y z w
        "ok " ++ fmtRats [a, b, c, d]
    | _ => "bad-op"
  | "rodrigues" :: r => match runP (do let a ← pV3; let c ← pRat; let s ← pRat; pure (a, c, s)) r with
    | some (a, c, s) =>
        let e0 := rodrigues a c s ⟨1, 0, 0⟩; let e1 := rodrigues a c s ⟨0, 1, 0⟩; let e2 := rodrigues a c s ⟨0, 0, 1⟩
        "ok " ++ fmtRats [e0.x, e1.x, e2.x, e0.y, e1.y, e2.y, e0.z, e1.z, e2.z]
    | none => "bad-op"
  | _ => "bad-op"

end MenpoModel.Drive.C20
