/-
Line-protocol driver for the C20 models.  Parsing glue only.
ops: rot2 c s | rot3 x|y|z c s | shear2 tp ts | about2 cx cy a b tx c d ty | about3 cx cy cz l₁…l₉ t₁ t₂ t₃
     scalefac n k₁…k_n | scalescalar k n | tcoords h w | axis2 c s | quat w x y z | rodrigues ax ay az c s
     quatk w x y z   (K(R(q))·q, should be q for unit q)
-/
import MenpoModel.Core.Codec
import MenpoModel.Core.C20

namespace MenpoModel.Drive.C20
open MenpoModel.Codec MenpoModel.C20

def fA2 (m : Aff2) : String := fmtRats [m.a, m.b, m.tx, m.c, m.d, m.ty]
def fV3 (v : V3) : String := fmtRats [v.x, v.y, v.z]
def fL3 (m : Lin3) : String := fV3 m.r0 ++ " " ++ fV3 m.r1 ++ " " ++ fV3 m.r2
def pV3 : P V3 := do let x ← pRat; let y ← pRat; let z ← pRat; pure ⟨x, y, z⟩
def pA2 : P Aff2 := do
  let a ← pRat; let b ← pRat; let tx ← pRat; let c ← pRat; let d ← pRat; let ty ← pRat
  pure ⟨a, b, tx, c, d, ty⟩

def step (toks : List String) : String :=
  match toks with
  | "rot2" :: r => match runP (do let c ← pRat; let s ← pRat; pure (c, s)) r with
    | some (c, s) => "ok " ++ fA2 (rot2 c s)
    | none => "bad-op"
  | "rot3" :: ax :: r => match runP (do let c ← pRat; let s ← pRat; pure (c, s)) r with
    | some (c, s) => match ax with
      | "x" => "ok " ++ fL3 (rot3x c s)
      | "y" => "ok " ++ fL3 (rot3y c s)
      | "z" => "ok " ++ fL3 (rot3z c s)
      | _ => "bad-op"
    | none => "bad-op"
  | "shear2" :: r => match runP (do let a ← pRat; let b ← pRat; pure (a, b)) r with
    | some (a, b) => "ok " ++ fA2 (shear2 a b)
    | none => "bad-op"
  | "about2" :: r => match runP (do let cx ← pRat; let cy ← pRat; let m ← pA2; pure (cx, cy, m)) r with
    | some (cx, cy, m) => "ok " ++ fA2 (aboutCentre2 ⟨cx, cy⟩ m)
    | none => "bad-op"
  | "about3" :: r => match runP (do let c ← pV3; let r0 ← pV3; let r1 ← pV3; let r2 ← pV3; let t ← pV3
                                    pure (c, (⟨⟨r0, r1, r2⟩, t⟩ : Aff3))) r with
    | some (c, m) => let a := aboutCentre3 c m; "ok " ++ fL3 a.l ++ " " ++ fV3 a.t
    | none => "bad-op"
  | "scalefac" :: r => match runP (pList pRat) r with
    | some ks => match scaleFactory ks with
      | none => "err"
      | some (.uniform k n) => s!"ok uniform {fmtRat k} {n}"
      | some (.nonUniform l) => "ok nonuniform " ++ fmtRats l
    | none => "bad-op"
  | "scalescalar" :: r => match runP (do let k ← pRat; let n ← pNat; pure (k, n)) r with
    | some (k, n) => match scaleFactoryScalar k n with
      | some (.uniform k n) => s!"ok uniform {fmtRat k} {n}"
      | _ => "err"
    | none => "bad-op"
  | "tcoords" :: r => match runP (do let h ← pRat; let w ← pRat; pure (h, w)) r with
    | some (h, w) => if h == 1 || w == 1 then "err" else
        "ok " ++ fA2 (tcoordsToImage h w) ++ " " ++ fA2 (imageToTcoords h w)
    | none => "bad-op"
  | "axis2" :: r => match runP (do let c ← pRat; let s ← pRat; pure (c, s)) r with
    | some (c, s) => let a := axisAngle2Coded (rot2 c s); let b := axisAngle2Spec (rot2 c s)
        "ok " ++ fmtRats [a.1, a.2, b.1, b.2]
    | none => "bad-op"
  | "quat" :: r => match runP (pMany pRat 4) r with
    | some [w, x, y, z] => if w * w + x * x + y * y + z * z == 0 then "err" else "ok " ++ fL3 (quatToLin w x y z)
    | _ => "bad-op"
  | "quatk" :: r => match runP (pMany pRat 4) r with
    | some [w, x, y, z] => if w * w + x * x + y * y + z * z == 0 then "err" else
        let (a, b, c, d) := quatK (quatToLin w x y z) x y z w
        "ok " ++ fmtRats [a, b, c, d]
    | _ => "bad-op"
  | "rodrigues" :: r => match runP (do let a ← pV3; let c ← pRat; let s ← pRat; pure (a, c, s)) r with
    | some (a, c, s) =>
        let e0 := rodrigues a c s ⟨1, 0, 0⟩; let e1 := rodrigues a c s ⟨0, 1, 0⟩; let e2 := rodrigues a c s ⟨0, 0, 1⟩
        "ok " ++ fmtRats [e0.x, e1.x, e2.x, e0.y, e1.y, e2.y, e0.z, e1.z, e2.z]
    | none => "bad-op"
  | _ => "bad-op"

end MenpoModel.Drive.C20
