/-
Line-protocol driver for the C13 model (crop / patches).  Parsing glue only.

arr  := k s₁…s_k  m d₁…d_m            (shape, flat C-order data, exact rationals)
pts  := n  r₁ c₁ … r_n c_n            offs := N | pts
var  := c | r                          (coded | repaired)
ops  := bounds var constrain k s₁…s_k  k mn…  k mx…          → ok lo hi loB hiB (per axis) | err boundary|value
        crop var constrain zero arr  k mn…  k mx…  n (k x…)ⁿ  → ok S shape D data L landmarks… | err …
        slice arr pts ph pw offs cval                          → ok S shape D data | err value
        samp var order mode(c|n) arr pts ph pw offs cval       → ok S shape D data | err value
        set arr(patches) arr(pixels) pts offr offc oi          → ok S shape D data | err value|index
                                                                 (`int()` placement; `setv var …` chooses it)
        pcrop var constrain zero arr  n (k x…)ⁿ  boundary  n (k x…)ⁿ   crop_to_pointcloud / crop_to_landmarks
        pprop var constrain zero arr  n (k x…)ⁿ  proportion minimum  n (k x…)ⁿ   crop_to_*_proportion
        tmask var constrain zero arr arr(mask) boundary  n (k x…)ⁿ   crop_to_true_mask
        api var order mode arr pts ph pw offs cval             Image.extract_patches (dispatch in the model)
        lms arr pts ph pw offs                                 extract_patches_around_landmarks
        list var order mode arr pts ph pw offs cval            as_single_array=False → ok n ; S shape D data ; …
        setapi var pat arr(pixels) pts off(N | r c) oi(N | k)  Image.set_patches; pat := A arr | L n arrⁿ
     mirrors of the translated source (Core/C13Src.lean; proved equal to the text regenerated from /repo and to the model):
        cptb k s₁…s_k  k x…                                    Image.constrain_points_to_bounds → ok x'…
        btrue constrain arr(mask) boundary                     BooleanImage.bounds_true → ok mins… | maxes… | err value
        pcb n (k x…)ⁿ boundary                                 PointCloud.bounds → ok mins… | maxes… ; range… | err value
-/
import MenpoModel.Core.Codec
import MenpoModel.Core.C13Api
import MenpoModel.Core.C13Src

namespace MenpoModel.Drive.C13
open MenpoModel.Codec MenpoModel.C13

def pVar : P Variant := do
  let t ← tok
  if t == "c" then pure .coded else if t == "r" then pure .repaired else failure

def pArr : P (NDArr Rat) := do
  let s ← pList pNat
  let d ← pList pRat
  pure ⟨s, d⟩

def pPt : P Pt := do
  let a ← pRat
  let b ← pRat
  pure (a, b)

def pOffs : P (Option (List Pt)) := fun s => match s with
  | "N" :: rest => some (none, rest)
  | _ => (do let l ← pList pPt; pure (some l) : P (Option (List Pt))) s

def fmtErr : Err → String
  | .boundary => "err boundary"
  | .value => "err value"
  | .index => "err index"
  | .zerodiv => "err zerodiv"

def fmtArr (a : NDArr Rat) : String :=
  "S " ++ fmtNats a.shape ++ " D " ++ fmtRats a.data

def fmtRes : Except Err (NDArr Rat) → String
  | .ok a => "ok " ++ fmtArr a
  | .error e => fmtErr e

def fmtCrop : Except Err (NDArr Rat × List (List Rat)) → String
  | .error e => fmtErr e
  | .ok (out, lms) => "ok " ++ fmtArr out ++ " L " ++ fmtRats lms.flatten

def pMode : P Mode := do
  let t ← tok
  if t == "n" then pure .nearest else if t == "c" then pure .constant else failure

def pOpt {α} (p : P α) : P (Option α) := fun s => match s with
  | "N" :: rest => some (none, rest)
  | _ => (do let x ← p; pure (some x) : P (Option α)) s

def pPatchArg : P (PatchArg Rat) := do
  let t ← tok
  if t == "A" then do let a ← pArr; pure (.single a)
  else if t == "L" then do let l ← pList pArr; pure (.list l)
  else failure

def toBoolArr (a : NDArr Rat) : NDArr Bool := ⟨a.shape, a.data.map fun x => decide (x ≠ 0)⟩

def step (toks : List String) : String :=
  match toks with
  | "bounds" :: rest =>
    match runP (do
      let v ← pVar; let c ← pBool; let s ← pList pNat; let mn ← pList pRat; let mx ← pList pRat
      pure (v, c, s, mn, mx)) rest with
    | none => "bad-op"
    | some (v, c, s, mn, mx) => match cropBounds v s mn mx c with
      | .error e => fmtErr e
      | .ok axes => "ok " ++ " ".intercalate (axes.map fun a => s!"{a.lo} {a.hi} {a.loB} {a.hiB}")
  | "crop" :: rest =>
    match runP (do
      let v ← pVar; let c ← pBool; let z ← pRat; let a ← pArr; let mn ← pList pRat; let mx ← pList pRat
      let l ← pList (pList pRat)
      pure (v, c, z, a, mn, mx, l)) rest with
    | none => "bad-op"
    | some (v, c, z, a, mn, mx, l) => match crop v a mn mx c z l with
      | .error e => fmtErr e
      | .ok (out, lms) => "ok " ++ fmtArr out ++ " L " ++ fmtRats lms.flatten
  | "slice" :: rest =>
    match runP (do
      let a ← pArr; let cs ← pList pPt; let ph ← pNat; let pw ← pNat; let o ← pOffs; let cv ← pRat
      pure (a, cs, ph, pw, o, cv)) rest with
    | none => "bad-op"
    | some (a, cs, ph, pw, o, cv) => fmtRes (extractSlice a cs ph pw o cv)
  | "samp" :: rest =>
    match runP (do
      let v ← pVar; let order ← pNat; let m ← tok
      let a ← pArr; let cs ← pList pPt; let ph ← pNat; let pw ← pNat; let o ← pOffs; let cv ← pRat
      pure (v, order, m, a, cs, ph, pw, o, cv)) rest with
    | none => "bad-op"
    | some (v, order, m, a, cs, ph, pw, o, cv) =>
      let mode := if m == "n" then Mode.nearest else Mode.constant
      match a.shape with
      | [C, _, _] =>
        fmtRes (extractSampling v (fun c pt => sampleRat order mode a c [pt.1, pt.2] cv) C ph pw cs o cv)
      | _ => fmtErr .value
  | "set" :: rest =>
    match runP (do
      let p ← pArr; let a ← pArr; let cs ← pList pPt; let r ← pInt; let c ← pInt; let oi ← pNat
      pure (p, a, cs, r, c, oi)) rest with
    | none => "bad-op"
    | some (p, a, cs, r, c, oi) => fmtRes (setPatches .coded p a cs (r, c) oi 0)
  | "setv" :: rest =>
    match runP (do
      let v ← pVar; let p ← pArr; let a ← pArr; let cs ← pList pPt; let r ← pInt; let c ← pInt; let oi ← pNat
      pure (v, p, a, cs, r, c, oi)) rest with
    | none => "bad-op"
    | some (v, p, a, cs, r, c, oi) => fmtRes (setPatches v p a cs (r, c) oi 0)
  | "pcrop" :: rest =>
    match runP (do
      let v ← pVar; let c ← pBool; let z ← pRat; let a ← pArr; let pts ← pList (pList pRat); let b ← pRat
      let l ← pList (pList pRat)
      pure (v, c, z, a, pts, b, l)) rest with
    | none => "bad-op"
    | some (v, c, z, a, pts, b, l) => fmtCrop (cropToPointcloud v a pts b c z l)
  | "pprop" :: rest =>
    match runP (do
      let v ← pVar; let c ← pBool; let z ← pRat; let a ← pArr; let pts ← pList (pList pRat); let pr ← pRat
      let mi ← pBool; let l ← pList (pList pRat)
      pure (v, c, z, a, pts, pr, mi, l)) rest with
    | none => "bad-op"
    | some (v, c, z, a, pts, pr, mi, l) =>
      "B " ++ fmtRat (proportionBoundary pts pr mi) ++ " " ++ fmtCrop (cropToPointcloudProportion v a pts pr mi c z l)
  | "tmask" :: rest =>
    match runP (do
      let v ← pVar; let c ← pBool; let z ← pRat; let a ← pArr; let m ← pArr; let b ← pInt
      let l ← pList (pList pRat)
      pure (v, c, z, a, m, b, l)) rest with
    | none => "bad-op"
    | some (v, c, z, a, m, b, l) => fmtCrop (cropToTrueMask v a (toBoolArr m) b c z l)
  | "api" :: rest =>
    match runP (do
      let v ← pVar; let order ← pNat; let m ← pMode
      let a ← pArr; let cs ← pList pPt; let ph ← pNat; let pw ← pNat; let o ← pOffs; let cv ← pRat
      pure (v, order, m, a, cs, ph, pw, o, cv)) rest with
    | none => "bad-op"
    | some (v, order, m, a, cs, ph, pw, o, cv) =>
      fmtRes (extractPatches v (ratSampler a cv) a cs ph pw o order m cv)
  | "lms" :: rest =>
    match runP (do
      let a ← pArr; let cs ← pList pPt; let ph ← pNat; let pw ← pNat; let o ← pOffs
      pure (a, cs, ph, pw, o)) rest with
    | none => "bad-op"
    | some (a, cs, ph, pw, o) => fmtRes (extractAroundLandmarks a cs ph pw o 0)
  | "list" :: rest =>
    match runP (do
      let v ← pVar; let order ← pNat; let m ← pMode
      let a ← pArr; let cs ← pList pPt; let ph ← pNat; let pw ← pNat; let o ← pOffs; let cv ← pRat
      pure (v, order, m, a, cs, ph, pw, o, cv)) rest with
    | none => "bad-op"
    | some (v, order, m, a, cs, ph, pw, o, cv) =>
      match extractPatches v (ratSampler a cv) a cs ph pw o order m cv with
      | .error e => fmtErr e
      | .ok out =>
        let l := toPatchList out cv
        s!"ok {l.length} ; " ++ " ; ".intercalate (l.map fmtArr)
  | "setapi" :: rest =>
    match runP (do
      let v ← pVar; let p ← pPatchArg; let a ← pArr; let cs ← pList pPt
      let off ← pOpt (do let r ← pInt; let c ← pInt; pure (r, c)); let oi ← pOpt pNat
      pure (v, p, a, cs, off, oi)) rest with
    | none => "bad-op"
    | some (v, p, a, cs, off, oi) => fmtRes (setPatchesApi v p a cs off oi 0)
  | "cptb" :: rest =>
    match runP (do let s ← pList pNat; let x ← pList pInt; pure (s, x)) rest with
    | none => "bad-op"
    | some (s, x) =>
      "ok " ++ " ".intercalate ((Src.constrainPointsToBounds (⟨0 :: s, []⟩ : NDArr Rat) x).map toString)
  | "btrue" :: rest =>
    match runP (do let c ← pBool; let m ← pArr; let b ← pInt; pure (c, m, b)) rest with
    | none => "bad-op"
    | some (c, m, b) => match Src.boundsTrue (toBoolArr m) b c with
      | .error e => fmtErr e
      | .ok (mn, mx) => "ok " ++ " ".intercalate (mn.map toString) ++ " | " ++ " ".intercalate (mx.map toString)
  | "pcb" :: rest =>
    match runP (do let pts ← pList (pList pRat); let b ← pRat; pure (pts, b)) rest with
    | none => "bad-op"
    | some (pts, b) => match Src.pcBounds pts b, Src.pcRange pts 0 with
      | .ok (mn, mx), .ok r => "ok " ++ fmtRats mn ++ " | " ++ fmtRats mx ++ " ; " ++ fmtRats r
      | .error e, _ => fmtErr e
      | _, .error e => fmtErr e
  | _ => "bad-op"

end MenpoModel.Drive.C13
