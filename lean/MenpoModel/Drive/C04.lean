/-
Line-protocol driver for the C04 models (pseudoinverse).  Parsing glue only; every number is an exact rational.

  hom  <Class> <d> <(d+1)² entries of h_matrix, row major> <k> <k·d coords xs> <k·d coords ys>
        → ok <(d+1)² entries of pinv.h_matrix> | <apply(t)(xs)> | <apply(pinv t)(ys)>        (a point outside the
          domain prints `none` once) ;  err singular
  tcoords <h> <w> <k> <2k coords xs> <2k coords ys>
        → ok <9 entries tcoords_to_image_coords> | <9 entries image_coords_to_tcoords> | <T(xs)> | <T⁻¹(ys)> ; err singular
  pwa  <np> <2np src> <2np tgt> <nt> <3nt trilist> <k> <2k xs> <k2> <2·k2 ys>
        → ok <apply(xs)> | <apply(pinv)(ys)> | <1 if the mesh is certified a triangulation in both directions, else 0>
                                                                 (`none` = TriangleContainmentError)
  pwaidx <np> <2np src> <2np tgt> <nt> <3nt trilist> <k> <2k xs>
        → ok <per point: `i alpha beta` of index_alpha_beta, or `none`> | <apply(xs)> | <pinv.apply(apply(xs))> | <certified>
  tps  <mode> <n> <2n src> <2n tgt> <m> <m × (q φ(q))> <k> <2k pts>      mode ∈ fit | pinvCoded | pinvFixed
        → ok <2k coords> ; err singular

operation sequences on one live object (`Core/C04Ops.lean`; the answers are `Live.run false …`, i.e. the definition the
operation-sequence theorems are about, matched with `statesAtQueries`):
  ops  <Class> <d> <(d+1)² h_matrix> <e> [<sid> <tid>] <n> <op>*n        e = 1: alignment with end point ids
        op ::= q <k> <k·d ys>                 pseudoinverse(), then its apply on ys
             | st <tid> <(d+1)² H>            set_target (H = the matrix the class fits to the new target)
             | ss <tid|-> <(d+1)² H>          from_vector_inplace / set_h_matrix / set_rotation_matrix
             | cb <tid|-> <(d+1)² M>          compose_before_inplace(M)
             | ca <tid|-> <(d+1)² M>          compose_after_inplace(M)
        → ok then per query:  <current h_matrix> | <pinv h_matrix or `singular`> | <pinv ends `sid tid` or `-`> | <pinv.apply(ys)>
  tpsops <n> <2n src> <2n tgt> <m> <m × (q φ(q))> <nops> <op>*      op ::= q <k> <2k pts> | st <2n tgt>
        → ok then per query:  <pinv.apply(pts)> (`singular` if the reverse system has no solution)
  pwaops <np> <2np src> <2np tgt> <nt> <3nt trilist> <nops> <op>*   op ::= q <k> <2k ys> | st <2np tgt>
        → ok then per query:  <pinv.apply(ys)> | <1 if the mesh of that moment is certified, else 0>
-/
import MenpoModel.Core.Codec
import MenpoModel.Core.C04Homog
import MenpoModel.Core.C04Warp
import MenpoModel.Core.C04Ops
import MenpoModel.Core.C04Mesh

namespace MenpoModel.Drive.C04
open MenpoModel.Codec MenpoModel.C04

def clsOf : String → Option Cls
  | "Homogeneous" => some .homogeneous | "Affine" => some .affine | "Similarity" => some .similarity
  | "Rotation" => some .rotation | "Translation" => some .translation | "UniformScale" => some .uniformScale
  | "NonUniformScale" => some .nonUniformScale | "AlignmentAffine" => some .alignmentAffine
  | "AlignmentSimilarity" => some .alignmentSimilarity | "AlignmentRotation" => some .alignmentRotation
  | "AlignmentTranslation" => some .alignmentTranslation | "AlignmentUniformScale" => some .alignmentUniformScale
  | _ => none

def matOf (n : Nat) (l : List Rat) : Mat n := fun i j => l.getD (i.val * n + j.val) 0
def vecOf (d : Nat) (l : List Rat) (k : Nat) : Vec d := fun i => l.getD (k * d + i.val) 0
def fmtM {n : Nat} (A : Mat n) : String :=
  fmtRats ((List.finRange n).flatMap fun i => (List.finRange n).map fun j => A i j)
def fmtOV {d : Nat} (v : Option (Vec d)) : String :=
  match v with
  | none => "none"
  | some v => fmtRats ((List.finRange d).map v)
def fmtOP (p : Option P2) : String :=
  match p with
  | none => "none"
  | some p => fmtRats [p.x, p.y]
def p2s (l : List Rat) : List P2 := (List.range (l.length / 2)).map fun k => ⟨l.getD (2 * k) 0, l.getD (2 * k + 1) 0⟩
def p2f (n : Nat) (l : List Rat) : Fin n → P2 := fun i => ⟨l.getD (2 * i.val) 0, l.getD (2 * i.val + 1) 0⟩

def homOp (c : Cls) (d : Nat) (h : List Rat) (k : Nat) (xs ys : List Rat) : String :=
  let t : HT d Unit := ⟨c, matOf (d + 1) h, none⟩
  match pinv t with
  | none => "err singular"
  | some u =>
    "ok " ++ fmtM u.h ++ " | " ++ " ".intercalate ((List.range k).map fun i => fmtOV (t.apply (vecOf d xs i)))
      ++ " | " ++ " ".intercalate ((List.range k).map fun i => fmtOV (u.apply (vecOf d ys i)))

def tcoordsOp (h w : Rat) (k : Nat) (xs ys : List Rat) : String :=
  let T := tcoordsToImage h w
  match imageToTcoords h w with
  | none => "err singular"
  | some B =>
    "ok " ++ fmtM T ++ " | " ++ fmtM B ++ " | "
      ++ " ".intercalate ((List.range k).map fun i => fmtOV (applyH T (vecOf 2 xs i)))
      ++ " | " ++ " ".intercalate ((List.range k).map fun i => fmtOV (applyH B (vecOf 2 ys i)))

def pwaOp (src tgt : List Rat) (tris : List Nat) (xs ys : List Rat) : String :=
  let tl := (List.range (tris.length / 3)).map fun k => (tris.getD (3 * k) 0, tris.getD (3 * k + 1) 0, tris.getD (3 * k + 2) 0)
  let m : PWAMesh := ⟨p2s src, p2s tgt, tl⟩
  let f := m.toPWA
  let b := m.pinv.toPWA
  "ok " ++ " ".intercalate ((p2s xs).map fun p => fmtOP (f.apply p)) ++ " | "
    ++ " ".intercalate ((p2s ys).map fun p => fmtOP (b.apply p)) ++ " | " ++ (if m.certified then "1" else "0")

/-- `index_alpha_beta(points)` of the forward warp: per point `i alpha beta`, or `none` (its entry of the error mask) -/
def pwaIdxOp (src tgt : List Rat) (tris : List Nat) (xs : List Rat) : String :=
  let tl := (List.range (tris.length / 3)).map fun k => (tris.getD (3 * k) 0, tris.getD (3 * k + 1) 0, tris.getD (3 * k + 2) 0)
  let m : PWAMesh := ⟨p2s src, p2s tgt, tl⟩
  let f := m.toPWA
  let b := m.pinv.toPWA
  "ok " ++ " ".intercalate ((p2s xs).map fun p => match f.indexAB p with
      | none => "none"
      | some (i, a, b) => toString i ++ " " ++ fmtRat a ++ " " ++ fmtRat b) ++ " | "
    ++ " ".intercalate ((p2s xs).map fun p => fmtOP (f.apply p)) ++ " | "
    ++ " ".intercalate ((p2s xs).map fun p => fmtOP ((f.apply p).bind b.apply)) ++ " | "
    ++ (if m.certified then "1" else "0")

def tpsOp (mode : String) (n : Nat) (src tgt : List Rat) (tab : List Rat) (pts : List Rat) : String :=
  let table := (List.range (tab.length / 2)).map fun k => (tab.getD (2 * k) 0, tab.getD (2 * k + 1) 0)
  let φ : Rat → Rat := fun q => match table.find? (fun e => e.1 == q) with | some e => e.2 | none => 0
  let t0 : TPS n := TPS.fit (p2f n src) (p2f n tgt)
  let t := if mode == "pinvCoded" then t0.pinvCoded else if mode == "pinvFixed" then t0.pinvFixed else t0
  match t.coef φ with
  | none => "err singular"
  | some C => "ok " ++ " ".intercalate ((p2s pts).map fun p => fmtOP (some (t.eval φ C p)))

/-! ### operation sequences -/

def pTid : P (Option Nat) := do
  let t ← tok
  if t == "-" then pure none else (t.toNat?.map some : Option (Option Nat))

/-- one operation of the homogeneous family; queries carry their probe points -/
def pHomOp (d : Nat) : P (Option (Op d Nat) × List Rat) := do
  let t ← tok
  if t == "q" then
    let k ← pNat; let ys ← pMany pRat (k * d); pure (none, ys)
  else if t == "st" then
    let tid ← pNat; let h ← pMany pRat ((d + 1) * (d + 1)); pure (some (.setTarget tid (matOf (d + 1) h)), [])
  else
    let tid ← pTid; let h ← pMany pRat ((d + 1) * (d + 1))
    if t == "ss" then pure (some (.setState (matOf (d + 1) h) tid), [])
    else if t == "cb" then pure (some (.composeBefore (matOf (d + 1) h) tid), [])
    else if t == "ca" then pure (some (.composeAfter (matOf (d + 1) h) tid), [])
    else failure

def fmtEnds (e : Option (Nat × Nat)) : String :=
  match e with
  | none => "-"
  | some (a, b) => toString a ++ " " ++ toString b

def homOps (c : Cls) (d : Nat) (h : List Rat) (ends : Option (Nat × Nat)) (ops : List (Option (Op d Nat) × List Rat)) :
    String :=
  let t : HT d Nat := ⟨c, matOf (d + 1) h, ends⟩
  let ol := ops.map Prod.fst
  let answers := Live.run false pinv HT.act (Live.fresh t) ol
  let states := statesAtQueries HT.act t ol
  let probes := (ops.filter fun o => o.1.isNone).map Prod.snd
  let one : HT d Nat × Option (HT d Nat) × List Rat → String := fun (s, a, ys) =>
    fmtM s.h ++ " | " ++ (match a with
      | none => "singular | - | -"
      | some u => fmtM u.h ++ " | " ++ fmtEnds u.ends ++ " | " ++
          " ".intercalate ((List.range (ys.length / d)).map fun i => fmtOV (u.apply (vecOf d ys i))))
  "ok " ++ " | ".intercalate ((states.zip (answers.zip probes)).map one)

def pTpsOp (n : Nat) : P (Option (Fin n → P2) × List Rat) := do
  let t ← tok
  if t == "q" then
    let k ← pNat; let ys ← pMany pRat (2 * k); pure (none, ys)
  else if t == "st" then
    let tg ← pMany pRat (2 * n); pure (some (p2f n tg), [])
  else failure

def tpsOps (n : Nat) (src tgt : List Rat) (tab : List Rat) (ops : List (Option (Fin n → P2) × List Rat)) : String :=
  let table := (List.range (tab.length / 2)).map fun k => (tab.getD (2 * k) 0, tab.getD (2 * k + 1) 0)
  let φ : Rat → Rat := fun q => match table.find? (fun e => e.1 == q) with | some e => e.2 | none => 0
  let t0 : TPS n := TPS.fit (p2f n src) (p2f n tgt)
  let answers := Live.run false TPS.pinvFixed TPS.setTarget (Live.fresh t0) (ops.map Prod.fst)
  let probes := (ops.filter fun o => o.1.isNone).map Prod.snd
  "ok " ++ " | ".intercalate ((answers.zip probes).map fun (a, ys) =>
    match a.coef φ with
    | none => "singular"
    | some C => " ".intercalate ((p2s ys).map fun p => fmtOP (some (a.eval φ C p))))

def pPwaOp (np : Nat) : P (Option (List P2) × List Rat) := do
  let t ← tok
  if t == "q" then
    let k ← pNat; let ys ← pMany pRat (2 * k); pure (none, ys)
  else if t == "st" then
    let tg ← pMany pRat (2 * np); pure (some (p2s tg), [])
  else failure

def pwaOps (src tgt : List Rat) (tris : List Nat) (ops : List (Option (List P2) × List Rat)) : String :=
  let tl := (List.range (tris.length / 3)).map fun k => (tris.getD (3 * k) 0, tris.getD (3 * k + 1) 0, tris.getD (3 * k + 2) 0)
  let m : PWAMesh := ⟨p2s src, p2s tgt, tl⟩
  let answers := Live.run false PWAMesh.pinv PWAMesh.setTarget (Live.fresh m) (ops.map Prod.fst)
  let states := statesAtQueries PWAMesh.setTarget m (ops.map Prod.fst)
  let probes := (ops.filter fun o => o.1.isNone).map Prod.snd
  "ok " ++ " | ".intercalate ((states.zip (answers.zip probes)).map fun (s, a, ys) =>
    " ".intercalate ((p2s ys).map fun p => fmtOP (a.toPWA.apply p)) ++ " | " ++ (if s.certified then "1" else "0"))

def step (toks : List String) : String :=
  match toks with
  | "hom" :: c :: rest =>
    match clsOf c, runP (do
        let d ← pNat; let h ← pMany pRat ((d + 1) * (d + 1)); let k ← pNat
        let xs ← pMany pRat (k * d); let ys ← pMany pRat (k * d); pure (d, h, k, xs, ys)) rest with
    | some c, some (d, h, k, xs, ys) => homOp c d h k xs ys
    | _, _ => "bad-op"
  | "tcoords" :: rest =>
    match runP (do
        let h ← pRat; let w ← pRat; let k ← pNat
        let xs ← pMany pRat (k * 2); let ys ← pMany pRat (k * 2); pure (h, w, k, xs, ys)) rest with
    | some (h, w, k, xs, ys) => tcoordsOp h w k xs ys
    | none => "bad-op"
  | "pwa" :: rest =>
    match runP (do
        let np ← pNat; let src ← pMany pRat (2 * np); let tgt ← pMany pRat (2 * np)
        let nt ← pNat; let tris ← pMany pNat (3 * nt); let k ← pNat
        let xs ← pMany pRat (2 * k); let k2 ← pNat; let ys ← pMany pRat (2 * k2)
        pure (src, tgt, tris, xs, ys)) rest with
    | some (src, tgt, tris, xs, ys) => pwaOp src tgt tris xs ys
    | none => "bad-op"
  | "pwaidx" :: rest =>
    match runP (do
        let np ← pNat; let src ← pMany pRat (2 * np); let tgt ← pMany pRat (2 * np)
        let nt ← pNat; let tris ← pMany pNat (3 * nt); let k ← pNat
        let xs ← pMany pRat (2 * k); pure (src, tgt, tris, xs)) rest with
    | some (src, tgt, tris, xs) => pwaIdxOp src tgt tris xs
    | none => "bad-op"
  | "tps" :: mode :: rest =>
    match runP (do
        let n ← pNat; let src ← pMany pRat (2 * n); let tgt ← pMany pRat (2 * n)
        let m ← pNat; let tab ← pMany pRat (2 * m); let k ← pNat; let pts ← pMany pRat (2 * k)
        pure (n, src, tgt, tab, pts)) rest with
    | some (n, src, tgt, tab, pts) => tpsOp mode n src tgt tab pts
    | none => "bad-op"
  | "ops" :: c :: rest =>
    match clsOf c with
    | none => "bad-op"
    | some c =>
      match (do
          let d ← pNat
          let h ← pMany pRat ((d + 1) * (d + 1))
          let e ← pNat
          let ends ← (if e == 1 then (do let a ← pNat; let b ← pNat; pure (some (a, b))) else pure none : P (Option (Nat × Nat)))
          let n ← pNat
          let ops ← pMany (pHomOp d) n
          pEnd
          pure (homOps c d h ends ops) : P String) rest with
      | some (r, _) => r
      | none => "bad-op"
  | "tpsops" :: rest =>
    match (do
        let n ← pNat; let src ← pMany pRat (2 * n); let tgt ← pMany pRat (2 * n)
        let m ← pNat; let tab ← pMany pRat (2 * m); let k ← pNat
        let ops ← pMany (pTpsOp n) k
        pEnd
        pure (tpsOps n src tgt tab ops) : P String) rest with
    | some (r, _) => r
    | none => "bad-op"
  | "pwaops" :: rest =>
    match (do
        let np ← pNat; let src ← pMany pRat (2 * np); let tgt ← pMany pRat (2 * np)
        let nt ← pNat; let tris ← pMany pNat (3 * nt); let k ← pNat
        let ops ← pMany (pPwaOp np) k
        pEnd
        pure (pwaOps src tgt tris ops) : P String) rest with
    | some (r, _) => r
    | none => "bad-op"
  | _ => "bad-op"

end MenpoModel.Drive.C04
