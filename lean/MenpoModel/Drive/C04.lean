/-
Line-protocol driver for the C04 models (pseudoinverse).  Parsing glue only; every number is an exact rational.

  hom  <Class> <d> <(d+1)² entries of h_matrix, row major> <k> <k·d coords xs> <k·d coords ys>
        → ok <(d+1)² entries of pinv.h_matrix> | <apply(t)(xs)> | <apply(pinv t)(ys)>        (a point outside the
          domain prints `none` once) ;  err singular
  tcoords <h> <w> <k> <2k coords xs> <2k coords ys>
        → ok <9 entries tcoords_to_image_coords> | <9 entries image_coords_to_tcoords> | <T(xs)> | <T⁻¹(ys)> ; err singular
  pwa  <np> <2np src> <2np tgt> <nt> <3nt trilist> <k> <2k xs> <2k ys>
        → ok <apply(xs)> | <apply(pinv)(ys)>                    (`none` = TriangleContainmentError)
  tps  <mode> <n> <2n src> <2n tgt> <m> <m × (q φ(q))> <k> <2k pts>      mode ∈ fit | pinvCoded | pinvFixed
        → ok <2k coords> ; err singular
-/
import MenpoModel.Core.Codec
import MenpoModel.Core.C04Homog
import MenpoModel.Core.C04Warp

namespace MenpoModel.Drive.C04
open MenpoModel.Codec MenpoModel.C04

def clsOf : String → Option Cls
  | "Homogeneous" => some .homogeneous | "Affine" => some .affine | "Similarity" => some .similarity
  | "Rotation" => some .rotation | "Translation" => some .translation | "UniformScale" => some .uniformScale
  | "NonUniformScale" => some .nonUniformScale | "AlignmentAffine" => some .alignmentAffine
  | "AlignmentSimilarity" => some .alignmentSimilarity | "AlignmentRotation" => some .alignmentRotation
  | "AlignmentTranslation" => some .alignmentTranslation | "AlignmentUniformScale" => some .alignmentUniformScale
  | _ => none

def matOf (n : Nat) (l : List Rat) : Mat n := fun i j => l.getD (i.val * n + j.val) 0
def vecOf (d : Nat) (l : List Rat) (k : Nat) : Vec d := fun i => l.getD (k * d + i.val) 0
def fmtM {n : Nat} (A : Mat n) : String :=
  fmtRats ((List.finRange n).flatMap fun i => (List.finRange n).map fun j => A i j)
def fmtOV {d : Nat} (v : Option (Vec d)) : String :=
  match v with
  | none => "none"
  | some v => fmtRats ((List.finRange d).map v)
def fmtOP (p : Option P2) : String :=
  match p with
  | none => "none"
  | some p => fmtRats [p.x, p.y]
def p2s (l : List Rat) : List P2 := (List.range (l.length / 2)).map fun k => ⟨l.getD (2 * k) 0, l.getD (2 * k + 1) 0⟩
def p2f (n : Nat) (l : List Rat) : Fin n → P2 := fun i => ⟨l.getD (2 * i.val) 0, l.getD (2 * i.val + 1) 0⟩

def homOp (c : Cls) (d : Nat) (h : List Rat) (k : Nat) (xs ys : List Rat) : String :=
  let t : HT d Unit := ⟨c, matOf (d + 1) h, none⟩
  match pinv t with
  | none => "err singular"
  | some u =>
    "ok " ++ fmtM u.h ++ " | " ++ " ".intercalate ((List.range k).map fun i => fmtOV (t.apply (vecOf d xs i)))
      ++ " | " ++ " ".intercalate ((List.range k).map fun i => fmtOV (u.apply (vecOf d ys i)))

def tcoordsOp (h w : Rat) (k : Nat) (xs ys : List Rat) : String :=
  let T := tcoordsToImage h w
  match imageToTcoords h w with
  | none => "err singular"
  | some B =>
    "ok " ++ fmtM T ++ " | " ++ fmtM B ++ " | "
      ++ " ".intercalate ((List.range k).map fun i => fmtOV (applyH T (vecOf 2 xs i)))
      ++ " | " ++ " ".intercalate ((List.range k).map fun i => fmtOV (applyH B (vecOf 2 ys i)))

def pwaOp (src tgt : List Rat) (tris : List Nat) (xs ys : List Rat) : String :=
  let tl := (List.range (tris.length / 3)).map fun k => (tris.getD (3 * k) 0, tris.getD (3 * k + 1) 0, tris.getD (3 * k + 2) 0)
  let m : PWAMesh := ⟨p2s src, p2s tgt, tl⟩
  let f := m.toPWA
  let b := m.pinv.toPWA
  "ok " ++ " ".intercalate ((p2s xs).map fun p => fmtOP (f.apply p)) ++ " | "
    ++ " ".intercalate ((p2s ys).map fun p => fmtOP (b.apply p))

def tpsOp (mode : String) (n : Nat) (src tgt : List Rat) (tab : List Rat) (pts : List Rat) : String :=
  let table := (List.range (tab.length / 2)).map fun k => (tab.getD (2 * k) 0, tab.getD (2 * k + 1) 0)
  let φ : Rat → Rat := fun q => match table.find? (fun e => e.1 == q) with | some e => e.2 | none => 0
  let t0 : TPS n := TPS.fit (p2f n src) (p2f n tgt)
  let t := if mode == "pinvCoded" then t0.pinvCoded else if mode == "pinvFixed" then t0.pinvFixed else t0
  match t.coef φ with
  | none => "err singular"
  | some C => "ok " ++ " ".intercalate ((p2s pts).map fun p => fmtOP (some (t.eval φ C p)))

def step (toks : List String) : String :=
  match toks with
  | "hom" :: c :: rest =>
    match clsOf c, runP (do
        let d ← pNat; let h ← pMany pRat ((d + 1) * (d + 1)); let k ← pNat
        let xs ← pMany pRat (k * d); let ys ← pMany pRat (k * d); pure (d, h, k, xs, ys)) rest with
    | some c, some (d, h, k, xs, ys) => homOp c d h k xs ys
    | _, _ => "bad-op"
  | "tcoords" :: rest =>
    match runP (do
        let h ← pRat; let w ← pRat; let k ← pNat
        let xs ← pMany pRat (k * 2); let ys ← pMany pRat (k * 2); pure (h, w, k, xs, ys)) rest with
    | some (h, w, k, xs, ys) => tcoordsOp h w k xs ys
    | none => "bad-op"
  | "pwa" :: rest =>
    match runP (do
        let np ← pNat; let src ← pMany pRat (2 * np); let tgt ← pMany pRat (2 * np)
        let nt ← pNat; let tris ← pMany pNat (3 * nt); let k ← pNat
        let xs ← pMany pRat (2 * k); let ys ← pMany pRat (2 * k); pure (src, tgt, tris, xs, ys)) rest with
    | some (src, tgt, tris, xs, ys) => pwaOp src tgt tris xs ys
    | none => "bad-op"
  | "tps" :: mode :: rest =>
    match runP (do
        let n ← pNat; let src ← pMany pRat (2 * n); let tgt ← pMany pRat (2 * n)
        let m ← pNat; let tab ← pMany pRat (2 * m); let k ← pNat; let pts ← pMany pRat (2 * k)
        pure (n, src, tgt, tab, pts)) rest with
    | some (n, src, tgt, tab, pts) => tpsOp mode n src tgt tab pts
    | none => "bad-op"
  | _ => "bad-op"

end MenpoModel.Drive.C04
