/-
Line-protocol driver for the C18 models.  Parsing glue only.

ops
  rebuild <hasMask> <nd> old₁…old_nd new₁…new_nd <nbits> bits… <ngroups> (key npts coords…)*
      → ok masked|plain S <shape…> M <one char per mask pixel: 0 1 (binary64 chain) | d (degenerate axis)> L <coords…>
  winit <hasMask> <h> <w> <nbits> bits… <rows> <cols> (r c)* <ngroups> (key npts coords…)*
      → ok masked|plain S <rows> <cols> M <bits> L <coords…>
  norm <stat> <mode> <errOnZero> <fixed> <C> <N> data… [<k> scales…]      stat ∈ one | var | given
      → ok values… | err zero|index|nonfinite
  normimg <stat> <mode> <errOnZero> <fixed> <C> <N> data… <nbits> bits… [<k> scales…]
      → ok values… (full pixel array, zeros outside the mask)
  stats <mode> <C> <N> data…      → ok V var-per-group… Q sumsq-per-group… M mean-per-group…   (of the centred data / raw data)
  normnd <stat> <mode> <errOnZero> <fixed> <C> <N> data… <hasMask> <nbits> bits… [<k> scales…]
      → the decorated normalisers (normalize_std/norm/var) on an image: ok values… | err …
  norms <stat> <mode> <errOnZero> <fixed> <C> <N> data… [<k> scales…]
      → ok <input buffer unchanged 0|1> <result buffer is a new one 0|1> values…
  grad <isU8> <C> <H> <W> data…                      → ok F <flat N-D variant agrees 0|1> V values… | err type|small
  gradnd <nd> shape… <C> data…                        → ok values… | err small          (3-D images)
  igo <dbl> <C> <H> <W> data… <k> (gy gx mag)*        → ok values… | err small          (mag: the contract parameter)
  es <C> <H> <W> data… <k> (gy gx mag)*               → ok values… (nan = 0/0) | err small
  gauss <C> <H> <W> data… <hasY> [w0 r ws…] <hasX> [w0 r ws…]
      → ok T <total of each kernel…> F <flat N-D variant agrees 0|1> V values…
  gaussnd <nd> shape… <C> data… (<has> [w0 r ws…]){nd}  → ok values…          (3-D images)
  notwod <nDims>                                      → err not2d | err not2d   (igo | es on an image that is not 2-D)
  daisyshape <H> <W> <radius> <step> <rings> <histograms> <orientations>   → ok <channels> <h> <w>
  noops <C> <N> data…                                 → ok <input buffer unchanged> <result in a new buffer> values…
  sumch <C> <H> <W> data… <hasChannels> [<k> idx…]    → ok values…                      (sum_channels)
  daisyplumb <step> <radius> <rings> <hist> <ori> <norm: none|l1|l2|daisy|off|other> <hasSigmas> [<k> s…] <hasRadii> [<k> r…]
      → ok <step> <radius> <rings> <hist> <ori> <norm> S <k> sigmas… R <k> ring radii… | err value|index
        (what `menpo.feature.daisy` hands to `_daisy`, or the exception raised before the call)
-/
import MenpoModel.Core.Codec
import MenpoModel.Core.C18Feature
import MenpoModel.Core.C18Kernels
import MenpoModel.Core.C18Src

namespace MenpoModel.Drive.C18
open MenpoModel.Codec MenpoModel.C18

def pLms (nd : Nat) : P Lms := pList (do
  let key ← pNat
  let pts ← pList (pMany pRat nd)
  pure (key, pts))

def fLms (l : Lms) : String := fmtRats (l.flatMap fun kg => kg.2.flatten)

def pMode : P Mode := do
  let t ← tok
  if t == "all" then pure .all else if t == "per_channel" then pure .perChannel else failure

def fNErr : NErr → String
  | .zeroScale => "err zero"
  | .index => "err index"
  | .nonFinite => "err nonfinite"

def fErr : Err → String
  | .feature _ => "err feature"
  | .scale => "err scale"
  | .dims => "err dims"
  | .index => "err index"
  | .maskShape => "err maskshape"

/-- the contract parameter as a function: `one`, exact `var`, or the table (centred group ↦ given scale) -/
def mkStat (kind : String) (mode : Mode) (c : Chans) (scales : List Rat) : Option (List Rat → Rat) :=
  match kind with
  | "one" => some fun _ => 1
  | "var" => some var
  | "given" =>
    let groups := match mode with | .all => [c.flatten] | .perChannel => c
    if groups.length ≠ scales.length then none
    else
      let table := groups.zip scales
      some fun l => ((table.find? (·.1 == l)).map (·.2)).getD 1
  | _ => none

def fErrK : Err → String
  | .feature 10 => "err type"
  | .feature 11 => "err small"
  | .feature 12 => "err not2d"
  | e => fErr e

def pPx : P (Px × Nat × Nat) := do
  let c ← pNat; let h ← pNat; let w ← pNat
  let x ← pMany (pMany (pMany pRat w) h) c
  pure (x, h, w)

/-- the magnitude contract parameter as a function: a table `(g_y, g_x) ↦ |g|` supplied by the harness -/
def pMag : P (Rat → Rat → Rat) := do
  let tbl ← pList (do let a ← pRat; let b ← pRat; let m ← pRat; pure (a, b, m))
  pure fun a b => ((tbl.find? fun t => t.1 == a && t.2.1 == b).map (·.2.2)).getD 0

def pKern : P (Option Kern) := do
  let has ← pBool
  if has then
    let w0 ← pRat
    let ws ← pList pRat
    pure (some ⟨w0, ws⟩)
  else pure none

def fOpt : Option Rat → String
  | none => "nan"
  | some r => fmtRat r

def pScales (kind : String) : P (List Rat) := if kind == "given" then pList pRat else pure []

def maskChars (m m' : Mask) (new : List Nat) : String :=
  if degenerateAxes m.shape new then " ".intercalate ((List.range (prod new)).map fun _ => "d")
  else fmtBools m'.bits

def step (toks : List String) : String :=
  match toks with
  | "rebuild" :: r =>
    match runP (do
        let hm ← pBool; let nd ← pNat
        let old ← pMany pNat nd; let new ← pMany pNat nd
        let bits ← pList pBool
        let lms ← pLms nd
        pure (hm, old, new, bits, lms)) r with
    | some (hm, old, new, bits, lms) =>
      let im : Img (List Nat) := ⟨old, if hm then some ⟨old, bits⟩ else none, lms⟩
      match rebuild id im new with
      | .error e => fErr e
      | .ok res =>
        let ms := match res.mask, im.mask with
          | some m', some m =>
            if new != old then "S " ++ fmtNats m'.shape ++ " M " ++ maskChars m m' new
            else "S " ++ fmtNats m'.shape ++ " M " ++ fmtBools m'.bits
          | _, _ => "S M"
        "ok " ++ (if res.mask.isSome then "masked " else "plain ") ++ ms ++ " L " ++ fLms res.lms
    | none => "bad-op"
  | "winit" :: r =>
    match runP (do
        let hm ← pBool; let h ← pNat; let w ← pNat
        let bits ← pList pBool
        let rows ← pNat; let cols ← pNat
        let cs ← pMany (pMany (do let a ← pNat; let b ← pNat; pure (a, b)) cols) rows
        let lms ← pLms 2
        pure (hm, h, w, bits, cs, lms)) r with
    | some (hm, h, w, bits, cs, lms) =>
      let im : Img (List Nat) := ⟨[h, w], if hm then some ⟨[h, w], bits⟩ else none, lms⟩
      match rebuildCentres im [cs.length, (cs.headD []).length] cs with
      | .error e => fErr e
      | .ok res =>
        let ms := match res.mask with
          | some m' => "S " ++ fmtNats m'.shape ++ " M " ++ fmtBools m'.bits
          | none => "S M"
        "ok " ++ (if res.mask.isSome then "masked " else "plain ") ++ ms ++ " L " ++ fLms res.lms
    | none => "bad-op"
  | "norm" :: kind :: r =>
    match runP (do
        let mode ← pMode; let e ← pBool; let fx ← pBool
        let c ← pNat; let n ← pNat
        let x ← pMany (pMany pRat n) c
        let sc ← pScales kind
        pure (mode, e, fx, x, sc)) r with
    | some (mode, e, fx, x, sc) =>
      match mkStat kind mode (centre mode x) sc with
      | none => "bad-op"
      | some stat => match normalizeV stat mode e fx x with
        | .error err => fNErr err
        | .ok out => "ok " ++ fmtRats out.flatten
    | none => "bad-op"
  | "normimg" :: kind :: r =>
    match runP (do
        let mode ← pMode; let e ← pBool; let fx ← pBool
        let c ← pNat; let n ← pNat
        let x ← pMany (pMany pRat n) c
        let bits ← pList pBool
        let sc ← pScales kind
        pure (mode, e, fx, x, bits, sc)) r with
    | some (mode, e, fx, x, bits, sc) =>
      let data := if bits.all id then x else x.map (gather bits)
      match mkStat kind mode (centre mode data) sc with
      | none => "bad-op"
      | some stat =>
        let im : Img Arr := ⟨⟨[bits.length], x⟩, some ⟨[bits.length], bits⟩, []⟩
        match normalizeImg stat mode e fx im with
        | .error err => fNErr err
        | .ok out => "ok " ++ fmtRats out.pixels.chans.flatten
    | none => "bad-op"
  | "normnd" :: kind :: r =>
    match runP (do
        let mode ← pMode; let e ← pBool; let fx ← pBool
        let c ← pNat; let n ← pNat
        let x ← pMany (pMany pRat n) c
        let hm ← pBool
        let bits ← pList pBool
        let sc ← pScales kind
        pure (mode, e, fx, x, hm, bits, sc)) r with
    | some (mode, e, fx, x, hm, bits, sc) =>
      match mkStat kind mode (centre mode x) sc with
      | none => "bad-op"
      | some stat =>
        let n := (x.headD []).length
        let im : Img Arr := ⟨⟨[n], x⟩, if hm then some ⟨[n], bits⟩ else none, []⟩
        match normalizeNd stat mode e fx (.img im) with
        | .error (.feature 1) => "err zero"
        | .error (.feature 2) => "err index"
        | .error (.feature 3) => "err nonfinite"
        | .error err => fErr err
        | .ok (.img out) =>
          (if out.mask == im.mask then "ok " else "ok-mask-changed ") ++ fmtRats out.pixels.chans.flatten
        | .ok (.arr _) => "bad-op"
    | none => "bad-op"
  | "stats" :: r =>
    match runP (do
        let mode ← pMode
        let c ← pNat; let n ← pNat
        let x ← pMany (pMany pRat n) c
        pure (mode, x)) r with
    | some (mode, x) =>
      let cen := centre mode x
      let groups := match mode with | .all => [cen.flatten] | .perChannel => cen
      let raw := match mode with | .all => [x.flatten] | .perChannel => x
      "ok V " ++ fmtRats (groups.map var) ++ " Q " ++ fmtRats (groups.map sumsq) ++ " M " ++ fmtRats (raw.map mean)
    | none => "bad-op"
  | "norms" :: kind :: r =>
    match runP (do
        let mode ← pMode; let e ← pBool; let fx ← pBool
        let c ← pNat; let n ← pNat
        let x ← pMany (pMany pRat n) c
        let sc ← pScales kind
        pure (mode, e, fx, x, sc)) r with
    | some (mode, e, fx, x, sc) =>
      match mkStat kind mode (centre mode x) sc with
      | none => "bad-op"
      | some stat =>
        let s0 : Store := ⟨[x]⟩
        match normalizeS stat mode e fx s0 0 with
        | .error err => fNErr err
        | .ok (s', j) =>
          "ok " ++ (if s'.read 0 == x then "1 " else "0 ") ++ (if decide (1 ≤ j) then "1 " else "0 ")
            ++ fmtRats (s'.read j).flatten
    | none => "bad-op"
  | "grad" :: r =>
    match runP (do let u8 ← pBool; let x ← pPx; pure (u8, x)) r with
    | some (u8, (x, h, w)) =>
      match gradient2 u8 x with
      | .error e => fErrK e
      | .ok g =>
        let flat := gradientFlat [h, w] (x.map List.flatten)
        let same := match flat with
          | .ok f => f == g.map List.flatten
          | .error _ => false
        "ok F " ++ (if same then "1" else "0") ++ " V " ++ fmtRats (g.map List.flatten).flatten
    | none => "bad-op"
  | "gradnd" :: r =>
    match runP (do
        let shape ← pList pNat
        let c ← pNat
        let x ← pMany (pMany pRat (prod shape)) c
        pure (shape, x)) r with
    | some (shape, x) =>
      match gradientFlat shape x with
      | .error e => fErrK e
      | .ok g => "ok " ++ fmtRats g.flatten
    | none => "bad-op"
  | "notwod" :: r =>
    match runP (do let nd ← pNat; pure nd) r with
    | some nd =>
      match igoChecked (fun _ _ => 1) false nd [], esChecked (fun _ _ => 1) nd [] with
      | .error e1, .error e2 => fErrK e1 ++ " | " ++ fErrK e2
      | _, _ => "ok"
    | none => "bad-op"
  | "igo" :: r =>
    match runP (do let dbl ← pBool; let x ← pPx; let mag ← pMag; pure (dbl, x, mag)) r with
    | some (dbl, (x, _, _), mag) =>
      match igoChecked mag dbl 2 x with
      | .error e => fErrK e
      | .ok g => "ok " ++ fmtRats (g.map List.flatten).flatten
    | none => "bad-op"
  | "es" :: r =>
    match runP (do let x ← pPx; let mag ← pMag; pure (x, mag)) r with
    | some ((x, _, _), mag) =>
      match esChecked mag 2 x with
      | .error e => fErrK e
      | .ok g => "ok " ++ " ".intercalate ((g.map List.flatten).flatten.map fOpt)
    | none => "bad-op"
  | "gauss" :: r =>
    match runP (do let x ← pPx; let ky ← pKern; let kx ← pKern; pure (x, ky, kx)) r with
    | some ((x, h, w), ky, kx) =>
      match gauss2 ky kx x with
      | .error e => fErrK e
      | .ok g =>
        let same := gaussFlat [ky, kx] [h, w] (x.map List.flatten) == g.map List.flatten
        "ok T " ++ fmtRats ([ky, kx].filterMap fun k => k.map Kern.total) ++ " F " ++ (if same then "1" else "0")
          ++ " V " ++ fmtRats (g.map List.flatten).flatten
    | none => "bad-op"
  | "gaussnd" :: r =>
    match runP (do
        let shape ← pList pNat
        let c ← pNat
        let x ← pMany (pMany pRat (prod shape)) c
        let ks ← pMany pKern shape.length
        pure (shape, x, ks)) r with
    | some (shape, x, ks) => "ok " ++ fmtRats (gaussFlat ks shape x).flatten
    | none => "bad-op"
  | "daisyshape" :: r =>
    match runP (do
        let h ← pNat; let w ← pNat; let radius ← pNat; let st ← pNat
        let rings ← pNat; let hist ← pNat; let ori ← pNat
        pure (h, w, radius, st, rings, hist, ori)) r with
    | some (h, w, radius, st, rings, hist, ori) =>
      "ok " ++ toString (daisyChannels rings hist ori) ++ " " ++ fmtNats (daisyShape h w radius st)
    | none => "bad-op"
  | "noops" :: r =>
    match runP (do let c ← pNat; let n ← pNat; pMany (pMany pRat n) c) r with
    | some x =>
      let s0 : Store := ⟨[x]⟩
      match noOpS s0 0 with
      | .error e => fErrK e
      | .ok (s', j) =>
        "ok " ++ (if s'.read 0 == x then "1 " else "0 ") ++ (if decide (1 ≤ j) then "1 " else "0 ")
          ++ fmtRats (s'.read j).flatten
    | none => "bad-op"
  | "sumch" :: r =>
    match runP (do
        let x ← pPx
        let has ← pBool
        let idx ← if has then pList pNat else pure []
        pure (x, has, idx)) r with
    | some ((x, _, _), has, idx) =>
      match sumChannels2 (if has then some idx else none) x with
      | .error e => fErrK e
      | .ok g => "ok " ++ fmtRats (g.map List.flatten).flatten
    | none => "bad-op"
  | "daisyplumb" :: r =>
    match runP (do
        let st ← pNat; let radius ← pRat; let rings ← pInt; let hist ← pNat; let ori ← pNat
        let nz ← tok
        let hs ← pBool
        let sg ← if hs then pList pRat else pure []
        let hr ← pBool
        let rr ← if hr then pList pRat else pure []
        pure (st, radius, rings, hist, ori, nz, hs, sg, hr, rr)) r with
    | some (st, radius, rings, hist, ori, nz, hs, sg, hr, rr) =>
      let norm : Option (Option DaisyNorm) := match nz with
        | "none" => some none | "l1" => some (some .l1) | "l2" => some (some .l2) | "daisy" => some (some .daisy)
        | "off" => some (some .off) | "other" => some (some .other) | _ => none
      match norm with
      | none => "bad-op"
      | some nrm =>
        match daisyPlumb st radius rings hist ori nrm (if hs then some sg else none) (if hr then some rr else none) with
        | .error (.feature 13) => "err value"
        | .error (.feature 14) => "err index"
        | .error e => fErrK e
        | .ok c =>
          let nm := match c.normalization with
            | some .l1 => "l1" | some .l2 => "l2" | some .daisy => "daisy" | some .off => "off" | some .other => "other"
            | none => "none"
          let sl := c.sigmas.getD []
          let rl := c.ringRadii.getD []
          "ok " ++ toString c.step ++ " " ++ fmtRat c.radius ++ " " ++ toString c.rings ++ " " ++ toString c.histograms
            ++ " " ++ toString c.orientations ++ " " ++ nm ++ " S " ++ toString sl.length ++ " " ++ fmtRats sl
            ++ " R " ++ toString rl.length ++ " " ++ fmtRats rl
    | none => "bad-op"
  | _ => "bad-op"

end MenpoModel.Drive.C18
