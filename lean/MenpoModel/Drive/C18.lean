/-
Line-protocol driver for the C18 models.  Parsing glue only.

ops
  rebuild <hasMask> <nd> old₁…old_nd new₁…new_nd <nbits> bits… <ngroups> (key npts coords…)*
      → ok masked|plain S <shape…> M <one char per mask pixel: 0 1 | t0 t1 (tie) | d (degenerate)> L <coords…>
  winit <hasMask> <h> <w> <nbits> bits… <rows> <cols> (r c)* <ngroups> (key npts coords…)*
      → ok masked|plain S <rows> <cols> M <bits> L <coords…>
  norm <stat> <mode> <errOnZero> <fixed> <C> <N> data… [<k> scales…]      stat ∈ one | var | given
      → ok values… | err zero|index|nonfinite
  normimg <stat> <mode> <errOnZero> <fixed> <C> <N> data… <nbits> bits… [<k> scales…]
      → ok values… (full pixel array, zeros outside the mask)
  stats <mode> <C> <N> data…      → ok V var-per-group… Q sumsq-per-group… M mean-per-group…   (of the centred data / raw data)
  normnd <stat> <mode> <errOnZero> <fixed> <C> <N> data… <hasMask> <nbits> bits… [<k> scales…]
      → the decorated normalisers (normalize_std/norm/var) on an image: ok values… | err …
  norms <stat> <mode> <errOnZero> <fixed> <C> <N> data… [<k> scales…]
      → ok <input buffer unchanged 0|1> <result buffer is a new one 0|1> values…
-/
import MenpoModel.Core.Codec
import MenpoModel.Core.C18Feature

namespace MenpoModel.Drive.C18
open MenpoModel.Codec MenpoModel.C18

def pLms (nd : Nat) : P Lms := pList (do
  let key ← pNat
  let pts ← pList (pMany pRat nd)
  pure (key, pts))

def fLms (l : Lms) : String := fmtRats (l.flatMap fun kg => kg.2.flatten)

def pMode : P Mode := do
  let t ← tok
  if t == "all" then pure .all else if t == "per_channel" then pure .perChannel else failure

def fNErr : NErr → String
  | .zeroScale => "err zero"
  | .index => "err index"
  | .nonFinite => "err nonfinite"

def fErr : Err → String
  | .feature _ => "err feature"
  | .scale => "err scale"
  | .dims => "err dims"
  | .index => "err index"

/-- the contract parameter as a function: `one`, exact `var`, or the table (centred group ↦ given scale) -/
def mkStat (kind : String) (mode : Mode) (c : Chans) (scales : List Rat) : Option (List Rat → Rat) :=
  match kind with
  | "one" => some fun _ => 1
  | "var" => some var
  | "given" =>
    let groups := match mode with | .all => [c.flatten] | .perChannel => c
    if groups.length ≠ scales.length then none
    else
      let table := groups.zip scales
      some fun l => ((table.find? (·.1 == l)).map (·.2)).getD 1
  | _ => none

def pScales (kind : String) : P (List Rat) := if kind == "given" then pList pRat else pure []

def maskChars (m : Mask) (new : List Nat) : String :=
  " ".intercalate ((List.range (prod new)).map fun k =>
    match resizeBit m new k with
    | (none, _) => "d"
    | (some b, tie) => (if tie then "t" else "") ++ (if b then "1" else "0"))

def step (toks : List String) : String :=
  match toks with
  | "rebuild" :: r =>
    match runP (do
        let hm ← pBool; let nd ← pNat
        let old ← pMany pNat nd; let new ← pMany pNat nd
        let bits ← pList pBool
        let lms ← pLms nd
        pure (hm, old, new, bits, lms)) r with
    | some (hm, old, new, bits, lms) =>
      let im : Img (List Nat) := ⟨old, if hm then some ⟨old, bits⟩ else none, lms⟩
      match rebuild id im new with
      | .error e => fErr e
      | .ok res =>
        let ms := match res.mask, im.mask with
          | some m', some m =>
            if new != old then "S " ++ fmtNats m'.shape ++ " M " ++ maskChars m new
            else "S " ++ fmtNats m'.shape ++ " M " ++ fmtBools m'.bits
          | _, _ => "S M"
        "ok " ++ (if res.mask.isSome then "masked " else "plain ") ++ ms ++ " L " ++ fLms res.lms
    | none => "bad-op"
  | "winit" :: r =>
    match runP (do
        let hm ← pBool; let h ← pNat; let w ← pNat
        let bits ← pList pBool
        let rows ← pNat; let cols ← pNat
        let cs ← pMany (pMany (do let a ← pNat; let b ← pNat; pure (a, b)) cols) rows
        let lms ← pLms 2
        pure (hm, h, w, bits, cs, lms)) r with
    | some (hm, h, w, bits, cs, lms) =>
      let im : Img (List Nat) := ⟨[h, w], if hm then some ⟨[h, w], bits⟩ else none, lms⟩
      match rebuildCentres im [cs.length, (cs.headD []).length] cs with
      | .error e => fErr e
      | .ok res =>
        let ms := match res.mask with
          | some m' => "S " ++ fmtNats m'.shape ++ " M " ++ fmtBools m'.bits
          | none => "S M"
        "ok " ++ (if res.mask.isSome then "masked " else "plain ") ++ ms ++ " L " ++ fLms res.lms
    | none => "bad-op"
  | "norm" :: kind :: r =>
    match runP (do
        let mode ← pMode; let e ← pBool; let fx ← pBool
        let c ← pNat; let n ← pNat
        let x ← pMany (pMany pRat n) c
        let sc ← pScales kind
        pure (mode, e, fx, x, sc)) r with
    | some (mode, e, fx, x, sc) =>
      match mkStat kind mode (centre mode x) sc with
      | none => "bad-op"
      | some stat => match normalizeV stat mode e fx x with
        | .error err => fNErr err
        | .ok out => "ok " ++ fmtRats out.flatten
    | none => "bad-op"
  | "normimg" :: kind :: r =>
    match runP (do
        let mode ← pMode; let e ← pBool; let fx ← pBool
        let c ← pNat; let n ← pNat
        let x ← pMany (pMany pRat n) c
        let bits ← pList pBool
        let sc ← pScales kind
        pure (mode, e, fx, x, bits, sc)) r with
    | some (mode, e, fx, x, bits, sc) =>
      let data := if bits.all id then x else x.map (gather bits)
      match mkStat kind mode (centre mode data) sc with
      | none => "bad-op"
      | some stat =>
        let im : Img Arr := ⟨⟨[bits.length], x⟩, some ⟨[bits.length], bits⟩, []⟩
        match normalizeImg stat mode e fx im with
        | .error err => fNErr err
        | .ok out => "ok " ++ fmtRats out.pixels.chans.flatten
    | none => "bad-op"
  | "normnd" :: kind :: r =>
    match runP (do
        let mode ← pMode; let e ← pBool; let fx ← pBool
        let c ← pNat; let n ← pNat
        let x ← pMany (pMany pRat n) c
        let hm ← pBool
        let bits ← pList pBool
        let sc ← pScales kind
        pure (mode, e, fx, x, hm, bits, sc)) r with
    | some (mode, e, fx, x, hm, bits, sc) =>
      match mkStat kind mode (centre mode x) sc with
      | none => "bad-op"
      | some stat =>
        let n := (x.headD []).length
        let im : Img Arr := ⟨⟨[n], x⟩, if hm then some ⟨[n], bits⟩ else none, []⟩
        match normalizeNd stat mode e fx (.img im) with
        | .error (.feature 1) => "err zero"
        | .error (.feature 2) => "err index"
        | .error (.feature 3) => "err nonfinite"
        | .error err => fErr err
        | .ok (.img out) =>
          (if out.mask == im.mask then "ok " else "ok-mask-changed ") ++ fmtRats out.pixels.chans.flatten
        | .ok (.arr _) => "bad-op"
    | none => "bad-op"
  | "stats" :: r =>
    match runP (do
        let mode ← pMode
        let c ← pNat; let n ← pNat
        let x ← pMany (pMany pRat n) c
        pure (mode, x)) r with
    | some (mode, x) =>
      let cen := centre mode x
      let groups := match mode with | .all => [cen.flatten] | .perChannel => cen
      let raw := match mode with | .all => [x.flatten] | .perChannel => x
      "ok V " ++ fmtRats (groups.map var) ++ " Q " ++ fmtRats (groups.map sumsq) ++ " M " ++ fmtRats (raw.map mean)
    | none => "bad-op"
  | "norms" :: kind :: r =>
    match runP (do
        let mode ← pMode; let e ← pBool; let fx ← pBool
        let c ← pNat; let n ← pNat
        let x ← pMany (pMany pRat n) c
        let sc ← pScales kind
        pure (mode, e, fx, x, sc)) r with
    | some (mode, e, fx, x, sc) =>
      match mkStat kind mode (centre mode x) sc with
      | none => "bad-op"
      | some stat =>
        let s0 : Store := ⟨[x]⟩
        match normalizeS stat mode e fx s0 0 with
        | .error err => fNErr err
        | .ok (s', j) =>
          "ok " ++ (if s'.read 0 == x then "1 " else "0 ") ++ (if decide (1 ≤ j) then "1 " else "0 ")
            ++ fmtRats (s'.read j).flatten
    | none => "bad-op"
  | _ => "bad-op"

end MenpoModel.Drive.C18
