/-
Line-protocol driver for the C08 models.  Parsing / printing glue only; the state evolves through
`build`, `setTarget`, `history`, `hBuild`, `aStep` (`hStep`, `hWrite`), `absObj`, `gpa`, `refGpa` of
`Core/C08Retarget.lean` / `Core/C08Heap.lean`, instantiated with the table / symbolic fits of `Core/C08Table.lean`.

ops:
  hist <tree> <cls> <rot> <mir> <kernel> <minSV> <nvals> val… <narr> valId… <npc> arr… <nops> op…
       tree := fixed | coded           cls := affine | similarity | rotation | translation | uniformScale | tps | pwa
       val  := id n d  transl scale rot(mirror=0) rot(mirror=1) aff proc00 proc01 proc10 proc11
               a coordinate *value* (what an ndarray of points can hold) with the reference fits from the source
               value to it; each matrix / vector a list `k x₁ … x_k`, row major; proc<rotation><allow_mirror>
       narr valId…   the ndarrays of coordinates the caller owns and the value each holds initially
       npc arr…      the caller's PointCloud objects and the array each refers to (two may share one)
       op   := S i r        objs[i].set_target(pcs[r])
             | C i          objs.append(objs[i].copy())
             | E i k mat    k := F | B | A : objs[i].from_vector_inplace / compose_before_inplace / compose_after_inplace,
                            mat = the (d+1)² entries of the matrix the vector stands for / of the operand
             | W r valId    pcs[r].points[...] = value valId   (the caller's in-place write)
       PointCloud 0 is the source, PointCloud 1 the first target.  `fixed` runs the heap model, `coded` the value
       model (S ops on object 0 only).
    → err <kind>   |   ok <verdict per S op: a | dims | points | x> ; <object> ; <object> … ; A <value id per array>
       object := srcPc tgtPc srcVal tgtVal rot mir kernel minSV state      (absent attribute: n)
       state  := hom e₀₀ e₀₁ … (row major, (d+1)²)  |  tps <l> <coef>  |  pwa <tv>
  gpa <tree> <maxIter> <nsrc> <n> <d> <mirror> <fixedTarget> <flags>
       sources are 0..nsrc-1, target number k is 1000+k (a fixed target is 1000); flags[k] = the k-th
       convergence test succeeds
    → err <kind>   |   ok nIterations converged target refTarget refIterations refConverged ; <src tgt rot mir fit:t fit:s fit:r fit:m> …
       (ref… = `refGpa`, the iteration with fresh alignments only; theorem `gpa_eq_fresh_iteration`)
  gpachk <maxIter> <nsrc> <n> <d> <mirror> <fixedTarget> <flags>
       `gpaChecked` (Core/C08Py.lean): the constructor behind the argument checks of `MultipleAlignment.__init__`
    → exc <ValueError | IndexError | AssertionError | …>   |   ok nIterations converged target
-/
import MenpoModel.Core.Codec
import MenpoModel.Core.C08Retarget
import MenpoModel.Core.C08Heap
import MenpoModel.Core.C08Table
import MenpoModel.Core.C08Py

namespace MenpoModel.Drive.C08
open MenpoModel.Codec MenpoModel.C08

def pCls : P Cls := do
  let t ← tok
  match t with
  | "affine" => pure .affine
  | "similarity" => pure .similarity
  | "rotation" => pure .rotation
  | "translation" => pure .translation
  | "uniformScale" => pure .uniformScale
  | "tps" => pure .tps
  | "pwa" => pure .pwa
  | _ => failure

def pTree : P Tree := do
  let t ← tok
  match t with
  | "fixed" => pure fixed
  | "coded" => pure coded
  | _ => failure

def pSet : P (DP × Fits) := do
  let id ← pNat; let n ← pNat; let d ← pNat
  let transl ← pList pRat
  let scale ← pRat
  let r0 ← pList pRat; let r1 ← pList pRat
  let aff ← pList pRat
  let p00 ← pList pRat; let p01 ← pList pRat; let p10 ← pList pRat; let p11 ← pList pRat
  pure (⟨id, n, d⟩,
    { transl := transl, scale := scale, rot := fun m => if m then r1 else r0, aff := aff,
      proc := fun r m => match r, m with
        | false, false => p00 | false, true => p01 | true, false => p10 | true, true => p11 })

def pKind : P EditKind := do
  let t ← tok
  match t with
  | "F" => pure .fromVector
  | "B" => pure .composeBefore
  | "A" => pure .composeAfter
  | _ => failure

/-- `w` = side of the homogeneous matrices; `vals` = the value table -/
def pAct (w : Nat) (vals : Nat → DP) : P (Act DP) := do
  let t ← tok
  match t with
  | "S" => do let i ← pNat; let r ← pNat; pure (.op (.setTarget i r))
  | "C" => do let i ← pNat; pure (.op (.copy i))
  | "E" => do let i ← pNat; let k ← pKind; let m ← pList pRat; pure (.op (.edit i k (matOf w m)))
  | "W" => do let r ← pNat; let v ← pNat; pure (.write r (vals v))
  | _ => failure

def fmtErr : Err → String
  | .dims => "dims" | .points => "points" | .not2d => "not2d" | .not2or3d => "not2or3d"

def fmtOB : Option Bool → String
  | none => "n" | some true => "1" | some false => "0"

def fmtState (o : Obj DP String) : String :=
  match o.state with
  | .hom h => "hom " ++ fmtMat (entries o.source.d h)
  | .tps l c => s!"tps {l} {c}"
  | .pwa tv => s!"pwa {tv}"

def fmtObj (srcPc tgtPc : Nat) (o : Obj DP String) : String :=
  let ker := match o.kernel with | none => "n" | some k => toString k
  let sv := match o.minSV with | none => "n" | some r => fmtRat r
  s!"{srcPc} {tgtPc} {o.source.id} {o.target.id} {fmtOB o.rotation} {fmtOB o.allowMirror} {ker} {sv} {fmtState o}"

/-- heap run with the verdict of every `set_target` recorded (reporting only: the state moves by `aStep`) -/
def runHeap (e : Ext DP String) : Heap DP × List (HObj String) → List (Act DP) → List String × (Heap DP × List (HObj String))
  | st, [] => ([], st)
  | st, a :: as =>
    let v : List String := match a with
      | .op (.setTarget i r) => match st.2[i]? with
        | some o => match verifyTarget e (absObj st.1 o) (st.1.pts r) with
          | .ok _ => ["a"]
          | .error err => [fmtErr err]
        | none => ["x"]
      | _ => []
    let (vs, fin) := runHeap e (aStep e st a) as
    (v ++ vs, fin)

def histOp : P String := do
  let tree ← pTree; let cls ← pCls
  let rot ← pBool; let mir ← pBool; let ker ← pNat; let sv ← pRat
  let sets ← pList pSet
  let arrs ← pList pNat
  let pcs ← pList pNat
  let tbl : Nat → Fits := fun id => match sets.find? (fun s => s.1.id == id) with
    | some s => s.2
    | none => {}
  let vals : Nat → DP := fun id => match sets.find? (fun s => s.1.id == id) with
    | some s => s.1
    | none => ⟨9999, 0, 0⟩
  let e := tableExt tbl
  let opts : Opts := { rotation := rot, allowMirror := mir, kernel := ker, minSV := sv }
  let hp : Heap DP := { mats := fun _ => eye, next := 0,
                        arr := fun k => match arrs[k]? with | some v => vals v | none => ⟨9999, 0, 0⟩,
                        nextArr := arrs.length,
                        pc := fun r => match pcs[r]? with | some a => a | none => 0,
                        nextPc := pcs.length }
  let acts ← pList (pAct ((hp.pts 0).d + 1) vals)
  if tree == fixed then
    match hBuild tree e cls opts hp 0 1 with
    | .error err => pure ("err " ++ fmtErr err)
    | .ok (hp', ho) =>
      let (vs, fin) := runHeap e (hp', [ho]) acts
      let arrIds := (List.range fin.1.nextArr).map fun k => toString (fin.1.arr k).id
      pure ("ok " ++ " ".intercalate vs ++ " ; " ++
            " ; ".intercalate (fin.2.map fun o => fmtObj o.source o.target (absObj fin.1 o)) ++
            " ; A " ++ " ".intercalate arrIds)
  else
    match build tree e cls opts (hp.pts 0) (hp.pts 1) with
    | .error err => pure ("err " ++ fmtErr err)
    | .ok o =>
      let ts ← (acts.mapM fun a => match a with
        | .op (.setTarget 0 r) => some (hp.pts r)
        | _ => none : Option (List DP))
      let vs := (verdicts e o ts).map fun v => match v with | none => "a" | some err => fmtErr err
      let fin := history e o ts
      pure ("ok " ++ " ".intercalate vs ++ " ; " ++ fmtObj 0 0 fin ++ " ; A")

def gpaOp : P String := do
  let tree ← pTree
  let maxIter ← pNat; let nsrc ← pNat; let n ← pNat; let d ← pNat
  let mirror ← pBool; let fixedT ← pBool
  let flags ← pList pBool
  let e := symExt n d
  match gpa tree e (symGpa flags) maxIter (List.range nsrc) (if fixedT then some 1000 else none) mirror with
  | .error err => pure ("err " ++ fmtErr err)
  | .ok g =>
    let one (o : Obj Nat Unit) : String :=
      let code := match o.state with
        | .hom h => s!"{fmtRat (h 0 0)} {fmtRat (h 0 1)} {fmtRat (h 1 0)} {fmtRat (h 1 1)}"
        | _ => "?"
      s!"{o.source} {o.target} {fmtOB o.rotation} {fmtOB o.allowMirror} {code}"
    let ref := match refGpa tree e (symGpa flags) { rotation := true, allowMirror := mirror }
                  (if fixedT then 1000 else (symGpa flags).meanOf (List.range nsrc)) (List.range nsrc) maxIter
                  (if fixedT then 1000 else (symGpa flags).meanOf (List.range nsrc)) 1 with
      | .ok (t, n, c) => s!"{t} {n} {if c then 1 else 0}"
      | .error err => "err-" ++ fmtErr err
    pure (s!"ok {g.nIterations} {if g.converged then 1 else 0} {g.target} {ref} ; " ++
          " ; ".intercalate (g.transforms.map one))

def fmtExc : PyExc → String
  | .valueError => "ValueError" | .indexError => "IndexError" | .assertionError => "AssertionError"
  | .recursionError => "RecursionError" | .notImplementedError => "NotImplementedError"

def gpachkOp : P String := do
  let maxIter ← pNat; let nsrc ← pNat; let n ← pNat; let d ← pNat
  let mirror ← pBool; let fixedT ← pBool
  let flags ← pList pBool
  match gpaChecked (symExt n d) (symGpa flags) maxIter (List.range nsrc) (if fixedT then some 1000 else none) mirror with
  | .error exc => pure ("exc " ++ fmtExc exc)
  | .ok g => pure s!"ok {g.nIterations} {if g.converged then 1 else 0} {g.target}"

def step (toks : List String) : String :=
  match toks with
  | "hist" :: rest => match runP histOp rest with
    | some s => s
    | none => "bad-op"
  | "gpa" :: rest => match runP gpaOp rest with
    | some s => s
    | none => "bad-op"
  | "gpachk" :: rest => match runP gpachkOp rest with
    | some s => s
    | none => "bad-op"
  | _ => "bad-op"

end MenpoModel.Drive.C08
