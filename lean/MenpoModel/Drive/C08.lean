/-
Line-protocol driver for the C08 models.  Parsing / printing glue only; the state evolves through
`build`, `setTarget`, `history`, `hBuild`, `hRun`, `absObj`, `gpa` of `Core/C08Retarget.lean`, instantiated with
the table / symbolic fits of `Core/C08Table.lean`.

ops:
  hist <tree> <cls> <rot> <mir> <kernel> <minSV> <nsets> set… <nops> op…
       tree := fixed | coded           cls := affine | similarity | rotation | translation | uniformScale | tps | pwa
       set  := id n d  transl scale rot(mirror=0) rot(mirror=1) aff proc00 proc01 proc10 proc11
               (the reference fits from set 0 to this set; each matrix / vector a list `k x₁ … x_k`, row major;
                proc<rotation><allow_mirror>)
       op   := S i r      objs[i].set_target(set r)
             | C i        objs.append(objs[i].copy())
       set 0 is the source, set 1 the first target.  `fixed` runs the heap model, `coded` the value model
       (no copies).
    → err <kind>   |   ok <verdict per S op: a | dims | points | x> ; <object> ; <object> …
       object := src tgt rot mir kernel minSV state      (absent attribute: n)
       state  := hom e₀₀ e₀₁ … (row major, (d+1)²)  |  tps <l> <coef>  |  pwa <tv>
  gpa <tree> <maxIter> <nsrc> <n> <d> <mirror> <fixedTarget> <flags>
       sources are 0..nsrc-1, target number k is 1000+k (a fixed target is 1000); flags[k] = the k-th
       convergence test succeeds
    → err <kind>   |   ok nIterations converged target ; <src tgt rot mir fit:t fit:s fit:r fit:m> …
-/
import MenpoModel.Core.Codec
import MenpoModel.Core.C08Retarget
import MenpoModel.Core.C08Table

namespace MenpoModel.Drive.C08
open MenpoModel.Codec MenpoModel.C08

def pCls : P Cls := do
  let t ← tok
  match t with
  | "affine" => pure .affine
  | "similarity" => pure .similarity
  | "rotation" => pure .rotation
  | "translation" => pure .translation
  | "uniformScale" => pure .uniformScale
  | "tps" => pure .tps
  | "pwa" => pure .pwa
  | _ => failure

def pTree : P Tree := do
  let t ← tok
  match t with
  | "fixed" => pure fixed
  | "coded" => pure coded
  | _ => failure

def pSet : P (DP × Fits) := do
  let id ← pNat; let n ← pNat; let d ← pNat
  let transl ← pList pRat
  let scale ← pRat
  let r0 ← pList pRat; let r1 ← pList pRat
  let aff ← pList pRat
  let p00 ← pList pRat; let p01 ← pList pRat; let p10 ← pList pRat; let p11 ← pList pRat
  pure (⟨id, n, d⟩,
    { transl := transl, scale := scale, rot := fun m => if m then r1 else r0, aff := aff,
      proc := fun r m => match r, m with
        | false, false => p00 | false, true => p01 | true, false => p10 | true, true => p11 })

def pOp : P Op := do
  let t ← tok
  match t with
  | "S" => do let i ← pNat; let r ← pNat; pure (.setTarget i r)
  | "C" => do let i ← pNat; pure (.copy i)
  | _ => failure

def fmtErr : Err → String
  | .dims => "dims" | .points => "points" | .not2d => "not2d" | .not2or3d => "not2or3d"

def fmtOB : Option Bool → String
  | none => "n" | some true => "1" | some false => "0"

def fmtObj (o : Obj DP String) : String :=
  let st := match o.state with
    | .hom h => "hom " ++ fmtMat (entries o.source.d h)
    | .tps l c => s!"tps {l} {c}"
    | .pwa tv => s!"pwa {tv}"
  let ker := match o.kernel with | none => "n" | some k => toString k
  let sv := match o.minSV with | none => "n" | some r => fmtRat r
  s!"{o.source.id} {o.target.id} {fmtOB o.rotation} {fmtOB o.allowMirror} {ker} {sv} {st}"

/-- heap run with the verdict of every `set_target` recorded (reporting only: the state moves by `hStep`) -/
def runHeap (e : Ext DP String) : Heap DP × List (HObj String) → List Op → List String × (Heap DP × List (HObj String))
  | st, [] => ([], st)
  | st, op :: ops =>
    let v : List String := match op with
      | .setTarget i r => match st.2[i]? with
        | some o => match verifyTarget e (absObj st.1 o) (st.1.pts r) with
          | .ok _ => ["a"]
          | .error err => [fmtErr err]
        | none => ["x"]
      | .copy _ => []
    let (vs, fin) := runHeap e (hStep e st op) ops
    (v ++ vs, fin)

def histOp : P String := do
  let tree ← pTree; let cls ← pCls
  let rot ← pBool; let mir ← pBool; let ker ← pNat; let sv ← pRat
  let sets ← pList pSet
  let ops ← pList pOp
  let tbl : Nat → Fits := fun id => match sets.find? (fun s => s.1.id == id) with
    | some s => s.2
    | none => {}
  let e := tableExt tbl
  let opts : Opts := { rotation := rot, allowMirror := mir, kernel := ker, minSV := sv }
  let pts : Nat → DP := fun r => match sets[r]? with | some s => s.1 | none => ⟨9999, 0, 0⟩
  if tree == fixed then
    let hp : Heap DP := { mats := fun _ => eye, next := 0, pts := pts }
    match hBuild tree e cls opts hp 0 1 with
    | .error err => pure ("err " ++ fmtErr err)
    | .ok (hp', ho) =>
      let (vs, fin) := runHeap e (hp', [ho]) ops
      pure ("ok " ++ " ".intercalate vs ++ " ; " ++ " ; ".intercalate (fin.2.map fun o => fmtObj (absObj fin.1 o)))
  else
    match build tree e cls opts (pts 0) (pts 1) with
    | .error err => pure ("err " ++ fmtErr err)
    | .ok o =>
      let ts ← (ops.mapM fun op => match op with
        | .setTarget 0 r => some (pts r)
        | _ => none : Option (List DP))
      let vs := (verdicts e o ts).map fun v => match v with | none => "a" | some err => fmtErr err
      pure ("ok " ++ " ".intercalate vs ++ " ; " ++ fmtObj (history e o ts))

def gpaOp : P String := do
  let tree ← pTree
  let maxIter ← pNat; let nsrc ← pNat; let n ← pNat; let d ← pNat
  let mirror ← pBool; let fixedT ← pBool
  let flags ← pList pBool
  let e := symExt n d
  match gpa tree e (symGpa flags) maxIter (List.range nsrc) (if fixedT then some 1000 else none) mirror with
  | .error err => pure ("err " ++ fmtErr err)
  | .ok g =>
    let one (o : Obj Nat Unit) : String :=
      let code := match o.state with
        | .hom h => s!"{fmtRat (h 0 0)} {fmtRat (h 0 1)} {fmtRat (h 1 0)} {fmtRat (h 1 1)}"
        | _ => "?"
      s!"{o.source} {o.target} {fmtOB o.rotation} {fmtOB o.allowMirror} {code}"
    pure (s!"ok {g.nIterations} {if g.converged then 1 else 0} {g.target} ; " ++
          " ; ".intercalate (g.transforms.map one))

def step (toks : List String) : String :=
  match toks with
  | "hist" :: rest => match runP histOp rest with
    | some s => s
    | none => "bad-op"
  | "gpa" :: rest => match runP gpaOp rest with
    | some s => s
    | none => "bad-op"
  | _ => "bad-op"

end MenpoModel.Drive.C08
