/-
Line-protocol driver for the C09 models.  Parsing glue only.

ops:  chunks k n                      → ok s₁ s₂ …          (batch sizes of range(0,n,k))
      pwab-fixed k n b₁…b_n           → ok | err m₁…        (b = 1: point in the domain)
      pwab-coded k n b₁…b_n           → likewise, as coded before the repair
      cache-fixed m  op…              → per apply: the version whose result is returned, or e
      cache-coded m  op…                 op := A a | W a v ; arrays a start at version 10·a;
                                         versions ≥ 1000 raise; `close` = same decade (v/10)
-/
import MenpoModel.Core.Codec
import MenpoModel.Core.C09

namespace MenpoModel.Drive.C09
open MenpoModel.Codec MenpoModel.C09

def pwaD : Pwa (Nat × Bool) Nat := { inDom := fun p => p.2, f := fun p => p.1 }

def fmtRes (r : Except (List Bool) (List Nat)) : String :=
  match r with
  | .ok _ => "ok"
  | .error m => "err " ++ fmtBools m

def pOp : P (Op Nat) := do
  let t ← tok
  match t with
  | "A" => do let a ← pNat; pure (.apply a)
  | "W" => do let a ← pNat; let v ← pNat; pure (.write a v)
  | _ => failure

def computeD (v : Nat) : Except Unit Nat := if v ≥ 1000 then .error () else .ok v
def closeD (a b : Nat) : Bool := a / 10 == b / 10

def fmtRun (l : List (Nat × Except Unit Nat)) : String :=
  "ok " ++ " ".intercalate (l.map fun p => match p.2 with | .ok v => toString v | .error _ => "e")

def step (toks : List String) : String :=
  match toks with
  | ["chunks", k, n] => match k.toNat?, n.toNat? with
    | some k, some n => "ok " ++ fmtNats ((batches k (List.range n)).map List.length)
    | _, _ => "bad-op"
  | "pwab-fixed" :: rest => match runP (do let k ← pNat; let bs ← pList pBool; pure (k, bs)) rest with
    | some (k, bs) => fmtRes (batchedFixed pwaD k (bs.zipIdx.map fun (b, i) => (i, b)))
    | none => "bad-op"
  | "pwab-coded" :: rest => match runP (do let k ← pNat; let bs ← pList pBool; pure (k, bs)) rest with
    | some (k, bs) => fmtRes (batchedCoded pwaD k (bs.zipIdx.map fun (b, i) => (i, b)))
    | none => "bad-op"
  | "cache-fixed" :: rest => match runP (pList pOp) rest with
    | some ops => fmtRun (runFixed computeD { heap := fun a => 10 * a, memo := none } ops)
    | none => "bad-op"
  | "cache-coded" :: rest => match runP (pList pOp) rest with
    | some ops => fmtRun (runCoded closeD computeD { heap := fun a => 10 * a, memo := none } ops)
    | none => "bad-op"
  | _ => "bad-op"

end MenpoModel.Drive.C09
