/-
Line-protocol driver for the C09 models.  Parsing glue only.

ops:  chunks k n                      → ok s₁ s₂ …          (batch sizes of range(0,n,k))
      pwab-fixed k n b₁…b_n           → ok | err m₁…        (b = 1: point in the domain)
      pwab-coded k n b₁…b_n           → likewise, as coded before the repair
      cache-fixed m  op…              → per apply: the version whose result is returned, or e
      cache-coded m  op…                 op := A a | W a v ; arrays a start at version 10·a;
                                         versions ≥ 1000 raise; `close` = same decade (v/10)
      iab  MESH Q                     → ok t₁ α₁ β₁ t₂ …  | err m₁…      (`index_alpha_beta`)
      pwa  k MESH TGT Q               → ok x₁ y₁ x₂ …     | err m₁…      (`apply(Q, batch_size=k)`, k = 0: None)
      pip  k MESH Q                   → ok b₁ b₂ …                       (`pwa_point_in_pointcloud`)
      chainpwa-fixed k tx ty MESH TGT Q  → as pwa, for TransformChain([Translation, PiecewiseAffine]), repaired
      chainpwa-coded k tx ty MESH TGT Q  → the generic batching loop (first failing batch raises)
      chain k  m MEMBER…  Q           → ok rows…   MEMBER := A <mat> | D n d₁…d_n   (TransformChain / WithDims)
         MESH := <mat of source points> n_tris i j k …     TGT, Q := <mat>     <mat> := r c x₁₁ … (row major)

The geometric ops (`chunks`, `iab`, `pwa`, `pip`, `chain`, `chainpwa-*`) execute the definitions of Core/C09Src.lean —
the ones GenProps/C09Src.lean proves equal to the translation of the current source text and Props/C09Src.lean proves
equal to the Core model — so the correspondence also exercises the translation vocabulary (`pyRange`, `pySlice`,
`scatter`, `gather2`, the broadcasting products) against numpy.
-/
import MenpoModel.Core.Codec
import MenpoModel.Core.C09
import MenpoModel.Core.C09Pwa
import MenpoModel.Core.C09Chain
import MenpoModel.Core.C09Src

namespace MenpoModel.Drive.C09
open MenpoModel.Codec MenpoModel.C09

def pwaD : Pwa (Nat × Bool) Nat := { inDom := fun p => p.2, f := fun p => p.1 }

def fmtRes (r : Except (List Bool) (List Nat)) : String :=
  match r with
  | .ok _ => "ok"
  | .error m => "err " ++ fmtBools m

def pOp : P (Op Nat) := do
  let t ← tok
  match t with
  | "A" => do let a ← pNat; pure (.apply a)
  | "W" => do let a ← pNat; let v ← pNat; pure (.write a v)
  | _ => failure

def computeD (v : Nat) : Except Unit Nat := if v ≥ 1000 then .error () else .ok v
def closeD (a b : Nat) : Bool := a / 10 == b / 10

def fmtRun (l : List (Nat × Except Unit Nat)) : String :=
  "ok " ++ " ".intercalate (l.map fun p => match p.2 with | .ok v => toString v | .error _ => "e")

def toPts (m : List (List Rat)) : List Pt := m.map fun r => (r.getD 0 0, r.getD 1 0)

def pPts : P (List Pt) := do let m ← pMat; pure (toPts m)
def pTri : P (Nat × Nat × Nat) := do let i ← pNat; let j ← pNat; let k ← pNat; pure (i, j, k)
def pBatch : P (Option Nat) := do let k ← pNat; pure (if k = 0 then none else some k)

def fmtPts (r : Except (List Bool) (List Pt)) : String :=
  match r with
  | .ok ps => "ok " ++ fmtRats (ps.flatMap fun p => [p.1, p.2])
  | .error m => "err " ++ fmtBools m

inductive Member where
  | aff (m : List (List Rat))
  | dims (d : List Nat)

def pMember : P Member := do
  let t ← tok
  match t with
  | "A" => do let m ← pMat; pure (.aff m)
  | "D" => do let d ← pList pNat; pure (.dims d)
  | _ => failure

def Member.fn : Member → List PtN → List PtN
  | .aff m => List.map (affPt m)
  | .dims d => List.map (withDims d)

/-- `WithDims._apply` as translated (a list of column numbers), as a member of a chain -/
def Member.fnE : Member → List PtN → Except (List Bool) (List PtN)
  | .aff m => liftOk (List.map (affPt m))
  | .dims d => fun x => match withDimsSrc (.many d) x with
    | .d2 r => .ok r
    | .d1 _ => .ok []

/-- `PiecewiseAffine._apply` as translated: `AbstractPWA._apply` over `PythonPWA.index_alpha_beta` -/
def pwaApplyT (src tgt : List Tri) : List Pt → Except (List Bool) (List Pt) :=
  pwaApplySrc (pythonIabSrc src) (tgt.map Tri.i) (tgt.map Tri.ij) (tgt.map Tri.ik)

/-- `PiecewiseAffine.apply(x, batch_size=k)` as translated -/
def pwaT (src tgt : List Tri) (k : Option Nat) (q : List Pt) : Except (List Bool) (List Pt) :=
  pwaApplyBatchedSrc (pwaApplyT src tgt) k q

def step (toks : List String) : String :=
  match toks with
  | ["chunks", k, n] => match k.toNat?, n.toNat? with
    | some k, some n => "ok " ++ fmtNats ((pyRange n k).map fun lo => (pySlice (List.range n) lo (lo + k)).length)
    | _, _ => "bad-op"
  | "pwab-fixed" :: rest => match runP (do let k ← pNat; let bs ← pList pBool; pure (k, bs)) rest with
    | some (k, bs) => fmtRes (batchedFixed pwaD k (bs.zipIdx.map fun (b, i) => (i, b)))
    | none => "bad-op"
  | "pwab-coded" :: rest => match runP (do let k ← pNat; let bs ← pList pBool; pure (k, bs)) rest with
    | some (k, bs) => fmtRes (batchedCoded pwaD k (bs.zipIdx.map fun (b, i) => (i, b)))
    | none => "bad-op"
  | "cache-fixed" :: rest => match runP (pList pOp) rest with
    | some ops => fmtRun (runFixed computeD { heap := fun a => 10 * a, memo := none } ops)
    | none => "bad-op"
  | "cache-coded" :: rest => match runP (pList pOp) rest with
    | some ops => fmtRun (runCoded closeD computeD { heap := fun a => 10 * a, memo := none } ops)
    | none => "bad-op"
  | "iab" :: rest =>
    match runP (do let sp ← pPts; let tl ← pList pTri; let q ← pPts; pure (sp, tl, q)) rest with
    | some (sp, tl, q) => match pythonIabSrc (mkTris sp tl) q with
      | .ok iab => "ok " ++ " ".intercalate ((iab.1.zip (iab.2.1.zip iab.2.2)).map fun t =>
          toString t.1 ++ " " ++ fmtRat t.2.1 ++ " " ++ fmtRat t.2.2)
      | .error m => "err " ++ fmtBools m
    | none => "bad-op"
  | "pwa" :: rest =>
    match runP (do let k ← pBatch; let sp ← pPts; let tl ← pList pTri; let tp ← pPts; let q ← pPts
                   pure (k, sp, tl, tp, q)) rest with
    | some (k, sp, tl, tp, q) => fmtPts (pwaT (mkTris sp tl) (mkTris tp tl) k q)
    | none => "bad-op"
  | "pip" :: rest =>
    match runP (do let k ← pBatch; let sp ← pPts; let tl ← pList pTri; let q ← pPts; pure (k, sp, tl, q)) rest with
    | some (k, sp, tl, q) => "ok " ++ fmtBools (pointInPointcloudSrc (fun a b => (a, b))
        (fun t bs x => pwaT t.1 t.2 bs x) (mkTris sp tl) q k)
    | none => "bad-op"
  | op :: rest =>
    if op == "chainpwa-fixed" || op == "chainpwa-coded" then
      match runP (do let k ← pBatch; let tx ← pRat; let ty ← pRat; let sp ← pPts; let tl ← pList pTri
                     let tp ← pPts; let q ← pPts; pure (k, tx, ty, sp, tl, tp, q)) rest with
      | some (k, tx, ty, sp, tl, tp, q) =>
        let ap : List Pt → Except (List Bool) (List Pt) :=
          chainApplySrc [liftOk (List.map fun p => (p.1 + tx, p.2 + ty)), pwaApplyT (mkTris sp tl) (mkTris tp tl)]
        if op == "chainpwa-fixed" then fmtPts (chainApplyBatchedSrc ap k q) else fmtPts (applyBatchedSrc ap k q)
      | none => "bad-op"
    else if op == "chain" then
      match runP (do let k ← pBatch; let ms ← pList pMember; let q ← pMat; pure (k, ms, q)) rest with
      | some (k, ms, q) =>
        match chainApplyBatchedSrc (chainApplySrc (ms.map Member.fnE)) k q with
        | .ok r => "ok " ++ fmtMat r
        | .error m => "err " ++ fmtBools m
      | none => "bad-op"
    else "bad-op"
  | _ => "bad-op"

end MenpoModel.Drive.C09
