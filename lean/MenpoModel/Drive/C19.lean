/-
Line-protocol driver for the C19 model (lazy lists).  Parsing glue only.

prog := B b n | M f prog | E k f₁…f_k prog | SI k i₁…i_k prog | SS a b c prog   (a,b,c ∈ int | N)
      | R n prog | A prog prog | AP k v₁…v_k prog | C prog
ops  := heap k hop₁ … hop_k → ok ncells | len v… | len v… (every list object after the whole history)
        all prog        → ok n v₀ log₀ v₁ log₁ …   | err index|value
        get i prog      → ok v log                 | err …
        ref prog        → ok n v₀ v₁ …   (ordinary-list semantics) | err …
log  := `-` or comma separated  a:b:i  /  c:f:arg
-/
import MenpoModel.Core.Codec
import MenpoModel.Core.LazyList

namespace MenpoModel.Drive.C19
open MenpoModel.Codec MenpoModel.LazyList

def envD : Env := { baseVal := fun b i => 1000 * (b + 1) + i, fn := fun f v => (f + 2) * v + (f + 1) }

def pOInt : P (Option Int) := do
  let t ← tok
  if t == "N" then pure none else match t.toInt? with
    | some i => pure (some i)
    | none => failure

partial def pProg : P Prog := do
  let t ← tok
  match t with
  | "B" => do let b ← pNat; let n ← pNat; pure (.base b n)
  | "M" => do let f ← pNat; let p ← pProg; pure (.map f p)
  | "E" => do let fs ← pList pNat; let p ← pProg; pure (.mapEach fs p)
  | "SI" => do let l ← pList pInt; let p ← pProg; pure (.select (.ints l) p)
  | "SS" => do let a ← pOInt; let b ← pOInt; let c ← pOInt; let p ← pProg; pure (.select (.slice a b c) p)
  | "R" => do let n ← pNat; let p ← pProg; pure (.rep n p)
  | "A" => do let p ← pProg; let q ← pProg; pure (.add p q)
  | "AP" => do let vs ← pList pInt; let p ← pProg; pure (.addPlain p vs)
  | "C" => do let p ← pProg; pure (.copy p)
  | _ => failure

def pHOp : P HOp := do
  let t ← tok
  match t with
  | "hb" => do let b ← pNat; let n ← pNat; pure (.base b n)
  | "hm" => do let f ← pNat; let a ← pNat; pure (.map f a)
  | "he" => do let fs ← pList pNat; let a ← pNat; pure (.mapEach fs a)
  | "hsi" => do let l ← pList pInt; let a ← pNat; pure (.select (.ints l) a)
  | "hss" => do let a ← pOInt; let b ← pOInt; let c ← pOInt; let x ← pNat; pure (.select (.slice a b c) x)
  | "hr" => do let n ← pNat; let a ← pNat; pure (.rep n a)
  | "ha" => do let a ← pNat; let b ← pNat; pure (.add a b)
  | "hp" => do let vs ← pList pInt; let a ← pNat; pure (.addPlain a vs)
  | "hc" => do let a ← pNat; pure (.copy a)
  | _ => failure

def fmtEv : Ev → String
  | .acc b i => s!"a:{b}:{i}"
  | .call f a => s!"c:{f}:{a}"
def fmtLog (l : List Ev) : String := if l.isEmpty then "-" else ",".intercalate (l.map fmtEv)
def fmtErr : Err → String | .index => "err index" | .value => "err value"

def step (toks : List String) : String :=
  match toks with
  | "all" :: rest => match runP pProg rest with
    | none => "bad-op"
    | some p => match p.lazy with
      | .error e => fmtErr e
      | .ok ts => s!"ok {ts.length}" ++ String.join (ts.map fun t =>
          let (v, l) := t.evalLog envD; s!" {v} {fmtLog l}")
  | "get" :: rest => match runP (do let i ← pInt; let p ← pProg; pure (i, p)) rest with
    | none => "bad-op"
    | some (i, p) => match p.getInt envD i with
      | .error e => fmtErr e
      | .ok (v, l) => s!"ok {v} {fmtLog l}"
  | "ref" :: rest => match runP pProg rest with
    | none => "bad-op"
    | some p => match p.ref envD with
      | .error e => fmtErr e
      | .ok vs => s!"ok {vs.length}" ++ String.join (vs.map fun v => s!" {v}")
  | "heap" :: rest => match runP (pList pHOp) rest with
    | none => "bad-op"
    | some ops =>
      let h := hrun [] ops
      s!"ok {h.length}" ++ String.join (h.map fun ts =>
        s!" | {ts.length}" ++ String.join (ts.map fun t => s!" {t.eval envD}"))
  | _ => "bad-op"

end MenpoModel.Drive.C19
