/-
Line-protocol driver for the C19 model (lazy lists).  Parsing glue only.

prog := B b n | M f prog | E k f₁…f_k prog | SI k i₁…i_k prog | SS a b c prog   (a,b,c ∈ int | N)
      | R n prog (n any int) | A prog prog | AP k v₁…v_k prog | C prog
      | I f k v₁…v_k                      (init_from_iterable; f ∈ nat | N)
      | G r k e₁…e_k m file₁…file_m max   (glob importer list; r ∈ nat | N; file := id k e₁…e_k; max ∈ int | N)
      | V b n r                           (import_video frame list; r ∈ nat | N: resolver of frame j is r + j)
ops  := heap k hop₁ … hop_k → ok ncells | len v… | len v… (every list object after the whole history)
        hist k ev₁ … ev_k   → the same, then ` # log`   (ev := hop | rd a i | it a)
        all prog        → ok n v₀ log₀ v₁ log₁ …   | err index|value|type
        get i prog      → ok v log                 | err …
        get0d coded|repaired i prog → `prog[np.array(i)]` under the coded / the repaired dispatch
        ref prog        → ok n v₀ v₁ …   (ordinary-list semantics) | err …
        reflog prog     → like `all`, computed by the provenance reference
        reads k i₁…i_k prog → ok r₁ … r_k # log    (r := value | E)
        iter prog / prefix k prog → ok n v… # log
        contains v prog → ok 0|1 # log;  index v prog → ok j|none # log;  count v prog → ok c # log
        reversed prog   → ok r… # log
        readx k b₁…b_k i prog → ok v log | errx type log | err …   (functions b are not callable)
log  := `-` or comma separated  a:b:i  /  c:f:arg
-/
import MenpoModel.Core.Codec
import MenpoModel.Core.LazyList
import MenpoModel.Core.C19Reads
import MenpoModel.Core.C19Dispatch

namespace MenpoModel.Drive.C19
open MenpoModel.Codec MenpoModel.LazyList MenpoModel.PyData

def envD : Env :=
  { baseVal := fun b i => 1000 * (b + 1) + i,
    fn := fun f v => if f = 7 then v else if f ≥ 100 then v + 100000 * ((f : Int) - 99) else (f + 2) * v + (f + 1) }

def pOInt : P (Option Int) := do
  let t ← tok
  if t == "N" then pure none else match t.toInt? with
    | some i => pure (some i)
    | none => failure

def pONat : P (Option Nat) := do
  let t ← tok
  if t == "N" then pure none else match t.toNat? with
    | some i => pure (some i)
    | none => failure

def pFile : P FileEnt := do let i ← pNat; let es ← pList pNat; pure ⟨i, es⟩

partial def pProg : P Prog := do
  let t ← tok
  match t with
  | "B" => do let b ← pNat; let n ← pNat; pure (.base b n)
  | "M" => do let f ← pNat; let p ← pProg; pure (.map f p)
  | "E" => do let fs ← pList pNat; let p ← pProg; pure (.mapEach fs p)
  | "SI" => do let l ← pList pInt; let p ← pProg; pure (.select (.ints l) p)
  | "SS" => do let a ← pOInt; let b ← pOInt; let c ← pOInt; let p ← pProg; pure (.select (.slice a b c) p)
  | "R" => do let n ← pInt; let p ← pProg; pure (.rep (repCount n) p)
  | "A" => do let p ← pProg; let q ← pProg; pure (.add p q)
  | "AP" => do let vs ← pList pInt; let p ← pProg; pure (.addPlain p vs)
  | "C" => do let p ← pProg; pure (.copy p)
  | "I" => do let f ← pONat; let vs ← pList pInt; pure (.iter f vs)
  | "G" => do let r ← pONat; let kn ← pList pNat; let fs ← pList pFile; let m ← pOInt; pure (.glob r kn fs m)
  | "V" => do let b ← pNat; let n ← pNat; let r ← pONat; pure (videoFrames b n r)
  | _ => failure

def pHOp : P HOp := do
  let t ← tok
  match t with
  | "hb" => do let b ← pNat; let n ← pNat; pure (.base b n)
  | "hm" => do let f ← pNat; let a ← pNat; pure (.map f a)
  | "he" => do let fs ← pList pNat; let a ← pNat; pure (.mapEach fs a)
  | "hsi" => do let l ← pList pInt; let a ← pNat; pure (.select (.ints l) a)
  | "hss" => do let a ← pOInt; let b ← pOInt; let c ← pOInt; let x ← pNat; pure (.select (.slice a b c) x)
  | "hr" => do let n ← pInt; let a ← pNat; pure (.rep (repCount n) a)
  | "ha" => do let a ← pNat; let b ← pNat; pure (.add a b)
  | "hp" => do let vs ← pList pInt; let a ← pNat; pure (.addPlain a vs)
  | "hc" => do let a ← pNat; pure (.copy a)
  | "hi" => do let f ← pONat; let vs ← pList pInt; pure (.iter f vs)
  | "hg" => do let r ← pONat; let kn ← pList pNat; let fs ← pList pFile; let m ← pOInt; pure (.glob r kn fs m)
  | _ => failure

def pHEv : P HEv := fun s => match s with
  | "rd" :: rest => (do let a ← pNat; let i ← pInt; pure (HEv.read a i) : P HEv) rest
  | "it" :: rest => (do let a ← pNat; pure (HEv.iterate a) : P HEv) rest
  | _ => (do let o ← pHOp; pure (HEv.op o) : P HEv) s

def fmtEv : Ev → String
  | .acc b i => s!"a:{b}:{i}"
  | .call f a => s!"c:{f}:{a}"
def fmtLog (l : List Ev) : String := if l.isEmpty then "-" else ",".intercalate (l.map fmtEv)
def fmtErr : Err → String | .index => "err index" | .value => "err value" | .type => "err type"
def fmtCells (h : Heap) : String :=
  s!"ok {h.length}" ++ String.join (h.map fun ts =>
    s!" | {ts.length}" ++ String.join (ts.map fun t => s!" {t.eval envD}"))
def fmtRes : Except Err Int → String | .ok v => toString v | .error _ => "E"

/-- run `k` on the thunks of a program, or print the construction error -/
def withTs (rest : List String) (pre : P α) (k : α → List LThunk → String) : String :=
  match runP (do let a ← pre; let p ← pProg; pure (a, p)) rest with
  | none => "bad-op"
  | some (a, p) => match p.lazy with
    | .error e => fmtErr e
    | .ok ts => k a ts

def step (toks : List String) : String :=
  match toks with
  | "all" :: rest => match runP pProg rest with
    | none => "bad-op"
    | some p => match p.lazy with
      | .error e => fmtErr e
      | .ok ts => s!"ok {ts.length}" ++ String.join (ts.map fun t =>
          let (v, l) := t.evalLog envD; s!" {v} {fmtLog l}")
  | "reflog" :: rest => match runP pProg rest with
    | none => "bad-op"
    | some p => match p.refLog envD with
      | .error e => fmtErr e
      | .ok xs => s!"ok {xs.length}" ++ String.join (xs.map fun (v, l) => s!" {v} {fmtLog l}")
  | "get" :: rest => match runP (do let i ← pInt; let p ← pProg; pure (i, p)) rest with
    | none => "bad-op"
    | some (i, p) => match p.getInt envD i with
      | .error e => fmtErr e
      | .ok (v, l) => s!"ok {v} {fmtLog l}"
  | "get0d" :: which :: rest => match runP (do let i ← pInt; let p ← pProg; pure (i, p)) rest with
    | none => "bad-op"
    | some (i, p) =>
      let out := if which == "repaired" then getitemRepaired zeroDFeat else getitemCoded zeroDFeat
      match p.lazy with
      | .error e => fmtErr e
      | .ok _ => match out with
        | .element => (match p.getInt envD i with
          | .error e => fmtErr e
          | .ok (v, l) => s!"ok {v} {fmtLog l}")
        | .typeError => "err type"
        | .valueError => "err value"
        | .indexError => "err index"
        | .newList => "newlist"
  | "ref" :: rest => match runP pProg rest with
    | none => "bad-op"
    | some p => match p.ref envD with
      | .error e => fmtErr e
      | .ok vs => s!"ok {vs.length}" ++ String.join (vs.map fun v => s!" {v}")
  | "reads" :: rest => withTs rest (pList pInt) fun is ts =>
      let r := readsAt envD ts is
      "ok" ++ String.join (r.1.map fun x => " " ++ fmtRes x) ++ " # " ++ fmtLog r.2
  | "iter" :: rest => withTs rest (pure ()) fun _ ts =>
      let r := iterAll envD ts
      s!"ok {r.1.length}" ++ String.join (r.1.map fun v => s!" {v}") ++ " # " ++ fmtLog r.2
  | "prefix" :: rest => withTs rest pNat fun k ts =>
      let r := iterFrom envD ts 0 k
      s!"ok {r.1.length}" ++ String.join (r.1.map fun v => s!" {v}") ++ " # " ++ fmtLog r.2
  | "contains" :: rest => withTs rest pInt fun v ts =>
      let r := containsTs envD v ts
      s!"ok {if r.1 then 1 else 0} # " ++ fmtLog r.2
  | "index" :: rest => withTs rest pInt fun v ts =>
      let r := indexTs envD v ts
      (match r.1 with | some j => s!"ok {j}" | none => "ok none") ++ " # " ++ fmtLog r.2
  | "count" :: rest => withTs rest pInt fun v ts =>
      let r := countTs envD v ts
      s!"ok {r.1} # " ++ fmtLog r.2
  | "reversed" :: rest => withTs rest (pure ()) fun _ ts =>
      let r := reversedTs envD ts
      "ok" ++ String.join (r.1.map fun x => " " ++ fmtRes x) ++ " # " ++ fmtLog r.2
  | "readx" :: rest => withTs rest (do let bs ← pList pNat; let i ← pInt; pure (bs, i)) fun (bs, i) ts =>
      match normIndex ts.length i with
      | none => "err index"
      | some j => match ts[j]? with
        | none => "err index"
        | some t => match t.evalLogX envD (fun f => bs.contains f) with
          | (.ok v, l) => s!"ok {v} {fmtLog l}"
          | (.error _, l) => s!"errx type {fmtLog l}"
  | "heap" :: rest => match runP (pList pHOp) rest with
    | none => "bad-op"
    | some ops => fmtCells (hrun [] ops)
  | "hist" :: rest => match runP (pList pHEv) rest with
    | none => "bad-op"
    | some evs =>
      let r := hplay envD [] evs
      fmtCells r.1 ++ " # " ++ fmtLog r.2
  | _ => "bad-op"

end MenpoModel.Drive.C19
