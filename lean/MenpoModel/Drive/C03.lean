/-
Line-protocol driver for the C03 model (composition).  Parsing glue only; every answer is computed
by the definitions of `Core/C03Compose.lean` the theorems of `Props/C03.lean` are about.

table := T n row*            row  := cls nAnc anc* isAlign nInpl cls* nComp cls* strip
cell  := F d cls e₁…e_{(d+1)²} | C n ref* | L k | D n idx* | B n bit* | I n int* | S a b c
         (D / B / I / S = WithDims with non-negative indices / a mask / integers of either sign / a slice, `N` = None)
stmt  := cb a b | ca a b | cbi a b | cai a b | fv a n v₁…v_n       (fv = compose_after_from_vector_inplace)

ops:
  prog table S n cell* P m stmt*
      → ok | res₁ | … | res_m # cell ; cell ; …          (the final store)
        res := r ref cell        non-in-place call: reference and cell of the result
             | i cell            accepted in-place call: the receiver afterwards
             | e rejected|noMethod|shape|notImplemented|badRef|fuel
  apply d table cls e₁…e_{(d+1)²} x₁…x_d   → ok y₁…y_d | undef
  flat fuel ref S n cell*                   → ok leaf ; leaf ; … | none       (leaf := F d cls e… | L k | D n idx*)
  applyc fuel ref n x₁…x_n table S m cell*  → ok y… | undef | none   (the object at `ref` applied to a point;
                                              opaque leaves are undefined; `none` = no denotation within the fuel)
  dim fuel ref n S m cell*                  → ok k | err | none      (dimension calculus, opaque leaves d ↦ d)
  reach fuel r a S m cell*                  → 1 | 0
  fromvec d cls e₁…e_{(d+1)²} n v₁…v_n      → ok matrix | e kind
  decomp d uniform U(d²) V(d²) s(d) t(d)    → ok cell ; cell ; cell ; cell # product-matrix
  table E | table C                         → the expected / coded class table in wire format
  ctor mat d cls skip e₁…e_{(d+1)²}         → ok cell | e kind      (`Homogeneous(M)` / `Affine(M)` / `Similarity(M)`: ctorMat)
  ctor rot d skip e₁…e_{d²}                 → ok cell               (`Rotation(R)`: ctorRotation)
  ctor trans d skip t₁…t_d | ctor uscale d skip s | ctor nuscale d skip v₁…v_d   → ok cell | e kind
  ident d cls                               → ok cell | e kind      (`cls.init_identity(d)`: identityOf)
  dtprog table S n cell* T n tag* P m stmt* → ok tag*               (dtype of every object after the program: runT;
                                              tag := int64 | float32 | float64 | -)
-/
import MenpoModel.Core.Codec
import MenpoModel.Core.C03Compose
import MenpoModel.Core.C03Ctor
import MenpoModel.Core.C03Dtype

namespace MenpoModel.Drive.C03
open MenpoModel.Codec MenpoModel.C03

def pCls : P HCls := do
  let t ← tok
  match HCls.ofName t with
  | some c => pure c
  | none => failure

def pRow : P ClsRow := do
  let c ← pCls
  let anc ← pList pCls
  let al ← pBool
  let ip ← pList pCls
  let cw ← pList pCls
  let s ← pCls
  pure ⟨c, anc, al, ip, cw, s⟩

def pTable : P ClassTable := do
  let t ← tok
  if t == "T" then pList pRow else failure

/-- an optional integer: `N` = None -/
def pOInt : P (Option Int) := do
  let t ← tok
  if t == "N" then pure none else
    match t.toInt? with
    | some i => pure (some i)
    | none => failure

def pCell : P Cell := do
  let t ← tok
  match t with
  | "F" => do
    let d ← pNat
    let c ← pCls
    let es ← pMany pRat ((d + 1) * (d + 1))
    pure (.fam d ⟨c, (Mat.ofList (d + 1) es).freeze⟩)
  | "C" => do let ms ← pList pNat; pure (.chain ms)
  | "L" => do let k ← pNat; pure (.leaf (.opq k))
  | "D" => do let ds ← pList pNat; pure (.leaf (.withDims ds))
  | "B" => do let bs ← pList pBool; pure (.leaf (.withMask bs))
  | "I" => do let ds ← pList pInt; pure (.leaf (.withIdx ds))
  | "S" => do
    let a ← pOInt
    let b ← pOInt
    let c ← pOInt
    pure (.leaf (.withSlice a b c))
  | _ => failure

def pStmt : P Stmt := do
  let t ← tok
  let a ← pNat
  match t with
  | "fv" => do let v ← pList pRat; pure (.fromVector a v)
  | _ => do
    let b ← pNat
    match t with
    | "cb" => pure (.compose .before a b)
    | "ca" => pure (.compose .after a b)
    | "cbi" => pure (.inplace .before a b)
    | "cai" => pure (.inplace .after a b)
    | _ => failure

def pKw (s : String) : P Unit := do
  let t ← tok
  if t == s then pure () else failure

def fmtM {n : Nat} (M : Mat n) : String := fmtMat M.toLists

def fmtPlain : Plain → String
  | .opq k => s!"L {k}"
  | .withDims ds => s!"D {ds.length}" ++ String.join (ds.map fun m => s!" {m}")
  | .withMask bs => s!"B {bs.length}" ++ String.join (bs.map fun b => if b then " 1" else " 0")
  | .withIdx ds => s!"I {ds.length}" ++ String.join (ds.map fun m => s!" {m}")
  | .withSlice a b c =>
    let f (o : Option Int) := match o with | none => "N" | some i => s!"{i}"
    s!"S {f a} {f b} {f c}"

def fmtCell : Cell → String
  | .fam d t => s!"F {d} {t.cls.name} {fmtM t.M}"
  | .chain ms => s!"C {ms.length}" ++ String.join (ms.map fun m => s!" {m}")
  | .leaf p => fmtPlain p

def fmtLeaf : Leaf → String
  | .fam d t => s!"F {d} {t.cls.name} {fmtM t.M}"
  | .plain p => fmtPlain p

def fmtErr : Err → String
  | .rejected => "e rejected" | .noMethod => "e noMethod" | .shape => "e shape"
  | .notImplemented => "e notImplemented" | .badRef => "e badRef" | .fuel => "e fuel"

def fmtRow (r : ClsRow) : String :=
  let l (cs : List HCls) := s!"{cs.length}" ++ String.join (cs.map fun c => " " ++ c.name)
  s!"{r.cls.name} {l r.ancestors} {if r.isAlignment then 1 else 0} {l r.inplaceWith} {l r.composesWith} {r.strip.name}"

def fmtTable (t : ClassTable) : String :=
  s!"T {t.length}" ++ String.join (t.map fun r => " " ++ fmtRow r)

/-- run the statements one by one with `step` (a refused statement leaves the store as it is,
exactly as `stepKeep`), reporting each result -/
def runProg (tbl : ClassTable) (st : Store) (ss : List Stmt) : String :=
  let (st', outs) := ss.foldl (fun (acc : Store × List String) s =>
    let (st, outs) := acc
    match step tbl st s with
    | .error e => (st, fmtErr e :: outs)
    | .ok (st', some r) => (st', s!"r {r} {fmtCell (st'.getD r (.leaf (.opq 0)))}" :: outs)
    | .ok (st', none) =>
      let a := match s with | .inplace _ a _ => a | .compose _ a _ => a | .fromVector a _ => a
      (st', s!"i {fmtCell (st'.getD a (.leaf (.opq 0)))}" :: outs)) (st, [])
  "ok" ++ String.join (outs.reverse.map fun o => " | " ++ o) ++ " # " ++ " ; ".intercalate (st'.map fmtCell)

def opProg : P String := do
  let tbl ← pTable
  pKw "S"
  let cells ← pList pCell
  pKw "P"
  let ss ← pList pStmt
  pure (runProg tbl cells ss)

def opApply (d : Nat) : P String := do
  let tbl ← pTable
  let c ← pCls
  let es ← pMany pRat ((d + 1) * (d + 1))
  let xs ← pMany pRat d
  let t : HT d := ⟨c, (Mat.ofList (d + 1) es).freeze⟩
  match applyHT tbl t (Vec.ofList d xs) with
  | some y => pure ("ok " ++ fmtRats y.toList)
  | none => pure "undef"

def opFlat : P String := do
  let fuel ← pNat
  let r ← pNat
  pKw "S"
  let cells ← pList pCell
  match flat cells fuel r with
  | some ls => pure ("ok " ++ " ; ".intercalate (ls.map fmtLeaf))
  | none => pure "none"

def opApplyC : P String := do
  let fuel ← pNat
  let r ← pNat
  let x ← pList pRat
  let tbl ← pTable
  pKw "S"
  let cells ← pList pCell
  match flat cells fuel r with
  | none => pure "none"
  | some ls =>
    match applyLeaves tbl (fun _ _ => none) ls x with
    | some y => pure ("ok " ++ fmtRats y)
    | none => pure "undef"

def opDim : P String := do
  let fuel ← pNat
  let r ← pNat
  let n ← pNat
  pKw "S"
  let cells ← pList pCell
  match flat cells fuel r with
  | none => pure "none"
  | some ls =>
    match leavesDim (fun _ k => some k) ls n with
    | some k => pure s!"ok {k}"
    | none => pure "err"

def opReach : P String := do
  let fuel ← pNat
  let r ← pNat
  let a ← pNat
  pKw "S"
  let cells ← pList pCell
  pure (if reaches cells fuel r a then "1" else "0")

def opFromVec (d : Nat) : P String := do
  let c ← pCls
  let es ← pMany pRat ((d + 1) * (d + 1))
  let v ← pList pRat
  match fromVec c (Mat.ofList (d + 1) es).freeze v with
  | .ok M => pure ("ok " ++ fmtM M)
  | .error e => pure (fmtErr e)

def opDecomp (d : Nat) : P String := do
  let uniform ← pBool
  let u ← pMany pRat (d * d)
  let v ← pMany pRat (d * d)
  let s ← pMany pRat d
  let t ← pMany pRat d
  let ls := decomposeLeaves (Mat.ofList d u).freeze (Mat.ofList d v).freeze (Vec.ofList d s) uniform
    (Vec.ofList d t)
  -- folding `compose_before` over the list multiplies the later factors on the left
  let prod : Option (Mat (d + 1)) := ls.foldl (fun acc l =>
    match acc, l with
    | some acc, .fam d' h => if e : d' = d then some (Mat.mul (e ▸ h.M) acc) else none
    | _, _ => none) (some (Mat.one (d + 1)))
  pure ("ok " ++ " ; ".intercalate (ls.map fmtLeaf) ++ " # " ++ (match prod with | some p => fmtM p | none => "none"))

def fmtRes {d : Nat} : Except Err (HT d) → String
  | .ok t => "ok " ++ fmtCell (.fam d t)
  | .error e => fmtErr e

def opCtor (kind : String) (d : Nat) : P String := do
  match kind with
  | "mat" => do
    let c ← pCls
    let skip ← pBool
    let es ← pMany pRat ((d + 1) * (d + 1))
    pure (fmtRes (ctorMat c (Mat.ofList (d + 1) es).freeze skip))
  | "rot" => do
    let _skip ← pBool
    let es ← pMany pRat (d * d)
    pure (fmtRes (.ok (ctorRotation (Mat.ofList d es).freeze) : Except Err (HT d)))
  | "trans" => do
    let skip ← pBool
    let ts ← pMany pRat d
    pure (fmtRes (ctorTranslation (Vec.ofList d ts) skip))
  | "uscale" => do
    let skip ← pBool
    let s ← pRat
    pure (fmtRes (ctorUniformScale s d skip))
  | "nuscale" => do
    let skip ← pBool
    let vs ← pMany pRat d
    pure (fmtRes (ctorNonUniformScale (Vec.ofList d vs) skip))
  | _ => failure

def opIdent (d : Nat) : P String := do
  let c ← pCls
  pure (fmtRes (identityOf c d))

def pTag : P (Option DT) := do
  let t ← tok
  match t with
  | "int64" => pure (some .int64)
  | "float32" => pure (some .float32)
  | "float64" => pure (some .float64)
  | "-" => pure none
  | _ => failure

def fmtTag : Option DT → String
  | some .int64 => "int64" | some .float32 => "float32" | some .float64 => "float64" | none => "-"

def opDtProg : P String := do
  let tbl ← pTable
  pKw "S"
  let cells ← pList pCell
  pKw "T"
  let tags ← pList pTag
  pKw "P"
  let ss ← pList pStmt
  let (_, ts) := runT tbl (cells, tags) ss
  pure ("ok" ++ String.join (ts.map fun t => " " ++ fmtTag t))

def step (toks : List String) : String :=
  match toks with
  | ["table", "E"] => fmtTable expectedClassTable
  | ["table", "C"] => fmtTable codedClassTable
  | "prog" :: rest => (runP opProg rest).getD "bad-op"
  | "flat" :: rest => (runP opFlat rest).getD "bad-op"
  | "applyc" :: rest => (runP opApplyC rest).getD "bad-op"
  | "dim" :: rest => (runP opDim rest).getD "bad-op"
  | "reach" :: rest => (runP opReach rest).getD "bad-op"
  | "dtprog" :: rest => (runP opDtProg rest).getD "bad-op"
  | "ctor" :: kind :: ds :: rest =>
    match ds.toNat? with
    | some d => (runP (opCtor kind d) rest).getD "bad-op"
    | none => "bad-op"
  | op :: ds :: rest =>
    match ds.toNat? with
    | none => "bad-op"
    | some d =>
      let p : Option (P String) := match op with
        | "apply" => some (opApply d)
        | "fromvec" => some (opFromVec d)
        | "decomp" => some (opDecomp d)
        | "ident" => some (opIdent d)
        | _ => none
      match p with
      | none => "bad-op"
      | some p => (runP p rest).getD "bad-op"
  | _ => "bad-op"

end MenpoModel.Drive.C03
