/-
C05 — obligations over the TRANSLATED vectorisation code (`Generated/C05Src.lean`, regenerated from the source
text of the menpo working tree on every run by harness/trans_c05.py).

Part 1: every translated supplier equals the hand-written definition of `Core/Vectorize.lean` (variant `fixed`)
that the theorems of `Props/C05.lean` are about — for all arguments, or, where the code only makes sense on a
square 3×3 / 4×4 matrix (the class invariant of the affine family), for all such matrices.  The proofs evaluate the
translated definition symbolically (`simp` over the vocabulary of `Core/C05Src.lean`, then `ring`), so a harmless
rewrite of the Python keeps them and a changed decision breaks them.

Part 2: the translated suppliers assembled through the regenerated method-resolution tables
(`Generated.dispatch`, `Generated.syncDispatch`) equal the Core model, and the property theorems
(`from_as`, `as_from`, `alignment_target_resynced`, …) are re-stated over the assembled translated code.
-/
import MenpoModel.Generated.C05Src
import MenpoModel.Generated.C05Dispatch
import MenpoModel.Props.C05

set_option linter.style.nameCheck false
set_option linter.unusedVariables false
set_option linter.unusedSimpArgs false

namespace MenpoModel.C05.SrcProps
open MenpoModel.C05 MenpoModel.C05.Np
open scoped MenpoModel.C05.Np

/-! ## helpers -/

theorem mat_sub_def (a b : Mat) : a - b = matSub a b := rfl

/-- evaluation of the numpy vocabulary on literal arguments -/
syntax "np_simp" (" [" Lean.Parser.Tactic.simpLemma,* "]")? : tactic
macro_rules
  | `(tactic| np_simp) => `(tactic| simp [Np.shape0, Np.ncols, Np.shapeOf, Np.at1, Np.at2, Np.takeIdx, Np.eye, Np.eyeAux,
      Np.unitRow, Np.matSub, mat_sub_def, Np.vecNeg, Np.matDiv, Np.topRows, Np.colsFrom, Np.ravelF, Np.ravelC, Np.rowF,
      Np.reshapeFAux, Np.reshapeF, Np.addTop, Np.set2, Np.setColTop, Np.lastColTop, Np.scaleSqrt, Np.outerSelf,
      Np.symRow, Np.symAux, Np.symLower, Np.topColumn, Np.cloudDims, Np.cloudPoints, List.replicate])
  | `(tactic| np_simp [$ls,*]) => `(tactic| simp [Np.shape0, Np.ncols, Np.shapeOf, Np.at1, Np.at2, Np.takeIdx, Np.eye,
      Np.eyeAux, Np.unitRow, Np.matSub, mat_sub_def, Np.vecNeg, Np.matDiv, Np.topRows, Np.colsFrom, Np.ravelF, Np.ravelC,
      Np.rowF, Np.reshapeFAux, Np.reshapeF, Np.addTop, Np.set2, Np.setColTop, Np.lastColTop, Np.scaleSqrt, Np.outerSelf,
      Np.symRow, Np.symAux, Np.symLower, Np.topColumn, Np.cloudDims, Np.cloudPoints, List.replicate, $ls,*])

theorem len4 (p : Vec) (h : p.length = 4) : ∃ a b c d, p = [a, b, c, d] := by
  match p, h with
  | [a, b, c, d], _ => exact ⟨a, b, c, d, rfl⟩

theorem len6 (p : Vec) (h : p.length = 6) : ∃ a b c d e f, p = [a, b, c, d, e, f] := by
  match p, h with
  | [a, b, c, d, e, f], _ => exact ⟨a, b, c, d, e, f, rfl⟩

theorem len7 (p : Vec) (h : p.length = 7) : ∃ a b c d e f g, p = [a, b, c, d, e, f, g] := by
  match p, h with
  | [a, b, c, d, e, f, g], _ => exact ⟨a, b, c, d, e, f, g, rfl⟩

theorem len12 (p : Vec) (h : p.length = 12) :
    ∃ a b c d e f g i j k l m, p = [a, b, c, d, e, f, g, i, j, k, l, m] := by
  match p, h with
  | [a, b, c, d, e, f, g, i, j, k, l, m], _ => exact ⟨a, b, c, d, e, f, g, i, j, k, l, m, rfl⟩

/-- the class invariant of the affine family that the `_as_vector` suppliers rely on: a square 3×3 / 4×4 matrix -/
def Aff (h : Mat) : Prop := isSquare h 3 = true ∨ isSquare h 4 = true

theorem aff_of_wf (h : Mat) (hw : affineWF h = true) : Aff h := by
  simp only [affineWF, Bool.and_eq_true, Bool.or_eq_true] at hw
  exact hw.1

/-- `m.shape[1] = m.shape[0]` -/
def Sq (h : Mat) : Prop := Np.ncols h = h.length

theorem sq_of_aff (h : Mat) (ha : Aff h) : Sq h := by
  rcases ha with h3 | h4
  · obtain ⟨a, b, c, d, e, f, g, i, j, rfl⟩ := sq3 h h3; rfl
  · obtain ⟨a, b, c, t, d, e, f, u, g, i, j, w, k, l, m, n, rfl⟩ := sq4 h h4; rfl

theorem n_dims_sq (x : Xf) (hs : Sq x.h) : Src.Homogeneous_n_dims x = x.h.length - 1 := by
  unfold Src.Homogeneous_n_dims; rw [hs]

/-! ## Part 1 — the translated suppliers of the transform classes -/

/-! ### `_set_h_matrix` (the three suppliers), as the vectorisation code calls it (`skip_checks=True`) -/

theorem Homogeneous__set_h_matrix_eq (x : Xf) (m : Mat) (c k : Bool) :
    Src.Homogeneous__set_h_matrix x m c k = .ok { x with h := m } := by
  unfold Src.Homogeneous__set_h_matrix
  split <;> rfl

theorem Affine__set_h_matrix_eq (x : Xf) (m : Mat) (c : Bool) :
    Src.Affine__set_h_matrix x m c true = .ok { x with h := m } := by
  unfold Src.Affine__set_h_matrix
  simp

/-- with the checks on, `Affine._set_h_matrix` only ever stores the matrix it was given -/
theorem Affine__set_h_matrix_checked (x x' : Xf) (m : Mat) (c k : Bool)
    (h : Src.Affine__set_h_matrix x m c k = .ok x') : x' = { x with h := m } := by
  unfold Src.Affine__set_h_matrix at h
  dsimp only at h
  repeat' split at h
  all_goals (cases h <;> rfl)

/-! ### Homogeneous -/

theorem Homogeneous__as_vector_eq (x : Xf) : Src.Homogeneous__as_vector x = homogAsVec x.h := rfl

theorem Homogeneous__from_vector_inplace_eq (r : Row) (S : Xf → Mat → Bool → Bool → Except Err Xf) (x : Xf)
    (hS : ∀ m c, S x m c true = setH r x m) (v : Vec) :
    Src.Homogeneous__from_vector_inplace S x v = homogFvi r x v := by
  simp only [Src.Homogeneous__from_vector_inplace, homogFvi, Np.reshapeLike, Np.ncols, hS]
  repeat' split
  all_goals simp_all

theorem Homogeneous_from_vector_eq (F : Xf → Vec → Except Err Xf) (x : Xf) (v : Vec) :
    Src.Homogeneous_from_vector id F x v = F x v := by
  unfold Src.Homogeneous_from_vector
  simp only [id]
  split <;> simp_all

/-! ### Affine -/

theorem Affine_n_parameters_eq (x : Xf) (hs : Sq x.h) :
    Src.Affine_n_parameters x = .ok ((x.h.length - 1) * (x.h.length - 1 + 1)) := by
  unfold Src.Affine_n_parameters; rw [n_dims_sq x hs]

theorem Affine__as_vector_eq (x : Xf) (ha : Aff x.h) : Src.Affine__as_vector x = affineAsVec x.h := by
  obtain ⟨cl, h, s, t⟩ := x
  rcases ha with h3 | h4
  · obtain ⟨a, b, c, d, e, f, g, i, j, rfl⟩ := sq3 h h3
    np_simp [Src.Affine__as_vector, Src.Homogeneous_n_dims, affineAsVec]
  · obtain ⟨a, b, c, t', d, e, f, u, g, i, j, w, k, l, m, n, rfl⟩ := sq4 h h4
    np_simp [Src.Affine__as_vector, Src.Homogeneous_n_dims, affineAsVec]

theorem Affine__from_vector_inplace_eq (r : Row) (S : Xf → Mat → Bool → Bool → Except Err Xf) (x : Xf)
    (hS : ∀ m c, S x m c true = setH r x m) (p : Vec) :
    Src.Affine__from_vector_inplace S x p = affineFvi fixed r x p := by
  by_cases h6 : p.length = 6
  · obtain ⟨a, b, c, d, e, f, rfl⟩ := len6 p h6
    np_simp [Src.Affine__from_vector_inplace, affineFvi, hS]
    split <;> simp_all
  · by_cases h12 : p.length = 12
    · obtain ⟨a, b, c, d, e, f, g, i, j, k, l, m, rfl⟩ := len12 p h12
      np_simp [Src.Affine__from_vector_inplace, affineFvi, hS]
      split <;> simp_all
    · have : affineFvi fixed r x p = .error .value := by
        unfold affineFvi
        split
        · simp at h6
        · simp at h12
        · rfl
      rw [this]
      simp [Src.Affine__from_vector_inplace, Np.shape0, h6, h12]

/-! ### Similarity -/

theorem Similarity_n_parameters_eq (x : Xf) (hs : Sq x.h) :
    Src.Similarity_n_parameters x =
      (if x.h.length - 1 = 2 then .ok 4 else if x.h.length - 1 = 3 then .error .notImpl else .error .value) := by
  unfold Src.Similarity_n_parameters; rw [n_dims_sq x hs]
  repeat' split
  all_goals simp_all

theorem Similarity__as_vector_eq (x : Xf) (ha : Aff x.h) : Src.Similarity__as_vector x = similarityAsVec x.h := by
  obtain ⟨cl, h, s, t⟩ := x
  rcases ha with h3 | h4
  · obtain ⟨a, b, c, d, e, f, g, i, j, rfl⟩ := sq3 h h3
    np_simp [Src.Similarity__as_vector, Src.Homogeneous_n_dims, similarityAsVec]
  · obtain ⟨a, b, c, t', d, e, f, u, g, i, j, w, k, l, m, n, rfl⟩ := sq4 h h4
    np_simp [Src.Similarity__as_vector, Src.Homogeneous_n_dims, similarityAsVec]

theorem Similarity__from_vector_inplace_eq (r : Row) (S : Xf → Mat → Bool → Bool → Except Err Xf) (x : Xf)
    (hS : ∀ m c, S x m c true = setH r x m) (p : Vec) :
    Src.Similarity__from_vector_inplace S x p = similarityFvi r x p := by
  by_cases h4 : p.length = 4
  · obtain ⟨a, b, c, d, rfl⟩ := len4 p h4
    np_simp [Src.Similarity__from_vector_inplace, similarityFvi, hS]
    split <;> simp_all
  · by_cases h7 : p.length = 7
    · obtain ⟨a, b, c, d, e, f, g, rfl⟩ := len7 p h7
      np_simp [Src.Similarity__from_vector_inplace, similarityFvi]
    · have : similarityFvi r x p = .error .value := by
        unfold similarityFvi
        split
        · simp at h4
        · simp at h7
        · rfl
      rw [this]
      simp [Src.Similarity__from_vector_inplace, Np.shape0, h4, h7]

/-! ### Translation -/

theorem Translation_n_parameters_eq (x : Xf) (hs : Sq x.h) :
    Src.Translation_n_parameters x = .ok (x.h.length - 1) := by
  unfold Src.Translation_n_parameters; rw [n_dims_sq x hs]

theorem Translation__as_vector_eq (x : Xf) : Src.Translation__as_vector x = translationAsVec x.h := rfl

theorem Translation__from_vector_inplace_eq (x : Xf) (p : Vec) :
    Src.Translation__from_vector_inplace x p = translationFvi x p := by
  unfold translationFvi
  dsimp only
  split
  · rename_i h1; simp only [Src.Translation__from_vector_inplace, Np.assignLastColTop, if_pos h1, Except.map]
  · split
    · rename_i h1 h2
      simp only [Src.Translation__from_vector_inplace, Np.assignLastColTop, if_neg h1, if_pos h2, Except.map]
    · rename_i h1 h2
      simp only [Src.Translation__from_vector_inplace, Np.assignLastColTop, if_neg h1, if_neg h2, Except.map]

/-! ### UniformScale / NonUniformScale -/

theorem at2_00 (h : Mat) : Np.at2 h 0 0 = (h.headD []).headD 0 := by
  cases h with
  | nil => rfl
  | cons r rs => cases r <;> rfl

theorem fillDiagOne_eq (h : Mat) (p : Vec) : Np.setCornerOne (Np.fillDiag h p) = fillDiagOne h p := rfl

theorem UniformScale_n_parameters_eq (x : Xf) : Src.UniformScale_n_parameters x = .ok 1 := rfl

theorem UniformScale__as_vector_eq (x : Xf) : Src.UniformScale__as_vector x = uniformScaleAsVec x.h := by
  simp [Src.UniformScale__as_vector, Src.UniformScale_scale, uniformScaleAsVec, at2_00]

theorem UniformScale__from_vector_inplace_eq (x : Xf) (p : Vec) :
    Src.UniformScale__from_vector_inplace x p = uniformScaleFvi fixed x p := by
  simp only [Src.UniformScale__from_vector_inplace, uniformScaleFvi, fixed, Np.shape0, fillDiagOne_eq, Bool.true_and]
  repeat' split
  all_goals simp_all

theorem diagAux_length (h : Mat) (i : Nat) : (diagAux i h).length = h.length := by
  induction h generalizing i with
  | nil => rfl
  | cons r rs ih => simp [diagAux, ih]

theorem NonUniformScale_n_parameters_eq (x : Xf) : Src.NonUniformScale_n_parameters x = .ok (x.h.length - 1) := by
  simp [Src.NonUniformScale_n_parameters, Src.NonUniformScale_scale, Np.shape0, diag, diagAux_length]

theorem NonUniformScale__as_vector_eq (x : Xf) : Src.NonUniformScale__as_vector x = nonUniformScaleAsVec x.h := rfl

theorem NonUniformScale__from_vector_inplace_eq (x : Xf) (p : Vec) :
    Src.NonUniformScale__from_vector_inplace x p = nonUniformScaleFvi x p := rfl

/-! ### Rotation -/

theorem Rotation_n_parameters_eq (x : Xf) (hs : Sq x.h) :
    Src.Rotation_n_parameters x = (if x.h.length - 1 = 3 then .ok 4 else .error .notImpl) := by
  unfold Src.Rotation_n_parameters; rw [n_dims_sq x hs]
  repeat' split
  all_goals simp_all

/-- the matrix `K` the code builds (lower triangle filled, divided by 3, read by `eigh` as a symmetric matrix) is
the model's `rotK`; the permutation `[3, 0, 1, 2]` and the sign convention are the model's -/
theorem Rotation__as_vector_eq (eig : Mat → Vec) (x : Xf) (ha : Aff x.h) :
    Src.Rotation__as_vector eig x = rotationAsVec eig x.h := by
  obtain ⟨cl, h, s, t⟩ := x
  rcases ha with h3 | h4
  · obtain ⟨a, b, c, d, e, f, g, i, j, rfl⟩ := sq3 h h3
    np_simp [Src.Rotation__as_vector, Src.Homogeneous_n_dims, rotationAsVec, rotK]
  · obtain ⟨a, b, c, t', d, e, f, u, g, i, j, w, k, l, m, n, rfl⟩ := sq4 h h4
    np_simp [Src.Rotation__as_vector, Src.Homogeneous_n_dims, rotationAsVec, rotK, Np.eigh]
    generalize eig _ = ev
    rcases ev with _ | ⟨e0, _ | ⟨e1, _ | ⟨e2, _ | ⟨e3, _ | ⟨e4, r⟩⟩⟩⟩⟩ <;> simp

theorem Rotation_set_rotation_matrix_eq (x : Xf) (R : Mat) :
    Src.Rotation_set_rotation_matrix x R true = .ok { x with h := setRotBase x.h R } := by
  simp [Src.Rotation_set_rotation_matrix]

theorem eps4_eq : Np.epsF * 4 = eps4 := by
  unfold Np.epsF eps4
  norm_num [mkRat]

/-- the quaternion formulas of the code are the model's `quatMatrix` (the square root only enters squared) -/
theorem Rotation__from_vector_inplace_eq (r : Row) (S : Xf → Mat → Bool → Except Err Xf) (x : Xf)
    (hS : ∀ m, S x m true = setRot r x m) (p : Vec) (hs : Sq x.h) :
    Src.Rotation__from_vector_inplace S x p = rotationFvi r x p := by
  unfold rotationFvi
  split
  · rename_i h1
    have : ¬ (x.h.length - 1 = 3) := by omega
    simp [Src.Rotation__from_vector_inplace, n_dims_sq x hs, this]
  · rename_i h1
    have h3 : x.h.length - 1 = 3 := by omega
    split
    · rename_i w a b c
      np_simp [Src.Rotation__from_vector_inplace, n_dims_sq x hs, h3, dot, eps4_eq, hS, quatMatrix]
      ring_nf
      split
      · rfl
      · split <;> simp_all
    · rename_i hne
      have h4 : p.length ≠ 4 := by
        intro h; obtain ⟨a, b, c, d, rfl⟩ := len4 p h; exact hne a b c d rfl
      simp [Src.Rotation__from_vector_inplace, n_dims_sq x hs, h3, Np.shape0, h4]

/-! ### the re-sync of the target: `Targetable._sync_target_from_state` and what it calls -/

theorem applyAff_shape (h src t : Mat) (ha : applyAff h src = .ok t) :
    t.length = src.length ∧ (src ≠ [] → Np.ncols t = h.length - 1) := by
  unfold applyAff at ha
  split at ha
  · cases ha
  · split at ha
    · injection ha with ha; subst ha
      refine ⟨by simp, ?_⟩
      intro hne
      cases src with
      | nil => exact absurd rfl hne
      | cons p ps => simp [Np.ncols, applyPoint]
    · cases ha

theorem applyAff_dim (h src t : Mat) (ha : applyAff h src = .ok t) (p : Vec) (hp : p ∈ src) :
    p.length + 1 = h.length := by
  unfold applyAff at ha
  split at ha
  · cases ha
  · split at ha
    · rename_i hall
      simp only [List.all_eq_true, beq_iff_eq] at hall
      exact hall p hp
    · cases ha

/-- the shape condition `_verify_target` checks: the target has as many points as the source and their width.  True
of every alignment the constructors build (source and target must have the same shape), whatever the target's values —
in particular of a freshly built alignment whose target is NOT the aligned source — and kept by every parameter update. -/
def Conforms (y : Xf) : Prop :=
  y.tgt.length = y.src.length ∧ ∀ p, y.src.head? = some p → Np.ncols y.tgt = p.length

/-- the re-sync assembled from the translated suppliers: `_sync_target_from_state` takes the new target from
`_new_target_from_state` = `aligned_source()` = `self.apply(self.source)` and installs it through
`_target_setter_with_verification` = `_verify_target` then `_target_setter` -/
def syncWith (nt : Xf → Except Err Mat) (ver set : Xf → Mat → Except Err Xf) (x : Xf) : Except Err Xf :=
  Src.Targetable__sync_target_from_state nt (Src.Targetable__target_setter_with_verification ver set) x

theorem sync_eq (y : Xf) (hres : Conforms y) :
    syncWith (Src.Alignment__new_target_from_state Src.Alignment_aligned_source) Src.Targetable__verify_target
      Src.Alignment__target_setter y = syncTarget y := by
  obtain ⟨hl0, hc0⟩ := hres
  unfold syncTarget
  cases hap : applyAff y.h y.src with
  | error e =>
    simp [syncWith, Src.Targetable__sync_target_from_state, Src.Alignment__new_target_from_state,
      Src.Alignment_aligned_source, Np.applyToSource, hap]
  | ok t =>
    obtain ⟨hl1, hc1⟩ := applyAff_shape _ _ _ hap
    have hlen : t.length = y.tgt.length := by rw [hl0, hl1]
    have hcol : Np.ncols t = Np.ncols y.tgt := by
      cases hs : y.src with
      | nil =>
        have : t = [] := List.eq_nil_of_length_eq_zero (by rw [hl1, hs]; rfl)
        have : y.tgt = [] := List.eq_nil_of_length_eq_zero (by rw [hl0, hs]; rfl)
        simp_all
      | cons p ps =>
        have hne : y.src ≠ [] := by rw [hs]; simp
        have d0 := hc0 p (by rw [hs]; rfl)
        have d1 := applyAff_dim _ _ _ hap p (by rw [hs]; simp)
        rw [hc1 hne, d0]; omega
    simp [syncWith, Src.Targetable__sync_target_from_state, Src.Alignment__new_target_from_state,
      Src.Alignment_aligned_source, Np.applyToSource, hap, Src.Targetable__target_setter_with_verification,
      Src.Targetable__verify_target, Src.Alignment__target_setter, Np.cloudDims, Np.cloudPoints, hlen, hcol]

/-- a target that IS an affine image of the source conforms (well-formed alignments) -/
theorem conforms_of_image (y : Xf) (h0 : Mat) (hh : applyAff h0 y.src = .ok y.tgt) : Conforms y := by
  obtain ⟨hl, hc⟩ := applyAff_shape _ _ _ hh
  refine ⟨hl, fun p hp => ?_⟩
  have hne : y.src ≠ [] := by intro h; rw [h] at hp; cases hp
  have hm : p ∈ y.src := by
    cases hs : y.src with
    | nil => exact absurd hs hne
    | cons q qs => rw [hs] at hp; cases hp; simp
  have d := applyAff_dim _ _ _ hh p hm
  rw [hc hne]; omega

/-! ### the alignment variants: the parameter update of the plain class, then the re-sync -/

theorem bind_sync (e : Except Err Xf) (Y : Xf → Except Err Xf) (hY : ∀ y, e = .ok y → Y y = syncTarget y) :
    (match e with
     | .error err => .error err
     | .ok y => match Y y with
       | .error err => .error err
       | .ok z => .ok z) = bindSync e := by
  cases e with
  | error err => rfl
  | ok y => simp only [bindSync]; rw [hY y rfl]; cases syncTarget y <;> rfl

theorem AlignmentAffine__set_h_matrix_eq (Y : Xf → Except Err Xf) (x : Xf) (m : Mat) (c : Bool)
    (hY : Y { x with h := m } = syncTarget { x with h := m }) :
    Src.AlignmentAffine__set_h_matrix Y x m c true = syncTarget { x with h := m } := by
  simp only [Src.AlignmentAffine__set_h_matrix, Affine__set_h_matrix_eq, hY]
  cases syncTarget { x with h := m } <;> rfl

theorem AlignmentRotation_set_rotation_matrix_eq (Y : Xf → Except Err Xf) (x : Xf) (R : Mat)
    (hY : Y { x with h := setRotBase x.h R } = syncTarget { x with h := setRotBase x.h R }) :
    Src.AlignmentRotation_set_rotation_matrix Y x R true = syncTarget { x with h := setRotBase x.h R } := by
  simp only [Src.AlignmentRotation_set_rotation_matrix, Rotation_set_rotation_matrix_eq, hY]
  cases syncTarget { x with h := setRotBase x.h R } <;> rfl

theorem AlignmentSimilarity__from_vector_inplace_eq (r : Row) (S : Xf → Mat → Bool → Bool → Except Err Xf) (x : Xf)
    (hS : ∀ m c, S x m c true = setH r x m) (Y : Xf → Except Err Xf) (p : Vec)
    (hY : ∀ y, similarityFvi r x p = .ok y → Y y = syncTarget y) :
    Src.AlignmentSimilarity__from_vector_inplace S Y x p = bindSync (similarityFvi r x p) := by
  simp only [Src.AlignmentSimilarity__from_vector_inplace, Similarity__from_vector_inplace_eq r S x hS]
  cases he : similarityFvi r x p with
  | error err => rfl
  | ok y => simp only [bindSync]; rw [hY y he]; cases syncTarget y <;> rfl

theorem AlignmentTranslation__from_vector_inplace_eq (Y : Xf → Except Err Xf) (x : Xf) (p : Vec)
    (hY : ∀ y, translationFvi x p = .ok y → Y y = syncTarget y) :
    Src.AlignmentTranslation__from_vector_inplace Y x p = bindSync (translationFvi x p) := by
  simp only [Src.AlignmentTranslation__from_vector_inplace, Translation__from_vector_inplace_eq]
  cases he : translationFvi x p with
  | error err => rfl
  | ok y => simp only [bindSync]; rw [hY y he]; cases syncTarget y <;> rfl

theorem AlignmentUniformScale__from_vector_inplace_eq (Y : Xf → Except Err Xf) (x : Xf) (p : Vec)
    (hY : ∀ y, uniformScaleFvi fixed x p = .ok y → Y y = syncTarget y) :
    Src.AlignmentUniformScale__from_vector_inplace Y x p = bindSync (uniformScaleFvi fixed x p) := by
  simp only [Src.AlignmentUniformScale__from_vector_inplace, UniformScale__from_vector_inplace_eq]
  cases he : uniformScaleFvi fixed x p with
  | error err => rfl
  | ok y => simp only [bindSync]; rw [hY y he]; cases syncTarget y <;> rfl

/-! ## Part 1 — `Vectorizable` itself -/

/-- `as_vector()` is `_as_vector()` with the `writeable` flag of the returned array object cleared; nothing else -/
theorem Vectorizable_as_vector_eq {α β : Type} (av : α → Except Err β) (x : α) :
    Src.Vectorizable_as_vector av x = (av x).map (fun v => ⟨v, false⟩) := by
  unfold Src.Vectorizable_as_vector
  cases av x <;> rfl

theorem Vectorizable_n_parameters_eq {α β : Type} (av : α → Except Err (Np.Flagged (List β))) (x : α) :
    Src.Vectorizable_n_parameters av x = (av x).map (fun a => a.val.length) := rfl

theorem Vectorizable_from_vector_inplace_eq {α : Type} (F : α → Vec → Except Err α) (x : α) (v : Vec) :
    Src.Vectorizable_from_vector_inplace F x v = F x v := rfl

theorem Vectorizable_from_vector_eq {α : Type} (F : α → Vec → Except Err α) (x : α) (v : Vec) :
    Src.Vectorizable_from_vector id F x v = F x v := by
  unfold Src.Vectorizable_from_vector
  simp only [id]
  cases F x v <;> rfl

/-! ## Part 1 — shapes -/

theorem has_landmarks_shape_eq (s : Shape) : Src.Landmarkable_has_landmarks_shape s = !(s.lms == []) := by
  unfold Src.Landmarkable_has_landmarks_shape Np.shape0
  cases s.lms <;> simp

theorem PointCloud__as_vector_eq (s : Shape) : Src.PointCloud__as_vector s = .ok s.asVec := rfl

theorem PointCloud__from_vector_inplace_eq (s : Shape) (v : Vec) :
    Src.PointCloud__from_vector_inplace s v = pointCloudFvi fixed s v := by
  by_cases h1 : v.length = s.points.length <;> by_cases h2 : s.d = 0 <;> by_cases h3 : v.length % s.d = 0 <;>
    simp_all [Src.PointCloud__from_vector_inplace, Src.PointCloud_n_dims, pointCloudFvi, fixed, Np.reshapeNeg1, Np.shape0]

theorem TexturedTriMesh_from_vector_eq (s : Shape) (v : Vec) (hc : s.cls = .TexturedTriMesh) :
    Src.TexturedTriMesh_from_vector s v = texturedFromVector fixed s v := by
  obtain ⟨cl, d, pts, nv, tris, ex, lms⟩ := s
  simp only at hc; subst hc
  by_cases h1 : v.length = pts.length <;> by_cases h2 : d = 0 <;> by_cases h3 : v.length % d = 0 <;>
    by_cases h4 : lms = [] <;>
    simp_all [Src.TexturedTriMesh_from_vector, Src.PointCloud_n_dims, texturedFromVector, fixed, Np.reshapeNeg1, Np.shape0,
      has_landmarks_shape_eq, Np.mkTextured]

/-! ## Part 1 — images -/

theorem has_landmarks_image_eq (x : Img) : Src.Landmarkable_has_landmarks_image x = !(x.lms == []) := by
  unfold Src.Landmarkable_has_landmarks_image Np.shape0
  cases x.lms <;> simp

/-- `copy_landmarks_and_path(source, target)` on a target without landmarks: the target with the source's landmarks -/
theorem copy_landmarks_eq (src tgt : Img) (ht : tgt.lms = []) :
    Src.copy_landmarks_and_path src tgt = { tgt with lms := src.lms } := by
  obtain ⟨c, sh, ch, m, l⟩ := tgt
  simp only at ht; subst ht
  unfold Src.copy_landmarks_and_path
  rw [has_landmarks_image_eq]
  by_cases h : src.lms = [] <;> simp [h]

theorem Image__as_vector_flat (x : Img) : Src.Image__as_vector x false = .flat (imageAsVec x) := by
  simp [Src.Image__as_vector, imageAsVec]

theorem Image__as_vector_keep (x : Img) : Src.Image__as_vector x true = .rows x.chans := by
  simp [Src.Image__as_vector]

theorem MaskedImage__as_vector_flat (x : Img) : Src.MaskedImage__as_vector x false = .flat (maskedAsVec x) := by
  simp only [Src.MaskedImage__as_vector, Src.MaskedImage_masked_pixels, maskedAsVec]
  by_cases h : allTrue x.mask = true <;> simp [h]

theorem MaskedImage__as_vector_keep (x : Img) :
    Src.MaskedImage__as_vector x true =
      .rows (if allTrue x.mask then x.chans else x.chans.map (fun c => maskFilter c x.mask)) := by
  simp only [Src.MaskedImage__as_vector, Src.MaskedImage_masked_pixels]
  by_cases h : allTrue x.mask = true <;> simp [h]

/-- the receiver is a plain image as the constructors build it: class `Image`, no mask -/
def PlainImage (x : Img) : Prop := x.cls = .Image ∧ x.mask = []
def PlainBoolean (x : Img) : Prop := x.cls = .BooleanImage ∧ x.mask = []

theorem Image_from_vector_some (x : Img) (v : Vec) (k : Nat) (c : Bool) (hx : PlainImage x) :
    Src.Image_from_vector x v (some k) c = imageFromVectorN x k v := by
  obtain ⟨cl, sh, ch, m, l⟩ := x
  obtain ⟨h1, h2⟩ := hx
  simp only at h1 h2; subst h1; subst h2
  by_cases hl : v.length = k * prod sh <;>
    simp [Src.Image_from_vector, Src.Image_shape, imageFromVectorN, Np.reshapeImg, Np.ToFlat.toFlat, Np.mkImage, Img.nPix, hl]

theorem Image_from_vector_none (x : Img) (v : Vec) (c : Bool) (hx : PlainImage x) :
    Src.Image_from_vector x v none c = imageFromVector x v := by
  obtain ⟨cl, sh, ch, m, l⟩ := x
  obtain ⟨h1, h2⟩ := hx
  simp only at h1 h2; subst h1; subst h2
  by_cases hl : v.length = ch.length * prod sh <;>
    simp [Src.Image_from_vector, Src.Image_shape, Src.Image_n_channels, imageFromVector, Np.reshapeImg, Np.ToFlat.toFlat,
      Np.mkImage, Np.shape0, Img.nPix, Img.nCh, hl]

theorem Image__from_vector_inplace_eq (g : Bool) (x : Img) (v : Vec) (c : Bool) :
    Src.Image__from_vector_inplace g x v c = imageFvi x v := by
  by_cases hl : v.length = x.chans.length * prod x.shape <;> cases c <;> cases g <;>
    simp [Src.Image__from_vector_inplace, Src.Image_shape, Src.Image_n_channels, imageFvi, Np.reshapeImg, Np.ToFlat.toFlat,
      Np.shape0, Img.nPix, Img.nCh, hl]

theorem BooleanImage_from_vector_eq (x : Img) (v : Vec) (c : Bool) (hx : PlainBoolean x) :
    Src.BooleanImage_from_vector x v c = booleanFromVector x v := by
  obtain ⟨cl, sh, ch, m, l⟩ := x
  obtain ⟨h1, h2⟩ := hx
  simp only at h1 h2; subst h1; subst h2
  by_cases hl : v.length = prod sh <;> by_cases h : l = [] <;>
    simp [Src.BooleanImage_from_vector, Src.Image_shape, booleanFromVector, Np.reshapeShape, Np.mkBoolean, Img.nPix, hl,
      has_landmarks_image_eq, Src.copy_landmarks_and_path, h]

/-! ### masked images -/

theorem overlay_zeros (m : List Bool) (xs : Vec) : overlay m (List.replicate m.length 0) xs = scatter 0 m xs := by
  induction m generalizing xs with
  | nil => cases xs <;> simp [overlay, scatter]
  | cons b bs ih =>
    cases b <;> cases xs <;> simp [overlay, scatter, List.replicate_succ, ih]

theorem zipWith_replicate_left {α β γ} (f : α → β → γ) (a : α) (l : List β) :
    List.zipWith f (List.replicate l.length a) l = l.map (f a) := by
  induction l with
  | nil => rfl
  | cons x xs ih => simp [List.replicate_succ, ih]

theorem head_chunks_length {α} (k n : Nat) (l : List α) (hn : n ≠ 0) (hk : k ≤ l.length) :
    ((chunks k n l).headD []).length = k := by
  cases n with
  | zero => exact absurd rfl hn
  | succ n => simp [chunks, hk]

theorem div_le_len (a n : Nat) : a / n ≤ a := Nat.div_le_self a n

/-- `MaskedImage.from_vector(v, n_channels=k)`: the all-true branch reshapes, the other branch allocates zeros,
reshapes the vector to `(k, -1)` and assigns under the mask — the model's `maskedFromVectorN` on an image whose mask
has one entry per pixel -/
theorem MaskedImage_from_vector_some (x : Img) (v : Vec) (k : Nat) (hx : x.cls = .MaskedImage)
    (hm : x.mask.length = x.nPix) : Src.MaskedImage_from_vector x v (some k) = maskedFromVectorN x k v := by
  obtain ⟨cl, sh, ch, m, l⟩ := x
  simp only at hx; subst hx
  simp only [Img.nPix] at hm
  unfold maskedFromVectorN
  simp only [Img.nPix]
  cases ht : allTrue m
  · -- a partial mask: zeros, reshape to (k, -1), assign under the mask
    by_cases hk : k = 0
    · simp [Src.MaskedImage_from_vector, ht, Np.reshapeRows, hk]
    · by_cases hmod : v.length % k = 0
      · have hw : ((chunks (v.length / k) k v).headD []).length = v.length / k :=
          head_chunks_length _ _ _ hk (Nat.div_le_self _ _)
        have hlen : (chunks (v.length / k) k v).length = k := chunks_length _ _ _
        have hz : ∀ rows : List Vec, rows.length = k →
            List.zipWith (overlay m) (List.replicate k (List.replicate (prod sh) 0)) rows = rows.map (scatter 0 m) := by
          intro rows hr
          rw [← hr, zipWith_replicate_left, ← hm]
          apply List.map_congr_left
          intro r _
          exact overlay_zeros m r
        have hb : (broadcastRows (countTrue m) (chunks (v.length / k) k v)).length = k := by
          simp [broadcastRows, hlen]
        simp only [Src.MaskedImage_from_vector, Src.Image_shape, Option.getD_some, Np.mask_img, Np.mask_raster, ht,
          Bool.not_false, Bool.not_true, Bool.false_eq_true, ↓reduceIte, Np.reshapeRows, hk, hmod, ne_eq,
          not_true_eq_false, Np.assignMasked, Np.zerosImg, hw]
        by_cases h1 : v.length / k = countTrue m
        · simp only [if_pos h1, hz _ hlen]
          simp [copy_landmarks_eq, Np.mkMasked]
        · by_cases h2 : v.length / k = 1
          · simp only [if_neg h1, if_pos h2, hz _ hb]
            simp [copy_landmarks_eq, Np.mkMasked, broadcastRows]
          · simp only [if_neg h1, if_neg h2]
      · simp [Src.MaskedImage_from_vector, ht, Np.reshapeRows, hk, hmod]
  · -- all-true mask: a reshape
    by_cases hl : v.length = k * prod sh <;>
      simp [Src.MaskedImage_from_vector, Src.Image_shape, ht, Np.reshapeImg, Np.ToFlat.toFlat, hl, copy_landmarks_eq,
        Np.mkMasked]

theorem MaskedImage_from_vector_none (x : Img) (v : Vec) :
    Src.MaskedImage_from_vector x v none = Src.MaskedImage_from_vector x v (some x.nCh) := rfl

/-- `MaskedImage._from_vector_inplace` with the `_set_masked_pixels` it calls (all arguments, both copy flags) -/
theorem MaskedImage__from_vector_inplace_eq (g : Bool) (x : Img) (v : Vec) (c : Bool) :
    Src.MaskedImage__from_vector_inplace (Src.MaskedImage__set_masked_pixels g) x v c = maskedFvi x v := by
  obtain ⟨cl, sh, ch, m, l⟩ := x
  unfold maskedFvi
  simp only [Src.MaskedImage__from_vector_inplace, Src.Image_n_channels, Np.shape0, Img.nCh, Img.nPix]
  by_cases hk : ch.length = 0
  · simp [Np.reshapeRows, hk]
  · by_cases hmod : v.length % ch.length = 0
    · have hdiv : v.length = ch.length * (v.length / ch.length) := by
        have := Nat.div_add_mod v.length ch.length; omega
      have hflat : (chunks (v.length / ch.length) ch.length v).flatten = v := flatten_chunks _ _ _ hdiv
      have hw : ((chunks (v.length / ch.length) ch.length v).headD []).length = v.length / ch.length :=
        head_chunks_length _ _ _ hk (Nat.div_le_self _ _)
      clear hdiv
      simp only [Np.reshapeRows, hk, hmod, if_false, ne_eq, not_true_eq_false, Src.MaskedImage__set_masked_pixels,
        Src.Image_n_channels, Src.Image_shape, Np.shape0, Np.reshapeImg, Np.ToFlat.toFlat, hflat, Np.assignMasked,
        Np.pixelsOf, hw]
      by_cases ht : allTrue m = true
      · by_cases hl : v.length = ch.length * prod sh
        · cases c <;> cases g <;> simp [ht, hl]
        · cases c <;> cases g <;> simp [ht, hl]
      · by_cases h1 : v.length / ch.length = countTrue m
        · cases c <;> simp only [if_neg ht, if_pos h1, Except.map] <;> simp_all
        · by_cases h2 : v.length / ch.length = 1
          · cases c <;> simp only [if_neg ht, if_neg h1, if_pos h2, Except.map] <;> simp_all
          · cases c <;> simp only [if_neg ht, if_neg h1, if_neg h2, Except.map] <;> simp_all
    · simp [Np.reshapeRows, hk, hmod]

end MenpoModel.C05.SrcProps
