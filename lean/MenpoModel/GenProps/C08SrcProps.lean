/-
C08 — the property, stated for the TRANSLATED definitions (`Generated/C08Src.lean`: what the source text of the
working tree says now), derived from the equalities of `GenProps/C08Src.lean` and the theorems of `Props/C08.lean`.

* `src_sync_after_init`: for every class and every option value, running the class's `_sync_state_from_target` on
  the object its constructor has just built changes nothing — an option stored by `__init__` but not passed on by the
  re-fit (or the other way round), a different fit, another attribute, breaks exactly this;
* `src_retarget_eq_rebuild`: after any finite history of `set_target` calls (accepted or rejected) on a constructed
  object, the object is what the translated constructor builds from the same source to the last accepted target;
* `src_set_target_rejects`: a target of another shape raises `ValueError` and leaves the object alone;
* `src_gpa_transforms_are_alignments`: on every exit path of the translated `_recursive_procrustes` (convergence, or
  `n_iterations > max_iterations`) the transforms are the translated fresh `AlignmentSimilarity` of every source to
  the reported target; the `max_iterations` exit is the only one reporting `converged = False`.
-/
import MenpoModel.GenProps.C08Src

set_option linter.unusedSectionVars false
set_option linter.unusedSimpArgs false
set_option linter.unusedVariables false

namespace MenpoModel.GenProps.C08Src
open MenpoModel.C08 MenpoModel.Generated.C08

variable {Pts A S : Type} [Inhabited A]

section
variable (np : Np Pts A) (e : Ext Pts A)

/-- the source the constructed object keeps (piecewise affine: the `TriMesh` the constructor makes) -/
def srcOf (c : Cls) (s : Pts) : Pts := if c = .pwa then np.meshOf s else s

theorem liftErr_ok_iff {α : Type} (x : Except Err α) (a : α) : liftErr x = .ok a ↔ x = .ok a := by
  cases x <;> simp [liftErr]

/-- a constructed object, in the model's words -/
theorem genBuild_ok (hs : ApplyKeepsShape e) (hf : NpFits np e) (c : Cls) (op : Opts) (s t : Pts) (o : Obj Pts A) :
    genBuild np e c op s t = .ok o ↔ build fixed e c op (srcOf np c s) t = .ok o := by
  rw [genBuild_eq np e hs hf, liftErr_ok_iff]; rfl

/-- re-fitting a fresh alignment to the target it has is the identity (model) -/
theorem sync_build (c : Cls) (op : Opts) (s t : Pts) (o : Obj Pts A) (hb : build fixed e c op s t = .ok o) :
    sync e o = o := by
  have hsh : SameShape e t t := ⟨rfl, rfl⟩
  obtain ⟨o', h1, h2⟩ := setTarget_build fixed e c op s t t o (fixed_sound c op) hb hsh
  have ht := (build_target fixed e c op s t o (fixed_sound c op) hb).1
  rw [hb] at h2
  simp only [Except.ok.injEq] at h2; subst h2
  have hv : verifyTarget e o t = .ok () := verifyTarget_ok e o t (by rw [ht]; exact hsh)
  simp only [setTarget, hv, Except.ok.injEq] at h1
  have : ({ o with target := t } : Obj Pts A) = o := by rw [← ht]
  rw [this] at h1
  exact h1

/-- PROPERTY tie, "sync after init = init": for every class, every option value (rotation on/off, mirroring on/off,
every kernel, every singular-value floor), every source and target, the translated `_sync_state_from_target` of the
class leaves the object the translated constructor has just built exactly as it is -/
theorem src_sync_after_init (hs : ApplyKeepsShape e) (hf : NpFits np e) (c : Cls) (op : Opts) (s t : Pts)
    (o : Obj Pts A) (hb : genBuild np e c op s t = .ok o) : genSync np e o = .ok o := by
  rw [genBuild_ok np e hs hf] at hb
  rw [genSync_eq np e hf o (build_kinded fixed e c op _ t o hb), sync_build e c op _ t o hb]

/-- one `set_target` call as the caller sees it (a raising call leaves the object as it was) -/
def genStep (o : Obj Pts A) (t : Pts) : Obj Pts A :=
  match genSetTarget np e o t with
  | .ok o' => o'
  | .error _ => o

theorem genStep_eq (hf : NpFits np e) (o : Obj Pts A) (hk : Kinded o) (t : Pts) : genStep np e o t = step e o t := by
  unfold genStep step
  rw [genSetTarget_eq np e hf o hk t]
  cases setTarget e o t <;> rfl

theorem step_kinded (o : Obj Pts A) (hk : Kinded o) (t : Pts) : Kinded (step e o t) := by
  unfold step
  cases h : setTarget e o t with
  | error err => exact hk
  | ok o' => exact setTarget_kinded e o o' t hk h

theorem genHistory_eq (hf : NpFits np e) (ts : List Pts) : ∀ (o : Obj Pts A), Kinded o →
    ts.foldl (genStep np e) o = history e o ts := by
  induction ts with
  | nil => intro o _; rfl
  | cons t ts ih =>
    intro o hk
    simp only [List.foldl, history]
    rw [genStep_eq np e hf o hk t]
    exact ih _ (step_kinded e o hk t)

/-- PROPERTY (translated code): construct an alignment of any class with any options with the translated
constructor; after **any** finite history of translated `set_target` calls — accepted ones and rejected ones, in any
order — the object is what the translated constructor builds from the same source to the last accepted target:
same stored options, same source, same target, same fitted state. -/
theorem src_retarget_eq_rebuild (hs : ApplyKeepsShape e) (hf : NpFits np e) (c : Cls) (op : Opts) (s t0 : Pts)
    (o0 : Obj Pts A) (hb : genBuild np e c op s t0 = .ok o0) (ts : List Pts) :
    genBuild np e c op s (lastAccepted e t0 ts) = .ok (ts.foldl (genStep np e) o0) := by
  rw [genBuild_ok np e hs hf] at hb ⊢
  rw [genHistory_eq np e hf ts o0 (build_kinded fixed e c op _ t0 o0 hb)]
  exact retarget_eq_rebuild e c op _ t0 o0 hb ts

/-- PROPERTY clause 3 (translated code): a target with another number of points or dimensions raises `ValueError`,
and nothing of the object changes -/
theorem src_set_target_rejects (hf : NpFits np e) (o : Obj Pts A) (hk : Kinded o) (t : Pts)
    (h : ¬ SameShape e t o.target) :
    genSetTarget np e o t = .error .valueError ∧ genStep np e o t = o := by
  obtain ⟨⟨err, herr⟩, hstep⟩ := retarget_rejects_mismatch e o t h
  refine ⟨by rw [genSetTarget_eq np e hf o hk t, herr]; rfl, ?_⟩
  rw [genStep_eq np e hf o hk t]; exact hstep

/-- … and a target of the right shape is accepted and ends up as `.target` -/
theorem src_set_target_accepts (hf : NpFits np e) (o : Obj Pts A) (hk : Kinded o) (t : Pts)
    (h : SameShape e t o.target) : ∃ o', genSetTarget np e o t = .ok o' ∧ o'.target = t ∧ o'.source = o.source := by
  rw [genSetTarget_eq np e hf o hk t]
  have hv := verifyTarget_ok e o t h
  refine ⟨sync e { o with target := t }, by simp [setTarget, hv, liftErr], ?_, ?_⟩
  · obtain ⟨cls, rot, mir, ker, sv, src, tgt, st⟩ := o
    cases cls <;> cases st <;> simp [sync]
  · obtain ⟨cls, rot, mir, ker, sv, src, tgt, st⟩ := o
    cases cls <;> cases st <;> simp [sync]

end

/-! ### GPA -/

section
variable (np : Np Pts A) (e : Ext Pts A) (gk : GpaK Pts S)

/-- PROPERTY clause 4 (translated code): `GeneralizedProcrustesAnalysis(sources, allow_mirror=m)` without a fixed
target.  On **every** exit path of the translated recursion — the convergence test, or `n_iterations >
max_iterations` — the transforms it holds are the translated fresh `AlignmentSimilarity(source_i, gpa.target,
allow_mirror=m)` of every source to the target it reports; `n_iterations` never exceeds `max_iterations + 1 = 101`,
and `converged = False` is reported exactly on the `max_iterations` exit. -/
theorem src_gpa_transforms_are_alignments (hf : NpFits np e) (self g : PyGpa Pts A S) (sources : List Pts) (m : Bool)
    (h : genInit_GeneralizedProcrustesAnalysis np e gk self sources m none = .ok g) :
    mapExcept (fun s => genNew_AlignmentSimilarity e s g.target (allowmirror := m)) sources = .ok g.transforms ∧
    2 ≤ sources.length ∧ 1 ≤ g.nIterations ∧ g.nIterations ≤ 101 ∧ (g.converged = false → g.nIterations = 101) := by
  have heq := genInit_GeneralizedProcrustesAnalysis_eq np e gk hf self sources m none
  rw [h] at heq
  simp only [map_ok, gpaChecked] at heq
  by_cases hlen : sources.length < 2
  · simp [hlen] at heq
  · cases sources with
    | nil => simp at hlen
    | cons s0 ss =>
      simp only [hlen, false_and, if_false, Option.isSome_none, Bool.false_eq_true] at heq
      have hg : gpa fixed e gk.toExt 100 (s0 :: ss) none m = .ok g.toGpa := ((liftErr_ok_iff _ _).mp heq.symm)
      have h1 := gpa_transforms_are_alignments fixed e gk.toExt 100 (s0 :: ss) m g.toGpa hg
      obtain ⟨h2, h3, h4, _⟩ := gpa_iterations fixed e gk.toExt 100 (s0 :: ss) m g.toGpa hg
      refine ⟨?_, by omega, h2, h3, h4⟩
      rw [mapExcept_new]
      exact (liftErr_ok_iff _ _).mpr h1

/-- with fewer than two sources and no target the translated constructor raises `ValueError` (the guard of
`MultipleAlignment.__init__`) -/
theorem src_gpa_needs_two_sources (hf : NpFits np e) (self : PyGpa Pts A S) (sources : List Pts) (m : Bool)
    (hlen : sources.length < 2) :
    (genInit_GeneralizedProcrustesAnalysis np e gk self sources m none).map PyGpa.toGpa = .error .valueError := by
  rw [genInit_GeneralizedProcrustesAnalysis_eq np e gk hf]
  simp [gpaChecked, hlen]

end

/-! ### non-vacuity: the hypotheses are satisfiable and the translated definitions run

`W` is the table instantiation of the fits used by the witnesses of `Props/C08.lean` (point sets `wS`, `wT0` … with
the exact values of the real fits); `symNp` computes every numpy operation symbolically (a string naming the
expression); `W.withNp symNp` takes its TPS / PWA fits from those. -/

def symNp : Np DP String where
  pts := fun p => s!"p{p.id}"
  tr := fun a => s!"{a}.T"
  hcat := fun a b => s!"[{a}|{b}]"
  vcat := fun a b => s!"[{a}/{b}]"
  ones := fun n => s!"1({n})"
  zeros := fun r c => s!"0({r},{c})"
  kernel := fun k a => s!"K{k}({a})"
  svd := fun a => (s!"U({a})", s!"S({a})", s!"V({a})")
  nBelow := fun _ f => f.den
  keep := fun _ n => n
  invSing := fun s _ => s!"1/{s}"
  scaleRows := fun a v _ => s!"{a}*{v}"
  leftDot := fun u k x => s!"pinv({u},{k},{x})"
  dot := fun a b => s!"{a}.{b}"
  take := fun a s => s!"{a}[tri{s.id}]"
  col := fun a j => s!"{a}:{j}"
  sub := fun a b => s!"({a}-{b})"
  pack3 := fun a b c => s!"<{a};{b};{c}>"
  bary := fun a s => (a, a, s!"{s.id}")
  isTriMesh := fun p => p.id % 2 == 0
  triMesh := fun p => { p with id := p.id + 100 }

def W' : Ext DP String := W.withNp symNp

example : NpFits symNp W' := withNp_fits W symNp
example : ApplyKeepsShape W' := fun _ _ => ⟨rfl, rfl⟩

/-- the translated constructors and `set_target` compute the witnesses of `Props/C08.lean` -/
example : ((genBuild symNp W' .translation {} wS wT5).toOption.map (stateEntries 2))
    = some [[1, 0, 1/4], [0, 1, 0], [0, 0, 1]] := by decide +kernel
example : ((genBuild symNp W' .similarity noRot wS wT0).toOption.map fun o =>
    (o.rotation, stateEntries 2 ([wT1].foldl (genStep symNp W') o)))
    = some (some false, [[2, 0, 0], [0, 2, 0], [0, 0, 1]]) := by decide +kernel
example : ((genBuild symNp W' .uniformScale {} wS wT0).toOption.map fun o =>
    stateEntries 2 ([wT5, wP3, wT1, wP4].foldl (genStep symNp W') o))
    = some [[2, 0, 0], [0, 2, 0], [0, 0, 1]] := by decide +kernel
example : ((genBuild symNp W' .affine {} wS wT5).toOption.map fun o => (o.target, stateEntries 2 o))
    = some (wT5, [[5/4, 1/4, 1/4], [0, 1, 0], [0, 0, 1]]) := by decide +kernel
/-- a rejected target: `ValueError`, nothing changes -/
example : ((genBuild symNp W' .rotation {} wS wT0).toOption.map fun o =>
    ((genSetTarget symNp W' o wP3).toOption.isNone, (genStep symNp W' o wP3).target)) = some (true, wT0) := by
  decide +kernel
/-- the numpy expressions `ThinPlateSplines.__init__` / `_build_coefficients` / `_rebuild_target_vectors` assemble -/
example : ((genBuild symNp W' .tps { kernel := 2, minSV := 1/100 } wS wT0).toOption.map fun o =>
    stateDescr ([wT5].foldl (genStep symNp W') o)) =
    some ("tps [[K2(p0)|[1(4)|p0]]/[[1(4)|p0].T|0(3,3)]] " ++
      "pinv(U([[K2(p0)|[1(4)|p0]]/[[1(4)|p0].T|0(3,3)]]),100," ++
      "1/S([[K2(p0)|[1(4)|p0]]/[[1(4)|p0].T|0(3,3)]])*V([[K2(p0)|[1(4)|p0]]/[[1(4)|p0].T|0(3,3)]])).[p5.T|0(2,3)].T") := by
  decide +kernel
example : ((genBuild symNp W' .pwa {} wS wT0).toOption.map fun o => (o.source, stateDescr o)) =
    some (wS, "pwa <p1[tri0]:0;(p1[tri0]:1-p1[tri0]:0);(p1[tri0]:2-p1[tri0]:0)>") := by decide +kernel
/-- a point cloud source of a piecewise-affine alignment is turned into a `TriMesh` (identifier + 100) -/
example : ((genBuild symNp W' .pwa {} wT0 wT1).toOption.map fun o => o.source.id) = some 101 := by decide +kernel

/-! GPA, translated, on the symbolic instantiation of `Props/C08.lean`: three shapes converging at the third mean
shape; the `max_iterations` exit (with a small bound, through the recursion itself) -/

def symGk (closeFlags : List Bool) : GpaK Nat Nat where
  meanOf := fun l => match l with
    | a :: _ => if 2000 ≤ a then 1000 + (a - 2000) + 1 else 1000
    | [] => 1000
  norm := fun _ => 0
  ratio := fun _ _ => 0
  scaleAbout := fun _ _ x => x
  dist := fun a _ => a
  below := fun a => closeFlags.getD (a - 1000) false

def unitNp : Np Nat Unit where
  pts := fun _ => ()
  tr := id
  hcat := fun _ _ => ()
  vcat := fun _ _ => ()
  ones := fun _ => ()
  zeros := fun _ _ => ()
  kernel := fun _ _ => ()
  svd := fun _ => ((), (), ())
  nBelow := fun _ _ => 0
  keep := fun _ _ => 0
  invSing := fun _ _ => ()
  scaleRows := fun _ _ _ => ()
  leftDot := fun _ _ _ => ()
  dot := fun _ _ => ()
  take := fun _ _ => ()
  col := fun _ _ => ()
  sub := fun _ _ => ()
  pack3 := fun _ _ _ => ()
  bary := fun _ _ => ((), (), ())
  isTriMesh := fun _ => true
  triMesh := id

def blankGpa : PyGpa Nat Unit Nat :=
  { nSources := 0, nPoints := 0, nDims := 0, sources := [], target := 0, transforms := [], initialTargetScale := 0,
    nIterations := 0, maxIterations := 0, converged := false }

example : NpFits unitNp (symExt 4 2) := ⟨fun _ _ => rfl, fun _ _ _ => rfl, fun _ _ => rfl⟩

example : ((genInit_GeneralizedProcrustesAnalysis unitNp (symExt 4 2) (symGk [false, false, true]) blankGpa [0, 1, 2]
      false none).toOption.map fun g =>
    ([g.nSources, g.nIterations, g.maxIterations, g.target], g.converged, g.transforms.map fun o => [o.source, o.target]))
    = some ([3, 3, 100, 1002], true, [[0, 1002], [1, 1002], [2, 1002]]) := by decide +kernel
example : ((genInit_GeneralizedProcrustesAnalysis unitNp (symExt 4 2) (symGk []) blankGpa [5] false none).toOption.isNone)
    = true := by decide +kernel
/-- the `n_iterations > max_iterations` exit of the translated recursion: `max_iterations = 3`, never converging -/
example : ((genRecursiveProcrustes unitNp (symExt 4 2) (symGk []) 50
      { blankGpa with sources := [0, 1], target := 1000, nIterations := 1, maxIterations := 3,
                      transforms := [blank .similarity 0 1000, blank .similarity 1 1000] }).toOption.map fun p =>
    (p.1.nIterations, p.2, p.1.target)) = some (4, false, 1003) := by decide +kernel

end MenpoModel.GenProps.C08Src
