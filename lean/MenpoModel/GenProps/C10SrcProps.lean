/-
C10 — the bookkeeping clauses of the property, stated for the TRANSLATED methods themselves (`Generated/C10Src.lean`:
what the source text of menpo/model/pca.py says now), by transport along the equalities of `GenProps/C10Src.lean`.

A history is a list of Python-level calls (`PyOp`): `model.n_active_components = v`, `model.trim_components(v)`,
`model.orthonormalize_against_inplace(other)` with `v` a Python value (None / int / float / numpy integer); a call that
raises leaves the object as it was (`genStep`).  `fl : Fl` is what the float64 evaluation of the two ratios of the
variance-fraction form returned — ARBITRARY in every theorem below except `src_exact_float_is_model`, so rounding is
covered; `genFl` is exact arithmetic through the translated accessors.
-/
import MenpoModel.GenProps.C10Src
import MenpoModel.Props.C10

set_option linter.unusedSimpArgs false

namespace MenpoModel.C10.GenProps
open MenpoModel.C10 MenpoModel.C10.Src MenpoModel.C10.Generated

/-- a Python-level call on the model -/
inductive PyOp
  | set (v : PyVal)
  | trim (v : PyVal)
  | ortho (lm : Other)

/-- the translated method a call runs -/
def genApply (fl : Fl) (s : St) : PyOp → Except Err St
  | .set v => genSetActive fl s v
  | .trim v => genTrimComponents fl s v
  | .ortho lm => genOrthoAgainst fl s lm

def genStep (fl : Fl) (s : St) (o : PyOp) : St :=
  match genApply fl s o with
  | .ok s' => s'
  | .error _ => s

def genRun (fl : Fl) (s : St) (ops : List PyOp) : St := ops.foldl (genStep fl) s

/-- the Core operation a call stands for in state `s` -/
def PyOp.toOp (fl : Fl) (s : St) : PyOp → Op
  | .set v => .set (v.toVal fl s)
  | .trim v => .trim (v.toOptVal fl s)
  | .ortho lm => .ortho lm.d lm.k1

/-- the Core history a Python-level history stands for (the float forms carry the values `fl` returned in the state
the call was made in) -/
def coreOps (fl : Fl) : St → List PyOp → List Op
  | _, [] => []
  | s, o :: t => o.toOp fl s :: coreOps fl (genStep fl s o) t

theorem genApply_eq (fl : Fl) {s : St} (h : s.nActive ≤ s.rows) (o : PyOp) :
    genApply fl s o = s.apply (o.toOp fl s) := by
  cases o with
  | set v => exact genSetActive_eq fl s v (fun _ => h)
  | trim v => exact genTrimComponents_eq fl s v (fun _ => h)
  | ortho lm => exact genOrthoAgainst_eq fl s lm

theorem genStep_eq (fl : Fl) {s : St} (h : s.nActive ≤ s.rows) (o : PyOp) :
    genStep fl s o = s.step (o.toOp fl s) := by
  unfold genStep St.step
  rw [genApply_eq fl h]
  cases s.apply (o.toOp fl s) <;> rfl

/-- the translated methods, run over any history from a reachable state, ARE the Core state machine on `coreOps` -/
theorem genRun_eq (fl : Fl) {eig0 : List Rat} {s : St} (hr : Reach eig0 s) (ops : List PyOp) :
    genRun fl s ops = s.run (coreOps fl s ops) := by
  induction ops generalizing s with
  | nil => rfl
  | cons o t ih =>
    have h1 := genStep_eq fl hr.act_le o
    show genRun fl (genStep fl s o) t = (s.step (o.toOp fl s)).run (coreOps fl (genStep fl s o) t)
    rw [ih (by rw [h1]; exact reach_step hr _), h1]

/-- PROPERTY (invariant, translated methods, any rounding): every state the translated setter / trim /
orthonormalize reach from a freshly built model is a reachable state of the model: eigenvalues a prefix of the original
spectrum with as many entries as component rows, the pool holds exactly the others, `1 ≤ n_active ≤ n_components`. -/
theorem src_reach (fl : Fl) {eig0 : List Rat} (h0 : eig0 ≠ []) (ops : List PyOp) :
    Reach eig0 (genRun fl (init eig0.length eig0) ops) := by
  rw [genRun_eq fl (reach_init h0)]
  exact reach_run (reach_init h0) _

/-- PROPERTY (translated): no history of calls changes `original_variance()`. -/
theorem src_original_variance_constant (fl : Fl) {eig0 : List Rat} (h0 : eig0 ≠ []) (ops : List PyOp) :
    genOriginalVariance (genRun fl (init eig0.length eig0) ops) = eig0.sum := by
  rw [genOriginalVariance_eq, genRun_eq fl (reach_init h0), original_variance_constant]
  simp [St.originalVariance, init]

/-- PROPERTY (translated): kept + discarded variance is the original variance, the discarded variance is
`noise_variance() × #discarded`, and `#discarded = #original − n_active_components`. -/
theorem src_variance_accounting (fl : Fl) {eig0 : List Rat} (h0 : eig0 ≠ []) (ops : List PyOp) :
    let s := genRun fl (init eig0.length eig0) ops
    genVariance s + s.discarded.sum = eig0.sum ∧
    genNoiseVariance s * (s.discarded.length : Rat) = s.discarded.sum ∧
    s.discarded.length = eig0.length - (genNActiveComponents s).toNat := by
  intro s
  have e : s = (init eig0.length eig0).run (coreOps fl _ ops) := genRun_eq fl (reach_init h0) ops
  have := variance_accounting h0 (coreOps fl (init eig0.length eig0) ops)
  simp only [← e] at this
  simpa [genVariance_eq, genNoiseVariance_eq, genNActiveComponents_eq] using this

/-- PROPERTY (translated): component and eigenvalue counts agree, `1 ≤ n_active_components ≤ n_components`, the
`eigenvalues` / `components` views have `n_active_components` entries. -/
theorem src_counts_consistent (fl : Fl) {eig0 : List Rat} (h0 : eig0 ≠ []) (ops : List PyOp) :
    let s := genRun fl (init eig0.length eig0) ops
    genNComponents s = .int s.eig.length ∧
    (1 : PyVal) ≤ genNActiveComponents s ∧ genNActiveComponents s ≤ genNComponents s ∧
    (genEigenvalues s).length = (genNActiveComponents s).toNat ∧
    genActiveRows s = (genNActiveComponents s).toNat ∧
    s.eig = eig0.take s.rows ∧ s.trimmed.Perm (eig0.drop s.rows) := by
  intro s
  have e : s = (init eig0.length eig0).run (coreOps fl _ ops) := genRun_eq fl (reach_init h0) ops
  obtain ⟨a1, a2, a3, a4, a5, a6, a7⟩ := counts_consistent h0 (coreOps fl (init eig0.length eig0) ops)
  simp only [← e] at a1 a2 a3 a4 a5 a6 a7
  refine ⟨by simp [genNComponents_eq, a1], ?_, ?_, ?_, ?_, a6, a7⟩
  · simp only [genNActiveComponents_eq, ofNat_eq, int_le_int]; omega
  · simp only [genNActiveComponents_eq, genNComponents_eq, int_le_int]; omega
  · simpa [genEigenvalues_eq, genNActiveComponents_eq] using a4
  · simpa [genActiveRows_eq, genNActiveComponents_eq] using a5

/-- PROPERTY (translated, exact arithmetic): with the exact ratios (the translated accessors, `genFl`) the translated
setter in its variance-fraction form is the Core `Val.float` form on every reachable state — the clamp the code applies
never bites — so every theorem of `Props/C10.lean` about `Val.float` (minimal selection, exact ties, trim = build for a
fraction) is a theorem about the translated setter. -/
theorem src_exact_float_is_model {eig0 : List Rat} {s : St} (hr : Reach eig0 s) (r : Rat) :
    genSetActive genFl s (.float r) = s.setActive (.float r) ∧
    genTrimComponents genFl s (.float r) = s.trim (some (.float r)) := by
  have e1 : genSetActive genFl s (.float r) = s.setActive (.float r) := by
    rw [genSetActive_float genFl s r hr.act_le, genFl_exact]
    exact clamp_noop_exact hr r
  refine ⟨e1, ?_⟩
  rw [genTrimComponents_eq genFl s (.float r) (fun _ => hr.act_le)]
  simp only [PyVal.toOptVal, PyVal.toVal, St.trim, genFl_exact]
  have := clamp_noop_exact hr r
  simp only [Fl.exact] at this ⊢
  rw [this]

variable {A : Type}

/-- PROPERTY (translated, "the same model as building with that many components in the first place"): for the
TRANSLATED `_constructor_helper` and `trim_components`: trimming to `k` after any history of calls on the model built
without `max_n_components` gives, up to the order of the trimmed pool, the bookkeeping state of the model built with
`max_n_components = k` on the same eigenvectors / eigenvalues. -/
theorem src_trim_eq_build_with_max (np : NP A) (fl : Fl) (self : Plumb A) (ev evec mean : A) (centred : Bool)
    (hlen : np.shape0 evec = (np.values ev).length) (hne : np.values ev ≠ []) (ops : List PyOp) {k : Nat}
    (hk1 : 1 ≤ k) :
    ∃ p0, genConstructorHelper np fl self ev evec mean centred .none = .ok p0 ∧
      (k ≤ (genRun fl p0.toSt ops).rows →
        ∃ s' b, genTrimComponents fl (genRun fl p0.toSt ops) (.int k) = .ok s' ∧
          genConstructorHelper np fl self ev evec mean centred (.int k) = .ok b ∧ Same s' b.toSt) := by
  have hinit : init (np.shape0 evec) (np.values ev) = init (np.values ev).length (np.values ev) := by rw [hlen]
  have hb0 := ctorHelper_book np fl self ev evec mean centred .none
  have hbk := ctorHelper_book np fl self ev evec mean centred (.int k)
  simp only [← genConstructorHelper_eq, PyVal.toOptVal, PyVal.toVal, build] at hb0 hbk
  cases hc0 : genConstructorHelper np fl self ev evec mean centred .none with
  | error e => rw [hc0] at hb0; cases hb0
  | ok p0 =>
    rw [hc0] at hb0
    have hp0 : p0.toSt = init (np.values ev).length (np.values ev) := by
      have : Except.ok p0.toSt = (Except.ok (init (np.shape0 evec) (np.values ev)) : Except Err St) := hb0
      rw [← hinit]; exact Except.ok.inj this
    refine ⟨p0, rfl, fun hk2 => ?_⟩
    rw [hp0] at hk2 ⊢
    rw [genRun_eq fl (reach_init hne)] at hk2 ⊢
    obtain ⟨s', b, t1, t2, t3⟩ := trim_eq_build_observably hne (coreOps fl _ ops) hk1 hk2
    rw [genTrimComponents_int]
    refine ⟨s', ?_⟩
    simp only [build, ← hlen] at t2
    rw [t2] at hbk
    cases hck : genConstructorHelper np fl self ev evec mean centred (.int k) with
    | error e => rw [hck] at hbk; cases hbk
    | ok bb =>
      rw [hck] at hbk
      have : bb.toSt = b := Except.ok.inj hbk
      exact ⟨bb, t1, rfl, by rw [this]; exact t3⟩

/-- PROPERTY (translated constructors): what the TRANSLATED `PCAModel.__init__` builds — the bookkeeping state is
`build` on `pca`'s eigenvectors / eigenvalues of the data matrix `as_matrix` returned, with the `max_n_components`
ARGUMENT as the trim request; the `n_samples` attribute is the number of rows of that data matrix, the template is
`as_matrix`' template, the mean is `pca`'s mean (zeros when `centre=False`).  (Seeded change C10-5 passed
`max_n_components` where `n_samples` belongs: this theorem's obligation `genObjInit_eq` then fails.) -/
theorem src_pcamodel_init (np : NP A) (fl : Fl) (self : Plumb A) (samples : A) (centre : Bool) (ns mx : PyVal)
    (inplace : Bool) :
    let dt := np.asMatrix samples ns true
    let dm := dataToMatrix np dt.1 (PyVal.int (np.shape0 dt.1))
    let out := np.pca dm.1 centre inplace pcaEps
    (genObjInit np fl self samples centre ns mx inplace).map (·.toSt) =
        build (np.shape0 out.1) (np.values out.2.1) (mx.toOptVal fl (init (np.shape0 out.1) (np.values out.2.1))) ∧
    ∀ p, genObjInit np fl self samples centre ns mx inplace = .ok p →
      p.comps = some out.1 ∧ p.mean = some (if centre then out.2.2 else np.zerosLike out.2.2) ∧
      p.centred = some centre ∧ p.nSamples = PyVal.int (np.shape0 dt.1) ∧ p.template = some dt.2 := by
  simp only [genObjInit_eq]
  exact objInit_spec np fl self samples centre ns mx inplace

/-- PROPERTY (translated constructors): `PCAVectorModel.__init__`, `init_from_covariance_matrix`,
`init_from_components` of both classes build `build … max_n_components` on the library's factors. -/
theorem src_other_constructors (np : NP A) (fl : Fl) (self : Plumb A) (X C comps ev mean : A) (centre inv ip : Bool)
    (ns mx : PyVal) :
    (let out := np.pca (dataToMatrix np X ns).1 centre ip pcaEps
     (genVecInit np fl self X centre ns mx ip).map (·.toSt) =
        build (np.shape0 out.1) (np.values out.2.1) (mx.toOptVal fl (init (np.shape0 out.1) (np.values out.2.1)))) ∧
    (let out := np.pcacov C inv pcacovEps
     (genVecFromCov np fl C mean ns centre inv mx).map (·.toSt) =
        build (np.shape0 out.1) (np.values out.2) (mx.toOptVal fl (init (np.shape0 out.1) (np.values out.2))) ∧
     (genObjFromCov np fl C mean ns centre inv mx).map (·.toSt) =
        build (np.shape0 out.1) (np.values out.2) (mx.toOptVal fl (init (np.shape0 out.1) (np.values out.2)))) ∧
    (genVecFromComponents np fl comps ev mean ns centre mx).map (·.toSt) =
        build (np.shape0 comps) (np.values ev) (mx.toOptVal fl (init (np.shape0 comps) (np.values ev))) ∧
    (genObjFromComponents np fl comps ev mean ns centre mx).map (·.toSt) =
        build (np.shape0 comps) (np.values ev) (mx.toOptVal fl (init (np.shape0 comps) (np.values ev))) := by
  simp only [genVecInit_eq, genVecFromCov_eq, genObjFromCov_eq, genVecFromComponents_eq, genObjFromComponents_eq]
  exact ⟨(vecInit_spec np fl self X centre ns mx ip).1, ⟨(fromCov_spec np fl C mean ns centre inv mx).1,
    (fromCov_spec np fl C mean ns centre inv mx).2.1⟩, (fromComponents_spec np fl comps ev mean ns centre mx).1,
    (fromComponents_spec np fl comps ev mean ns centre mx).2.1⟩

/-! ### non-vacuity -/

/-- a history mixing every form, run through the TRANSLATED methods -/
def exPyOps : List PyOp :=
  [.set (.float (3/4)), .trim .none, .set (.int 7), .set (.npint 1), .trim (.float (1/2)), .set (.int 0),
   .ortho ⟨1, 1⟩]

example : genRun genFl (init 4 [8, 4, 2, 2]) exPyOps = { rows := 1, eig := [8], trimmed := [2, 2, 4], nActive := 1 } := by
  decide +kernel
example : genOriginalVariance (genRun genFl (init 4 [8, 4, 2, 2]) exPyOps) = 16 := by decide +kernel
example : genSetActive genFl (init 4 [8, 4, 2, 2]) (.float (3/5)) = .ok { init 4 [8, 4, 2, 2] with nActive := 2 } := by
  decide +kernel
/-- the clamp at work on rounded ratios: last cumulative ratio one ulp short of 1, fraction 1.0 keeps everything -/
example : genSetActive (Fl.const 1 [4/7, 6/7, 1 - 1/2^53]) (init 3 [4, 2, 1]) (.float 1) = .ok (init 3 [4, 2, 1]) := by
  decide +kernel
example : genSetActive genFl (init 3 [4, 2, 1]) .none = .error .value := by decide +kernel

/-- a symbolic numpy on `Nat` "arrays" for the constructor theorems: `pca` of `X` returns 3 eigenvectors -/
def exNP : NP Nat :=
  { pca := fun _ _ _ _ => (3, 30, 7), pcacov := fun _ _ _ => (3, 30), zerosLike := fun _ => 0,
    shape0 := fun a => a, values := fun a => if a = 30 then [4, 2, 1] else [], len := fun a => a,
    isArray := fun _ => true, arrayPrefix := fun a _ => a, asMatrix := fun a _ _ => (a, 99), asVector := fun a => a }

example : (genObjInit exNP genFl Plumb.blank 5 true .none (.int 2) true).map (fun p => (p.toSt, p.nSamples, p.template))
    = .ok ({ rows := 2, eig := [4, 2], trimmed := [1], nActive := 2 }, .int 5, some 99) := by decide +kernel

end MenpoModel.C10.GenProps
