/-
C17 — obligations over `Generated/C17Src.lean` (the bodies of menpo/shape/adjacency.py and of the masking / edge
methods of menpo/shape/mesh/base.py, coloured.py, textured.py, TRANSLATED from the source text of the working tree
on every run): every translated definition equals, for ALL arguments, the definition of `Core/C17Mesh.lean` the C17
theorems are about; then the property theorems restated for the translated methods.

  genMaskAdjacencyArray_eq      mask_adjacency_array            = maskAdj           (any rectangular array: _rect)
  genReindexAdjacencyArray_eq   reindex_adjacency_array         = reindex
  genIsolatedMask_eq            TriMesh._isolated_mask          = isolatedMask
  genFromMask_eq                {Tri,Coloured,Textured}.from_mask = fromMaskOf k    (= fromMask on an object of class k)
  genFromTriMask_eq             TriMesh.from_tri_mask           = fromTriMaskOf k   (= fromTriMask on an object of class k)
  genEdgeIndices_eq             TriMesh.edge_indices            = edgeIndices
  genUniqueEdgeIndices_eq       TriMesh.unique_edge_indices     = first occurrence of every sorted edge (Perm uniqueEdges)
  genBoundaryTriIndex_eq        TriMesh.boundary_tri_index      = boundaryCount
  genTrilistToAdjacencyArray_eq trilist_to_adjacency_array      = adjacencyRows (Perm edge slots)

The proofs go through lemmas about the numpy primitives of `Core/C17Np.lean` (reshape of a C-order listing, item
assignment through a filtered arange, first occurrences, counts[inverse], ...) and `simp` / case splits over the
translated text, so a harmless rewrite of the Python (renamed temporary, reordered independent statements, inverted
test with swapped arms) keeps them, while a changed decision (a payload sliced with the caller's mask, a dropped
branch, a swapped argument) breaks them.  Hand-written; `lake build` re-checks it against what the code says now.
-/
import MenpoModel.Props.C17
import MenpoModel.Generated.C17Src

namespace MenpoModel.C17.SrcProps
open MenpoModel.C17 MenpoModel.C17.Np MenpoModel.C17.Gen

/-! ## the numpy primitives on rectangular arrays -/

theorem chunkF_nil {α : Type} (f k : Nat) : chunkF f k ([] : List α) = [] := by
  cases f <;> simp [chunkF]

/-- reshaping the C-order listing of a rectangular array of width `k > 0` back to width `k` gives the array -/
theorem chunkF_flatten {α : Type} (k : Nat) (hk : 0 < k) (a : List (List α)) (h : ∀ r ∈ a, r.length = k) :
    ∀ fuel, a.length ≤ fuel → chunkF fuel k a.flatten = a := by
  induction a with
  | nil => intro fuel _; simp [chunkF_nil]
  | cons r rest ih =>
    intro fuel hf
    have hr : r.length = k := h r (by simp)
    cases fuel with
    | zero => simp at hf
    | succ f =>
      have hne : (r ++ rest.flatten).isEmpty = false := by
        cases r with
        | nil => simp at hr; omega
        | cons x xs => simp
      simp only [List.flatten_cons, chunkF, hne]
      have h1 : (r ++ rest.flatten).take k = r := by rw [← hr]; exact List.take_left'  rfl
      have h2 : (r ++ rest.flatten).drop k = rest.flatten := by rw [← hr]; exact List.drop_left' rfl
      rw [h1, h2, ih (fun r' hr' => h r' (by simp [hr'])) f (by simpa using hf)]
      simp

theorem flatten_length_rect {α : Type} (k : Nat) (a : List (List α)) (h : ∀ r ∈ a, r.length = k) :
    a.flatten.length = k * a.length := by
  induction a with
  | nil => simp
  | cons r rest ih =>
    simp only [List.flatten_cons, List.length_append, List.length_cons]
    rw [ih (fun r' hr' => h r' (by simp [hr'])), h r (by simp)]
    rw [Nat.mul_succ]; omega

/-- `reshape(-1, k)` of the C-order listing of a rectangular array of width `k > 0` -/
theorem reshapeRows_flatten {α : Type} (k : Nat) (hk : 0 < k) (a : List (List α)) (h : ∀ r ∈ a, r.length = k) :
    reshapeRows a.flatten k = a := by
  unfold reshapeRows
  apply chunkF_flatten k hk a h
  rw [flatten_length_rect k a h]
  exact Nat.le_mul_of_pos_left _ hk

theorem maskFilter_map_self {α : Type} (a : List α) (g : α → Bool) : maskFilter a (a.map g) = a.filter g := by
  induction a with
  | nil => rfl
  | cons x xs ih => simp only [List.map_cons, maskFilter, List.filter_cons, ih]

theorem mem_nonzero (m : List Bool) (v : Nat) : v ∈ nonzero m ↔ m[v]? = some true := by
  simp only [nonzero, List.mem_filter, List.mem_range, beq_iff_eq]
  constructor
  · exact fun h => h.2
  · intro h
    refine ⟨?_, h⟩
    by_contra hlt
    rw [List.getElem?_eq_none (by omega)] at h
    cases h

theorem contains_nonzero_invert (m : List Bool) (v : Nat) : (nonzero (invert m)).contains v = removed m v := by
  rw [Bool.eq_iff_iff, List.contains_iff_mem, mem_nonzero, removed_iff]
  simp only [invert, List.getElem?_map]
  cases m[v]? with
  | none => simp
  | some b => cases b <;> simp


theorem rows_rect (ts : List Tri) : ∀ r ∈ rows ts, r.length = 3 := by
  intro r hr
  simp only [rows, List.mem_map] at hr
  obtain ⟨t, _, rfl⟩ := hr
  rfl

theorem shape1_rows (t : Tri) (ts : List Tri) : shape1 (rows (t :: ts)) = 3 := rfl

/-- `mask_adjacency_array` on any rectangular array of positive width: the rows none of whose entries is removed -/
theorem genMaskAdjacencyArray_rect (m : List Bool) (a : List (List Nat)) (k : Nat) (hk : 0 < k)
    (h : ∀ r ∈ a, r.length = k) :
    genMaskAdjacencyArray m a = a.filter (fun r => r.all (fun v => !removed m v)) := by
  cases a with
  | nil => simp [genMaskAdjacencyArray, rowFilter, maskFilter]
  | cons r0 rest =>
    have hs : shape1 (r0 :: rest) = k := h r0 (by simp)
    unfold genMaskAdjacencyArray
    try dsimp only
    simp only [hs, Np.reshape, Np.ravel, Flat.flat, id, isin]
    rw [show (fun x => (nonzero (invert m)).contains x) = removed m from funext (contains_nonzero_invert m)]
    rw [List.map_flatten, reshapeRows_flatten k hk _ (by
      intro r hr; simp only [List.mem_map] at hr; obtain ⟨r', hr', rfl⟩ := hr; simp [h r' hr'])]
    simp only [anyAxis1, invert, List.map_map, rowFilter]
    rw [maskFilter_map_self]
    congr 1
    funext r
    simp [Function.comp, List.any_map, List.not_any_eq_all_not]

/-- OBLIGATION `mask_adjacency_array`: the translated body is the model's `maskAdj` on triangle lists -/
theorem genMaskAdjacencyArray_eq (m : List Bool) (ts : List Tri) :
    genMaskAdjacencyArray m (rows ts) = rows (maskAdj m ts) := by
  rw [genMaskAdjacencyArray_rect m (rows ts) 3 (by decide) (rows_rect ts)]
  simp only [rows, maskAdj, List.filter_map]
  rfl


/-! ## `reindex_adjacency_array` -/

/-- `remap[unique] = arange(len(unique))` where `unique` are the values of `[s, s+n)` satisfying `p`: the entry of
such a value becomes its position among them (offset `c`), every other entry is untouched -/
theorem setIdx_filter_range' (p : Nat → Bool) (n : Nat) : ∀ (s c : Nat) (r : List Nat) (v : Nat),
    ((((List.range' s n).filter p).zip (List.range' c ((List.range' s n).filter p).length)).foldl
        (fun r pr => r.set pr.1 pr.2) r)[v]? =
      if s ≤ v ∧ v < s + n ∧ p v = true ∧ v < r.length
      then some (c + rank ((List.range' s n).map p) (v - s)) else r[v]? := by
  induction n with
  | zero => intro s c r v; simp; omega
  | succ n ih =>
    intro s c r v
    rw [List.range'_succ]
    by_cases hp : p s = true
    · simp only [List.filter_cons, hp, if_true, List.length_cons, List.range'_succ, List.zip_cons_cons,
        List.foldl_cons, List.map_cons]
      rw [ih (s + 1) (c + 1) (r.set s c) v]
      by_cases hvs : v = s
      · subst hvs
        simp only [Nat.sub_self, rank_zero, Nat.add_zero, List.length_set]
        by_cases hl : v < r.length
        · simp [hl, hp]
        · simp [hl]
      · by_cases hlt : s < v
        · obtain ⟨k, rfl⟩ : ∃ k, v = s + 1 + k := ⟨v - s - 1, by omega⟩
          have e1 : s + 1 + k - (s + 1) = k := by omega
          have e2 : s + 1 + k - s = k + 1 := by omega
          simp only [e1, e2, rank, if_true, List.length_set]
          by_cases hc : s + 1 + k < s + 1 + n ∧ p (s + 1 + k) = true ∧ s + 1 + k < r.length
          · have hc' : s ≤ s + 1 + k ∧ s + 1 + k < s + (n + 1) ∧ p (s + 1 + k) = true ∧ s + 1 + k < r.length :=
              ⟨by omega, by omega, hc.2.1, hc.2.2⟩
            have hc'' : s + 1 ≤ s + 1 + k ∧ s + 1 + k < s + 1 + n ∧ p (s + 1 + k) = true ∧ s + 1 + k < r.length :=
              ⟨by omega, hc.1, hc.2.1, hc.2.2⟩
            rw [if_pos hc'', if_pos hc']; congr 1; omega
          · have hc' : ¬ (s ≤ s + 1 + k ∧ s + 1 + k < s + (n + 1) ∧ p (s + 1 + k) = true ∧ s + 1 + k < r.length) := by
              intro h; exact hc ⟨by omega, h.2.2.1, h.2.2.2⟩
            have hc'' : ¬ (s + 1 ≤ s + 1 + k ∧ s + 1 + k < s + 1 + n ∧ p (s + 1 + k) = true ∧ s + 1 + k < r.length) := by
              intro h; exact hc ⟨h.2.1, h.2.2.1, h.2.2.2⟩
            rw [if_neg hc'', if_neg hc', List.getElem?_set_ne (by omega)]
        · have h1 : ¬ (s + 1 ≤ v ∧ v < s + 1 + n ∧ p v = true ∧ v < (r.set s c).length) := by intro h; omega
          have h2 : ¬ (s ≤ v ∧ v < s + (n + 1) ∧ p v = true ∧ v < r.length) := by intro h; omega
          rw [if_neg h1, if_neg h2, List.getElem?_set_ne (by omega)]
    · simp only [List.filter_cons, hp, Bool.false_eq_true, if_false, List.map_cons]
      rw [ih (s + 1) c r v]
      by_cases hvs : v = s
      · subst hvs
        have h1 : ¬ (v + 1 ≤ v ∧ v < v + 1 + n ∧ p v = true ∧ v < r.length) := by intro h; omega
        have h2 : ¬ (v ≤ v ∧ v < v + (n + 1) ∧ p v = true ∧ v < r.length) := by intro h; exact hp h.2.2.1
        rw [if_neg h1, if_neg h2]
      · by_cases hlt : s < v
        · obtain ⟨k, rfl⟩ : ∃ k, v = s + 1 + k := ⟨v - s - 1, by omega⟩
          have e1 : s + 1 + k - (s + 1) = k := by omega
          have e2 : s + 1 + k - s = k + 1 := by omega
          simp only [e1, e2, rank, Bool.false_eq_true, if_false, Nat.zero_add]
          by_cases hc : s + 1 + k < s + 1 + n ∧ p (s + 1 + k) = true ∧ s + 1 + k < r.length
          · rw [if_pos ⟨by omega, hc.1, hc.2.1, hc.2.2⟩, if_pos ⟨by omega, by omega, hc.2.1, hc.2.2⟩]
          · rw [if_neg (fun h => hc ⟨h.2.1, h.2.2.1, h.2.2.2⟩), if_neg (fun h => hc ⟨by omega, h.2.2.1, h.2.2.2⟩)]
        · have h1 : ¬ (s + 1 ≤ v ∧ v < s + 1 + n ∧ p v = true ∧ v < r.length) := by intro h; omega
          have h2 : ¬ (s ≤ v ∧ v < s + (n + 1) ∧ p v = true ∧ v < r.length) := by intro h; omega
          rw [if_neg h1, if_neg h2]


theorem foldl_max (l : List Nat) (x : Nat) : l.foldl Nat.max x = Nat.max x (l.foldr Nat.max 0) := by
  induction l generalizing x with
  | nil => simp
  | cons y ys ih =>
    simp only [List.foldl_cons, List.foldr_cons, ih]
    generalize List.foldr Nat.max 0 ys = m
    simp only [Nat.max_def]; split_ifs <;> omega

theorem foldr_max_flatten_rows (ts : List Tri) : (rows ts).flatten.foldr Nat.max 0 = maxIdx ts := by
  induction ts with
  | nil => rfl
  | cons t rest ih =>
    simp only [rows, List.map_cons, List.flatten_cons, List.foldr_append, maxIdx, List.foldr_cons] at ih ⊢
    rw [ih]
    simp only [Tri.verts, Tri.max, List.foldr_cons, List.foldr_nil]
    generalize List.foldr (fun t a => (Nat.max t.1 (Nat.max t.2.1 t.2.2)).max a) 0 rest = m
    simp only [Nat.max_def]; split_ifs <;> omega

theorem contains_flatten_rows (ts : List Tri) (v : Nat) : (rows ts).flatten.contains v = present ts v := by
  rw [Bool.eq_iff_iff, List.contains_iff_mem, List.mem_flatten, present_iff]
  simp only [rows, List.mem_map]
  constructor
  · rintro ⟨l, ⟨t, ht, rfl⟩, hv⟩; exact ⟨t, ht, hv⟩
  · rintro ⟨t, ht, hv⟩; exact ⟨_, ⟨t, ht, rfl⟩, hv⟩

theorem amax_rows (t : Tri) (ts : List Tri) : amax (rows (t :: ts)) = .ok (maxIdx (t :: ts)) := by
  have h := foldr_max_flatten_rows (t :: ts)
  simp only [rows, List.map_cons, List.flatten_cons, Tri.verts, List.cons_append, List.nil_append,
    List.foldr_cons] at h
  simp only [amax, Np.ravel, Flat.flat, rows, List.map_cons, List.flatten_cons, Tri.verts, List.cons_append,
    List.nil_append, foldl_max]
  rw [← h]
  simp only [List.foldr_cons]

theorem unique_rows (ts : List Tri) :
    Np.unique (rows ts) = (List.range (maxIdx ts + 1)).filter (present ts) := by
  simp only [Np.unique, unique1, Np.ravel, Flat.flat, foldl_max, foldr_max_flatten_rows]
  rw [show Nat.max 0 (maxIdx ts) = maxIdx ts by simp]
  congr 1
  funext v
  exact contains_flatten_rows ts v

/-- the remap vector of `reindex_adjacency_array`, read at a value that occurs in the array -/
theorem remap_get (ts : List Tri) (v : Nat) (hv : present ts v = true) (hle : v ≤ maxIdx ts) :
    (setIdx (arange (maxIdx ts + 1)) (Np.unique (rows ts)) (arange (shape0 (Np.unique (rows ts)))))[v]? =
      some (rank (usedMask ts) v) := by
  have h := setIdx_filter_range' (present ts) (maxIdx ts + 1) 0 0 (List.range (maxIdx ts + 1)) v
  simp only [← List.range_eq_range', Nat.zero_add, Nat.sub_zero, List.length_range] at h
  rw [unique_rows]
  simp only [setIdx, arange, shape0]
  rw [h, if_pos ⟨Nat.zero_le _, by omega, hv, by omega⟩]
  rfl

theorem fancy_rows_map (R : List Nat) (f : Nat → Nat) (ts : List Tri)
    (h : ∀ t ∈ ts, ∀ v ∈ t.verts, R[v]? = some (f v)) :
    fancy R (rows ts) = rows (ts.map (Tri.map f)) := by
  induction ts with
  | nil => rfl
  | cons t rest ih =>
    have ht := h t (by simp)
    have h1 := ht t.1 (by simp [Tri.verts])
    have h2 := ht t.2.1 (by simp [Tri.verts])
    have h3 := ht t.2.2 (by simp [Tri.verts])
    have ih' := ih (fun t' ht' => h t' (by simp [ht']))
    simp only [fancy, rows, List.map_cons, List.map_nil, List.filterMap_cons, Tri.verts, h1, h2, h3, allSome,
      Option.map_some, Tri.map] at ih' ⊢
    rw [ih']

/-- OBLIGATION `reindex_adjacency_array`: the translated body is the model's `reindex` -/
theorem genReindexAdjacencyArray_eq (ts : List Tri) :
    genReindexAdjacencyArray (rows ts) = (reindex ts).map rows := by
  cases ts with
  | nil => rfl
  | cons t rest =>
    unfold genReindexAdjacencyArray
    try dsimp only
    rw [amax_rows]
    simp only [Except.bind, reindex, List.isEmpty_cons, Bool.false_eq_true, if_false, Except.map, Np.index,
      IntIndex.get]
    congr 1
    apply fancy_rows_map
    intro t' ht' v hv
    exact remap_get (t :: rest) v ((present_iff _ _).2 ⟨t', ht', hv⟩) (le_maxIdx _ t' ht' v hv)


/-! ## `TriMesh._isolated_mask` -/

theorem setConst_get {α : Type} (idx : List Nat) (c : α) : ∀ (r : List α) (v : Nat),
    (setConst r idx c)[v]? = if v ∈ idx ∧ v < r.length then some c else r[v]? := by
  induction idx with
  | nil => intro r v; simp [setConst]
  | cons i rest ih =>
    intro r v
    have h := ih (r.set i c) v
    simp only [setConst, List.foldl_cons] at h ⊢
    rw [h]
    simp only [List.length_set, List.mem_cons]
    by_cases hv : v = i
    · subst hv
      by_cases hl : v < r.length
      · by_cases hm : v ∈ rest <;> simp [hm, hl]
      · have : r[v]? = none := List.getElem?_eq_none (by omega)
        by_cases hm : v ∈ rest <;> simp [hm, hl]
    · rw [List.getElem?_set_ne (Ne.symm hv)]
      simp [hv]

theorem le_foldr_max (l : List Nat) (v : Nat) (h : v ∈ l) : v ≤ l.foldr Nat.max 0 := by
  induction l with
  | nil => cases h
  | cons x xs ih =>
    simp only [List.foldr_cons]
    rcases List.mem_cons.1 h with rfl | h'
    · exact Nat.le_max_left _ _
    · exact Nat.le_trans (ih h') (Nat.le_max_right _ _)

theorem mem_unique1 (l : List Nat) (v : Nat) : v ∈ unique1 l ↔ v ∈ l := by
  simp only [unique1, List.mem_filter, List.mem_range, List.contains_iff_mem, foldl_max]
  constructor
  · exact fun h => h.2
  · intro h
    refine ⟨?_, h⟩
    have := le_foldr_max l v h
    have h2 : l.foldr Nat.max 0 ≤ Nat.max 0 (l.foldr Nat.max 0) := Nat.le_max_right _ _
    omega

/-- OBLIGATION `TriMesh._isolated_mask`: the translated body is the model's `isolatedMask` -/
theorem genIsolatedMask_eq {P C T : Type} (d : Nat) (M : Mesh P C T) (m : List Bool) :
    genIsolatedMask (M.toN d) m = isolatedMask m M.tris := by
  unfold genIsolatedMask
  try dsimp only
  simp only [Mesh.toN, genMaskAdjacencyArray_eq]
  apply List.ext_getElem?
  intro v
  rw [setConst_get, iso_get]
  simp only [setdiff1d, Np.ravel, Flat.flat, id, List.mem_filter, mem_unique1, mem_nonzero, contains_flatten_rows]
  cases hm : m[v]? with
  | none =>
    have : ¬ v < m.length := by
      intro hlt; rw [List.getElem?_eq_getElem hlt] at hm; cases hm
    simp [this]
  | some b =>
    have hlt : v < m.length := by
      by_contra hge; rw [List.getElem?_eq_none (by omega)] at hm; cases hm
    cases b <;> cases hp : present (maskAdj m M.tris) v <;> simp [hlt]

/-! ## `from_mask` of the three classes, `from_tri_mask` -/

/-- the model of `from_mask` for one class: the per-vertex arrays THIS class owns are sliced with the recomputed
(`_isolated_mask`) mask, the others are left alone -/
def fromMaskOf {P C T : Type} (k : Kind) (M : Mesh P C T) (m : List Bool) : Except Err (Mesh P C T) :=
  if m.length ≠ M.pts.length then .error .shape
  else if m.all id then .ok M
  else
    let iso := isolatedMask m M.tris
    match reindex (maskAdj iso M.tris) with
    | .error e => .error e
    | .ok ts' => .ok { pts := maskFilter M.pts iso,
                       cols := if k = .coloured then maskFilter M.cols iso else M.cols,
                       tcs := if k = .textured then maskFilter M.tcs iso else M.tcs, tris := ts' }

/-- a mesh object of class `k` carries exactly the per-vertex arrays of its class -/
def IsOf {P C T : Type} (M : Mesh P C T) : Kind → Prop
  | .plain => M.cols = [] ∧ M.tcs = []
  | .coloured => M.tcs = []
  | .textured => M.cols = []

/-- on an object of class `k` the class's own `from_mask` is the model `fromMask` all C17 theorems are about -/
theorem fromMaskOf_eq {P C T : Type} (k : Kind) (M : Mesh P C T) (m : List Bool) (hk : IsOf M k) :
    fromMaskOf k M m = fromMask M m := by
  unfold fromMaskOf fromMask
  by_cases hl : m.length ≠ M.pts.length
  · rw [if_pos hl, if_pos hl]
  · rw [if_neg hl, if_neg hl]
    by_cases ha : m.all id = true
    · rw [if_pos ha, if_pos ha]
    · rw [if_neg ha, if_neg ha]
      dsimp only
      cases h : reindex (maskAdj (isolatedMask m M.tris) M.tris) with
      | error e => rfl
      | ok ts' =>
        cases k <;> simp only [IsOf] at hk <;> simp [hk, maskFilter]

theorem toN_map {P C T : Type} (d : Nat) (M : Mesh P C T) : (M.toN d).trilist = rows M.tris := rfl

/-- OBLIGATION `TriMesh.from_mask` / `ColouredTriMesh.from_mask` / `TexturedTriMesh.from_mask` -/
theorem genFromMask_eq {P C T : Type} (k : Kind) (d : Nat) (M : Mesh P C T) (m : List Bool) :
    genFromMask k (M.toN d) m = (fromMaskOf k M m).map (Mesh.toN d) := by
  cases k <;>
  · simp only [genFromMask, genFromMaskTriMesh, genFromMaskColoured, genFromMaskTextured, fromMaskOf, shape0, Np.all,
      genIsolatedMask_eq, toN_map, genMaskAdjacencyArray_eq, genReindexAdjacencyArray_eq]
    simp only [Mesh.toN, bne_iff_ne, ne_eq, ite_not, rowFilter]
    by_cases hl : m.length = M.pts.length
    · simp only [hl, if_true]
      by_cases ha : m.all id = true
      · simp [ha, Except.map, Mesh.toN]
      · simp only [ha, Bool.false_eq_true, if_false]
        cases reindex (maskAdj (isolatedMask m M.tris) M.tris) with
        | error e => rfl
        | ok ts' => simp [Except.map, Except.bind, Mesh.toN]
    · simp [hl, Except.map]


theorem maskFilter_map {α β : Type} (f : α → β) (l : List α) (m : List Bool) :
    maskFilter (l.map f) m = (maskFilter l m).map f := by
  induction l generalizing m with
  | nil => cases m <;> rfl
  | cons x xs ih =>
    cases m with
    | nil => rfl
    | cons b bs => cases b <;> simp [maskFilter, ih]

/-- the point mask `from_tri_mask` builds: `zeros(n, bool)` with the vertices of the selected rows set -/
theorem triPointMask_eq (n : Nat) (ts : List Tri) :
    setConst (zerosBool n) (Np.unique (Np.ravel (rows ts))) true = (List.range n).map (present ts) := by
  apply List.ext_getElem?
  intro v
  rw [setConst_get]
  simp only [Np.unique, Np.ravel, Flat.flat, id, mem_unique1, zerosBool, List.length_replicate, List.getElem?_map]
  have hmem : v ∈ (rows ts).flatten ↔ present ts v = true := by
    rw [← List.contains_iff_mem, contains_flatten_rows]
  simp only [hmem]
  by_cases hv : v < n
  · rw [List.getElem?_range hv, List.getElem?_replicate]
    cases hp : present ts v <;> simp [hv, hp]
  · rw [List.getElem?_eq_none (by simpa using hv), List.getElem?_eq_none (by simpa using hv)]
    simp [hv]

/-- the model of `from_tri_mask` for an object of class `k` -/
def fromTriMaskOf {P C T : Type} (k : Kind) (M : Mesh P C T) (tm : List Bool) : Except Err (Mesh P C T) :=
  if tm.length ≠ M.tris.length then .error .index
  else fromMaskOf k M (triPointMask M.pts.length M.tris tm)

theorem fromTriMaskOf_eq {P C T : Type} (k : Kind) (M : Mesh P C T) (tm : List Bool) (hk : IsOf M k) :
    fromTriMaskOf k M tm = fromTriMask M tm := by
  unfold fromTriMaskOf fromTriMask
  split
  · rfl
  · exact fromMaskOf_eq k M _ hk

/-- OBLIGATION `TriMesh.from_tri_mask` (inherited by the two subclasses; `self.from_mask` dispatches on the class) -/
theorem genFromTriMask_eq {P C T : Type} (k : Kind) (d : Nat) (M : Mesh P C T) (tm : List Bool) :
    genFromTriMask k (M.toN d) tm = (fromTriMaskOf k M tm).map (Mesh.toN d) := by
  unfold genFromTriMask fromTriMaskOf
  try dsimp only
  simp only [toN_map, boolIndex, rows, List.length_map]
  by_cases hl : tm.length ≠ M.tris.length
  · rw [if_pos hl, if_pos hl]; rfl
  · rw [if_neg hl, if_neg hl]
    simp only [Except.bind]
    rw [maskFilter_map]
    have h := triPointMask_eq (shape0 (M.toN d).points) (maskFilter M.tris tm)
    simp only [rows] at h
    rw [h, genFromMask_eq]
    rfl


/-! ## edges: `edge_indices`, `unique_edge_indices`, `boundary_tri_index`, `trilist_to_adjacency_array` -/

theorem zipWith_map_same {α β γ δ : Type} (f : β → γ → δ) (g : α → β) (h : α → γ) (l : List α) :
    List.zipWith f (l.map g) (l.map h) = l.map (fun x => f (g x) (h x)) := by
  induction l with
  | nil => rfl
  | cons x xs ih => simp [ih]

theorem flatten_map_flatten {α β : Type} (g : α → List (List β)) (l : List α) :
    (l.map (fun x => (g x).flatten)).flatten = (l.flatMap g).flatten := by
  induction l with
  | nil => rfl
  | cons x xs ih => simp [List.flatMap_cons, ih]

/-- the three sides of a triangle as rows -/
def edgeRows (t : Tri) : List (List Nat) := [[t.1, t.2.1], [t.2.1, t.2.2], [t.2.2, t.1]]

theorem edgeRows_eq (t : Tri) : edgeRows t = t.edges.map Edge.toRow := rfl

/-- OBLIGATION `TriMesh.edge_indices` -/
theorem genEdgeIndices_rows {P C T : Type} (s : NMesh P C T) (ts : List Tri) (hs : s.trilist = rows ts) :
    genEdgeIndices s = (edgeIndices ts).map Edge.toRow := by
  unfold genEdgeIndices
  try dsimp only
  simp only [hs, rows, cols2, hstack3, hstack2, List.map_map, zipWith_map_same, Np.reshape, Np.ravel, Flat.flat]
  have h : ∀ t : Tri, ([(Tri.verts t).getD 0 default, (Tri.verts t).getD 1 default] ++
      [(Tri.verts t).getD 1 default, (Tri.verts t).getD 2 default] ++
      [(Tri.verts t).getD 2 default, (Tri.verts t).getD 0 default]) = (edgeRows t).flatten := fun t => rfl
  simp only [Function.comp, h]
  rw [flatten_map_flatten, reshapeRows_flatten 2 (by decide)]
  · simp only [edgeIndices, List.map_flatMap]; rfl
  · intro r hr
    simp only [List.mem_flatMap, edgeRows] at hr
    obtain ⟨t, _, hr⟩ := hr
    simp only [List.mem_cons, List.not_mem_nil, or_false] at hr
    rcases hr with rfl | rfl | rfl <;> rfl

theorem genEdgeIndices_eq {P C T : Type} (d : Nat) (M : Mesh P C T) :
    genEdgeIndices (M.toN d) = (edgeIndices M.tris).map Edge.toRow := genEdgeIndices_rows _ _ rfl

theorem sortRow_pair (a b : Nat) : sortRow [a, b] = (sortEdge (a, b)).toRow := by
  simp only [sortRow, List.foldr_cons, List.foldr_nil, insertAsc, sortEdge, Edge.toRow]
  by_cases h : a ≤ b <;> simp [h]

theorem sortRows_edges (es : List Edge) : sortRows (es.map Edge.toRow) = (es.map sortEdge).map Edge.toRow := by
  simp only [sortRows, List.map_map]
  apply List.map_congr_left
  intro e _
  exact sortRow_pair e.1 e.2

theorem mem_firstRows (a : List (List Nat)) (r : List Nat) : r ∈ firstRows a ↔ r ∈ a := by
  simp only [firstRows, take, uniqueRowIndex, List.mem_map, List.mem_filter, List.mem_range]
  constructor
  · rintro ⟨i, ⟨hi, _⟩, rfl⟩
    rw [List.getD_eq_getElem?_getD, List.getElem?_eq_getElem hi]
    exact List.getElem_mem hi
  · intro hr
    have hlt : a.idxOf r < a.length := List.idxOf_lt_length_of_mem hr
    refine ⟨a.idxOf r, ⟨hlt, ?_⟩, ?_⟩
    · rw [List.getElem?_eq_getElem hlt]
      simp only [List.getElem_idxOf hlt, Bool.not_eq_eq_eq_not, Bool.not_true]
      rw [← Bool.not_eq_true, List.contains_iff_mem]
      intro hmem
      obtain ⟨j, hj, hjr⟩ := List.mem_iff_getElem.1 hmem
      rw [List.length_take] at hj
      rw [List.getElem_take] at hjr
      have hj' : j < a.idxOf r := by omega
      have hnot := List.not_of_lt_findIdx (p := fun x => x == r) (xs := a) (i := j) (by simpa [List.idxOf] using hj')
      simp [hjr] at hnot
    · rw [List.getD_eq_getElem?_getD, List.getElem?_eq_getElem hlt]
      exact List.getElem_idxOf hlt

theorem nodup_firstRows (a : List (List Nat)) : (firstRows a).Nodup := by
  unfold firstRows take uniqueRowIndex
  rw [List.Nodup, List.pairwise_map]
  have hnd : ((List.range a.length).filter (fun i => match a[i]? with
      | some r => !(a.take i).contains r
      | none => false)).Nodup := List.Nodup.sublist List.filter_sublist List.nodup_range
  refine List.Pairwise.imp_of_mem ?_ hnd
  intro i j hi hj hne hij
  simp only [List.mem_filter, List.mem_range] at hi hj
  obtain ⟨hil, hip⟩ := hi
  obtain ⟨hjl, hjp⟩ := hj
  rw [List.getD_eq_getElem?_getD, List.getD_eq_getElem?_getD, List.getElem?_eq_getElem hil,
    List.getElem?_eq_getElem hjl] at hij
  simp only [Option.getD_some] at hij
  rw [List.getElem?_eq_getElem hil] at hip
  rw [List.getElem?_eq_getElem hjl] at hjp
  simp only [Bool.not_eq_eq_eq_not, Bool.not_true] at hip hjp
  rcases Nat.lt_or_gt_of_ne hne with h | h
  · have : a[j] ∈ a.take j := by
      rw [← hij]; exact List.mem_take_iff_getElem.2 ⟨i, by omega, rfl⟩
    rw [← List.contains_iff_mem, hjp] at this; cases this
  · have : a[i] ∈ a.take i := by
      rw [hij]; exact List.mem_take_iff_getElem.2 ⟨j, by omega, rfl⟩
    rw [← List.contains_iff_mem, hip] at this; cases this

/-- OBLIGATION `TriMesh.unique_edge_indices`: the first occurrence of every sorted edge -/
theorem genUniqueEdgeIndices_rows {P C T : Type} (s : NMesh P C T) (ts : List Tri) (hs : s.trilist = rows ts) :
    genUniqueEdgeIndices s = firstRows ((sortedEdges ts).map Edge.toRow) := by
  unfold genUniqueEdgeIndices
  try dsimp only
  rw [genEdgeIndices_rows s ts hs, sortRows_edges]
  rfl

theorem genUniqueEdgeIndices_eq {P C T : Type} (d : Nat) (M : Mesh P C T) :
    genUniqueEdgeIndices (M.toN d) = firstRows ((sortedEdges M.tris).map Edge.toRow) :=
  genUniqueEdgeIndices_rows _ _ rfl


theorem edgeKey_eq (n : Nat) (e : Edge) : edgeKey n e = (sortEdge e).1 * n + (sortEdge e).2 := rfl

/-- `counts[inverse]` of `np.unique(k, return_inverse=True, return_counts=True)`: the multiplicity of every entry -/
theorem counts_inverse (k : List Nat) :
    take (uniqueInvCounts k).2.2 (uniqueInvCounts k).2.1 = k.map (fun x => k.count x) := by
  simp only [uniqueInvCounts, take, List.map_map]
  apply List.map_congr_left
  intro x hx
  have hu : x ∈ unique1 k := (mem_unique1 k x).2 hx
  have hlt : (unique1 k).idxOf x < (unique1 k).length := List.idxOf_lt_length_of_mem hu
  simp only [Function.comp, List.getD_eq_getElem?_getD, List.getElem?_map, List.getElem?_eq_getElem hlt,
    Option.map_some, Option.getD_some, List.getElem_idxOf hlt]

/-- OBLIGATION `TriMesh.boundary_tri_index`: the translated body is the model's `boundaryCount` -/
theorem genBoundaryTriIndex_rows {P C T : Type} (s : NMesh P C T) (ts : List Tri) (hs : s.trilist = rows ts) :
    genBoundaryTriIndex s = boundaryCount s.points.length ts := by
  unfold genBoundaryTriIndex
  try dsimp only
  rw [genEdgeIndices_rows s ts hs, sortRows_edges]
  have hkeys : (col ((List.map sortEdge (edgeIndices ts)).map Edge.toRow) 0 * shape0 s.points
      + col ((List.map sortEdge (edgeIndices ts)).map Edge.toRow) 1) = (edgeIndices ts).map (edgeKey s.points.length) := by
    simp only [col, List.map_map, smul_defN, add_defN, zipWith_map_same, shape0]
    apply List.map_congr_left
    intro e _
    simp [Function.comp, Edge.toRow, edgeKey_eq]
  simp only [hkeys]
  simp only [Np.index, IntIndex.get, counts_inverse, eqScalar, List.map_map, Np.reshape, Np.ravel, Flat.flat, id,
    anyAxis1, boundaryCount]
  set keys := (edgeIndices ts).map (edgeKey s.points.length) with hk
  have hflat : List.map ((fun v => v == 1) ∘ (fun x => List.count x keys) ∘ edgeKey s.points.length) (edgeIndices ts)
      = (ts.map (fun t => (t.edges.map (edgeKey s.points.length)).map (fun x => keys.count x == 1))).flatten := by
    simp only [edgeIndices, List.flatMap_def, List.map_flatten, List.map_map]
    rfl
  rw [hflat, reshapeRows_flatten 3 (by decide)]
  · simp only [List.map_map]
    apply List.map_congr_left
    intro t _
    simp [Function.comp, List.any_map]
    rfl
  · intro r hr
    simp only [List.mem_map] at hr
    obtain ⟨t, _, rfl⟩ := hr
    rfl

theorem genBoundaryTriIndex_eq {P C T : Type} (d : Nat) (M : Mesh P C T) :
    genBoundaryTriIndex (M.toN d) = boundaryCount M.pts.length M.tris := genBoundaryTriIndex_rows _ _ rfl

/-- the array `trilist_to_adjacency_array` builds: all sides AB, then all sides BC, then all sides CA -/
def adjacencyRows (ts : List Tri) : List (List Nat) :=
  ts.map (fun t => [t.1, t.2.1]) ++ ts.map (fun t => [t.2.1, t.2.2]) ++ ts.map (fun t => [t.2.2, t.1])

/-- OBLIGATION `trilist_to_adjacency_array` (what `as_pointgraph` hands to the graph constructor) -/
theorem genTrilistToAdjacencyArray_eq (ts : List Tri) : genTrilistToAdjacencyArray (rows ts) = adjacencyRows ts := by
  unfold genTrilistToAdjacencyArray adjacencyRows
  simp only [rows, concat3, colsTake, colsDrop, hstack2, asColumn, colLast, col, List.map_map, zipWith_map_same]
  rfl

/-- … which lists exactly the edge slots of `edge_indices`, in another order -/
theorem adjacencyRows_perm (ts : List Tri) : (adjacencyRows ts).Perm ((edgeIndices ts).map Edge.toRow) := by
  induction ts with
  | nil => exact List.Perm.refl _
  | cons t rest ih =>
    simp only [adjacencyRows, List.map_cons, edgeIndices, List.flatMap_cons, Tri.edges,
      Edge.toRow, List.cons_append, List.nil_append, List.append_assoc] at ih ⊢
    refine List.Perm.cons _ ?_
    refine (List.perm_middle).trans (List.Perm.cons _ ?_)
    have h2 : ∀ (a b c : List (List Nat)) (x : List Nat), (a ++ (b ++ x :: c)).Perm (x :: (a ++ (b ++ c))) := by
      intro a b c x
      rw [← List.append_assoc, ← List.append_assoc]
      exact List.perm_middle
    exact (h2 _ _ _ _).trans (List.Perm.cons _ ih)


/-! ## the C17 property theorems, restated for the TRANSLATED methods

`M : Mesh P C T` is the abstract content of a mesh object, `M.toN d` the arrays the Python methods see
(`trilist` as an `(n, 3)` integer array), `IsOf M k` says that the object is of class `k` (a TriMesh has neither
colours nor tcoords, a ColouredTriMesh no tcoords, a TexturedTriMesh no colours). -/

variable {P C T : Type}

/-- the translated `from_mask` of the object's class is the model `fromMask` the C17 theorems are about -/
theorem genFromMask_model (k : Kind) (d : Nat) (M : Mesh P C T) (m : List Bool) (hk : IsOf M k) :
    genFromMask k (M.toN d) m = (fromMask M m).map (Mesh.toN d) := by
  rw [genFromMask_eq, fromMaskOf_eq k M m hk]

/-- the translated `from_tri_mask` (with the class's `from_mask`) is the model `fromTriMask` -/
theorem genFromTriMask_model (k : Kind) (d : Nat) (M : Mesh P C T) (tm : List Bool) (hk : IsOf M k) :
    genFromTriMask k (M.toN d) tm = (fromTriMask M tm).map (Mesh.toN d) := by
  rw [genFromTriMask_eq, fromTriMaskOf_eq k M tm hk]

/-- PROPERTY for the translated methods ("keeps exactly the triangles all of whose vertices survive"): the
`trilist` array returned by the translated `from_mask` of each class holds, in order, the rows of the whole
triangles, renumbered by one map -/
theorem src_mask_keeps_whole_triangles (k : Kind) (d : Nat) (M : Mesh P C T) (m : List Bool) (hk : IsOf M k)
    (hlen : m.length = M.pts.length) (hall : m.all id = false)
    (hwf : WF M.pts.length M.tris) (hne : M.tris.filter (wholeTri m) ≠ []) :
    ∃ R ρ, genFromMask k (M.toN d) m = .ok R ∧
      R.trilist = rows ((M.tris.filter (wholeTri m)).map (Tri.map ρ)) := by
  obtain ⟨R, ρ, h, ht, _, _⟩ := mask_keeps_whole_triangles M m hlen hall hwf hne
  exact ⟨R.toN d, ρ, by rw [genFromMask_model k d M m hk, h]; rfl, by simp [Mesh.toN, ht]⟩

/-- PROPERTY for the translated methods ("renumbers the triangle list consistently …", "carries per-vertex
colours and texture coordinates along with their vertices"): every kept triangle joins, through the arrays of the
result, the rows it joined through the arrays of the receiver — points for every class, colours for
`ColouredTriMesh.from_mask`, tcoords for `TexturedTriMesh.from_mask` -/
theorem src_renumber_consistent (k : Kind) (d : Nat) (M : Mesh P C T) (m : List Bool) (hk : IsOf M k)
    (hlen : m.length = M.pts.length) (hall : m.all id = false)
    (hwf : WF M.pts.length M.tris) (hne : M.tris.filter (wholeTri m) ≠ []) :
    ∃ R ts', genFromMask k (M.toN d) m = .ok R ∧ R.trilist = rows ts' ∧
      ts'.length = (M.tris.filter (wholeTri m)).length ∧
      ∀ (j : Nat) (t : Tri), (M.tris.filter (wholeTri m))[j]? = some t →
        ∃ t', ts'[j]? = some t' ∧ cornersEq R.points M.pts t' t ∧
          (M.cols.length = M.pts.length → cornersEq R.colours M.cols t' t) ∧
          (M.tcs.length = M.pts.length → cornersEq R.tcoords M.tcs t' t) := by
  obtain ⟨R, h, hl, hc⟩ := renumber_consistent M m hlen hall hwf hne
  exact ⟨R.toN d, R.tris, by rw [genFromMask_model k d M m hk, h]; rfl, rfl, hl, hc⟩

/-- PROPERTY for the translated methods ("drops vertices left without a triangle"; the payloads are sliced with
the ORPHAN-CORRECTED mask, not with the caller's): one boolean vector `keep` selects the rows of points, colours
and tcoords of the result, and `keep v` holds exactly when the caller's mask keeps `v` and `v` belongs to a
triangle that survives whole -/
theorem src_mask_drops_orphans (k : Kind) (d : Nat) (M : Mesh P C T) (m : List Bool) (hk : IsOf M k)
    (hlen : m.length = M.pts.length) (hall : m.all id = false)
    (hwf : WF M.pts.length M.tris) (hne : M.tris.filter (wholeTri m) ≠ []) :
    ∃ R keep, genFromMask k (M.toN d) m = .ok R ∧ keep = genIsolatedMask (M.toN d) m ∧ keep.length = m.length ∧
      R.points = maskFilter M.pts keep ∧ R.colours = maskFilter M.cols keep ∧ R.tcoords = maskFilter M.tcs keep ∧
      ∀ v, keep[v]? = some true ↔
        (m[v]? = some true ∧ ∃ t ∈ M.tris, wholeTri m t = true ∧ v ∈ t.verts) := by
  have hwf' : WF m.length M.tris := by rw [hlen]; exact hwf
  have hne' : maskAdj m M.tris ≠ [] := by rw [maskAdj_eq_filter_whole m M.tris hwf']; exact hne
  refine ⟨Mesh.toN d (⟨maskFilter M.pts (isolatedMask m M.tris), maskFilter M.cols (isolatedMask m M.tris),
      maskFilter M.tcs (isolatedMask m M.tris),
      (M.tris.filter (wholeTri m)).map (Tri.map (rank (isolatedMask m M.tris)))⟩ : Mesh P C T),
    isolatedMask m M.tris, ?_, (genIsolatedMask_eq d M m).symm, iso_length _ _, rfl, rfl, rfl, ?_⟩
  · rw [genFromMask_model k d M m hk, fromMask_normal M m hlen hall hwf hne']; rfl
  · intro v
    rw [iso_true_iff, present_iff, maskAdj_eq_filter_whole m M.tris hwf']
    simp only [List.mem_filter]
    constructor
    · rintro ⟨h1, t, ⟨ht, hw⟩, hv⟩; exact ⟨h1, t, ht, hw, hv⟩
    · rintro ⟨h1, t, ht, hw, hv⟩; exact ⟨h1, t, ⟨ht, hw⟩, hv⟩

/-- what a class does NOT own is left alone by its `from_mask` (the model `fromMaskOf`, unconditionally): the
translated TriMesh / Coloured / Textured bodies slice `points` always, `colours` only in ColouredTriMesh,
`tcoords` only in TexturedTriMesh — each with the recomputed mask -/
theorem src_from_mask_slices (k : Kind) (d : Nat) (M : Mesh P C T) (m : List Bool) (R : NMesh P C T)
    (h : genFromMask k (M.toN d) m = .ok R) (hall : m.all id = false) :
    R.points = maskFilter M.pts (genIsolatedMask (M.toN d) m) ∧
    R.colours = (if k = .coloured then maskFilter M.cols (genIsolatedMask (M.toN d) m) else M.cols) ∧
    R.tcoords = (if k = .textured then maskFilter M.tcs (genIsolatedMask (M.toN d) m) else M.tcs) := by
  rw [genFromMask_eq, genIsolatedMask_eq] at *
  unfold fromMaskOf at h
  by_cases hl : m.length ≠ M.pts.length
  · rw [if_pos hl] at h; cases h
  · rw [if_neg hl, if_neg (by simp [hall])] at h
    dsimp only at h
    cases hr : reindex (maskAdj (isolatedMask m M.tris) M.tris) with
    | error e => rw [hr] at h; cases h
    | ok ts' =>
      rw [hr] at h
      simp only [Except.map, Except.ok.injEq] at h
      subst h
      exact ⟨rfl, rfl, rfl⟩

/-- PROPERTY for the translated `from_tri_mask`: it is the class's translated `from_mask` with the vertex mask
holding exactly the vertices of the selected rows -/
theorem src_tri_mask_eq_vertex_mask (k : Kind) (d : Nat) (M : Mesh P C T) (tm : List Bool)
    (h : tm.length = M.tris.length) :
    genFromTriMask k (M.toN d) tm = genFromMask k (M.toN d) (triPointMask M.pts.length M.tris tm) := by
  rw [genFromTriMask_eq, genFromMask_eq]
  simp [fromTriMaskOf, h]

/-- PROPERTY for the translated `boundary_tri_index` ("flags exactly the triangles owning an unshared edge"):
on every well-formed mesh the returned flags are the specification -/
theorem src_boundary_flags (d : Nat) (M : Mesh P C T) (hwf : WF M.pts.length M.tris) (j : Nat) :
    (genBoundaryTriIndex (M.toN d)).length = M.tris.length ∧
    ((genBoundaryTriIndex (M.toN d))[j]? = some true ↔
      ∃ t, M.tris[j]? = some t ∧ ∃ e ∈ t.edges, unshared M.tris e) := by
  rw [genBoundaryTriIndex_eq, boundary_fixed_eq_spec _ _ hwf]
  exact boundary_flags_exactly M.tris j

/-- PROPERTY for the translated `unique_edge_indices` ("unique edges list each undirected edge once"): no row is
repeated, every row is `[lo, hi]` with `lo ≤ hi`, and a row is listed iff it is the sorted form of a side of
some triangle; the list is a permutation of the model's `uniqueEdges` -/
theorem src_unique_edges_once (d : Nat) (M : Mesh P C T) :
    (genUniqueEdgeIndices (M.toN d)).Nodup ∧
    (∀ r, r ∈ genUniqueEdgeIndices (M.toN d) ↔ ∃ t ∈ M.tris, ∃ e' ∈ t.edges, r = (sortEdge e').toRow) ∧
    (genUniqueEdgeIndices (M.toN d)).Perm ((uniqueEdges M.tris).map Edge.toRow) := by
  rw [genUniqueEdgeIndices_eq]
  have hmem : ∀ r, r ∈ firstRows ((sortedEdges M.tris).map Edge.toRow) ↔
      ∃ t ∈ M.tris, ∃ e' ∈ t.edges, r = (sortEdge e').toRow := by
    intro r
    rw [mem_firstRows]
    simp only [sortedEdges, edgeIndices, List.mem_map, List.mem_flatMap]
    constructor
    · rintro ⟨e, ⟨e', ⟨t, ht, he'⟩, rfl⟩, rfl⟩; exact ⟨t, ht, e', he', rfl⟩
    · rintro ⟨t, ht, e', he', rfl⟩; exact ⟨_, ⟨e', ⟨t, ht, he'⟩, rfl⟩, rfl⟩
  refine ⟨nodup_firstRows _, hmem, ?_⟩
  have hinj : ∀ a b : Edge, a.toRow = b.toRow → a = b := by
    intro a b h
    simp only [Edge.toRow, List.cons.injEq, and_true] at h
    exact Prod.ext h.1 h.2
  have hnd : ((uniqueEdges M.tris).map Edge.toRow).Nodup := by
    rw [List.Nodup, List.pairwise_map]
    exact List.Pairwise.imp (fun hne h => hne (hinj _ _ h)) (unique_edges_once M.tris).1
  rw [List.perm_ext_iff_of_nodup (nodup_firstRows _) hnd]
  intro r
  rw [hmem]
  simp only [List.mem_map, (unique_edges_once M.tris).2.2.1]
  constructor
  · rintro ⟨t, ht, e', he', rfl⟩; exact ⟨_, ⟨t, ht, e', he', rfl⟩, rfl⟩
  · rintro ⟨e, ⟨t, ht, e', he', rfl⟩, rfl⟩; exact ⟨t, ht, e', he', rfl⟩

/-- the array `as_pointgraph` builds its adjacency matrix from (`trilist_to_adjacency_array`) lists exactly the
edge slots of `edge_indices` -/
theorem src_pointgraph_edge_slots (d : Nat) (M : Mesh P C T) :
    (genTrilistToAdjacencyArray (M.toN d).trilist).Perm (genEdgeIndices (M.toN d)) := by
  rw [genEdgeIndices_eq, toN_map, genTrilistToAdjacencyArray_eq]
  exact adjacencyRows_perm M.tris

/-! ### non-vacuity: the translated methods evaluated on the example meshes of Props/C17.lean -/

instance [DecidableEq C] [DecidableEq T] (M : Mesh P C T) (k : Kind) : Decidable (IsOf M k) := by
  cases k <;> unfold IsOf <;> exact inferInstance

/-- a ColouredTriMesh: the strip and the isolated triangle of `exMesh`, with colours and without tcoords -/
def exColoured : Mesh Nat Nat Nat := { exMesh with tcs := [] }

example : IsOf exColoured .coloured ∧ exMask.length = exColoured.pts.length ∧ exMask.all id = false ∧
    WF exColoured.pts.length exColoured.tris ∧ exColoured.tris.filter (wholeTri exMask) ≠ [] ∧
    exColoured.cols.length = exColoured.pts.length := by decide
example : (genFromMask .coloured (exColoured.toN 3) exMask).toOption.map (fun R => (R.points, R.colours, R.trilist))
    = some ([14, 15, 16], [24, 25, 26], [[0, 1, 2]]) := by decide
example : genIsolatedMask (exColoured.toN 3) exMask = [false, false, false, false, true, true, true] := by decide
example : (genFromTriMask .coloured (exColoured.toN 3) [false, true, false]).toOption.map (fun R => R.points)
    = some [11, 12, 13] := by decide
example : genBoundaryTriIndex (exColoured.toN 3) = [true, true, true] ∧
    genUniqueEdgeIndices (exColoured.toN 3) = [[0, 1], [1, 2], [0, 2], [1, 3], [2, 3], [4, 5], [5, 6], [4, 6]] := by
  decide

end MenpoModel.C17.SrcProps
