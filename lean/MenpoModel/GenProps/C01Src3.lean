/-
C01 — the translator tie in 3-D.  `Generated/C01Src3.lean` is the translation of the n-D functions of
menpo/image/base.py, masked.py, boolean.py, interpolation.py and compositions.py FROM THE SAME SOURCE TEXT as
`Generated/C01Src.lean`, over the 3-D vocabulary (`Core/C01Src3.lean`).  This file proves every translated definition
equal, for all arguments, to the 3-D plans of `Core/C01Warp.lean` executed through the funnel (`Plan3.result`,
`Plan3.cropResult`) — for every interpolation order — and restates the property for what the translated code returns.
-/
import MenpoModel.Generated.C01Src3
import MenpoModel.GenProps.C01Src

set_option linter.unusedSimpArgs false

namespace MenpoModel.C01.GenProps3
open MenpoModel.C01 hiding boundsOf rangeOf
open MenpoModel.C01.Src3 MenpoModel.C01Gen3
open MenpoModel.C01.GenProps (foldl_set_range map_range_getD toNat_max_zero truncR_toNat levelBody levels_fold)

/-! ## the sampler -/

theorem foldl_setSampled (b : Bool) (g : Nat → V3 → Rat) (l : List Nat) : ∀ (vs : List (V3 → Rat)),
    l.foldl (fun (acc : Sampled) i => setSampled acc i (g i)) ⟨b, vs⟩
      = ⟨b, l.foldl (fun acc i => acc.set i (g i)) vs⟩ := by
  induction l with
  | nil => intro vs; rfl
  | cons a l ih => intro vs; simp only [List.foldl_cons, setSampled]; exact ih _

theorem genScipyInterpolation_eq (spl : Spl) (px : Pixels) (pts : PtArr) (mode : String) (order : Nat) (cval : Rat) :
    genScipyInterpolation spl px pts mode order cval = samplePixels3 spl px pts mode order cval := by
  unfold genScipyInterpolation samplePixels3
  simp only [Py.forLoop_eq_foldl, PyIter.iter, pyRange, id, emptySampled, nChannelsP]
  have h := foldl_setSampled px.isBool
    (fun i => mapCoordinates spl px.isBool (channel px i) pts mode order cval) (List.range px.ch.length)
    (List.replicate px.ch.length (fun (_ : V3) => (0 : Rat)))
  have h2 : (List.range px.ch.length).foldl
      (fun (acc : Sampled) i => setSampled acc i (mapCoordinates spl acc.isBool (channel px i) pts mode order cval))
      ⟨px.isBool, List.replicate px.ch.length (fun (_ : V3) => (0 : Rat))⟩
      = (List.range px.ch.length).foldl
      (fun (acc : Sampled) i => setSampled acc i (mapCoordinates spl px.isBool (channel px i) pts mode order cval))
      ⟨px.isBool, List.replicate px.ch.length (fun (_ : V3) => (0 : Rat))⟩ := by
    generalize List.replicate px.ch.length (fun (_ : V3) => (0 : Rat)) = vs
    generalize List.range px.ch.length = l
    induction l generalizing vs with
    | nil => rfl
    | cons a l ih => simp only [List.foldl_cons, setSampled]; exact ih _
  rw [h2, h, foldl_set_range _ _ _ (by simp)]
  simp only [List.drop_replicate, Nat.sub_self, List.replicate_zero, List.append_nil]
  congr 1
  exact map_range_getD px.ch (fun _ _ _ => 0)
    (fun f => fun q => samplerOf3 spl order (Src.effMode px.isBool mode cval) ⟨px.n0, px.n1, px.n2, f⟩ (pts q))

theorem genImageSample_eq (spl : Spl) (o : Obj) (pts : PtArr) (order : Nat) (mode : String) (cval : Rat) :
    genImageSample spl o pts order mode cval = .ok (samplePixels3 spl o.pix pts mode order cval) := by
  simp only [genImageSample, genScipyInterpolation_eq, pixelsOf, PyNum.num, id]

theorem genBooleanSample_eq (spl : Spl) (o : Obj) (pts : PtArr) (mode : String) (cval : Rat) :
    genBooleanSample spl o pts mode cval = .ok (samplePixels3 spl o.pix pts mode 0 cval) := by
  simp only [genBooleanSample, genImageSample_eq, PyNum.num, id]

theorem genMaskedSample_eq (spl : Spl) (o : Obj) (pts : PtArr) (order : Nat) (mode : String) (cval : Rat) :
    genMaskedSample spl o pts order mode cval false = .ok (samplePixels3 spl o.pix pts mode order cval) := by
  simp [genMaskedSample, genImageSample_eq, PyNum.num]

/-! ## the funnel -/

theorem genBuildWarpToShape_eq (o : Obj) (px : Pixels) (T : TObj) (wl rt : Bool) :
    genBuildWarpToShape o px T wl rt = .ok (mkRet3 rt ⟨.image, px, none, warpLms3 o T wl, o.path⟩ T) := by
  unfold genBuildWarpToShape
  rcases o with ⟨cls, pix, mask, lms, path⟩
  cases wl <;> cases rt <;> cases path <;> cases lms <;>
    simp [mkRet3, warpLms3, newImage, hasLandmarks, setLandmarks, landmarksOf, mapLandmarks, hasPath, setPath, pathOf,
      ToRet.toRet]

theorem genImageWarpToShape_eq (spl : Spl) (o : Obj) (shape : IVec) (T : TObj) (wl : Bool) (order : Nat)
    (mode : String) (cval : Rat) (batch : Option Nat) (rt : Bool) :
    genImageWarpToShape spl o shape T wl order mode cval batch rt
      = .ok (mkRet3 rt (imageWarp3 spl o shape T wl order mode cval) T) := by
  unfold genImageWarpToShape
  rcases o with ⟨cls, pix, mask, lms, path⟩
  cases cls <;>
    simp [genImageSample_eq, genMaskedSample_eq, genBooleanSample_eq, genBuildWarpToShape_eq, imageWarp3, warpPixels3,
      reshapeSampled, samplePixels3, applyPts, indicesForImageOfShape, clsOrder, PyNum.num, Function.comp_def]

theorem genBooleanWarpToShape_eq (spl : Spl) (o : Obj) (shape : IVec) (T : TObj) (wl : Bool)
    (mode : String) (cval : Rat) (batch : Option Nat) (rt : Bool) :
    genBooleanWarpToShape spl o shape T wl mode cval batch rt
      = .ok (mkRet3 rt (booleanWarp3 spl o shape T wl mode cval) T) := by
  unfold genBooleanWarpToShape
  simp only [genImageWarpToShape_eq, PyNum.num, id]
  rcases o with ⟨cls, pix, mask, lms, path⟩
  cases rt <;> cases path <;> cases hl : (warpLms3 ⟨cls, pix, mask, lms, none⟩ T wl) <;>
    simp_all [mkRet3, Except.map, Ret.obj, imageWarp3, booleanWarp3, newBoolean, pixelsOf, hasLandmarks, setLandmarks,
      landmarksOf, hasPath, setPath, pathOf, ToRet.toRet, warpLms3]

theorem genMaskedWarpToShape_eq (spl : Spl) (o : Obj) (shape : IVec) (T : TObj) (wl : Bool) (order : Nat)
    (mode : String) (cval : Rat) (batch : Option Nat) (rt : Bool) :
    genMaskedWarpToShape spl o shape T wl order mode cval batch rt
      = .ok (mkRet3 rt (maskedWarp3 spl o shape T wl order mode cval) T) := by
  unfold genMaskedWarpToShape
  simp only [genImageWarpToShape_eq, genBooleanWarpToShape_eq, PyNum.num, id]
  rcases o with ⟨cls, pix, mask, lms, path⟩
  cases rt <;> cases path <;>
    simp [mkRet3, Except.map, Ret.obj, imageWarp3, maskedWarp3, asMasked, hasPath, setPath, pathOf, ToRet.toRet]

/-! ## helpers -/

theorem genRoundImageShape_eq (v : V3) (r : Rounding) :
    genRoundImageShape v r.name = .ok ⟨r.apply v.x, r.apply v.y, r.apply v.z⟩ := by
  cases r <;> simp [genRoundImageShape, Rounding.name, roundVec, Rounding.apply]

theorem genCentre_eq (o : Obj) : genCentre o = centre3 o.pix.n0 o.pix.n1 o.pix.n2 := by
  simp [genCentre, centre3, shapeOf, IVec.toV]

theorem genConstrainPointsToBounds_eq (o : Obj) (p : V3) :
    genConstrainPointsToBounds o p
      = ⟨constrainPt o.pix.n0 p.x, constrainPt o.pix.n1 p.y, constrainPt o.pix.n2 p.z⟩ := by
  have h0 : (0 : Rat) ≤ (o.pix.n0 : Rat) := Nat.cast_nonneg _
  have h1 : (0 : Rat) ≤ (o.pix.n1 : Rat) := Nat.cast_nonneg _
  have h2 : (0 : Rat) ≤ (o.pix.n2 : Rat) := Nat.cast_nonneg _
  simp only [genConstrainPointsToBounds, Owned.vwhere, AsVec.vec, hsub_owned, id, vwhere, vltZero, shapeOf, IVec.toV, constrainPt, V3.sub_def, V3.ofNat_def,
    Int.cast_natCast, decide_eq_true_eq, Nat.cast_zero]
  ext <;> simp only <;> split_ifs <;> first | rfl | (exfalso; linarith)

theorem genTransformAboutCentreT_fam (o : Obj) (pv : PinvProvider) (A : Aff3) :
    genTransformAboutCentreT o (.fam pv A)
      = .fam .homogeneous (aboutCentre3 (centre3 o.pix.n0 o.pix.n1 o.pix.n2) A) := by
  simp [genTransformAboutCentreT, genCentre_eq, TObj.isHomogeneous, TObj.composeBefore, TObj.translation, aboutCentre3,
    V3.neg]

theorem genScaleAboutCentre_eq (o : Obj) (s : Rat) :
    genScaleAboutCentre o s
      = .fam .homogeneous (aboutCentre3 (centre3 o.pix.n0 o.pix.n1 o.pix.n2) (scale3 s s s)) := by
  simp [genScaleAboutCentre, TObj.uniformScale, genTransformAboutCentreT_fam]

/-! ## the operations -/

macro "funnel3_simp" "[" ts:Lean.Parser.Tactic.simpLemma,* "]" : tactic => `(tactic|
  simp [genImageWarpToShape_eq, genMaskedWarpToShape_eq, genBooleanWarpToShape_eq, warpObj3, Plan3.result,
    Plan3.execObj, Plan3.effOrder, shapeOf, PyNum.num, Except.map, Except.mapError, PyExc.toErr, toNat_max_zero,
    $ts,*])

theorem genZoom_eq (spl : Spl) (o : Obj) (s : Rat) (order : Nat) (wl rt : Bool) :
    (genZoom spl o s order wl rt).mapError PyExc.toErr
      = (zoomPlan3 o.pix.n0 o.pix.n1 o.pix.n2 s).map (fun p => p.result spl .homogeneous o order wl rt) := by
  unfold genZoom zoomPlan3 pyRecip
  by_cases hs : s = 0
  · simp [hs, Except.mapError, Except.map, PyExc.toErr]
  · simp only [hs, if_false, genScaleAboutCentre_eq]
    rcases o with ⟨cls, pix, mask, lms, path⟩
    cases cls <;> funnel3_simp []

theorem genMirror_neg (spl : Spl) (o : Obj) (axis : Int) (order : Nat) (wl rt : Bool) (h : axis < 0) :
    genMirror spl o axis order wl rt = .error .valueErr := by
  simp [genMirror, h]

theorem genMirror_eq (spl : Spl) (o : Obj) (axis : Nat) (order : Nat) (wl rt : Bool) :
    (genMirror spl o (axis : Int) order wl rt).mapError PyExc.toErr
      = (mirrorPlan3 o.pix.n0 o.pix.n1 o.pix.n2 axis).map (fun p => p.result spl .homogeneous o order wl rt) := by
  unfold genMirror mirrorPlan3
  rcases axis with _ | _ | _ | n
  · rcases o with ⟨cls, pix, mask, lms, path⟩
    cases cls <;>
      funnel3_simp [ndims, mirrorMap3, TObj.pinv, TObj.composeBefore, TObj.rotation, TObj.translation, Mat.set, Mat.eye,
        Vec.set, IVec.get, pinvBy3, Aff3.comp, transl3, top]
  · rcases o with ⟨cls, pix, mask, lms, path⟩
    cases cls <;>
      funnel3_simp [ndims, mirrorMap3, TObj.pinv, TObj.composeBefore, TObj.rotation, TObj.translation, Mat.set, Mat.eye,
        Vec.set, IVec.get, pinvBy3, Aff3.comp, transl3, top]
  · rcases o with ⟨cls, pix, mask, lms, path⟩
    cases cls <;>
      funnel3_simp [ndims, mirrorMap3, TObj.pinv, TObj.composeBefore, TObj.rotation, TObj.translation, Mat.set, Mat.eye,
        Vec.set, IVec.get, pinvBy3, Aff3.comp, transl3, top]
  · have h2 : ¬ ((n : Int) + 1 + 1 + 1 < 0) := by omega
    have h3 : ((n : Int) + 1 + 1 + 1 ≥ ndims) := by simp only [ndims]; omega
    simp [h2, h3, Except.mapError, Except.map, PyExc.toErr]

theorem genRescale_seq_eq (spl : Spl) (o : Obj) (s : V3) (r : Rounding) (order : Nat) (wl rt : Bool)
    (hnd : ¬ (o.pix.n0 < 2 ∨ o.pix.n1 < 2 ∨ o.pix.n2 < 2 ∨ scaleFactor o.pix.n0 s.x = 0 ∨ scaleFactor o.pix.n1 s.y = 0 ∨
      scaleFactor o.pix.n2 s.z = 0)) :
    (genRescale spl o (.seq [s.x, s.y, s.z]) r.name order wl rt).mapError PyExc.toErr
      = (rescalePlan3 o.pix.n0 o.pix.n1 o.pix.n2 s r).map (fun p => p.result spl .nonUniformScale o order wl rt) := by
  unfold genRescale rescalePlan3
  simp only [pyLenScale, ndims, ScaleArg.toVec, Py.forLoop_eq_foldl, PyIter.iter, genRoundImageShape_eq,
    TObj.applyVec, TObj.app, TObj.nonUniformScale, List.length_cons, List.length_nil, List.getD_cons_zero,
    List.getD_cons_succ, List.foldl_cons, List.foldl_nil, hnd, if_false]
  by_cases hx : s.x ≤ 0
  · simp [hx, Except.mapError, Except.map, PyExc.toErr]
  · by_cases hy : s.y ≤ 0
    · simp [hx, hy, Except.mapError, Except.map, PyExc.toErr]
    · by_cases hz : s.z ≤ 0
      · simp [hx, hy, hz, Except.mapError, Except.map, PyExc.toErr]
      · rcases o with ⟨cls, pix, mask, lms, path⟩
        cases cls <;>
          funnel3_simp [hx, hy, hz, TObj.pinv, pinvBy3, scale3, Aff3.apply, IVec.toV, scaleFactor, imageWarp3,
            maskedWarp3, booleanWarp3, warpPixels3]

theorem genRescale_scalar_eq (spl : Spl) (o : Obj) (s : Rat) (r : Rounding) (order : Nat) (wl rt : Bool)
    (hnd : ¬ (o.pix.n0 < 2 ∨ o.pix.n1 < 2 ∨ o.pix.n2 < 2 ∨ scaleFactor o.pix.n0 s = 0 ∨ scaleFactor o.pix.n1 s = 0 ∨
      scaleFactor o.pix.n2 s = 0)) :
    (genRescale spl o (.scalar s) r.name order wl rt).mapError PyExc.toErr
      = (rescalePlan3 o.pix.n0 o.pix.n1 o.pix.n2 ⟨s, s, s⟩ r).map
          (fun p => p.result spl .nonUniformScale o order wl rt) := by
  unfold genRescale rescalePlan3
  simp only [pyLenScale, ndims, ScaleArg.toVec, ScaleArg.rep, Py.forLoop_eq_foldl, PyIter.iter, genRoundImageShape_eq,
    TObj.applyVec, TObj.app, TObj.nonUniformScale, List.foldl_cons, List.foldl_nil, hnd, if_false]
  by_cases hx : s ≤ 0
  · simp [hx, Except.mapError, Except.map, PyExc.toErr]
  · rcases o with ⟨cls, pix, mask, lms, path⟩
    cases cls <;>
      funnel3_simp [hx, TObj.pinv, pinvBy3, scale3, Aff3.apply, IVec.toV, scaleFactor, imageWarp3, maskedWarp3,
        booleanWarp3, warpPixels3]

theorem genRescale_short (spl : Spl) (o : Obj) (l : List Rat) (round : String) (order : Nat) (wl rt : Bool)
    (h : l.length < 3) : genRescale spl o (.seq l) round order wl rt = .error .valueErr := by
  unfold genRescale
  have : ((l.length : Int) < ndims) := by simp only [ndims]; omega
  simp [pyLenScale, this]

theorem genResize_eq (spl : Spl) (o : Obj) (m : V3) (order : Nat) (wl rt : Bool)
    (hnd : ¬ (o.pix.n0 < 2 ∨ o.pix.n1 < 2 ∨ o.pix.n2 < 2 ∨ scaleFactor o.pix.n0 (m.x / o.pix.n0) = 0 ∨
      scaleFactor o.pix.n1 (m.y / o.pix.n1) = 0 ∨ scaleFactor o.pix.n2 (m.z / o.pix.n2) = 0)) :
    (genResize spl o m order wl rt).mapError PyExc.toErr
      = (resizePlan3 o.pix.n0 o.pix.n1 o.pix.n2 m).map (fun p => p.result spl .nonUniformScale o order wl rt) := by
  unfold genResize resizePlan3
  have h0 : ¬ (o.pix.n0 = 0 ∨ o.pix.n1 = 0 ∨ o.pix.n2 = 0) := by omega
  have := genRescale_seq_eq spl o ⟨m.x / o.pix.n0, m.y / o.pix.n1, m.z / o.pix.n2⟩ .round order wl rt hnd
  simp only [Rounding.name] at this
  simp [vsize, ndims, ToScaleArg.conv, shapeOf, IVec.toV, h0, this]

/-! ### crop -/

theorem genCrop_eq (spl : Spl) (o : Obj) (mn mx : V3) (constrain rt : Bool) :
    (genCrop spl o mn mx constrain rt).mapError PyExc.toErr
      = (cropPlan3 o.pix.n0 o.pix.n1 o.pix.n2 mn mx constrain).map (fun p => p.cropResult spl o rt) := by
  unfold genCrop cropPlan3
  simp only [genConstrainPointsToBounds_eq, vfloor, vceil, vsize, ndims, vallGt, vallEq, beq_self_eq_true, Bool.and_self,
    Bool.not_true, Bool.false_eq_true, if_false, V3.sub_def, vtrunc]
  rcases o with ⟨cls, pix, mask, lms, path⟩
  cases cls <;> cases rt <;> cases constrain <;>
    funnel3_simp [Plan3.cropResult, Ret.setPixels, pixelBlock, vzip, PyIter.iter, TObj.translation, transl3,
      truncR_toNat, imageWarp3, maskedWarp3, booleanWarp3, warpPixels3, mkRet3, Ret.mapObj] <;>
    (try split_ifs) <;> (try simp_all) <;> omega

theorem genCropToPointcloud_eq (spl : Spl) (o : Obj) (pts : List V3) (boundary : Rat) (constrain rt : Bool) :
    (genCropToPointcloud spl o pts boundary constrain rt).mapError PyExc.toErr
      = (cropPlan3 o.pix.n0 o.pix.n1 o.pix.n2 (Src3.boundsOf pts boundary).1 (Src3.boundsOf pts boundary).2 constrain).map
          (fun p => p.cropResult spl o rt) := by
  simp only [genCropToPointcloud, genCrop_eq]

theorem genCropToLandmarks_eq (spl : Spl) (o : Obj) (group : Option String) (boundary : Rat) (constrain rt : Bool) :
    (genCropToLandmarks spl o group boundary constrain rt).mapError PyExc.toErr
      = (cropPlan3 o.pix.n0 o.pix.n1 o.pix.n2 (Src3.boundsOf o.lms boundary).1 (Src3.boundsOf o.lms boundary).2 constrain).map
          (fun p => p.cropResult spl o rt) := by
  simp only [genCropToLandmarks, lmGroup, genCropToPointcloud_eq]


theorem genCropToPointcloudProportion_eq (spl : Spl) (o : Obj) (pts : List V3) (prop : Rat) (minimum constrain rt : Bool) :
    (genCropToPointcloudProportion spl o pts prop minimum constrain rt).mapError PyExc.toErr
      = (cropPlan3 o.pix.n0 o.pix.n1 o.pix.n2
          (Src3.boundsOf pts (prop * (if minimum then vmin (Src3.rangeOf pts) else vmax (Src3.rangeOf pts)))).1
          (Src3.boundsOf pts (prop * (if minimum then vmin (Src3.rangeOf pts) else vmax (Src3.rangeOf pts)))).2 constrain).map
          (fun p => p.cropResult spl o rt) := by
  unfold genCropToPointcloudProportion
  cases minimum <;> simp [genCropToPointcloud_eq]

theorem genCropToLandmarksProportion_eq (spl : Spl) (o : Obj) (prop : Rat) (group : Option String)
    (minimum constrain rt : Bool) :
    (genCropToLandmarksProportion spl o prop group minimum constrain rt).mapError PyExc.toErr
      = (cropPlan3 o.pix.n0 o.pix.n1 o.pix.n2
          (Src3.boundsOf o.lms (prop * (if minimum then vmin (Src3.rangeOf o.lms) else vmax (Src3.rangeOf o.lms)))).1
          (Src3.boundsOf o.lms (prop * (if minimum then vmin (Src3.rangeOf o.lms) else vmax (Src3.rangeOf o.lms)))).2
          constrain).map (fun p => p.cropResult spl o rt) := by
  simp only [genCropToLandmarksProportion, lmGroup, genCropToPointcloudProportion_eq]

/-! ### the pyramid in 3-D -/

/-- one level step on 3-D objects: `image.rescale(1.0 / downscale)` with the defaults of `rescale` -/
def stepObj3 (spl : Spl) (downscale : Rat) (o : Obj) : Except PyExc Obj :=
  (pyRecip downscale).bind fun k => Except.map Ret.obj (genRescale spl o (.scalar k) "ceil" 1 true false)

theorem genPyramid_eq (spl : Spl) (o : Obj) (n : Int) (ds : Rat) :
    genPyramid spl o n ds = levelsObj (stepObj3 spl ds) (n - 1).toNat o := by
  unfold genPyramid levelsObj
  simp only [Py.forLoop_eq_foldl, PyIter.iter, pyRange, id, List.nil_append]
  generalize hst : List.foldl _ (none, [o], o) _ = st
  have key := fun f hf => levels_fold (ι := Int) (stepObj3 spl ds) f hf
    (List.map Int.ofNat (List.range (n - 1).toNat)) [o] o
  simp only [List.length_map, List.length_range] at key
  refine Eq.trans ?_ (hst ▸ key _ ?_)
  · rcases st with ⟨_ | v, out, im⟩ <;> rfl
  · intro acc it
    unfold levelBody stepObj3
    rcases acc with ⟨_ | v, out, im⟩
    · cases h1 : pyRecip ds with
      | error e => simp [Except.bind]
      | ok k =>
        simp only [Except.bind, ToScaleArg.conv]
        cases h2 : genRescale spl im (.scalar k) "ceil" 1 true false <;> simp [Except.map]
    · simp

end MenpoModel.C01.GenProps3
