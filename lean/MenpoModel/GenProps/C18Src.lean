/-
C18 — obligations over the TRANSLATED feature code (harness/trans_c18.py, harness/py2lean2.py, harness/py2lean2f.py).

`Generated/C18Src.lean` is rewritten from the source text of menpo/feature/base.py, features.py, visualize.py and
predefined.py of the current working tree by every `./check C18`.  The theorems below say that what the source says now
is, for ALL arguments, the Core definition every C18 property theorem is about (`ndfeature`, `imgfeature`,
`winitfeature`, `rebuild`, `rebuildCentres`, `normalizeImg` / `normalizeNd` with `fixed := true`, `gradient2`, `gauss2`,
`igoChecked`, `esChecked`, `noOp`, `sumChannels2`, `daisyRaw`).  The proofs unfold the translated term, split on the
values the code itself inspects (the kind of the argument, `im.mask`, the result of a call that may raise, the mode,
the zero test) and close every case with `simp` over the vocabulary lemmas of `Lemmas/C18Vocab.lean`; they do not depend
on the order of independent statements, on the names of temporaries or on which arm of a test comes first, so a
harmless rewrite of the Python keeps them, while a changed decision, a swapped argument, a dropped branch or a changed
decorator breaks them (or makes the translated file ill-typed) — a BROKEN OBLIGATION of the check.
-/
import MenpoModel.Generated.C18Src
import MenpoModel.Lemmas.C18Vocab

set_option linter.unusedSimpArgs false

namespace MenpoModel.GenProps.C18Src
open MenpoModel.C18 MenpoModel.C18.Vocab MenpoModel.Generated.C18Src

/-! ## menpo/feature/base.py -/

theorem genSampleMask_eq (m : Mask) (c : Centres) : genSampleMask m c = sampleMask m c := by
  simp [genSampleMask]

theorem genCentresCorrection_eq (c : Centres) : genCentresCorrection c = (centresMin c, centresStep c) := by
  rcases c with _ | ⟨r0, t⟩
  · simp [genCentresCorrection, centresStep, cAt]
  · rcases t with _ | ⟨r1, t⟩ <;> rcases r0 with _ | ⟨a, _ | ⟨b, u⟩⟩ <;>
      simp [genCentresCorrection, centresStep, cAt, List.head?_eq_getElem?]

section wrappers
variable {P : Type} (sh : P → List Nat)

theorem genRebuild_eq (im : Img P) (fp : P) : genRebuild sh im fp = rebuild sh im fp := by
  unfold genRebuild rebuild
  cases hm : im.mask with
  | none => simp only [HasMask.maskOf, Img.maskE, hm] ; (repeat' split) <;> simp_all
  | some m =>
    cases hr : resizeMask m (sh fp) <;>
      simp only [HasMask.maskOf, Img.maskE, hm, hr, Except.bind, Except.map] <;>
      (repeat' split) <;> simp_all

theorem genRebuildCentres_eq (im : Img P) (fp : P) (c : Centres) :
    genRebuildCentres im fp c = rebuildCentres im fp c := by
  unfold genRebuildCentres rebuildCentres
  cases hm : im.mask with
  | none => simp only [HasMask.maskOf, Img.maskE, hm] ; (repeat' split) <;>
      simp_all [genCentresCorrection_eq, applyCorr, correctPt_eq]
  | some m =>
    cases hr : sampleMask m c <;>
      simp only [HasMask.maskOf, Img.maskE, hm, hr, genSampleMask_eq, Except.bind, Except.map] <;>
      (repeat' split) <;> simp_all [genCentresCorrection_eq, applyCorr, correctPt_eq]

theorem genNdfeature_eq (f : P → Except Err P) (x : Arg P) : genNdfeature sh f x = ndfeature sh f x := by
  cases x with
  | arr p => cases hf : f p <;>
      simp_all [genNdfeature, ndfeature, Arg.isArr, Arg.arrE, Arg.pixelsE, Arg.imgE, callArr, callImg, mkImage,
        AsPx.toP, AsImg.toImg, HasPixels.pixelsE, ToArg.toArg, Except.bind, Except.map]
  | img im => cases hf : f im.pixels <;>
      simp_all [genNdfeature, ndfeature, Arg.isArr, Arg.arrE, Arg.pixelsE, Arg.imgE, callArr, callImg, mkImage,
        AsPx.toP, AsImg.toImg, HasPixels.pixelsE, ToArg.toArg, genRebuild_eq, Except.bind, Except.map] <;>
      (cases rebuild sh im _ <;> rfl)

theorem genImgfeature_eq (g : Img P → Except Err (Img P)) (x : Arg P) : genImgfeature g x = imgfeature g x := by
  cases x with
  | arr p => cases hg : g ⟨p, none, []⟩ <;>
      simp_all [genImgfeature, imgfeature, Arg.isArr, Arg.arrE, Arg.pixelsE, Arg.imgE, callArr, callImg, mkImage,
        AsPx.toP, AsImg.toImg, HasPixels.pixelsE, ToArg.toArg, Except.bind, Except.map]
  | img im => cases hg : g im <;>
      simp_all [genImgfeature, imgfeature, Arg.isArr, Arg.arrE, Arg.pixelsE, Arg.imgE, callArr, callImg, mkImage,
        AsPx.toP, AsImg.toImg, HasPixels.pixelsE, ToArg.toArg, Except.bind, Except.map]

theorem genWinitfeature_eq (f : P → Except Err (P × Centres)) (x : Arg P) :
    genWinitfeature f x = winitfeature f x := by
  cases x with
  | arr p => cases hf : f p <;>
      simp_all [genWinitfeature, winitfeature, Arg.isArr, Arg.arrE, Arg.pixelsE, Arg.imgE, callArr, callImg, mkImage,
        AsPx.toP, AsImg.toImg, HasPixels.pixelsE, ToArg.toArg, Except.bind, Except.map]
  | img im => cases hf : f im.pixels <;>
      simp_all [genWinitfeature, winitfeature, Arg.isArr, Arg.arrE, Arg.pixelsE, Arg.imgE, callArr, callImg, mkImage,
        AsPx.toP, AsImg.toImg, HasPixels.pixelsE, ToArg.toArg, genRebuildCentres_eq, Except.bind, Except.map] <;>
      (cases rebuildCentres im _ _ <;> rfl)

end wrappers

/-! ## menpo.feature.normalize and the three normalisers built on it -/

/-- with a scale function that is a reduction (`np.std`, `np.linalg.norm`, `np.var`, any `stat`): the translated
`normalize` is the model's `normalizeImg` with the zero-scale branch as repaired (`fixed := true`) -/
theorem genNormalizeRaw_stat (stat : List Rat → Rat) (mode : Mode) (e : Bool) (im : Img Arr) :
    genNormalizeRaw im (some (reduceAx stat)) mode.toArg e = normalizeImg stat mode e true im := by
  rw [normalizeImg_eq]
  cases mode with
  | all =>
    simp [genNormalizeRaw, Mode.toArg, normalizeV, normCore, scalesOf, divRows, centre_all, callScale, reduceAx,
      Except.bind, Except.map]
    generalize bsub (asVector im) [mean (asVector im).flatten] = c
    cases e <;> by_cases hz : stat c.flatten = 0 <;> simp_all [bdiv]
  | perChannel =>
    simp [genNormalizeRaw, Mode.toArg, normalizeV, normCore, scalesOf, divRows, centre_perChannel, callScale, reduceAx,
      Except.bind, Except.map]
    generalize bsub (asVector im) ((asVector im).map mean) = c
    cases e <;> by_cases hz : ∃ x, x ∈ c ∧ stat x = 0 <;> simp [hz, bdiv_of_length, ite_fix_ne] <;>
      (try (intro hno; obtain ⟨x, hx, hx0⟩ := hz; exact absurd hx0 (hno x hx)))

/-- `scale_func=None`: the default defined inside `normalize` divides by one -/
theorem genNormalizeRaw_default (mode : Mode) (e : Bool) (im : Img Arr) :
    genNormalizeRaw im none mode.toArg e = normalizeImg (fun _ => 1) mode e true im := by
  rw [normalizeImg_eq]
  cases mode with
  | all =>
    simp [genNormalizeRaw, Mode.toArg, normalizeV, normCore, scalesOf, divRows, centre_all, callScale,
      Except.bind, Except.map, bdiv]
  | perChannel =>
    simp [genNormalizeRaw, Mode.toArg, normalizeV, normCore, scalesOf, divRows, centre_perChannel, callScale,
      Except.bind, Except.map, bdiv, zipWith_map_right]

/-- any other `mode` string is refused (ValueError) before anything is computed -/
theorem genNormalizeRaw_other (sf : Option ScaleFn) (e : Bool) (im : Img Arr) :
    genNormalizeRaw im sf .other e = .error .zeroScale := by
  cases sf <;> simp [genNormalizeRaw]

/-- `normalize` as exported: the `@imgfeature` wrapper around the translated body -/
theorem genNormalize_stat (stat : List Rat → Rat) (mode : Mode) (e : Bool) (x : Arg Arr) :
    genNormalize (some (reduceAx stat)) mode.toArg e x
      = imgfeature (fun im => liftN (normalizeImg stat mode e true im)) x := by
  simp only [genNormalize, genImgfeature_eq, genNormalizeRaw_stat]

theorem genNormalize_default (mode : Mode) (e : Bool) (x : Arg Arr) :
    genNormalize none mode.toArg e x = imgfeature (fun im => liftN (normalizeImg (fun _ => 1) mode e true im)) x := by
  simp only [genNormalize, genImgfeature_eq, genNormalizeRaw_default]

theorem genNormalize_on_array (stat : List Rat → Rat) (mode : Mode) (e : Bool) (p : Arr) :
    (genNormalize (some (reduceAx stat)) mode.toArg e (Arg.arr p)).bind Arg.arrE = normalizeArr stat mode e true p := by
  rw [genNormalize_stat]
  simp only [normalizeArr, imgfeature]
  cases liftN (normalizeImg stat mode e true ⟨p, none, []⟩) <;> simp [Except.map, Except.bind, Arg.arrE]

/-- `normalize_std` as exported = `@ndfeature` around `normalize(pixels, scale_func=np.std, …)` on the raw array -/
theorem genNormalizeStd_eq (np : NpStats) (mode : Mode) (e : Bool) (x : Arg Arr) :
    genNormalizeStd np mode.toArg e x = normalizeNd np.std mode e true x := by
  simp only [genNormalizeStd, genNormalizeStdRaw, genNdfeature_eq, normalizeNd]
  congr 1; funext p; exact genNormalize_on_array np.std mode e p

theorem genNormalizeNorm_eq (np : NpStats) (mode : Mode) (e : Bool) (x : Arg Arr) :
    genNormalizeNorm np mode.toArg e x = normalizeNd np.norm mode e true x := by
  simp only [genNormalizeNorm, genNormalizeNormRaw, genNdfeature_eq, normalizeNd]
  congr 1; funext p; exact genNormalize_on_array np.norm mode e p

theorem genNormalizeVar_eq (np : NpStats) (mode : Mode) (e : Bool) (x : Arg Arr) :
    genNormalizeVar np mode.toArg e x = normalizeNd var mode e true x := by
  simp only [genNormalizeVar, genNormalizeVarRaw, genNdfeature_eq, normalizeNd]
  congr 1; funext p; exact genNormalize_on_array var mode e p

/-! ## no_op, gradient, gaussian_filter -/

theorem genNoOp_eq {P : Type} (sh : P → List Nat) (x : Arg P) : genNoOp sh x = ndfeature sh noOp x := by
  simp only [genNoOp, genNdfeature_eq]
  congr 1

/-- the list plumbing of `gradient` (per-channel `np.gradient`, chain, `[i::n_dims]`, concatenate) is the model's
"all axis-0 gradients, then all axis-1 gradients", and the two refusals are the model's, on every rectangular array
with at least one channel -/
theorem genGradientRaw_eq (isU8 : Bool) (h w : Nat) (p : Px) (hr : Rect h w p) (hne : p ≠ []) :
    genGradientRaw isU8 p = gradient2 isU8 p := by
  rcases p with _ | ⟨M, t⟩
  · exact absurd rfl hne
  · have hd := rect_dims h w _ hr
    unfold genGradientRaw gradient2
    cases isU8 with
    | true => rfl
    | false =>
      by_cases hs : nRows M < 2 ∨ nCols M < 2
      · have : npGradient M = .error (.feature codeTooSmall) := by simp [npGradient, hs]
        simp [mapM_err_head _ _ _ _ this, hs, Except.bind]
      · have hall : ∀ N ∈ M :: t, npGradient N = .ok ((fun N => [gradY N, gradX N]) N) := by
          intro N hN
          have h0 := hd M (by simp)
          have h1 := hd N hN
          have : ¬ (nRows N < 2 ∨ nCols N < 2) := by rw [h1.1, h1.2]; rw [h0.1, h0.2] at hs; exact hs
          simp [npGradient, this]
        have hh : (M :: t).headD [] = M := rfl
        simp only [mapM_ok _ _ _ hall, Except.bind, hh, if_neg hs, Bool.false_eq_true, if_false]
        generalize M :: t = q
        simp [List.range_succ, List.map_flatten, Function.comp_def, takeEvery_two_zero, takeEvery_two_one,
          flatten_map_singleton']

theorem genGradient_eq (isU8 : Bool) (h w : Nat) (x : Arg Px) (hr : Rect h w x.px) (hne : x.px ≠ []) :
    genGradient isU8 x = ndfeature sh2 (gradient2 isU8) x := by
  cases x with
  | arr p => simp only [genGradient, genNdfeature_eq, ndfeature, genGradientRaw_eq isU8 h w p hr hne]
  | img im => simp only [genGradient, genNdfeature_eq, ndfeature, genGradientRaw_eq isU8 h w im.pixels hr hne]

theorem genGaussianFilterRaw_eq (ky kx : Option Kern) (p : Px) :
    genGaussianFilterRaw p (ky, kx) = gauss2 ky kx p := by
  simp only [genGaussianFilterRaw, gauss2, MenpoModel.Py.forLoop_eq_foldl, fill_loop (scipyGauss (ky, kx))]
  cases ky <;> cases kx <;> rfl

theorem genGaussianFilter_eq (ky kx : Option Kern) (x : Arg Px) :
    genGaussianFilter (ky, kx) x = ndfeature sh2 (gauss2 ky kx) x := by
  simp only [genGaussianFilter, genNdfeature_eq]
  congr 1; funext p; exact genGaussianFilterRaw_eq ky kx p

/-! ## igo / double_igo / es / sum_channels -/

theorem genGradient_on_array (isU8 : Bool) (h w : Nat) (p : Px) (hr : Rect h w p) (hne : p ≠ []) :
    (genGradient isU8 (Arg.arr p)).bind Arg.arrE = gradient2 isU8 p := by
  simp only [genGradient, genNdfeature_eq, ndfeature, genGradientRaw_eq isU8 h w p hr hne]
  cases gradient2 isU8 p <;> simp [Except.map, Except.bind, Arg.arrE]

/-- the translated `igo` (dimension check, which slice of the gradient is the y / x part, which slice of the output
gets sin / sin 2φ / cos / cos 2φ) is the model's `igoChecked` -/
theorem genIgoRaw_eq (mag : Rat → Rat → Rat) (nd : Nat) (dbl : Bool) (h w : Nat) (p : Px) (hr : Rect h w p)
    (hne : p ≠ []) : genIgoRaw mag nd p dbl = igoChecked mag dbl nd p := by
  unfold genIgoRaw igoChecked igo2
  by_cases h2 : nd = 2
  · subst h2
    simp only [genGradient_on_array false h w p hr hne]
    cases hg : gradient2 false p with
    | error e => cases dbl <;> simp [Except.bind]
    | ok g =>
      have := gradient2_ok_append p g hg
      subst this
      cases dbl <;>
        simp [Except.bind, take_map_append, drop_map_append, angleC, absC, shape3, sinA_angleOf, cosA_angleOf, sinA_dbl, cosA_dbl,
          zipWith_map_map, setSlice_zero, setSliceFrom_zero, setSliceFrom_skip0, setSliceFrom_skip, setSlice_skip0,
          setSlice_skip, Nat.mul_two, mul_three, mul_four, replicate_blocks, drop_block, drop_whole, -List.replicate_append_replicate]
  · have : (nd + 1 != 3) = true := by simp; omega
    simp [this, h2]

theorem genIgo_eq (mag : Rat → Rat → Rat) (nd : Nat) (dbl : Bool) (h w : Nat) (x : Arg Px) (hr : Rect h w x.px)
    (hne : x.px ≠ []) : genIgo mag nd dbl x = ndfeature sh2 (igoChecked mag dbl nd) x := by
  cases x with
  | arr p => simp only [genIgo, genNdfeature_eq, ndfeature, genIgoRaw_eq mag nd dbl h w p hr hne]
  | img im => simp only [genIgo, genNdfeature_eq, ndfeature, genIgoRaw_eq mag nd dbl h w im.pixels hr hne]

/-- `double_igo = partial_doc(igo, double_angles=True)` -/
theorem genDoubleIgo_eq (mag : Rat → Rat → Rat) (nd : Nat) (x : Arg Px) : genDoubleIgo mag nd x = genIgo mag nd true x := by
  simp [genDoubleIgo]

theorem genEsRaw_eq (mag : Rat → Rat → Rat) (nd : Nat) (h w : Nat) (p : Px) (hr : Rect h w p)
    (hne : p ≠ []) : genEsRaw mag nd p = esChecked mag nd p := by
  unfold genEsRaw esChecked es2
  by_cases h2 : nd = 2
  · subst h2
    simp only [genGradient_on_array false h w p hr hne]
    cases hg : gradient2 false p with
    | error e => simp [Except.bind]
    | ok g =>
      have := gradient2_ok_append p g hg
      subst this
      simp [Except.bind, take_map_append, drop_map_append, angleC, absC, shape3, absOf, addScalar, medianPx, divPx, omap2, map2,
        zipWith_map_map, zipWith_left_zipWith, zipWith_right_zipWith,
        setSlice_zero, setSliceFrom_zero, setSliceFrom_skip0, setSliceFrom_skip, setSlice_skip0, setSlice_skip,
        Nat.mul_two, mul_three, mul_four, replicate_blocks, drop_block, drop_whole, -List.replicate_append_replicate]
  · have : (nd + 1 != 3) = true := by simp; omega
    simp [this, h2]

theorem genSumChannelsRaw_eq (p : Px) (ch : Option (List Nat)) : genSumChannelsRaw p ch = sumChannels2 ch p := by
  cases ch <;> simp [genSumChannelsRaw, sumChannels2]

theorem genSumChannels_eq (ch : Option (List Nat)) (x : Arg Px) :
    genSumChannels ch x = ndfeature sh2 (sumChannels2 ch) x := by
  simp only [genSumChannels, genNdfeature_eq]
  congr 1; funext p; exact genSumChannelsRaw_eq p ch

/-! ## daisy: the option plumbing up to the call of `_daisy` -/

theorem genDaisyRaw_eq (lib : Px → DaisyCall → Except Err Px) (p : Px) (step : Nat) (radius : Rat) (rings : Int)
    (hi ori : Nat) (nz : Option DaisyNorm) (sig rr : Option (List Rat)) :
    genDaisyRaw lib p step radius rings hi ori nz sig rr = daisyRaw lib p step radius rings hi ori nz sig rr := by
  unfold genDaisyRaw daisyRaw daisyPlumb
  rcases nz with _ | (_ | _ | _ | _ | _) <;> rcases sig with _ | s <;> rcases rr with _ | r <;>
    simp [optLen, optLastE, daisyLayout, bind_ok', bind_error', bind_ok_id] <;>
    (try split) <;> (try cases r.getLast?) <;> simp [bind_ok', bind_error', bind_ok_id]

theorem genDaisy_eq (lib : Px → DaisyCall → Except Err Px) (step : Nat) (radius : Rat) (rings : Int)
    (hi ori : Nat) (nz : Option DaisyNorm) (sig rr : Option (List Rat)) (x : Arg Px) :
    genDaisy lib step radius rings hi ori nz sig rr x
      = ndfeature sh2 (fun p => daisyRaw lib p step radius rings hi ori nz sig rr) x := by
  simp only [genDaisy, genNdfeature_eq]
  congr 1; funext p; exact genDaisyRaw_eq lib p step radius rings hi ori nz sig rr

/-! ## which decorator every feature carries -/

/-- the decorators read off the source: the normalisers built on `normalize` are `@ndfeature`s, `normalize` itself is
the only `@imgfeature` -/
def expectedDecorators : List (String × String) :=
  [("gradient", "ndfeature"), ("gaussian_filter", "ndfeature"), ("igo", "ndfeature"), ("es", "ndfeature"),
   ("daisy", "ndfeature"), ("normalize", "imgfeature"), ("normalize_norm", "ndfeature"),
   ("normalize_std", "ndfeature"), ("normalize_var", "ndfeature"), ("no_op", "ndfeature"),
   ("sum_channels", "ndfeature")]

theorem genDecorators_ok : genDecorators = expectedDecorators := by decide

/-- the default options: everything is computed over the whole image and a zero scale is refused unless skipping is
asked for; IGO without double angles; DAISY with step 1, radius 15, two rings, two histograms, eight orientations, l1 -/
def expectedDefaults : List (String × String × String) :=
  [("igo", "double_angles", "False"), ("igo", "verbose", "False"), ("es", "verbose", "False"),
   ("daisy", "step", "1"), ("daisy", "radius", "15"), ("daisy", "rings", "2"), ("daisy", "histograms", "2"),
   ("daisy", "orientations", "8"), ("daisy", "normalization", "'l1'"), ("daisy", "sigmas", "None"),
   ("daisy", "ring_radii", "None"), ("daisy", "verbose", "False"),
   ("normalize", "scale_func", "None"), ("normalize", "mode", "'all'"), ("normalize", "error_on_divide_by_zero", "True"),
   ("normalize_norm", "mode", "'all'"), ("normalize_norm", "error_on_divide_by_zero", "True"),
   ("normalize_std", "mode", "'all'"), ("normalize_std", "error_on_divide_by_zero", "True"),
   ("normalize_var", "mode", "'all'"), ("normalize_var", "error_on_divide_by_zero", "True"),
   ("sum_channels", "channels", "None")]

theorem genDefaults_ok : genDefaults = expectedDefaults := by decide

end MenpoModel.GenProps.C18Src
