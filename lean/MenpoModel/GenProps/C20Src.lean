/-
C20 — obligations over the TRANSLATED source (`Generated/C20Src.lean`, rewritten by harness/trans_c20.py on every
`./check C20` from the source text of the current working tree): every translated function equals, for ALL arguments,
the Core definition the C20 theorems are about.

  genInitFrom2dCcwAngle / genInitFrom3dCcwAngleAroundX|Y|Z      = rot2 / rot3x / rot3y / rot3z at (cos, sin) of the angle the
                                                                  argument DENOTES under the `degrees` flag
  genInitFrom2dShear                                            = shear2 at the tangents of the denoted angles
  genTransformAboutCentre                                       = aboutCentre2 / aboutCentre3 (one matrix, class by the ladder);
                                                                  ValueError across dimensions; the chain fall-back
  genScaleAboutCentre / genRotateCcwAboutCentre / genShearAboutCentre
                                                                = scaleAboutCentre / rotateCcwAboutCentre / shearAboutCentre
  genScale                                                      = scaleFactoryFixed   (every argument shape, n_dims included)
  genTcoordsToImageCoords / genImageCoordsToTcoords             = tcoordsToImageShape / imageToTcoordsShape
  genPointCloudCentre / …Bounds / …CentreOfBounds / genImageCentre = centreOfMass / centreOfBounds2 / half the shape
  genDefaults                                                   = the documented defaults (degrees=True, n_dims=None, boundary=0)

The proofs split on what the MODEL distinguishes (dimension of the object, kind of the transform, the `degrees` flag,
zero / equal factors) and then simplify with the vocabulary of `Core/C20Src.lean`, so a harmless rewrite of the Python
(renamed temporary, reordered independent statements, inverted test with swapped arms) keeps them, while a changed
decision (dropped `deg2rad`, swapped translation, another matrix cell, a dropped guard, another default) breaks them.
-/
import MenpoModel.Generated.C20Src
import Mathlib.Algebra.Ring.Rat
import Mathlib.Tactic.Ring

set_option linter.unusedSimpArgs false
set_option linter.unnecessarySeqFocus false

namespace MenpoModel.GenProps.C20
open MenpoModel.C20 MenpoModel.Generated.C20

/-! ### the vocabulary's algebra (about Core only) -/

theorem lin3_one_mul (m : Lin3) : Lin3.one.mul m = m := by
  ext <;> simp [Lin3.mul, Lin3.one, V3.dot, Lin3.col0, Lin3.col1, Lin3.col2]
theorem lin3_mul_one (m : Lin3) : m.mul Lin3.one = m := by
  ext <;> simp [Lin3.mul, Lin3.one, V3.dot, Lin3.col0, Lin3.col1, Lin3.col2]
theorem lin3_one_apply (v : V3) : Lin3.one.apply v = v := by
  ext <;> simp [Lin3.apply, Lin3.one, V3.dot]

/-- translate to the origin, transform, translate back: the 3-D closed form of the model -/
theorem about3_as_composition (ctr : V3) (m : Aff3) :
    (transl3 ctr).comp (m.comp (transl3 ctr.neg)) = aboutCentre3 ctr m := by
  simp only [Aff3.comp, transl3, aboutCentre3, lin3_one_mul, lin3_mul_one, lin3_one_apply]

theorem except_bind_ok {ε α β} (a : α) (f : α → Except ε β) : (Except.ok a : Except ε α).bind f = f a := rfl
theorem except_bind_error {ε α β} (e : ε) (f : α → Except ε β) : (Except.error e : Except ε α).bind f = .error e := rfl
theorem except_map_ok {ε α β} (a : α) (f : α → β) : (Except.ok a : Except ε α).map f = .ok (f a) := rfl
theorem except_map_error {ε α β} (e : ε) (f : α → β) : (Except.error e : Except ε α).map f = .error e := rfl

/-- the class of `Translation ∘ T ∘ Translation` by the composition ladder is the model's `aboutCentreCls` -/
theorem ladder_about_centre (c : Cls) (hc : c.isHomog = true) :
    composeCls (composeCls .translation c) .translation = aboutCentreCls c := by
  cases c <;> first | decide | exact absurd hc (by decide)

/-! ### rotation.py — the angle constructors -/

theorem genInitFrom2dCcwAngle_eq (theta : Ang) (degrees : Bool) :
    genInitFrom2dCcwAngle theta degrees =
      .ok (.homog .rotation (.a2 (rot2 (theta.denoted degrees).cos (theta.denoted degrees).sin))) := by
  cases degrees <;> rfl

theorem genInitFrom3dCcwAngleAroundX_eq (theta : Ang) (degrees : Bool) :
    genInitFrom3dCcwAngleAroundX theta degrees =
      .ok (.homog .rotation (.a3 ⟨rot3x (theta.denoted degrees).cos (theta.denoted degrees).sin, ⟨0, 0, 0⟩⟩)) := by
  cases degrees <;> rfl

theorem genInitFrom3dCcwAngleAroundY_eq (theta : Ang) (degrees : Bool) :
    genInitFrom3dCcwAngleAroundY theta degrees =
      .ok (.homog .rotation (.a3 ⟨rot3y (theta.denoted degrees).cos (theta.denoted degrees).sin, ⟨0, 0, 0⟩⟩)) := by
  cases degrees <;> rfl

theorem genInitFrom3dCcwAngleAroundZ_eq (theta : Ang) (degrees : Bool) :
    genInitFrom3dCcwAngleAroundZ theta degrees =
      .ok (.homog .rotation (.a3 ⟨rot3z (theta.denoted degrees).cos (theta.denoted degrees).sin, ⟨0, 0, 0⟩⟩)) := by
  cases degrees <;> rfl

/-! ### affine.py — the shear constructor -/

theorem genInitFrom2dShear_eq (cls : Cls) (phi psi : Ang) (degrees : Bool) :
    genInitFrom2dShear cls phi psi degrees =
      .ok (.homog cls (.a2 (shear2 (phi.denoted degrees).tan (psi.denoted degrees).tan))) := by
  cases degrees <;>
    simp [genInitFrom2dShear, Tr.ofHRows, affOfHRows, eyeRows, Rows.set, List.range, List.range.loop, Ang.denoted, shear2]

/-! ### compositions.py -/

theorem genTransformAboutCentre_2d (o : Obj2) (c : Cls) (m : Aff2) (hc : c.isHomog = true) :
    genTransformAboutCentre (.d2 o) (.homog c (.a2 m)) = .ok (.homog (aboutCentreCls c) (.a2 (aboutCentre2 o.centre m))) := by
  simp [genTransformAboutCentre, Tr.isHomogeneous, Tr.translation, Obj.centreD, Tr.composeBefore, AffD.comp,
    except_bind_ok, ladder_about_centre c hc, aboutCentre2, Neg.neg, VD.neg]

theorem genTransformAboutCentre_3d (o : Obj3) (c : Cls) (m : Aff3) (hc : c.isHomog = true) :
    genTransformAboutCentre (.d3 o) (.homog c (.a3 m)) = .ok (.homog (aboutCentreCls c) (.a3 (aboutCentre3 o.centre m))) := by
  simp [genTransformAboutCentre, Tr.isHomogeneous, Tr.translation, Obj.centreD, Tr.composeBefore, AffD.comp,
    except_bind_ok, ladder_about_centre c hc, about3_as_composition, Neg.neg, VD.neg]

/-- a transform of the other dimension is refused (numpy's matrix product) -/
theorem genTransformAboutCentre_mismatch (o2 : Obj2) (o3 : Obj3) (c : Cls) (m2 : Aff2) (m3 : Aff3) :
    genTransformAboutCentre (.d2 o2) (.homog c (.a3 m3)) = .error .valueError ∧
    genTransformAboutCentre (.d3 o3) (.homog c (.a2 m2)) = .error .valueError := by
  constructor <;>
    simp [genTransformAboutCentre, Tr.isHomogeneous, Tr.translation, Obj.centreD, Tr.composeBefore, AffD.comp,
      except_bind_error, Neg.neg, VD.neg]

/-- the fall-back for a transform that is not `Homogeneous`: the chain `[Translation(−c), transform, Translation(c)]` -/
theorem genTransformAboutCentre_chain (obj : Obj) (t : Tr) (ht : t.isHomogeneous = false) :
    genTransformAboutCentre obj t =
      .ok (.chain ((Tr.translation (-obj.centreD)).leaves ++ t.leaves ++ (Tr.translation obj.centreD).leaves)) := by
  cases t with
  | homog c m => cases ht
  | other i => cases obj <;> simp [genTransformAboutCentre, Tr.isHomogeneous, pyReduceM, Tr.composeBefore, Tr.leaves,
      Tr.translation, Obj.centreD, Neg.neg, VD.neg, List.foldlM, bind, Except.bind, pure, Except.pure]
  | chain ts => cases obj <;> simp [genTransformAboutCentre, Tr.isHomogeneous, pyReduceM, Tr.composeBefore, Tr.leaves,
      Tr.translation, Obj.centreD, Neg.neg, VD.neg, List.foldlM, bind, Except.bind, pure, Except.pure]

theorem genScaleAboutCentre_scalar (obj : Obj) (k : Rat) :
    genScaleAboutCentre obj (.scalar k) = .ok (.homog .similarity (scaleAboutCentre obj k)) := by
  cases obj with
  | d2 o =>
    have e : Tr.uniformScaleSkip (.scalar k) (Obj.d2 o).nDims = .ok (.homog .uniformScale (.a2 (uscale2 k))) := by
      simp [Tr.uniformScaleSkip, Obj.nDims, fillDiagonal, List.range, List.range.loop, scale2, uscale2]
    simp only [genScaleAboutCentre, e, except_bind_ok, genTransformAboutCentre_2d o .uniformScale _ rfl, scaleAboutCentre]; rfl
  | d3 o =>
    have e : Tr.uniformScaleSkip (.scalar k) (Obj.d3 o).nDims = .ok (.homog .uniformScale (.a3 (uscale3 k))) := by
      simp [Tr.uniformScaleSkip, Obj.nDims, fillDiagonal, List.range, List.range.loop, scale3, uscale3]
    simp only [genScaleAboutCentre, e, except_bind_ok, genTransformAboutCentre_3d o .uniformScale _ rfl, scaleAboutCentre]; rfl

theorem genScaleAboutCentre_array2 (o : Obj2) (kx ky : Rat) :
    genScaleAboutCentre (.d2 o) (.array [kx, ky]) = .ok (.homog .similarity (.a2 (scaleAboutCentreArr2 o kx ky))) := by
  have e : Tr.uniformScaleSkip (.array [kx, ky]) (Obj.d2 o).nDims = .ok (.homog .uniformScale (.a2 (scale2 kx ky))) := by
    simp [Tr.uniformScaleSkip, Obj.nDims, fillDiagonal, List.range, List.range.loop]
  simp only [genScaleAboutCentre, e, except_bind_ok, genTransformAboutCentre_2d o .uniformScale _ rfl, scaleAboutCentreArr2]; rfl

theorem genScaleAboutCentre_array3 (o : Obj3) (kx ky kz : Rat) :
    genScaleAboutCentre (.d3 o) (.array [kx, ky, kz]) =
      .ok (.homog .similarity (.a3 (aboutCentre3 o.centre (scale3 kx ky kz)))) := by
  have e : Tr.uniformScaleSkip (.array [kx, ky, kz]) (Obj.d3 o).nDims = .ok (.homog .uniformScale (.a3 (scale3 kx ky kz))) := by
    simp [Tr.uniformScaleSkip, Obj.nDims, fillDiagonal, List.range, List.range.loop]
  simp only [genScaleAboutCentre, e, except_bind_ok, genTransformAboutCentre_3d o .uniformScale _ rfl]; rfl

theorem genRotateCcwAboutCentre_eq (obj : Obj) (theta : Ang) (degrees : Bool) :
    genRotateCcwAboutCentre obj theta degrees =
      (rotateCcwAboutCentre obj (theta.denoted degrees).cos (theta.denoted degrees).sin).map
        (fun m => Tr.homog .similarity (.a2 m)) := by
  cases obj with
  | d2 o =>
    simp only [genRotateCcwAboutCentre, Obj.nDims, genInitFrom2dCcwAngle_eq, except_bind_ok,
      genTransformAboutCentre_2d o .rotation _ rfl, rotateCcwAboutCentre, except_map_ok]
    rfl
  | d3 o => simp [genRotateCcwAboutCentre, Obj.nDims, rotateCcwAboutCentre, except_map_error]

theorem genShearAboutCentre_eq (obj : Obj) (phi psi : Ang) (degrees : Bool) :
    genShearAboutCentre obj phi psi degrees =
      (shearAboutCentre obj (phi.denoted degrees).tan (psi.denoted degrees).tan).map
        (fun m => Tr.homog .affine (.a2 m)) := by
  cases obj with
  | d2 o =>
    simp only [genShearAboutCentre, Obj.nDims, genInitFrom2dShear_eq, except_bind_ok,
      genTransformAboutCentre_2d o .affine _ rfl, shearAboutCentre, except_map_ok]
    rfl
  | d3 o => simp [genShearAboutCentre, Obj.nDims, shearAboutCentre, except_map_error]

/-! ### scale.py — the factory, for every argument shape -/

theorem genScale_eq (arg : ScaleArg) (nDims : Option Nat) : genScale arg nDims = scaleFactoryFixed arg nDims := by
  cases arg with
  | scalar k =>
    cases nDims with
    | none => by_cases hk : k = 0 <;>
        simp [genScale, scaleFactoryFixed, scaleFactoryCoded, ScaleArg.isNumber, ScaleArg.allNonzero, ScaleArg.item0, hk,
          except_bind_error]
    | some n => by_cases hk : k = 0 <;>
        simp [genScale, scaleFactoryFixed, scaleFactoryCoded, ScaleArg.isNumber, ScaleArg.allNonzero, ScaleArg.ndim, hk,
          except_bind_ok, mkUniformScaleArg]
  | array ks =>
    cases hz : ks.any (· == 0) with
    | true => cases nDims <;> simp [genScale, scaleFactoryFixed, scaleFactoryCoded, ScaleArg.isNumber, ScaleArg.allNonzero, hz]
    | false =>
      cases ks with
      | nil => cases nDims <;>
          simp [genScale, scaleFactoryFixed, scaleFactoryCoded, ScaleArg.isNumber, ScaleArg.allNonzero, ScaleArg.item0,
            ScaleArg.ndim, except_bind_error]
      | cons k t =>
        cases hall : (k :: t).all (· == k) with
        | true =>
          cases nDims <;>
            simp only [genScale, scaleFactoryFixed, scaleFactoryCoded, ScaleArg.isNumber, ScaleArg.allNonzero, ScaleArg.item0,
              ScaleArg.ndim, ScaleArg.allClose, ScaleArg.shape0, except_bind_ok, mkUniformScaleArg, hz, hall,
              Bool.not_false, Bool.not_true, if_true, if_false, Bool.false_eq_true, Option.isNone, List.length_cons,
              Nat.succ_pos, gt_iff_lt, decide_true, Nat.zero_lt_one, Nat.lt_add_one, decide_eq_true_eq]
        | false =>
          cases nDims with
          | none =>
            simp only [genScale, scaleFactoryFixed, scaleFactoryCoded, ScaleArg.isNumber, ScaleArg.allNonzero, ScaleArg.item0,
              ScaleArg.ndim, ScaleArg.allClose, ScaleArg.shape0, except_bind_ok, mkNonUniformScaleArg, hz, hall,
              Bool.not_false, Bool.not_true, if_true, if_false, Bool.false_eq_true, Option.isNone]
          | some n =>
            by_cases hl : (k :: t).length = n <;>
              simp [genScale, scaleFactoryFixed, ScaleArg.isNumber, ScaleArg.allNonzero, ScaleArg.item0,
                ScaleArg.ndim, ScaleArg.allClose, ScaleArg.shape0, ScaleArg.shapeNe, except_bind_ok, mkNonUniformScaleArg,
                hz, hall, hl]

/-! ### tcoords.py -/

theorem composeCls_homogeneous_left (c : Cls) : composeCls .homogeneous c = .homogeneous := by
  cases c <;> decide

theorem composeCls_hh : composeCls .homogeneous .homogeneous = .homogeneous := by decide

theorem invertUnitY_rows :
    Tr.ofHRows .homogeneous ([[1, 0, 0], [0, -1, 1], [0, 0, 1]] : Rows) = .ok (.homog .homogeneous (.a2 invertUnitY)) := by
  simp [Tr.ofHRows, affOfHRows, invertUnitY]

theorem flipXY_rows :
    Tr.ofHRows .homogeneous ([[0, 1, 0], [1, 0, 0], [0, 0, 1]] : Rows) = .ok (.homog .homogeneous (.a2 flipXY)) := by
  simp [Tr.ofHRows, affOfHRows, flipXY]

/-- `tcoords_to_image_coords((h, w))` as the source says it now is the model's `tcoordsToImageShape h w`: the two literal
matrices, their order, the `shape − 1` scale through the factory (whose zero test is the `h, w ≥ 2` guard) -/
theorem genTcoordsToImageCoords_eq (h w : Nat) :
    genTcoordsToImageCoords [h, w] =
      match tcoordsToImageShape h w with
      | some m => .ok (.homog .homogeneous (.a2 m))
      | none => .error .valueError := by
  simp only [genTcoordsToImageCoords, invertUnitY_rows, flipXY_rows, except_bind_ok, genScale_eq, shapeMinusOne, List.map,
    tcoordsToImageShape]
  by_cases hz : ([(h : Rat) - 1, (w : Rat) - 1].any (· == 0)) = true
  · simp [scaleFactoryFixed, scaleFactoryCoded, hz, except_bind_error, Tr.composeBefore, AffD.comp, bind, Except.bind]
  · by_cases hall : ([(h : Rat) - 1, (w : Rat) - 1].all (· == (h : Rat) - 1)) = true
    · simp [scaleFactoryFixed, scaleFactoryCoded, hz, hall, except_bind_ok, Tr.composeBefore, AffD.comp, bind, Except.bind,
        mkUniformScale, fillDiagonal, List.range, List.range.loop, ScaleObj.toTr, ScaleObj.toAff2,
        composeCls_homogeneous_left, composeCls_hh, Cls.isHomog]
    · simp [scaleFactoryFixed, scaleFactoryCoded, hz, hall, except_bind_ok, Tr.composeBefore, AffD.comp, bind, Except.bind,
        mkNonUniformScale, ScaleObj.toTr, ScaleObj.toAff2, composeCls_homogeneous_left, composeCls_hh, Cls.isHomog]

/-- `image_coords_to_tcoords` is the pseudoinverse of the former (the model's adjugate inverse) -/
theorem genImageCoordsToTcoords_eq (h w : Nat) :
    genImageCoordsToTcoords [h, w] =
      match imageToTcoordsShape h w with
      | some m => .ok (.homog .homogeneous (.a2 m))
      | none => .error .valueError := by
  simp only [genImageCoordsToTcoords, genTcoordsToImageCoords_eq, imageToTcoordsShape]
  cases tcoordsToImageShape h w <;> simp [except_bind_ok, except_bind_error, Tr.pseudoinverse]

/-! ### the centres -/

/-- `PointCloud.centre()` is the mean of the points (the centre of mass), in both dimensions; this is what `Obj.centre`
of a point cloud or a mesh is in the model -/
theorem genPointCloudCentre_eq (ps2 : List V2) (ps3 : List V3) (tris : List (Nat × Nat × Nat)) :
    genPointCloudCentre (.p2 ps2) = .v2 (centreOfMass2 ps2) ∧ genPointCloudCentre (.p3 ps3) = .v3 (centreOfMass3 ps3) ∧
    genPointCloudCentre (.p2 ps2) = Obj.centreD (.d2 (.cloud ps2)) ∧
    genPointCloudCentre (.p2 ps2) = Obj.centreD (.d2 (.mesh ps2 tris)) ∧
    genPointCloudCentre (.p3 ps3) = Obj.centreD (.d3 (.cloud ps3)) ∧
    genPointCloudCentre (.p3 ps3) = Obj.centreD (.d3 (.mesh ps3 tris)) := ⟨rfl, rfl, rfl, rfl, rfl, rfl⟩

/-- `Image.centre()` is half the shape -/
theorem genImageCentre_eq (h w a b c : Nat) :
    genImageCentre [h, w] = .ok (Obj.centreD (.d2 (.image h w))) ∧
    genImageCentre [a, b, c] = .ok (Obj.centreD (.d3 (.image a b c))) := ⟨rfl, rfl⟩

theorem genPointCloudBounds_eq (ps : List V2) (b : Rat) :
    genPointCloudBounds (.p2 ps) b =
      (.v2 ⟨minOf 0 (ps.map (·.x)) - b, minOf 0 (ps.map (·.y)) - b⟩, .v2 ⟨maxOf 0 (ps.map (·.x)) + b, maxOf 0 (ps.map (·.y)) + b⟩) := by
  rfl

/-- `PointCloud.centre_of_bounds()` is the midpoint of the bounding box (default boundary 0) -/
theorem genPointCloudCentreOfBounds_eq (ps : List V2) :
    genPointCloudCentreOfBounds (.p2 ps) = .ok (.v2 (centreOfBounds2 ps)) := by
  simp [genPointCloudCentreOfBounds, genPointCloudBounds_eq, VD.add, except_map_ok, VD.half, V2.add, centreOfBounds2]

/-! ### rotation.py — axis and angle -/

/-- the dispatch on the dimension: 2-D, 3-D, nothing otherwise -/
theorem genAxisAndAngleOfRotation_eq {α : Type} (f2 f3 : Tr → α) (t : Tr) :
    genAxisAndAngleOfRotation f2 f3 t =
      if t.nDims = 2 then some (f2 t) else if t.nDims = 3 then some (f3 t) else none := by
  unfold genAxisAndAngleOfRotation
  by_cases h2 : t.nDims = 2 <;> by_cases h3 : t.nDims = 3 <;> simp [h2, h3]

/-- the 2-D recovery as the source says it: axis `(0, 0, 1)` and `arccos` of the first entry of the matrix — the cosine
of the model's `axisAngle2Coded`, never negated (this is the recorded finding: the sign is lost) -/
theorem genAxisAndAngle2d_eq (c : Cls) (r : Aff2) :
    genAxisAndAngle2d (.homog c (.a2 r)) = ([0, 0, 1], ⟨(axisAngle2Coded r).1, false⟩) := by
  simp [genAxisAndAngle2d, Tr.linRows, matVec, dotL, axisAngle2Coded]

/-- the 3-D recovery as the source says it is the mirror `axisAngle3Src` (decision on the eigenvalues, normalisation,
perpendicular from the random vector, arccos, sign by the triple product), for every oracle -/
theorem genAxisAndAngle3d_eq (eig : Rows → List EVal × List (List Rat)) (sqrt : Rat → Rat) (rand : List Rat) (t : Tr) :
    genAxisAndAngle3d eig sqrt rand t = axisAngle3Src eig sqrt rand t := by
  unfold genAxisAndAngle3d axisAngle3Src axisAngle3After axisCandidates unitTol PyMask.sel instPyMaskListEVal
  simp only []
  split <;> (try rfl) <;> split <;> simp_all

/-! ### rotation.py — quaternions -/

theorem genAsVector_eq (eigh : Rows → List Rat × Rows) (c : Cls) (m3 : Aff3) (m2 : Aff2) :
    genAsVector eigh (.homog c (.a3 m3)) = .ok (asVectorSrc eigh m3.l) ∧
    genAsVector eigh (.homog c (.a2 m2)) = .error .notImplementedError := by
  constructor
  · simp only [genAsVector, Tr.nDims, AffD.nDims, asVectorSrc, quatKLower, Tr.hGet, Tr.hRows, Rows.get]
    simp
    split <;> simp_all
  · simp [genAsVector, Tr.nDims, AffD.nDims]

/-- `_from_vector_inplace` on a 3-D rotation: the matrix of the quaternion `(w, x, y, z)` is the model's `quatToLin`
(each cell: which products of which components), the translation is kept; a (numerically) zero quaternion leaves the
object as it is -/
theorem genFromVectorInplace_3d (eps4 : Rat) (c : Cls) (m : Aff3) (w x y z : Rat) :
    genFromVectorInplace eps4 (.homog c (.a3 m)) [w, x, y, z] =
      if w * w + x * x + y * y + z * z < eps4 then .ok (.homog c (.a3 m))
      else .ok (.homog c (.a3 ⟨quatToLin w x y z, m.t⟩)) := by
  have hn : dotL [w, x, y, z] [w, x, y, z] = w * w + x * x + y * y + z * z := by simp [dotL]; ring
  simp only [genFromVectorInplace, Tr.nDims, AffD.nDims, hn]
  by_cases h : w * w + x * x + y * y + z * z < eps4
  · simp [h]
  · simp only [h]
    simp [SqrtVec.outer, Rows.get, Tr.setRotationSkip, linOfRows, except_bind_ok, quatToLin]
    refine ⟨⟨?_, ?_, ?_⟩, ⟨?_, ?_, ?_⟩, ⟨?_, ?_, ?_⟩⟩ <;> ring

theorem genFromVectorInplace_refusals (eps4 : Rat) (c : Cls) (m3 : Aff3) (m2 : Aff2) (p : List Rat) :
    (p.length ≠ 4 → genFromVectorInplace eps4 (.homog c (.a3 m3)) p = .error .valueError) ∧
    genFromVectorInplace eps4 (.homog c (.a2 m2)) p = .error .notImplementedError := by
  constructor
  · intro h; simp [genFromVectorInplace, Tr.nDims, AffD.nDims, h]
  · simp [genFromVectorInplace, Tr.nDims, AffD.nDims]

/-- `from_vector` = copy, then `_from_vector_inplace` -/
theorem genFromVector_eq (eps4 : Rat) (t : Tr) (v : List Rat) :
    genFromVector eps4 t v = genFromVectorInplace eps4 t v := by
  unfold genFromVector
  cases h : genFromVectorInplace eps4 t v <;> simp [h, except_bind_ok, except_bind_error]

/-- `Rotation.init_3d_from_quaternion(q)`: the identity brought to `q` -/
theorem genInit3dFromQuaternion_eq (eps4 : Rat) (w x y z : Rat) (h : ¬ w * w + x * x + y * y + z * z < eps4) :
    genInit3dFromQuaternion eps4 .rotation [w, x, y, z] =
      .ok (.homog .rotation (.a3 ⟨quatToLin w x y z, ⟨0, 0, 0⟩⟩)) := by
  have e : identityTr .rotation 3 = .ok (.homog .rotation (.a3 ⟨Lin3.one, ⟨0, 0, 0⟩⟩)) := by decide
  simp only [genInit3dFromQuaternion, e, except_bind_ok, genFromVector_eq, genFromVectorInplace_3d, h, if_false]

/-! ### constructors and `init_identity`

The seven `init_identity` classmethods, through the constructors they call (`Homogeneous / Affine / Similarity /
Translation / Rotation / UniformScale / NonUniformScale.__init__`, `Homogeneous / Affine._set_h_matrix` by method
resolution, `Rotation.set_rotation_matrix`), with the defaults of `copy` / `skip_checks` read from the source: the class
and the dimension of the result, or the ValueError of a 2-D/3-D guard, are the model's `initIdentity`. -/

/-- the summary of what the model's `initIdentity` returns, with the dimension as a Python integer -/
def identSummary (k : Cls) (n : Nat) : Except Err (Cls × Int) := (initIdentity k n).map fun p => (p.1, (p.2 : Int))

macro "ident_unfold" : tactic => `(tactic|
  simp only [genHomogeneousInitIdentity, genAffineInitIdentity, genSimilarityInitIdentity, genTranslationInitIdentity,
    genRotationInitIdentity, genUniformScaleInitIdentity, genNonUniformScaleInitIdentity, genHomogeneousInit, genAffineInit,
    genSimilarityInit, genTranslationInit, genRotationInit, genRotationSetRotationMatrix, genUniformScaleInit,
    genNonUniformScaleInit, genHomogeneousSetH, genAffineSetH, setHDispatch, Cls.setHIsAffine, HState.new, HState.clearH,
    HState.withH, ArrV.eye, ArrV.shape, ArrV.size, ArrV.bottomZeros, ArrV.cornerOne, HState.summary, HState.nDimsI, identSummary,
    initIdentity, Cls.guards23, except_bind_ok, except_bind_error, except_map_ok, except_map_error])

/-- the checks of `Affine._set_h_matrix` on a fresh object (`skip_checks=False`), each of them: a square matrix of a
2-D/3-D transform whose bottom row is zeros AND whose corner entry is one -/
theorem genAffineSetH_checks (cls : Cls) (r c : Int) (bz co copy : Bool) :
    genAffineSetH ⟨cls, none⟩ (.mat r c bz co) copy false =
      if r = c ∧ (r - 1 = 2 ∨ r - 1 = 3) ∧ bz = true ∧ co = true then .ok ⟨cls, some (.mat r c bz co)⟩
      else .error .valueError := by
  simp only [genAffineSetH, ArrV.shape, ArrV.bottomZeros, ArrV.cornerOne, HState.withH]
  by_cases h1 : r = c <;> by_cases h2 : r - 1 = 2 <;> by_cases h3 : r - 1 = 3 <;>
    cases bz <;> cases co <;> cases copy <;> simp_all

theorem genHomogeneousInitIdentity_eq (n : Nat) :
    (genHomogeneousInitIdentity (n : Int)).map HState.summary = identSummary .homogeneous n := by
  ident_unfold; simp [except_bind_ok, except_map_ok, HState.summary, HState.nDimsI, ArrV.shape]

theorem genAffineInitIdentity_eq (n : Nat) :
    (genAffineInitIdentity (n : Int)).map HState.summary = identSummary .affine n := by
  ident_unfold; simp [except_bind_ok, except_map_ok, HState.summary, HState.nDimsI, ArrV.shape]

theorem genSimilarityInitIdentity_eq (n : Nat) :
    (genSimilarityInitIdentity (n : Int)).map HState.summary = identSummary .similarity n := by
  ident_unfold; simp [except_bind_ok, except_map_ok, HState.summary, HState.nDimsI, ArrV.shape]

theorem genRotationInitIdentity_eq (n : Nat) :
    (genRotationInitIdentity (n : Int)).map HState.summary = identSummary .rotation n := by
  ident_unfold; simp [except_bind_ok, except_map_ok, HState.summary, HState.nDimsI, ArrV.shape]

theorem genTranslationInitIdentity_eq (n : Nat) :
    (genTranslationInitIdentity (n : Int)).map HState.summary = identSummary .translation n := by
  ident_unfold
  rcases n with _ | _ | _ | _ | n <;>
    simp [except_bind_ok, except_map_ok, except_bind_error, except_map_error, HState.summary, HState.nDimsI, ArrV.shape] <;>
    (try split) <;> (try simp_all [except_bind_ok, except_map_ok, except_bind_error, except_map_error]) <;> (try omega)

theorem genUniformScaleInitIdentity_eq (n : Nat) :
    (genUniformScaleInitIdentity (n : Int)).map HState.summary = identSummary .uniformScale n := by
  ident_unfold
  rcases n with _ | _ | _ | _ | n <;>
    simp [except_bind_ok, except_map_ok, except_bind_error, except_map_error, HState.summary, HState.nDimsI, ArrV.shape] <;>
    (try split) <;> (try simp_all [except_bind_ok, except_map_ok, except_bind_error, except_map_error]) <;> (try omega)

theorem genNonUniformScaleInitIdentity_eq (n : Nat) :
    (genNonUniformScaleInitIdentity (n : Int)).map HState.summary = identSummary .nonUniformScale n := by
  ident_unfold
  rcases n with _ | _ | _ | _ | n <;>
    simp [except_bind_ok, except_map_ok, except_bind_error, except_map_error, HState.summary, HState.nDimsI, ArrV.shape] <;>
    (try split) <;> (try simp_all [except_bind_ok, except_map_ok, except_bind_error, except_map_error]) <;> (try omega)

/-! ### defaults of the option parameters -/

theorem genDefaults_eq : genDefaults = expectedDefaults := by decide

end MenpoModel.GenProps.C20
