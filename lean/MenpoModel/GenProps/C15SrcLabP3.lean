/- Obligations over the SOURCE-TEXT translation of the labelling functions (written by harness/trans_c15.py):
     probe_ on the index-encoding probe the translated source returns what the table PROBED from the live function says
            (`decide +kernel`): two independent extractions agree. -/
import MenpoModel.Generated.C15SrcLab
import MenpoModel.Generated.C15Labellers
import MenpoModel.Props.C15SrcLab

set_option linter.unusedSimpArgs false
set_option linter.unusedVariables false
set_option maxRecDepth 8192

namespace MenpoModel.C15.GenProps.SrcLab
open MenpoModel.C15 MenpoModel.C15.Src MenpoModel.C15.SrcGen

theorem probe_face_bu3dfe_83_to_face_bu3dfe_83 : probeOK SrcLab.face_bu3dfe_83_to_face_bu3dfe_83 Generated.f_face_bu3dfe_83_to_face_bu3dfe_83 = true := by decide +kernel

theorem probe_face_ibug_68_to_face_ibug_65 : probeOK SrcLab.face_ibug_68_to_face_ibug_65 Generated.f_face_ibug_68_to_face_ibug_65 = true := by decide +kernel

theorem probe_hand_ibug_39_to_hand_ibug_39 : probeOK SrcLab.hand_ibug_39_to_hand_ibug_39 Generated.f_hand_ibug_39_to_hand_ibug_39 = true := by decide +kernel

theorem probe_face_lfpw_29_to_face_lfpw_29 : probeOK SrcLab.face_lfpw_29_to_face_lfpw_29 Generated.f_face_lfpw_29_to_face_lfpw_29 = true := by decide +kernel

theorem probe_pose_lsp_14_to_pose_lsp_14 : probeOK SrcLab.pose_lsp_14_to_pose_lsp_14 Generated.f_pose_lsp_14_to_pose_lsp_14 = true := by decide +kernel

theorem probe_car_streetscene_20_to_car_streetscene_view_7_8 : probeOK SrcLab.car_streetscene_20_to_car_streetscene_view_7_8 Generated.f_car_streetscene_20_to_car_streetscene_view_7_8 = true := by decide +kernel

end MenpoModel.C15.GenProps.SrcLab
