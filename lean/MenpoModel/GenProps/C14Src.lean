/-
C14 — obligations over the TRANSLATED source of menpo/shape/graph.py (harness/trans_c14.py, harness/py2lean2w.py).

`Generated/C14Src.lean` is rewritten from the source text of the current working tree by every `./check C14`.
Every theorem `gen…_eq` below says that what the source says now is, for all arguments, the Core definition the C14
property theorems are about.  The proofs do not depend on the shape of the translated term: straight-line code is
unfolded, case split on every `if` / `match`, then `simp_all` / `omega`; loops are handled by lemmas about an
abstract loop body with pointwise hypotheses (`Lemmas/C14SrcLoops.lean`), so that a harmless rewrite of the Python
(renamed temporaries, reordered independent statements, inverted tests with swapped arms) keeps them, while a
changed decision, a swapped argument or an off-by-one breaks them.
-/
import MenpoModel.Generated.C14Src
import MenpoModel.Lemmas.C14SrcLoops
import MenpoModel.Lemmas.C14Prune

set_option linter.unusedSimpArgs false
set_option linter.unusedVariables false

namespace MenpoModel.GenProps.C14
open MenpoModel.C14 MenpoModel.C14.Src MenpoModel.Generated.C14 MenpoModel.C14.SrcL

/-! ### guards and plain queries -/

theorem genCheckVertex_eq (g : Graph) (v : Nat) :
    genCheckVertex g v = if g.checkVertex v then some () else none := by
  by_cases h : v < g.n <;> simp [genCheckVertex, Graph.checkVertex, h] <;> omega

theorem genCheckVertexI_eq (g : Graph) (v : Int) :
    genCheckVertexI g v = if g.checkVertexI v then some () else none := by
  by_cases h1 : 0 ≤ v <;> by_cases h2 : v < (g.n : Int) <;> simp [genCheckVertexI, Graph.checkVertexI, h1, h2] <;> omega

theorem genCheckVertex_isSome (g : Graph) (v : Nat) : (genCheckVertex g v).isSome = g.checkVertex v := by
  rw [genCheckVertex_eq]; by_cases h : g.checkVertex v = true <;> simp [h]

theorem genIsEdge_eq (g : Graph) (u v : Nat) (skip : Bool) : genIsEdge g u v skip = g.isEdgeApi u v skip := by
  cases skip <;> by_cases hu : g.checkVertex u = true <;> by_cases hv : g.checkVertex v = true <;>
    simp [genIsEdge, Graph.isEdgeApi, Graph.guard, genCheckVertex_isSome, Graph.isEdge, hu, hv]

theorem genNeighbours_eq (g : Graph) (v : Nat) (skip : Bool) : genNeighbours g v skip = g.rowApi v skip := by
  cases skip <;> by_cases hv : g.checkVertex v = true <;>
    simp [genNeighbours, Graph.rowApi, Graph.guard, genCheckVertex_isSome, hv]

theorem genChildren_eq (g : Graph) (v : Nat) (skip : Bool) : genChildren g v skip = g.rowApi v skip := by
  cases skip <;> by_cases hv : g.checkVertex v = true <;>
    simp [genChildren, Graph.rowApi, Graph.guard, genCheckVertex_isSome, hv]

theorem genParents_eq (g : Graph) (v : Nat) (skip : Bool) : genParents g v skip = g.colApi v skip := by
  cases skip <;> by_cases hv : g.checkVertex v = true <;>
    simp [genParents, Graph.colApi, Graph.guard, genCheckVertex_isSome, hv]

theorem genNNeighbours_eq (g : Graph) (v : Nat) (skip : Bool) :
    genNNeighbours g v skip = (g.rowApi v skip).map List.length := by
  simp only [genNNeighbours, genNeighbours_eq]
  cases g.rowApi v skip <;> simp

theorem genNChildren_eq (g : Graph) (v : Nat) (skip : Bool) :
    genNChildren g v skip = (g.rowApi v skip).map List.length := by
  simp only [genNChildren, genChildren_eq]
  cases g.rowApi v skip <;> simp

theorem genNParents_eq (g : Graph) (v : Nat) (skip : Bool) :
    genNParents g v skip = (g.colApi v skip).map List.length := by
  simp only [genNParents, genParents_eq]
  cases g.colApi v skip <;> simp

theorem zip_map_fst_snd {α β : Type} (l : List (α × β)) : List.zip (l.map (·.1)) (l.map (·.2)) = l := by
  induction l with
  | nil => rfl
  | cons a l ih => simp [ih]

theorem genEdgesD_eq (g : Graph) : genEdgesD g = g.edgesD := by
  simp only [genEdgesD, Graph.nz, zip_map_fst_snd]

theorem triu_row (g : Graph) (i : Nat) : g.triu.row i = (g.row i).filter fun j => decide (i ≤ j) := by
  simp only [Graph.row, Graph.triu, List.filter_filter]
  apply List.filter_congr
  intro j _
  by_cases h : i ≤ j <;> simp [h]

theorem genEdgesU_eq (g : Graph) : genEdgesU g = g.edgesU := by
  simp only [genEdgesU, Graph.nz, zip_map_fst_snd, Graph.edgesD, Graph.edgesU, triu_row]
  rfl

theorem genEdges_eq (g : Graph) (d : Bool) : genEdges g d = g.edges d := by
  simp only [genEdges, Graph.edges, genEdgesD_eq, genEdgesU_eq]

theorem genNEdges_eq (g : Graph) (d : Bool) : genNEdges g d = (g.edges d).length := by
  simp only [genNEdges, genEdges_eq, shape0_list]

/-! ### isolated vertices -/

theorem nz1_contains (g : Graph) (x : Nat) (hx : x < g.n) : (g.nz).1.contains x = !(g.row x).isEmpty := by
  rw [Bool.eq_iff_iff]
  simp only [Graph.nz, List.contains_iff_mem, List.mem_map, Prod.exists, mem_edgesD, Bool.not_eq_true',
    List.isEmpty_eq_false_iff_exists_mem, mem_row]
  constructor
  · rintro ⟨a, b, ⟨_, hb, he⟩, rfl⟩; exact ⟨b, hb, he⟩
  · rintro ⟨b, hb, he⟩; exact ⟨x, b, ⟨hx, hb, he⟩, rfl⟩

theorem nz2_contains (g : Graph) (x : Nat) (hx : x < g.n) : (g.nz).2.contains x = !(g.col x).isEmpty := by
  rw [Bool.eq_iff_iff]
  simp only [Graph.nz, List.contains_iff_mem, List.mem_map, Prod.exists, mem_edgesD, Bool.not_eq_true',
    List.isEmpty_eq_false_iff_exists_mem, mem_col]
  constructor
  · rintro ⟨a, b, ⟨ha, _, he⟩, rfl⟩; exact ⟨a, ha, he⟩
  · rintro ⟨a, ha, he⟩; exact ⟨a, x, ⟨ha, hx, he⟩, rfl⟩

theorem contains_filter (l : List Nat) (p : Nat → Bool) (x : Nat) :
    (l.filter p).contains x = (l.contains x && p x) := by
  rw [Bool.eq_iff_iff]; simp [List.mem_filter]

theorem contains_range (n x : Nat) : (List.range n).contains x = decide (x < n) := by
  rw [Bool.eq_iff_iff]; simp

theorem genIsolated_eq (g : Graph) : genIsolated g = g.isolated := by
  simp only [genIsolated, Graph.isolated, shape0_graph, List.filter_filter, nz0_graph, nz1_graph]
  apply List.filter_congr
  intro x hx
  have hx' : x < g.n := List.mem_range.1 hx
  simp only [contains_filter, contains_range, hx', nz1_contains g x hx', nz2_contains g x hx', Bool.not_not,
    decide_true, Bool.true_and]
  cases (g.row x).isEmpty <;> cases (g.col x).isEmpty <;> rfl

theorem genIsolatedVertices_eq (g : Graph) : genIsolatedVertices g = g.isolated := by
  simp only [genIsolatedVertices, genIsolated_eq]

theorem genHasIsolatedVertices_eq (g : Graph) : genHasIsolatedVertices g = !g.isolated.isEmpty := by
  simp only [genHasIsolatedVertices, genIsolatedVertices_eq]
  cases g.isolated <;> simp

/-! ### adjacency list, predecessors list -/

theorem getD_map_fst (es : List (Nat × Nat)) (i : Nat) : (es.map (·.1)).getD i default = (es.getD i (0, 0)).1 := by
  simp only [List.getD_eq_getElem?_getD, List.getElem?_map]
  cases es[i]? <;> rfl

theorem getD_map_snd (es : List (Nat × Nat)) (i : Nat) : (es.map (·.2)).getD i default = (es.getD i (0, 0)).2 := by
  simp only [List.getD_eq_getElem?_getD, List.getElem?_map]
  cases es[i]? <;> rfl

/-- `zip(rows, cols)` of `A.nonzero()` is the row-major listing of the stored entries -/
theorem zip_nz (g : Graph) : List.zip g.nz.1 g.nz.2 = g.edgesD := by
  simp only [Graph.nz, zip_map_fst_snd]

theorem genGetAdjacencyList_eq (g : Graph) : genGetAdjacencyList g = g.adjacencyList := by
  simp only [genGetAdjacencyList, Py.forLoop_eq_foldl, zip_nz]
  first
    | (refine adjacency_fold g _ _ _ (by simp) (by simp [Graph.nz]) ?_
       intro acc i _
       simp only [pyGet, Graph.nz, getD_map_fst, getD_map_snd])
    | (refine adjacency_fold_list g _ _ (by simp) ?_
       intro acc e
       simp)

theorem genGetPredecessorsList_eq (g : Graph) : genGetPredecessorsList g = g.predList := by
  simp only [genGetPredecessorsList, Py.forLoop_eq_foldl, zip_nz]
  first
    | (refine predecessors_fold g _ _ _ (by simp) (by simp [Graph.nz]) ?_
       intro acc i _
       simp only [pyGet, Graph.nz, getD_map_fst, getD_map_snd])
    | (refine predecessors_fold_list g _ _ (by simp) ?_
       intro acc e
       simp)

/-! ### the cycle detector -/

abbrev DfsT := List Nat × List Nat × List (Nat × Nat) × List (Nat × Nat)

def toT (st : St) : DfsT := (st.entered, st.exited, st.treeEdges, st.backEdges)
def ofT (t : DfsT) : St := ⟨t.1, t.2.1, t.2.2.1, t.2.2.2⟩

/-- the body of the loop of `dfs` (Core), named -/
def coreStep (adjL : List (List Nat)) (directed : Bool) (fuel node : Nat) (st : St) (y : Nat) : St :=
  let st :=
    if !st.entered.contains y then { st with treeEdges := (y, node) :: st.treeEdges }
    else if (!directed && lookup st.treeEdges node != some y) || (directed && !st.exited.contains y)
      then { st with backEdges := (y, node) :: st.backEdges }
    else st
  dfs adjL directed fuel y st

theorem dfs_succ (adjL : List (List Nat)) (directed : Bool) (fuel node : Nat) (st : St) :
    dfs adjL directed (fuel + 1) node st =
      if st.entered.contains node then st else
        let st2 := (adjL.getD node []).foldl (coreStep adjL directed fuel node) { st with entered := node :: st.entered }
        { st2 with exited := node :: st2.exited } := rfl

theorem foldl_toT (f : DfsT → Nat → DfsT) (h : St → Nat → St) (hf : ∀ t y, f t y = toT (h (ofT t) y)) :
    ∀ (ys : List Nat) (t : DfsT), ys.foldl f t = toT (ys.foldl h (ofT t)) := by
  intro ys
  induction ys with
  | nil => intro t; rfl
  | cons y ys ih => intro t; simp only [List.foldl_cons, hf, ih]; rfl

theorem genDfs_eq (adjL : List (List Nat)) (directed : Bool) : ∀ (fuel node : Nat) (t : DfsT),
    genDfs adjL directed fuel node t =
      (toT (dfs adjL directed fuel node (ofT t)),
        ((dfs adjL directed fuel node (ofT t)).treeEdges, (dfs adjL directed fuel node (ofT t)).backEdges)) := by
  intro fuel
  induction fuel with
  | zero => intro node t; rfl
  | succ n ih =>
    intro node t
    obtain ⟨a, b, c, e⟩ := t
    rw [dfs_succ]
    by_cases hc : node ∈ a
    · simp [genDfs, ofT, toT, hc]
    · have hc' : a.contains node = false := by simpa using hc
      simp only [genDfs, Py.forLoop_eq_foldl, pyGet]
      simp only [hc', ofT, Bool.not_false, Bool.not_true, Bool.false_eq_true, if_true, if_false]
      rw [foldl_toT _ (coreStep adjL directed n node)]
      · rfl
      · intro t y
        obtain ⟨a', b', c', e'⟩ := t
        simp only [coreStep, ofT, ih]
        cases directed <;> by_cases h1 : y ∈ a' <;> by_cases h2 : y ∈ b' <;>
          by_cases h3 : lookup c' node = some y <;> simp [toT, h1, h2, h3]

/-- a search loop `for x in xs: if p(x): return True` -/
theorem foldl_search (f : Option Bool → Nat → Option Bool) (p : Nat → Bool) (h1 : ∀ v x, f (some v) x = some v)
    (h2 : ∀ x, f none x = if p x then some true else none) :
    ∀ xs : List Nat, xs.foldl f none = if xs.any p then some true else none := by
  have hs : ∀ (xs : List Nat) v, xs.foldl f (some v) = some v := by
    intro xs; induction xs with
    | nil => intro v; rfl
    | cons x xs ih => intro v; simp only [List.foldl_cons, h1, ih]
  intro xs
  induction xs with
  | nil => rfl
  | cons x xs ih =>
    simp only [List.foldl_cons, h2, List.any_cons]
    by_cases hp : p x = true
    · simp [hp, hs]
    · simp only [hp, Bool.false_eq_true, if_false, Bool.false_or]; exact ih

theorem genHasCycles_eq (adjL : List (List Nat)) (directed : Bool) :
    genHasCycles adjL directed = hasCyclesL adjL directed := by
  simp only [genHasCycles, Py.forLoop_eq_foldl, hasCyclesL]
  first
    | (rw [foldl_search _ (fun x => !(dfs adjL directed (2 * adjL.length + 2) x ⟨[], [], [], []⟩).backEdges.isEmpty)]
       · by_cases h : ((List.range adjL.length).any fun x =>
             !(dfs adjL directed (2 * adjL.length + 2) x ⟨[], [], [], []⟩).backEdges.isEmpty) = true <;> simp [h]
       · intro v x; simp
       · intro x
         by_cases h : (dfs adjL directed (2 * adjL.length + 2) x ⟨[], [], [], []⟩).backEdges.isEmpty = true <;>
           simp [genDfs_eq, ofT, h])
    | (simp [genDfs_eq, ofT])      -- the loop written as `any(... for x in range(n))`

/-! ### has_cycles, is_tree -/

theorem genHasCyclesM_eq (g : Graph) (d : Bool) : genHasCyclesM g d = g.hasCycles d := by
  simp only [genHasCyclesM, genGetAdjacencyList_eq, genHasCycles_eq, Graph.hasCycles]

/-- `n_edges == n_vertices - 1` over the integers (the empty graph: `0 == -1`) -/
theorem nedges_test (m n : Nat) : ((m : Int) == (n : Int) - 1) = (m + 1 == n) := by
  rw [Bool.eq_iff_iff]; simp only [beq_iff_eq]; omega

theorem nedges_test' (m n : Nat) : ((m : Int) != (n : Int) - 1) = !(m + 1 == n) := by
  rw [bne, nedges_test]

theorem genIsTree_eq (g : Graph) (d : Bool) : genIsTree g d = g.isTree d := by
  simp only [genIsTree, genHasCyclesM_eq, genNEdges_eq, Graph.isTree, Graph.isTreeCoded, nedges_test, nedges_test']
  all_goals (cases g.hasCycles d <;> cases ((g.edges d).length + 1 == g.n) <;> cases (g.nComponents == 1) <;> simp)

/-! ### simple paths -/

/-- `for x in xs: acc.append(x)` -/
theorem foldl_append_each {α : Type} (f : List α → α → List α) (hf : ∀ acc x, f acc x = acc ++ [x]) :
    ∀ (xs acc : List α), xs.foldl f acc = acc ++ xs := by
  intro xs
  induction xs with
  | nil => intro acc; simp
  | cons x xs ih => intro acc; simp only [List.foldl_cons, hf, ih, List.append_assoc, List.singleton_append]

/-- `for v in l: acc.extend(F(v))` -/
theorem foldl_extend {α β : Type} (f : List β → α → List β) (F : α → List β) (l : List α)
    (hf : ∀ acc v, v ∈ l → f acc v = acc ++ F v) : ∀ acc, l.foldl f acc = acc ++ l.flatMap F := by
  induction l with
  | nil => intro acc; simp
  | cons x xs ih =>
    intro acc
    simp only [List.foldl_cons, List.flatMap_cons]
    rw [hf acc x (by simp), ih (fun acc v hv => hf acc v (by simp [hv])), List.append_assoc]

theorem genFindAllPaths_eq (g : Graph) : ∀ (fuel s t : Nat) (path : List Nat),
    genFindAllPaths g fuel s t path = g.allPathsF fuel s t path := by
  intro fuel
  induction fuel with
  | zero => intro s t path; rfl
  | succ n ih =>
    intro s t path
    simp only [genFindAllPaths, Graph.allPathsF, Py.forLoop_eq_foldl]
    rw [foldl_extend _ (fun v => if (path ++ [s]).contains v then [] else g.allPathsF n v t (path ++ [s]))]
    · by_cases hst : s = t
      · subst hst; simp
      · have hst' : ¬ t = s := fun h => hst h.symm
        by_cases hs : s < g.n <;> simp [hst, hst', hs] <;> omega
    · intro acc v _
      try rw [foldl_append_each _ (fun _ _ => rfl)]
      by_cases h1 : v ∈ path <;> by_cases h2 : v = s <;> simp [h1, h2, ih]

theorem genNPaths_eq (g : Graph) (s t : Nat) : genNPaths g s t = g.nPaths s t := by
  simp only [genNPaths, genFindAllPaths_eq, Graph.nPaths, Graph.allPaths]

/-! ### Tree: leaves, parent -/

theorem length_beq_zero {α : Type} (l : List α) : (l.length == 0) = l.isEmpty := by cases l <;> rfl

theorem genIsLeaf_eq (g : Graph) (v : Nat) (skip : Bool) : genIsLeaf g v skip = g.isLeafApi v skip := by
  simp only [genIsLeaf, genChildren_eq, genNChildren_eq, genCheckVertex_isSome, Graph.isLeafApi, Graph.rowApi, Graph.guard,
    Graph.isLeaf, Graph.children, List.all_cons, List.all_nil]
  cases skip <;> by_cases h : g.checkVertex v = true <;> simp [h, length_beq_zero]

/-- `for v in xs: if p(v): acc.append(v)` where the test may raise, and does not on the elements of `xs` -/
theorem foldl_filter_append (f : Option (Option (List Nat)) × List Nat → Nat → Option (Option (List Nat)) × List Nat)
    (p : Nat → Bool) (xs : List Nat)
    (hf : ∀ acc v, v ∈ xs → f (none, acc) v = (none, if p v then acc ++ [v] else acc)) :
    ∀ acc, xs.foldl f (none, acc) = (none, acc ++ xs.filter p) := by
  induction xs with
  | nil => intro acc; simp
  | cons x xs ih =>
    intro acc
    simp only [List.foldl_cons]
    rw [hf acc x (by simp), ih (fun acc v hv => hf acc v (by simp [hv]))]
    by_cases hp : p x = true
    · simp [hp, List.filter_cons]
    · simp [hp, List.filter_cons]

theorem genLeaves_eq (g : Graph) : genLeaves g = some g.leaves := by
  simp only [genLeaves, Py.forLoop_eq_foldl]
  rw [foldl_filter_append _ g.isLeaf]
  · simp [Graph.leaves]
  · intro acc v hv
    have hv' : g.checkVertex v = true := by simpa [Graph.checkVertex] using hv
    simp only [genIsLeaf_eq, Graph.isLeafApi, hv']
    simp only [hv', if_true, Graph.isLeaf, Graph.children]
    by_cases hr : (g.row v).isEmpty = true <;> simp [hr]

theorem genNLeaves_eq (g : Graph) : genNLeaves g = some g.nLeaves := by
  simp only [genNLeaves, genLeaves_eq, Graph.nLeaves]

theorem genParent_eq (g : Graph) (v : Nat) (skip : Bool) : genParent g v skip = g.parentApi v skip := by
  simp only [genParent, genCheckVertex_isSome, Graph.parentApi, Graph.guard, pyGet]
  cases skip <;> by_cases h : g.checkVertex v = true <;> simp [h] <;> rfl

/-! ### constructors -/

theorem asymCount_beq_zero (g : Graph) : (g.asymCount == 0) = g.symmetricB := by
  rw [Bool.eq_iff_iff]
  simp only [Graph.asymCount, Graph.symmetricB, beq_iff_eq, List.length_eq_zero_iff, List.flatMap_eq_nil_iff,
    List.filter_eq_nil_iff, List.mem_range, List.all_eq_true, bne_iff_ne, ne_eq, Decidable.not_not]

/-- `_is_symmetric` (menpo's own helper, both of its branches) is the model's symmetry test -/
theorem genIsSymmetric_eq (m : RawMat) : genIsSymmetric m = m.graph.symmetricB := by
  cases h : m.isSparse <;> simp [genIsSymmetric, h, asymCount_beq_zero]

theorem genGraphInit_eq (directed : Bool) (m : RawMat) (copy skip : Bool) :
    genGraphInit directed m copy skip = graphInit directed m skip := by
  obtain ⟨k, r, c, w, z⟩ := m
  by_cases h0 : r = 0 <;> by_cases h1 : r = c <;>
    cases hs : (RawMat.graph ⟨k, r, c, w, z⟩).symmetricB <;>
    cases k <;> cases skip <;> cases copy <;> cases directed <;>
    simp [genGraphInit, genIsSymmetric_eq, graphInit, RawMat.graphOf, RawMat.eliminateZeros, h0, h1, hs] <;>
    simp_all [RawMat.graph, RawMat.graphOf, RawMat.eliminateZeros]

theorem genUndirectedGraphInit_eq (m : RawMat) (copy skip : Bool) :
    genUndirectedGraphInit m copy skip = (graphInit false m skip).map fun g => (false, g) := by
  simp only [genUndirectedGraphInit, genGraphInit_eq]
  cases graphInit false m skip <;> rfl

theorem genDirectedGraphInit_eq (m : RawMat) (copy skip : Bool) :
    genDirectedGraphInit m copy skip = (graphInit true m skip).map fun g => (true, g) := by
  simp only [genDirectedGraphInit, genGraphInit_eq]
  cases graphInit true m skip <;> rfl

theorem genTreeInit_eq (g : Graph) (root : Nat) (copy skip : Bool) :
    genTreeInit g root copy skip = g.treeInit root skip := by
  simp only [genTreeInit, genDirectedGraphInit_eq, graphInit, RawMat.ofGraph, RawMat.graph, genHasIsolatedVertices_eq,
    genIsTree_eq, genCheckVertex_isSome, genGetPredecessorsList_eq, Graph.treeInit, Graph.treeCtorOk, Graph.treeCtor]
  by_cases h0 : g.n = 0 <;> by_cases h1 : g.isolated.isEmpty = true <;> by_cases h2 : g.isTree true = true <;>
    by_cases h3 : g.checkVertex root = true <;> by_cases h4 : sameEdgeSet (g.bfsTree root) g.edgesD = true <;>
    cases skip <;> simp [h0, h1, h2, h3, h4]

/-! ### depth_of_vertex (a `while` loop) -/

abbrev DepthS := Option (Option Nat) × Nat × Nat

/-- the loop of `depth_of_vertex` : state (pending exception, parent, depth) -/
theorem while_depth (g : Graph) (root : Nat) (c : DepthS → Bool) (b : DepthS → DepthS)
    (hc : ∀ p d, c (none, p, d) = !(p == root)) (hc2 : ∀ x p d, c (some x, p, d) = false)
    (hbn : ∀ p d, g.parent p = none → ∃ p' d', b (none, p, d) = (some none, p', d'))
    (hbs : ∀ p d q, g.parent p = some q → b (none, p, d) = (none, q, d + 1)) :
    ∀ (f p d : Nat) (W : Option DepthS), Py.whileFuel f (none, p, d) c b = W →
      match g.depthF root f p with
      | some k => W = some (none, root, d + k)
      | none => W = none ∨ ∃ p' d', W = some (some none, p', d') := by
  intro f
  induction f with
  | zero => intro p d W h; simp only [Graph.depthF]; exact Or.inl h.symm
  | succ f ih =>
    intro p d W h
    rw [Py.whileFuel_succ, hc] at h
    simp only [Graph.depthF]
    by_cases hp : p = root
    · subst hp; simp at h; simp [← h]
    · have hp' : (!(p == root)) = true := by simp [hp]
      rw [if_pos hp'] at h
      simp only [hp, if_false]
      cases hpar : g.parent p with
      | none =>
        obtain ⟨p', d', hb⟩ := hbn p d hpar
        rw [hb] at h
        simp only
        cases f with
        | zero => exact Or.inl h.symm
        | succ f => rw [Py.whileFuel_succ, hc2] at h; exact Or.inr ⟨p', d', by simpa using h.symm⟩
      | some q =>
        rw [hbs p d q hpar] at h
        have := ih q (d + 1) W h
        simp only
        cases hd : g.depthF root f q with
        | none => simpa [hd] using this
        | some k => rw [hd] at this; simp only [Option.map_some] at this ⊢; rw [this]; congr 3; omega

theorem genDepthOfVertex_eq (g : Graph) (root v : Nat) (skip : Bool) :
    genDepthOfVertex g root v skip = g.depthApi root v skip := by
  simp only [genDepthOfVertex, genCheckVertex_isSome, Graph.depthApi, Graph.guard, Graph.depth, List.all_cons,
    List.all_nil, Bool.and_true]
  cases skip <;> by_cases h : g.checkVertex v = true <;> simp only [h, Bool.not_false, Bool.not_true, if_true,
    if_false, Bool.false_or, Bool.true_or, Bool.false_eq_true]
  all_goals try rfl
  all_goals
    split
    all_goals
      rename_i heq
      have key := while_depth g root _ _ (by intro p d; simp [bne]) (by intro x p d; simp)
        (by intro p d hp; simp [hp]) (by intro p d q hp; simp [hp]) _ _ _ _ heq
      cases hd : g.depthF root (g.n + 1) v with
      | none =>
        simp only [hd] at key
        rcases key with h0 | ⟨p', d', h1⟩ <;> first | (cases h1; rfl) | simp_all
      | some k => simp_all

/-! ### edge list → adjacency matrix -/

theorem graph_ext (g h : Graph) (hn : g.n = h.n) (hw : ∀ i j, g.w i j = h.w i j) : g = h := by
  cases g; cases h; simp only [Graph.mk.injEq] at *; exact ⟨hn, funext fun i => funext fun j => hw i j⟩

theorem take_length_eq {α : Type} (l : List α) (k : Nat) (h : k = l.length) : l.take k = l := by
  subst h; exact List.take_length

theorem csrOnes_w (k : Nat) (rows cols : List Nat) (n m i j : Nat) (hk : rows.length ≤ k) :
    (csrOnes k rows cols n m).w i j = (rows.zip cols).count (i, j) := by
  simp only [csrOnes]
  rw [List.take_of_length_le (by simp; omega)]

theorem genConvertEdges_eq (isList : Bool) (es : List (Nat × Nat)) (n : Nat) :
    genConvertEdges isList es n = fromEdges n es := by
  simp only [genConvertEdges, fromEdges, shape0_list, Bool.false_or]
  cases isList <;> repeat' split
  all_goals
    apply graph_ext
    · rfl
    · intro i j
      first
        | (simp_all [zeroGraph]; done)
        | (rw [csrOnes_w _ _ _ _ _ _ _ (by simp), zip_map_fst_snd])

theorem count_append_swap (es : List (Nat × Nat)) (i j : Nat) :
    ((es.map (·.1) ++ es.map (·.2)).zip (es.map (·.2) ++ es.map (·.1))).count (i, j)
      = es.count (i, j) + es.count (j, i) := by
  rw [List.zip_append (by simp), zip_map_fst_snd, List.count_append]
  congr 1
  induction es with
  | nil => rfl
  | cons e es ih =>
    obtain ⟨a, b⟩ := e
    simp only [List.map_cons, List.zip_cons_cons, List.count_cons, ih]
    congr 1
    simp only [beq_iff_eq, Prod.mk.injEq]
    by_cases h : b = i ∧ a = j
    · have : a = j ∧ b = i := ⟨h.2, h.1⟩
      simp [h, this]
    · have : ¬ (a = j ∧ b = i) := fun h' => h ⟨h'.2, h'.1⟩
      simp [h, this]

theorem genConvertEdgesSym_eq (isList : Bool) (es : List (Nat × Nat)) (n : Nat) :
    genConvertEdgesSym isList es n = fromEdgesSym n es := by
  simp only [genConvertEdgesSym, fromEdgesSym, shape0_list, Bool.false_or]
  cases isList <;> repeat' split
  all_goals
    apply graph_ext
    · rfl
    · intro i j
      first
        | (simp_all [zeroGraph, Graph.binarize]; done)
        | (simp only [Graph.binarize]
           rw [csrOnes_w _ _ _ _ _ _ _ (by simp), count_append_swap])

/-! ### masking -/

theorem genMask_eq {α : Type} (mask : List Bool) (g : Graph) (pts : List α) :
    genMaskAdjacencyMatrixAndPoints mask g pts = (g.select (nonzeroIdx mask), maskFilter pts mask) := rfl

theorem maskFilter_all_true {α : Type} : ∀ (l : List α) (m : List Bool), l.length = m.length → m.all id = true →
    maskFilter l m = l
  | [], [], _, _ => rfl
  | [], _ :: _, h, _ => by simp at h
  | _ :: _, [], h, _ => by simp at h
  | x :: xs, b :: bs, h, ha => by
    simp only [List.all_cons, id, Bool.and_eq_true] at ha
    simp only [maskFilter, ha.1, if_true, maskFilter_all_true xs bs (by simpa using h) ha.2]

theorem symmetricB_iff (g : Graph) : g.symmetricB = true ↔ ∀ i j, i < g.n → j < g.n → g.w i j = g.w j i := by
  simp only [Graph.symmetricB, List.all_eq_true, List.mem_range, beq_iff_eq]
  exact ⟨fun h i j hi hj => h i hi j hj, fun h i hi j hj => h i j hi hj⟩

theorem symmetricB_select (g : Graph) (keep : List Nat) (hs : g.symmetricB = true) (hk : ∀ x ∈ keep, x < g.n) :
    (g.select keep).symmetricB = true := by
  rw [symmetricB_iff] at hs ⊢
  intro i j hi hj
  simp only [Graph.select] at hi hj ⊢
  have h1 : keep.getD i 0 < g.n := hk _ (by simp [List.getD_eq_getElem?_getD, hi])
  have h2 : keep.getD j 0 < g.n := hk _ (by simp [List.getD_eq_getElem?_getD, hj])
  exact hs _ _ h1 h2

/-- the result of `from_mask` as the Point* classes return it: the masked graph with the points that follow -/
def fromMaskResult {α : Type} (g : Graph) (pts : List α) (mask : List Bool) : Option (Graph × List α) :=
  match g.fromMask mask with
  | .ok (g', _) => some (g', maskFilter pts mask)
  | .error _ => none

theorem genFromMaskD_eq {α : Type} (g : Graph) (pts : List α) (mask : List Bool) (hp : pts.length = g.n) :
    genFromMaskD g pts mask = fromMaskResult g pts mask := by
  simp only [genFromMaskD, genMask_eq, fromMaskResult, Graph.fromMask, shape0_list, hp]
  by_cases hl : mask.length = g.n
  · have hk : nonzeroIdx mask = keepIdx g.n mask := by simp [nonzeroIdx, keepIdx, hl]
    by_cases ha : mask.all id = true
    · simp [hl, ha, maskFilter_all_true pts mask (by omega) ha]
    · have h1 : (maskFilter pts mask).length = (keepIdx g.n mask).length := by
        rw [maskFilter_length _ _ (by omega), ← hl, keepIdx_length]
      rw [hk]
      generalize keepIdx g.n mask = keep at h1 ⊢
      simp only [hl, ha, bne_self_eq_false, Bool.false_eq_true, if_false, ne_eq, not_true_eq_false, pointGraphCtor,
        Graph.select, h1]
      cases keep <;> simp
  · simp [hl]

theorem genFromMaskU_eq {α : Type} (g : Graph) (pts : List α) (mask : List Bool) (hp : pts.length = g.n)
    (hs : g.symmetricB = true) : genFromMaskU g pts mask = fromMaskResult g pts mask := by
  simp only [genFromMaskU, genMask_eq, fromMaskResult, Graph.fromMask, shape0_list, hp]
  by_cases hl : mask.length = g.n
  · have hk : nonzeroIdx mask = keepIdx g.n mask := by simp [nonzeroIdx, keepIdx, hl]
    by_cases ha : mask.all id = true
    · simp [hl, ha, maskFilter_all_true pts mask (by omega) ha, pointGraphCtor]
    · have h1 : (maskFilter pts mask).length = (keepIdx g.n mask).length := by
        rw [maskFilter_length _ _ (by omega), ← hl, keepIdx_length]
      have h2 : (g.select (keepIdx g.n mask)).symmetricB = true :=
        symmetricB_select g _ hs (MenpoModel.C14.keepIdx_lt g.n mask)
      rw [hk]
      generalize keepIdx g.n mask = keep at h1 h2 ⊢
      simp only [hl, ha, bne_self_eq_false, Bool.false_eq_true, if_false, ne_eq, not_true_eq_false, pointGraphCtor, h2]
      simp only [Graph.select, h1]
      cases keep <;> simp
  · simp [hl]

/-! ### vertices_at_depth, n_vertices_at_depth (loops whose test may raise) -/

/-- `for v in xs: if q(v): acc = step(acc, v)` where `q(v)` may raise (`none`); state = (pending exception, acc) -/
theorem loop_may_raise {α : Type} (f : Option (Option α) × α → Nat → Option (Option α) × α) (q : Nat → Option Bool)
    (step : α → Nat → α) (xs : List Nat)
    (h1 : ∀ e acc v, f (some e, acc) v = (some e, acc))
    (h2 : ∀ acc v, v ∈ xs → f (none, acc) v =
      match q v with
      | none => (some none, acc)
      | some b => (none, if b then step acc v else acc)) :
    ∀ acc, (xs.all (fun v => (q v).isSome) = true →
        xs.foldl f (none, acc) = (none, xs.foldl (fun a v => if q v = some true then step a v else a) acc)) ∧
      (xs.all (fun v => (q v).isSome) = false → ∃ a', xs.foldl f (none, acc) = (some none, a')) := by
  have hs : ∀ (ys : List Nat) e acc, ys.foldl f (some e, acc) = (some e, acc) := by
    intro ys; induction ys with
    | nil => intros; rfl
    | cons y ys ih => intro e acc; simp only [List.foldl_cons, h1, ih]
  induction xs with
  | nil => intro acc; simp
  | cons x xs ih =>
    intro acc
    have ih' := ih (fun acc v hv => h2 acc v (by simp [hv]))
    simp only [List.foldl_cons, List.all_cons]
    rw [h2 acc x (by simp)]
    cases hq : q x with
    | none => simp [hs]
    | some b =>
      cases b
      · simpa using ih' acc
      · simpa using ih' (step acc x)

theorem foldl_filter_eq (p : Nat → Bool) (xs : List Nat) :
    ∀ acc, xs.foldl (fun a v => if p v then a ++ [v] else a) acc = acc ++ xs.filter p := by
  induction xs with
  | nil => intro acc; simp
  | cons x xs ih =>
    intro acc
    simp only [List.foldl_cons, ih, List.filter_cons]
    by_cases hp : p x = true <;> simp [hp]

theorem loop_may_raise' {α : Type} (f : Option (Option α) × α → Nat → Option (Option α) × α) (q : Nat → Option Bool)
    (step : α → Nat → α) (xs : List Nat) (acc : α) (R : Option (Option α) × α)
    (hR : xs.foldl f (none, acc) = R)
    (h1 : ∀ e acc v, f (some e, acc) v = (some e, acc))
    (h2 : ∀ acc v, v ∈ xs → f (none, acc) v =
      match q v with
      | none => (some none, acc)
      | some b => (none, if b then step acc v else acc)) :
    (xs.all (fun v => (q v).isSome) = true →
        R = (none, xs.foldl (fun a v => if q v = some true then step a v else a) acc)) ∧
      (xs.all (fun v => (q v).isSome) = false → ∃ a', R = (some none, a')) := by
  subst hR; exact loop_may_raise f q step xs h1 h2 acc

theorem all_map_isSome (g : Graph) (root d : Nat) (xs : List Nat) :
    xs.all (fun v => ((g.depth root v).map (· == d)).isSome) = xs.all (fun v => (g.depth root v).isSome) := by
  congr 1; funext v; cases g.depth root v <;> rfl

theorem depth_test_eq (g : Graph) (root d v : Nat) :
    (((g.depth root v).map (· == d)) = some true) = ((g.depth root v == some d) = true) := by
  cases h : g.depth root v <;> simp

theorem genVerticesAtDepth_eq (g : Graph) (root d : Nat) :
    genVerticesAtDepth g root d = g.verticesAtDepthApi root d := by
  simp only [genVerticesAtDepth, Py.forLoop_eq_foldl, Graph.verticesAtDepthApi]
  generalize hR : List.foldl _ (none, ([] : List Nat)) (List.range g.n) = R
  have key := loop_may_raise' _ (fun v => (g.depth root v).map (· == d)) (fun acc v => acc ++ [v]) _ _ _ hR
    (fun e acc v => by simp) (fun acc v hv => by
      have hv' : g.checkVertex v = true := by simpa [Graph.checkVertex] using hv
      simp only [genDepthOfVertex_eq, Graph.depthApi, Graph.guard, List.all_cons, List.all_nil, hv', Bool.and_true,
        Bool.false_or, if_true]
      cases g.depth root v <;> simp <;> split <;> rfl)
  rw [all_map_isSome] at key
  by_cases hall : g.depthsDefined root = true
  · have h := key.1 hall
    simp only [hall, if_true, h, Graph.verticesAtDepth, depth_test_eq]
    rw [foldl_filter_eq (fun v => g.depth root v == some d)]
    simp
  · obtain ⟨a', h⟩ := key.2 (by simpa [Graph.depthsDefined] using hall)
    simp only [hall, h]
    rfl

theorem genNVerticesAtDepth_eq (g : Graph) (root d : Nat) :
    genNVerticesAtDepth g root d = g.nVerticesAtDepthApi root d := by
  simp only [genNVerticesAtDepth, Py.forLoop_eq_foldl, Graph.nVerticesAtDepthApi]
  generalize hR : List.foldl _ (none, (0 : Nat)) (List.range g.n) = R
  have key := loop_may_raise' _ (fun v => (g.depth root v).map (· == d)) (fun acc _ => acc + 1) _ _ _ hR
    (fun e acc v => by simp) (fun acc v hv => by
      have hv' : g.checkVertex v = true := by simpa [Graph.checkVertex] using hv
      simp only [genDepthOfVertex_eq, Graph.depthApi, Graph.guard, List.all_cons, List.all_nil, hv', Bool.and_true,
        Bool.false_or, if_true]
      cases g.depth root v <;> simp <;> split <;> rfl)
  rw [all_map_isSome] at key
  by_cases hall : g.depthsDefined root = true
  · have h := key.1 hall
    simp only [hall, if_true, h, Graph.nVerticesAtDepth, depth_test_eq]
  · obtain ⟨a', h⟩ := key.2 (by simpa [Graph.depthsDefined] using hall)
    simp only [hall, h]
    rfl

/-! ### PointTree.from_mask (a `while` loop over scipy's component labels) -/

theorem labelOf_mem (g : Graph) (v : Nat) (hv : v < g.n) : g.labelOf v ∈ g.component v ∧ g.labelOf v < g.n := by
  unfold Graph.labelOf
  cases hf : (List.range g.n).find? (fun u => (g.component v).contains u) with
  | none =>
    have := List.find?_eq_none.1 hf v (List.mem_range.2 hv)
    simp [self_mem_component g v] at this
  | some x =>
    have h1 := List.find?_some hf
    have h2 := List.mem_of_find?_eq_some hf
    exact ⟨by simpa using h1, List.mem_range.1 h2⟩

/-- two vertices carry the same label iff they lie in one weak component -/
theorem labelOf_eq_iff (g : Graph) (r v : Nat) (hr : r < g.n) (hv : v < g.n) :
    g.labelOf v = g.labelOf r ↔ v ∈ g.component r := by
  constructor
  · intro h
    have h1 := (labelOf_mem g v hv).1
    have h2 := (labelOf_mem g r hr).1
    rw [h] at h1
    rw [mem_component g _ _ hv] at h1
    rw [mem_component g _ _ hr] at h2 ⊢
    exact h2.trans (reach_und_symm g hv h1)
  · intro h
    have hrv : Reach g.und r v := (mem_component g r v hr).1 h
    have hcongr : ∀ u, (g.component v).contains u = (g.component r).contains u := by
      intro u
      rw [Bool.eq_iff_iff, List.contains_iff_mem, List.contains_iff_mem, mem_component g v u hv, mem_component g r u hr]
      exact ⟨fun hu => hrv.trans hu, fun hu => (reach_und_symm g hr hrv).trans hu⟩
    unfold Graph.labelOf
    congr 2
    funext u
    exact hcongr u

/-- the mask `labels == labels[root]` is the mask `pruneLoop` builds -/
theorem labelMask_eq (g : Graph) (r : Nat) (hr : r < g.n) :
    pyEq g.componentLabels.2 (pyGet g.componentLabels.2 r) = compMask g r := by
  simp only [pyEq_list, Graph.componentLabels, pyGet, compMask, List.map_map]
  apply List.map_congr_left
  intro v hv
  have hv' : v < g.n := List.mem_range.1 hv
  have hget : ((List.range g.n).map g.labelOf).getD r default = g.labelOf r := by
    simp [List.getD_eq_getElem?_getD, hr]
  simp only [Function.comp, hget]
  rw [Bool.eq_iff_iff, beq_iff_eq, labelOf_eq_iff g r v hr hv', List.contains_iff_mem]

theorem maskFilter_map_range' (l : List Nat) : ∀ (k : Nat) (m : List Bool),
    (maskFilter (List.range' k l.length) m).map (fun i => l.getD (i - k) 0) = maskFilter l m := by
  induction l with
  | nil => intro k m; simp [maskFilter]
  | cons x xs ih =>
    intro k m
    cases m with
    | nil => simp [maskFilter, List.range'_succ]
    | cons b bs =>
      have hrest : (maskFilter (List.range' (k + 1) xs.length) bs).map (fun i => (x :: xs).getD (i - k) 0)
          = maskFilter xs bs := by
        rw [← ih (k + 1) bs]
        apply List.map_congr_left
        intro i hi
        have hi' : i ∈ List.range' (k + 1) xs.length := (maskFilter_sublist _ _).subset hi
        have hge : k + 1 ≤ i := (List.mem_range'_1.1 hi').1
        have : i - k = (i - (k + 1)) + 1 := by omega
        rw [this, List.getD_cons_succ]
      cases b
      · simp only [List.length_cons, List.range'_succ, maskFilter, Bool.false_eq_true, if_false]
        exact hrest
      · simp only [List.length_cons, List.range'_succ, maskFilter, if_true, List.map_cons, Nat.sub_self,
          List.getD_cons_zero]
        rw [hrest]

theorem maskFilter_eq_map_getD (l : List Nat) (m : List Bool) :
    maskFilter l m = (keepIdx l.length m).map fun i => l.getD i 0 := by
  have := maskFilter_map_range' l 0 m
  simp only [Nat.sub_zero] at this
  rw [← this, keepIdx, List.range_eq_range']

abbrev PruneS := List Bool × Graph × List Nat × Nat × Nat × List Nat

/-- the state the loop of `PointTree.from_mask` carries for the graph `A`, the points `K`, the root `r` -/
abbrev pruneState (m : List Bool) (A : Graph) (K : List Nat) (r : Nat) : PruneS :=
  (m, A, K, r, A.componentLabels.1, A.componentLabels.2)

/-- the loop of `PointTree.from_mask` realises `pruneLoop` (and never runs out of fuel `≥ 2`) -/
theorem while_prune {g A : Graph} {keep : List Nat} (V : View g A keep) (r : Nat) (hr : r < A.n)
    (c : PruneS → Bool) (b : PruneS → PruneS) (F : Nat) (m : List Bool) (W : Option PruneS)
    (hW : Py.whileFuel F (pruneState m A keep r) c b = W) (hF : 2 ≤ F)
    (hc : ∀ m A K r, c (pruneState m A K r) = decide (A.nComponents > 1))
    (hb : ∀ m A K r, b (pruneState m A K r) =
      pruneState (pyEq A.componentLabels.2 (pyGet A.componentLabels.2 r))
        (A.select (nonzeroIdx (pyEq A.componentLabels.2 (pyGet A.componentLabels.2 r))))
        (maskFilter K (pyEq A.componentLabels.2 (pyGet A.componentLabels.2 r)))
        (rank (pyEq A.componentLabels.2 (pyGet A.componentLabels.2 r)) r)) :
    ∃ m', W = some (pruneState m' (pruneLoop F A r keep).1 (pruneLoop F A r keep).2.2 (pruneLoop F A r keep).2.1) := by
  obtain ⟨f, rfl⟩ : ∃ f, F = f + 2 := ⟨F - 2, by omega⟩
  subst hW
  by_cases hgt : A.nComponents > 1
  · have hR := round_spec V r hr
    have hlm : pyEq A.componentLabels.2 (pyGet A.componentLabels.2 r) = compMask A r := labelMask_eq A r hr
    have hnz : nonzeroIdx (compMask A r) = keepIdx A.n (compMask A r) := by
      simp [nonzeroIdx, keepIdx, compMask_length]
    have hK : maskFilter keep (compMask A r) = (keepIdx A.n (compMask A r)).map fun i => keep.getD i 0 := by
      rw [maskFilter_eq_map_getD, ← V.n_eq]
    have hpl : pruneLoop (f + 2) A r keep =
        (A.select (keepIdx A.n (compMask A r)), rank (compMask A r) r,
          (keepIdx A.n (compMask A r)).map fun i => keep.getD i 0) := by
      rw [pruneLoop, if_pos hgt]
      exact pruneLoop_of_conn (f + 1) _ _ _ hR.conn
    refine ⟨compMask A r, ?_⟩
    rw [Py.whileFuel_succ, hc, decide_eq_true hgt, if_pos rfl, hb, hlm, hnz, hK, Py.whileFuel_succ, hc, hR.conn, hpl]
    simp
  · have hpl : pruneLoop (f + 2) A r keep = (A, r, keep) := by rw [pruneLoop, if_neg hgt]
    refine ⟨m, ?_⟩
    rw [Py.whileFuel_succ, hc, decide_eq_false hgt, hpl]
    simp

theorem nComponents_le (g : Graph) : g.nComponents ≤ g.n := by
  rw [nComponents_eq_count]
  have := List.length_filter_le g.isCompMin (List.range g.n)
  simpa using this

abbrev PruneS2 := Bool × List Bool × Graph × List Nat × Nat

/-- the loop of `PointTree.from_mask` written as `while True: mask; renumber the root; components; if one
component: break; mask = labels == labels[root]` (first masking included in the loop): it stops after at most two
rounds with the result of the model's `pruneLoop` on the masked graph -/
theorem while_prune2 (g : Graph) (root : Nat) (mask : List Bool) (hl : mask.length = g.n)
    (hroot : mask[root]? = some true)
    (c : PruneS2 → Bool) (b : PruneS2 → PruneS2) (F : Nat) (W : Option PruneS2)
    (hW : Py.whileFuel F (false, mask, g, List.range g.n, root) c b = W) (hF : g.n + 1 ≤ F)
    (hc : ∀ brk m A K r, c (brk, m, A, K, r) = !brk)
    (hb : ∀ m A K r, b (false, m, A, K, r) =
      if decide ((A.select (nonzeroIdx m)).nComponents ≤ 1) then
        (true, m, A.select (nonzeroIdx m), maskFilter K m, rank m r)
      else
        (false, pyEq (A.select (nonzeroIdx m)).componentLabels.2
            (pyGet (A.select (nonzeroIdx m)).componentLabels.2 (rank m r)),
          A.select (nonzeroIdx m), maskFilter K m, rank m r)) :
    ∃ m', W = some (true, m',
      (pruneLoop (g.n + 1) (g.select (keepIdx g.n mask)) (rank mask root) (keepIdx g.n mask)).1,
      (pruneLoop (g.n + 1) (g.select (keepIdx g.n mask)) (rank mask root) (keepIdx g.n mask)).2.2,
      (pruneLoop (g.n + 1) (g.select (keepIdx g.n mask)) (rank mask root) (keepIdx g.n mask)).2.1) := by
  have hpos : 0 < g.n := by
    rcases Nat.lt_or_ge root mask.length with h | h
    · omega
    · rw [List.getElem?_eq_none h] at hroot; cases hroot
  have hnz : nonzeroIdx mask = keepIdx g.n mask := by simp [nonzeroIdx, keepIdx, hl]
  have hP : maskFilter (List.range g.n) mask = keepIdx g.n mask := rfl
  have V : View g (g.select (keepIdx g.n mask)) (keepIdx g.n mask) :=
    view_of_select g _ (keepIdx_sorted g.n mask) (MenpoModel.C14.keepIdx_lt g.n mask)
  have hr0 : rank mask root < (g.select (keepIdx g.n mask)).n := rank_lt_keepIdx_length g.n mask hl root hroot
  subst hW
  obtain ⟨f, rfl⟩ : ∃ f, F = f + 2 := ⟨F - 2, by omega⟩
  rw [Py.whileFuel_succ, hc, Bool.not_false, if_pos rfl, hb, hnz, hP]
  by_cases hgt : (g.select (keepIdx g.n mask)).nComponents > 1
  · -- a second round, after which one component is left
    have hle : ¬ (g.select (keepIdx g.n mask)).nComponents ≤ 1 := by omega
    have hn2 : 2 ≤ g.n := by
      have h1 := nComponents_le (g.select (keepIdx g.n mask))
      have h2 : (g.select (keepIdx g.n mask)).n = (keepIdx g.n mask).length := rfl
      have h3 : (keepIdx g.n mask).length ≤ g.n := by
        rw [← hl, keepIdx_length]; exact List.count_le_length
      omega
    obtain ⟨f', rfl⟩ : ∃ f', f = f' + 1 := ⟨f - 1, by omega⟩
    have hR := round_spec V (rank mask root) hr0
    have hlm := labelMask_eq (g.select (keepIdx g.n mask)) (rank mask root) hr0
    have hnz2 : nonzeroIdx (compMask (g.select (keepIdx g.n mask)) (rank mask root))
        = keepIdx (g.select (keepIdx g.n mask)).n (compMask (g.select (keepIdx g.n mask)) (rank mask root)) := by
      simp [nonzeroIdx, keepIdx, compMask_length]
    have hK : maskFilter (keepIdx g.n mask) (compMask (g.select (keepIdx g.n mask)) (rank mask root))
        = (keepIdx (g.select (keepIdx g.n mask)).n (compMask (g.select (keepIdx g.n mask)) (rank mask root))).map
            fun i => (keepIdx g.n mask).getD i 0 := by
      rw [maskFilter_eq_map_getD, ← V.n_eq]
    have hpl : pruneLoop (g.n + 1) (g.select (keepIdx g.n mask)) (rank mask root) (keepIdx g.n mask) =
        ((g.select (keepIdx g.n mask)).select
            (keepIdx (g.select (keepIdx g.n mask)).n (compMask (g.select (keepIdx g.n mask)) (rank mask root))),
          rank (compMask (g.select (keepIdx g.n mask)) (rank mask root)) (rank mask root),
          (keepIdx (g.select (keepIdx g.n mask)).n (compMask (g.select (keepIdx g.n mask)) (rank mask root))).map
            fun i => (keepIdx g.n mask).getD i 0) := by
      rw [pruneLoop, if_pos hgt]
      exact pruneLoop_of_conn g.n _ _ _ hR.conn
    have hconn1 : decide ((g.select (keepIdx g.n mask)).nComponents ≤ 1) = false := by simpa using hle
    rw [hconn1]
    simp only [Bool.false_eq_true, if_false]
    rw [Py.whileFuel_succ, hc, Bool.not_false, if_pos rfl, hb, hlm, hnz2, hK]
    have hconn2 : decide ((Graph.select (g.select (keepIdx g.n mask))
        (keepIdx (g.select (keepIdx g.n mask)).n (compMask (g.select (keepIdx g.n mask)) (rank mask root)))).nComponents ≤ 1)
        = true := by
      have := hR.conn; simp [this]
    rw [hconn2, if_pos rfl, Py.whileFuel_succ, hc, hpl]
    exact ⟨compMask (g.select (keepIdx g.n mask)) (rank mask root), by simp⟩
  · have hle : (g.select (keepIdx g.n mask)).nComponents ≤ 1 := by omega
    have hpl : pruneLoop (g.n + 1) (g.select (keepIdx g.n mask)) (rank mask root) (keepIdx g.n mask)
        = (g.select (keepIdx g.n mask), rank mask root, keepIdx g.n mask) := by rw [pruneLoop, if_neg hgt]
    have hconn1 : decide ((g.select (keepIdx g.n mask)).nComponents ≤ 1) = true := by simpa using hle
    rw [hconn1, if_pos rfl, Py.whileFuel_succ, hc, hpl]
    exact ⟨mask, by simp⟩

/-- the result of `PointTree.from_mask` on index points: the model's `treeFromMask` -/
def treeFromMaskResult (g : Graph) (root : Nat) (mask : List Bool) : Option (Graph × Nat × List Nat) :=
  match g.treeFromMask root mask with
  | .ok r => some r
  | .error _ => none

theorem genFromMaskT_eq (g : Graph) (root : Nat) (mask : List Bool) :
    genFromMaskT g root (List.range g.n) mask = treeFromMaskResult g root mask := by
  by_cases hl : mask.length = g.n
  · by_cases ha : mask.all id = true
    · simp [genFromMaskT, treeFromMaskResult, Graph.treeFromMask, hl, ha]
    · by_cases hr : mask.getD root false = true
      · have ha' : mask.all id = false := by simpa using ha
        have hroot : mask[root]? = some true := (getD_false_eq_true_iff mask root).1 hr
        have hpos : 0 < g.n := by
          rcases Nat.lt_or_ge root mask.length with h | h
          · omega
          · rw [List.getElem?_eq_none h] at hroot; cases hroot
        have hnz : nonzeroIdx mask = keepIdx g.n mask := by simp [nonzeroIdx, keepIdx, hl]
        have hP : maskFilter (List.range g.n) mask = keepIdx g.n mask := rfl
        have V : View g (g.select (keepIdx g.n mask)) (keepIdx g.n mask) :=
          view_of_select g _ (keepIdx_sorted g.n mask) (MenpoModel.C14.keepIdx_lt g.n mask)
        have hr0 : rank mask root < (g.select (keepIdx g.n mask)).n := rank_lt_keepIdx_length g.n mask hl root hroot
        have hRound := pruneLoop_view V (rank mask root) hr0 g.n
        have hlen : (pruneLoop (g.n + 1) (g.select (keepIdx g.n mask)) (rank mask root) (keepIdx g.n mask)).2.2.length
            = (pruneLoop (g.n + 1) (g.select (keepIdx g.n mask)) (rank mask root) (keepIdx g.n mask)).1.n :=
          hRound.view.n_eq.symm
        rw [treeFromMaskResult, treeFromMask_eq g root mask hl ha' hr]
        simp only [genFromMaskT, genMask_eq, shape0_list, List.length_range, hl, bne_self_eq_false, Bool.false_eq_true,
          if_false, ha, pyGet, hnz, hP]
        have hr' : mask.getD root default = true := hr
        simp only [hr', Bool.not_true, Bool.false_eq_true, if_false]
        split
        all_goals
          rename_i heq
          obtain ⟨m', hw⟩ : ∃ m', _ = some _ := by
            first
              | exact while_prune V (rank mask root) hr0 _ _ _ _ _ heq (by omega) (by intros; rfl) (by intros; rfl)
              | exact while_prune2 g root mask hl hroot _ _ _ _ heq (by omega) (by intros; simp) (by intros; rfl)
          first
            | (cases hw; done)
            | (cases hw
               simp only [pointTreeCtor, hlen, bne_self_eq_false, Bool.false_eq_true, if_false]
               generalize pruneLoop (g.n + 1) (g.select (keepIdx g.n mask)) (rank mask root) (keepIdx g.n mask) = P
               obtain ⟨P1, P2, P3⟩ := P
               match hX : P1.treeCtor P2 with
               | .ok u => simp [Graph.treeCtorOk, hX]
               | .error e => simp [Graph.treeCtorOk, hX])
      · have hr' : mask[root]?.getD false = false := by
          simpa [List.getD_eq_getElem?_getD] using hr
        simp [genFromMaskT, treeFromMaskResult, Graph.treeFromMask, hl, ha, pyGet, hr']
  · simp [genFromMaskT, treeFromMaskResult, Graph.treeFromMask, hl]

end MenpoModel.GenProps.C14
