/-
C20 — obligation over the table `Generated.C20.ctorTable` (rewritten from the live code on every run by
harness/c20.py): every `init_*` classmethod the classes of `menpo.transform` define, every function of
`compositions.py` and `tcoords.py` and the `Scale` factory, found by introspection, with the class and the dimension of
what they return for probe arguments.  It must equal the table the model computes (`modelCtorTable`: `initIdentity`,
`aboutCentreCls`, `scaleFactoryCoded`, `tcoordsToImageShape`): a new constructor, a changed signature, another result
class or dimension, a dropped or added dimension guard breaks this obligation before any behaviour is sampled.
-/
import MenpoModel.Core.C20Ext
import MenpoModel.Generated.C20Ctors

namespace MenpoModel.GenProps.C20
open MenpoModel.C20

theorem ctorTable_ok : MenpoModel.Generated.C20.ctorTable = modelCtorTable := by decide +kernel

end MenpoModel.GenProps.C20
