/-
C18 — the property theorems RESTATED FOR THE TRANSLATED CODE.

`Generated/C18Src.lean` is what the source text of menpo/feature says on this run; `GenProps/C18Src.lean` proves it equal
to the Core model; the theorems below are the clauses of the property stated directly about the translated
definitions (`genNdfeature`, `genImgfeature`, `genWinitfeature`, `genRebuild`, `genNormalizeRaw`, `genNormalizeStd`, …,
`genGradientRaw`), obtained by rewriting with those equalities.  They are re-checked whenever the source changes: a
change that turns the normalisers into `@imgfeature`s, drops a branch of `rebuild_feature_image` or changes the
zero-scale test breaks them together with the equalities.
-/
import MenpoModel.GenProps.C18Src
import MenpoModel.Props.C18

set_option linter.unusedSimpArgs false

namespace MenpoModel.GenProps.C18Src
open MenpoModel.C18 MenpoModel.C18.Vocab MenpoModel.Generated.C18Src

section wrappers
variable {P : Type} (sh : P → List Nat)

/-- PROPERTY (same values for both calling conventions), for the translated `@ndfeature` and every feature `f` -/
theorem src_ndfeature_agrees (f : P → Except Err P) (im : Img P) (r : Arg P)
    (h : genNdfeature sh f (.img im) = .ok r) :
    genNdfeature sh f (.arr im.pixels) = .ok (.arr r.pixels) := by
  rw [genNdfeature_eq] at h ⊢; exact ndfeature_agrees sh f im r h

theorem src_ndfeature_error_agrees (f : P → Except Err P) (im : Img P) (e : Err) (h : f im.pixels = .error e) :
    genNdfeature sh f (.img im) = .error e ∧ genNdfeature sh f (.arr im.pixels) = .error e := by
  rw [genNdfeature_eq, genNdfeature_eq]; exact ndfeature_error_agrees sh f im e h

theorem src_imgfeature_agrees (g : Img P → Except Err (Img P)) (p : P) (r : Img P)
    (h : genImgfeature g (.img ⟨p, none, []⟩) = .ok (.img r)) :
    genImgfeature g (.arr p) = .ok (.arr r.pixels) := by
  rw [genImgfeature_eq] at h ⊢; exact imgfeature_agrees g p r h

theorem src_winitfeature_agrees (f : P → Except Err (P × Centres)) (im : Img P) (r : Arg P)
    (h : genWinitfeature f (.img im) = .ok r) :
    genWinitfeature f (.arr im.pixels) = .ok (.arr r.pixels) := by
  rw [genWinitfeature_eq] at h ⊢; exact winitfeature_agrees f im r h

/-- PROPERTY (same masked-or-not kind), for the translated `rebuild_feature_image` -/
theorem src_feature_keeps_kind (im : Img P) (fp : P) (r : Img P) (h : genRebuild sh im fp = .ok r) :
    r.mask.isSome = im.mask.isSome := by
  rw [genRebuild_eq] at h; exact feature_keeps_kind sh im fp r h

/-- PROPERTY (a size-keeping feature returns the landmarks and the mask unchanged) -/
theorem src_feature_same_size_keeps_annotations (im : Img P) (fp : P) (hs : sh fp = sh im.pixels) :
    genRebuild sh im fp = .ok ⟨fp, im.mask, im.lms⟩ := by
  rw [genRebuild_eq]; exact feature_same_size_keeps_annotations sh im fp hs

/-- PROPERTY (a size-changing feature: landmarks scaled by the shape ratio, mask resized to the new shape) -/
theorem src_feature_new_size_rescales (im : Img P) (fp : P) (r : Img P) (hs : sh fp ≠ sh im.pixels)
    (h : genRebuild sh im fp = .ok r) :
    r.lms = scaleLms (ratio (sh fp) (sh im.pixels)) im.lms ∧
    (∀ m, im.mask = some m → ∃ m', r.mask = some m' ∧ resizeMask m (sh fp) = .ok m' ∧ m'.shape = sh fp ∧
        m'.bits.length = prod (sh fp)) ∧
    (im.mask = none → r.mask = none) := by
  rw [genRebuild_eq] at h; exact feature_new_size_rescales sh im fp r hs h

end wrappers

/-! ## the normalisers -/

/-- PROPERTY (zero scale: refused exactly when asked, otherwise a result; no branch divides by zero), for the
translated `normalize` with any reduction as scale function -/
theorem src_normalize_zero_scale (stat : List Rat → Rat) (mode : Mode) (e : Bool) (im : Img Arr) :
    (∃ r, genNormalizeRaw im (some (reduceAx stat)) mode.toArg e = .ok r) ∨
    (e = true ∧ genNormalizeRaw im (some (reduceAx stat)) mode.toArg e = .error .zeroScale ∧
      ∃ s ∈ scalesOf stat mode (centre mode (asVector im)), s = 0) := by
  rw [genNormalizeRaw_stat, normalizeImg_eq]
  rcases normalize_zero_scale_fixed stat mode e (asVector im) with ⟨y, hy⟩ | ⟨he, hz, hs⟩
  · left; exact ⟨fromVector im y, by simp [hy, Except.map]⟩
  · right; exact ⟨he, by simp [hz, Except.map], hs⟩

/-- the skip request is honoured: with `error_on_divide_by_zero=False` the translated `normalize` always returns -/
theorem src_normalize_skip_total (stat : List Rat → Rat) (mode : Mode) (im : Img Arr) :
    ∃ r, genNormalizeRaw im (some (reduceAx stat)) mode.toArg false = .ok r := by
  rcases src_normalize_zero_scale stat mode false im with h | h
  · exact h
  · exact absurd h.1 (by simp)

/-- … and never a non-finite value -/
theorem src_normalize_never_nonfinite (stat : List Rat → Rat) (mode : Mode) (e : Bool) (im : Img Arr) :
    genNormalizeRaw im (some (reduceAx stat)) mode.toArg e ≠ .error .nonFinite := by
  rw [genNormalizeRaw_stat, normalizeImg_eq]
  have := normalize_never_nonfinite stat mode e true (asVector im)
  cases h : normalizeV stat mode e true (asVector im) with
  | ok y => simp [Except.map]
  | error err => simp only [Except.map]; intro hc; injection hc with hc; exact this (by rw [h, hc])

/-- PROPERTY (`mode='per_channel'` on a plain image: result = centred / statistic, channel by channel) -/
theorem src_normalize_per_channel (stat : List Rat → Rat) (e : Bool) (shape : List Nat) (x : Chans) (l : Lms) :
    genNormalizeRaw ⟨⟨shape, x⟩, none, l⟩ (some (reduceAx stat)) .perChannel e =
      if e = true ∧ (∃ row ∈ x, stat (cen row) = 0) then .error .zeroScale
      else .ok ⟨⟨shape, x.map (rowNorm stat)⟩, none, l⟩ := by
  have := genNormalizeRaw_stat stat .perChannel e ⟨⟨shape, x⟩, none, l⟩
  simp only [Mode.toArg] at this
  rw [this, normalizeImg_eq]
  simp only [asVector, normalize_per_channel_spec]
  split <;> simp [Except.map, fromVector]

/-- PROPERTY (`mode='all'` on a plain image: result = centred / overall statistic; zero statistic refused when asked,
otherwise only centred) -/
theorem src_normalize_all (stat : List Rat → Rat) (e : Bool) (shape : List Nat) (x : Chans) (l : Lms) :
    genNormalizeRaw ⟨⟨shape, x⟩, none, l⟩ (some (reduceAx stat)) .all e =
      if stat (cenAll x).flatten = 0 then (if e then .error .zeroScale else .ok ⟨⟨shape, cenAll x⟩, none, l⟩)
      else .ok ⟨⟨shape, (cenAll x).map fun row => row.map (· / stat (cenAll x).flatten)⟩, none, l⟩ := by
  have := genNormalizeRaw_stat stat .all e ⟨⟨shape, x⟩, none, l⟩
  simp only [Mode.toArg] at this
  rw [this, normalizeImg_eq]
  simp only [asVector, normalize_all_spec]
  split
  · cases e <;> simp [Except.map, fromVector]
  · simp [Except.map, fromVector]

/-- the translated `normalize` keeps kind, mask, shape and landmarks of the image it is given -/
theorem src_normalize_annotations (stat : List Rat → Rat) (mode : Mode) (e : Bool) (im r : Img Arr)
    (h : genNormalizeRaw im (some (reduceAx stat)) mode.toArg e = .ok r) :
    r.mask = im.mask ∧ r.lms = im.lms ∧ r.pixels.shape = im.pixels.shape := by
  rw [genNormalizeRaw_stat] at h; exact normalizeImg_annotations stat mode e true im r h

/-- PROPERTY (same values for both calling conventions) for the three normalisers as exported (their decorator
included): the image call and the array call of `normalize_std` agree — likewise `normalize_norm`, `normalize_var` -/
theorem src_normalisers_agree (np : NpStats) (mode : ModeArg) (e : Bool) (im : Img Arr) (r : Arg Arr) :
    (genNormalizeStd np mode e (.img im) = .ok r → genNormalizeStd np mode e (.arr im.pixels) = .ok (.arr r.pixels)) ∧
    (genNormalizeNorm np mode e (.img im) = .ok r → genNormalizeNorm np mode e (.arr im.pixels) = .ok (.arr r.pixels)) ∧
    (genNormalizeVar np mode e (.img im) = .ok r → genNormalizeVar np mode e (.arr im.pixels) = .ok (.arr r.pixels)) :=
  ⟨src_ndfeature_agrees _ _ im r, src_ndfeature_agrees _ _ im r, src_ndfeature_agrees _ _ im r⟩

/-- the three normalisers as exported are the model's `normalizeNd` with THEIR statistic: a masked image is normalised
over all its pixels and rebuilt by `rebuild_feature_image` (they are `@ndfeature`s), not over the masked pixels -/
theorem src_normalisers_spec (np : NpStats) (mode : Mode) (e : Bool) (im : Img Arr) :
    genNormalizeStd np mode.toArg e (.img im) = normalizeNd np.std mode e true (.img im) ∧
    genNormalizeNorm np mode.toArg e (.img im) = normalizeNd np.norm mode e true (.img im) ∧
    genNormalizeVar np mode.toArg e (.img im) = normalizeNd var mode e true (.img im) :=
  ⟨genNormalizeStd_eq np mode e _, genNormalizeNorm_eq np mode e _, genNormalizeVar_eq np mode e _⟩

/-! ## gradient -/

/-- PROPERTY (output channel order of the translated `gradient`): first the axis-0 gradient of every channel, then the
axis-1 gradient of every channel -/
theorem src_gradient_channel_order (u8 : Bool) (h w : Nat) (p g : Px) (hr : Rect h w p) (hne : p ≠ [])
    (hg : genGradientRaw u8 p = .ok g) (c : Nat) (hc : c < p.length) :
    g[c]? = (p[c]?).map gradY ∧ g[p.length + c]? = (p[c]?).map gradX := by
  rw [genGradientRaw_eq u8 h w p hr hne] at hg; exact gradient_channel_order u8 p g hg c hc

example : genNormalizeRaw ⟨⟨[2], [[1, 3], [4, 4]]⟩, none, []⟩ (some (reduceAx var)) .perChannel false
    = .ok ⟨⟨[2], [[-1, 1], [0, 0]]⟩, none, []⟩ := by decide +kernel
example : genNormalizeRaw ⟨⟨[2], [[1, 3], [4, 4]]⟩, none, []⟩ (some (reduceAx var)) .perChannel true
    = .error .zeroScale := by decide +kernel
example : genNormalizeRaw ⟨⟨[2], [[1, 3], [5, 7]]⟩, none, []⟩ none .all true
    = .ok ⟨⟨[2], [[-3, -1], [1, 3]]⟩, none, []⟩ := by decide +kernel

end MenpoModel.GenProps.C18Src
