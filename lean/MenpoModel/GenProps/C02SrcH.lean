/- Obligations over the methods TRANSLATED from the source text with the HEAP vocabulary (Generated/C02SrcH.lean,
   rewritten by harness/trans_c02.py on every run of `./check C02`).  The text of this file is constant.
   `srcH_…_eq`: each translated method equals the hand-written one for ALL arguments and ALL heaps; `srcHMethods_eq`
   collects them; the last section restates the heap theorems — nothing that existed is written, the input still holds
   its shape, the result is a new object holding the mapped shape with every attribute deep-equal, at every depth, total
   correctness — over the translated methods resolved through the REGENERATED method-resolution table. -/
import MenpoModel.Generated.C02SrcH
import MenpoModel.Generated.C02Dispatch
import MenpoModel.Props.C02SrcH
import MenpoModel.Props.C02SrcE

set_option linter.unusedSimpArgs false
set_option linter.unusedVariables false

namespace MenpoModel.C02.GenProps
open MenpoModel.C02 MenpoModel.C02.Generated

/-- close an equality of two heap programs: run both on an arbitrary heap, split every `match` / `if`, `simp_all` -/
macro "srch_close" : tactic => `(tactic|
  (funext h
   simp only [HM.bind, HM.ok, HM.err]
   repeat' split
   all_goals (first | rfl | simp_all)))

theorem hm_bind_ok {α : Type} (m : HM α) : (HM.bind m fun a => HM.ok a) = m := by
  funext h
  simp only [HM.bind, HM.ok]
  rcases m h with ⟨h1, r⟩
  cases r <;> rfl

theorem srcH_n_groups_eq (v : Val) : srcH_n_groups v = coreNGroups v := by
  (try simp only [srcH_n_groups, coreNGroups, hm_bind_ok]) <;> srch_close

theorem srcH_landmarks_eq (v : Val) : srcH_landmarks v = coreLandmarks v := by
  (try simp only [srcH_landmarks, coreLandmarks, hm_bind_ok]) <;> srch_close

theorem srcH_has_landmarks_eq (v : Val) : srcH_has_landmarks v = coreHasLandmarksH v := by
  have h1 : srcH_landmarks = coreLandmarks := funext srcH_landmarks_eq
  have h2 : srcH_n_groups = coreNGroups := funext srcH_n_groups_eq
  (try simp only [srcH_has_landmarks, coreHasLandmarksH, h1, h2, hm_bind_ok]) <;> srch_close

theorem srcH_shape_inplace_eq (callM callSelf : Val → Fn → HM Val) (v : Val) (t : Fn) :
    srcH_shape_inplace callM callSelf v t = coreShapeInplaceH callM callSelf v t := by
  have h1 : srcH_landmarks = coreLandmarks := funext srcH_landmarks_eq
  have h3 : srcH_has_landmarks = coreHasLandmarksH := funext srcH_has_landmarks_eq
  (try simp only [srcH_shape_inplace, coreShapeInplaceH, h1, h3, hm_bind_ok]) <;> srch_close

theorem srcH_shape_self_eq (v : Val) (t : Fn) : srcH_shape_self v t = coreHMethods.shapeSelf v t := by
  (try simp only [srcH_shape_self, chm_shapeSelf, hm_bind_ok]) <;> srch_close

theorem srcH_pc_self_eq (v : Val) (t : Fn) : srcH_pc_self v t = corePcSelfH v t := by
  (try simp only [srcH_pc_self, corePcSelfH, hm_bind_ok]) <;> srch_close

theorem srcH_lm_inplace_eq (callS : Val → Fn → HM Val) (v : Val) (t : Fn) :
    srcH_lm_inplace callS v t = coreLmInplaceH callS v t := by
  (try simp only [srcH_lm_inplace, coreLmInplaceH, hm_bind_ok]) <;> srch_close

theorem srcH_t_inplace_eq (v : Val) (t : Fn) : srcH_t_inplace v t = coreHMethods.tInplace v t := by
  (try simp only [srcH_t_inplace, chm_tInplace, hm_bind_ok]) <;> srch_close

theorem srcH_t_transform_eq (callCopy : Val → HM Val) (callI : Val → Fn → HM Val) (v : Val) (t : Fn) :
    srcH_t_transform callCopy callI v t = coreHMethods.transform callCopy callI v t := by
  (try simp only [srcH_t_transform, chm_transform, hm_bind_ok]) <;> srch_close

/-- every translated heap-level method equals the hand-written one -/
theorem srcHMethods_eq : srcHMethods = coreHMethods := by
  simp only [srcHMethods, coreHMethods, HMethods.mk.injEq]
  refine ⟨?_, ?_, ?_, ?_, ?_, ?_, ?_, ?_, ?_⟩
  · exact funext srcH_n_groups_eq
  · exact funext srcH_landmarks_eq
  · exact funext srcH_has_landmarks_eq
  · exact funext fun a => funext fun b => funext fun c => funext fun d => srcH_shape_inplace_eq a b c d
  · exact funext fun a => funext fun b => srcH_shape_self_eq a b
  · exact funext fun a => funext fun b => srcH_pc_self_eq a b
  · exact funext fun a => funext fun b => funext fun c => srcH_lm_inplace_eq a b c
  · exact funext fun a => funext fun b => srcH_t_inplace_eq a b
  · exact funext fun a => funext fun b => funext fun c => funext fun d => srcH_t_transform_eq a b c d

/-! ### the heap theorems over the TRANSLATED methods resolved through the REGENERATED table -/

theorem srcH_dispatch_eq : Generated.dispatch = expectedDispatch := by decide

/-- the translated `_transform`, every call resolved through the table read from the live classes, IS the model's
`applyH` on every heap -/
theorem srcH_transform_is_applyH (f : Arr → Arr) (k : Nat) (v : Val) (h : Heap) :
    exceptBoth (hTransform srcHMethods Generated.dispatch k v (okFn f) h) = applyH expectedDispatch f k h v := by
  rw [srcHMethods_eq, srcH_dispatch_eq]; exact hTransform_eq f expectedDispatch k v h

/-- PROPERTY on the heap, about the source as it is now (every attribute, every depth, "mutates nothing") -/
theorem srcH_apply_deep (f : Arr → Arr) (k : Nat) (s : Shape) (h h' : Heap) (v v' : Val)
    (r : RepD h.length h s v) (hrun : hTransform srcHMethods Generated.dispatch k v (okFn f) h = (h', .ok v')) :
    (h.length ≤ h'.length ∧ ∀ a, a < h.length → h'[a]? = h[a]?) ∧
    RepD h'.length h' s v ∧
    (∃ a', v' = .ref a' ∧ h.length ≤ a') ∧
    RepD h'.length h' (mapShape f s) v' := by
  rw [srcHMethods_eq, srcH_dispatch_eq] at hrun; exact h_apply_deep f k s h h' v v' r hrun

theorem srcH_apply_no_write (f : Arr → Arr) (k : Nat) (s : Shape) (h h' : Heap) (v v' : Val)
    (r : Rep h s v) (hrun : hTransform srcHMethods Generated.dispatch k v (okFn f) h = (h', .ok v')) :
    h.length ≤ h'.length ∧ ∀ a, a < h.length → h'[a]? = h[a]? := by
  rw [srcHMethods_eq, srcH_dispatch_eq] at hrun; exact h_apply_no_write f k s h h' v v' r hrun

theorem srcH_apply_at_deep (f : Arr → Arr) (k : Nat) (s : Shape) (h h' : Heap) (v v' : Val)
    (r : RepD h.length h s v) (hrun : hTransform srcHMethods Generated.dispatch k v (okFn f) h = (h', .ok v'))
    (path : List String) (g : Shape) (hg : s.at path = some g) :
    ∃ w w', atH h v path = some w ∧ atH h' v path = some w ∧ atH h' v' path = some w' ∧
      RepD h'.length h' g w ∧ RepD h'.length h' (mapShape f g) w' ∧ ∃ b, w' = .ref b ∧ h.length ≤ b := by
  rw [srcHMethods_eq, srcH_dispatch_eq] at hrun; exact h_apply_at_deep f k s h h' v v' r hrun path g hg

theorem srcH_apply_manager_deep (f : Arr → Arr) (k : Nat) (gs : Groups) (h h' : Heap) (v v' : Val)
    (r : RepMD h.length h gs v) (hrun : hTransform srcHMethods Generated.dispatch k v (okFn f) h = (h', .ok v')) :
    Ext h h' ∧ RepMD h'.length h' gs v ∧ RepMD h'.length h' (mapGroups f gs) v' ∧
      ∃ l', v' = .ref l' ∧ h.length ≤ l' := by
  rw [srcHMethods_eq, srcH_dispatch_eq] at hrun; exact h_apply_manager_deep f k gs h h' v v' r hrun

theorem srcH_apply_succeeds (f : Arr → Arr) (k J : Nat) (s : Shape) (h : Heap) (v : Val) (t : List Tok)
    (r : RepD h.length h s v) (hd : digest J h v = some t) (hk : KnownToks t) (hJ : J ≤ k) (hs : s.depth ≤ k) :
    ∃ h' v', hTransform srcHMethods Generated.dispatch k v (okFn f) h = (h', .ok v') := by
  rw [srcHMethods_eq, srcH_dispatch_eq]; exact h_apply_succeeds f k J s h v t r hd hk hJ hs

/-- history / aliasing invariant about the source as it is now -/
theorem srcH_run_mutates_nothing (calls : List Call) (h : Heap) (vs : List Val) (ss : List Shape) (h' : Heap)
    (vs' : List Val) (r : AllRep h ss vs)
    (hrun : hRun srcHMethods Generated.dispatch calls vs h = (h', .ok vs')) :
    (h.length ≤ h'.length ∧ ∀ a, a < h.length → h'[a]? = h[a]?) ∧ AllRep h' ss vs := by
  rw [srcHMethods_eq, srcH_dispatch_eq] at hrun; exact h_run_mutates_nothing calls h vs ss h' vs' r hrun

/-- (d) "MUTATES NOTHING", RETURNING OR RAISING, about the source as it is now: with ANY closure (`_apply_batched` with
`batch_size ≤ 0`, `WithDims` with an index out of range, a piecewise-affine transform outside its domain …) and ANY
outcome, the translated `_transform` writes no cell that existed before the call -/
theorem srcH_apply_frame_any (ap : Fn) (k : Nat) (s : Shape) (h h' : Heap) (v : Val) (res : Except Err Val)
    (r : Rep h s v) (hrun : hTransform srcHMethods Generated.dispatch k v ap h = (h', res)) :
    h.length ≤ h'.length ∧ ∀ a, a < h.length → h'[a]? = h[a]? := by
  rw [srcHMethods_eq, srcH_dispatch_eq] at hrun; exact h_apply_frame_any ap k s h h' v res r hrun

theorem srcH_apply_raise_intact (ap : Fn) (k : Nat) (s : Shape) (h h' : Heap) (v : Val) (e : Err)
    (r : Rep h s v) (hrun : hTransform srcHMethods Generated.dispatch k v ap h = (h', .error e)) : Rep h' s v := by
  rw [srcHMethods_eq, srcH_dispatch_eq] at hrun; exact h_apply_raise_intact ap k s h h' v e r hrun

end MenpoModel.C02.GenProps
