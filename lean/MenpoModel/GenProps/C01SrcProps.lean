/-
C01 — property theorems about the TRANSLATED entry points.

`GenProps/C01Src.lean` proves every translated operation equal to its plan executed through the funnel on an image
object (`Plan2.result`, `Plan2.cropResult`).  This file ties the object level to the single-channel definitions the
theorems of `Props/C01Base.lean` / `Props/C01.lean` are about (`Plan2.exec`, `Plan2.run`, `Plan2.runMask`,
`Plan2.landmark`) — channel by channel, for images with any number of channels — and restates the property for
the objects the translated code returns:

  * every channel of the result is the source channel sampled with the effective order at `T(pixel)`; the mask of a
    `MaskedImage` is the source mask sampled with order 0 through the same `T`; the landmarks are moved by the
    pseudoinverse closed form of the class of the transform object that the SOURCE hands to `warp_to_shape`, which is
    the inverse of `T`: the returned transform maps the returned landmarks onto the original ones;
  * registration at grid landmarks for every interpolation order, registration of affine content under bilinear
    interpolation, exact registration of the crop family (pixels copied as a block, arbitrary content, sub-pixel
    landmarks).
-/
import MenpoModel.GenProps.C01Src

set_option linter.unusedSimpArgs false

namespace MenpoModel.C01.GenProps
open MenpoModel.C01 MenpoModel.C01.Src MenpoModel.C01.Gen

/-- the mask of an object as an image (all `True` of the image's shape when none is stored) -/
def maskImg (o : Obj) : Img2 := o.mask.getD ⟨o.pix.h, o.pix.w, fun _ _ => 1⟩

/-- the dtype flag of the pixels agrees with the class: Boolean pixels exactly for a `BooleanImage` -/
def DtypeOK (o : Obj) : Prop := o.pix.isBool = decide (o.cls = .boolean)

theorem channel_map (h w : Nat) (ch : List (Int → Int → Rat)) (F : (Int → Int → Rat) → (Int → Int → Rat)) (b : Bool)
    (k : Nat) (hk : k < ch.length) :
    channel ⟨h, w, ch.map F, b⟩ k = ⟨h, w, F ((channel ⟨h, w, ch, b⟩ k).px)⟩ := by
  simp [channel, List.getD_eq_getElem?_getD, hk]

/-! ### the bridge: object level = the single-channel model, channel by channel -/

/-- **every channel of what an operation returns is the single-channel result `Plan2.exec` of that channel** -/
theorem execObj_channel (p : Plan2) (spl : Spl) (pv : PinvProvider) (o : Obj) (hd : DtypeOK o) (order : Nat) (wl : Bool)
    (k : Nat) (hk : k < o.pix.ch.length) :
    channel (p.execObj spl pv o order wl).pix k = (p.exec spl o.cls order (channel o.pix k) (maskImg o) o.lms).px := by
  rcases o with ⟨cls, ⟨h, w, ch, isb⟩, mask, lms, path⟩
  simp only [DtypeOK] at hd
  simp only at hk
  cases cls <;> simp only [reduceCtorEq, decide_false, decide_true] at hd <;> subst hd
  · simp only [Plan2.execObj, warpObj, imageWarp, warpPixels, Int.toNat_natCast]
    rw [channel_map _ _ _ _ _ _ hk]
    simp [Plan2.exec, warpS2, clsOrder, effMode, TObj.app, channel]
  · simp only [Plan2.execObj, warpObj, maskedWarp, warpPixels, Int.toNat_natCast]
    rw [channel_map _ _ _ _ _ _ hk]
    simp [Plan2.exec, warpS2, clsOrder, effMode, TObj.app, channel]
  · simp only [Plan2.execObj, warpObj, booleanWarp, warpPixels, Int.toNat_natCast]
    rw [channel_map _ _ _ _ _ _ hk]
    simp [Plan2.exec, Plan2.runMask, warp2, warpF2, clsOrder, effMode, TObj.app, samplerOf, channel]

/-- class, shape, number of channels and path of the result -/
theorem execObj_frame (p : Plan2) (spl : Spl) (pv : PinvProvider) (o : Obj) (order : Nat) (wl : Bool) :
    (p.execObj spl pv o order wl).cls = o.cls ∧ (p.execObj spl pv o order wl).pix.h = p.h ∧
    (p.execObj spl pv o order wl).pix.w = p.w ∧ (p.execObj spl pv o order wl).pix.ch.length = o.pix.ch.length ∧
    (p.execObj spl pv o order wl).path = o.path := by
  rcases o with ⟨cls, pix, mask, lms, path⟩
  cases cls <;> simp [Plan2.execObj, warpObj, imageWarp, maskedWarp, booleanWarp, warpPixels]

/-- the landmarks of the result: moved by the pseudoinverse closed form of the class of the transform object -/
theorem execObj_lms (p : Plan2) (spl : Spl) (pv : PinvProvider) (o : Obj) (order : Nat) (wl : Bool) :
    (p.execObj spl pv o order wl).lms = if wl then o.lms.map (pinvBy pv p.T).apply else [] := by
  rcases o with ⟨cls, pix, mask, lms, path⟩
  cases cls <;> simp [Plan2.execObj, warpObj, imageWarp, maskedWarp, booleanWarp, warpLms, TObj.pinv, TObj.app]

/-- the mask of a warped `MaskedImage`: the source mask through the SAME `T` with order 0 -/
theorem execObj_mask (p : Plan2) (spl : Spl) (pv : PinvProvider) (o : Obj) (hm : o.cls = .masked) (order : Nat)
    (wl : Bool) : (p.execObj spl pv o order wl).mask = some (p.runMask (maskImg o)) := by
  rcases o with ⟨cls, pix, mask, lms, path⟩
  simp only at hm
  subst hm
  cases mask <;>
    simp [Plan2.execObj, warpObj, maskedWarp, booleanWarp, warpPixels, maskObj, imgOfObj, maskImg, Plan2.runMask, warp2,
      warpF2, clsOrder, effMode, samplerOf, TObj.app]


/-! ### which transform object each operation hands to the funnel: its closed-form pseudoinverse is the inverse -/

theorem pinv_translation (t : V2) : pinvBy .translation (transl2 t) = (transl2 t).inv :=
  pinv_sound .translation .translation rfl _ ⟨rfl, rfl, rfl, rfl⟩

theorem pinv_nonUniformScale (a b : Rat) (ha : a ≠ 0) (hb : b ≠ 0) :
    pinvBy .nonUniformScale (scale2 a b) = (scale2 a b).inv :=
  pinv_sound .nonUniformScale .nonUniformScale rfl _ ⟨rfl, rfl, rfl, rfl, ha, hb⟩

theorem pinv_homogeneous (m : Aff2) : pinvBy .homogeneous m = m.inv := rfl

@[simp] theorem obj_mkRet (rt : Bool) (o : Obj) (T : TObj) : (mkRet rt o T).obj = o := by
  cases rt <;> rfl

/-- the transform an operation returns with `return_transform=True` is the object it handed to the funnel -/
theorem result_transform (p : Plan2) (spl : Spl) (pv : PinvProvider) (o : Obj) (order : Nat) (wl : Bool) :
    p.result spl pv o order wl true = .pair (p.execObj spl pv o order wl) (.fam pv p.T) := rfl

/-! ### PROPERTY, object level: landmarks, returned transform, pixels, mask -/

/-- **the returned transform maps the returned landmarks onto the original ones** (every operation whose transform
object moves landmarks by the inverse of its matrix: `hpv`, discharged per operation below) -/
theorem result_landmarks (p : Plan2) (spl : Spl) (pv : PinvProvider) (o : Obj) (order : Nat) (rt : Bool)
    (hdet : p.T.det ≠ 0) (hpv : pinvBy pv p.T = p.T.inv) :
    (p.result spl pv o order true rt).obj.lms = o.lms.map p.landmark ∧
    ((p.result spl pv o order true rt).obj.lms.map p.T.apply) = o.lms := by
  simp only [Plan2.result, obj_mkRet, execObj_lms, if_true, hpv, List.map_map]
  refine ⟨rfl, ?_⟩
  conv_rhs => rw [← List.map_id o.lms]
  exact List.map_congr_left (fun l _ => Aff2.apply_inv_apply hdet l)

/-- **every channel, every interpolation order**: pixel `(i, j)` of channel `k` of the result is channel `k` of the
source sampled with the effective order (forced by the operation or the caller's) and the mode of the plan at
`T(i, j)`; the class and the number of channels are kept -/
theorem result_pixel (p : Plan2) (spl : Spl) (pv : PinvProvider) (o : Obj) (hd : DtypeOK o) (hcls : o.cls ≠ .boolean)
    (order : Nat) (wl rt : Bool) (k : Nat) (hk : k < o.pix.ch.length) (i j : Int) :
    (channel (p.result spl pv o order wl rt).obj.pix k).px i j
      = samplerOf spl (p.effOrder order) p.mode (channel o.pix k) (p.T.apply (gridPt2 i j)) := by
  simp only [Plan2.result, obj_mkRet, execObj_channel p spl pv o hd order wl k hk]
  exact exec_pixel_any_order p spl o.cls hcls order _ _ _ i j

/-- a `BooleanImage`: order 0 whatever was requested, `cval` cast to `bool` -/
theorem result_pixel_boolean (p : Plan2) (spl : Spl) (pv : PinvProvider) (o : Obj) (hd : DtypeOK o) (hcls : o.cls = .boolean)
    (order : Nat) (wl rt : Bool) (i j : Int) (hk : 0 < o.pix.ch.length) :
    (channel (p.result spl pv o order wl rt).obj.pix 0).px i j
      = (channel o.pix 0).sample .nearest (maskMode p.mode) (p.T.apply (gridPt2 i j)) := by
  simp only [Plan2.result, obj_mkRet, execObj_channel p spl pv o hd order wl 0 hk]
  rw [(exec_parts p spl o.cls order _ _ _).2.2.2 hcls]
  rfl

/-- **the mask is carried by the same mapping**: the mask of a warped `MaskedImage` is the source mask sampled with
order 0 at `T(i, j)` — the same `T` as the pixels — whatever order the pixels were sampled with -/
theorem result_mask (p : Plan2) (spl : Spl) (pv : PinvProvider) (o : Obj) (hm : o.cls = .masked) (order : Nat)
    (wl rt : Bool) :
    ∃ mk', (p.result spl pv o order wl rt).obj.mask = some mk' ∧ mk'.h = p.h ∧ mk'.w = p.w ∧
      ∀ i j : Int, mk'.px i j = (maskImg o).sample .nearest (maskMode p.mode) (p.T.apply (gridPt2 i j)) := by
  refine ⟨p.runMask (maskImg o), ?_, rfl, rfl, fun i j => rfl⟩
  simp only [Plan2.result, obj_mkRet, execObj_mask p spl pv o hm]

/-- **registration at grid landmarks, every interpolation order, every channel**: when the returned landmark is a
grid point of the result, reading channel `k` of the result there (any interpolating sampler) gives channel `k` of
the source sampled — with the order and mode of the warp — at the ORIGINAL landmark -/
theorem result_registration_grid (p : Plan2) (hdet : p.T.det ≠ 0) (spl : Spl) (pv : PinvProvider) (o : Obj)
    (hd : DtypeOK o) (hcls : o.cls ≠ .boolean) (order : Nat) (wl rt : Bool) (S₂ : Sampler2) (hS₂ : Interpolating S₂)
    (k : Nat) (hk : k < o.pix.ch.length) (l : V2) (i j : Int)
    (hi0 : 0 ≤ i) (hi1 : i ≤ (p.h : Int) - 1) (hj0 : 0 ≤ j) (hj1 : j ≤ (p.w : Int) - 1)
    (hgrid : p.landmark l = gridPt2 i j) :
    S₂ (channel (p.result spl pv o order wl rt).obj.pix k) (p.landmark l)
      = samplerOf spl (p.effOrder order) p.mode (channel o.pix k) l := by
  simp only [Plan2.result, obj_mkRet, execObj_channel p spl pv o hd order wl k hk]
  exact (exec_registration_grid_any_order p hdet spl o.cls hcls order _ _ _ S₂ hS₂ l i j hi0 hi1 hj0 hj1 hgrid).1

/-- **registration of affine content, bilinear interpolation, every channel**: when the effective order is 1 and
channel `k` of the source is `a + b·i + c·j`, channel `k` of the result read bilinearly at the returned landmark is
the original content at the original landmark — whenever the landmark's cell is sampled inside the source -/
theorem result_registration_affine (p : Plan2) (hdet : p.T.det ≠ 0) (spl : Spl) (pv : PinvProvider) (o : Obj)
    (hd : DtypeOK o) (hcls : o.cls ≠ .boolean) (order : Nat) (ho : p.effOrder order = 1) (wl rt : Bool) (m₂ : Mode)
    (k : Nat) (hk : k < o.pix.ch.length) (a b c : Rat) (l : V2)
    (hcontent : ∀ i j : Int, 0 ≤ i → i ≤ (o.pix.h : Int) - 1 → 0 ≤ j → j ≤ (o.pix.w : Int) - 1 →
      (channel o.pix k).px i j = a + b * (i : Rat) + c * (j : Rat))
    (hl' : inR p.h (p.landmark l).x ∧ inR p.w (p.landmark l).y)
    (hcell : ∀ i j : Int, 0 ≤ i → i ≤ (p.h : Int) - 1 → 0 ≤ j → j ≤ (p.w : Int) - 1 →
      (p.landmark l).x - 1 < (i : Rat) → (i : Rat) < (p.landmark l).x + 1 →
      (p.landmark l).y - 1 < (j : Rat) → (j : Rat) < (p.landmark l).y + 1 →
      (channel o.pix k).inside (p.T.apply (gridPt2 i j))) :
    (channel (p.result spl pv o order wl rt).obj.pix k).sample .linear m₂ (p.landmark l) = a + b * l.x + c * l.y := by
  simp only [Plan2.result, obj_mkRet, execObj_channel p spl pv o hd order wl k hk]
  have hpx : (p.exec spl o.cls order (channel o.pix k) (maskImg o) o.lms).px
      = warp2 .linear p.mode (channel o.pix k) p.h p.w p.T := by
    cases hc : o.cls with
    | boolean => exact absurd hc hcls
    | image => simp only [Plan2.exec, ho, samplerOf, warpS2, warp2, warpF2]
    | masked => simp only [Plan2.exec, ho, samplerOf, warpS2, warp2, warpF2]
  rw [hpx]
  exact warp_registration_affine2 p.mode m₂ (channel o.pix k) p.h p.w p.T a b c l hdet hcontent hl' hcell


/-! ### PROPERTY for the translated entry points -/

/-- **the property of C01 for one returned value** `R` of an operation on `o`: with `T` the (returned) template →
source map, `ord` / `m` the order and boundary mode that reached the sampler —
the returned transform is `T`; class and channel count are kept; `T` maps the returned landmarks onto the original
ones; every pixel of every channel is the source sampled at `T(pixel)`; the mask is carried by the same `T` -/
structure Registered (spl : Spl) (o : Obj) (R : Ret) (T : Aff2) (ord : Nat) (m : Mode) : Prop where
  transform : ∀ R' t, R = .pair R' t → ∃ pv, t = .fam pv T
  cls : R.obj.cls = o.cls
  nch : R.obj.pix.ch.length = o.pix.ch.length
  lms : R.obj.lms.map T.apply = o.lms
  pix : o.cls ≠ .boolean → ∀ k, k < o.pix.ch.length → ∀ i j : Int,
    (channel R.obj.pix k).px i j = samplerOf spl ord m (channel o.pix k) (T.apply (gridPt2 i j))
  mask : o.cls = .masked → ∃ mk', R.obj.mask = some mk' ∧
    ∀ i j : Int, mk'.px i j = (maskImg o).sample .nearest (maskMode m) (T.apply (gridPt2 i j))

theorem result_registered (p : Plan2) (spl : Spl) (pv : PinvProvider) (o : Obj) (hd : DtypeOK o) (order : Nat) (rt : Bool)
    (hdet : p.T.det ≠ 0) (hpv : pinvBy pv p.T = p.T.inv) :
    Registered spl o (p.result spl pv o order true rt) p.T (p.effOrder order) p.mode where
  transform := by
    intro R' t h
    cases rt <;> simp [Plan2.result, mkRet] at h
    exact ⟨pv, h.2.symm⟩
  cls := by simp only [Plan2.result, obj_mkRet]; exact (execObj_frame p spl pv o order true).1
  nch := by simp only [Plan2.result, obj_mkRet]; exact (execObj_frame p spl pv o order true).2.2.2.1
  lms := (result_landmarks p spl pv o order rt hdet hpv).2
  pix := fun hcls k hk i j => result_pixel p spl pv o hd hcls order true rt k hk i j
  mask := fun hm => by
    obtain ⟨mk', h1, _, _, h2⟩ := result_mask p spl pv o hm order true rt
    exact ⟨mk', h1, h2⟩

theorem ok_of_mapError_eq {α : Type} {g : Except PyExc α} {P : Except Err Plan2} {f : Plan2 → α}
    (h : g.mapError PyExc.toErr = P.map f) {R : α} (hR : g = .ok R) : ∃ p, P = .ok p ∧ R = f p := by
  subst hR
  cases P with
  | error e => simp [Except.mapError, Except.map] at h
  | ok p => exact ⟨p, rfl, by simpa [Except.mapError, Except.map] using h⟩

/-- every entry point that is proved to execute a plan returns a registered value whenever it returns -/
theorem registered_of_eq {spl : Spl} {o : Obj} {pv : PinvProvider} {order : Nat} {rt : Bool} {g : Except PyExc Ret}
    {P : Except Err Plan2} (h : g.mapError PyExc.toErr = P.map (fun p => p.result spl pv o order true rt))
    (hinv : ∀ p, P = .ok p → p.T.det ≠ 0 ∧ pinvBy pv p.T = p.T.inv) (hd : DtypeOK o) {R : Ret} (hR : g = .ok R) :
    ∃ p, P = .ok p ∧ Registered spl o R p.T (p.effOrder order) p.mode := by
  obtain ⟨p, hp, rfl⟩ := ok_of_mapError_eq h hR
  exact ⟨p, hp, result_registered p spl pv o hd order rt (hinv p hp).1 (hinv p hp).2⟩

theorem rescale_plan_pinv {h w : Nat} {sx sy : Rat} {r : Rounding} {p : Plan2} (hp : rescalePlan2 h w sx sy r = .ok p) :
    pinvBy .nonUniformScale p.T = p.T.inv := by
  have hnd := rescalePlan2_ok_nd hp
  unfold rescalePlan2 at hp
  simp only [hnd, if_false] at hp
  split at hp
  · cases hp
  · cases hp
    exact pinv_nonUniformScale _ _ (one_div_ne_zero fun e => hnd (Or.inr (Or.inr (Or.inl e))))
      (one_div_ne_zero fun e => hnd (Or.inr (Or.inr (Or.inr e))))

/-- **`Image.rescale`, translated from the source**: whenever it returns (with `warp_landmarks=True`), the returned
image is registered through `NonUniformScale(1 / index-space factors)`, sampled with the caller's order, mode
`nearest` -/
theorem genRescale_registered (spl : Spl) (o : Obj) (hd : DtypeOK o) (sx sy : Rat) (r : Rounding) (order : Nat) (rt : Bool)
    (hnd : ¬ (o.pix.h < 2 ∨ o.pix.w < 2 ∨ scaleFactor o.pix.h sx = 0 ∨ scaleFactor o.pix.w sy = 0)) (R : Ret)
    (hR : genRescale spl o (.seq [sx, sy]) r.name order true rt = .ok R) :
    ∃ p, rescalePlan2 o.pix.h o.pix.w sx sy r = .ok p ∧ Registered spl o R p.T order .nearest := by
  obtain ⟨p, hp, hreg⟩ := registered_of_eq (genRescale_seq_eq spl o sx sy r order true rt hnd)
    (fun p hp => ⟨rescale_plan_invertible hp, rescale_plan_pinv hp⟩) hd hR
  have hf := rescale_plan_fields hp
  simp only [Plan2.effOrder, hf.2.2, hf.2.1] at hreg
  exact ⟨p, hp, hreg⟩

/-- **`Image.resize`** -/
theorem genResize_registered (spl : Spl) (o : Obj) (hd : DtypeOK o) (nh nw : Rat) (order : Nat) (rt : Bool)
    (hnd : ¬ (o.pix.h < 2 ∨ o.pix.w < 2 ∨ scaleFactor o.pix.h (nh / o.pix.h) = 0 ∨ scaleFactor o.pix.w (nw / o.pix.w) = 0))
    (R : Ret) (hR : genResize spl o ⟨nh, nw⟩ order true rt = .ok R) :
    ∃ p, resizePlan2 o.pix.h o.pix.w nh nw = .ok p ∧ Registered spl o R p.T (p.effOrder order) p.mode := by
  refine registered_of_eq (genResize_eq spl o nh nw order true rt hnd) (fun p hp => ?_) hd hR
  unfold resizePlan2 at hp
  split at hp
  · cases hp
  · exact ⟨rescale_plan_invertible hp, rescale_plan_pinv hp⟩

/-- **`Image.rescale_to_diagonal`**: the order is the DEFAULT of `rescale` as its source says now (1) -/
theorem genRescaleToDiagonal_registered (spl : Spl) (sqrtF : Rat → Rat) (o : Obj) (hd : DtypeOK o) (d dg : Rat)
    (r : Rounding) (rt : Bool) (hdg : sqrtF ((o.pix.h : Rat) * o.pix.h + (o.pix.w : Rat) * o.pix.w) = dg) (hpos : 0 < dg)
    (hnd : ¬ (o.pix.h < 2 ∨ o.pix.w < 2 ∨ scaleFactor o.pix.h (d / dg) = 0 ∨ scaleFactor o.pix.w (d / dg) = 0)) (R : Ret)
    (hR : genRescaleToDiagonal spl sqrtF o d r.name true rt = .ok R) :
    ∃ p, rescaleToDiagonalPlan2 o.pix.h o.pix.w d dg r = .ok p ∧ Registered spl o R p.T 1 .nearest := by
  have hinv : ∀ p, rescaleToDiagonalPlan2 o.pix.h o.pix.w d dg r = .ok p →
      p.T.det ≠ 0 ∧ pinvBy .nonUniformScale p.T = p.T.inv := by
    intro p hp
    refine ⟨(rescale_to_diagonal_plan hp).1, ?_⟩
    unfold rescaleToDiagonalPlan2 at hp
    split at hp
    · cases hp
    · cases hq : rescalePlan2 o.pix.h o.pix.w (d / dg) (d / dg) r with
      | error e => simp [hq] at hp
      | ok q => simp only [hq, Except.ok.injEq] at hp; subst hp; exact (rescale_plan_pinv hq : pinvBy .nonUniformScale q.T = q.T.inv)
  obtain ⟨p, hp, hreg⟩ := registered_of_eq (order := 0)
    (genRescaleToDiagonal_eq spl sqrtF o d dg r 0 true rt hdg hpos hnd) hinv hd hR
  have hf := rescale_to_diagonal_plan hp
  simp only [Plan2.effOrder, hf.2.1, hf.2.2.1] at hreg
  exact ⟨p, hp, hreg⟩

/-- **`Image.zoom`** -/
theorem genZoom_registered (spl : Spl) (o : Obj) (hd : DtypeOK o) (s : Rat) (order : Nat) (rt : Bool) (R : Ret)
    (hR : genZoom spl o s order true rt = .ok R) :
    ∃ p, zoomPlan2 o.pix.h o.pix.w s = .ok p ∧ Registered spl o R p.T (p.effOrder order) p.mode :=
  registered_of_eq (genZoom_eq spl o s order true rt) (fun _ hp => ⟨zoom_plan_invertible hp, rfl⟩) hd hR

/-- **`Image.mirror`** -/
theorem genMirror_registered (spl : Spl) (o : Obj) (hd : DtypeOK o) (axis : Nat) (order : Nat) (rt : Bool) (R : Ret)
    (hR : genMirror spl o (axis : Int) order true rt = .ok R) :
    ∃ p, mirrorPlan2 o.pix.h o.pix.w axis = .ok p ∧ Registered spl o R p.T (p.effOrder order) p.mode :=
  registered_of_eq (genMirror_eq spl o axis order true rt) (fun _ hp => ⟨mirror_plan_invertible hp, rfl⟩) hd hR

/-- **`Image.transform_about_centre`** with any member of the homogeneous family, `retain_shape` on or off -/
theorem genTransformAboutCentre_registered (spl : Spl) (o : Obj) (hd : DtypeOK o) (pv : PinvProvider) (A : Aff2)
    (retain : Bool) (mode : String) (cval : Rat) (r : Rounding) (order : Nat) (rt : Bool) (hdet : A.det ≠ 0) (R : Ret)
    (hR : genTransformAboutCentre spl o (.fam pv A) retain mode cval r.name order true rt = .ok R) :
    ∃ p, aboutPlan2 o.pix.h o.pix.w A retain (modeOf mode cval) r = .ok p ∧
      Registered spl o R p.T (p.effOrder order) p.mode :=
  registered_of_eq (genTransformAboutCentre_eq spl o pv A retain mode cval r order true rt hdet)
    (fun _ hp => ⟨about_plan_invertible hp, rfl⟩) hd hR

/-- **`Image.rotate_ccw_about_centre`**: any angle (`c² + s² = 1` is all the proof needs of cos and sin) -/
theorem genRotateCcwAboutCentre_registered (spl : Spl) (o : Obj) (hd : DtypeOK o) (c s : Rat) (hcs : c * c + s * s = 1)
    (degrees retain : Bool) (mode : String) (cval : Rat) (r : Rounding) (order : Nat) (rt : Bool) (R : Ret)
    (hR : genRotateCcwAboutCentre spl o (c, s) degrees retain mode cval r.name order true rt = .ok R) :
    ∃ p, rotatePlan2 o.pix.h o.pix.w c s retain (modeOf mode cval) r = .ok p ∧
      Registered spl o R p.T (p.effOrder order) p.mode := by
  have hdet : (rot2 c s).det ≠ 0 := by
    have : (rot2 c s).det = 1 := by simp only [rot2, Aff2.det]; linarith
    rw [this]; exact one_ne_zero
  exact registered_of_eq (genRotateCcwAboutCentre_eq spl o c s degrees retain mode cval r order true rt hdet)
    (fun _ hp => ⟨about_plan_invertible hp, rfl⟩) hd hR


/-! ### the crop family: pixels copied as a block — exact for arbitrary content, every class, sub-pixel landmarks -/

theorem truncR_intCast (z : Int) : truncR (z : Rat) = z := by
  unfold truncR
  split_ifs with h
  · have : ((-z : Int) : Rat) = -(z : Rat) := by push_cast; rfl
    rw [← this, Rat.floor_intCast]; omega
  · exact Rat.floor_intCast z

/-- **`Image.crop` as the source has it now** (`warp_to_shape` with `Translation(min_bounded)` and order 0, then the
pixels overwritten by the block of the source): the result is `p.h × p.w`, every pixel of every channel is EXACTLY the
source pixel `(i + r, j + s)` (any class, any content — nothing is resampled), the landmarks are shifted by the same
integer offset, the returned `Translation` maps them back, the mask of a `MaskedImage` goes through the same
translation, and sampling any channel of the result at a returned (sub-pixel) landmark gives the source sampled at the
original landmark -/
theorem cropResult_exact (spl : Spl) (o : Obj) (mn mx : V2) (cb : Bool) (p : Plan2)
    (hp : cropPlan2 o.pix.h o.pix.w mn mx cb = .ok p) (rt : Bool) :
    ∃ r s : Int, 0 ≤ r ∧ 0 ≤ s ∧ p.T = transl2 ⟨(r : Rat), (s : Rat)⟩ ∧
      (p.cropResult spl o rt).obj.cls = o.cls ∧ (p.cropResult spl o rt).obj.pix.h = p.h ∧
      (p.cropResult spl o rt).obj.pix.w = p.w ∧
      (p.cropResult spl o rt).obj.pix.ch.length = o.pix.ch.length ∧
      (p.cropResult spl o rt).obj.lms = o.lms.map (fun l => ⟨l.x - (r : Rat), l.y - (s : Rat)⟩) ∧
      (p.cropResult spl o rt).obj.lms.map p.T.apply = o.lms ∧
      (∀ k, k < o.pix.ch.length → ∀ i j : Int,
        (channel (p.cropResult spl o rt).obj.pix k).px i j = (channel o.pix k).px (i + r) (j + s)) ∧
      (o.cls = .masked → (p.cropResult spl o rt).obj.mask = some (p.runMask (maskImg o))) ∧
      (∀ k, k < o.pix.ch.length → ∀ (o' : Interp) (m₂ : Mode) (l : V2),
        inR p.h (p.landmark l).x ∧ inR p.w (p.landmark l).y →
        (channel (p.cropResult spl o rt).obj.pix k).sample o' m₂ (p.landmark l) = (channel o.pix k).core o' l) := by
  obtain ⟨r, s, hr0, hs0, hT, ho, hfh, hfw⟩ := crop_region_inside hp
  have hdet := crop_plan_invertible hp
  have hpv : pinvBy .translation p.T = p.T.inv := by rw [hT]; exact pinv_translation _
  have hlm : ∀ l : V2, p.landmark l = ⟨l.x - (r : Rat), l.y - (s : Rat)⟩ := by
    intro l; unfold Plan2.landmark; rw [hT]
    ext <;> simp [transl2, Aff2.inv, Aff2.det, Aff2.apply] <;> ring
  have hobj : (p.cropResult spl o rt).obj
      = { (p.execObj spl .translation o 0 true) with
          pix := { (p.execObj spl .translation o 0 true).pix with
            ch := o.pix.ch.map (fun f i j => f (r + i) (s + j)) } } := by
    cases rt <;>
      simp [Plan2.cropResult, Plan2.result, mkRet, Ret.setPixels, Ret.mapObj, Ret.obj, pixelBlock, hT, transl2,
        truncR_intCast]
  have hfr := execObj_frame p spl .translation o 0 true
  have hpx : ∀ k, k < o.pix.ch.length → ∀ i j : Int,
      (channel (p.cropResult spl o rt).obj.pix k).px i j = (channel o.pix k).px (i + r) (j + s) := by
    intro k hk i j
    rw [hobj]
    simp only [channel, List.getD_eq_getElem?_getD, List.getElem?_map, List.getElem?_eq_getElem hk, Option.map_some,
      Option.getD_some]
    rw [add_comm r i, add_comm s j]
  refine ⟨r, s, hr0, hs0, hT, ?_, ?_, ?_, ?_, ?_, ?_, hpx, ?_, ?_⟩
  · rw [hobj]; exact hfr.1
  · rw [hobj]; exact hfr.2.1
  · rw [hobj]; exact hfr.2.2.1
  · rw [hobj]; simp
  · rw [hobj]
    simp only [execObj_lms, if_true, hpv]
    exact List.map_congr_left (fun l _ => hlm l)
  · rw [hobj]
    simp only [execObj_lms, if_true, hpv, List.map_map]
    conv_rhs => rw [← List.map_id o.lms]
    exact List.map_congr_left (fun l _ => Aff2.apply_inv_apply hdet l)
  · intro hm; rw [hobj]; exact execObj_mask p spl .translation o hm 0 true
  · intro k hk o' m₂ l hl'
    have hh : (channel (p.cropResult spl o rt).obj.pix k).h = p.h := by rw [hobj]; exact hfr.2.1
    have hw : (channel (p.cropResult spl o rt).obj.pix k).w = p.w := by rw [hobj]; exact hfr.2.2.1
    have hin : (channel (p.cropResult spl o rt).obj.pix k).inside (p.landmark l) := by
      unfold Img2.inside; rw [hh, hw]; exact hl'
    rw [sample2_of_inside _ _ _ hin]
    have hl : l = ⟨(p.landmark l).x + (r : Rat), (p.landmark l).y + (s : Rat)⟩ := by
      rw [hlm l]; ext <;> simp
    conv_rhs => rw [hl]
    unfold Img2.core
    rw [hh, hw]
    show axis1 o' p.h _ (p.landmark l).x = axis1 o' o.pix.h _ ((p.landmark l).x + (r : Rat))
    apply axis1_shift o' hr0 hfh hl'.1
    intro i hi0 hi1
    show axis1 o' p.w _ (p.landmark l).y = axis1 o' o.pix.w _ ((p.landmark l).y + (s : Rat))
    apply axis1_shift o' hs0 hfw hl'.2
    intro j hj0 hj1
    exact hpx k hk i j

/-- **the crop family, translated**: `crop`, `crop_to_pointcloud`, `crop_to_landmarks`, their `_proportion` variants
and `MaskedImage.crop_to_true_mask` all return `Plan2.cropResult` of a crop plan, hence `cropResult_exact` -/
theorem genCrop_exact (spl : Spl) (o : Obj) (mn mx : V2) (cb rt : Bool) (R : Ret)
    (hR : genCrop spl o mn mx cb rt = .ok R) :
    ∃ p, cropPlan2 o.pix.h o.pix.w mn mx cb = .ok p ∧ R = p.cropResult spl o rt :=
  ok_of_mapError_eq (genCrop_eq spl o mn mx cb rt) hR

theorem genCropToLandmarks_exact (spl : Spl) (o : Obj) (group : Option String) (boundary : Rat) (cb rt : Bool) (R : Ret)
    (hR : genCropToLandmarks spl o group boundary cb rt = .ok R) :
    ∃ p mn mx, cropPlan2 o.pix.h o.pix.w mn mx cb = .ok p ∧ R = p.cropResult spl o rt := by
  obtain ⟨p, hp, h⟩ := ok_of_mapError_eq (genCropToLandmarks_eq spl o group boundary cb rt) hR
  exact ⟨p, _, _, hp, h⟩

theorem genCropToLandmarksProportion_exact (spl : Spl) (o : Obj) (prop : Rat) (group : Option String)
    (minimum cb rt : Bool) (R : Ret) (hR : genCropToLandmarksProportion spl o prop group minimum cb rt = .ok R) :
    ∃ p mn mx, cropPlan2 o.pix.h o.pix.w mn mx cb = .ok p ∧ R = p.cropResult spl o rt := by
  obtain ⟨p, hp, h⟩ := ok_of_mapError_eq (genCropToLandmarksProportion_eq spl o prop group minimum cb rt) hR
  exact ⟨p, _, _, hp, h⟩


theorem genCropToTrueMask_exact (spl : Spl) (o : Obj) (mk : Img2) (boundary : Rat) (cb rt : Bool)
    (hm : o.mask = some mk) (hh : mk.h = o.pix.h) (hw : mk.w = o.pix.w) (R : Ret)
    (hR : genCropToTrueMask spl o boundary cb rt = .ok R) :
    ∃ p mn mx, cropPlan2 o.pix.h o.pix.w mn mx cb = .ok p ∧ R = p.cropResult spl o rt := by
  obtain ⟨p, hp, h⟩ := ok_of_mapError_eq (genCropToTrueMask_eq spl o mk boundary cb rt hm hh hw) hR
  unfold cropToTrueMaskPlan2 at hp
  split at hp
  · cases hp
  · rw [hh, hw] at hp
    exact ⟨p, _, _, hp, h⟩

/-! ### direct warps: the funnel for ANY transform object (piecewise affine, thin plate spline, chain) -/

/-- **`self.warp_to_shape(shape, T, …)` on any class, any transform object** (the class dispatch the translator writes
at every call site is `warpObj`: `warp_dispatch`): every channel is the source sampled at `T.apply(pixel)` — Boolean
images with order 0 —, the landmarks are `T.pseudoinverse().apply(landmarks)`, the mask goes through the same `T` -/
theorem warpObj_funnel (spl : Spl) (o : Obj) (shape : IVec) (T : TObj) (wl : Bool) (order : Nat) (mode : String)
    (cval : Rat) :
    (warpObj spl o shape T wl order mode cval).cls = o.cls ∧
    (warpObj spl o shape T wl order mode cval).lms = (if wl then o.lms.map T.pinv.app else []) ∧
    (∀ k, k < o.pix.ch.length → ∀ i j : Int,
      (channel (warpObj spl o shape T wl order mode cval).pix k).px i j
        = samplerOf spl (clsOrder o.cls order) (effMode o.pix.isBool mode cval) (channel o.pix k) (T.app (gridPt2 i j))) ∧
    (o.cls = .masked → ∃ mk', (warpObj spl o shape T wl order mode cval).mask = some mk' ∧ ∀ i j : Int,
      mk'.px i j = (maskImg o).sample .nearest (maskMode (modeOf mode cval)) (T.app (gridPt2 i j))) := by
  rcases o with ⟨cls, ⟨h, w, ch, isb⟩, mask, lms, path⟩
  refine ⟨?_, ?_, ?_, ?_⟩
  · cases cls <;> rfl
  · cases cls <;> rfl
  · intro k hk i j
    simp only at hk
    cases cls <;>
      simp [warpObj, imageWarp, maskedWarp, booleanWarp, warpPixels, channel, List.getD_eq_getElem?_getD, hk, clsOrder]
  · intro hm
    simp only at hm
    subst hm
    cases mask <;>
      simp [warpObj, maskedWarp, booleanWarp, warpPixels, maskObj, imgOfObj, maskImg, clsOrder, effMode, samplerOf]

/-! ### the pyramids: every level is the pyramid-step plan executed on the previous one -/

/-- consecutive elements are related by `step` -/
inductive Steps {ε : Type} (step : Obj → Except ε Obj) : Obj → List Obj → Prop
  | nil (a : Obj) : Steps step a []
  | cons {a b : Obj} {M : List Obj} : step a = .ok b → Steps step b M → Steps step a (b :: M)

theorem levelsFrom_steps {ε : Type} (step : Obj → Except ε Obj) : ∀ (n : Nat) (L : List Obj) (cur : Obj) (R : List Obj),
    levelsFrom step n L cur = .ok R → ∃ M, R = L ++ M ∧ M.length = n ∧ Steps step cur M := by
  intro n
  induction n with
  | zero => intro L cur R h; exact ⟨[], by simpa [levelsFrom] using h.symm, rfl, .nil cur⟩
  | succ n ih =>
    intro L cur R h
    simp only [levelsFrom] at h
    cases hs : step cur with
    | error e => simp [hs] at h
    | ok b =>
      rw [hs] at h
      obtain ⟨M, hR, hlen, hst⟩ := ih _ _ _ h
      exact ⟨b :: M, by simp [hR], by simp [hlen], .cons hs hst⟩

/-- **`Image.pyramid`, translated**: when the plan-level pyramid is defined the generator yields the image itself
followed by `n_levels − 1` images, each of which is the `rescale(1 / downscale)` plan (order 1, mode `nearest`)
executed through the funnel on the previous level; so (`result_registered`) consecutive levels are registered -/
theorem genPyramid_steps (spl : Spl) (o : Obj) (n : Int) (ds : Rat) (L : List Obj)
    (h : levelsObj (pyramidStepObj spl ds) (n - 1).toNat o = .ok L) :
    genPyramid spl o n ds = .ok L ∧ ∃ M, L = o :: M ∧ M.length = (n - 1).toNat ∧ Steps (pyramidStepObj spl ds) o M := by
  refine ⟨genPyramid_levels spl o n ds L h, ?_⟩
  obtain ⟨M, hL, hlen, hst⟩ := levelsFrom_steps _ _ _ _ _ h
  exact ⟨M, by simpa using hL, hlen, hst⟩

/-- one pyramid step keeps the class / dtype discipline and returns a registered level -/
theorem pyramidStepObj_registered (spl : Spl) (ds : Rat) (a b : Obj) (hd : DtypeOK a)
    (h : pyramidStepObj spl ds a = .ok b) :
    DtypeOK b ∧ ∃ p, pyramidStep2 a.pix.h a.pix.w ds = .ok p ∧ Registered spl a (.img b) p.T 1 .nearest := by
  unfold pyramidStepObj at h
  cases hp : pyramidStep2 a.pix.h a.pix.w ds with
  | error e => simp [hp, Except.map] at h
  | ok p =>
    simp only [hp, Except.map, Except.ok.injEq] at h
    subst h
    have hp' := hp
    unfold pyramidStep2 at hp'
    split at hp'
    · cases hp'
    · cases hq : rescalePlan2 a.pix.h a.pix.w (1 / ds) (1 / ds) .ceil with
      | error e => rw [hq] at hp'; cases hp'
      | ok q =>
        rw [hq] at hp'
        cases hp'
        have hreg := result_registered (q.withOrder .linear) spl .nonUniformScale a hd 1 false
          (rescale_plan_invertible hq : q.T.det ≠ 0) (rescale_plan_pinv hq : pinvBy .nonUniformScale q.T = q.T.inv)
        have hm : (q.withOrder .linear).mode = .nearest := (rescale_plan_fields hq).2.1
        have ho : (q.withOrder .linear).effOrder 1 = 1 := rfl
        rw [ho, hm] at hreg
        refine ⟨?_, _, rfl, hreg⟩
        rcases a with ⟨cls, pix, mask, lms, path⟩
        simp only [DtypeOK] at hd ⊢
        cases cls <;> simp_all [Plan2.execObj, warpObj, imageWarp, maskedWarp, booleanWarp, warpPixels]


/-! ### non-vacuity: the translated entry points compute, and the hypotheses are satisfiable -/

def exSpl0 : Spl := fun _ m => Img2.sample .linear m
/-- a two-channel 4×9 `MaskedImage` with two landmarks and a path -/
def exObj : Obj :=
  ⟨.masked, ⟨4, 9, [fun i j => (i : Rat) + 2 * j, fun i j => (i : Rat) * j], false⟩,
   some ⟨4, 9, fun i j => if i + j < 9 then 1 else 0⟩, [⟨3, 8⟩, ⟨1, 2⟩], some "p"⟩

example : DtypeOK exObj := by unfold DtypeOK; decide
example : ¬ (exObj.pix.h < 2 ∨ exObj.pix.w < 2 ∨ scaleFactor exObj.pix.h (1/2) = 0 ∨ scaleFactor exObj.pix.w (1/2) = 0) := by
  decide +kernel
/-- the translated `rescale` on that object: shape, landmarks, one pixel per channel, one mask pixel -/
example : (genRescale exSpl0 exObj (.seq [1/2, 1/2]) "ceil" 1 true true).toOption.map
    (fun r => (r.obj.pix.h, r.obj.pix.w, r.obj.lms, r.obj.pix.ch.map (fun f => f 1 1), r.obj.mask.map (fun m => m.px 1 4)))
    = some (2, 5, [⟨1, 7/2⟩, ⟨1/3, 7/8⟩], [53/7, 48/7], some 0) := by decide +kernel
example : (genRescale exSpl0 exObj (.scalar (1/2)) "ceil" 1 true false).toOption.map (fun r => (r.obj.pix.h, r.obj.pix.w))
    = (genRescale exSpl0 exObj (.seq [1/2, 1/2]) "ceil" 1 true false).toOption.map (fun r => (r.obj.pix.h, r.obj.pix.w)) := by
  decide +kernel
example : (genRescale exSpl0 exObj (.seq [1/2]) "ceil" 1 true true).toOption.isNone = true := by decide +kernel
example : (genRescale exSpl0 exObj (.seq [1/2, -1]) "ceil" 1 true true).toOption.isNone = true := by decide +kernel
example : (genRescale exSpl0 exObj (.scalar (1/2)) "cel" 1 true true).toOption.isNone = true := by decide +kernel
/-- the translated `crop`: fractional bounds are floored / ceiled, pixels copied, landmarks shifted -/
example : (genCrop exSpl0 exObj ⟨1/2, 2⟩ ⟨3, 6⟩ false true).toOption.map
    (fun r => (r.obj.pix.h, r.obj.pix.w, r.obj.lms, r.obj.pix.ch.map (fun f => f 1 1)))
    = some (3, 4, [⟨3, 6⟩, ⟨1, 0⟩], [7, 3]) := by decide +kernel
example : (genCrop exSpl0 exObj ⟨-1/2, 2⟩ ⟨3, 6⟩ false true).toOption.isNone = true := by decide +kernel
example : (genCrop exSpl0 exObj ⟨-1/2, 2⟩ ⟨3, 6⟩ true true).toOption.map (fun r => (r.obj.pix.h, r.obj.pix.w)) = some (3, 4) := by
  decide +kernel
example : (genRotateCcwAboutCentre exSpl0 exObj (3/5, 4/5) true false "constant" 0 "round" 1 true true).toOption.map
    (fun r => (r.obj.pix.h, r.obj.pix.w, r.obj.lms)) = some (9, 8, [⟨9/5, 36/5⟩, ⟨27/5, 2⟩]) := by decide +kernel
example : (genMirror exSpl0 exObj 1 1 true true).toOption.map (fun r => r.obj.lms) = some [⟨3, 0⟩, ⟨1, 6⟩] := by
  decide +kernel
example : (genZoom exSpl0 exObj 0 1 true true).toOption.isNone = true := by decide +kernel
example : (genPyramid exSpl0 exObj 3 2).toOption.map (fun l => l.map (fun o => (o.pix.h, o.pix.w, o.lms.length)))
    = some [(4, 9, 2), (2, 5, 2), (1, 3, 2)] := by decide +kernel
example : (genCropToTrueMask exSpl0 exObj 0 true true).toOption.map (fun r => (r.obj.pix.h, r.obj.pix.w)) = some (3, 8) := by
  decide +kernel

end MenpoModel.C01.GenProps
