/-
C11 — the obligations over `Generated/C11Src.lean` (the anchored functions of menpo/model/gmrf.py, menpo/model/pca.py and
menpo/math/decomposition.py TRANSLATED from the source text of the current working tree on every run by
harness/trans_c11.py): every translated definition equals, for all arguments, the hand-written definition `Src.*` of
Core/C11Src.lean, which Lemmas/C11Src.lean ties to the model of Core/C11.lean and Props/C11Src.lean states the property
theorems about.  The proofs are shape-independent: unfold, rewrite the callees by their own equalities, turn a loop
body into `optLoop step` by case analysis on every `if` / `match` + `simp_all`, compare arithmetic with `ring`; a
renamed temporary, re-ordered independent statements or an inverted test keep them, a changed decision (dropped branch,
swapped argument, off-by-one) breaks them.
-/
import MenpoModel.Generated.C11Src
import MenpoModel.Props.C11SrcPca
import Mathlib.Tactic.Ring
import Mathlib.Tactic.SplitIfs

set_option linter.unusedSimpArgs false
set_option linter.unusedTactic false
set_option linter.unreachableTactic false

namespace MenpoModel.GenProps.C11Src
open MenpoModel.C11 MenpoModel.C11.NP MenpoModel.Generated.C11Src MenpoModel.Py

/-- closes `translated loop body = optLoop step` after the definitions are unfolded: whatever the nesting of the
branches (copied continuations or one conditional update), decide every `if` / `match`, then rewrite with what was
decided -/
macro "np_leaf" : tactic => `(tactic| first
  | rfl
  | (cases h : Src.incCov _ _ _ _ _ <;> simp_all [shape0, shape1]; done)
  | (simp_all [shape0, shape1]; done)
  | ((repeat' split) <;> first | rfl | (simp_all [shape0, shape1]; done)))
macro "np_cases" : tactic => `(tactic| first | (split_ifs <;> np_leaf) | np_leaf)

theorem genIncMean_eq (X : M) (m : V) (n : Rat) : genIncMean X m n = Src.incMean X m n := by
  unfold genIncMean Src.incMean
  apply V.ext'
  · simp [shape0, sum0]; try omega
  · funext i; simp [shape0, sum0]; try ring

theorem genIncCov_eq (X : M) (m : V) (S : M) (n : Rat) (bias : Nat) :
    genIncCov X m S n bias = Src.incCov X m S n bias := by
  unfold genIncCov Src.incCov
  simp only [genIncMean_eq]
  split <;> [skip; split] <;> simp_all [shape0, dot, T, row]
  all_goals (apply M.ext' <;> first | (funext i j; simp; done) | (funext i j; simp; ring) | (simp; done) | (simp; omega))

theorem loop_congr {σ α : Type} (s0 : σ) (xs : List α) (f g : σ → α → σ) (h : ∀ a i, f a i = g a i) :
    forLoop s0 xs f = forLoop s0 xs g := by
  have : f = g := by funext a i; exact h a i
  rw [this]

theorem genIncDenseDiag_eq (inv : M → Option Nat → M) (X : M) (mean : V) (covs : Nat → M) (n : Rat) (graph : Graph)
    (nf k : Nat) (nc : Option Nat) (bias : Nat) :
    genIncDenseDiag inv X mean covs n graph nf k nc bias = Src.incDenseDiag inv X mean covs n graph nf k nc bias := by
  unfold genIncDenseDiag Src.incDenseDiag
  simp only [genIncCov_eq]
  rw [loop_congr _ _ _ (optLoop (Src.denseDiagStep inv X mean n k nc bias)) (by
    intro acc it
    simp only [optLoop, Src.denseDiagStep, ite_fst, ite_snd]
    split
    · rfl
    · np_cases)]
  cases h : (List.range graph.nVertices).foldlM (Src.denseDiagStep inv X mean n k nc bias) (covs, zeros nf nf) with
  | none => rw [(forLoop_optLoop _ _ _).2 h]; rfl
  | some s => rw [(forLoop_optLoop _ _ _).1 s h]; rfl

theorem contains_modes (mode : String) :
    (List.contains ["concatenation", "subtraction"] mode) = (mode == "concatenation" || mode == "subtraction") := by
  simp only [List.contains_cons, List.contains_nil, Bool.or_false]

theorem genIncDense_eq (mode : String) (inv : M → Option Nat → M) (X : M) (mean : V) (covs : Nat → M) (n : Rat)
    (graph : Graph) (nf k : Nat) (nc : Option Nat) (bias : Nat) :
    genIncDense mode inv X mean covs n graph nf k nc bias = Src.incDense mode inv X mean covs n graph nf k nc bias := by
  unfold genIncDense Src.incDense
  simp only [genIncCov_eq, contains_modes]
  by_cases hm : (mode == "concatenation" || mode == "subtraction") = true
  · simp only [hm, Bool.not_true, Bool.false_eq_true, if_false, if_true]
    rw [loop_congr _ _ _ (optLoop (Src.denseStep mode inv X mean n graph k nc bias)) (by
      intro acc it
      simp only [optLoop, Src.denseStep, Src.edgeData, Src.edgeMean, Src.storeDense, ite_fst, ite_snd]
      split
      · rfl
      · np_cases)]
    cases h : (List.range graph.nEdges).foldlM (Src.denseStep mode inv X mean n graph k nc bias) (covs, zeros nf nf) with
    | none => rw [(forLoop_optLoop _ _ _).2 h]; rfl
    | some s => rw [(forLoop_optLoop _ _ _).1 s h]; rfl
  · simp [hm]

theorem indptr_loop_eq (rows : V) (nv : Nat) (init : V) :
    forLoop init (List.range nv) (fun acc0 it0 =>
        if (size (whereEq rows it0) == 0) = true then setItem acc0 (it0 + 1) (getItem acc0 it0)
        else setItem (setItem acc0 it0 (first (whereEq rows it0))) (it0 + 1) (last (whereEq rows it0) + 1))
      = (List.range nv).foldl (Src.indptrStep rows) init := by
  simp only [forLoop_eq_foldl]
  rfl

/-- the tail of the sparse builders: the assembled matrix only depends on what the `indptr` loop body computes -/
theorem bsr_loop_congr {α : Type} (b : B3) (c init : V) (xs : List Nat) (f g : V → Nat → V) (nf : Nat) (x : α)
    (h : ∀ a i, f a i = g a i) :
    some (bsr b c (forLoop init xs f) nf nf, x) = some (bsr b c (xs.foldl g init) nf nf, x) := by
  have : f = g := by funext a i; exact h a i
  rw [this]; rfl

theorem genIncSparseDiag_eq (inv : M → Option Nat → M) (X : M) (mean : V) (covs : Nat → M) (n : Rat) (graph : Graph)
    (nf k : Nat) (nc : Option Nat) (bias : Nat) :
    genIncSparseDiag inv X mean covs n graph nf k nc bias = Src.incSparseDiag inv X mean covs n graph nf k nc bias := by
  unfold genIncSparseDiag Src.incSparseDiag
  simp only [genIncCov_eq]
  rw [loop_congr _ _ _ (optLoop (Src.sparseDiagStep inv X mean n k nc bias)) (by
    intro acc it
    simp only [optLoop, Src.sparseDiagStep, ite_fst, ite_snd]
    split
    · rfl
    · np_cases)]
  cases h : (List.range graph.nVertices).foldlM (Src.sparseDiagStep inv X mean n k nc bias)
      (covs, zeros3 graph.nVertices k k, zerosV graph.nVertices, zerosV graph.nVertices) with
  | none => rw [(forLoop_optLoop _ _ _).2 h]; rfl
  | some s =>
    rw [(forLoop_optLoop _ _ _).1 s h]
    simp only [Src.assemble, Option.map_some]
    first
      | rfl
      | exact bsr_loop_congr _ _ _ _ _ _ _ _ (by
          intro acc it
          simp only [Src.indptrStep, ite_fst, ite_snd]
          split_ifs <;> simp_all [Nat.pos_iff_ne_zero])

theorem genIncSparse_eq (mode : String) (inv : M → Option Nat → M) (X : M) (mean : V) (covs : Nat → M) (n : Rat)
    (graph : Graph) (nf k : Nat) (nc : Option Nat) (bias : Nat) :
    genIncSparse mode inv X mean covs n graph nf k nc bias = Src.incSparse mode inv X mean covs n graph nf k nc bias := by
  unfold genIncSparse Src.incSparse
  simp only [genIncCov_eq, contains_modes]
  by_cases hm : (mode == "concatenation" || mode == "subtraction") = true
  · simp only [hm, Bool.not_true, Bool.false_eq_true, if_false, if_true]
    rw [loop_congr _ _ _ (optLoop (Src.sparseStep mode inv X mean n graph k nc bias)) (by
      intro acc it
      simp only [optLoop, Src.sparseStep, Src.edgeData, Src.edgeMean, Src.storeSparse, Src.push, ite_fst, ite_snd]
      split
      · rfl
      · np_cases)]
    cases h : (List.range graph.nEdges).foldlM (Src.sparseStep mode inv X mean n graph k nc bias)
        (covs, -1, zeros3 (graph.nEdges * 4) k k, zerosV (graph.nEdges * 4), zerosV (graph.nEdges * 4)) with
    | none => rw [(forLoop_optLoop _ _ _).2 h]; rfl
    | some s =>
      rw [(forLoop_optLoop _ _ _).1 s h]
      simp only [Src.assemble, Option.map_some]
      first
        | rfl
        | exact bsr_loop_congr _ _ _ _ _ _ _ _ (by
            intro acc it
            simp only [Src.indptrStep, ite_fst, ite_snd]
            split_ifs <;> simp_all [Nat.pos_iff_ne_zero])
  · simp [hm]

theorem genDataToMatrix_eq (data : Samples) (nsamples : Option Nat) :
    genDataToMatrix data nsamples = Src.dataToMatrix data nsamples := by
  unfold genDataToMatrix Src.dataToMatrix
  cases nsamples <;> cases h : isArray data <;> simp [h, NP.the, shape1]

theorem genPcaDataToMatrix_eq (data : Samples) (nsamples : Option Nat) :
    genPcaDataToMatrix data nsamples = Src.dataToMatrix data nsamples := by
  unfold genPcaDataToMatrix Src.dataToMatrix
  cases nsamples <;> cases h : isArray data <;> simp [h, NP.the, shape1]

theorem genIncrementInner_eq (inv : M → Option Nat → M) (graph : Graph) (sparse : Bool) (mode : String) (nf k : Nat)
    (nc : Option Nat) (bias : Nat) (st : NP.GState) (data : M) :
    genIncrementInner inv graph sparse mode nf k nc bias st data
      = Src.incrementInner inv graph sparse mode nf k nc bias st data := by
  unfold genIncrementInner Src.incrementInner Src.builder
  simp only [genIncSparseDiag_eq, genIncDenseDiag_eq, genIncSparse_eq, genIncDense_eq, genIncMean_eq]
  -- the two facts the dispatch depends on, whatever the tests that read them
  cases sparse <;> by_cases h : NP.Graph.nEdges graph = 0 <;>
    simp [h, shape0, genIncSparseDiag_eq, genIncDenseDiag_eq, genIncSparse_eq, genIncDense_eq, genIncMean_eq] <;> np_leaf

theorem genIncrement_eq (inv : M → Option Nat → M) (graph : Graph) (sparse : Bool) (mode : String) (nf k : Nat)
    (nc : Option Nat) (bias : Nat) (st : NP.GState) (incremental : Bool) (samples : Samples) (nsamples : Option Nat) :
    genIncrement inv graph sparse mode nf k nc bias st incremental samples nsamples
      = Src.increment inv graph sparse mode nf k nc bias st incremental samples nsamples := by
  unfold genIncrement Src.increment
  simp only [genIncrementInner_eq, genDataToMatrix_eq]
  cases incremental <;> simp
  split <;> simp_all

theorem genIncrementObj_eq (inv : M → Option Nat → M) (graph : Graph) (sparse : Bool) (mode : String) (nf k : Nat)
    (nc : Option Nat) (bias : Nat) (st : NP.GState) (incremental : Bool) (samples : List V) (nsamples : Option Nat) :
    genIncrementObj inv graph sparse mode nf k nc bias st incremental samples nsamples
      = Src.incrementObj inv graph sparse mode nf k nc bias st incremental samples nsamples := by
  unfold genIncrementObj Src.incrementObj
  simp only [genIncrementInner_eq]
  cases incremental <;> simp [arrayOf]
  split <;> simp_all

/-- the two spellings of "machine epsilon of the least precise floating point operand": `max([e64] + [eps(a) for a in
(B, U_a, l_a) if inexact(a)])` and the running maximum over the operands -/
theorem maxList_prec (e0 : Rat) (c1 c2 c3 : Bool) (e1 e2 e3 : Rat) :
    maxList ([e0] + ((if c1 then [e1] else []) ++ (if c2 then [e2] else []) ++ (if c3 then [e3] else [])))
      = (if c3 then max (if c2 then max (if c1 then max e0 e1 else e0) e2 else (if c1 then max e0 e1 else e0)) e3
         else (if c2 then max (if c1 then max e0 e1 else e0) e2 else (if c1 then max e0 e1 else e0))) := by
  have happ : ∀ a b : List Rat, a + b = a ++ b := fun _ _ => rfl
  cases c1 <;> cases c2 <;> cases c3 <;> simp [maxList, happ]

theorem genIpca_eq (lib : Lib) (B Ua : M) (la : V) (na : Rat) (ma : Option V) (f eps : Rat) (centre : Option Bool) :
    genIpca lib B Ua la na ma f eps centre = Src.ipca lib B Ua la na ma f eps centre := by
  unfold genIpca Src.ipca Src.ipcaTail Src.operandPrec Src.precOf
  simp only [maxList_prec, dtypeIn, DTypeIn.dtypeIn, Lib.withPrec]
  rcases centre with _ | c <;> rcases ma with _ | m <;>
    (try cases c) <;>
    simp [NP.the, NP.truthy, shape, shape0, shape1, len]
  all_goals first | done | (split <;> simp_all) | (repeat' split) <;> simp_all

theorem genPcaIncrement_eq (lib : Lib) (st : PcaState) (data : Samples) (nsamples : Option Nat) (ff : Rat) :
    genPcaIncrement lib st data nsamples ff = Src.pcaIncrement lib ipcaDefaultEps st data nsamples ff := by
  unfold genPcaIncrement Src.pcaIncrement
  simp only [genPcaDataToMatrix_eq, genIpca_eq]
  split <;> simp_all [shape0]

theorem genPcaIncrementObj_eq (lib : Lib) (st : PcaState) (samples : List V) (nsamples : Option Nat) (ff : Rat) :
    genPcaIncrementObj lib st samples nsamples ff = Src.pcaIncrementObj lib ipcaDefaultEps st samples nsamples ff := by
  unfold genPcaIncrementObj Src.pcaIncrementObj
  simp only [genPcaIncrement_eq, shape0]

theorem ipcaDefaultEps_eq : ipcaDefaultEps = defaultEps := by decide +kernel


/-! ## the property theorems, stated about the TRANSLATED definitions -/

/-- PROPERTY (`cov_update_exact` about the translated source text): `_increment_multivariate_gaussian_cov` as it is
written now, applied to mean and `np.cov` of `X` and the new rows `B`, returns mean and `np.cov` of the concatenated
data, for both bias conventions -/
theorem gen_cov_update_exact (b : Bool) (d : Nat) (X B : Data) (h : EnoughSamples b X) :
    ∃ p, genIncCov (ofData d B) ⟨d, mean X⟩ ⟨d, d, covOf b X⟩ (X.length : Rat) (biasN b) = some p ∧
      p.1.f = mean (X ++ B) ∧ p.2.f = covOf b (X ++ B) := by
  refine ⟨_, by rw [genIncCov_eq]; exact src_incCov_some _ _ _ _ _, ?_, ?_⟩
  · rw [src_incMean_eq (dataRepr_ofData d B)]
    exact mean_update_exact X B (enough_ne_nil h)
  · rw [src_covNew_eq (dataRepr_ofData d B)]
    exact cov_update_exact b X B h

/-- a bias other than 0 and 1 raises, as translated -/
theorem gen_cov_bad_bias (X : M) (m : V) (S : M) (n : Rat) (bias : Nat) (h0 : bias ≠ 0) (h1 : bias ≠ 1) :
    genIncCov X m S n bias = none := by
  rw [genIncCov_eq]; simp [Src.incCov, h0, h1]

/-- the translated `GMRFVectorModel.increment` called once per data matrix -/
def genRun (inv : M → Option Nat → M) (g : GSpec) (sparse : Bool) (nf : Nat) (nc : Option Nat) (b : Bool)
    (s0 : NP.GState) (Xs : List M) : Option NP.GState :=
  Xs.foldlM (fun s X => genIncrement inv (graphOf g) sparse (modeStr g.mode) nf g.k nc (biasN b) s true (.arr X) none) s0

theorem genRun_eq (inv : M → Option Nat → M) (g : GSpec) (sparse : Bool) (nf : Nat) (nc : Option Nat) (b : Bool)
    (s0 : NP.GState) (Xs : List M) : genRun inv g sparse nf nc b s0 Xs = srcRun inv g sparse nf nc b s0 Xs := by
  unfold genRun srcRun
  congr 1
  funext s X
  exact genIncrement_eq _ _ _ _ _ _ _ _ _ _ _ _

/-- PROPERTY (`gmrf_increment_refines_stats` about the translated source text): the increments as they are written now —
`increment` → `_data_to_matrix` → `_increment` → the builder chosen by `n_edges == 0` and `sparse` → the loop over edges /
vertices → the update formulas — never raise and leave the statistics of the batch model on the concatenated data -/
theorem gen_gmrf_refines_batch (inv : M → Option Nat → M) (g : GSpec) (sparse b : Bool) (nf : Nat) (nc : Option Nat)
    (chunks : List Data) (Xs : List M) (hXs : List.Forall₂ DataRepr Xs chunks) (X0 : Data) (s0 : NP.GState)
    (hX0 : EnoughSamples b X0) (hs : StateRel g s0 (gmrfInit b (srcFeat g) X0)) :
    ∃ s', genRun inv g sparse nf nc b s0 Xs = some s' ∧
      StateRel g s' (gmrfInit b (srcFeat g) (X0 ++ chunks.flatten)) := by
  rw [genRun_eq]; exact src_gmrf_refines_batch inv g sparse b nf nc chunks Xs hXs X0 s0 hX0 hs

/-- PROPERTY (`gmrf_chunking_independent` about the translated source text, dense storage incl. the stored precision) -/
theorem gen_gmrf_chunking_independent (inv : M → Option Nat → M) (g : GSpec) (b : Bool) (nf : Nat) (nc : Option Nat)
    (cs ds : List Data) (Xs Ys : List M) (hXs : List.Forall₂ DataRepr Xs cs) (hYs : List.Forall₂ DataRepr Ys ds)
    (hcs : cs ≠ []) (hds : ds ≠ []) (X0 Y0 : Data) (s0 r0 : NP.GState) (hX0 : EnoughSamples b X0) (hY0 : EnoughSamples b Y0)
    (hs : StateRel g s0 (gmrfInit b (srcFeat g) X0)) (hr : StateRel g r0 (gmrfInit b (srcFeat g) Y0))
    (hsame : X0 ++ cs.flatten = Y0 ++ ds.flatten) :
    ∃ s' r', genRun inv g false nf nc b s0 Xs = some s' ∧ genRun inv g false nf nc b r0 Ys = some r' ∧
      s'.n = r'.n ∧ s'.mean.f = r'.mean.f ∧ (∀ e, e < g.nBlocks → s'.covs e = r'.covs e) ∧
      s'.precision.f = r'.precision.f := by
  simp only [genRun_eq]
  exact src_gmrf_chunking_independent inv g b nf nc cs ds Xs Ys hXs hYs hcs hds X0 Y0 s0 r0 hX0 hY0 hs hr hsame

/-- PROPERTY (dense storage): the array the translated code stores after the increments is the model's `precision` of the
batch covariances -/
theorem gen_gmrf_precision_eq_batch (inv : M → Option Nat → M) (g : GSpec) (b : Bool) (nf : Nat) (nc : Option Nat)
    (chunks : List Data) (Xs : List M) (hXs : List.Forall₂ DataRepr Xs chunks) (X0 : Data) (s0 : NP.GState)
    (hX0 : EnoughSamples b X0) (hs : StateRel g s0 (gmrfInit b (srcFeat g) X0)) (hne : chunks ≠ []) :
    ∃ s', genRun inv g false nf nc b s0 Xs = some s' ∧
      s'.precision.f = precision g (invF inv nc g.blockDim) (gmrfInit b (srcFeat g) (X0 ++ chunks.flatten)).cov := by
  rw [genRun_eq]; exact src_gmrf_precision_eq_batch inv g b nf nc chunks Xs hXs X0 s0 hX0 hs hne


open scoped Matrix in
/-- PROPERTY (`ipca_scatter_exact` / `IpcaReach.step` about the translated source text): `menpo.math.decomposition.ipca`
as it is written now, called the way `PCAVectorModel.increment` calls it, turns a decomposition of the scatter of the
data seen so far into a decomposition of the scatter of all the data — under the contracts of `np.sqrt`,
`np.linalg.qr`, `np.linalg.svd` on the arrays the code hands them (`src_ipca_step_represents`) -/
theorem gen_ipca_step_represents (lib : Lib) (centred : Bool) (X Bd : Data) (hX : X ≠ []) (hBd : Bd ≠ [])
    (Bm Ua : M) (la : V) (eps : Rat) (k q d : Nat) (hB : DataRepr Bm Bd) (hBc : Bm.c = d)
    (hUr : Ua.r = k) (hUc : Ua.c = d) (hla : la.n = k)
    (hold : (toMat Ua k d)ᵀ * Matrix.diagonal (fun i : Fin k => ((X.length : ℚ) - 1) * la.f i) * toMat Ua k d
      = scatterM d centred X)
    (hsq : ∀ i, i < k → lib.sqrt (((X.length : ℚ) - 1) * la.f i) * lib.sqrt (((X.length : ℚ) - 1) * la.f i)
      = ((X.length : ℚ) - 1) * la.f i)
    (hsqr : centred = true →
      lib.sqrt ((X.length : ℚ) * 1 * (Bd.length : ℚ) / ((X.length : ℚ) * 1 + (Bd.length : ℚ)))
        * lib.sqrt ((X.length : ℚ) * 1 * (Bd.length : ℚ) / ((X.length : ℚ) * 1 + (Bd.length : ℚ)))
        = (X.length : ℚ) * (Bd.length : ℚ) / ((X.length : ℚ) + (Bd.length : ℚ)))
    (A : M) (hA : A = srcAug lib Bm (X.length : ℚ) ⟨d, if centred then mean X else zeroVec⟩ 1 centred)
    (sa : V) (hsa : sa = sqrt lib.sqrt (((X.length : ℚ) - 1) * la))
    (hVc : (lib.svd (tailR lib A Ua sa 1)).2.2.c = k + q) (hst : (lib.svd (tailR lib A Ua sa 1)).2.1.n ≤ k + q)
    (hqr : toMat (tailPB A Ua) A.r d * (toMat (tailBt lib A Ua) q d)ᵀ * toMat (tailBt lib A Ua) q d = toMat (tailPB A Ua) A.r d)
    (hsvd : (toMat (tailR lib A Ua sa 1) (k + A.r) (k + q))ᵀ * toMat (tailR lib A Ua sa 1) (k + A.r) (k + q)
      = (toMat (lib.svd (tailR lib A Ua sa 1)).2.2 (k + q) (k + q))ᵀ
          * Matrix.diagonal (sigmaOf (lib.svd (tailR lib A Ua sa 1)).2.1 (k + q))
          * toMat (lib.svd (tailR lib A Ua sa 1)).2.2 (k + q) (k + q))
    (hV : toMat (lib.svd (tailR lib A Ua sa 1)).2.2 (k + q) (k + q)
          * (toMat (lib.svd (tailR lib A Ua sa 1)).2.2 (k + q) (k + q))ᵀ = 1)
    (hn : 2 ≤ X.length) (heps : 0 ≤ eps)
    (hdesc : ∀ i j, i ≤ j → j < (lib.svd (tailR lib A Ua sa 1)).2.1.n →
      (lib.svd (tailR lib A Ua sa 1)).2.1.f j * (lib.svd (tailR lib A Ua sa 1)).2.1.f j
        ≤ (lib.svd (tailR lib A Ua sa 1)).2.1.f i * (lib.svd (tailR lib A Ua sa 1)).2.1.f i)
    (hgap : ∀ i, i < (lib.svd (tailR lib A Ua sa 1)).2.1.n →
      (lib.svd (tailR lib A Ua sa 1)).2.1.f i * (lib.svd (tailR lib A Ua sa 1)).2.1.f i = 0 ∨
      tailThr (lib.withPrec (Src.operandPrec lib Bm Ua la)) A Ua sa 1 eps ((X.length : ℚ) * 1 + (Bm.r : ℚ))
        < (lib.svd (tailR lib A Ua sa 1)).2.1.f i * (lib.svd (tailR lib A Ua sa 1)).2.1.f i
            / ((X.length : ℚ) * 1 + (Bm.r : ℚ) - 1)) :
    let r := genIpca lib Bm Ua la (X.length : ℚ) (some ⟨d, if centred then mean X else zeroVec⟩) 1 eps (some centred)
    (toMat r.1 r.2.1.n d)ᵀ * Matrix.diagonal (fun i : Fin r.2.1.n => r.2.1.f i * (((X ++ Bd).length : ℚ) - 1)) * toMat r.1 r.2.1.n d
        = scatterM d centred (X ++ Bd) ∧
      (∀ i, i < r.2.1.n → 0 < r.2.1.f i) ∧
      r.2.2.f = (if centred then mean (X ++ Bd) else zeroVec) ∧
      (toMat Ua k d * (toMat Ua k d)ᵀ = 1 → toMat r.1 r.2.1.n d * (toMat r.1 r.2.1.n d)ᵀ = 1) := by
  rw [genIpca_eq]
  exact src_ipca_step_represents lib centred X Bd hX hBd Bm Ua la eps k q d hB hBc hUr hUc hla hold hsq hsqr A hA sa hsa
    hVc hst hqr hsvd hV hn heps hdesc hgap

/-- PROPERTY (argument plumbing of the translated `PCAVectorModel.increment`, `src_pcaIncrement_spec` about the source
text): which arguments `ipca` gets, what happens to its results, count and active components -/
theorem gen_pcaIncrement_spec (lib : Lib) (st : PcaState) (X : M) (ff : Rat) :
    let r := genIpca lib X st.components st.eigs st.n (some st.mean) ff ipcaDefaultEps (some st.centred)
    genPcaIncrement lib st (.arr X) none ff
      = ⟨r.2.2, r.1, r.2.1, st.n + X.r, if st.nactive == st.components.r then r.1.r else st.nactive, st.centred⟩ := by
  rw [genPcaIncrement_eq, genIpca_eq]
  exact src_pcaIncrement_spec lib ipcaDefaultEps st X ff


/-! ## `menpo.math.as_matrix` -/

theorem genAsMatrix_eq (vs : List Sample) (length : Option Nat) : genAsMatrix vs length = Src.asMatrixT vs length := by
  unfold genAsMatrix Src.asMatrixT Src.asMatrixFrom
  cases vs with
  | nil => cases length <;> simp
  | cons t rest =>
    cases length <;>
    · simp only [Option.isNone_none, Option.isNone_some, Option.isSome_none, Option.isSome_some, Bool.false_eq_true, if_false,
        if_true, List.head?_cons, List.tail_cons, Option.map_some, NP.the, Option.getD_some, ite_fst, ite_snd]
      rw [loop_congr _ _ _ Src.asMatrixStep (by
        intro acc it
        simp only [Src.asMatrixStep, dtypeOf, HasDType.dtypeOf, Sample.asVector, ite_fst, ite_snd, canCastSafe]
        by_cases h : canCastSameKind it.2.dt acc.2.dt = true <;> simp [h])]
      simp [dtypeOf, HasDType.dtypeOf, Sample.asVector]

/-- PROPERTY (`src_asMatrix_exact` about the translated source text): `as_matrix` as it is written now never truncates
a sample, whatever the storage dtypes and their order -/
theorem gen_asMatrix_exact (vs : List Sample) (h : vs ≠ []) :
    ∃ D, genAsMatrix vs none = some D ∧ D.m.r = vs.length ∧ D.dt = joinDT vs ∧
      ∀ i, i < vs.length → ∀ c, D.m.f i c = (vs.getD i default).v.f c := by
  rw [genAsMatrix_eq]; exact src_asMatrix_exact vs h

end MenpoModel.GenProps.C11Src
