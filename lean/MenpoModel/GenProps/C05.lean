/- Obligations over the regenerated method-resolution table (written by harness/extract_c05.py; the text
   is constant, the table it speaks about is not).  `dispatch_ok` is what makes every theorem of
   Props/C05.lean, proved over `expectedDispatch`, a statement about the current class hierarchy. -/
import MenpoModel.Generated.C05Dispatch

namespace MenpoModel.C05.GenProps
open MenpoModel.C05

/-- every concrete Vectorizable class resolves the seven methods exactly as the model assumes -/
theorem dispatch_ok : Generated.dispatch = expectedDispatch := by decide

/-- no Vectorizable class has appeared or disappeared -/
theorem dispatch_count : Generated.dispatch.length = 23 := by decide

/-- for every class, `from_vector` is either a constructor rebuild or `copy()` + an in-place update that
writes only into buffers the resolved `copy` makes fresh (receiver purity, see Props/C05.lean) -/
theorem dispatch_pure : ∀ r ∈ Generated.dispatch, rowPure r = true := by decide

end MenpoModel.C05.GenProps
