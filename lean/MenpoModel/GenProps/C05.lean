/- Obligations over the regenerated tables (written by harness/extract_c05.py; the text is constant, the
   tables it speaks about are not).  `dispatch_ok` is what makes every theorem of Props/C05.lean, proved
   over `expectedDispatch`, a statement about the current class hierarchy; `effects_ok` is what makes the
   heap theorems (receiver purity, locality of in-place updates) statements about what the current code
   does to its arrays. -/
import MenpoModel.Generated.C05Dispatch
import MenpoModel.Generated.C05Effects

namespace MenpoModel.C05.GenProps
open MenpoModel.C05

/-- measured row `e` is within what the model's row `m` allows -/
def effSound (e m : EffRow) : Bool :=
  e.cls == m.cls && e.fviWrites.all (fun b => m.fviWrites.contains b) &&
  m.fresh.all (fun b => e.fresh.contains b) && e.fvWrites.isEmpty

/-- every concrete Vectorizable class resolves the seven methods exactly as the model assumes -/
theorem dispatch_ok : Generated.dispatch = expectedDispatch := by decide

/-- no Vectorizable class has appeared or disappeared -/
theorem dispatch_count : Generated.dispatch.length = 23 := by decide

/-- for every class, `from_vector` is either a constructor rebuild or `copy()` + an in-place update that
writes only into buffers the resolved `copy` makes fresh (receiver purity, see Props/C05.lean) -/
theorem dispatch_pure : ∀ r ∈ Generated.dispatch, rowPure r = true := by decide

/-- what the live objects do to their arrays stays WITHIN what the model allows (one direction only: the
property does not say which arrays are shared or rebound, so a safer copy or a rebinding supplier must not
raise an alarm): every array a live `_from_vector_inplace` wrote in place is one the model's supplier may
write, every array the model takes to be fresh in `copy()` is fresh in the live copy, no `from_vector`
wrote to its receiver.  (The exact equality `Generated.effects = expectedEffects` is kept as an informational
drift report in GenProps/C05Drift.lean.) -/
theorem effects_sound : Generated.effects.length = expectedEffects.length ∧
    (List.zipWith effSound Generated.effects expectedEffects).all id = true := by decide

/-- measured directly: no `from_vector` changed an array of its receiver, and every array a live
`_from_vector_inplace` wrote in place is fresh in the live `copy()` of that class -/
theorem effects_pure : ∀ e ∈ Generated.effects,
    e.fvWrites = [] ∧ e.fviWrites.all (fun b => e.fresh.contains b) = true := by decide

end MenpoModel.C05.GenProps
