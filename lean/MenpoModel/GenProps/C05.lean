/- Obligations over the regenerated tables (written by harness/extract_c05.py; the text is constant, the
   tables it speaks about are not).  `dispatch_ok` is what makes every theorem of Props/C05.lean, proved
   over `expectedDispatch`, a statement about the current class hierarchy; `effects_ok` is what makes the
   heap theorems (receiver purity, locality of in-place updates) statements about what the current code
   does to its arrays. -/
import MenpoModel.Generated.C05Dispatch
import MenpoModel.Generated.C05Effects

namespace MenpoModel.C05.GenProps
open MenpoModel.C05

/-- every concrete Vectorizable class resolves the seven methods exactly as the model assumes -/
theorem dispatch_ok : Generated.dispatch = expectedDispatch := by decide

/-- no Vectorizable class has appeared or disappeared -/
theorem dispatch_count : Generated.dispatch.length = 23 := by decide

/-- for every class, `from_vector` is either a constructor rebuild or `copy()` + an in-place update that
writes only into buffers the resolved `copy` makes fresh (receiver purity, see Props/C05.lean) -/
theorem dispatch_pure : ∀ r ∈ Generated.dispatch, rowPure r = true := by decide

/-- what the live objects do to their arrays (copy freshness, in-place writes, rebindings, sharing between
receiver and result) is what the model's per-supplier tables predict through the method-resolution table -/
theorem effects_ok : Generated.effects = expectedEffects := by decide

/-- measured directly: no `from_vector` changed an array of its receiver, and every array a live
`_from_vector_inplace` wrote in place is fresh in the live `copy()` of that class -/
theorem effects_pure : ∀ e ∈ Generated.effects,
    e.fvWrites = [] ∧ e.fviWrites.all (fun b => e.fresh.contains b) = true := by decide

end MenpoModel.C05.GenProps
