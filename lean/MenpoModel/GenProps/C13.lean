/- Obligations over the regenerated entry-point table (written by harness/extract_c13.py; the text is
   constant, the table it speaks about is not).  `entries_ok` makes the statements of Core/C13Api.lean
   about defaults, forwarding and shared kernels statements about the current working tree. -/
import MenpoModel.Generated.C13Entry

namespace MenpoModel.C13.GenProps
open MenpoModel.C13

/-- every entry point resolves to the class, and has the parameters and defaults, the model assumes -/
theorem entries_ok : Generated.entries = expectedEntries := by decide

/-- Image, MaskedImage and BooleanImage share one implementation of every crop / patch kernel -/
theorem kernels_shared : ∀ e ∈ Generated.entries, e.owner ≠ "patches" → e.method ∈ sharedKernels →
    e.supplier = "Image" := by decide

/-- the defaults the model applies when an argument is omitted -/
theorem defaults_ok : ∀ d ∈ assumedDefaults, lookupDefault Generated.entries d.1 d.2.1 d.2.2.1 = some d.2.2.2 := by
  decide

/-- `extract_patches_around_landmarks` has no `order`, `mode`, `cval` parameter to forward -/
theorem around_landmarks_params : ∀ e ∈ Generated.entries, e.method = "extract_patches_around_landmarks" →
    e.params.map (·.1) = ["self", "group", "patch_shape", "sample_offsets", "as_single_array"] := by decide

end MenpoModel.C13.GenProps
