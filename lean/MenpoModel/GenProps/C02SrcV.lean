/- Obligations over the methods TRANSLATED from the source text (Generated/C02SrcV.lean, rewritten by
   harness/trans_c02.py on every run of `./check C02`).  The text of this file is constant; the definitions it speaks
   about are not.  Each `src_…_eq` says that a translated method equals the hand-written one for ALL arguments
   (including the functions its calls of other methods go through); `srcMethods_eq` collects them, so that every
   theorem of Props/C02Src.lean, proved over `coreMethods`, is a theorem about what the source says now; the last
   section restates the property theorems over the translated methods resolved through the REGENERATED
   method-resolution table (`Generated.dispatch`).  The proofs unfold, normalise (`simp`) and split cases; they do not
   depend on the names of temporaries, on the order of independent statements or on how a test is spelled. -/
import MenpoModel.Generated.C02SrcV
import MenpoModel.Generated.C02Dispatch
import MenpoModel.Lemmas.C02Src
import MenpoModel.Props.C02Src

set_option linter.unusedSimpArgs false
set_option linter.unusedVariables false

namespace MenpoModel.C02.GenProps
open MenpoModel.C02 MenpoModel.C02.Generated

/-! ### properties -/

theorem src_n_groups_eq (g : Groups) : srcLandmarkManager_n_groups g = Groups.len g := by
  simp only [srcLandmarkManager_n_groups]

theorem src_landmarks_eq (s : Shape) : srcLandmarkable_landmarks s = s.lms := by
  obtain ⟨c, p, l, e⟩ := s
  cases l <;>
    simp [srcLandmarkable_landmarks, Shape.lmAttr, Shape.setLmAttr, Shape.lms, Groups.isNil]

theorem groups_len_cons (n : String) (g : Shape) (r : Groups) : Groups.len (Groups.cons n g r) ≠ 0 := by
  simp only [Groups.len, Groups.toList, List.length_cons, ne_eq]; omega

theorem src_has_landmarks_eq (s : Shape) : srcLandmarkable_has_landmarks s = coreHasLandmarks s := by
  obtain ⟨c, p, l, e⟩ := s
  cases l with
  | nil => simp [srcLandmarkable_has_landmarks, coreHasLandmarks, Shape.lmAttr, Shape.lms, Groups.isNil,
      src_n_groups_eq, src_landmarks_eq, Groups.len, Groups.toList]
  | cons n g r =>
    have h1 := groups_len_cons n g r
    have h2 : 0 < Groups.len (Groups.cons n g r) := by
      simp only [Groups.len, Groups.toList, List.length_cons]; omega
    simp [srcLandmarkable_has_landmarks, coreHasLandmarks, Shape.lmAttr, Shape.lms, Groups.isNil, src_n_groups_eq,
      src_landmarks_eq, h1]
    try omega

/-! ### the in-place pass -/

theorem src_shape_inplace_eq (callM : Groups → Fn → Except Err (Groups × PV))
    (callSelf : Shape → Fn → Except Err (Shape × PV)) (s : Shape) (t : Fn) :
    srcShape_transform_inplace callM callSelf s t = coreShapeInplace callM callSelf s t := by
  simp only [srcShape_transform_inplace, coreShapeInplace, src_has_landmarks_eq, src_landmarks_eq, coreHasLandmarks,
    toPV, id]
  cases s.lms.isNil <;> simp only [Bool.not_true, Bool.not_false, Bool.false_eq_true, if_false, if_true]
  all_goals (cases callM s.lms t <;> src_close)

theorem src_shape_self_eq (s : Shape) (t : Fn) :
    srcShape_transform_self_inplace s t = coreMethods.shapeSelf s t := by
  simp only [srcShape_transform_self_inplace, coreMethods]

theorem src_pc_self_eq (s : Shape) (t : Fn) :
    srcPointCloud_transform_self_inplace s t = coreMethods.pcSelf s t := by
  simp only [srcPointCloud_transform_self_inplace, coreMethods, toPV]
  cases t s.points <;> rfl

theorem src_lm_inplace_eq (callS : Shape → Fn → Except Err (Shape × PV)) (g : Groups) (t : Fn) :
    srcLandmarkManager_transform_inplace callS g t = coreLmInplace callS g t := by
  simp only [srcLandmarkManager_transform_inplace, coreLmInplace, toPV]
  rw [forLoopE_writeback (fun s => callS s t) g]
  generalize mapME _ g.toList = m
  cases m <;> rfl

theorem src_t_inplace_eq (x : PV) (t : Fn) : srcTransformable_transform_inplace x t = coreMethods.tInplace x t := by
  simp only [srcTransformable_transform_inplace, coreMethods]

theorem src_t_transform_eq (callCopy : PV → Except Err PV) (callI : PV → Fn → Except Err (PV × PV)) (x : PV) (t : Fn) :
    srcTransformable_transform callCopy callI x t = coreMethods.transform callCopy callI x t := by
  simp only [srcTransformable_transform, coreMethods]
  cases callCopy x with
  | error e => rfl
  | ok c => simp only [Except.bind]; cases callI c t <;> rfl

/-! ### `Transform._apply_batched`, `Transform.apply` -/

theorem src_apply_batched_eq (ap : Fn) (x : Arr) (b : Option Int) :
    srcTransform_apply_batched ap x b = applyBatchedE ap b x := by
  cases b with
  | none => simp [srcTransform_apply_batched, applyBatchedE]
  | some k =>
    by_cases hx : x = []
    · subst hx; simp [srcTransform_apply_batched, applyBatchedE]
    · have h0 := length_cast_ne_zero x hx
      -- loop or comprehension: both are brought to the canonical form `mapME` (`forLoopE_append`)
      have h := batched_comp_eq ap x k hx
      simp only [srcTransform_apply_batched, Option.isNone_some, Option.isSome_some, Bool.false_eq_true, if_false,
        if_true, h0, Bool.not_false, add_some, bind_ok_eta, forLoopE_append, List.nil_append, map_id_eta] at h ⊢
      exact h

theorem src_apply_eq (callT : PV → Fn → Except Err PV) (ap : Fn) (x : PV) (b : Option Int) :
    srcTransform_apply callT ap x b = coreMethods.apply callT ap x b := by
  have h : srcTransform_apply_batched ap = fun x b => applyBatchedE ap b x :=
    funext fun x => funext fun b => src_apply_batched_eq ap x b
  simp only [srcTransform_apply, coreMethods, h, BatchArg.run, bind_ok_eta]

/-- `apply(x)` is `apply(x, batch_size=None)` -/
theorem src_apply_default : srcTransform_apply_default_batch_size = none := by
  simp only [srcTransform_apply_default_batch_size]

/-- every translated method equals the hand-written one: theorems about `coreMethods` are theorems about the source -/
theorem srcMethods_eq : srcMethods = coreMethods := by
  simp only [srcMethods, coreMethods, VMethods.mk.injEq]
  refine ⟨?_, ?_, ?_, ?_, ?_, ?_, ?_, ?_, ?_, ?_, ?_⟩
  · exact funext src_has_landmarks_eq
  · exact funext src_landmarks_eq
  · exact funext src_n_groups_eq
  · exact funext fun a => funext fun b => funext fun c => funext fun d => src_shape_inplace_eq a b c d
  · exact funext fun a => funext fun b => src_shape_self_eq a b
  · exact funext fun a => funext fun b => src_pc_self_eq a b
  · exact funext fun a => funext fun b => funext fun c => src_lm_inplace_eq a b c
  · exact funext fun a => funext fun b => src_t_inplace_eq a b
  · exact funext fun a => funext fun b => funext fun c => funext fun d => src_t_transform_eq a b c d
  · exact funext fun a => funext fun b => funext fun c => src_apply_batched_eq a b c
  · exact funext fun a => funext fun b => funext fun c => funext fun d => src_apply_eq a b c d

/-! ### `_apply` of the transform classes the model evaluates itself -/

theorem src_chain_apply_eq (fs : List Fn) (x : Arr) : srcTransformChain_apply fs x = chainFnE fs x := by
  simp only [srcTransformChain_apply, chainFnE, reduceE]

theorem src_withdims_apply_eq (dims : Dims) (x : Arr) : srcWithDims_apply dims x = withDimsE dims x := by
  simp only [srcWithDims_apply, withDimsE]
  cases colIndex x dims with
  | error e => rfl
  | ok y => cases y <;> simp [Except.bind, NdArr.ndim, NdArr.newAxis, NdArr.asArr]

theorem src_affine_linear_eq (H : Arr) : srcAffine_linear_component H = sliceLinear H := by
  simp only [srcAffine_linear_component]

theorem src_affine_translation_eq (H : Arr) : srcAffine_translation_component H = sliceTranslation H := by
  simp only [srcAffine_translation_component]

theorem src_hom_apply_eq (H x : Arr) : srcHomogeneous_apply H x = homApply H x := by
  simp only [srcHomogeneous_apply]
  exact hom_plumbing H x

theorem src_affine_apply_eq (H x : Arr) : srcAffine_apply H x = affineApply H x := by
  simp only [srcAffine_apply, src_affine_linear_eq, src_affine_translation_eq]
  exact affine_plumbing H x

/-! ### the property theorems over the TRANSLATED methods resolved through the REGENERATED table -/

theorem src_dispatch_eq : Generated.dispatch = expectedDispatch := by decide

/-- the translated `Transform.apply`, every method call resolved through the table read from the live classes, agrees
with the model `applyT` of the value-level theorems on shapes of all classes (landmark groups to any depth) and on
bare arrays, for `batch_size` `None` or positive -/
theorem src_apply_agrees (f : Arr → Arr) (b : Option Nat) (hb : ∀ k, b = some k → 0 < k) (a : Arg) (fuel : Nat)
    (h : a.depth ≤ fuel) :
    vApply srcMethods Generated.dispatch fuel (okFn f) (argPV a) (batchInt b) =
      (applyT expectedDispatch f b a).map argPV := by
  rw [srcMethods_eq, src_dispatch_eq]; exact vApply_agrees f b hb a fuel h

/-- PROPERTY (value level, all of it) about the source as it is now: same class, points `f(points)`, every landmark
group at every depth `f(group points)`, everything else verbatim; `f` is `_apply_batched(·, batch_size)` -/
theorem src_apply_expected (f : Arr → Arr) (b : Option Nat) (hb : ∀ k, b = some k → 0 < k) (s : Shape) (fuel : Nat)
    (h : s.depth ≤ fuel) :
    vApply srcMethods Generated.dispatch fuel (okFn f) (.shape s) (batchInt b) =
      .ok (.shape (mapShape (applyBatched f b) s)) := by
  rw [srcMethods_eq, src_dispatch_eq]; exact vApply_expected f b hb s fuel h

/-- (a) same class and transformed points, (c) other attributes and group names, (b) every landmark group at every
depth, (e) agreement with the bare array — read off the translated `apply` -/
theorem src_apply_class_points_extra (f : Arr → Arr) (s s' : Shape) (fuel : Nat) (h : s.depth ≤ fuel)
    (hr : vApply srcMethods Generated.dispatch fuel (okFn f) (.shape s) none = .ok (.shape s')) :
    s'.cls = s.cls ∧ s'.points = f s.points ∧ s'.extra = s.extra ∧ s'.lms.names = s.lms.names := by
  have := src_apply_expected f none (fun k hk => by cases hk) s fuel h
  rw [show batchInt none = none from rfl] at this
  rw [this] at hr
  simp only [Except.ok.injEq, PV.shape.injEq] at hr
  subst hr
  exact ⟨mapShape_cls _ s, mapShape_points _ s, mapShape_extra _ s, by rw [mapShape_lms, mapGroups_names]⟩

theorem src_apply_landmarks (f : Arr → Arr) (s s' : Shape) (fuel : Nat) (h : s.depth ≤ fuel)
    (hr : vApply srcMethods Generated.dispatch fuel (okFn f) (.shape s) none = .ok (.shape s'))
    (path : List String) (g : Shape) (hg : s.at path = some g) :
    ∃ g', s'.at path = some g' ∧ g'.cls = g.cls ∧ g'.points = f g.points ∧ g'.extra = g.extra := by
  have := src_apply_expected f none (fun k hk => by cases hk) s fuel h
  rw [show batchInt none = none from rfl] at this
  rw [this] at hr
  simp only [Except.ok.injEq, PV.shape.injEq] at hr
  subst hr
  refine ⟨mapShape (applyBatched f none) g, ?_, mapShape_cls _ g, mapShape_points _ g, mapShape_extra _ g⟩
  rw [mapShape_at, hg]; rfl

theorem src_apply_array_agrees (f : Arr → Arr) (b : Option Nat) (hb : ∀ k, b = some k → 0 < k) (s s' : Shape) (a' : Arr)
    (fuel : Nat) (h : s.depth ≤ fuel)
    (hs : vApply srcMethods Generated.dispatch fuel (okFn f) (.shape s) (batchInt b) = .ok (.shape s'))
    (ha : vApply srcMethods Generated.dispatch fuel (okFn f) (.array s.points) (batchInt b) = .ok (.array a')) :
    s'.points = a' := by
  rw [src_apply_expected f b hb s fuel h] at hs
  have h2 := src_apply_agrees f b hb (.array s.points) fuel (Nat.zero_le _)
  simp only [argPV] at h2
  rw [h2] at ha
  simp only [Except.ok.injEq, PV.shape.injEq] at hs
  subst hs
  simp only [applyT, applyAny, Except.map, Except.ok.injEq, argPV, PV.array.injEq] at ha
  rw [mapShape_points, ha]

/-- ERROR BRANCH about the source as it is now: `apply(shape, batch_size ≤ 0)` raises ValueError exactly when some
array of the tree has points; there is no partial result -/
theorem src_apply_nonpos_batch (f : Arr → Arr) (k : Int) (hk : k ≤ 0) (s : Shape) (fuel : Nat) (h : s.depth ≤ fuel) :
    vApply srcMethods Generated.dispatch fuel (okFn f) (.shape s) (some k) =
      if s.allEmpty then .ok (.shape (mapShape f s)) else .error .value := by
  rw [srcMethods_eq, src_dispatch_eq]; exact apply_nonpos_batch f k hk s fuel h

/-- a transform whose `_apply` raises (WithDims with an index out of range …): `apply` raises the same exception or,
for an AttributeError, falls into the `except` arm; never a partially transformed shape -/
theorem src_apply_raises (ap : Fn) (b : Option Int) (s : Shape) (fuel : Nat) (h : s.depth ≤ fuel) :
    vApply srcMethods Generated.dispatch fuel ap (.shape s) b =
      tryExcept ((mapShapeE (fun a => applyBatchedE ap b a) s).map PV.shape) (· == .attr) (.error .unknown) := by
  rw [srcMethods_eq, src_dispatch_eq]; exact vApply_shape ap b s fuel h

end MenpoModel.C02.GenProps
