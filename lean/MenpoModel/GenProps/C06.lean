/-
Obligations over the regenerated C06 tables (re-checked by `lake build` against what the code says now).
-/
import MenpoModel.Generated.C06AttrKinds

namespace MenpoModel.C06.GenProps
open MenpoModel.C06

/-- every attribute of every Copyable class is copied deeply enough by the `copy` Python resolves for the
class, or shared only where the documentation says so -/
theorem attrKinds_ok : copyWF Generated.attrKinds Generated.copySupplier = true := by decide +kernel

/-- every class of the attribute table has a resolved `copy` that the model knows -/
theorem copySupplier_ok :
    Generated.attrKinds.all (fun row => resOf Generated.copySupplier row.1 != .unknown) = true := by decide +kernel

end MenpoModel.C06.GenProps
