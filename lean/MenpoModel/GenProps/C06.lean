/-
Obligations over the regenerated C06 tables (re-checked by `lake build` against what the code says now).
-/
import MenpoModel.Generated.C06AttrKinds
import MenpoModel.Generated.C06Effects

namespace MenpoModel.C06.GenProps
open MenpoModel.C06

/-- every attribute of every Copyable class is copied deeply enough by the `copy` Python resolves for the
class, or shared only where the documentation says so -/
theorem attrKinds_ok : copyWF Generated.attrKinds Generated.copySupplier = true := by decide +kernel

/-- every class of the attribute table has a resolved `copy` that the model knows -/
theorem copySupplier_ok :
    Generated.attrKinds.all (fun row => resOf Generated.copySupplier row.1 != .unknown) = true := by decide +kernel

/-- every observed effect of every public mutator is an update of cells the receiver owns with freshly built
content (or the mutator is one of the documented sharing ones), and what it stores in an attribute of an object
has a runtime kind the attribute-kind table lists for that attribute: mutated objects stay inside the table -/
theorem mutEffects_ok :
    Generated.mutEffects.all (fun row => row.2.2.all
      (effOK Generated.attrKinds Generated.sharingMutators row.1 row.2.1)) = true := by decide +kernel

end MenpoModel.C06.GenProps
