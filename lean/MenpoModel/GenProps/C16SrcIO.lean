/-
C16 — obligations over `Generated/C16SrcIO.lean` (the export plumbing of menpo/io/output/base.py that touches the file
system, TRANSLATED from the source text of the working tree on every run): every translated function equals its
specification in `Core/C16SrcIO.lean`, for all arguments and every file system.

The proofs split along the decisions of the SPECIFICATION (is `fp` a str / a Path / a file object, does the guard
refuse, does the extension parse, …) and let `simp` evaluate the translated term in each case, so they do not depend
on how the Python text is laid out.
-/
import MenpoModel.Generated.C16SrcIO
import MenpoModel.GenProps.C16SrcPure
import MenpoModel.Lemmas.C16SrcIO

set_option linter.unusedSimpArgs false
set_option linter.unusedVariables false



namespace MenpoModel.GenProps.C16
open MenpoModel.C16 MenpoModel.C16.PyX MenpoModel.Generated.C16

/-- `_validate_filepath` -/
theorem genValidateFilepath_eq (env : Env) (cwd : Path) (fp : Fp) (ow : Bool) :
    genValidateFilepath env cwd fp ow = validateFilepathSpec env cwd fp ow := by
  funext fs
  simp only [genValidateFilepath, validateFilepathSpec, genNormPath_eq, W.bind_run, fpExists, truthy_bool]
  cases (fs ((normPathSpec env cwd fp).key cwd)).isSome <;> cases ow <;> simp

/-- `_extension_to_export_function` -/
theorem genExtToFunc_eq (ext : OStr) (m : List (String × String)) : genExtToFunc ext m = extToFuncSpec ext m := by
  unfold genExtToFunc extToFuncSpec mapIndex
  cases mapGet m ext <;> simp [Except.bind, tryE]

set_option hygiene false in
/-- the case analysis of `validateAndGetSpec` at the path `p` -/
macro "vag_tac" : tactic => `(tactic|
  (by_cases hg : ((fs (Fp.key cwd (normPathSpec env cwd p))).isSome = true ∧ ow = false)
   · simp [W.bind_run, validateFilepathSpec, hg]
   · cases hp : parseAndValidateSpec (normPathSpec env cwd p) ext m with
     | error x => simp [W.bind_run, validateFilepathSpec, hg, hp]
     | ok e =>
       cases hc : extToFuncSpec e m with
       | error x => simp [W.bind_run, validateFilepathSpec, hg, hp, hc]
       | ok c => simp [W.bind_run, validateFilepathSpec, hg, hp, hc]))

/-- `_validate_and_get_export_func(…, return_extension=True)` -/
theorem genValidateAndGetT_eq (env : Env) (cwd : Path) (fp : Fp) (m : List (String × String)) (ext : OStr) (ow : Bool) :
    genValidateAndGetT env cwd fp m ext ow = validateAndGetSpec env cwd fp m ext ow := by
  funext fs
  unfold genValidateAndGetT validateAndGetSpec
  simp only [genValidateFilepath_eq, genParseAndValidate_eq, genExtToFunc_eq]
  by_cases hs : fp.isStr = true
  · simp only [hs, ↓reduceIte]
    generalize fp.toPath = p
    vag_tac
  · simp only [hs, ↓reduceIte, Bool.false_eq_true]
    rw [Fp.toPath_of_not_isStr fp (by simpa using hs)]
    generalize fp = p
    vag_tac

/-- `_validate_and_get_export_func(…)` (`return_extension=False`) -/
theorem genValidateAndGetF_eq (env : Env) (cwd : Path) (fp : Fp) (m : List (String × String)) (ext : OStr) (ow : Bool) :
    genValidateAndGetF env cwd fp m ext ow = validateAndGetFSpec env cwd fp m ext ow := by
  funext fs
  unfold genValidateAndGetF validateAndGetFSpec validateAndGetSpec
  simp only [genValidateFilepath_eq, genParseAndValidate_eq, genExtToFunc_eq]
  by_cases hs : fp.isStr = true
  · simp only [hs, ↓reduceIte]
    generalize fp.toPath = p
    vag_tac
  · simp only [hs, ↓reduceIte, Bool.false_eq_true]
    rw [Fp.toPath_of_not_isStr fp (by simpa using hs)]
    generalize fp = p
    vag_tac

/-- running both sides: split on the results of the opaque calls, then evaluate -/
macro "w_run" : tactic => `(tactic|
  (simp only [W.bind_run, W.tryW_run, W.pure_run, W.throw_run, W.lift_run]
   repeat' (first | rfl | (split <;> simp_all [W.bind_run, W.tryW_run]))))

/-- `_export` -/
theorem genExport_eq (env : Env) (cwd : Path) (obj : ExObj) (fp : Fp) (m : List (String × String)) (ext : OStr)
    (ow : Bool) (kw : Option Kw) : genExport env cwd obj fp m ext ow kw = exportSpec env cwd obj fp m ext ow kw := by
  funext fs
  unfold genExport exportSpec
  simp only [genValidateAndGetT_eq, genValidateAndGetF_eq, genNormPath_eq, genNormalizeExtension_eq, genExtToFunc_eq,
    W.bind_pure_unit, W.bind_pure]
  -- along the decisions of the specification: what `fp` is, whether keyword arguments were given, …
  rcases fp with s | s | h
  · -- a str: converted, validated, opened, written
    rw [validateAndGetSpec_toPath env cwd (Fp.str s)]
    cases kw <;>
      simp only [Fp.isStr, Fp.isPath, Fp.isStrOrPath, Fp.toPath_str, Fp.toPath_path, Option.isNone_none,
        Option.isNone_some, Option.isSome_none, Option.isSome_some, ↓reduceIte, Bool.false_eq_true, Option.getD_some,
        Option.getD_none, Bool.or_false, Bool.true_or, Bool.false_or, Bool.not_true, Bool.not_false] <;> w_run
  · cases kw <;>
      simp only [Fp.isStr, Fp.isPath, Fp.isStrOrPath, Fp.toPath_str, Fp.toPath_path, Option.isNone_none,
        Option.isNone_some, Option.isSome_none, Option.isSome_some, ↓reduceIte, Bool.false_eq_true, Option.getD_some,
        Option.getD_none, Bool.or_false, Bool.true_or, Bool.false_or, Bool.not_true, Bool.not_false] <;> w_run
  · -- a file object
    unfold exportHandleSpec validateAndGetFSpec
    have hh : ∀ x, Fp.getName (Fp.handle h) = .error x → x = Exc.attributeError := by
      intro x hx
      unfold Fp.getName at hx
      cases hn : h.name <;> simp_all
    cases kw <;> cases ext with
    | none => simp [Fp.isStr, Fp.isPath, Fp.isStrOrPath, Fp.toPath_handle]
    | some u =>
      cases hn : normalizeExt (some u) with
      | error x => simp [Fp.isStr, Fp.isPath, Fp.isStrOrPath, Fp.toPath_handle, W.bind_run, hn]
      | ok e =>
        cases hname : Fp.getName (Fp.handle h) with
        | error x =>
          have := hh x hname
          subst this
          cases hc : extToFuncSpec e m <;>
            simp [Fp.isStr, Fp.isPath, Fp.isStrOrPath, Fp.toPath_handle, W.bind_run, W.tryW_run, hn, hname, hc]
        | ok n =>
          rcases hv : validateAndGetSpec env cwd n.toPath m e ow fs with ⟨x | r, fs'⟩
          · simp [Fp.isStr, Fp.isPath, Fp.isStrOrPath, Fp.toPath_handle, W.bind_run, W.tryW_run, hn, hname, hv,
              validateAndGetSpec_ne_attr _ _ _ _ _ _ _ _ _ hv]
          · simp [Fp.isStr, Fp.isPath, Fp.isStrOrPath, Fp.toPath_handle, W.bind_run, W.tryW_run, hn, hname, hv]

/-- `_export_paths_only` -/
theorem genExportPathsOnly_eq (env : Env) (cwd : Path) (obj : ExObj) (fp : Fp) (m : List (String × String)) (ext : OStr)
    (ow : Bool) (kw : Option Kw) :
    genExportPathsOnly env cwd obj fp m ext ow kw = exportPathsOnlySpec env cwd obj fp m ext ow kw := by
  funext fs
  unfold genExportPathsOnly exportPathsOnlySpec
  simp only [genValidateAndGetF_eq, genNormPath_eq, W.bind_pure_unit, W.bind_pure]
  unfold validateAndGetFSpec
  by_cases hs : fp.isStr = true
  · simp only [hs, ↓reduceIte]
    rw [← validateAndGetSpec_toPath env cwd fp]
    cases kw <;> simp only [Option.isNone_none, Option.isNone_some, ↓reduceIte, Bool.false_eq_true, Option.getD_some,
      Option.getD_none] <;> simp only [W.bind_run, W.pure_run] <;>
      generalize validateAndGetSpec env cwd fp m ext ow fs = r <;> rcases r with ⟨_ | _, _⟩ <;> simp
  · simp only [hs, ↓reduceIte, Bool.false_eq_true]
    rw [Fp.toPath_of_not_isStr fp (by simpa using hs)]
    cases kw <;> simp only [Option.isNone_none, Option.isNone_some, ↓reduceIte, Bool.false_eq_true, Option.getD_some,
      Option.getD_none] <;> simp only [W.bind_run, W.pure_run] <;>
      generalize validateAndGetSpec env cwd fp m ext ow fs = r <;> rcases r with ⟨_ | _, _⟩ <;> simp

/-- `export_pickle` -/
theorem genExportPickle_eq (env : Env) (cwd : Path) (m : List (String × String)) (obj : ExObj) (fp : Fp) (ow : Bool)
    (protocol : Nat) :
    genExportPickle env cwd m obj fp ow protocol = exportPickleSpec env cwd m obj fp ow protocol := by
  funext fs
  unfold genExportPickle exportPickleSpec
  simp only [genExport_eq, genValidateFilepath_eq, genParseAndValidate_eq, W.bind_pure_unit, W.bind_pure,
    strLast3_beq, strLast3_bne, strEndsWith_gz, Bool.not_eq_true', ite_not]
  have hopen : ∀ b : Bool, (if b = false then Opener.plain else Opener.gzip) = if b = true then Opener.gzip else Opener.plain := by
    intro b; cases b <;> rfl
  try simp only [hopen]
  rcases fp with s | s | h
  · have e1 : (Fp.str s).toPath = Fp.path s := rfl
    simp only [Fp.isStr, Fp.isPath, Fp.isStrOrPath, e1, ↓reduceIte, Bool.or_false, Bool.true_or, Bool.true_eq_false]
    w_run
  · have e2 : (Fp.path s).toPath = Fp.path s := rfl
    simp only [Fp.isStr, Fp.isPath, Fp.isStrOrPath, e2, ↓reduceIte, Bool.false_or, Bool.false_eq_true,
      Bool.true_eq_false]
    w_run
  · simp only [Fp.isStr, Fp.isPath, Fp.isStrOrPath, ↓reduceIte, Bool.false_or, Bool.false_eq_true, Bool.or_self]

set_option hygiene false in
/-- the part of `export_landmark_file` from `_normalize_extension` on (goal: `… fs = exportLandmarkFileSpecCoded … fs`):
along the decisions of the specification -/
macro "lm_coded" : tactic => `(tactic|
  (unfold exportLandmarkFileSpecCoded
   cases hn : normalizeExt ext with
   | error x => simp [W.bind_run, hn]
   | ok e =>
     simp only [W.bind_run, W.lift_run, W.tryW_run, ExObj.nPoints, hn]
     cases hp : obj.hasNPoints with
     | true => simp
     | false =>
       by_cases h1 : e.isSome = true <;> by_cases h2 : e = ostr ".ljson" <;> by_cases h3 : fp.isStrOrPath = true <;>
         by_cases h4 : fp.toPath.suffix = ostr ".ljson" <;>
         first
         | (simp [h1, h2, h3, h4, W.bind_run, W.tryW_run, W.lift_run, truthy_bool]; done)
         | simp_all [W.bind_run, W.tryW_run, W.lift_run, truthy_bool]))

/-- `export_landmark_file`: the translation is one of the two documented variants — the code as it stood (dictionary
check before the overwrite guard: `guardFirst = false`) or the repaired code of
notes/fixes/C16-landmark-dict-guard-first.diff (`guardFirst = true`).  Which one is decided by the source text. -/
theorem genExportLandmarkFile_eq : ∃ guardFirst : Bool, ∀ (env : Env) (cwd : Path) (m : List (String × String))
    (obj : ExObj) (fp : Fp) (ext : OStr) (ow : Bool),
    genExportLandmarkFile env cwd m obj fp ext ow = exportLandmarkFileSpecV guardFirst env cwd m obj fp ext ow := by
  first
  | refine ⟨true, ?_⟩
    intro env cwd m obj fp ext ow
    funext fs
    unfold genExportLandmarkFile exportLandmarkFileSpecV exportLandmarkFileSpec
    simp only [genExport_eq, genNormalizeExtension_eq, genValidateFilepath_eq, W.bind_pure_unit, W.bind_pure, ↓reduceIte]
    by_cases h0 : fp.isStrOrPath = true
    · simp only [h0, ↓reduceIte, W.bind_run]
      rcases hv : validateFilepathSpec env cwd fp.toPath ow fs with ⟨x | r, fs'⟩
      · rfl
      · simp only
        generalize fs' = fs
        lm_coded
    · simp only [h0, Bool.false_eq_true, ↓reduceIte]
      lm_coded
  | refine ⟨false, ?_⟩
    intro env cwd m obj fp ext ow
    funext fs
    unfold genExportLandmarkFile exportLandmarkFileSpecV
    simp only [genExport_eq, genNormalizeExtension_eq, W.bind_pure_unit, W.bind_pure, Bool.false_eq_true, ↓reduceIte]
    lm_coded

/-- `export_image` -/
theorem genExportImage_eq (env : Env) (cwd : Path) (m : List (String × String)) (obj : ExObj) (fp : Fp)
    (ext : OStr) (ow : Bool) : genExportImage env cwd m obj fp ext ow = exportImageSpec env cwd m obj fp ext ow := by
  unfold genExportImage exportImageSpec
  simp only [genExport_eq, W.bind_pure_unit]

/-- `export_video` -/
theorem genExportVideo_eq (env : Env) (cwd : Path) (m : List (String × String)) (obj : ExObj) (fp : Fp) (ow : Bool)
    (fps : Nat) (kwargs : Kw) :
    genExportVideo env cwd m obj fp ow fps kwargs = exportVideoSpec env cwd m obj fp ow fps kwargs := by
  funext fs
  unfold genExportVideo exportVideoSpec
  simp only [genExportPathsOnly_eq, genEnforcePaths_eq, W.bind_pure_unit, W.bind_pure]
  cases enforcePathsSpec fp <;> simp [W.bind_run]

end MenpoModel.GenProps.C16
