/- Obligations over the regenerated tables (written by harness/extract_c15.py).
   * `wf_` / `edges_`: one per labeller the live module exports.  With `labeller_reindexes`,
     `labeller_all_labelled`, `labeller_commutes`, `labeller_size`, `labeller_masks`, `labeller_label_points`,
     `labeller_edges` of Props/C15*.lean each makes those theorems statements about that labeller as it is coded
     now; the `edges_` obligations (labellers returning a labelled graph) feed `labeller_output_wf`.
   * `res_`: the resolution row of every labeller (what it does per input kind and per `return_mapping`, probed on
     the live function) equals what the model (`LabFunc.call`, `relabel`) computes for it.
   * `orderSites_ok`, `labScan_ok`: the source scans (no set-iteration order reaches an output; no labeller looks at
     a coordinate, each validates exactly the size of its table). -/
import MenpoModel.Generated.C15Labellers
import MenpoModel.Generated.C15Resolution
import MenpoModel.Generated.C15Scan
import MenpoModel.Props.C15

namespace MenpoModel.C15.GenProps
open MenpoModel.C15

theorem wf_car_streetscene_20_to_car_streetscene_view_0_8 : labellerWF Generated.car_streetscene_20_to_car_streetscene_view_0_8 = true := by decide +kernel
theorem edges_car_streetscene_20_to_car_streetscene_view_0_8 : labellerEdgesWF Generated.car_streetscene_20_to_car_streetscene_view_0_8 = true := by decide +kernel
theorem wf_car_streetscene_20_to_car_streetscene_view_1_14 : labellerWF Generated.car_streetscene_20_to_car_streetscene_view_1_14 = true := by decide +kernel
theorem edges_car_streetscene_20_to_car_streetscene_view_1_14 : labellerEdgesWF Generated.car_streetscene_20_to_car_streetscene_view_1_14 = true := by decide +kernel
theorem wf_car_streetscene_20_to_car_streetscene_view_2_10 : labellerWF Generated.car_streetscene_20_to_car_streetscene_view_2_10 = true := by decide +kernel
theorem edges_car_streetscene_20_to_car_streetscene_view_2_10 : labellerEdgesWF Generated.car_streetscene_20_to_car_streetscene_view_2_10 = true := by decide +kernel
theorem wf_car_streetscene_20_to_car_streetscene_view_3_14 : labellerWF Generated.car_streetscene_20_to_car_streetscene_view_3_14 = true := by decide +kernel
theorem edges_car_streetscene_20_to_car_streetscene_view_3_14 : labellerEdgesWF Generated.car_streetscene_20_to_car_streetscene_view_3_14 = true := by decide +kernel
theorem wf_car_streetscene_20_to_car_streetscene_view_4_14 : labellerWF Generated.car_streetscene_20_to_car_streetscene_view_4_14 = true := by decide +kernel
theorem edges_car_streetscene_20_to_car_streetscene_view_4_14 : labellerEdgesWF Generated.car_streetscene_20_to_car_streetscene_view_4_14 = true := by decide +kernel
theorem wf_car_streetscene_20_to_car_streetscene_view_5_10 : labellerWF Generated.car_streetscene_20_to_car_streetscene_view_5_10 = true := by decide +kernel
theorem edges_car_streetscene_20_to_car_streetscene_view_5_10 : labellerEdgesWF Generated.car_streetscene_20_to_car_streetscene_view_5_10 = true := by decide +kernel
theorem wf_car_streetscene_20_to_car_streetscene_view_6_14 : labellerWF Generated.car_streetscene_20_to_car_streetscene_view_6_14 = true := by decide +kernel
theorem edges_car_streetscene_20_to_car_streetscene_view_6_14 : labellerEdgesWF Generated.car_streetscene_20_to_car_streetscene_view_6_14 = true := by decide +kernel
theorem wf_car_streetscene_20_to_car_streetscene_view_7_8 : labellerWF Generated.car_streetscene_20_to_car_streetscene_view_7_8 = true := by decide +kernel
theorem edges_car_streetscene_20_to_car_streetscene_view_7_8 : labellerEdgesWF Generated.car_streetscene_20_to_car_streetscene_view_7_8 = true := by decide +kernel
theorem wf_eye_ibug_close_17_to_eye_ibug_close_17 : labellerWF Generated.eye_ibug_close_17_to_eye_ibug_close_17 = true := by decide +kernel
theorem edges_eye_ibug_close_17_to_eye_ibug_close_17 : labellerEdgesWF Generated.eye_ibug_close_17_to_eye_ibug_close_17 = true := by decide +kernel
theorem wf_eye_ibug_close_17_to_eye_ibug_close_17_trimesh : labellerWF Generated.eye_ibug_close_17_to_eye_ibug_close_17_trimesh = true := by decide +kernel
theorem wf_eye_ibug_open_38_to_eye_ibug_open_38 : labellerWF Generated.eye_ibug_open_38_to_eye_ibug_open_38 = true := by decide +kernel
theorem edges_eye_ibug_open_38_to_eye_ibug_open_38 : labellerEdgesWF Generated.eye_ibug_open_38_to_eye_ibug_open_38 = true := by decide +kernel
theorem wf_eye_ibug_open_38_to_eye_ibug_open_38_trimesh : labellerWF Generated.eye_ibug_open_38_to_eye_ibug_open_38_trimesh = true := by decide +kernel
theorem wf_face_bu3dfe_83_to_face_bu3dfe_83 : labellerWF Generated.face_bu3dfe_83_to_face_bu3dfe_83 = true := by decide +kernel
theorem edges_face_bu3dfe_83_to_face_bu3dfe_83 : labellerEdgesWF Generated.face_bu3dfe_83_to_face_bu3dfe_83 = true := by decide +kernel
theorem wf_face_ibug_49_to_face_ibug_49 : labellerWF Generated.face_ibug_49_to_face_ibug_49 = true := by decide +kernel
theorem edges_face_ibug_49_to_face_ibug_49 : labellerEdgesWF Generated.face_ibug_49_to_face_ibug_49 = true := by decide +kernel
theorem wf_face_ibug_68_mirrored_to_face_ibug_68 : labellerWF Generated.face_ibug_68_mirrored_to_face_ibug_68 = true := by decide +kernel
theorem edges_face_ibug_68_mirrored_to_face_ibug_68 : labellerEdgesWF Generated.face_ibug_68_mirrored_to_face_ibug_68 = true := by decide +kernel
theorem wf_face_ibug_68_to_face_ibug_49 : labellerWF Generated.face_ibug_68_to_face_ibug_49 = true := by decide +kernel
theorem edges_face_ibug_68_to_face_ibug_49 : labellerEdgesWF Generated.face_ibug_68_to_face_ibug_49 = true := by decide +kernel
theorem wf_face_ibug_68_to_face_ibug_49_trimesh : labellerWF Generated.face_ibug_68_to_face_ibug_49_trimesh = true := by decide +kernel
theorem wf_face_ibug_68_to_face_ibug_51 : labellerWF Generated.face_ibug_68_to_face_ibug_51 = true := by decide +kernel
theorem edges_face_ibug_68_to_face_ibug_51 : labellerEdgesWF Generated.face_ibug_68_to_face_ibug_51 = true := by decide +kernel
theorem wf_face_ibug_68_to_face_ibug_51_trimesh : labellerWF Generated.face_ibug_68_to_face_ibug_51_trimesh = true := by decide +kernel
theorem wf_face_ibug_68_to_face_ibug_65 : labellerWF Generated.face_ibug_68_to_face_ibug_65 = true := by decide +kernel
theorem edges_face_ibug_68_to_face_ibug_65 : labellerEdgesWF Generated.face_ibug_68_to_face_ibug_65 = true := by decide +kernel
theorem wf_face_ibug_68_to_face_ibug_66 : labellerWF Generated.face_ibug_68_to_face_ibug_66 = true := by decide +kernel
theorem edges_face_ibug_68_to_face_ibug_66 : labellerEdgesWF Generated.face_ibug_68_to_face_ibug_66 = true := by decide +kernel
theorem wf_face_ibug_68_to_face_ibug_66_trimesh : labellerWF Generated.face_ibug_68_to_face_ibug_66_trimesh = true := by decide +kernel
theorem wf_face_ibug_68_to_face_ibug_68 : labellerWF Generated.face_ibug_68_to_face_ibug_68 = true := by decide +kernel
theorem edges_face_ibug_68_to_face_ibug_68 : labellerEdgesWF Generated.face_ibug_68_to_face_ibug_68 = true := by decide +kernel
theorem wf_face_ibug_68_to_face_ibug_68_trimesh : labellerWF Generated.face_ibug_68_to_face_ibug_68_trimesh = true := by decide +kernel
theorem wf_face_imm_58_to_face_imm_58 : labellerWF Generated.face_imm_58_to_face_imm_58 = true := by decide +kernel
theorem edges_face_imm_58_to_face_imm_58 : labellerEdgesWF Generated.face_imm_58_to_face_imm_58 = true := by decide +kernel
theorem wf_face_lfpw_29_to_face_lfpw_29 : labellerWF Generated.face_lfpw_29_to_face_lfpw_29 = true := by decide +kernel
theorem edges_face_lfpw_29_to_face_lfpw_29 : labellerEdgesWF Generated.face_lfpw_29_to_face_lfpw_29 = true := by decide +kernel
theorem wf_hand_ibug_39_to_hand_ibug_39 : labellerWF Generated.hand_ibug_39_to_hand_ibug_39 = true := by decide +kernel
theorem edges_hand_ibug_39_to_hand_ibug_39 : labellerEdgesWF Generated.hand_ibug_39_to_hand_ibug_39 = true := by decide +kernel
theorem wf_pose_flic_11_to_pose_flic_11 : labellerWF Generated.pose_flic_11_to_pose_flic_11 = true := by decide +kernel
theorem edges_pose_flic_11_to_pose_flic_11 : labellerEdgesWF Generated.pose_flic_11_to_pose_flic_11 = true := by decide +kernel
theorem wf_pose_human36M_32_to_pose_human36M_17 : labellerWF Generated.pose_human36M_32_to_pose_human36M_17 = true := by decide +kernel
theorem edges_pose_human36M_32_to_pose_human36M_17 : labellerEdgesWF Generated.pose_human36M_32_to_pose_human36M_17 = true := by decide +kernel
theorem wf_pose_human36M_32_to_pose_human36M_32 : labellerWF Generated.pose_human36M_32_to_pose_human36M_32 = true := by decide +kernel
theorem edges_pose_human36M_32_to_pose_human36M_32 : labellerEdgesWF Generated.pose_human36M_32_to_pose_human36M_32 = true := by decide +kernel
theorem wf_pose_lsp_14_to_pose_lsp_14 : labellerWF Generated.pose_lsp_14_to_pose_lsp_14 = true := by decide +kernel
theorem edges_pose_lsp_14_to_pose_lsp_14 : labellerEdgesWF Generated.pose_lsp_14_to_pose_lsp_14 = true := by decide +kernel
theorem wf_pose_stickmen_12_to_pose_stickmen_12 : labellerWF Generated.pose_stickmen_12_to_pose_stickmen_12 = true := by decide +kernel
theorem edges_pose_stickmen_12_to_pose_stickmen_12 : labellerEdgesWF Generated.pose_stickmen_12_to_pose_stickmen_12 = true := by decide +kernel
theorem wf_tongue_ibug_19_to_tongue_ibug_19 : labellerWF Generated.tongue_ibug_19_to_tongue_ibug_19 = true := by decide +kernel
theorem edges_tongue_ibug_19_to_tongue_ibug_19 : labellerEdgesWF Generated.tongue_ibug_19_to_tongue_ibug_19 = true := by decide +kernel

theorem res_car_streetscene_20_to_car_streetscene_view_0_8 : Generated.res_car_streetscene_20_to_car_streetscene_view_0_8 = expectedEntry Generated.f_car_streetscene_20_to_car_streetscene_view_0_8 := by decide +kernel
theorem res_car_streetscene_20_to_car_streetscene_view_1_14 : Generated.res_car_streetscene_20_to_car_streetscene_view_1_14 = expectedEntry Generated.f_car_streetscene_20_to_car_streetscene_view_1_14 := by decide +kernel
theorem res_car_streetscene_20_to_car_streetscene_view_2_10 : Generated.res_car_streetscene_20_to_car_streetscene_view_2_10 = expectedEntry Generated.f_car_streetscene_20_to_car_streetscene_view_2_10 := by decide +kernel
theorem res_car_streetscene_20_to_car_streetscene_view_3_14 : Generated.res_car_streetscene_20_to_car_streetscene_view_3_14 = expectedEntry Generated.f_car_streetscene_20_to_car_streetscene_view_3_14 := by decide +kernel
theorem res_car_streetscene_20_to_car_streetscene_view_4_14 : Generated.res_car_streetscene_20_to_car_streetscene_view_4_14 = expectedEntry Generated.f_car_streetscene_20_to_car_streetscene_view_4_14 := by decide +kernel
theorem res_car_streetscene_20_to_car_streetscene_view_5_10 : Generated.res_car_streetscene_20_to_car_streetscene_view_5_10 = expectedEntry Generated.f_car_streetscene_20_to_car_streetscene_view_5_10 := by decide +kernel
theorem res_car_streetscene_20_to_car_streetscene_view_6_14 : Generated.res_car_streetscene_20_to_car_streetscene_view_6_14 = expectedEntry Generated.f_car_streetscene_20_to_car_streetscene_view_6_14 := by decide +kernel
theorem res_car_streetscene_20_to_car_streetscene_view_7_8 : Generated.res_car_streetscene_20_to_car_streetscene_view_7_8 = expectedEntry Generated.f_car_streetscene_20_to_car_streetscene_view_7_8 := by decide +kernel
theorem res_eye_ibug_close_17_to_eye_ibug_close_17 : Generated.res_eye_ibug_close_17_to_eye_ibug_close_17 = expectedEntry Generated.f_eye_ibug_close_17_to_eye_ibug_close_17 := by decide +kernel
theorem res_eye_ibug_close_17_to_eye_ibug_close_17_trimesh : Generated.res_eye_ibug_close_17_to_eye_ibug_close_17_trimesh = expectedEntry Generated.f_eye_ibug_close_17_to_eye_ibug_close_17_trimesh := by decide +kernel
theorem res_eye_ibug_open_38_to_eye_ibug_open_38 : Generated.res_eye_ibug_open_38_to_eye_ibug_open_38 = expectedEntry Generated.f_eye_ibug_open_38_to_eye_ibug_open_38 := by decide +kernel
theorem res_eye_ibug_open_38_to_eye_ibug_open_38_trimesh : Generated.res_eye_ibug_open_38_to_eye_ibug_open_38_trimesh = expectedEntry Generated.f_eye_ibug_open_38_to_eye_ibug_open_38_trimesh := by decide +kernel
theorem res_face_bu3dfe_83_to_face_bu3dfe_83 : Generated.res_face_bu3dfe_83_to_face_bu3dfe_83 = expectedEntry Generated.f_face_bu3dfe_83_to_face_bu3dfe_83 := by decide +kernel
theorem res_face_ibug_49_to_face_ibug_49 : Generated.res_face_ibug_49_to_face_ibug_49 = expectedEntry Generated.f_face_ibug_49_to_face_ibug_49 := by decide +kernel
theorem res_face_ibug_68_mirrored_to_face_ibug_68 : Generated.res_face_ibug_68_mirrored_to_face_ibug_68 = expectedEntry Generated.f_face_ibug_68_mirrored_to_face_ibug_68 := by decide +kernel
theorem res_face_ibug_68_to_face_ibug_49 : Generated.res_face_ibug_68_to_face_ibug_49 = expectedEntry Generated.f_face_ibug_68_to_face_ibug_49 := by decide +kernel
theorem res_face_ibug_68_to_face_ibug_49_trimesh : Generated.res_face_ibug_68_to_face_ibug_49_trimesh = expectedEntry Generated.f_face_ibug_68_to_face_ibug_49_trimesh := by decide +kernel
theorem res_face_ibug_68_to_face_ibug_51 : Generated.res_face_ibug_68_to_face_ibug_51 = expectedEntry Generated.f_face_ibug_68_to_face_ibug_51 := by decide +kernel
theorem res_face_ibug_68_to_face_ibug_51_trimesh : Generated.res_face_ibug_68_to_face_ibug_51_trimesh = expectedEntry Generated.f_face_ibug_68_to_face_ibug_51_trimesh := by decide +kernel
theorem res_face_ibug_68_to_face_ibug_65 : Generated.res_face_ibug_68_to_face_ibug_65 = expectedEntry Generated.f_face_ibug_68_to_face_ibug_65 := by decide +kernel
theorem res_face_ibug_68_to_face_ibug_66 : Generated.res_face_ibug_68_to_face_ibug_66 = expectedEntry Generated.f_face_ibug_68_to_face_ibug_66 := by decide +kernel
theorem res_face_ibug_68_to_face_ibug_66_trimesh : Generated.res_face_ibug_68_to_face_ibug_66_trimesh = expectedEntry Generated.f_face_ibug_68_to_face_ibug_66_trimesh := by decide +kernel
theorem res_face_ibug_68_to_face_ibug_68 : Generated.res_face_ibug_68_to_face_ibug_68 = expectedEntry Generated.f_face_ibug_68_to_face_ibug_68 := by decide +kernel
theorem res_face_ibug_68_to_face_ibug_68_trimesh : Generated.res_face_ibug_68_to_face_ibug_68_trimesh = expectedEntry Generated.f_face_ibug_68_to_face_ibug_68_trimesh := by decide +kernel
theorem res_face_imm_58_to_face_imm_58 : Generated.res_face_imm_58_to_face_imm_58 = expectedEntry Generated.f_face_imm_58_to_face_imm_58 := by decide +kernel
theorem res_face_lfpw_29_to_face_lfpw_29 : Generated.res_face_lfpw_29_to_face_lfpw_29 = expectedEntry Generated.f_face_lfpw_29_to_face_lfpw_29 := by decide +kernel
theorem res_hand_ibug_39_to_hand_ibug_39 : Generated.res_hand_ibug_39_to_hand_ibug_39 = expectedEntry Generated.f_hand_ibug_39_to_hand_ibug_39 := by decide +kernel
theorem res_pose_flic_11_to_pose_flic_11 : Generated.res_pose_flic_11_to_pose_flic_11 = expectedEntry Generated.f_pose_flic_11_to_pose_flic_11 := by decide +kernel
theorem res_pose_human36M_32_to_pose_human36M_17 : Generated.res_pose_human36M_32_to_pose_human36M_17 = expectedEntry Generated.f_pose_human36M_32_to_pose_human36M_17 := by decide +kernel
theorem res_pose_human36M_32_to_pose_human36M_32 : Generated.res_pose_human36M_32_to_pose_human36M_32 = expectedEntry Generated.f_pose_human36M_32_to_pose_human36M_32 := by decide +kernel
theorem res_pose_lsp_14_to_pose_lsp_14 : Generated.res_pose_lsp_14_to_pose_lsp_14 = expectedEntry Generated.f_pose_lsp_14_to_pose_lsp_14 := by decide +kernel
theorem res_pose_stickmen_12_to_pose_stickmen_12 : Generated.res_pose_stickmen_12_to_pose_stickmen_12 = expectedEntry Generated.f_pose_stickmen_12_to_pose_stickmen_12 := by decide +kernel
theorem res_tongue_ibug_19_to_tongue_ibug_19 : Generated.res_tongue_ibug_19_to_tongue_ibug_19 = expectedEntry Generated.f_tongue_ibug_19_to_tongue_ibug_19 := by decide +kernel

/-- all of them at once, in the form the property theorems consume -/
theorem all_wf : ∀ p ∈ Generated.all, labellerWF p.2 = true := by
  intro p hp
  simp only [Generated.all, List.mem_cons, List.not_mem_nil, or_false] at hp
  rcases hp with rfl | rfl | rfl | rfl | rfl | rfl | rfl | rfl | rfl | rfl | rfl | rfl | rfl | rfl | rfl | rfl | rfl | rfl | rfl | rfl | rfl | rfl | rfl | rfl | rfl | rfl | rfl | rfl | rfl | rfl | rfl | rfl | rfl
  · exact wf_car_streetscene_20_to_car_streetscene_view_0_8
  · exact wf_car_streetscene_20_to_car_streetscene_view_1_14
  · exact wf_car_streetscene_20_to_car_streetscene_view_2_10
  · exact wf_car_streetscene_20_to_car_streetscene_view_3_14
  · exact wf_car_streetscene_20_to_car_streetscene_view_4_14
  · exact wf_car_streetscene_20_to_car_streetscene_view_5_10
  · exact wf_car_streetscene_20_to_car_streetscene_view_6_14
  · exact wf_car_streetscene_20_to_car_streetscene_view_7_8
  · exact wf_eye_ibug_close_17_to_eye_ibug_close_17
  · exact wf_eye_ibug_close_17_to_eye_ibug_close_17_trimesh
  · exact wf_eye_ibug_open_38_to_eye_ibug_open_38
  · exact wf_eye_ibug_open_38_to_eye_ibug_open_38_trimesh
  · exact wf_face_bu3dfe_83_to_face_bu3dfe_83
  · exact wf_face_ibug_49_to_face_ibug_49
  · exact wf_face_ibug_68_mirrored_to_face_ibug_68
  · exact wf_face_ibug_68_to_face_ibug_49
  · exact wf_face_ibug_68_to_face_ibug_49_trimesh
  · exact wf_face_ibug_68_to_face_ibug_51
  · exact wf_face_ibug_68_to_face_ibug_51_trimesh
  · exact wf_face_ibug_68_to_face_ibug_65
  · exact wf_face_ibug_68_to_face_ibug_66
  · exact wf_face_ibug_68_to_face_ibug_66_trimesh
  · exact wf_face_ibug_68_to_face_ibug_68
  · exact wf_face_ibug_68_to_face_ibug_68_trimesh
  · exact wf_face_imm_58_to_face_imm_58
  · exact wf_face_lfpw_29_to_face_lfpw_29
  · exact wf_hand_ibug_39_to_hand_ibug_39
  · exact wf_pose_flic_11_to_pose_flic_11
  · exact wf_pose_human36M_32_to_pose_human36M_17
  · exact wf_pose_human36M_32_to_pose_human36M_32
  · exact wf_pose_lsp_14_to_pose_lsp_14
  · exact wf_pose_stickmen_12_to_pose_stickmen_12
  · exact wf_tongue_ibug_19_to_tongue_ibug_19

/-- `funcs` wraps exactly the tabulated labellers, in the same order -/
theorem funcs_all : Generated.funcs.map (fun f => (f.name, f.table)) = Generated.all := by decide +kernel

theorem funcs_cls : ∀ f ∈ Generated.funcs, f.cls ≠ .other := by decide +kernel

/-- the labellers tabulated from the live module are exactly the 33 the property quantifies over -/
theorem labellers_pinned : Generated.funcs.map (fun f => f.name) = expectedLabellerNames := by decide +kernel

/-- the resolution table as a whole is the model's -/
theorem resolution_ok : Generated.resolution = Generated.funcs.map expectedEntry := by
  simp only [Generated.resolution, Generated.funcs, List.map_cons, List.map_nil, res_car_streetscene_20_to_car_streetscene_view_0_8, res_car_streetscene_20_to_car_streetscene_view_1_14, res_car_streetscene_20_to_car_streetscene_view_2_10, res_car_streetscene_20_to_car_streetscene_view_3_14, res_car_streetscene_20_to_car_streetscene_view_4_14, res_car_streetscene_20_to_car_streetscene_view_5_10, res_car_streetscene_20_to_car_streetscene_view_6_14, res_car_streetscene_20_to_car_streetscene_view_7_8, res_eye_ibug_close_17_to_eye_ibug_close_17, res_eye_ibug_close_17_to_eye_ibug_close_17_trimesh, res_eye_ibug_open_38_to_eye_ibug_open_38, res_eye_ibug_open_38_to_eye_ibug_open_38_trimesh, res_face_bu3dfe_83_to_face_bu3dfe_83, res_face_ibug_49_to_face_ibug_49, res_face_ibug_68_mirrored_to_face_ibug_68, res_face_ibug_68_to_face_ibug_49, res_face_ibug_68_to_face_ibug_49_trimesh, res_face_ibug_68_to_face_ibug_51, res_face_ibug_68_to_face_ibug_51_trimesh, res_face_ibug_68_to_face_ibug_65, res_face_ibug_68_to_face_ibug_66, res_face_ibug_68_to_face_ibug_66_trimesh, res_face_ibug_68_to_face_ibug_68, res_face_ibug_68_to_face_ibug_68_trimesh, res_face_imm_58_to_face_imm_58, res_face_lfpw_29_to_face_lfpw_29, res_hand_ibug_39_to_hand_ibug_39, res_pose_flic_11_to_pose_flic_11, res_pose_human36M_32_to_pose_human36M_17, res_pose_human36M_32_to_pose_human36M_32, res_pose_lsp_14_to_pose_lsp_14, res_pose_stickmen_12_to_pose_stickmen_12, res_tongue_ibug_19_to_tongue_ibug_19]

/-- the only set whose iteration order the anchored code observes is the whitelisted one (inside a `raise`) -/
theorem orderSites_ok : orderSitesOf Generated.setSites = expectedOrderSites := by decide +kernel

-- (the guard of `validate_input` is no longer compared as text: the function is TRANSLATED from source and proved
--  equal to `validateInput` for all arguments, `GenProps.Src.validate_input_eq`)

/-- no labelling function can look at a coordinate; each validates exactly the size of its table -/
theorem labScan_ok : labScanOK Generated.labScan Generated.funcs = true := by decide +kernel

/-- the labeller clause of the property for every index-based labeller the live module exports: wrong sizes
are rejected, the labeller commutes with every map of the points, output point `j` is input point `ind[j]`
(all distinct), every output point is labelled -/
theorem live_labellers {α β : Type} : ∀ p ∈ Generated.all, ∀ (xs : List α),
    (xs.length ≠ p.2.nExpected → p.2.apply xs = .error .labelling) ∧
    (∀ f : α → β, p.2.apply (xs.map f) = (p.2.apply xs).map (mapPts f)) ∧
    (∀ g, p.2.apply xs = .ok g → g.pts.length = p.2.ind.length ∧
      (∀ j, j < p.2.ind.length → p.2.ind[j]! < xs.length ∧ g.pts[j]? = xs[p.2.ind[j]!]?) ∧
      p.2.ind.Nodup ∧ Covered g) :=
  fun p hp xs => ⟨(labeller_size p.2 xs).1, fun f => labeller_commutes p.2 f xs, fun g h =>
    have r := labeller_reindexes p.2 (all_wf p hp) xs g h
    ⟨r.1, r.2.1, r.2.2, (labeller_all_labelled p.2 (all_wf p hp) xs g h).1⟩⟩

/-- **the gather theorem instantiated for every regenerated table**: on every input the labelled result of every
live labeller carries the labels of its table in the table's order, the mask of each label is true exactly at
the output positions the table lists, the points under the label are the input points `ind[j]`, `j` in the
label's list, and the connectivity is the table's -/
theorem live_labellers_masks {α : Type} : ∀ p ∈ Generated.all, ∀ (xs : List α) (g : LGraph α),
    p.2.apply xs = .ok g →
    g.names = p.2.labels.map Prod.fst ∧ g.edges = p.2.edges ∧
    ∀ l ix, (l, ix) ∈ p.2.labels →
      lookup g.labels l = some (indexMask p.2.ind.length ix) ∧
      (∀ j, (indexMask p.2.ind.length ix)[j]? = some true ↔ j < g.pts.length ∧ j ∈ ix) ∧
      (∀ j ∈ ix, j < p.2.ind.length ∧
        (maskFilter g.pts (indexMask p.2.ind.length ix))[rank (indexMask p.2.ind.length ix) j]? =
          xs[p.2.ind[j]!]?) ∧
      (∀ k, k < (maskFilter g.pts (indexMask p.2.ind.length ix)).length →
        ∃ j ∈ ix, rank (indexMask p.2.ind.length ix) j = k) :=
  fun p hp xs g h =>
    have m := labeller_masks p.2 (all_wf p hp) xs g h
    ⟨m.1, (labeller_apply_ok h).2.2.1, fun l ix hm =>
      have q := labeller_label_points p.2 (all_wf p hp) xs g h l ix hm
      ⟨(m.2 l ix hm).1, (m.2 l ix hm).2, q.1, q.2⟩⟩

/-- the label index lists of every table are strictly increasing -/
theorem all_sorted : ∀ p ∈ Generated.all, labelsSortedB p.2 = true := by decide +kernel

/-- **the gather form, for every live labeller and every one of its labels**: on every input the points under
label `l` are the input points gathered through `ix.map ind` -/
theorem live_labellers_gather {α : Type} : ∀ p ∈ Generated.all, ∀ (xs : List α) (g : LGraph α),
    p.2.apply xs = .ok g → ∀ l ix, (l, ix) ∈ p.2.labels →
      maskFilter g.pts (indexMask p.2.ind.length ix) = gather xs (ix.map (p.2.ind[·]!)) :=
  fun p hp xs g h l ix hm =>
    (labeller_get_label_gather p.2 (all_wf p hp) (all_sorted p hp) xs g h l ix hm).1

/-- every live labelling function, through `labeller_func`'s wrapper and through `labeller()`: whatever kind of
input carries the points the result is the same; a wrong size is a `LabellingError`; `labeller()` on a
well-formed manager raises only for a missing group / an ambiguous `None` / a wrong size, and when it succeeds
it changes exactly the key `group_label` -/
theorem live_entry {α : Type} : ∀ f ∈ Generated.funcs,
    labellerWF f.table = true ∧
    (∀ (x y : LabIn α) rm, x.pts = y.pts → f.call x rm = f.call y rm) ∧
    (∀ (x : LabIn α) rm, x.pts.length ≠ f.table.nExpected → f.call x rm = .error .labelling) ∧
    (∀ (m m' : Manager α) grp, relabel m grp f = .ok m' →
      (∀ k, k ≠ f.groupLabel → m'.get k = m.get k) ∧
      m'.keys = (if f.groupLabel ∈ m.keys then m.keys else m.keys ++ [f.groupLabel])) ∧
    (∀ (m : Manager α), ManagerWF m → ∀ grp e, relabel m grp f = .error e ↔
      (m.getItem grp = .error e) ∨
      (∃ s, m.getItem grp = .ok s ∧ s.g.pts.length ≠ f.table.nExpected ∧ e = .labelling)) :=
  fun f hf =>
    have hw : labellerWF f.table = true := by
      have : (f.name, f.table) ∈ Generated.all := by
        rw [← funcs_all]; exact List.mem_map.mpr ⟨f, hf, rfl⟩
      exact all_wf _ this
    ⟨hw, fun x y rm h => call_kind_independent f x y rm h, fun x rm h => (call_spec f x rm).1 h,
     fun m m' grp h => by
       obtain ⟨_, _, _, _, _, _, hk, hkeys⟩ := relabel_spec h
       exact ⟨hk, hkeys⟩,
     fun m hm grp e => relabel_error_iff m hm grp f (funcs_cls f hf) e⟩

end MenpoModel.C15.GenProps
