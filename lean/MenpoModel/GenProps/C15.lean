/- Obligations over the regenerated labeller tables (written by harness/extract_c15.py: one per labeller the
   live module exports).  With `labeller_reindexes`, `labeller_all_labelled`, `labeller_commutes`,
   `labeller_size` of Props/C15.lean each `wf_` obligation makes those theorems statements about that
   labeller as it is coded now; the `edges_` obligations (labellers returning a labelled graph) feed
   `labeller_output_wf`. -/
import MenpoModel.Generated.C15Labellers
import MenpoModel.Props.C15

namespace MenpoModel.C15.GenProps
open MenpoModel.C15

theorem wf_car_streetscene_20_to_car_streetscene_view_0_8 : labellerWF Generated.car_streetscene_20_to_car_streetscene_view_0_8 = true := by decide +kernel
theorem edges_car_streetscene_20_to_car_streetscene_view_0_8 : labellerEdgesWF Generated.car_streetscene_20_to_car_streetscene_view_0_8 = true := by decide +kernel
theorem wf_car_streetscene_20_to_car_streetscene_view_1_14 : labellerWF Generated.car_streetscene_20_to_car_streetscene_view_1_14 = true := by decide +kernel
theorem edges_car_streetscene_20_to_car_streetscene_view_1_14 : labellerEdgesWF Generated.car_streetscene_20_to_car_streetscene_view_1_14 = true := by decide +kernel
theorem wf_car_streetscene_20_to_car_streetscene_view_2_10 : labellerWF Generated.car_streetscene_20_to_car_streetscene_view_2_10 = true := by decide +kernel
theorem edges_car_streetscene_20_to_car_streetscene_view_2_10 : labellerEdgesWF Generated.car_streetscene_20_to_car_streetscene_view_2_10 = true := by decide +kernel
theorem wf_car_streetscene_20_to_car_streetscene_view_3_14 : labellerWF Generated.car_streetscene_20_to_car_streetscene_view_3_14 = true := by decide +kernel
theorem edges_car_streetscene_20_to_car_streetscene_view_3_14 : labellerEdgesWF Generated.car_streetscene_20_to_car_streetscene_view_3_14 = true := by decide +kernel
theorem wf_car_streetscene_20_to_car_streetscene_view_4_14 : labellerWF Generated.car_streetscene_20_to_car_streetscene_view_4_14 = true := by decide +kernel
theorem edges_car_streetscene_20_to_car_streetscene_view_4_14 : labellerEdgesWF Generated.car_streetscene_20_to_car_streetscene_view_4_14 = true := by decide +kernel
theorem wf_car_streetscene_20_to_car_streetscene_view_5_10 : labellerWF Generated.car_streetscene_20_to_car_streetscene_view_5_10 = true := by decide +kernel
theorem edges_car_streetscene_20_to_car_streetscene_view_5_10 : labellerEdgesWF Generated.car_streetscene_20_to_car_streetscene_view_5_10 = true := by decide +kernel
theorem wf_car_streetscene_20_to_car_streetscene_view_6_14 : labellerWF Generated.car_streetscene_20_to_car_streetscene_view_6_14 = true := by decide +kernel
theorem edges_car_streetscene_20_to_car_streetscene_view_6_14 : labellerEdgesWF Generated.car_streetscene_20_to_car_streetscene_view_6_14 = true := by decide +kernel
theorem wf_car_streetscene_20_to_car_streetscene_view_7_8 : labellerWF Generated.car_streetscene_20_to_car_streetscene_view_7_8 = true := by decide +kernel
theorem edges_car_streetscene_20_to_car_streetscene_view_7_8 : labellerEdgesWF Generated.car_streetscene_20_to_car_streetscene_view_7_8 = true := by decide +kernel
theorem wf_eye_ibug_close_17_to_eye_ibug_close_17 : labellerWF Generated.eye_ibug_close_17_to_eye_ibug_close_17 = true := by decide +kernel
theorem edges_eye_ibug_close_17_to_eye_ibug_close_17 : labellerEdgesWF Generated.eye_ibug_close_17_to_eye_ibug_close_17 = true := by decide +kernel
theorem wf_eye_ibug_close_17_to_eye_ibug_close_17_trimesh : labellerWF Generated.eye_ibug_close_17_to_eye_ibug_close_17_trimesh = true := by decide +kernel
theorem wf_eye_ibug_open_38_to_eye_ibug_open_38 : labellerWF Generated.eye_ibug_open_38_to_eye_ibug_open_38 = true := by decide +kernel
theorem edges_eye_ibug_open_38_to_eye_ibug_open_38 : labellerEdgesWF Generated.eye_ibug_open_38_to_eye_ibug_open_38 = true := by decide +kernel
theorem wf_eye_ibug_open_38_to_eye_ibug_open_38_trimesh : labellerWF Generated.eye_ibug_open_38_to_eye_ibug_open_38_trimesh = true := by decide +kernel
theorem wf_face_bu3dfe_83_to_face_bu3dfe_83 : labellerWF Generated.face_bu3dfe_83_to_face_bu3dfe_83 = true := by decide +kernel
theorem edges_face_bu3dfe_83_to_face_bu3dfe_83 : labellerEdgesWF Generated.face_bu3dfe_83_to_face_bu3dfe_83 = true := by decide +kernel
theorem wf_face_ibug_49_to_face_ibug_49 : labellerWF Generated.face_ibug_49_to_face_ibug_49 = true := by decide +kernel
theorem edges_face_ibug_49_to_face_ibug_49 : labellerEdgesWF Generated.face_ibug_49_to_face_ibug_49 = true := by decide +kernel
theorem wf_face_ibug_68_mirrored_to_face_ibug_68 : labellerWF Generated.face_ibug_68_mirrored_to_face_ibug_68 = true := by decide +kernel
theorem edges_face_ibug_68_mirrored_to_face_ibug_68 : labellerEdgesWF Generated.face_ibug_68_mirrored_to_face_ibug_68 = true := by decide +kernel
theorem wf_face_ibug_68_to_face_ibug_49 : labellerWF Generated.face_ibug_68_to_face_ibug_49 = true := by decide +kernel
theorem edges_face_ibug_68_to_face_ibug_49 : labellerEdgesWF Generated.face_ibug_68_to_face_ibug_49 = true := by decide +kernel
theorem wf_face_ibug_68_to_face_ibug_49_trimesh : labellerWF Generated.face_ibug_68_to_face_ibug_49_trimesh = true := by decide +kernel
theorem wf_face_ibug_68_to_face_ibug_51 : labellerWF Generated.face_ibug_68_to_face_ibug_51 = true := by decide +kernel
theorem edges_face_ibug_68_to_face_ibug_51 : labellerEdgesWF Generated.face_ibug_68_to_face_ibug_51 = true := by decide +kernel
theorem wf_face_ibug_68_to_face_ibug_51_trimesh : labellerWF Generated.face_ibug_68_to_face_ibug_51_trimesh = true := by decide +kernel
theorem wf_face_ibug_68_to_face_ibug_65 : labellerWF Generated.face_ibug_68_to_face_ibug_65 = true := by decide +kernel
theorem edges_face_ibug_68_to_face_ibug_65 : labellerEdgesWF Generated.face_ibug_68_to_face_ibug_65 = true := by decide +kernel
theorem wf_face_ibug_68_to_face_ibug_66 : labellerWF Generated.face_ibug_68_to_face_ibug_66 = true := by decide +kernel
theorem edges_face_ibug_68_to_face_ibug_66 : labellerEdgesWF Generated.face_ibug_68_to_face_ibug_66 = true := by decide +kernel
theorem wf_face_ibug_68_to_face_ibug_66_trimesh : labellerWF Generated.face_ibug_68_to_face_ibug_66_trimesh = true := by decide +kernel
theorem wf_face_ibug_68_to_face_ibug_68 : labellerWF Generated.face_ibug_68_to_face_ibug_68 = true := by decide +kernel
theorem edges_face_ibug_68_to_face_ibug_68 : labellerEdgesWF Generated.face_ibug_68_to_face_ibug_68 = true := by decide +kernel
theorem wf_face_ibug_68_to_face_ibug_68_trimesh : labellerWF Generated.face_ibug_68_to_face_ibug_68_trimesh = true := by decide +kernel
theorem wf_face_imm_58_to_face_imm_58 : labellerWF Generated.face_imm_58_to_face_imm_58 = true := by decide +kernel
theorem edges_face_imm_58_to_face_imm_58 : labellerEdgesWF Generated.face_imm_58_to_face_imm_58 = true := by decide +kernel
theorem wf_face_lfpw_29_to_face_lfpw_29 : labellerWF Generated.face_lfpw_29_to_face_lfpw_29 = true := by decide +kernel
theorem edges_face_lfpw_29_to_face_lfpw_29 : labellerEdgesWF Generated.face_lfpw_29_to_face_lfpw_29 = true := by decide +kernel
theorem wf_hand_ibug_39_to_hand_ibug_39 : labellerWF Generated.hand_ibug_39_to_hand_ibug_39 = true := by decide +kernel
theorem edges_hand_ibug_39_to_hand_ibug_39 : labellerEdgesWF Generated.hand_ibug_39_to_hand_ibug_39 = true := by decide +kernel
theorem wf_pose_flic_11_to_pose_flic_11 : labellerWF Generated.pose_flic_11_to_pose_flic_11 = true := by decide +kernel
theorem edges_pose_flic_11_to_pose_flic_11 : labellerEdgesWF Generated.pose_flic_11_to_pose_flic_11 = true := by decide +kernel
theorem wf_pose_human36M_32_to_pose_human36M_17 : labellerWF Generated.pose_human36M_32_to_pose_human36M_17 = true := by decide +kernel
theorem edges_pose_human36M_32_to_pose_human36M_17 : labellerEdgesWF Generated.pose_human36M_32_to_pose_human36M_17 = true := by decide +kernel
theorem wf_pose_human36M_32_to_pose_human36M_32 : labellerWF Generated.pose_human36M_32_to_pose_human36M_32 = true := by decide +kernel
theorem edges_pose_human36M_32_to_pose_human36M_32 : labellerEdgesWF Generated.pose_human36M_32_to_pose_human36M_32 = true := by decide +kernel
theorem wf_pose_lsp_14_to_pose_lsp_14 : labellerWF Generated.pose_lsp_14_to_pose_lsp_14 = true := by decide +kernel
theorem edges_pose_lsp_14_to_pose_lsp_14 : labellerEdgesWF Generated.pose_lsp_14_to_pose_lsp_14 = true := by decide +kernel
theorem wf_pose_stickmen_12_to_pose_stickmen_12 : labellerWF Generated.pose_stickmen_12_to_pose_stickmen_12 = true := by decide +kernel
theorem edges_pose_stickmen_12_to_pose_stickmen_12 : labellerEdgesWF Generated.pose_stickmen_12_to_pose_stickmen_12 = true := by decide +kernel
theorem wf_tongue_ibug_19_to_tongue_ibug_19 : labellerWF Generated.tongue_ibug_19_to_tongue_ibug_19 = true := by decide +kernel
theorem edges_tongue_ibug_19_to_tongue_ibug_19 : labellerEdgesWF Generated.tongue_ibug_19_to_tongue_ibug_19 = true := by decide +kernel

/-- all of them at once, in the form the property theorems consume -/
theorem all_wf : ∀ p ∈ Generated.all, labellerWF p.2 = true := by decide +kernel

/-- the labeller clause of the property for every index-based labeller the live module exports: wrong sizes
are rejected, the labeller commutes with every map of the points, output point `j` is input point `ind[j]`
(all distinct), every output point is labelled -/
theorem live_labellers {α β : Type} : ∀ p ∈ Generated.all, ∀ (xs : List α),
    (xs.length ≠ p.2.nExpected → p.2.apply xs = .error .labelling) ∧
    (∀ f : α → β, p.2.apply (xs.map f) = (p.2.apply xs).map (mapPts f)) ∧
    (∀ g, p.2.apply xs = .ok g → g.pts.length = p.2.ind.length ∧
      (∀ j, j < p.2.ind.length → p.2.ind[j]! < xs.length ∧ g.pts[j]? = xs[p.2.ind[j]!]?) ∧
      p.2.ind.Nodup ∧ Covered g) :=
  fun p hp xs => ⟨(labeller_size p.2 xs).1, fun f => labeller_commutes p.2 f xs, fun g h =>
    have r := labeller_reindexes p.2 (all_wf p hp) xs g h
    ⟨r.1, r.2.1, r.2.2, (labeller_all_labelled p.2 (all_wf p hp) xs g h).1⟩⟩

end MenpoModel.C15.GenProps
