/-
C09 — obligations over the tables of `Generated/C09Writes.lean` (rewritten from the live classes and modules on
every run):

* `applyWrites_ok`   no transform class but the caching piecewise affine writes any of its instance attributes
                     during any of the public applications (arrays, shapes, every batching variant, zero points,
                     integer input, `_apply_inplace`, through a chain / a composition / a copy / the pseudoinverse);
* `transformClasses_covered`  every subclass of `Transform` the live package defines is in that table, except the
                     abstract bases;
* `hiddenState_ok`   the anchored modules offer no other place where state could survive between two calls
                     (mutable module globals, mutable class attributes, mutable defaults, function attributes,
                     memoising wrappers, closures over mutable cells);
* `globalWrites_ok`  and the measured applications change no module global and no class attribute.

Together with `pure_of_no_writes` / `apply_eq_fresh` (frame ⇒ history independence = fresh transform) and
`apply_pure_fixed` / `cachedPwa_history_pure` (the memo of the caching class) this is what makes "apply() is
pure" a statement about the current code of every class.
-/
import MenpoModel.Core.C09
import MenpoModel.Generated.C09Writes

namespace MenpoModel.GenProps.C09
open MenpoModel.C09

theorem applyWrites_ok : MenpoModel.Generated.C09.applyWrites = expectedApplyWrites := by decide

theorem transformClasses_covered :
    (MenpoModel.Generated.C09.transformClasses.filter fun c =>
        !(MenpoModel.Generated.C09.applyWrites.any fun w => w.1 == c)) = expectedUncovered := by decide

theorem hiddenState_ok : MenpoModel.Generated.C09.hiddenState = expectedHiddenState := by decide

theorem globalWrites_ok : MenpoModel.Generated.C09.globalWrites = [] := by decide

end MenpoModel.GenProps.C09
