/-
C09 — obligation over the regenerated table `Generated.C09.applyWrites` (rewritten from the live classes on
every run): no transform class but the caching piecewise affine writes any of its instance attributes while
applying.  Together with `pure_of_no_writes` (frame ⇒ history independence) and `apply_pure_fixed` (the memo
of the caching class) this is what makes "apply() is pure" a statement about the current code of every class.
-/
import MenpoModel.Props.C09
import MenpoModel.Generated.C09Writes

namespace MenpoModel.GenProps.C09
open MenpoModel.C09

theorem applyWrites_ok : MenpoModel.Generated.C09.applyWrites = expectedApplyWrites := by decide

end MenpoModel.GenProps.C09
