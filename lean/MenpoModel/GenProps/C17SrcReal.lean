/-
C17 — the TRANSLATED geometry methods against the real numbers: whatever `np.sqrt` returns, as long as it is the
non-negative root on the rows it is applied to (`SqrtOn`), the rows `tri_normals()` / `vertex_normals()` /
`tri_areas()` return — the translations of the Python bodies in `Generated/C17Src.lean` — ARE, cast to ℝ, the
real-number normals and areas of `Props/C17Real.lean` (`Real.sqrt`, no contract parameter), of which unit length,
perpendicularity, rotation and scale behaviour are proved outright.
Hand-written; `lake build` re-checks it against what the code says now.
-/
import MenpoModel.GenProps.C17SrcGeom
import MenpoModel.Props.C17Real

namespace MenpoModel.C17.SrcProps
open MenpoModel.C17 MenpoModel.C17.Np MenpoModel.C17.Gen

variable {C T : Type}

/-- the translated `tri_normals()` computes the real unit normals -/
theorem src_tri_normals_real (sqrt : Rat → Rat) (pts : List V3) (ts : List Tri) (cs : List C) (tc : List T)
    (hc : SqrtOn sqrt (meshFaceNormalsRaw pts ts)) :
    ∃ ns : List V3, genTriNormals sqrt (gm3 pts ts cs tc) = .ok (ns.map V3.toList) ∧
      ns.map castV = faceNormalsR pts ts := by
  refine ⟨_, (src_tri_normals sqrt pts ts cs tc hc).1, ?_⟩
  exact faceNormals_cast _ pts ts hc.rootsOf

/-- the translated `vertex_normals()` computes, at every vertex, the real `_normalize` of the sum of the real unit
normals of the incident triangles -/
theorem src_vertex_normals_real (sqrt : Rat → Rat) (pts : List V3) (ts : List Tri) (cs : List C) (tc : List T)
    (hc : SqrtOn sqrt (meshFaceNormalsRaw pts ts))
    (hc' : SqrtOn sqrt (vertexNormalSumsCoded pts.length ts
      (faceNormals ((meshFaceNormalsRaw pts ts).map (fun n => sqrt (V3.normSq n))) pts ts))) :
    ∃ vn : List V3, genVertexNormals sqrt .float (gm3 pts ts cs tc) = .ok (vn.map V3.toList) ∧
      vn.map castV = vertexNormalsR pts ts := by
  refine ⟨vertexNormals ((meshFaceNormalsRaw pts ts).map (fun n => sqrt (V3.normSq n)))
    ((vertexNormalSumsCoded pts.length ts
      (faceNormals ((meshFaceNormalsRaw pts ts).map (fun n => sqrt (V3.normSq n))) pts ts)).map
        (fun n => sqrt (V3.normSq n))) pts ts, ?_, ?_⟩
  · rw [genVertexNormals_eq]
    simp only [gm3, if_true]
    rw [genComputeVertexNormals_eq sqrt pts ts (rootZero_of_isRoot sqrt _ hc) (rootZero_of_isRoot sqrt _ hc')]
  · exact vertexNormals_cast _ _ pts ts hc.rootsOf hc'.rootsOf

/-- the translated 3-D `tri_areas()` computes the real areas `‖(b − a) × (c − a)‖ / 2` -/
theorem src_tri_areas_real (sqrt : Rat → Rat) (pts : List V3) (ts : List Tri) (cs : List C) (tc : List T)
    (hc : SqrtOn sqrt (meshFaceNormalsRaw pts ts)) :
    ∃ as : List Rat, genTriAreas sqrt (gm3 pts ts cs tc) = .ok as ∧
      as.map (Rat.cast : Rat → ℝ) = (triCorners pts ts).map (fun q => area3R q.1 q.2.1 q.2.2) := by
  refine ⟨_, genTriAreas_eq3 sqrt pts ts cs tc, ?_⟩
  simp only [meshFaceNormalsRaw, List.map_map, Function.comp_def]
  apply List.map_congr_left
  intro q hq
  have hmem : faceNormalRaw q.1 q.2.1 q.2.2 ∈ meshFaceNormalsRaw pts ts :=
    List.mem_map.2 ⟨q, hq, rfl⟩
  have hr := hc _ hmem
  have hs : ((sqrt (V3.normSq (faceNormalRaw q.1 q.2.1 q.2.2)) : Rat) : ℝ)
      = R3.norm (castV (faceNormalRaw q.1 q.2.1 q.2.2)) := by
    rw [R3.norm, normSq_castV]; exact hr.eq_sqrt
  rw [area3R]
  push_cast
  rw [hs]
  rfl

end MenpoModel.C17.SrcProps
