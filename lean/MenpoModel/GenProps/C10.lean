/- Obligations over the regenerated dispatch tables of C10 (the text is constant, the tables it speaks about are
   rewritten from the live classes by harness/c10.py on every run). -/
import MenpoModel.Generated.C10Dispatch
import MenpoModel.Core.C10Dispatch

namespace MenpoModel.C10.GenProps
open MenpoModel.C10

/-- every modelled attribute of LinearVectorModel / MeanLinearVectorModel / PCAVectorModel / PCAModel is supplied
by the class whose code the model transcribes -/
theorem dispatch_ok : Generated.dispatch = expectedDispatch := by decide

/-- the delegating methods of the object layer call what `ObjModel` says they call, on the receivers it says -/
theorem delegates_ok : Generated.delegates = expectedDelegates := by decide

/-- the facts the object model rests on, read off the live table -/
theorem object_layer_resolution :
    resolve Generated.dispatch "PCAModel" "project" = some "VectorizableBackedModel" ∧
    resolve Generated.dispatch "PCAModel" "reconstruct" = some "VectorizableBackedModel" ∧
    resolve Generated.dispatch "PCAModel" "project_out" = some "VectorizableBackedModel" ∧
    resolve Generated.dispatch "PCAModel" "instance" = some "PCAModel" ∧
    resolve Generated.dispatch "PCAModel" "trim_components" = some "PCAVectorModel" ∧
    resolve Generated.dispatch "PCAModel" "n_active_components" = some "PCAVectorModel" ∧
    resolve Generated.dispatch "PCAModel" "project_vectors" = some "MeanLinearVectorModel" ∧
    resolve Generated.dispatch "PCAVectorModel" "project_out_vectors" = some "MeanLinearVectorModel" ∧
    resolve Generated.dispatch "PCAVectorModel" "instance_vectors" = some "PCAVectorModel" ∧
    resolve Generated.dispatch "MeanLinearVectorModel" "instance_vectors" = some "LinearVectorModel" := by
  decide

end MenpoModel.C10.GenProps
