/-
C12 — obligations over the translation of menpo/model/gmrf.py (`Generated/C12Src.lean`, rewritten from the source text
of the working tree by harness/trans_c12.py on every run): every translated definition equals, for all arguments, the
hand-written definition of `Core/C12Src.lean` that `Lemmas/C12Src*.lean` / `Props/C12.lean` prove the property about.

The proofs do not depend on the shape of the Python text: a case split on every Boolean / mode argument, then
definitional unfolding (`rfl`: renamed temporaries, re-ordered independent statements, extra temporaries are invisible to
it), and where a test inside a loop body may have been inverted, a case split on that test (`src_eq`).
-/
import MenpoModel.Core.C12Src
import MenpoModel.Generated.C12Src

namespace MenpoModel.GenProps.C12Src
open MenpoModel.C12 MenpoModel.C12.Src MenpoModel.Generated.C12Src MenpoModel.Py

/- the vocabulary is opaque to the comparison: both sides are built from the same operations, and a mismatch is then
   found by comparing the two texts, not by evaluating array operations on symbolic arguments -/
attribute [local irreducible] rowLen zerosRC zerosN zeros3 pyRange sliceCols takeCols hiBound slice2 addSlice setSlice npCov
  natIdx pyIdx pySet npWhereEq mkBsr asDtype withShape atleast2d npInv npSvd colsTo rowsTo takeTo diagRecip matDot GraphS.nEdges GraphS.edgeAt
  tileRows transposeM pyDot diagOf rowDots toOut npSqrt fromVectorLike asMatrixT objVec forLoop

/-- split on the remaining `if`s / `match`es of both sides, close every case by computation -/
macro "src_split" : tactic =>
  `(tactic| (repeat' (first | rfl | split)) <;> (try simp_all [Except.map, Except.bind]) <;> (try (subst_vars; simp)))

/-- closes `translated = coded` for the routines with loops, after the case splits on the arguments: by unfolding
(`rfl`), and if a test has been inverted (`if not c: B else: A`, also inside a loop body) after turning every test the
same way round -/
macro "src_rfl" : tactic =>
  `(tactic| first
    | rfl
    | (simp only [Bool.not_eq_true', Bool.not_not, ← Bool.not_eq_true, ite_not, Bool.not_true, Bool.not_false]; rfl))

/-- the same for the loop-free routines, where the tests that remain can also be split -/
macro "src_eq" : tactic =>
  `(tactic| first
    | src_rfl
    | src_split)

theorem genCovInverse_eq (svd : Mat → Option (Mat × List Rat × Mat)) (c : Arr) (nc : Option Nat) :
    genCovInverse svd c nc = covInverseCoded svd c nc := by
  unfold genCovInverse covInverseCoded
  src_eq

set_option maxHeartbeats 8000 in
theorem genCreateDense_eq (cinv : Arr → Option Nat → Except PyErr Mat) (X : Mat) (g : GraphS) (n k : Nat) (mode : ModeS)
    (dtype : DType) (nc : Option Nat) (bias : Bool) :
    genCreateDense cinv X g n k mode dtype nc bias = denseCoded cinv X g n k mode dtype nc bias := by
  unfold genCreateDense denseCoded denseBody denseWrite edgeCov modeKnown
  cases mode <;> src_rfl

set_option maxHeartbeats 8000 in
theorem genCreateDenseRC_eq (cinv : Arr → Option Nat → Except PyErr Mat) (X : Mat) (g : GraphS) (n k : Nat) (mode : ModeS)
    (dtype : DType) (nc : Option Nat) (bias : Bool) :
    genCreateDenseRC cinv X g n k mode dtype nc bias = denseCodedRC cinv X g n k mode dtype nc bias := by
  unfold genCreateDenseRC denseCodedRC denseBodyRC denseWrite edgeCov modeKnown covDimS
  cases mode <;> src_rfl

set_option maxHeartbeats 8000 in
theorem genCreateSparse_eq (cinv : Arr → Option Nat → Except PyErr Mat) (argsort : List Nat → List Nat) (X : Mat)
    (g : GraphS) (n k : Nat) (mode : ModeS) (dtype : DType) (nc : Option Nat) (bias : Bool) :
    genCreateSparse cinv argsort X g n k mode dtype nc bias = sparseCoded cinv argsort X g n k mode dtype nc bias := by
  unfold genCreateSparse sparseCoded sparseBody sparseWrite store edgeCov modeKnown finishBsr indptrBody
  cases mode <;> src_rfl

set_option maxHeartbeats 8000 in
theorem genCreateSparseRC_eq (cinv : Arr → Option Nat → Except PyErr Mat) (argsort : List Nat → List Nat) (X : Mat)
    (g : GraphS) (n k : Nat) (mode : ModeS) (dtype : DType) (nc : Option Nat) (bias : Bool) :
    genCreateSparseRC cinv argsort X g n k mode dtype nc bias = sparseCodedRC cinv argsort X g n k mode dtype nc bias := by
  unfold genCreateSparseRC sparseCodedRC sparseBodyRC sparseWrite store edgeCov modeKnown covDimS finishBsr indptrBody
  cases mode <;> src_rfl

set_option maxHeartbeats 8000 in
theorem genCreateDenseDiag_eq (cinv : Arr → Option Nat → Except PyErr Mat) (X : Mat) (g : GraphS) (n k : Nat)
    (dtype : DType) (nc : Option Nat) (bias : Bool) :
    genCreateDenseDiag cinv X g n k dtype nc bias = denseDiagCoded cinv X g n k dtype nc bias := by
  unfold genCreateDenseDiag denseDiagCoded denseDiagBody vertexCov
  src_rfl

set_option maxHeartbeats 8000 in
theorem genCreateDenseDiagRC_eq (cinv : Arr → Option Nat → Except PyErr Mat) (X : Mat) (g : GraphS) (n k : Nat)
    (dtype : DType) (nc : Option Nat) (bias : Bool) :
    genCreateDenseDiagRC cinv X g n k dtype nc bias = denseDiagCodedRC cinv X g n k dtype nc bias := by
  unfold genCreateDenseDiagRC denseDiagCodedRC denseDiagBodyRC vertexCov
  src_rfl

set_option maxHeartbeats 8000 in
theorem genCreateSparseDiag_eq (cinv : Arr → Option Nat → Except PyErr Mat) (argsort : List Nat → List Nat) (X : Mat)
    (g : GraphS) (n k : Nat) (dtype : DType) (nc : Option Nat) (bias : Bool) :
    genCreateSparseDiag cinv argsort X g n k dtype nc bias = sparseDiagCoded cinv argsort X g n k dtype nc bias := by
  unfold genCreateSparseDiag sparseDiagCoded sparseDiagBody vertexCov finishBsr indptrBody
  src_rfl

set_option maxHeartbeats 8000 in
theorem genCreateSparseDiagRC_eq (cinv : Arr → Option Nat → Except PyErr Mat) (argsort : List Nat → List Nat) (X : Mat)
    (g : GraphS) (n k : Nat) (dtype : DType) (nc : Option Nat) (bias : Bool) :
    genCreateSparseDiagRC cinv argsort X g n k dtype nc bias = sparseDiagCodedRC cinv argsort X g n k dtype nc bias := by
  unfold genCreateSparseDiagRC sparseDiagCodedRC sparseDiagBodyRC vertexCov finishBsr indptrBody
  src_rfl

theorem callCtor_eq (cinv : Arr → Option Nat → Except PyErr Mat) (argsort : List Nat → List Nat) (c : CtorS) (rc : Bool)
    (X : Mat) (g : GraphS) (n k : Nat) (dtype : DType) (nc : Option Nat) (bias : Bool) :
    callCtor cinv argsort c rc X g n k dtype nc bias = callCtorCoded cinv argsort c rc X g n k dtype nc bias := by
  cases c <;> cases rc <;>
    simp only [callCtor, callCtorCoded, genCreateDense_eq, genCreateDenseRC_eq, genCreateSparse_eq, genCreateSparseRC_eq,
      genCreateDenseDiag_eq, genCreateDenseDiagRC_eq, genCreateSparseDiag_eq, genCreateSparseDiagRC_eq]

theorem genDataToMatrix_eq (data : PyData) (ns : Option Nat) : genDataToMatrix data ns = dataToMatrixCoded data ns := by
  unfold genDataToMatrix dataToMatrixCoded
  cases ns <;> cases h : data.isArray <;> simp [h]

theorem genVecInit_eq (cinv : Arr → Option Nat → Except PyErr Mat) (argsort : List Nat → List Nat) (samples : PyData)
    (graph : GraphS) (nsamples : Option Nat) (mode : ModeS) (nc : Option Nat) (dtype : DType)
    (sparse bias incremental : Bool) :
    genVecInit cinv argsort samples graph nsamples mode nc dtype sparse bias incremental =
      vecInitCoded cinv argsort samples graph nsamples mode nc dtype sparse bias incremental := by
  unfold genVecInit vecInitCoded ctorSel
  simp only [genDataToMatrix_eq, callCtor_eq]
  cases sparse <;> cases incremental <;> cases h : (graph.nEdges == 0) <;> simp [h] <;> src_split

theorem genObjInit_eq (cinv : Arr → Option Nat → Except PyErr Mat) (argsort : List Nat → List Nat) (samples : List Mat)
    (graph : GraphS) (mode : ModeS) (nc : Option Nat) (dtype : DType) (sparse : Bool) (nsamples : Option Nat)
    (bias incremental : Bool) :
    genObjInit cinv argsort samples graph mode nc dtype sparse nsamples bias incremental =
      objInitCoded cinv argsort samples graph mode nc dtype sparse nsamples bias incremental := by
  unfold genObjInit objInitCoded
  simp only [genVecInit_eq]
  src_eq

theorem genVecDefaults_eq : genVecDefaults = initDefaults := by decide
theorem genObjDefaults_eq : genObjDefaults = initDefaults := by decide

theorem genVecMean_eq (M : VecModel) : genVecMean M = vecMeanCoded M := by src_eq
theorem genObjMean_eq (t : Mat) (M : VecModel) : genObjMean t M = objMeanCoded t M := by src_eq

theorem genMahalanobisCore_eq (sqrt : Rat → Rat) (M : VecModel) (S : Mat) (sm sr : Bool) :
    genMahalanobisCore sqrt M S sm sr = mahalanobisCoreCoded sqrt M S sm sr := by
  unfold genMahalanobisCore mahalanobisCoreCoded
  cases sm <;> cases sr <;> cases h : M.sparse <;> simp [h] <;> src_split

theorem genVecMahalanobis_eq (sqrt : Rat → Rat) (M : VecModel) (S : PyData) (sm sr : Bool) :
    genVecMahalanobis sqrt M S sm sr = vecMahalanobisCoded sqrt M S sm sr := by
  unfold genVecMahalanobis vecMahalanobisCoded
  simp only [genDataToMatrix_eq, genMahalanobisCore_eq]
  src_split

theorem genObjMahalanobis_eq (sqrt : Rat → Rat) (M : VecModel) (S : ObjQuery) (sm sr : Bool) :
    genObjMahalanobis sqrt M S sm sr = objMahalanobisCoded sqrt M S sm sr := by
  unfold genObjMahalanobis objMahalanobisCoded
  simp only [genMahalanobisCore_eq]
  src_split

theorem genVecPca_eq (M : VecModel) (k : Option Nat) : genVecPca M k = vecPcaCoded M k := by src_eq
theorem genObjPca_eq (t : Mat) (M : VecModel) (k : Option Nat) : genObjPca t M k = objPcaCoded t M k := by
  unfold genObjPca objPcaCoded
  simp only [genObjMean_eq]

end MenpoModel.GenProps.C12Src
