/-
C10 — obligations over the TRANSLATED source (`Generated/C10Src.lean`, rewritten by harness/trans_c10.py on every
`./check C10` from the source text of menpo/model/pca.py, linear.py, vectorizable.py of the current working tree): every
translated function equals, for ALL arguments, the Core definition the C10 theorems are about.

  genNComponents / genNActiveComponents / genEigenvalues / genActiveRows      = rows / nActive / eigenvalues / activeRows
  genOriginalVariance … genNoiseVarianceRatio, genInverseNoiseVariance         = the accessors of `Core/C10Book.lean`
  genFl                                                                         = Fl.exact
  genSetActive fl s v                                                           = s.setActive (v.toVal fl s)
        (python int / numpy int / None for every state; python float: the clamped form on the ratios `fl` returned,
         for every state with n_active ≤ n_components — the case where Python's `min` returns the python int
         `n_components` and the `isinstance(value, int)` block then returns without writing)
  genTrimComponents fl s v                                                      = s.trim (v.toOptVal fl s)
  genSetComponents / genOrthoAgainst                                            = setComponentsRows / orthoAgainst
  genLinearInit / genMeanLinearInit / genVBInit / genDataToMatrix               = linearInit / meanLinearInit / vbInit / dataToMatrix
  genConstructorHelper / genVecInit / genVecFromCov / genVecFromComponents      = ctorHelper / vecInit / vecFromCov / vecFromComponents
  genObjInit / genObjFromCov / genObjFromComponents                             = objInit / objFromCov / objFromComponents

The proofs unfold both sides, case-split on every `if` / `match` (`src_close`) and finish with `simp_all` / `omega`, so a
harmless rewrite of the Python (renamed temporary, reordered independent statements, inverted test with swapped arms,
reordered keyword arguments) keeps them, while a changed decision (dropped branch, swapped positional argument,
off-by-one, another slice) breaks them.
-/
import MenpoModel.Generated.C10Src
import MenpoModel.Lemmas.C10Src
import MenpoModel.Core.PyLoop

set_option linter.unusedSimpArgs false
set_option linter.unusedTactic false
set_option linter.unreachableTactic false
set_option linter.unnecessarySeqFocus false

namespace MenpoModel.C10.GenProps
open MenpoModel.C10 MenpoModel.C10.Src MenpoModel.C10.Generated

/-! ### the vocabulary's algebra (about `Core/C10Src.lean` only) -/

@[simp] theorem toInt_int (k : Int) : PyVal.toInt (.int k) = k := rfl
@[simp] theorem toInt_npint (k : Int) : PyVal.toInt (.npint k) = k := rfl
@[simp] theorem toNat_int_nat (n : Nat) : PyVal.toNat (.int (n : Int)) = n := by simp [PyVal.toNat]
@[simp] theorem toRat_int (k : Int) : PyVal.toRat (.int k) = k := rfl
@[simp] theorem toRat_npint (k : Int) : PyVal.toRat (.npint k) = k := rfl
@[simp] theorem toRat_float (r : Rat) : PyVal.toRat (.float r) = r := rfl
theorem lt_def (a b : PyVal) : (a < b) = (a ≠ .none ∧ b ≠ .none ∧ a.toRat < b.toRat) := rfl
theorem le_def (a b : PyVal) : (a ≤ b) = (a ≠ .none ∧ b ≠ .none ∧ a.toRat ≤ b.toRat) := rfl
@[simp] theorem ofNat_eq (n : Nat) : (OfNat.ofNat n : PyVal) = .int n := rfl
@[simp] theorem beq_int (a b : Int) : ((PyVal.int a) == (PyVal.int b)) = decide (a = b) := by simp [BEq.beq]
@[simp] theorem bne_int (a b : Int) : ((PyVal.int a) != (PyVal.int b)) = !decide (a = b) := by simp [bne]
theorem hdiv_def (l : List Rat) (x : Rat) : (l / x : List Rat) = l.map (· / x) := rfl
@[simp] theorem isFloat_int (k : Int) : PyVal.isFloat (.int k) = false := rfl
@[simp] theorem isFloat_npint (k : Int) : PyVal.isFloat (.npint k) = false := rfl
@[simp] theorem isFloat_float (r : Rat) : PyVal.isFloat (.float r) = true := rfl
@[simp] theorem isFloat_none : PyVal.isFloat .none = false := rfl
@[simp] theorem isInt_int (k : Int) : PyVal.isInt (.int k) = true := rfl
@[simp] theorem isInt_npint (k : Int) : PyVal.isInt (.npint k) = false := rfl
@[simp] theorem isInt_float (r : Rat) : PyVal.isInt (.float r) = false := rfl
@[simp] theorem isInt_none : PyVal.isInt .none = false := rfl
@[simp] theorem isNone_none : PyVal.isNone .none = true := rfl
@[simp] theorem isNone_int (k : Int) : PyVal.isNone (.int k) = false := rfl
@[simp] theorem isNone_npint (k : Int) : PyVal.isNone (.npint k) = false := rfl
@[simp] theorem isNone_float (k : Rat) : PyVal.isNone (.float k) = false := rfl
@[simp] theorem int_lt_int (a b : Int) : (PyVal.int a < PyVal.int b) ↔ a < b := by simp [lt_def]
@[simp] theorem int_lt_npint (a b : Int) : (PyVal.int a < PyVal.npint b) ↔ a < b := by simp [lt_def]
@[simp] theorem npint_lt_int (a b : Int) : (PyVal.npint a < PyVal.int b) ↔ a < b := by simp [lt_def]
@[simp] theorem npint_lt_npint (a b : Int) : (PyVal.npint a < PyVal.npint b) ↔ a < b := by simp [lt_def]
@[simp] theorem int_le_int (a b : Int) : (PyVal.int a ≤ PyVal.int b) ↔ a ≤ b := by simp [le_def]
@[simp] theorem int_le_npint (a b : Int) : (PyVal.int a ≤ PyVal.npint b) ↔ a ≤ b := by simp [le_def]
@[simp] theorem npint_le_int (a b : Int) : (PyVal.npint a ≤ PyVal.int b) ↔ a ≤ b := by simp [le_def]
@[simp] theorem npint_le_npint (a b : Int) : (PyVal.npint a ≤ PyVal.npint b) ↔ a ≤ b := by simp [le_def]
@[simp] theorem float_lt_float (a b : Rat) : (PyVal.float a < PyVal.float b) ↔ a < b := by simp [lt_def]
@[simp] theorem float_le_float (a b : Rat) : (PyVal.float a ≤ PyVal.float b) ↔ a ≤ b := by simp [le_def]
@[simp] theorem ge_iff (a b : PyVal) : (a ≥ b) ↔ b ≤ a := Iff.rfl
@[simp] theorem gt_iff (a b : PyVal) : (a > b) ↔ b < a := Iff.rfl
@[simp] theorem coe_rat (r : Rat) : ((r : Rat) : PyVal) = PyVal.float r := rfl
@[simp] theorem none_lt (a : PyVal) : ¬ (PyVal.none < a) := by simp [lt_def]
@[simp] theorem lt_none (a : PyVal) : ¬ (a < PyVal.none) := by simp [lt_def]
@[simp] theorem none_le (a : PyVal) : ¬ (PyVal.none ≤ a) := by simp [le_def]
@[simp] theorem le_none (a : PyVal) : ¬ (a ≤ PyVal.none) := by simp [le_def]
@[simp] theorem npint_add_int (a b : Int) : (PyVal.npint a + PyVal.int b : PyVal) = .npint (a + b) := rfl
@[simp] theorem int_add_int (a b : Int) : (PyVal.int a + PyVal.int b : PyVal) = .int (a + b) := rfl
@[simp] theorem int_sub_int (a b : Int) : (PyVal.int a - PyVal.int b : PyVal) = .int (a - b) := rfl

/-- a conditional expression choosing between two python ints is a python int -/
theorem ite_int (c : Prop) [Decidable c] (a b : Int) :
    (if c then PyVal.int a else PyVal.int b) = PyVal.int (if c then a else b) := by split <;> rfl

/-- `np.sum([f(x) for x in l])` counts -/
theorem npSumBools_map {α : Type} (f : α → Bool) (l : List α) :
    PyVal.npSumBools (l.map f) = .npint ((l.filter f).length : Nat) := by
  induction l with
  | nil => rfl
  | cons x t ih =>
    simp only [PyVal.npSumBools, List.map_cons, List.filter_cons] at ih ⊢
    cases f x <;> simp_all

/-- the same count written as a loop: `n = 0; for x in l: if p(x): n += c` -/
theorem forLoop_count {α : Type} (l : List α) (p : α → Bool) (k c : Int) :
    MenpoModel.Py.forLoop (PyVal.int k) l (fun acc it => if p it = true then acc + PyVal.int c else acc)
      = PyVal.int (k + c * ((l.filter p).length : Nat)) := by
  induction l generalizing k with
  | nil => simp [MenpoModel.Py.forLoop]
  | cons x t ih =>
    simp only [MenpoModel.Py.forLoop_cons, List.filter_cons]
    cases p x
    · simpa using ih k
    · simp only [if_true, int_add_int, ih, List.length_cons, Nat.cast_add, Nat.cast_one]
      congr 1; ring

attribute [local ext] St

/-- case split on every `if` / `match` of both sides, simplify, repeat; then arithmetic / field-wise equality -/
macro "src_close" : tactic => `(tactic| (
  repeat' split
  all_goals (try simp_all)
  all_goals (try (repeat' split))
  all_goals (try simp_all)
  all_goals first | done | omega | (ext <;> simp_all <;> omega)))

/-! ### accessors -/

theorem genNComponents_eq (s : St) : genNComponents s = .int s.rows := by
  simp only [genNComponents]
theorem genNActiveComponents_eq (s : St) : genNActiveComponents s = .int s.nActive := by
  simp only [genNActiveComponents]
theorem genEigenvalues_eq (s : St) : genEigenvalues s = s.eigenvalues := by
  simp [genEigenvalues, genNActiveComponents_eq, St.eigenvalues]
theorem genActiveRows_eq (s : St) : genActiveRows s = s.activeRows := by
  simp [genActiveRows, genNActiveComponents_eq, St.activeRows]
theorem genOriginalVariance_eq (s : St) : genOriginalVariance s = s.originalVariance := by
  simp [genOriginalVariance, St.originalVariance]
theorem genVariance_eq (s : St) : genVariance s = s.variance := by
  simp [genVariance, St.variance, genEigenvalues_eq]
theorem genTotalVariance_eq (s : St) : genTotalVariance s = s.totalVariance := by
  simp [genTotalVariance, St.totalVariance]
theorem genVarianceRatio_eq (s : St) : genVarianceRatio s = s.varianceRatio := by
  simp [genVarianceRatio, St.varianceRatio, genVariance_eq, genOriginalVariance_eq]
theorem genTotalVarianceRatio_eq (s : St) : genTotalVarianceRatio s = s.totalVarianceRatio := by
  simp [genTotalVarianceRatio, St.totalVarianceRatio, genTotalVariance_eq, genOriginalVariance_eq]
theorem genEigenvaluesRatio_eq (s : St) : genEigenvaluesRatio s = s.eigenvaluesRatio := by
  simp [genEigenvaluesRatio, St.eigenvaluesRatio, genEigenvalues_eq, genOriginalVariance_eq, hdiv_def]
theorem genTotalEigenvaluesRatio_eq (s : St) : genTotalEigenvaluesRatio s = s.totalEigenvaluesRatio := by
  simp [genTotalEigenvaluesRatio, St.totalEigenvaluesRatio, genOriginalVariance_eq, hdiv_def]
theorem genEigenvaluesCumulativeRatio_eq (s : St) :
    genEigenvaluesCumulativeRatio s = s.eigenvaluesCumulativeRatio := by
  simp [genEigenvaluesCumulativeRatio, St.eigenvaluesCumulativeRatio, genEigenvaluesRatio_eq]
theorem genTotalEigenvaluesCumulativeRatio_eq (s : St) : genTotalEigenvaluesCumulativeRatio s = s.totalCumRatio := by
  simp [genTotalEigenvaluesCumulativeRatio, St.totalCumRatio, genTotalEigenvaluesRatio_eq]
theorem genNoiseVariance_eq (s : St) : genNoiseVariance s = s.noiseVariance := by
  simp only [genNoiseVariance, St.noiseVariance, genNActiveComponents_eq, genNComponents_eq]
  src_close
theorem genNoiseVarianceRatio_eq (s : St) : genNoiseVarianceRatio s = s.noiseVarianceRatio := by
  simp [genNoiseVarianceRatio, St.noiseVarianceRatio, genNoiseVariance_eq, genOriginalVariance_eq]
theorem genInverseNoiseVariance_eq (s : St) : genInverseNoiseVariance s = s.inverseNoiseVariance := by
  simp only [genInverseNoiseVariance, St.inverseNoiseVariance, genNoiseVariance_eq, allclose0]
  repeat' split
  all_goals (try simp_all)
  all_goals (try linarith)
/-- exact arithmetic is the translated accessors -/
theorem genFl_exact : genFl = Fl.exact := by
  simp only [genFl, Fl.exact, Fl.mk.injEq]
  exact ⟨funext genTotalVarianceRatio_eq, funext genTotalEigenvaluesCumulativeRatio_eq⟩

/-! ### the `n_active_components` setter -/

theorem genSetActive_int (fl : Fl) (s : St) (k : Int) : genSetActive fl s (.int k) = s.setActive (.int k) := by
  simp only [genSetActive, St.setActive, St.finalSet, genNComponents_eq, genNActiveComponents_eq, isFloat_int,
    isInt_int, ofNat_eq, PyVal.toNat]
  src_close

theorem genSetActive_npint (fl : Fl) (s : St) (k : Int) : genSetActive fl s (.npint k) = s.setActive (.npint k) := by
  simp only [genSetActive, St.setActive, St.finalSet, genNComponents_eq, genNActiveComponents_eq, isFloat_npint,
    isInt_npint, ofNat_eq, PyVal.toNat]
  src_close

/-- assigned directly, `None` raises (Python: `TypeError` at the first comparison) -/
theorem genSetActive_none (fl : Fl) (s : St) : genSetActive fl s .none = .error .value := by
  simp only [genSetActive, isFloat_none, isInt_none, ofNat_eq]
  src_close

theorem genSetActive_float (fl : Fl) (s : St) (r : Rat) (h : s.nActive ≤ s.rows) :
    genSetActive fl s (.float r) = s.setActive (.floatObsClamped r (fl.tvr s) (fl.cum s)) := by
  simp only [genSetActive, St.setActive, St.finalSet, genNComponents_eq, genNActiveComponents_eq, isFloat_float,
    isInt_float, npSumBools_map, ofNat_eq, forLoop_count, List.filter_map, List.length_map, Function.comp_def,
    PyVal.pmin, npint_add_int, int_add_int, PyVal.toNat, float_lt_float, coe_rat, float_le_float]
  src_close

theorem genSetActive_eq (fl : Fl) (s : St) (v : PyVal) (h : v.isFloat = true → s.nActive ≤ s.rows) :
    genSetActive fl s v = s.setActive (v.toVal fl s) := by
  cases v with
  | none => rw [genSetActive_none]; simp [PyVal.toVal, St.setActive, St.finalSet]
  | int k => exact genSetActive_int fl s k
  | float r => exact genSetActive_float fl s r (h rfl)
  | npint k => exact genSetActive_npint fl s k

/-! ### `trim_components`, the `components` setter, `orthonormalize_against_inplace` -/

theorem genTrimComponents_eq (fl : Fl) (s : St) (v : PyVal) (h : v.isFloat = true → s.nActive ≤ s.rows) :
    genTrimComponents fl s v = s.trim (v.toOptVal fl s) := by
  cases v <;>
    simp only [genTrimComponents, isNone_none, isNone_int, isNone_npint, isNone_float, genSetActive_eq _ _ _ h,
      genSetActive_int, genNActiveComponents_eq, genNComponents_eq, PyVal.toVal, PyVal.toOptVal, St.trim,
      Except.bind] <;>
    src_close

theorem genTrimComponents_int (fl : Fl) (s : St) (k : Int) :
    genTrimComponents fl s (.int k) = s.trim (some (.int k)) :=
  genTrimComponents_eq fl s (.int k) (fun h => by simp at h)

theorem genTrimComponents_full (fl : Fl) (s : St) (v : PyVal) (h : s.nActive = s.rows) :
    genTrimComponents fl s v = s.trim (v.toOptVal fl s) := genTrimComponents_eq fl s v (fun _ => h.le)

theorem genSetComponents_eq (s : St) (v : Nat) : genSetComponents s v = setComponentsRows s v := by
  simp only [genSetComponents, setComponentsRows]
  src_close

/-- an effective integer trim leaves exactly that many rows -/
theorem trim_int_rows {s s' : St} {k : Nat} (h : s.trim (some (.int (k : Int))) = .ok s') (hk : k < s.rows) :
    s'.rows = k := by
  obtain ⟨s1, h1, h2⟩ := trim_cases h
  simp only [St.setActive] at h1
  have hk' : ¬ ((k : Int) ≥ (s.rows : Int)) := by omega
  by_cases hk1 : (k : Int) < 1
  · simp [hk1] at h1
  · simp only [hk1, hk', if_false] at h1
    obtain ⟨f1, _, _, _, _, f6⟩ := finalSet_fields h1
    rcases h2 with ⟨_, rfl⟩ | ⟨hn, rfl⟩
    · simp only; omega
    · omega

/-- the translated method also performs the two `components = Q[…]` assignments (shape checks); they never fail
once the bookkeeping has succeeded, which is why the Core model can leave them out -/
theorem genOrthoAgainst_eq (fl : Fl) (s : St) (lm : Other) :
    genOrthoAgainst fl s lm = s.orthoAgainst lm.d lm.k1 := by
  have hQ : St.orthoQRows lm.d lm.k1 s.rows ≤ lm.k1 + s.rows := by simp only [St.orthoQRows]; omega
  simp only [genOrthoAgainst, St.orthoAgainst, genSetComponents_eq, setComponentsRows, Other.setComponentsRows,
    genNActiveComponents_eq, genNComponents_eq, int_sub_int, ite_int, genTrimComponents_int, genSetActive_int,
    toNat_int_nat, Except.bind, St.orthoAvail, St.orthoSavedActive]
  by_cases h1 : St.orthoQRows lm.d lm.k1 s.rows < lm.k1
  · have : ¬ (lm.k1.min (St.orthoQRows lm.d lm.k1 s.rows) = lm.k1) := by simp [Nat.min_def]; omega
    simp [h1, this]
  · have e : ((St.orthoQRows lm.d lm.k1 s.rows : Int) - (lm.k1 : Int))
        = ((St.orthoQRows lm.d lm.k1 s.rows - lm.k1 : Nat) : Int) := by omega
    have e2 : lm.k1.min (St.orthoQRows lm.d lm.k1 s.rows) = lm.k1 := by simp [Nat.min_def]; omega
    simp only [e, e2, h1, int_lt_int, ← Nat.cast_ite, Nat.cast_lt, if_true, if_false, decide_eq_true_eq, lt_irrefl]
    by_cases h2 : St.orthoQRows lm.d lm.k1 s.rows - lm.k1 < s.rows
    · simp only [h2, if_true]
      cases htrim : s.trim (some (Val.int ((St.orthoQRows lm.d lm.k1 s.rows - lm.k1 : Nat) : Int))) with
      | error e => simp
      | ok v =>
        have hv := trim_int_rows htrim h2
        by_cases h3 : s.nActive < St.orthoQRows lm.d lm.k1 s.rows - lm.k1
        · simp only [h3, if_true]
          cases hset : v.setActive (Val.int (s.nActive : Int)) with
          | error e => simp
          | ok w => have := (setActive_fields hset).1; simp_all
        · simp only [h3, if_false, lt_irrefl]
          simp [hv]
    · simp only [h2, if_false]
      have : St.orthoQRows lm.d lm.k1 s.rows - lm.k1 = s.rows := by omega
      simp [this]

/-! ### constructors -/

variable {A : Type}

theorem genLinearInit_eq (np : NP A) (self : Plumb A) (c : A) : genLinearInit np self c = linearInit np self c := by
  simp only [genLinearInit, linearInit]
theorem genMeanLinearInit_eq (np : NP A) (self : Plumb A) (c m : A) :
    genMeanLinearInit np self c m = meanLinearInit np self c m := by
  simp only [genMeanLinearInit, meanLinearInit, genLinearInit_eq]
theorem genVBInit_eq (self : Plumb A) (t : A) : genVBInit self t = vbInit self t := by
  simp only [genVBInit, vbInit]
theorem genDataToMatrix_eq (np : NP A) (data : A) (n : PyVal) : genDataToMatrix np data n = dataToMatrix np data n := by
  simp only [genDataToMatrix, dataToMatrix]
  src_close

theorem genConstructorHelper_eq (np : NP A) (fl : Fl) (self : Plumb A) (eigenvalues eigenvectors mean : A)
    (centred : Bool) (maxn : PyVal) :
    genConstructorHelper np fl self eigenvalues eigenvectors mean centred maxn
      = ctorHelper np fl self eigenvalues eigenvectors mean centred maxn := by
  cases centred <;> cases maxn <;>
    simp [genConstructorHelper, ctorHelper, genMeanLinearInit_eq, meanLinearInit, linearInit, genNComponents_eq,
      PyVal.toOptVal, genTrimComponents_full, Except.bind, Except.map] <;>
    src_close

theorem genVecInit_eq (np : NP A) (fl : Fl) (self : Plumb A) (samples : A) (centre : Bool) (ns mx : PyVal)
    (inplace : Bool) :
    genVecInit np fl self samples centre ns mx inplace = vecInit np fl self samples centre ns mx inplace := by
  simp only [genVecInit, vecInit, genDataToMatrix_eq, genConstructorHelper_eq, pcaEps, Except.bind]
  src_close

theorem genVecFromCov_eq (np : NP A) (fl : Fl) (C mean : A) (ns : PyVal) (centred isInverse : Bool) (mx : PyVal) :
    genVecFromCov np fl C mean ns centred isInverse mx = vecFromCov np fl C mean ns centred isInverse mx := by
  simp only [genVecFromCov, vecFromCov, genConstructorHelper_eq, pcacovEps, Except.bind]
  src_close

theorem genVecFromComponents_eq (np : NP A) (fl : Fl) (components eigenvalues mean : A) (ns : PyVal) (centred : Bool)
    (mx : PyVal) :
    genVecFromComponents np fl components eigenvalues mean ns centred mx
      = vecFromComponents np fl components eigenvalues mean ns centred mx := by
  simp only [genVecFromComponents, vecFromComponents, genConstructorHelper_eq, Except.bind]
  src_close

/-- `PCAModel.__init__`: which argument goes where in the call of `PCAVectorModel.__init__` (seeded change C10-5
swapped `max_n_components` and `n_samples` there) -/
theorem genObjInit_eq (np : NP A) (fl : Fl) (self : Plumb A) (samples : A) (centre : Bool) (ns mx : PyVal)
    (inplace : Bool) :
    genObjInit np fl self samples centre ns mx inplace = objInit np fl self samples centre ns mx inplace := by
  simp only [genObjInit, objInit, genVecInit_eq, genVBInit_eq, Except.bind, Except.map]
  src_close

theorem genObjFromCov_eq (np : NP A) (fl : Fl) (C mean : A) (ns : PyVal) (centred isInverse : Bool) (mx : PyVal) :
    genObjFromCov np fl C mean ns centred isInverse mx = objFromCov np fl C mean ns centred isInverse mx := by
  simp only [genObjFromCov, objFromCov, vecFromCov, genConstructorHelper_eq, genVBInit_eq, pcacovEps, Except.bind,
    Except.map]
  src_close

theorem genObjFromComponents_eq (np : NP A) (fl : Fl) (components eigenvalues mean : A) (ns : PyVal) (centred : Bool)
    (mx : PyVal) :
    genObjFromComponents np fl components eigenvalues mean ns centred mx
      = objFromComponents np fl components eigenvalues mean ns centred mx := by
  simp only [genObjFromComponents, objFromComponents, vecFromComponents, genConstructorHelper_eq, genVBInit_eq,
    Except.bind, Except.map]
  src_close

end MenpoModel.C10.GenProps
