/- Obligations over the SOURCE-TEXT translation of the labelling functions (written by harness/trans_c15.py):
     probe_ on the index-encoding probe the translated source returns what the table PROBED from the live function says
            (`decide +kernel`): two independent extractions agree. -/
import MenpoModel.Generated.C15SrcLab
import MenpoModel.Generated.C15Labellers
import MenpoModel.Props.C15SrcLab

set_option linter.unusedSimpArgs false
set_option linter.unusedVariables false
set_option maxRecDepth 8192

namespace MenpoModel.C15.GenProps.SrcLab
open MenpoModel.C15 MenpoModel.C15.Src MenpoModel.C15.SrcGen

theorem probe_face_ibug_68_to_face_ibug_68_trimesh : probeOK SrcLab.face_ibug_68_to_face_ibug_68_trimesh Generated.f_face_ibug_68_to_face_ibug_68_trimesh = true := by decide +kernel

theorem probe_face_ibug_68_to_face_ibug_49 : probeOK SrcLab.face_ibug_68_to_face_ibug_49 Generated.f_face_ibug_68_to_face_ibug_49 = true := by decide +kernel

theorem probe_pose_human36M_32_to_pose_human36M_17 : probeOK SrcLab.pose_human36M_32_to_pose_human36M_17 Generated.f_pose_human36M_32_to_pose_human36M_17 = true := by decide +kernel

theorem probe_car_streetscene_20_to_car_streetscene_view_6_14 : probeOK SrcLab.car_streetscene_20_to_car_streetscene_view_6_14 Generated.f_car_streetscene_20_to_car_streetscene_view_6_14 = true := by decide +kernel

end MenpoModel.C15.GenProps.SrcLab
