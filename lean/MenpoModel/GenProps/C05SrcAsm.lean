/-
C05 — Part 2 of the obligations over the translated vectorisation code: the translated suppliers of
`Generated/C05Src.lean` ASSEMBLED through the regenerated method-resolution tables (`Generated.dispatch`: who
supplies `from_vector`, `_from_vector_inplace`, `_as_vector`, `n_parameters`, `_set_h_matrix`,
`set_rotation_matrix`; `Generated.syncDispatch`: who supplies the six methods of the target re-sync), exactly as
Python's MRO assembles them.  `Asm.*` is what the current source text of menpo says `from_vector`, `as_vector`,
`n_parameters` do for an object of a given class.

  * `*_src` theorems: the assembled translated code equals the Core model (`Xf.fromVec fixed` …) on every object
    that satisfies its class invariant;
  * `src_*` theorems: the property theorems of `Props/C05.lean` re-stated over the assembled translated code.
-/
import MenpoModel.GenProps.C05Src
import MenpoModel.GenProps.C05
import MenpoModel.Generated.C05Sync

set_option linter.style.nameCheck false
set_option linter.unusedVariables false
set_option linter.unusedSimpArgs false

namespace MenpoModel.C05.Asm
open MenpoModel.C05 MenpoModel.C05.Np MenpoModel.C05.SrcProps

/-! ## the assembly (method resolution over the translated suppliers) -/

def rowIn (tbl : List Row) (c : Cls) : Row := (tbl.find? (fun r => r.cls == c)).getD noRow
def syncRowIn (tbl : List SyncRow) (c : Cls) : SyncRow := (tbl.find? (fun r => r.cls == c)).getD noSyncRow

def alignedSource (sr : SyncRow) : Xf → Except Err Mat :=
  match sr.aligned with
  | .Alignment => Src.Alignment_aligned_source
  | _ => fun _ => .error .other

def newTarget (sr : SyncRow) : Xf → Except Err Mat :=
  match sr.newTarget with
  | .Alignment => Src.Alignment__new_target_from_state (alignedSource sr)
  | _ => fun _ => .error .other

def verify (sr : SyncRow) : Xf → Mat → Except Err Xf :=
  match sr.verify with
  | .Targetable => Src.Targetable__verify_target
  | _ => fun _ _ => .error .other

def setter (sr : SyncRow) : Xf → Mat → Except Err Xf :=
  match sr.setter with
  | .Alignment => Src.Alignment__target_setter
  | _ => fun _ _ => .error .other

def setterV (sr : SyncRow) : Xf → Mat → Except Err Xf :=
  match sr.setterV with
  | .Targetable => Src.Targetable__target_setter_with_verification (verify sr) (setter sr)
  | _ => fun _ _ => .error .other

/-- `self._sync_target_from_state()` -/
def sync (sr : SyncRow) : Xf → Except Err Xf :=
  match sr.sync with
  | .Targetable => Src.Targetable__sync_target_from_state (newTarget sr) (setterV sr)
  | _ => fun _ => .error .other

/-- `self._set_h_matrix(value, copy=…, skip_checks=…)` -/
def setHm (r : Row) (sr : SyncRow) : Xf → Mat → Bool → Bool → Except Err Xf :=
  match r.setH with
  | .Homogeneous => Src.Homogeneous__set_h_matrix
  | .Affine => Src.Affine__set_h_matrix
  | .AlignmentAffine => Src.AlignmentAffine__set_h_matrix (sync sr)
  | _ => fun _ _ _ _ => .error .other

/-- `self.set_rotation_matrix(value, skip_checks=…)` -/
def setRotm (r : Row) (sr : SyncRow) : Xf → Mat → Bool → Except Err Xf :=
  match r.setRot with
  | .Rotation => Src.Rotation_set_rotation_matrix
  | .AlignmentRotation => Src.AlignmentRotation_set_rotation_matrix (sync sr)
  | _ => fun _ _ _ => .error .other

/-- `self._from_vector_inplace(vector)` of a transform -/
def xfFvi (r : Row) (sr : SyncRow) : Xf → Vec → Except Err Xf :=
  match r.fvi with
  | .Homogeneous => Src.Homogeneous__from_vector_inplace (setHm r sr)
  | .Affine => Src.Affine__from_vector_inplace (setHm r sr)
  | .Similarity => Src.Similarity__from_vector_inplace (setHm r sr)
  | .AlignmentSimilarity => Src.AlignmentSimilarity__from_vector_inplace (setHm r sr) (sync sr)
  | .Translation => Src.Translation__from_vector_inplace
  | .AlignmentTranslation => Src.AlignmentTranslation__from_vector_inplace (sync sr)
  | .UniformScale => Src.UniformScale__from_vector_inplace
  | .AlignmentUniformScale => Src.AlignmentUniformScale__from_vector_inplace (sync sr)
  | .NonUniformScale => Src.NonUniformScale__from_vector_inplace
  | .Rotation => Src.Rotation__from_vector_inplace (setRotm r sr)
  | _ => fun _ _ => .error .other

/-- `x.from_vector(v)` of a transform (in the value model `copy()` is the identity; aliasing is the subject of the
heap theorems) -/
def xfFromVec (tbl : List Row) (stbl : List SyncRow) (x : Xf) (v : Vec) : Except Err Xf :=
  let r := rowIn tbl x.cls
  let sr := syncRowIn stbl x.cls
  match r.fromVector with
  | .Homogeneous => Src.Homogeneous_from_vector id (xfFvi r sr) x v
  | _ => .error .other

/-- `x.from_vector_inplace(v)` (the deprecated public mutator) of a transform -/
def xfFromVecInplace (tbl : List Row) (stbl : List SyncRow) (x : Xf) (v : Vec) : Except Err Xf :=
  Src.Vectorizable_from_vector_inplace (xfFvi (rowIn tbl x.cls) (syncRowIn stbl x.cls)) x v

/-- `x._as_vector()` of a transform -/
def xfAsVec (eig : Mat → Vec) (tbl : List Row) (x : Xf) : Except Err Vec :=
  match (rowIn tbl x.cls).asVector with
  | .Homogeneous => Src.Homogeneous__as_vector x
  | .Affine => Src.Affine__as_vector x
  | .Similarity => Src.Similarity__as_vector x
  | .Translation => Src.Translation__as_vector x
  | .UniformScale => Src.UniformScale__as_vector x
  | .NonUniformScale => Src.NonUniformScale__as_vector x
  | .Rotation => Src.Rotation__as_vector eig x
  | _ => .error .other

/-- `x.as_vector()`: the array object with its `writeable` flag -/
def xfAsVector (eig : Mat → Vec) (tbl : List Row) (x : Xf) : Except Err (Flagged Vec) :=
  Src.Vectorizable_as_vector (xfAsVec eig tbl) x

/-- `x.n_parameters` of a transform -/
def xfNParams (eig : Mat → Vec) (tbl : List Row) (x : Xf) : Except Err Nat :=
  match (rowIn tbl x.cls).nParams with
  | .Vectorizable => Src.Vectorizable_n_parameters (xfAsVector eig tbl) x
  | .Affine => Src.Affine_n_parameters x
  | .Similarity => Src.Similarity_n_parameters x
  | .Translation => Src.Translation_n_parameters x
  | .UniformScale => Src.UniformScale_n_parameters x
  | .NonUniformScale => Src.NonUniformScale_n_parameters x
  | .Rotation => Src.Rotation_n_parameters x
  | _ => .error .other

/-- `_from_vector_inplace` / `from_vector` / `_as_vector` of a shape -/
def shapeFvi (r : Row) : Shape → Vec → Except Err Shape :=
  match r.fvi with
  | .PointCloud => Src.PointCloud__from_vector_inplace
  | _ => fun _ _ => .error .other

def shapeFromVec (tbl : List Row) (s : Shape) (v : Vec) : Except Err Shape :=
  let r := rowIn tbl s.cls
  match r.fromVector with
  | .TexturedTriMesh => Src.TexturedTriMesh_from_vector s v
  | .Vectorizable => Src.Vectorizable_from_vector id (shapeFvi r) s v
  | _ => .error .other

def shapeAsVec (tbl : List Row) (s : Shape) : Except Err Vec :=
  match (rowIn tbl s.cls).asVector with
  | .PointCloud => Src.PointCloud__as_vector s
  | _ => .error .other

def shapeAsVector (tbl : List Row) (s : Shape) : Except Err (Flagged Vec) :=
  Src.Vectorizable_as_vector (shapeAsVec tbl) s

def shapeNParams (tbl : List Row) (s : Shape) : Except Err Nat :=
  match (rowIn tbl s.cls).nParams with
  | .Vectorizable => Src.Vectorizable_n_parameters (shapeAsVector tbl) s
  | _ => .error .other

/-- `from_vector(v)` / `from_vector(v, n_channels=k)` / `_as_vector(keep_channels=…)` / `_from_vector_inplace` of an image -/
def imgFromVecOpt (tbl : List Row) (x : Img) (v : Vec) (k : Option Nat) : Except Err Img :=
  match (rowIn tbl x.cls).fromVector with
  | .Image => Src.Image_from_vector x v k true
  | .MaskedImage => Src.MaskedImage_from_vector x v k
  | .BooleanImage => (match k with
      | none => Src.BooleanImage_from_vector x v true
      | some _ => .error .other)                       -- `BooleanImage.from_vector` has no `n_channels` parameter
  | _ => .error .other

def imgAsVecOpt (tbl : List Row) (x : Img) (keep : Bool) : Except Err Arr :=
  match (rowIn tbl x.cls).asVector with
  | .Image => .ok (Src.Image__as_vector x keep)
  | .MaskedImage => .ok (Src.MaskedImage__as_vector x keep)
  | _ => .error .other

def imgAsVector (tbl : List Row) (x : Img) (keep : Bool) : Except Err (Flagged Arr) :=
  Src.Vectorizable_as_vector (fun y => imgAsVecOpt tbl y keep) x

def imgFvi (tbl : List Row) (contig : Bool) (x : Img) (v : Vec) : Except Err Img :=
  match (rowIn tbl x.cls).fvi with
  | .Image => Src.Image__from_vector_inplace contig x v true
  | .MaskedImage => Src.MaskedImage__from_vector_inplace (Src.MaskedImage__set_masked_pixels contig) x v true
  | _ => .error .other

/-! ## the tables the current classes resolve to -/

theorem sync_ok : Generated.syncDispatch = expectedSync := by decide

theorem rowIn_eq (c : Cls) : rowIn Generated.dispatch c = rowOf c := by
  rw [GenProps.dispatch_ok]; rfl

theorem syncRow_align (c : Cls) (ha : isAlignCls c = true) :
    syncRowIn Generated.syncDispatch c = ⟨c, .Targetable, .Alignment, .Targetable, .Targetable, .Alignment, .Alignment⟩ := by
  rw [sync_ok]
  cases c <;> first | rfl | (simp [isAlignCls] at ha)

/-! ## the assembled translated code equals the Core model -/

/-- what the suppliers rely on: a member of the affine family holds a square 3×3 / 4×4 matrix, and the target of an
alignment has the shape of its source (NOT: equals the aligned source — freshly built alignments keep the caller's target) -/
def XfOK (x : Xf) : Prop := (x.cls ≠ .Homogeneous → Aff x.h) ∧ (isAlignCls x.cls = true → Conforms x)

theorem xfOK_of_wf (x : Xf) (hc : isXfCls x.cls = true) (hw : x.wf = true) : XfOK x := by
  obtain ⟨hwH, hal⟩ := xf_wf_parts x hw
  refine ⟨fun hne => aff_of_wf _ (wfH_affine x.cls x.h hc hne hwH), fun ha => ?_⟩
  exact conforms_of_image x x.h (xf_wf_align x ha hw)

theorem sync_align (c : Cls) (ha : isAlignCls c = true) (y : Xf) (hres : Conforms y) :
    sync (syncRowIn Generated.syncDispatch c) y = syncTarget y := by
  rw [syncRow_align c ha]
  exact sync_eq y hres

theorem setHm_eq (c : Cls) (hc : isXfCls c = true) (x : Xf) (m : Mat) (cp : Bool) (hres : isAlignCls c = true → Conforms x) :
    setHm (rowOf c) (syncRowIn Generated.syncDispatch c) x m cp true = setH (rowOf c) x m := by
  cases c <;> simp [isXfCls] at hc
  all_goals first
    | exact Homogeneous__set_h_matrix_eq x m cp true
    | exact Affine__set_h_matrix_eq x m cp
    | (show Src.AlignmentAffine__set_h_matrix _ x m cp true = syncTarget { x with h := m }
       refine AlignmentAffine__set_h_matrix_eq _ x m cp ?_
       exact sync_align _ rfl _ (hres rfl))

theorem setRotm_eq (c : Cls) (hc : c = .Rotation ∨ c = .AlignmentRotation) (x : Xf) (R : Mat)
    (hres : isAlignCls c = true → Conforms x) :
    setRotm (rowOf c) (syncRowIn Generated.syncDispatch c) x R true = setRot (rowOf c) x R := by
  rcases hc with rfl | rfl
  · exact Rotation_set_rotation_matrix_eq x R
  · show Src.AlignmentRotation_set_rotation_matrix _ x R true = syncTarget { x with h := setRotBase x.h R }
    refine AlignmentRotation_set_rotation_matrix_eq _ x R ?_
    exact sync_align _ rfl _ (hres rfl)

theorem resynced_of_eq (x y : Xf) (hs : y.src = x.src) (ht : y.tgt = x.tgt) (h : Conforms x) : Conforms y := by
  unfold Conforms at h ⊢
  rw [hs, ht]; exact h

theorem translationFvi_keeps (x y : Xf) (p : Vec) (h : translationFvi x p = .ok y) : y.src = x.src ∧ y.tgt = x.tgt := by
  unfold translationFvi at h
  dsimp only at h
  split at h
  · cases h; exact ⟨rfl, rfl⟩
  · split at h
    · cases h; exact ⟨rfl, rfl⟩
    · cases h

theorem uniformScaleFvi_keeps (V : Variant) (x y : Xf) (p : Vec) (h : uniformScaleFvi V x p = .ok y) :
    y.src = x.src ∧ y.tgt = x.tgt := by
  unfold uniformScaleFvi at h
  split at h
  · cases h
  · cases h; exact ⟨rfl, rfl⟩

theorem similarityFvi_keeps (r : Row) (hr : r.setH = .Affine) (x y : Xf) (p : Vec) (h : similarityFvi r x p = .ok y) :
    y.src = x.src ∧ y.tgt = x.tgt := by
  unfold similarityFvi at h
  split at h
  · simp only [setH, hr] at h; cases h; exact ⟨rfl, rfl⟩
  · cases h
  · cases h

/-- `_from_vector_inplace` as the current source text and the current tables assemble it is the model's `Xf.fvi` -/
theorem xfFvi_src (x : Xf) (v : Vec) (hc : isXfCls x.cls = true) (hok : XfOK x) :
    xfFvi (rowOf x.cls) (syncRowIn Generated.syncDispatch x.cls) x v = x.fvi fixed v := by
  obtain ⟨haff, hres⟩ := hok
  obtain ⟨cls, h, s, t⟩ := x
  have noal : ∀ c, isAlignCls c = false → ∀ y : Xf, isAlignCls c = true → Conforms y := by
    intro c hc y h; rw [hc] at h; cases h
  cases cls <;> simp [isXfCls] at hc
  · exact Homogeneous__from_vector_inplace_eq _ _ _ (fun m c => setHm_eq .Homogeneous rfl _ m c (noal _ rfl _)) _
  · exact Affine__from_vector_inplace_eq _ _ _ (fun m c => setHm_eq .Affine rfl _ m c (noal _ rfl _)) _
  · exact Similarity__from_vector_inplace_eq _ _ _ (fun m c => setHm_eq .Similarity rfl _ m c (noal _ rfl _)) _
  · exact Translation__from_vector_inplace_eq _ _
  · exact UniformScale__from_vector_inplace_eq _ _
  · exact NonUniformScale__from_vector_inplace_eq _ _
  · exact Rotation__from_vector_inplace_eq _ _ _ (fun m => setRotm_eq .Rotation (Or.inl rfl) _ m (noal _ rfl _)) _
      (sq_of_aff _ (haff (by simp)))
  · -- AlignmentAffine: `Affine._from_vector_inplace`; the `_set_h_matrix` it calls is AlignmentAffine's (store, re-sync)
    exact Affine__from_vector_inplace_eq _ _ _ (fun m c => setHm_eq .AlignmentAffine rfl _ m c (fun _ => hres rfl)) _
  · -- AlignmentSimilarity: `Similarity._from_vector_inplace`, then the re-sync
    refine AlignmentSimilarity__from_vector_inplace_eq _ _ _
      (fun m c => setHm_eq .AlignmentSimilarity rfl _ m c (fun _ => hres rfl)) _ _ (fun y hy => ?_)
    obtain ⟨h1, h2⟩ := similarityFvi_keeps _ rfl _ _ _ hy
    exact sync_align _ rfl _ (resynced_of_eq _ _ h1 h2 (hres rfl))
  · -- AlignmentTranslation
    refine AlignmentTranslation__from_vector_inplace_eq _ _ _ (fun y hy => ?_)
    obtain ⟨h1, h2⟩ := translationFvi_keeps _ _ _ hy
    exact sync_align _ rfl _ (resynced_of_eq _ _ h1 h2 (hres rfl))
  · -- AlignmentUniformScale
    refine AlignmentUniformScale__from_vector_inplace_eq _ _ _ (fun y hy => ?_)
    obtain ⟨h1, h2⟩ := uniformScaleFvi_keeps _ _ _ _ hy
    exact sync_align _ rfl _ (resynced_of_eq _ _ h1 h2 (hres rfl))
  · -- AlignmentRotation: `Rotation._from_vector_inplace`; the `set_rotation_matrix` it calls is AlignmentRotation's
    exact Rotation__from_vector_inplace_eq _ _ _
      (fun m => setRotm_eq .AlignmentRotation (Or.inr rfl) _ m (fun _ => hres rfl)) _ (sq_of_aff _ (haff (by simp)))

/-- MAIN TIE (transforms): what the current source text says `from_vector` does, assembled through the current
method-resolution tables, is the Core model's `Xf.fromVec` (patched variant) on every object satisfying its class
invariant -/
theorem xfFromVec_src (x : Xf) (v : Vec) (hc : isXfCls x.cls = true) (hok : XfOK x) :
    xfFromVec Generated.dispatch Generated.syncDispatch x v = x.fromVec fixed v := by
  have hfv : (rowOf x.cls).fromVector = .Homogeneous := by
    obtain ⟨cls, h, s, t⟩ := x
    cases cls <;> first | rfl | (simp [isXfCls] at hc)
  unfold xfFromVec
  simp only [rowIn_eq, hfv]
  rw [Homogeneous_from_vector_eq, xfFvi_src x v hc hok, xf_inplace_agrees fixed x v hc]

theorem xfFromVecInplace_src (x : Xf) (v : Vec) (hc : isXfCls x.cls = true) (hok : XfOK x) :
    xfFromVecInplace Generated.dispatch Generated.syncDispatch x v = x.fvi fixed v := by
  unfold xfFromVecInplace
  rw [Vectorizable_from_vector_inplace_eq, rowIn_eq, xfFvi_src x v hc hok]

/-- `_as_vector` of the transforms -/
theorem xfAsVec_src (eig : Mat → Vec) (x : Xf) (hc : isXfCls x.cls = true) (ha : x.cls ≠ .Homogeneous → Aff x.h) :
    xfAsVec eig Generated.dispatch x = x.asVecWith eig := by
  obtain ⟨cls, h, s, t⟩ := x
  unfold xfAsVec
  simp only [rowIn_eq]
  cases cls <;> simp [isXfCls] at hc
  · exact Homogeneous__as_vector_eq _
  · exact Affine__as_vector_eq _ (ha (by simp))
  · exact Similarity__as_vector_eq _ (ha (by simp))
  · exact Translation__as_vector_eq _
  · exact UniformScale__as_vector_eq _
  · exact NonUniformScale__as_vector_eq _
  · exact Rotation__as_vector_eq eig _ (ha (by simp))
  · exact Affine__as_vector_eq _ (ha (by simp))
  · exact Similarity__as_vector_eq _ (ha (by simp))
  · exact Translation__as_vector_eq _
  · exact UniformScale__as_vector_eq _
  · exact Rotation__as_vector_eq eig _ (ha (by simp))

/-- `n_parameters` of the transforms -/
theorem xfNParams_src (eig : Mat → Vec) (x : Xf) (hc : isXfCls x.cls = true) (ha : x.cls ≠ .Homogeneous → Aff x.h) :
    xfNParams eig Generated.dispatch x = x.nParams := by
  obtain ⟨cls, h, s, t⟩ := x
  have hs : cls ≠ .Homogeneous → Sq h := fun hne => sq_of_aff _ (ha hne)
  unfold xfNParams
  simp only [rowIn_eq]
  cases cls <;> simp [isXfCls] at hc
  · show Src.Vectorizable_n_parameters (xfAsVector eig Generated.dispatch) _ = _
    rw [Vectorizable_n_parameters_eq]
    unfold xfAsVector
    rw [Vectorizable_as_vector_eq, xfAsVec_src eig _ rfl (by simp)]
    rfl
  · exact Affine_n_parameters_eq _ (hs (by simp))
  · exact Similarity_n_parameters_eq _ (hs (by simp))
  · exact Translation_n_parameters_eq _ (hs (by simp))
  · exact UniformScale_n_parameters_eq _
  · exact NonUniformScale_n_parameters_eq _
  · exact Rotation_n_parameters_eq _ (hs (by simp))
  · exact Affine_n_parameters_eq _ (hs (by simp))
  · exact Similarity_n_parameters_eq _ (hs (by simp))
  · exact Translation_n_parameters_eq _ (hs (by simp))
  · exact UniformScale_n_parameters_eq _
  · exact Rotation_n_parameters_eq _ (hs (by simp))

/-! ### shapes -/

theorem shapeFromVec_src (s : Shape) (v : Vec) (hc : isShapeCls s.cls = true) :
    shapeFromVec Generated.dispatch s v = s.fromVec fixed v := by
  obtain ⟨cls, d, pts, nv, tris, ex, lms⟩ := s
  unfold shapeFromVec
  simp only [rowIn_eq]
  cases cls <;> simp [isShapeCls, isGraphCls, isMeshCls] at hc
  all_goals first
    | exact TexturedTriMesh_from_vector_eq _ v rfl
    | (show Src.Vectorizable_from_vector id Src.PointCloud__from_vector_inplace _ v = _
       rw [Vectorizable_from_vector_eq]; exact PointCloud__from_vector_inplace_eq _ v)

theorem shapeAsVec_src (s : Shape) (hc : isShapeCls s.cls = true) : shapeAsVec Generated.dispatch s = .ok s.asVec := by
  obtain ⟨cls, d, pts, nv, tris, ex, lms⟩ := s
  unfold shapeAsVec
  simp only [rowIn_eq]
  cases cls <;> first | rfl | (simp [isShapeCls, isGraphCls, isMeshCls] at hc)

theorem shapeNParams_src (s : Shape) (hc : isShapeCls s.cls = true) :
    shapeNParams Generated.dispatch s = .ok s.nParams := by
  have hn : (rowOf s.cls).nParams = .Vectorizable := by
    obtain ⟨cls, d, pts, nv, tris, ex, lms⟩ := s
    cases cls <;> first | rfl | (simp [isShapeCls, isGraphCls, isMeshCls] at hc)
  unfold shapeNParams
  simp only [rowIn_eq, hn]
  rw [Vectorizable_n_parameters_eq]
  unfold shapeAsVector
  rw [Vectorizable_as_vector_eq, shapeAsVec_src s hc]
  rfl

/-! ### images -/

/-- images as the constructors build them: only a masked image carries a mask, with one entry per pixel -/
def ImgOK (x : Img) : Prop := (x.cls ≠ .MaskedImage → x.mask = []) ∧ (x.cls = .MaskedImage → x.mask.length = x.nPix)

theorem imgOK_of_wf (x : Img) (hw : x.wf = true) (hm : x.cls ≠ .MaskedImage → x.mask = []) : ImgOK x := by
  refine ⟨hm, fun hc => ?_⟩
  simp only [Img.wf, Bool.and_eq_true, Bool.or_eq_true, bne_iff_ne, ne_eq, beq_iff_eq] at hw
  rcases hw.1.2 with h | h
  · exact absurd hc h
  · exact h

theorem imgFromVec_src (x : Img) (v : Vec) (hc : isImgCls x.cls = true) (hok : ImgOK x) :
    imgFromVecOpt Generated.dispatch x v none = x.fromVec v := by
  obtain ⟨h1, h2⟩ := hok
  obtain ⟨cls, shape, chans, mask, lms⟩ := x
  unfold imgFromVecOpt
  simp only [rowIn_eq]
  cases cls <;> simp [isImgCls] at hc
  · exact Image_from_vector_none _ v true ⟨rfl, h1 (by simp)⟩
  · show Src.MaskedImage_from_vector _ v none = maskedFromVector _ v
    rw [MaskedImage_from_vector_none, MaskedImage_from_vector_some _ v _ rfl (h2 rfl)]
    exact fromVecN_self ⟨.MaskedImage, shape, chans, mask, lms⟩ v (Or.inr rfl)
  · exact BooleanImage_from_vector_eq _ v true ⟨rfl, h1 (by simp)⟩

theorem imgFromVecN_src (x : Img) (v : Vec) (k : Nat) (hc : x.cls = .Image ∨ x.cls = .MaskedImage) (hok : ImgOK x) :
    imgFromVecOpt Generated.dispatch x v (some k) = x.fromVecN k v := by
  obtain ⟨h1, h2⟩ := hok
  obtain ⟨cls, shape, chans, mask, lms⟩ := x
  unfold imgFromVecOpt
  simp only [rowIn_eq]
  rcases hc with hc | hc <;> (simp only at hc; subst hc)
  · exact Image_from_vector_some _ v k true ⟨rfl, h1 (by simp)⟩
  · exact MaskedImage_from_vector_some _ v k rfl (h2 rfl)

theorem imgAsVec_src (x : Img) (hc : isImgCls x.cls = true) :
    imgAsVecOpt Generated.dispatch x false = .ok (.flat x.asVec) := by
  obtain ⟨cls, shape, chans, mask, lms⟩ := x
  unfold imgAsVecOpt
  simp only [rowIn_eq]
  cases cls <;> simp [isImgCls] at hc
  · exact congrArg Except.ok (Image__as_vector_flat _)
  · exact congrArg Except.ok (MaskedImage__as_vector_flat _)
  · exact congrArg Except.ok (Image__as_vector_flat _)

theorem imgAsVecKeep_src (x : Img) (hc : isImgCls x.cls = true) :
    imgAsVecOpt Generated.dispatch x true = .ok (.rows x.asVecKeep) := by
  obtain ⟨cls, shape, chans, mask, lms⟩ := x
  unfold imgAsVecOpt
  simp only [rowIn_eq]
  cases cls <;> simp [isImgCls] at hc
  · exact congrArg Except.ok (Image__as_vector_keep _)
  · exact congrArg Except.ok (MaskedImage__as_vector_keep _)
  · exact congrArg Except.ok (Image__as_vector_keep _)

theorem imgFvi_src (g : Bool) (x : Img) (v : Vec) (hc : isImgCls x.cls = true) :
    imgFvi Generated.dispatch g x v = x.fvi v := by
  obtain ⟨cls, shape, chans, mask, lms⟩ := x
  unfold imgFvi
  simp only [rowIn_eq]
  cases cls <;> simp [isImgCls] at hc
  · exact Image__from_vector_inplace_eq g _ v true
  · exact MaskedImage__from_vector_inplace_eq g _ v true
  · exact Image__from_vector_inplace_eq g _ v true

/-! ## the property, over the assembled translated code

`T x v` below is literally what the current source text of menpo, resolved through the current class hierarchy,
computes for `x.from_vector(v)`; `A x` what it computes for `x._as_vector()`; `N x` for `x.n_parameters`. -/

theorem isXf_of_align (c : Cls) (ha : isAlignCls c = true) : isXfCls c = true := by
  cases c <;> first | rfl | (simp [isAlignCls] at ha)

/-- PROPERTY (`as_vector` is read-only): the array `Vectorizable.as_vector` hands back has its `writeable` flag cleared
and holds exactly what `_as_vector` computed; the translation shows that nothing else is touched (no statement of
`as_vector` assigns to the receiver) — for every class, whatever its `_as_vector` -/
theorem src_as_vector_read_only {α β : Type} (av : α → Except Err β) (x : α) (a : Flagged β)
    (h : Src.Vectorizable_as_vector av x = .ok a) : a.writeable = false ∧ av x = .ok a.val := by
  rw [Vectorizable_as_vector_eq] at h
  cases hav : av x with
  | error e => rw [hav] at h; cases h
  | ok w => rw [hav] at h; cases h; exact ⟨rfl, rfl⟩

/-- … and it never fails where `_as_vector` succeeds, nor succeeds where it fails -/
theorem src_as_vector_total {α β : Type} (av : α → Except Err β) (x : α) (w : β) (h : av x = .ok w) :
    Src.Vectorizable_as_vector av x = .ok ⟨w, false⟩ := by
  rw [Vectorizable_as_vector_eq, h]; rfl

/-- PROPERTY (transforms, translated code): `from_vector(as_vector())` reproduces the object -/
theorem src_xf_from_as (eig : Mat → Vec) (x : Xf) (v : Vec) (hc : isXfCls x.cls = true)
    (hr : x.cls ≠ .Rotation ∧ x.cls ≠ .AlignmentRotation) (hw : x.wf = true)
    (hv : xfAsVec eig Generated.dispatch x = .ok v) :
    xfFromVec Generated.dispatch Generated.syncDispatch x v = .ok x := by
  have hok := xfOK_of_wf x hc hw
  rw [xfFromVec_src x v hc hok]
  rw [xfAsVec_src eig x hc hok.1] at hv
  exact xf_from_as fixed eig x v hc hr hw hv

/-- PROPERTY (transforms, translated code): `from_vector(v).as_vector()` returns `v` for every `v` of `n_parameters`
entries -/
theorem src_xf_as_from (eig : Mat → Vec) (x x' : Xf) (v : Vec) (hc : isXfCls x.cls = true)
    (hr : x.cls ≠ .Rotation ∧ x.cls ≠ .AlignmentRotation) (hw : x.wf = true)
    (hn : xfNParams eig Generated.dispatch x = .ok v.length)
    (h : xfFromVec Generated.dispatch Generated.syncDispatch x v = .ok x') :
    xfAsVec eig Generated.dispatch x' = .ok v := by
  have hok := xfOK_of_wf x hc hw
  obtain ⟨hwH, _⟩ := xf_wf_parts x hw
  rw [xfFromVec_src x v hc hok] at h
  rw [xfNParams_src eig x hc hok.1] at hn
  obtain ⟨hcls, hwH'⟩ := xf_wrong_length_fixed x x' v hc hwH h
  have hc' : isXfCls x'.cls = true := by rw [hcls]; exact hc
  rw [xfAsVec_src eig x' hc' (fun hne => aff_of_wf _ (wfH_affine x'.cls x'.h hc' hne hwH'))]
  exact xf_as_from fixed eig x x' v hc hr hwH hn h

/-- PROPERTY (transforms, translated code): the vector has exactly `n_parameters` entries -/
theorem src_xf_length_eq_nparams (eig : Mat → Vec) (x : Xf) (v : Vec) (hc : isXfCls x.cls = true) (hw : x.wf = true)
    (hv : xfAsVec eig Generated.dispatch x = .ok v) : xfNParams eig Generated.dispatch x = .ok v.length := by
  have hok := xfOK_of_wf x hc hw
  obtain ⟨hwH, _⟩ := xf_wf_parts x hw
  rw [xfAsVec_src eig x hc hok.1] at hv
  rw [xfNParams_src eig x hc hok.1]
  exact xf_length_eq_nparams eig x v hc hwH hv

/-- PROPERTY (alignment transforms, translated code): after a parameter update through `from_vector` the target IS
the aligned source (`target = apply(source)` with the NEW matrix), and the source is the receiver's.  The re-sync is
the translated `Targetable._sync_target_from_state` reached from the translated
`AlignmentX._from_vector_inplace` / `AlignmentAffine._set_h_matrix` / `AlignmentRotation.set_rotation_matrix` through
the regenerated tables: a re-sync that slid the old target instead of re-applying the transform would break
`xfFromVec_src`. -/
theorem src_alignment_target_resynced (x x' : Xf) (v : Vec) (ha : isAlignCls x.cls = true) (hw : x.wf = true)
    (h : xfFromVec Generated.dispatch Generated.syncDispatch x v = .ok x') :
    applyAff x'.h x'.src = .ok x'.tgt ∧ x'.src = x.src ∧ x'.cls = x.cls := by
  have hc := isXf_of_align x.cls ha
  rw [xfFromVec_src x v hc (xfOK_of_wf x hc hw)] at h
  exact alignment_target_resynced fixed x x' v ha hw h

/-- PROPERTY (alignment transforms, translated code, NO assumption that the target was in sync before): for an alignment
holding a 3×3 / 4×4 matrix whose target merely has the shape of its source — every alignment the constructors build, the
target being whatever the caller passed — `from_vector(v)` as the current source text and class hierarchy compute it
leaves `target = apply(source)` for the new matrix.  (Proviso of the code itself: a sub-`4 eps` quaternion is ignored.) -/
theorem src_alignment_target_resynced_any (x x' : Xf) (v : Vec) (ha : isAlignCls x.cls = true) (haff : Aff x.h)
    (hconf : Conforms x)
    (hq : x.cls = .AlignmentRotation → ∀ w a b c : Rat, v = [w, a, b, c] → ¬ (w * w + a * a + b * b + c * c < eps4))
    (h : xfFromVec Generated.dispatch Generated.syncDispatch x v = .ok x') :
    applyAff x'.h x'.src = .ok x'.tgt ∧ x'.src = x.src ∧ x'.cls = x.cls := by
  have hc := isXf_of_align x.cls ha
  rw [xfFromVec_src x v hc ⟨fun _ => haff, fun _ => hconf⟩] at h
  exact alignment_target_resynced_any fixed x x' v ha hq h

/-- non-vacuity: an alignment whose target is not the aligned source (`wf` is false), as every freshly built one -/
def exAlignFresh : Xf := ⟨.AlignmentSimilarity, [[2, -1, 5], [1, 2, 7], [0, 0, 1]], [[0, 0], [1, 0], [0, 1]],
  [[7, -1], [4, 4], [0, 9]]⟩
example : exAlignFresh.wf = false := by decide +kernel
example : Conforms exAlignFresh := ⟨rfl, fun p hp => by cases hp; rfl⟩
example : Aff exAlignFresh.h := Or.inl (by decide)
example : xfFromVec Generated.dispatch Generated.syncDispatch exAlignFresh [1, 1, 0, 0] =
    .ok ⟨.AlignmentSimilarity, [[2, -1, 0], [1, 2, 0], [0, 0, 1]], [[0, 0], [1, 0], [0, 1]],
      [[0, 0], [2, 1], [-1, 2]]⟩ := by decide +kernel

/-- … and the same after the deprecated in-place mutator -/
theorem src_alignment_target_resynced_inplace (x x' : Xf) (v : Vec) (ha : isAlignCls x.cls = true) (hw : x.wf = true)
    (h : xfFromVecInplace Generated.dispatch Generated.syncDispatch x v = .ok x') :
    applyAff x'.h x'.src = .ok x'.tgt ∧ x'.src = x.src ∧ x'.cls = x.cls := by
  have hc := isXf_of_align x.cls ha
  rw [xfFromVecInplace_src x v hc (xfOK_of_wf x hc hw), ← xf_inplace_agrees fixed x v hc] at h
  exact alignment_target_resynced fixed x x' v ha hw h

/-- PROPERTY (transforms, translated code): `from_vector` either raises or returns a well-formed object of the same
class, whatever the length of the vector -/
theorem src_xf_rejected_or_wellformed (x x' : Xf) (v : Vec) (hc : isXfCls x.cls = true) (hw : x.wf = true)
    (h : xfFromVec Generated.dispatch Generated.syncDispatch x v = .ok x') :
    x'.cls = x.cls ∧ Xf.wfH x'.cls x'.h = true := by
  rw [xfFromVec_src x v hc (xfOK_of_wf x hc hw)] at h
  exact xf_wrong_length_fixed x x' v hc (xf_wf_parts x hw).1 h

/-- PROPERTY (transforms, translated code): every vector of `n_parameters` entries is accepted -/
theorem src_xf_right_length_accepted (eig : Mat → Vec) (x : Xf) (v : Vec) (hc : isXfCls x.cls = true) (hw : x.wf = true)
    (hn : xfNParams eig Generated.dispatch x = .ok v.length) :
    ∃ x', xfFromVec Generated.dispatch Generated.syncDispatch x v = .ok x' := by
  have hok := xfOK_of_wf x hc hw
  rw [xfNParams_src eig x hc hok.1] at hn
  obtain ⟨x', hx⟩ := xf_right_length_accepted fixed x v hc hw hn
  exact ⟨x', by rw [xfFromVec_src x v hc hok]; exact hx⟩

/-- PROPERTY (shapes, translated code): both round trips, carried state and the wrong-length clause -/
theorem src_shape_from_as (s : Shape) (hc : isShapeCls s.cls = true) (hw : s.wf = true) :
    ∃ v, shapeAsVec Generated.dispatch s = .ok v ∧ shapeFromVec Generated.dispatch s v = .ok s := by
  refine ⟨s.asVec, shapeAsVec_src s hc, ?_⟩
  rw [shapeFromVec_src s _ hc]
  exact shape_from_as fixed s hc hw (Or.inl rfl)

theorem src_shape_as_from (s s' : Shape) (v : Vec) (hc : isShapeCls s.cls = true)
    (h : shapeFromVec Generated.dispatch s v = .ok s') :
    shapeAsVec Generated.dispatch s' = .ok v ∧ s'.cls = s.cls ∧ s'.nVert = s.nVert ∧ s'.tris = s.tris ∧
      s'.extra = s.extra ∧ s'.lms = s.lms := by
  rw [shapeFromVec_src s v hc] at h
  obtain ⟨h1, h2, h3, h4, h5, h6⟩ := shape_carried fixed s s' v hc h
  have hc' : isShapeCls s'.cls = true := by rw [h1]; exact hc
  rw [shapeAsVec_src s' hc', shape_as_from fixed s s' v hc h]
  exact ⟨rfl, h1, h3, h4, h5, h6 (Or.inl rfl)⟩

theorem src_shape_rejected_or_wellformed (s s' : Shape) (v : Vec) (hc : isShapeCls s.cls = true) (hw : s.wf = true)
    (h : shapeFromVec Generated.dispatch s v = .ok s') :
    shapeNParams Generated.dispatch s = .ok v.length ∧ s'.wf = true := by
  rw [shapeFromVec_src s v hc] at h
  obtain ⟨h1, h2⟩ := shape_wrong_length_fixed s s' v hc hw h
  exact ⟨by rw [shapeNParams_src s hc, h1], h2⟩

/-- PROPERTY (images, translated code): `from_vector(as_vector())` reproduces class, shape, mask, landmarks, the
vector, the pixels under the mask — and the whole image unless it is masked -/
theorem src_img_from_as (x : Img) (hc : isImgCls x.cls = true) (hw : x.wf = true) (hch : x.nCh ≠ 0)
    (hm : x.cls ≠ .MaskedImage → x.mask = []) :
    ∃ v x', imgAsVecOpt Generated.dispatch x false = .ok (.flat v) ∧
      imgFromVecOpt Generated.dispatch x v none = .ok x' ∧ x'.cls = x.cls ∧ x'.shape = x.shape ∧ x'.mask = x.mask ∧
      x'.lms = x.lms ∧ imgAsVecOpt Generated.dispatch x' false = .ok (.flat v) ∧
      x'.chans.map (fun c => maskFilter c x.mask) = x.chans.map (fun c => maskFilter c x.mask) ∧
      (x.cls ≠ .MaskedImage → x' = x) := by
  obtain ⟨x', h1, h2, h3, h4, h5, h6, h7, h8⟩ := img_from_as x hc hw hch
  have hc' : isImgCls x'.cls = true := by rw [h2]; exact hc
  refine ⟨x.asVec, x', imgAsVec_src x hc, ?_, h2, h3, h4, h5, ?_, h7, h8⟩
  · rw [imgFromVec_src x _ hc (imgOK_of_wf x hw hm)]; exact h1
  · rw [imgAsVec_src x' hc', h6]

/-- PROPERTY (images, translated code): `from_vector(v).as_vector()` returns `v` for every `v` of `n_parameters`
entries (Boolean entries for a Boolean image) -/
theorem src_img_as_from (x x' : Img) (v : Vec) (hc : isImgCls x.cls = true) (hw : x.wf = true)
    (hm : x.cls ≠ .MaskedImage → x.mask = []) (hn : v.length = x.nParams)
    (hb : x.cls = .BooleanImage → ∀ e ∈ v, e = 0 ∨ e = 1)
    (h : imgFromVecOpt Generated.dispatch x v none = .ok x') :
    imgAsVecOpt Generated.dispatch x' false = .ok (.flat v) ∧ x'.cls = x.cls ∧ x'.mask = x.mask ∧ x'.lms = x.lms := by
  rw [imgFromVec_src x v hc (imgOK_of_wf x hw hm)] at h
  obtain ⟨h1, h2, h3, h4⟩ := img_carried x x' v hc h
  have hc' : isImgCls x'.cls = true := by rw [h1]; exact hc
  rw [imgAsVec_src x' hc', img_as_from x x' v hc hw hn hb h]
  exact ⟨rfl, h1, h3, h4⟩

/-- PROPERTY (masked images, translated code): `_as_vector()` holds exactly the pixels under the mask, channel-major,
raster order within a channel -/
theorem src_masked_vector_layout (x : Img) (hm : x.cls = .MaskedImage) (hw : x.wf = true) (c p : Nat)
    (hp : x.mask[p]? = some true) :
    ∃ v, imgAsVecOpt Generated.dispatch x false = .ok (.flat v) ∧
      v[c * countTrue x.mask + rank x.mask p]? = (x.chans[c]?).bind (fun ch => ch[p]?) :=
  ⟨x.asVec, imgAsVec_src x (by simp [isImgCls, hm]), masked_vector_layout x hm hw c p hp⟩

/-- PROPERTY (`from_vector(v, n_channels=k)`, translated code): the model's `fromVecN`, hence `fromVecN_spec` -/
theorem src_img_fromVecN (x x' : Img) (k : Nat) (v : Vec) (hc : x.cls = .Image ∨ x.cls = .MaskedImage)
    (hw : x.wf = true) (hm : x.cls ≠ .MaskedImage → x.mask = [])
    (h : imgFromVecOpt Generated.dispatch x v (some k) = .ok x') : x.fromVecN k v = .ok x' := by
  rw [imgFromVecN_src x v k hc (imgOK_of_wf x hw hm)] at h
  exact h

/-! ## non-vacuity: the hypotheses are satisfiable on concrete, non-trivial objects, and the assembled translated code
computes on them -/

def exAlignT : Xf := ⟨.AlignmentTranslation, [[1, 0, 2], [0, 1, 3], [0, 0, 1]], [[0, 0], [1, 0], [0, 1]],
  [[2, 3], [3, 3], [2, 4]]⟩
example : exAlignT.wf = true := by decide +kernel
example : xfFromVec Generated.dispatch Generated.syncDispatch exAlignT [10, 20] =
    .ok ⟨.AlignmentTranslation, [[1, 0, 10], [0, 1, 20], [0, 0, 1]], [[0, 0], [1, 0], [0, 1]],
      [[10, 20], [11, 20], [10, 21]]⟩ := by decide +kernel
example : xfAsVec (fun _ => []) Generated.dispatch exAlignT = .ok [2, 3] := by decide +kernel
example : xfNParams (fun _ => []) Generated.dispatch exAlignT = .ok 2 := by decide +kernel
example : xfAsVector (fun _ => []) Generated.dispatch exAlignT = .ok ⟨[2, 3], false⟩ := by decide +kernel

def exAff : Xf := ⟨.AlignmentAffine, [[2, 1, 5], [0, 3, 7], [0, 0, 1]], [[0, 0], [1, 0], [0, 1]], [[5, 7], [7, 7], [6, 10]]⟩
example : exAff.wf = true := by decide +kernel
example : xfFromVec Generated.dispatch Generated.syncDispatch exAff [1, 2, 3, 4, 5, 6] =
    .ok ⟨.AlignmentAffine, [[2, 3, 5], [2, 5, 6], [0, 0, 1]], [[0, 0], [1, 0], [0, 1]], [[5, 6], [7, 8], [8, 11]]⟩ := by
  decide +kernel
example : xfFromVec Generated.dispatch Generated.syncDispatch exAff [1, 2, 3] = .error .value := by decide +kernel

def exMaskedS : Img := ⟨.MaskedImage, [2, 2], [[1, 2, 3, 4], [5, 6, 7, 8]], [true, false, false, true], [(0, [1, 1])]⟩
example : imgAsVecOpt Generated.dispatch exMaskedS false = .ok (.flat [1, 4, 5, 8]) := by decide +kernel
example : imgAsVecOpt Generated.dispatch exMaskedS true = .ok (.rows [[1, 4], [5, 8]]) := by decide +kernel
example : imgFromVecOpt Generated.dispatch exMaskedS [9, 8, 7, 6] none =
    .ok ⟨.MaskedImage, [2, 2], [[9, 0, 0, 8], [7, 0, 0, 6]], [true, false, false, true], [(0, [1, 1])]⟩ := by decide +kernel
example : ImgOK exMaskedS := ⟨by decide, fun _ => by decide⟩

def exMeshS : Shape := ⟨.TexturedTriMesh, 2, [0, 0, 1, 0, 0, 1, 1, 1], 4, [0, 1, 2, 1, 3, 2], 7, [(0, [1, 1, 2, 2])]⟩
example : shapeFromVec Generated.dispatch exMeshS [5, 5, 6, 5, 5, 6, 7, 7] =
    .ok { exMeshS with points := [5, 5, 6, 5, 5, 6, 7, 7] } := by decide +kernel
example : shapeFromVec Generated.dispatch exMeshS [1, 2, 3, 4] = .error .value := by decide +kernel

end MenpoModel.C05.Asm
