/-
C13 — obligations over the TRANSLATED source (`Generated/C13Src.lean`, rewritten by harness/trans_c13.py on every
`./check C13` from the source text of the current working tree of menpo).

Part 1: every translated function equals, for ALL arguments, its mirror `Src.f` of Core/C13Src.lean
        (`genF_eq`; 20 obligations).  The proofs are `src_eq`: definitional unfolding first (renamed
        temporaries, reordered independent statements and extra temporaries are invisible to it), then a case
        split on every `if` of both sides followed by `simp_all` (inverted tests with swapped arms), so a harmless
        rewrite of the Python keeps them while a changed decision (dropped branch, swapped argument, off-by-one,
        another rounding) breaks them.
Part 2: with Lemmas/C13Src.lean (`Src.f = ` the Core definition) the translated functions ARE the model the C13
        theorems are about (`genF_model`).
Part 3: the property theorems restated about the translated definitions themselves (crop exactness and boundary
        contract, patch shape on both paths, path equivalence and fill at integers, the round trip).
-/
import MenpoModel.Generated.C13Src
import MenpoModel.Lemmas.C13Src

namespace MenpoModel.C13.GenProps
open MenpoModel.C13 MenpoModel.C13.Src MenpoModel.C13.Generated

variable {α : Type}

/-- translated = mirror: by computation, or after splitting every `if` / `match` on both sides -/
macro "src_eq" : tactic => `(tactic| first
  | rfl
  | (intros; (try dsimp only); (repeat' split) <;> first | rfl | (simp_all; done) | (simp_all <;> rfl)))

/-! ## Part 1 — translated = mirror (re-checked against /repo on every run) -/

theorem genConstrainPointsToBounds_eq (pix : NDArr α) (points : List Int) :
    genConstrainPointsToBounds pix points = Src.constrainPointsToBounds pix points := by
  unfold genConstrainPointsToBounds Src.constrainPointsToBounds; src_eq

theorem genCrop_eq (pix : NDArr α) (lms : List (List Rat)) (zero : α) (mn mx : List Rat) (c rt : Bool) :
    genCrop pix lms zero mn mx c rt = Src.crop pix lms zero mn mx c rt := by
  unfold genCrop Src.crop; src_eq

theorem genPcBounds_eq (pts : List (List Rat)) (b : Rat) : genPcBounds pts b = Src.pcBounds pts b := by
  unfold genPcBounds Src.pcBounds
  cases pts <;> src_eq

theorem genPcRange_eq (pts : List (List Rat)) (b : Rat) : genPcRange pts b = Src.pcRange pts b := by
  unfold genPcRange Src.pcRange; src_eq

theorem genCropToPointcloud_eq (pix : NDArr α) (lms : List (List Rat)) (zero : α) (pc : List (List Rat)) (b : Rat)
    (c rt : Bool) : genCropToPointcloud pix lms zero pc b c rt = Src.cropToPointcloud pix lms zero pc b c rt := by
  unfold genCropToPointcloud Src.cropToPointcloud; src_eq

theorem genCropToLandmarks_eq (pix : NDArr α) (lms : List (List Rat)) (zero : α) (b : Rat) (c rt : Bool) :
    genCropToLandmarks pix lms zero b c rt = Src.cropToLandmarks pix lms zero b c rt := by
  unfold genCropToLandmarks Src.cropToLandmarks; src_eq

theorem genCropToPointcloudProportion_eq (pix : NDArr α) (lms : List (List Rat)) (zero : α) (pc : List (List Rat))
    (q : Rat) (m c rt : Bool) :
    genCropToPointcloudProportion pix lms zero pc q m c rt = Src.cropToPointcloudProportion pix lms zero pc q m c rt := by
  unfold genCropToPointcloudProportion Src.cropToPointcloudProportion; src_eq

theorem genCropToLandmarksProportion_eq (pix : NDArr α) (lms : List (List Rat)) (zero : α) (q : Rat) (m c rt : Bool) :
    genCropToLandmarksProportion pix lms zero q m c rt = Src.cropToLandmarksProportion pix lms zero q m c rt := by
  unfold genCropToLandmarksProportion Src.cropToLandmarksProportion; src_eq

theorem genTrueIndices_eq (mask : NDArr Bool) : genTrueIndices mask = Src.trueIndices mask := by
  unfold genTrueIndices Src.trueIndices; src_eq

theorem genBoundsTrue_eq (mask : NDArr Bool) (b : Int) (c : Bool) : genBoundsTrue mask b c = Src.boundsTrue mask b c := by
  unfold genBoundsTrue Src.boundsTrue; cases c <;> src_eq

theorem genCropToTrueMask_eq (pix : NDArr α) (lms : List (List Rat)) (zero : α) (mask : NDArr Bool) (b : Int)
    (c rt : Bool) : genCropToTrueMask pix lms zero mask b c rt = Src.cropToTrueMask pix lms zero mask b c rt := by
  unfold genCropToTrueMask Src.cropToTrueMask; src_eq

theorem genCenteredPatch_eq (ps : Nat × Nat) : genCenteredPatch ps = Src.centeredPatch ps := by
  unfold genCenteredPatch Src.centeredPatch; src_eq

theorem genExtractPatchesBySampling_eq (pixels : NDArr α) (pc : List Pt) (ps : Nat × Nat) (offsets : Option (List Pt))
    (sampler : Nat → Mode → Nat → Pt → α) (order : Nat) (mode : Mode) (cval : α) :
    genExtractPatchesBySampling pixels pc ps offsets sampler order mode cval =
      Src.extractPatchesBySampling pixels pc ps offsets sampler order mode cval := by
  unfold genExtractPatchesBySampling Src.extractPatchesBySampling; cases offsets <;> src_eq

theorem genExtractPatchesWithSlice_eq (pixels : NDArr α) (pc : List Pt) (ps : Nat × Nat) (offsets : Option (List Pt))
    (cval : α) :
    genExtractPatchesWithSlice pixels pc ps offsets cval = Src.extractPatchesWithSlice pixels pc ps offsets cval := by
  unfold genExtractPatchesWithSlice Src.extractPatchesWithSlice; cases offsets <;> src_eq

theorem genSetPatches_eq (dflt : α) (patches : NDArr α) (pixels : Except Err (NDArr α)) (pc : List Pt) (o : Int × Int)
    (oi : Nat) : genSetPatches dflt patches pixels pc o oi = Src.setPatches dflt patches pixels pc o oi := by
  unfold genSetPatches Src.setPatches; src_eq

theorem genExtractPatches_eq (pix : NDArr α) (sampler : Nat → Mode → Nat → Pt → α) (pc : List Pt) (ps : Nat × Nat)
    (so : Option (List Pt)) (asa : Bool) (order : Nat) (mode : Mode) (cval : α) :
    genExtractPatches pix sampler pc ps so asa order mode cval =
      Src.extractPatches pix sampler pc ps so asa order mode cval := by
  unfold genExtractPatches Src.extractPatches; src_eq

theorem genExtractPatchesAroundLandmarks_eq (pix : NDArr α) (sampler : Nat → Mode → Nat → Pt → α) (lms : List Pt)
    (zero : α) (ps : Nat × Nat) (so : Option (List Pt)) (asa : Bool) :
    genExtractPatchesAroundLandmarks pix sampler lms zero ps so asa =
      Src.extractPatchesAroundLandmarks pix sampler lms zero ps so asa := by
  unfold genExtractPatchesAroundLandmarks Src.extractPatchesAroundLandmarks; src_eq

theorem genSetPatchesApi_eq (dflt : α) (pix : NDArr α) (patches : PatchArg α) (pc : List Pt) (o : Option OffArg)
    (oi : Option Nat) : genSetPatchesApi dflt pix patches pc o oi = Src.setPatchesApi dflt pix patches pc o oi := by
  unfold genSetPatchesApi Src.setPatchesApi Src.setPatchesTail; src_eq

theorem genConvertPatchesList_eq (dflt : α) (l : List (NDArr α)) (n : Nat) :
    genConvertPatchesList dflt l n = Src.convertPatchesList dflt l n := by
  -- portfolio: the running-index spelling of the loops, or the computed-index spelling (`convertPatchesListIdx`, the
  -- same function for all arguments: `convertPatchesListIdx_eq`).  The attribute reads of the first entry are
  -- independent (all raise IndexError on an empty list, none otherwise): `cases l` first.
  first
  | (unfold genConvertPatchesList Src.convertPatchesList; cases l <;> src_eq)
  | (rw [← convertPatchesListIdx_eq]; unfold genConvertPatchesList Src.convertPatchesListIdx; cases l <;> src_eq)

theorem genSetPatchesAroundLandmarks_eq (dflt : α) (pix : NDArr α) (lms : List Pt) (patches : PatchArg α)
    (o : Option OffArg) (oi : Option Nat) :
    genSetPatchesAroundLandmarks dflt pix lms patches o oi = Src.setPatchesAroundLandmarks dflt pix lms patches o oi := by
  unfold genSetPatchesAroundLandmarks Src.setPatchesAroundLandmarks; src_eq

/-! ## Part 2 — the translated functions are the model -/

/-- the translated `Image.constrain_points_to_bounds` is the per-axis clamp -/
theorem genConstrainPointsToBounds_model (pix : NDArr α) (points : List Int) :
    genConstrainPointsToBounds pix points = List.zipWith clampB pix.shape.tail points := by
  rw [genConstrainPointsToBounds_eq, constrainPointsToBounds_eq]

/-- the translated `Image.crop` is `crop .repaired` on every well-formed image -/
theorem genCrop_model (pix : NDArr α) (C : Nat) (shape : List Nat) (hshape : pix.shape = C :: shape) (hwf : pix.WF)
    (lms : List (List Rat)) (zero : α) (mn mx : List Rat) (c rt : Bool) :
    genCrop pix lms zero mn mx c rt = crop .repaired pix mn mx c zero lms := by
  rw [genCrop_eq, crop_eq_core pix C shape hshape hwf]

theorem genCropToPointcloud_model (pix : NDArr α) (C : Nat) (shape : List Nat) (hshape : pix.shape = C :: shape)
    (hwf : pix.WF) (lms : List (List Rat)) (zero : α) (pts : List (List Rat)) (b : Rat) (c rt : Bool) :
    genCropToPointcloud pix lms zero pts b c rt = cropToPointcloud .repaired pix pts b c zero lms := by
  rw [genCropToPointcloud_eq, cropToPointcloud_eq_core pix C shape hshape hwf]

theorem genCropToLandmarks_model (pix : NDArr α) (C : Nat) (shape : List Nat) (hshape : pix.shape = C :: shape)
    (hwf : pix.WF) (lms : List (List Rat)) (zero : α) (b : Rat) (c rt : Bool) :
    genCropToLandmarks pix lms zero b c rt = cropToPointcloud .repaired pix lms b c zero lms := by
  rw [genCropToLandmarks_eq, cropToLandmarks_eq_core pix C shape hshape hwf]

theorem genCropToPointcloudProportion_model (pix : NDArr α) (C : Nat) (shape : List Nat) (hshape : pix.shape = C :: shape)
    (hwf : pix.WF) (lms : List (List Rat)) (zero : α) (pts : List (List Rat)) (q : Rat) (m c rt : Bool) :
    genCropToPointcloudProportion pix lms zero pts q m c rt =
      cropToPointcloudProportion .repaired pix pts q m c zero lms := by
  rw [genCropToPointcloudProportion_eq, cropToPointcloudProportion_eq_core pix C shape hshape hwf]

theorem genCropToLandmarksProportion_model (pix : NDArr α) (C : Nat) (shape : List Nat) (hshape : pix.shape = C :: shape)
    (hwf : pix.WF) (lms : List (List Rat)) (zero : α) (q : Rat) (m c rt : Bool) :
    genCropToLandmarksProportion pix lms zero q m c rt =
      cropToPointcloudProportion .repaired pix lms q m c zero lms := by
  rw [genCropToLandmarksProportion_eq, cropToLandmarksProportion_eq_core pix C shape hshape hwf]

theorem genCropToTrueMask_model (pix : NDArr α) (C : Nat) (shape : List Nat) (hshape : pix.shape = C :: shape)
    (hwf : pix.WF) (lms : List (List Rat)) (zero : α) (mask : NDArr Bool) (b : Int) (c rt : Bool) :
    genCropToTrueMask pix lms zero mask b c rt = cropToTrueMask .repaired pix mask b c zero lms := by
  rw [genCropToTrueMask_eq, cropToTrueMask_eq_core pix C shape hshape hwf]

/-- the translated `extract_patches_with_slice` is `extractSlice` (no hypothesis) -/
theorem genExtractPatchesWithSlice_model (pixels : NDArr α) (centres : List Pt) (ps : Nat × Nat)
    (offsets : Option (List Pt)) (cval : α) :
    genExtractPatchesWithSlice pixels centres ps offsets cval = extractSlice pixels centres ps.1 ps.2 offsets cval := by
  rw [genExtractPatchesWithSlice_eq, extractPatchesWithSlice_eq_core]

/-- the translated `extract_patches_by_sampling` is `extractSampling .repaired` on a `(C, H, W)` array -/
theorem genExtractPatchesBySampling_model (pixels : NDArr α) (C H W : Nat) (hshape : pixels.shape = [C, H, W])
    (centres : List Pt) (ps : Nat × Nat) (offsets : Option (List Pt)) (sampler : Nat → Mode → Nat → Pt → α)
    (order : Nat) (mode : Mode) (cval : α) :
    genExtractPatchesBySampling pixels centres ps offsets sampler order mode cval =
      extractSampling .repaired (sampler order mode) C ps.1 ps.2 centres offsets cval := by
  rw [genExtractPatchesBySampling_eq, extractPatchesBySampling_eq_core pixels C H W hshape]

/-- the translated `set_patches` is `setPatches .repaired` (the rounding placement) -/
theorem genSetPatches_model (dflt : α) (patches pix : NDArr α) (n k C' ph pw : Nat)
    (hp : patches.shape = [n, k, C', ph, pw]) (centres : List Pt) (offset : Int × Int) (oi : Nat) :
    genSetPatches dflt patches (.ok pix) centres offset oi = setPatches .repaired patches pix centres offset oi dflt := by
  rw [genSetPatches_eq, setPatches_eq_core dflt patches pix n k C' ph pw hp]

/-- the translated `Image.extract_patches` is the model's dispatch, in either return format -/
theorem genExtractPatches_model (pix : NDArr α) (C H W : Nat) (hshape : pix.shape = [C, H, W])
    (sampler : Nat → Mode → Nat → Pt → α) (centres : List Pt) (ps : Nat × Nat) (offsets : Option (List Pt))
    (asSingle : Bool) (order : Nat) (mode : Mode) (cval : α) :
    genExtractPatches pix sampler centres ps offsets asSingle order mode cval =
      (extractPatches .repaired sampler pix centres ps.1 ps.2 offsets order mode cval).map (outOf asSingle cval) := by
  rw [genExtractPatches_eq, extractPatches_eq_core pix C H W hshape]

/-- the translated `extract_patches_around_landmarks` is the slicing path with fill value 0 -/
theorem genExtractPatchesAroundLandmarks_model (pix : NDArr α) (C H W : Nat) (hshape : pix.shape = [C, H, W])
    (sampler : Nat → Mode → Nat → Pt → α) (lms : List Pt) (zero : α) (ps : Nat × Nat) (offsets : Option (List Pt))
    (asSingle : Bool) :
    genExtractPatchesAroundLandmarks pix sampler lms zero ps offsets asSingle =
      (extractAroundLandmarks pix lms ps.1 ps.2 offsets zero).map (outOf asSingle zero) := by
  rw [genExtractPatchesAroundLandmarks_eq, extractPatchesAroundLandmarks_eq_core pix C H W hshape]

/-- the translated `Image.set_patches` on an array argument is the model's `setPatchesApi` -/
theorem genSetPatchesApi_model (dflt : α) (pix a : NDArr α) (C H W n k C' ph pw : Nat)
    (hshape : pix.shape = [C, H, W]) (hp : a.shape = [n, k, C', ph, pw]) (centres : List Pt)
    (offset : Option OffArg) (hl : OffArg.legal offset = true) (oi : Option Nat) :
    genSetPatchesApi dflt pix (.single a) centres offset oi =
      setPatchesApi .repaired (.single a) pix centres (offOpt offset) oi dflt := by
  rw [genSetPatchesApi_eq, setPatchesApi_single_eq_core dflt pix a C H W n k C' ph pw hshape hp centres offset hl]

/-- the translated `_convert_patches_list_to_single_array` is the model's `fromPatchList` on lists of one patch shape -/
theorem genConvertPatchesList_model (dflt : α) (l : List (NDArr α)) (C h w : Nat) (hl : ∀ e ∈ l, e.shape = [C, h, w])
    (n : Nat) : genConvertPatchesList dflt l n = fromPatchList l n dflt := by
  rw [genConvertPatchesList_eq, convertPatchesList_eq_core dflt l C h w hl]

/-- the translated `Image.set_patches` on a list of patch images converts it first -/
theorem genSetPatchesApi_list_model (dflt : α) (pix : NDArr α) (l : List (NDArr α)) (C H W C' ph pw : Nat)
    (hshape : pix.shape = [C, H, W]) (hl0 : ∀ p ∈ l, p.shape = [C', ph, pw]) (centres : List Pt)
    (offset : Option OffArg) (hl : OffArg.legal offset = true) (oi : Option Nat) :
    genSetPatchesApi dflt pix (.list l) centres offset oi =
      setPatchesApi .repaired (.list l) pix centres (offOpt offset) oi dflt := by
  rw [genSetPatchesApi_eq, setPatchesApi_list_eq_core dflt pix l C H W C' ph pw hshape hl0 centres offset hl]

/-! ## Part 3 — the property theorems, about the translated definitions -/

/-- PROPERTY (crop, whole statement, about the TRANSLATED `Image.crop`): refusal with ImageBoundaryError exactly
when the floored / ceiled request leaves the image and constraining is off; otherwise the result is the block
`p + clamp(floor(min))` of the source, bit for bit, with the landmarks shifted by that minimum -/
theorem gen_crop_spec (pix : NDArr α) (C : Nat) (shape : List Nat) (mn mx : List Rat) (constrain rt : Bool)
    (zero : α) (lms : List (List Rat)) (hshape : pix.shape = C :: shape) (hwf : pix.WF)
    (hlen : mn.length = shape.length ∧ mx.length = shape.length)
    (hpos : ∀ a ∈ mkAxes shape mn mx, a.lo < a.hi) :
    (genCrop pix lms zero mn mx constrain rt = .error .boundary ↔
      (constrain = false ∧ ¬ ∀ a ∈ mkAxes shape mn mx, a.inside)) ∧
    (¬(constrain = false ∧ ¬ ∀ a ∈ mkAxes shape mn mx, a.inside) →
      ∃ out, genCrop pix lms zero mn mx constrain rt = .ok (out, cropLandmarks (mkAxes shape mn mx) lms) ∧
        out.shape = C :: (mkAxes shape mn mx).map Axis.len ∧
        ∀ c p, c < C → inRange ((mkAxes shape mn mx).map Axis.len) p = true →
          out.get? (c :: p) = pix.get? (c :: shiftIdx p (mkAxes shape mn mx)) ∧ (out.get? (c :: p)).isSome = true) := by
  rw [genCrop_model pix C shape hshape hwf]
  exact crop_spec pix C shape mn mx constrain zero lms hshape hwf hlen hpos

/-- PROPERTY (never silently altered, about the TRANSLATED `Image.crop`): whenever the translated crop returns an
image, either constraining was allowed or the floored / ceiled request lies inside the image on every axis (the
bounds used are the request itself) -/
theorem gen_crop_never_silently_altered (pix : NDArr α) (C : Nat) (shape : List Nat) (hshape : pix.shape = C :: shape)
    (hwf : pix.WF) (lms : List (List Rat)) (zero : α) (mn mx : List Rat) (constrain rt : Bool) (r : Img α)
    (h : genCrop pix lms zero mn mx constrain rt = .ok r) :
    constrain = true ∨ ∀ a ∈ mkAxes shape mn mx, a.loB = a.lo ∧ a.hiB = a.hi := by
  rw [genCrop_model pix C shape hshape hwf, crop_eq, hshape, List.tail_cons] at h
  cases hb : cropBounds .repaired shape mn mx constrain with
  | error e => rw [hb] at h; cases h
  | ok axes =>
    obtain ⟨e1, e2⟩ := crop_never_silently_altered shape mn mx constrain axes hb
    rw [e1] at e2
    exact e2

/-- PROPERTY (`crop_to_pointcloud`, whole statement, about the TRANSLATED wrapper and the TRANSLATED
`PointCloud.bounds`): refused with ImageBoundaryError exactly when the box around the points leaves the image and
constraining is off; otherwise the source block `p + clamp(floor(min - b))`, landmarks shifted -/
theorem gen_crop_to_pointcloud_spec (pix : NDArr α) (C : Nat) (shape : List Nat) (pts : List (List Rat))
    (b : Rat) (constrain rt : Bool) (zero : α) (lms : List (List Rat)) (hne : pts ≠ [])
    (hshape : pix.shape = C :: shape) (hwf : pix.WF) (hd : pcDims pts = shape.length)
    (hpos : ∀ a ∈ pcAxes shape pts b, a.lo < a.hi) :
    (genCropToPointcloud pix lms zero pts b constrain rt = .error .boundary ↔
      (constrain = false ∧ ¬ ∀ a ∈ pcAxes shape pts b, a.inside)) ∧
    (¬(constrain = false ∧ ¬ ∀ a ∈ pcAxes shape pts b, a.inside) →
      ∃ out, genCropToPointcloud pix lms zero pts b constrain rt =
          .ok (out, cropLandmarks (pcAxes shape pts b) lms) ∧
        out.shape = C :: (pcAxes shape pts b).map Axis.len ∧
        ∀ c p, c < C → inRange ((pcAxes shape pts b).map Axis.len) p = true →
          out.get? (c :: p) = pix.get? (c :: shiftIdx p (pcAxes shape pts b)) ∧ (out.get? (c :: p)).isSome = true) := by
  rw [genCropToPointcloud_model pix C shape hshape hwf]
  exact crop_to_pointcloud_spec pix C shape pts b constrain zero lms hne hshape hwf hd hpos

/-- PROPERTY (`crop_to_true_mask`, about the TRANSLATED wrapper, `bounds_true` and `true_indices`): the same
statement - refusal, shape, landmarks AND the pixel clause - for the box around the true pixels of the mask -/
theorem gen_crop_to_true_mask_spec (pix : NDArr α) (C : Nat) (shape : List Nat) (mask : NDArr Bool)
    (b : Int) (constrain rt : Bool) (zero : α) (lms : List (List Rat)) (hne : natPts (trueIndices mask) ≠ [])
    (hshape : pix.shape = C :: shape) (hwf : pix.WF) (hd : pcDims (natPts (trueIndices mask)) = shape.length)
    (hpos : ∀ a ∈ pcAxes shape (natPts (trueIndices mask)) (b : Rat), a.lo < a.hi) :
    (genCropToTrueMask pix lms zero mask b constrain rt = .error .boundary ↔
      (constrain = false ∧ ¬ ∀ a ∈ pcAxes shape (natPts (trueIndices mask)) (b : Rat), a.inside)) ∧
    (¬(constrain = false ∧ ¬ ∀ a ∈ pcAxes shape (natPts (trueIndices mask)) (b : Rat), a.inside) →
      ∃ out, genCropToTrueMask pix lms zero mask b constrain rt =
          .ok (out, cropLandmarks (pcAxes shape (natPts (trueIndices mask)) (b : Rat)) lms) ∧
        out.shape = C :: (pcAxes shape (natPts (trueIndices mask)) (b : Rat)).map Axis.len ∧
        ∀ c p, c < C → inRange ((pcAxes shape (natPts (trueIndices mask)) (b : Rat)).map Axis.len) p = true →
          out.get? (c :: p) = pix.get? (c :: shiftIdx p (pcAxes shape (natPts (trueIndices mask)) (b : Rat))) ∧
          (out.get? (c :: p)).isSome = true) := by
  rw [genCropToTrueMask_model pix C shape hshape hwf]
  exact crop_to_pointcloud_spec pix C shape (natPts (trueIndices mask)) (b : Rat) constrain zero lms hne
    hshape hwf hd hpos

theorem extractSlice_shape (pix : NDArr α) (C H W : Nat) (hshape : pix.shape = [C, H, W]) (centres : List Pt)
    (ph pw : Nat) (offsets : Option (List Pt)) (cval : α) (out : NDArr α)
    (h : extractSlice pix centres ph pw offsets cval = .ok out) :
    out.shape = [centres.length, (offsets.getD [(0, 0)]).length, C, ph, pw] := by
  unfold extractSlice at h
  simp only [hshape] at h
  split at h
  · cases h; rfl
  · cases h

/-- PROPERTY (patch shape and content, slicing path, about the TRANSLATED loops): away from rounding ties the
translated `extract_patches_with_slice` never raises, returns shape `(centres, offsets, C, ph, pw)` for every channel
count and every element is the source pixel of its window position, the fill value outside the image -/
theorem gen_slicing_patch_layout (pix : NDArr α) (C H W : Nat) (hshape : pix.shape = [C, H, W])
    (centres : List Pt) (ps : Nat × Nat) (offsets : Option (List Pt)) (cval : α)
    (hnt : ∀ i j, i < centres.length → j < (offsets.getD [(0, 0)]).length →
      NoTie ((getPt centres i).1 + halfPixel ps.1 + (getPt (offsets.getD [(0, 0)]) j).1 + -halfExt ps.1) ∧
      NoTie ((getPt centres i).2 + halfPixel ps.2 + (getPt (offsets.getD [(0, 0)]) j).2 + -halfExt ps.2)) :
    ∃ out, genExtractPatchesWithSlice pix centres ps offsets cval = .ok out ∧
      out.shape = [centres.length, (offsets.getD [(0, 0)]).length, C, ps.1, ps.2] ∧
      ∀ i j c r q, inRange [centres.length, (offsets.getD [(0, 0)]).length, C, ps.1, ps.2] [i, j, c, r, q] = true →
        out.get? [i, j, c, r, q] =
          some (pixAt pix c ((sliceLo ps.1 ps.2 (getPt centres i) (getPt (offsets.getD [(0, 0)]) j)).1 + r)
                            ((sliceLo ps.1 ps.2 (getPt centres i) (getPt (offsets.getD [(0, 0)]) j)).2 + q) cval) := by
  rw [genExtractPatchesWithSlice_model]
  exact slicing_patch_layout pix C H W hshape centres ps.1 ps.2 offsets cval hnt

/-- PROPERTY (patch shape and content, slicing path, EVERY centre, about the TRANSLATED loops): rounding ties
included, the translated `extract_patches_with_slice` never raises and returns shape `(centres, offsets, C, ph, pw)`
for every channel count; every element is the source pixel of its window position, the fill value outside -/
theorem gen_slicing_patch_layout_all (pix : NDArr α) (C H W : Nat) (hshape : pix.shape = [C, H, W])
    (centres : List Pt) (ps : Nat × Nat) (offsets : Option (List Pt)) (cval : α) :
    ∃ out, genExtractPatchesWithSlice pix centres ps offsets cval = .ok out ∧
      out.shape = [centres.length, (offsets.getD [(0, 0)]).length, C, ps.1, ps.2] ∧
      ∀ i j c r q, inRange [centres.length, (offsets.getD [(0, 0)]).length, C, ps.1, ps.2] [i, j, c, r, q] = true →
        out.get? [i, j, c, r, q] =
          some (pixAt pix c ((sliceLo ps.1 ps.2 (getPt centres i) (getPt (offsets.getD [(0, 0)]) j)).1 + r)
                            ((sliceLo ps.1 ps.2 (getPt centres i) (getPt (offsets.getD [(0, 0)]) j)).2 + q) cval) := by
  rw [genExtractPatchesWithSlice_model]
  exact slicing_patch_layout_all pix C H W hshape centres ps.1 ps.2 offsets cval

/-- PROPERTY (patch shape, sampling path, about the TRANSLATED function): for every channel count, order and mode
the translated `extract_patches_by_sampling` returns shape `(centres, offsets, C, ph, pw)` and element
`(i, j, c, r, q)` is the sample of channel `c` at `centre_i + offset_j + grid(r, q)` -/
theorem gen_sampling_patch_layout (pix : NDArr α) (C H W : Nat) (hshape : pix.shape = [C, H, W])
    (sampler : Nat → Mode → Nat → Pt → α) (order : Nat) (mode : Mode) (centres : List Pt) (ps : Nat × Nat)
    (offsets : Option (List Pt)) (cval : α) :
    ∃ out, genExtractPatchesBySampling pix centres ps offsets sampler order mode cval = .ok out ∧
      out.shape = [centres.length, (offsets.getD [(0, 0)]).length, C, ps.1, ps.2] ∧
      ∀ i j c r q, inRange [centres.length, (offsets.getD [(0, 0)]).length, C, ps.1, ps.2] [i, j, c, r, q] = true →
        out.get? [i, j, c, r, q] =
          some (sampler order mode c (samplePt ps.1 ps.2 (getPt centres i) (getPt (offsets.getD [(0, 0)]) j) r q)) := by
  rw [genExtractPatchesBySampling_model pix C H W hshape]
  exact sampling_patch_layout (sampler order mode) C ps.1 ps.2 centres offsets cval

/-- the order-0 / constant-mode sampler of the model as a sampler argument (it ignores the order and mode it is
handed: the theorems below instantiate them at `order = 0`, `mode = constant`) -/
def sampler0c (pix : NDArr α) (cval : α) : Nat → Mode → Nat → Pt → α :=
  fun _ _ c pt => sample0c pix c [pt.1, pt.2] cval

/-- PROPERTY (path equivalence, about the TRANSLATED functions): at integer centres and offsets the translated
`extract_patches_with_slice` (two nested loops of slice assignments) and the translated `extract_patches_by_sampling`
with the order-0 constant-mode sampler return the same shape and the same pixels -/
theorem gen_slice_eq_sampling_at_integers (pix : NDArr α) (C H W : Nat) (hshape : pix.shape = [C, H, W])
    (cz : List (Int × Int)) (ps : Nat × Nat) (oz : Option (List (Int × Int))) (cval : α) :
    ∃ a b, genExtractPatchesWithSlice pix (cz.map toPt) ps (oz.map (List.map toPt)) cval = .ok a ∧
      genExtractPatchesBySampling pix (cz.map toPt) ps (oz.map (List.map toPt)) (sampler0c pix cval) 0 Mode.constant cval
        = .ok b ∧
      a.shape = b.shape ∧ a.shape = [cz.length, (offsZ oz).length, C, ps.1, ps.2] ∧
      ∀ i j c r q, inRange a.shape [i, j, c, r, q] = true → a.get? [i, j, c, r, q] = b.get? [i, j, c, r, q] := by
  rw [genExtractPatchesWithSlice_model, genExtractPatchesBySampling_model pix C H W hshape]
  have h := slice_eq_sampling_at_integers pix C H W hshape cz ps.1 ps.2 oz cval
  simp only [extractSampling0c, hshape] at h
  exact h

/-- PROPERTY (fill, about the TRANSLATED functions): at integer centres and offsets every patch pixel whose source
location lies outside the image is the fill value, on both translated paths -/
theorem gen_outside_is_fill (pix : NDArr α) (C H W : Nat) (hshape : pix.shape = [C, H, W])
    (cz : List (Int × Int)) (ps : Nat × Nat) (oz : Option (List (Int × Int))) (cval : α) :
    ∃ a b, genExtractPatchesWithSlice pix (cz.map toPt) ps (oz.map (List.map toPt)) cval = .ok a ∧
      genExtractPatchesBySampling pix (cz.map toPt) ps (oz.map (List.map toPt)) (sampler0c pix cval) 0 Mode.constant cval
        = .ok b ∧
      ∀ i j c r q, inRange [cz.length, (offsZ oz).length, C, ps.1, ps.2] [i, j, c, r, q] = true →
        (let w := winLo ps.1 ps.2 (cz.getD i (0, 0)) ((offsZ oz).getD j (0, 0))
         w.1 + r < 0 ∨ (H : Int) ≤ w.1 + r ∨ w.2 + q < 0 ∨ (W : Int) ≤ w.2 + q) →
        a.get? [i, j, c, r, q] = some cval ∧ b.get? [i, j, c, r, q] = some cval := by
  rw [genExtractPatchesWithSlice_model, genExtractPatchesBySampling_model pix C H W hshape]
  have h := outside_is_fill pix C H W hshape cz ps.1 ps.2 oz cval
  simp only [extractSampling0c, hshape] at h
  exact h

/-- PROPERTY (round trip, about the TRANSLATED loops): patches extracted by the translated
`extract_patches_with_slice` at integer centres whose windows lie inside the image and written back by the
translated `set_patches` at the same centres with the same offset restore the image, pixel for pixel -/
theorem gen_set_extract_roundtrip (pix : NDArr α) (C H W : Nat) (hshape : pix.shape = [C, H, W])
    (hwf : pix.WF) (cz : List (Int × Int)) (ps : Nat × Nat) (oz : List (Int × Int)) (oi : Nat) (hoi : oi < oz.length)
    (cval : α) (hint : ∀ c ∈ cz, Interior H W ps.1 ps.2 c (oz.getD oi (0, 0))) :
    ∃ patches, genExtractPatchesWithSlice pix (cz.map toPt) ps (some (oz.map toPt)) cval = .ok patches ∧
      ∃ out, genSetPatches cval patches (.ok pix) (cz.map toPt) (oz.getD oi (0, 0)) oi = .ok out ∧
        out.shape = pix.shape ∧ ∀ idx, inRange pix.shape idx = true → out.get? idx = pix.get? idx := by
  obtain ⟨patches, h1, out, h2, h3, h4⟩ :=
    set_extract_roundtrip .repaired pix C H W hshape hwf cz ps.1 ps.2 oz oi hoi cval hint
  refine ⟨patches, by rw [genExtractPatchesWithSlice_model]; exact h1, out, ?_, h3, h4⟩
  rw [genSetPatches_model cval patches pix _ _ _ _ _
    (extractSlice_shape pix C H W hshape (cz.map toPt) ps.1 ps.2 (some (oz.map toPt)) cval patches h1)]
  exact h2

/-- PROPERTY (patch shape through the TRANSLATED public entry point): for every channel count, interpolation order
and boundary mode the translated `Image.extract_patches` returns one array of shape `(centres, offsets, C, ph, pw)`
(on the slicing path: centres away from rounding ties) -/
theorem gen_extractPatches_shape (sampler : Nat → Mode → Nat → Pt → α) (pix : NDArr α)
    (C H W : Nat) (hshape : pix.shape = [C, H, W])
    (centres : List Pt) (ps : Nat × Nat) (offsets : Option (List Pt)) (order : Nat) (mode : Mode) (cval : α)
    (hnt : (order = 0 ∧ mode = .constant) → ∀ i j, i < centres.length → j < (offsets.getD [(0, 0)]).length →
      NoTie ((getPt centres i).1 + halfPixel ps.1 + (getPt (offsets.getD [(0, 0)]) j).1 + -halfExt ps.1) ∧
      NoTie ((getPt centres i).2 + halfPixel ps.2 + (getPt (offsets.getD [(0, 0)]) j).2 + -halfExt ps.2)) :
    ∃ out, genExtractPatches pix sampler centres ps offsets true order mode cval = .ok (.single out) ∧
      out.shape = [centres.length, (offsets.getD [(0, 0)]).length, C, ps.1, ps.2] := by
  obtain ⟨out, h1, h2⟩ := extractPatches_shape sampler pix C H W hshape centres ps.1 ps.2 offsets order mode cval hnt
  exact ⟨out, by rw [genExtractPatches_model pix C H W hshape, h1]; rfl, h2⟩

/-- PROPERTY (patch shape through the TRANSLATED public entry point, EVERY centre): for every channel count, order,
mode and centre (rounding ties included) the translated `Image.extract_patches` returns one array of shape
`(centres, offsets, C, ph, pw)` -/
theorem gen_extractPatches_shape_all (sampler : Nat → Mode → Nat → Pt → α) (pix : NDArr α)
    (C H W : Nat) (hshape : pix.shape = [C, H, W])
    (centres : List Pt) (ps : Nat × Nat) (offsets : Option (List Pt)) (order : Nat) (mode : Mode) (cval : α) :
    ∃ out, genExtractPatches pix sampler centres ps offsets true order mode cval = .ok (.single out) ∧
      out.shape = [centres.length, (offsets.getD [(0, 0)]).length, C, ps.1, ps.2] := by
  obtain ⟨out, h1, h2⟩ := extractPatches_shape_all sampler pix C H W hshape centres ps.1 ps.2 offsets order mode cval
  exact ⟨out, by rw [genExtractPatches_model pix C H W hshape, h1]; rfl, h2⟩

/-- PROPERTY (round trip on a DAMAGED image, about the TRANSLATED loops): patches extracted by the translated
`extract_patches_with_slice` at integer centres whose windows lie inside the image and written by the translated
`set_patches` into ANY image `cur` of the same shape give `pix` on every written window and `cur` elsewhere - a
`set_patches` that wrote nothing, or elsewhere, does not satisfy this -/
theorem gen_set_extract_restores_damaged (pix cur : NDArr α) (C H W : Nat) (hshape : pix.shape = [C, H, W])
    (hwf : pix.WF) (hcs : cur.shape = [C, H, W]) (hcw : cur.WF) (cz : List (Int × Int)) (ps : Nat × Nat)
    (oz : List (Int × Int)) (oi : Nat) (hoi : oi < oz.length) (cval : α)
    (hint : ∀ c ∈ cz, Interior H W ps.1 ps.2 c (oz.getD oi (0, 0))) :
    ∃ patches, genExtractPatchesWithSlice pix (cz.map toPt) ps (some (oz.map toPt)) cval = .ok patches ∧
      ∃ out, genSetPatches cval patches (.ok cur) (cz.map toPt) (oz.getD oi (0, 0)) oi = .ok out ∧
        out.shape = [C, H, W] ∧
        ∀ c r q, c < C → r < H → q < W →
          out.get? [c, r, q] =
            if cz.any (fun z => inWin ps.1 ps.2 (winLo ps.1 ps.2 z (oz.getD oi (0, 0))) r q) then pix.get? [c, r, q]
            else cur.get? [c, r, q] := by
  obtain ⟨patches, h1, out, h2, h3, h4⟩ :=
    set_extract_restores_damaged .repaired pix cur C H W hshape hwf hcs hcw cz ps.1 ps.2 oz oi hoi cval hint
  refine ⟨patches, by rw [genExtractPatchesWithSlice_model]; exact h1, out, ?_, h3, h4⟩
  rw [genSetPatches_model cval patches cur _ _ _ _ _
    (extractSlice_shape pix C H W hshape (cz.map toPt) ps.1 ps.2 (some (oz.map toPt)) cval patches h1)]
  exact h2

/-- PROPERTY (round trip through the TRANSLATED public entry points and their defaults): patches taken by the
translated `extract_patches_around_landmarks()` at integer landmarks whose windows lie inside the image - as one
array or as a list of patch images - and handed to the translated `set_patches_around_landmarks()` with
`offset=None, offset_index=None` restore the image -/
theorem gen_landmarks_roundtrip_api (pix : NDArr α) (C H W : Nat) (hshape : pix.shape = [C, H, W])
    (hwf : pix.WF) (sampler : Nat → Mode → Nat → Pt → α) (cz : List (Int × Int)) (hne : 0 < cz.length) (ps : Nat × Nat)
    (zero : α) (hint : ∀ c ∈ cz, Interior H W ps.1 ps.2 c (0, 0)) :
    ∃ patches, genExtractPatchesAroundLandmarks pix sampler (cz.map toPt) zero ps none true = .ok (.single patches) ∧
      genExtractPatchesAroundLandmarks pix sampler (cz.map toPt) zero ps none false =
        .ok (.list (toPatchList patches zero)) ∧
      ∃ out, genSetPatchesAroundLandmarks zero pix (cz.map toPt) (.single patches) none none = .ok out ∧
        genSetPatchesAroundLandmarks zero pix (cz.map toPt) (.list (toPatchList patches zero)) none none = .ok out ∧
        out.shape = pix.shape ∧ ∀ idx, inRange pix.shape idx = true → out.get? idx = pix.get? idx := by
  obtain ⟨patches, h1, out, h2, h3, h4, h5⟩ :=
    landmarks_roundtrip_api .repaired pix C H W hshape hwf cz hne ps.1 ps.2 zero hint
  have hs := extractSlice_shape pix C H W hshape (cz.map toPt) ps.1 ps.2 none zero patches h1
  refine ⟨patches, ?_, ?_, out, ?_, ?_, h4, h5⟩
  · rw [genExtractPatchesAroundLandmarks_model pix C H W hshape, h1]; rfl
  · rw [genExtractPatchesAroundLandmarks_model pix C H W hshape, h1]; rfl
  · rw [genSetPatchesAroundLandmarks_eq]
    unfold Src.setPatchesAroundLandmarks
    rw [setPatchesApi_single_eq_core zero pix patches C H W _ _ _ _ _ hshape hs _ none rfl]
    exact h2
  · rw [genSetPatchesAroundLandmarks_eq]
    unfold Src.setPatchesAroundLandmarks
    have hl0 : ∀ p ∈ toPatchList patches zero, p.shape = [C, ps.1, ps.2] := by
      intro p hp
      unfold toPatchList at hp
      simp only [hs, List.take_succ_cons, List.take_zero, List.mem_map] at hp
      obtain ⟨ij, _, rfl⟩ := hp
      simp [patchAt, ofFn, hs]
    rw [setPatchesApi_list_eq_core zero pix _ C H W C ps.1 ps.2 hshape hl0 _ none rfl]
    exact h3

/-! ## non-vacuity / concrete values: the translated definitions are executable (kernel evaluation) and give the
values of the real code on the 2 x 6 x 7 example image (`exImg`, pixel `(c, r, q) = 42 c + 7 r + q`).  These too are
re-checked against the text regenerated from /repo. -/

example : exImg.WF ∧ exImg.shape = [2, 6, 7] := ⟨ofFn_WF _ _, rfl⟩
-- a fractional in-bounds crop: rows floor(3/2)..ceil(3), columns floor(1)..ceil(9/2); landmark (2, 3) -> (1, 2)
example : ((genCrop exImg [[2, 3]] 0 [3/2, 1] [3, 9/2] false false).toOption.map fun r => (r.1.shape, r.1.data, r.2)) =
    some ([2, 2, 4], [8, 9, 10, 11, 15, 16, 17, 18, 50, 51, 52, 53, 57, 58, 59, 60], [[1, 2]]) := by decide +kernel
-- a request leaving the image at the top only: refused, clipped when constraining is allowed
example : genCrop exImg [] 0 [-2, 1] [3, 4] false false = .error .boundary := by decide +kernel
example : ((genCrop exImg [] 0 [-2, 1] [3, 4] true false).toOption.map fun r => r.1.shape) = some [2, 3, 3] := by
  decide +kernel
example : genConstrainPointsToBounds exImg [-2, 9] = [0, 7] := by decide +kernel
example : genCenteredPatch (3, 2) = .ok [(-1, -1), (-1, 0), (0, -1), (0, 0), (1, -1), (1, 0)] := by decide +kernel
-- the nested loops of the slicing path: one interior centre, one at the corner (outside pixels take the fill -1)
example : ((genExtractPatchesWithSlice exImg [(2, 3), (0, 0)] (3, 2) none (-1)).toOption.map fun p => (p.shape, p.data)) =
    some ([2, 1, 2, 3, 2], [9, 10, 16, 17, 23, 24, 51, 52, 58, 59, 65, 66,
                            -1, -1, -1, 0, -1, 7, -1, -1, -1, 42, -1, 49]) := by decide +kernel
-- a half-integer centre with an odd extent (rounding tie): a full window, as the sampling path of order 1 gives
example : ((genExtractPatchesWithSlice exImg [(5/2, 3)] (3, 2) none 0).toOption.map fun p => (p.shape, p.data)) =
    some ([1, 1, 2, 3, 2], [16, 17, 23, 24, 30, 31, 58, 59, 65, 66, 72, 73]) := by decide +kernel
example : genExtractPatchesWithSlice exImg [(2, 3), (0, 0)] (3, 2) none (-1) =
    genExtractPatchesBySampling exImg [(2, 3), (0, 0)] (3, 2) none (sampler0c exImg (-1)) 0 Mode.constant (-1) := by
  decide +kernel
-- extract, then write back with the translated loop of set_patches: the image is restored
example : ((genExtractPatchesWithSlice exImg [(2, 3)] (3, 2) none 0).bind fun p =>
    genSetPatches 0 p (.ok exImg) [(2, 3)] (0, 0) 0) = .ok exImg := by decide +kernel
-- the list format and its conversion back (running index over two centres)
example : ((genExtractPatchesWithSlice exImg [(2, 3), (3, 3)] (3, 2) none 0).bind fun p =>
    (genConvertPatchesList 0 (toPatchList p 0) 2).map fun q => decide (q = p)) = .ok true := by decide +kernel
example : genConvertPatchesList (0 : Int) [] 2 = .error .index ∧ genConvertPatchesList (0 : Int) [] 0 = .error .zerodiv := by
  decide +kernel

end MenpoModel.C13.GenProps
