/-
C08 — obligations over the regenerated table `Generated.C08.rwTable` (rewritten on every run from live objects of
every alignment class and option combination: which instance attributes `set_target` reads before it (re)binds
them, which it changes, which it changes in place).

`rwTable_ok`: on every row the measured reads / writes (right-hand-side scratch apart) / in-place writes are exactly
the model's `readsOf` / `writesOf` / `inPlaceOf`, every attribute that is read or written is known to the model,
nothing marked construction-time-only is touched, and the only attributes both read and written are the target (whose
old value is only verified against) and the partially overwritten matrix of an in-place class.  With
`sync_reads_only`, `sync_writes_only` (the model's re-fit reads / writes exactly these sets) and
`retarget_state_function` (what follows from that alone) this ties "menpo's re-fit is a function of (options, source,
target) only" to ONE traced execution per class and option combination of the current code (instance attributes of the
alignment object only): an attribute that survives from construction or from an earlier target and is read by the re-fit
on that path breaks this obligation before any behaviour is sampled; other paths and state outside the instance
dictionary are left to the fresh-construction oracle.
-/
import MenpoModel.Props.C08
import MenpoModel.Generated.C08RW

namespace MenpoModel.GenProps.C08
open MenpoModel.C08

theorem rwTable_ok : MenpoModel.Generated.C08.rwTable.all RWRow.ok = true := by decide

/-- every model class is measured … -/
theorem rwTable_covers :
    ([Cls.affine, .similarity, .rotation, .translation, .uniformScale, .tps, .pwa].all fun c =>
      MenpoModel.Generated.C08.rwTable.any fun r => r.cls == c) = true := by decide

/-- … in every option combination: rotation on/off × mirroring on/off (× 2-D, 3-D), mirroring on/off,
three kernels × three singular-value floors, the three piecewise-affine constructions -/
theorem rwTable_options :
    ([(Cls.affine, 2), (.similarity, 8), (.rotation, 4), (.translation, 2), (.uniformScale, 2), (.tps, 9), (.pwa, 3)].all
      fun p => (MenpoModel.Generated.C08.rwTable.filter fun r => r.cls == p.1).length == p.2) = true := by decide

/-- the method resolution of the live classes is the one `vEdit` / `hEdit` / `hCopy` / `setTarget` transcribe -/
theorem dispatch_ok : MenpoModel.Generated.C08.dispatchTable.all Dispatch.ok = true := by decide

/-- on live objects of every class the copy owns its matrix (the in-place re-fits of rotation / translation / uniform
scale must not reach the original): what `hCopy` transcribes and what `genCopy_eq` cannot see at value level -/
theorem copyTable_ok : MenpoModel.Generated.C08.copyTable.all CopyRow.ok = true := by decide

theorem copyTable_covers :
    ([Cls.affine, .similarity, .rotation, .translation, .uniformScale, .tps, .pwa].all fun c =>
      MenpoModel.Generated.C08.copyTable.any fun r => r.cls == c) = true := by decide

theorem dispatch_covers :
    ([Cls.affine, .similarity, .rotation, .translation, .uniformScale, .tps, .pwa].all fun c =>
      MenpoModel.Generated.C08.dispatchTable.any fun r => r.cls == c) = true := by decide

end MenpoModel.GenProps.C08
