/-
C07 — obligations over the TRANSLATED piecewise-affine source (`Generated/C07Src.lean`, harness/trans_c07.py):

  genAlphaBeta                 = `alphaBeta` (the barycentric formulas: which dot product multiplies which)
  genContainment               = the LAST triangle whose `(alpha, beta)` pass `alpha >= 0, beta >= 0, alpha + beta <= 1`
                                 (`none` = TriangleContainmentError)
  genIndexAlphaBeta            = `pwaIndexAB`: that triangle's index with its own `alpha`, `beta`
  genBarycentricVectors        = first corner, second − first, third − first of every triangle
  genPwaRebuildTargetVectors   = the same three lists for the target points
  genPwaInit / genPythonPwaInit = a point-cloud source is triangulated (`delaunay`, contract parameter), a mesh source
                                 keeps ITS OWN triangle list (the `isinstance(source, TriMesh)` test)
  genPwaApply                  = `pwaApply` — the model the theorems `pwa_*` are about — on the object the constructor builds
-/
import MenpoModel.Generated.C07Src
import MenpoModel.Props.C07
import MenpoModel.GenProps.C07Src

set_option linter.unusedSimpArgs false
set_option linter.unusedVariables false

namespace MenpoModel.GenProps.C07Src
open MenpoModel.C07 MenpoModel.Generated.C07

theorem genAlphaBeta_eq (i ij ik p : V2) : genAlphaBeta i ij ik p = alphaBeta i ij ik p := rfl

/-! ### `containment_from_alpha_beta` for one point -/

theorem nonzeroL_nil_of_not_any (bs : List Bool) (h : bs.any id = false) : nonzeroL bs = [] := by
  simp only [nonzeroL, List.filter_eq_nil_iff, List.mem_range]
  intro k hk
  have : bs[k] = false := by
    have := List.any_eq_false.1 h bs[k] (List.getElem_mem hk)
    simpa using this
  simp [List.getD_eq_getElem?_getD, List.getElem?_eq_getElem hk, this]

theorem nonzeroL_ne_nil_of_any (bs : List Bool) (h : bs.any id = true) : nonzeroL bs ≠ [] := by
  obtain ⟨b, hb, hbt⟩ := List.any_eq_true.1 h
  obtain ⟨k, hk, rfl⟩ := List.getElem_of_mem hb
  intro hnil
  have hmem : k ∈ nonzeroL bs := by
    simp only [nonzeroL, List.mem_filter, List.mem_range]
    refine ⟨hk, ?_⟩
    simp only [id] at hbt
    simp [List.getD_eq_getElem?_getD, List.getElem?_eq_getElem hk, hbt]
  rw [hnil] at hmem
  exact absurd hmem (by simp)

theorem genContainment_eq (alpha beta : List ℚ) :
    genContainment alpha beta =
      (nonzeroL (andL (andL (geZero alpha) (geZero beta)) (sumLeOne alpha beta))).getLast? := by
  simp only [genContainment]
  generalize andL (andL (geZero alpha) (geZero beta)) (sumLeOne alpha beta) = bs
  by_cases h : bs.any id = true
  · simp only [h, Bool.not_true, Bool.false_eq_true, if_false, lastWriteOr]
    have hne := nonzeroL_ne_nil_of_any bs h
    rw [List.getLast?_eq_some_getLast hne]
    rfl
  · have h' : bs.any id = false := by simpa using h
    simp [h', nonzeroL_nil_of_not_any bs h']

theorem containment_row (l : List (ℚ × ℚ)) :
    andL (andL (geZero (l.map Prod.fst)) (geZero (l.map Prod.snd))) (sumLeOne (l.map Prod.fst) (l.map Prod.snd)) =
      l.map containsAB := by
  induction l with
  | nil => rfl
  | cons x xs ih =>
    simp only [andL, geZero, sumLeOne, List.map_cons, List.zipWith_cons_cons] at ih ⊢
    rw [ih]
    rfl

/-! ### `index_alpha_beta` for one point -/

theorem zip3With_map {τ α β γ δ : Type} (f : α → β → γ → δ) (a : τ → α) (b : τ → β) (c : τ → γ) (l : List τ) :
    zip3With f (l.map a) (l.map b) (l.map c) = l.map fun t => f (a t) (b t) (c t) := by
  induction l with
  | nil => rfl
  | cons x xs ih => simp only [List.map_cons, zip3With, ih]

theorem unzip_map {τ α β : Type} (f : τ → α × β) (l : List τ) :
    List.unzip (l.map f) = (l.map fun t => (f t).1, l.map fun t => (f t).2) := by
  induction l with
  | nil => rfl
  | cons x xs ih => simp [List.unzip_cons, ih]

/-- the per-triangle source vectors `PythonPWA.__init__` stores -/
theorem genIndexAlphaBeta_eq (src : ℕ → V2) (tris : List Tri) (p : V2) :
    genIndexAlphaBeta (tris.map fun t => src t.1) (tris.map fun t => V2.sub (src t.2.1) (src t.1))
        (tris.map fun t => V2.sub (src t.2.2) (src t.1)) p = pwaIndexAB src tris p := by
  simp only [genIndexAlphaBeta, zip3With_map, unzip_map, genContainment_eq, genAlphaBeta_eq, pwaIndexAB, pwaTriIdx]
  have hrow : (tris.map fun t => (alphaBeta (src t.1) (V2.sub (src t.2.1) (src t.1)) (V2.sub (src t.2.2) (src t.1)) p).1) =
      (tris.map fun t => triAB src t p).map Prod.fst := by simp [triAB]
  have hrow2 : (tris.map fun t => (alphaBeta (src t.1) (V2.sub (src t.2.1) (src t.1)) (V2.sub (src t.2.2) (src t.1)) p).2) =
      (tris.map fun t => triAB src t p).map Prod.snd := by simp [triAB]
  rw [hrow, hrow2, containment_row, List.map_map]
  cases hk : (nonzeroL (List.map (containsAB ∘ fun t => triAB src t p) tris)).getLast? with
  | none =>
    have hk' : (nonzeroL (List.map (fun t => containsAB (triAB src t p)) tris)).getLast? = none := hk
    simp [hk']
  | some k =>
    have hkm : k ∈ nonzeroL (List.map (containsAB ∘ fun t => triAB src t p) tris) := List.mem_of_getLast? hk
    have hlt : k < tris.length := by
      simp only [nonzeroL, List.mem_filter, List.mem_range, List.length_map] at hkm
      exact hkm.1
    have hk' : (nonzeroL (List.map (fun t => containsAB (triAB src t p)) tris)).getLast? = some k := hk
    simp only [hk', Option.bind_some, Option.map_some, List.map_map]
    simp [List.getD_eq_getElem?_getD, List.getElem?_eq_getElem hlt, Function.comp_def]

/-! ### the last containing triangle, by index and by value -/

theorem nonzeroL_append_single (bs : List Bool) (b : Bool) :
    nonzeroL (bs ++ [b]) = nonzeroL bs ++ (if b then [bs.length] else []) := by
  simp only [nonzeroL, List.length_append, List.length_singleton, List.range_succ, List.filter_append]
  congr 1
  · apply List.filter_congr
    intro k hk
    have hk' : k < bs.length := List.mem_range.1 hk
    simp [List.getD_eq_getElem?_getD, List.getElem?_append_left hk']
  · cases b <;> simp [List.getD_eq_getElem?_getD]

theorem pwaTri_eq_idx (src : ℕ → V2) (tris : List Tri) (p : V2) :
    pwaTri src tris p = (pwaTriIdx src tris p).map fun k => tris.getD k (0, 0, 0) := by
  induction tris using List.reverseRecOn with
  | nil => rfl
  | append_singleton ts t ih =>
    simp only [pwaTri, pwaTriIdx, List.filter_append, List.map_append, List.map_cons, List.map_nil,
      nonzeroL_append_single, List.length_map] at ih ⊢
    by_cases hc : containsAB (triAB src t p) = true
    · simp [hc, List.getLast?_append, List.getD_eq_getElem?_getD]
    · have hc' : containsAB (triAB src t p) = false := by simpa using hc
      simp only [hc', List.filter_cons_of_neg, Bool.false_eq_true, not_false_eq_true, List.filter_nil, List.append_nil,
        if_false]
      rw [ih]
      cases hk : (nonzeroL (List.map (fun t => containsAB (triAB src t p)) ts)).getLast? with
      | none => rfl
      | some k =>
        have hkm := List.mem_of_getLast? hk
        have hlt : k < ts.length := by
          simp only [nonzeroL, List.mem_filter, List.mem_range, List.length_map] at hkm
          exact hkm.1
        simp [List.getD_eq_getElem?_getD, List.getElem?_append_left hlt]

/-! ### the per-triangle vectors -/

theorem genBarycentricVectors_eq (pts : ℕ → V2) (tris : List Tri) :
    genBarycentricVectors pts tris =
      (tris.map fun t => pts t.1, tris.map fun t => V2.sub (pts t.2.1) (pts t.1),
       tris.map fun t => V2.sub (pts t.2.2) (pts t.1)) := by
  simp only [genBarycentricVectors, cornerI_cornersOf, cornerJ_cornersOf, cornerK_cornersOf, np_sub_tri_vecs]

theorem genPwaTrilist_eq (a : PwaObj) : genPwaTrilist a = a.source.trilist := rfl

theorem genPwaRebuildTargetVectors_eq (a : PwaObj) :
    genPwaRebuildTargetVectors a =
      { a with ti := a.source.trilist.map fun t => a.target t.1
               tij := a.source.trilist.map fun t => V2.sub (a.target t.2.1) (a.target t.1)
               tik := a.source.trilist.map fun t => V2.sub (a.target t.2.2) (a.target t.1) } := by
  simp only [genPwaRebuildTargetVectors, genPwaTrilist_eq, cornerI_cornersOf, cornerJ_cornersOf, cornerK_cornersOf, np_sub_tri_vecs]

theorem genPwaSync_eq (a : PwaObj) : genPwaSync a = genPwaRebuildTargetVectors a := rfl

/-- the triangle list the alignment works on: the mesh's own, or the triangulation of a point cloud -/
def pwaTrisOf (delaunay : (ℕ → V2) → List Tri) : SrcShape → List Tri
  | .cloud p => delaunay p
  | .mesh m => m.trilist

/-- the source the alignment keeps: a mesh source unchanged, a point cloud as the mesh of its triangulation -/
def pwaSourceOf (delaunay : (ℕ → V2) → List Tri) : SrcShape → SrcShape
  | .cloud p => .mesh ⟨p, delaunay p⟩
  | .mesh m => .mesh m

theorem genPythonPwaInit_eq (delaunay : (ℕ → V2) → List Tri) (source : SrcShape) (tgt : ℕ → V2) :
    genPythonPwaInit delaunay PwaObj.blank source tgt =
      some (pwaObjOf (pwaSourceOf delaunay source) source.points tgt (pwaTrisOf delaunay source)) := by
  cases source with
  | cloud p =>
    simp [genPythonPwaInit, genPwaInit, SrcShape.isTriMesh, genPwaRebuildTargetVectors_eq, genBarycentricVectors_eq,
      genPwaTrilist_eq, genAlignmentInit, PwaObj.ops, PwaObj.blank, pwaObjOf, pwaSourceOf, pwaTrisOf, SrcShape.points,
      SrcShape.trilist]
  | mesh m =>
    simp [genPythonPwaInit, genPwaInit, SrcShape.isTriMesh, genPwaRebuildTargetVectors_eq, genBarycentricVectors_eq,
      genPwaTrilist_eq, genAlignmentInit, PwaObj.ops, PwaObj.blank, pwaObjOf, pwaSourceOf, pwaTrisOf, SrcShape.points,
      SrcShape.trilist]

/-- re-targeting a piecewise-affine alignment = building it on the new target -/
theorem pwa_retarget (shape : SrcShape) (src tgt₀ tgt : ℕ → V2) (tris : List Tri) (h : shape.trilist = tris) :
    retarget PwaObj.ops genPwaSync (pwaObjOf shape src tgt₀ tris) tgt = pwaObjOf shape src tgt tris := by
  subst h
  simp [retarget, genPwaSync_eq, genPwaRebuildTargetVectors_eq, PwaObj.ops, pwaObjOf]

/-! ### `_apply` -/

theorem v2_add_assoc (a b c : V2) : V2.add (V2.add a b) c = V2.add a (V2.add b c) := by
  simp [V2.add, add_assoc]

theorem genPythonPwaIndexAlphaBeta_eq (shape : SrcShape) (src tgt : ℕ → V2) (tris : List Tri) (p : V2) :
    genPythonPwaIndexAlphaBeta (pwaObjOf shape src tgt tris) p = pwaIndexAB src tris p := by
  simp only [genPythonPwaIndexAlphaBeta, pwaObjOf]
  exact genIndexAlphaBeta_eq src tris p

/-- **the translated `_apply` on the object the translated constructor builds is the model's `pwaApply`** -/
theorem genPwaApply_eq (shape : SrcShape) (src tgt : ℕ → V2) (tris : List Tri) (p : V2) :
    genPwaApply genPythonPwaIndexAlphaBeta (pwaObjOf shape src tgt tris) p = pwaApply src tgt tris p := by
  simp only [genPwaApply, genPythonPwaIndexAlphaBeta_eq, pwaApply, pwaTri_eq_idx, pwaIndexAB]
  cases hk : pwaTriIdx src tris p with
  | none => rfl
  | some k =>
    have hkm := List.mem_of_getLast? hk
    have hlt : k < tris.length := by
      simp only [nonzeroL, List.mem_filter, List.mem_range, List.length_map] at hkm
      exact hkm.1
    simp only [Option.map_some, Option.bind_some, pwaObjOf, triMap, v2_add_assoc]
    simp [List.getD_eq_getElem?_getD, List.getElem?_eq_getElem hlt]

/-- `pseudoinverse()`: the alignment from the target points (on the SAME triangle list) back to the source points -/
theorem genPwaPinv_eq (delaunay : (ℕ → V2) → List Tri) (shape : SrcShape) (src tgt : ℕ → V2) (tris : List Tri)
    (hp : shape.points = src) (ht : shape.trilist = tris) :
    genPwaPinv delaunay (pwaObjOf shape src tgt tris) = some (pwaObjOf (.mesh ⟨tgt, tris⟩) tgt src tris) := by
  subst hp ht
  simp only [genPwaPinv, genPythonPwaInit_eq, pwaObjOf, pwaSourceOf, pwaTrisOf, SrcShape.points, SrcShape.trilist]

end MenpoModel.GenProps.C07Src
