/- INFORMATIONAL (not an obligation of the check): the measured effects table is exactly the one the model's
   per-supplier tables predict.  When this file stops building while GenProps/C05.lean still builds, the code
   shares / rebinds / writes its arrays differently from the model but still within what the heap theorems
   need (effects_sound, effects_pure): reported in the evidence as `effects_table_drift`, no alarm. -/
import MenpoModel.Generated.C05Effects

namespace MenpoModel.C05.GenProps
open MenpoModel.C05

theorem effects_ok : Generated.effects = expectedEffects := by decide

end MenpoModel.C05.GenProps
