/-
C03 — obligations over the numpy-level bodies of the homogeneous family TRANSLATED FROM THE SOURCE TEXT
(harness/trans_c03.py round 3 on top of harness/py2lean2.py; vocabulary: Core/C03Src.lean).

`Generated/C03Src.lean` is rewritten on every `./check C03` from the source text of menpo/transform/homogeneous/*.py of
the current working tree: the properties `n_dims`, `linear_component`, `translation_component`, `rotation_matrix`,
`scale`; `_set_h_matrix` of Homogeneous / Affine / AlignmentAffine with `copy` and `skip_checks` as variables;
`set_rotation_matrix` of Rotation / AlignmentRotation; `__init__` of the seven non-alignment classes; the seven
`init_identity`; `_from_vector_inplace` of the ten classes that define one; the method resolution of `__init__`,
`set_rotation_matrix`, `init_identity` and the properties; the defaults of `copy` / `skip_checks`.

The theorems below say that what the source says now IS the model the C03 theorems are about, for all arguments:

  methodTable2_ok, ctorDefaults_ok     the regenerated resolution table and the defaults
  ctorMat_src                          Homogeneous(M, …) / Affine(M, …) / Similarity(M, …) / cls(M, …)  = ctorMat
  ctorRotation_src                     Rotation(R, skip)                                                 = ctorRotation
  ctorTranslation_src, ctorUniformScale_src, ctorNonUniformScale_src                                     = ctor…
  identityOf_src                       C.init_identity(d) for each of the twelve classes C              = identityOf
  fromVec_src                          _from_vector_inplace of each of the twelve classes, by method resolution
                                                                                                         = fromVec
  famFromVec_src                       the word `famFromVec` of the translated Homogeneous.from_vector   = the above
  genNDims_src, genLinearComponent_src, genTranslationComponent_src, genUScale_src, genNUScale_src
                                       the properties = d / lin / trans / M 0 0 / the diagonal
  anaCtor_src                          as_non_alignment through the translated constructors and properties = anaCtor
  genInplaceT_eq                       Homogeneous._compose_*_inplace on typed matrices (dtype promoted, stored as is)
                                                                                                         = rawComposeT

The proofs split on what the MODEL distinguishes (length of the vector, dimension 2 / 3 / other, the Boolean options,
the class) and compare matrices entry by entry after evaluating the array program (`simp` over the numpy words), so a
harmless rewrite of the Python (renamed temporaries, re-ordered independent assignments, an inverted test with swapped
arms, keyword arguments in another order) keeps them, while a changed decision (a dropped check, another index, a
swapped argument, another length) breaks them.
-/
import MenpoModel.Generated.C03Src
import MenpoModel.Core.C03Ctor
import MenpoModel.GenProps.C03Entry
set_option linter.unusedSimpArgs false
namespace MenpoModel.GenProps.C03
open MenpoModel.C03 MenpoModel.C03.Src MenpoModel.Generated.C03
variable {d : Nat}

def T2 : MethodTable2 := expectedMethodTable2

theorem methodTable2_ok : methodTable2 = expectedMethodTable2 := by decide

/-- the defaults of `copy` / `skip_checks` the constructor rules of the translation rely on -/
theorem ctorDefaults_ok : ctorDefaults.all (fun r => r.2.1 == true && r.2.2 == false) = true := by decide

/-- a square array -/
abbrev sq (n : Nat) (e : Nat → Nat → Rat) : Arr2 := ⟨n, n, e⟩

@[simp] theorem set_r (a : Arr2) (i j : Int) (v : Rat) : (a.set i j v).r = a.r := rfl
@[simp] theorem set_c (a : Arr2) (i j : Int) (v : Rat) : (a.set i j v).c = a.c := rfl
@[simp] theorem eye_r (n : Int) : (Arr2.eye n).r = n.toNat := rfl
@[simp] theorem eye_c (n : Int) : (Arr2.eye n).c = n.toNat := rfl
@[simp] theorem fill_r {α : Type} [FillVal α] (a : Arr2) (v : α) : (a.fillDiagonal v).r = a.r := rfl
@[simp] theorem fill_c {α : Type} [FillVal α] (a : Arr2) (v : α) : (a.fillDiagonal v).c = a.c := rfl

theorem ofMat_sq {n : Nat} (M : Mat n) :
    Arr2.ofMat M = sq n (fun i j => if h : i < n ∧ j < n then M ⟨i, h.1⟩ ⟨j, h.2⟩ else 0) := rfl

@[simp] theorem pyShape_sq (n : Nat) (e) : pyShape (sq n e) = [(n : Int), (n : Int)] := rfl
@[simp] theorem pyLen_two (a b : Int) : pyLen [a, b] = 2 := rfl
@[simp] theorem pyItem_two0 (a b : Int) : pyItem [a, b] 0 = a := rfl
@[simp] theorem pyItem_two1 (a b : Int) : pyItem [a, b] 1 = b := rfl

theorem pyIn_23 (d : Nat) : pyIn (d : Int) [2, 3] = (d == 2 || d == 3) := by
  by_cases h2 : d = 2
  · subst h2; rfl
  · by_cases h3 : d = 3
    · subst h3; rfl
    · have e2 : ((d : Int) == 2) = false := by simp; omega
      have e3 : ((d : Int) == 3) = false := by simp; omega
      simp [pyIn, List.contains, List.elem, e2, e3, h2, h3]

theorem pyIn_23' (d : Nat) : pyIn (((d + 1 : Nat) : Int) - 1) [2, 3] = (d == 2 || d == 3) := by
  have : (((d + 1 : Nat) : Int) - 1) = (d : Int) := by omega
  rw [this, pyIn_23]

theorem all_range_map (n : Nat) (f : Nat → Rat) (p : Rat → Bool) :
    ((List.range n).map f).all p = (List.finRange n).all fun j => p (f j.val) := by
  rw [Bool.eq_iff_iff]
  simp only [List.all_eq_true, List.mem_map, List.mem_range]
  constructor
  · intro h j _; exact h _ ⟨j.val, j.isLt, rfl⟩
  · rintro h _ ⟨j, hj, rfl⟩; exact h ⟨j, hj⟩ (List.mem_finRange _)

theorem normIdx_neg1 (n : Nat) : normIdx (n + 1) (-1) = n := by simp [normIdx]; omega

/-- the two halves of the bottom-row check (the source may test them together, one after the other, or negated) -/
def rowClose (M : Mat (d + 1)) : Bool := (List.finRange d).all fun j => closeTo (M (Fin.last d) j.castSucc) 0
def cornerClose (M : Mat (d + 1)) : Bool := closeTo (M (Fin.last d) (Fin.last d)) 1

theorem bottomClose_eq (M : Mat (d + 1)) : bottomClose M = (rowClose M && cornerClose M) := rfl

theorem rowClose_sq (e : Nat → Nat → Rat) :
    npAllclose (Arr2.lastRowInit (sq (d + 1) e)) 0 = rowClose ((sq (d + 1) e).toMat (d + 1)) := by
  unfold rowClose npAllclose
  show ((List.range d).map fun j => e d j).all _ = _
  rw [all_range_map]; rfl

theorem cornerClose_sq (e : Nat → Nat → Rat) :
    npAllclose (Arr2.at (sq (d + 1) e) (-1) (-1)) 1 = cornerClose ((sq (d + 1) e).toMat (d + 1)) := by
  unfold cornerClose npAllclose
  show closeTo (e (normIdx (d + 1) (-1)) (normIdx (d + 1) (-1))) 1 = _
  rw [normIdx_neg1]; rfl

theorem bottom_sq (e : Nat → Nat → Rat) :
    (npAllclose (Arr2.lastRowInit (sq (d + 1) e)) 0 && npAllclose (Arr2.at (sq (d + 1) e) (-1) (-1)) 1)
      = bottomClose ((sq (d + 1) e).toMat (d + 1)) := by
  rw [rowClose_sq, cornerClose_sq, bottomClose_eq]

theorem exc_bind_pure' {ε α} (x : Except ε α) : (x.bind fun r => .ok r) = x := by cases x <;> rfl

/-- `Affine._set_h_matrix` on an object that has no matrix yet -/
theorem genSetHFull_Affine_fresh (c : HCls) (e : Nat → Nat → Rat) (copy skip : Bool) :
    genSetHFull_Affine MT T2 ⟨c, none⟩ (sq (d + 1) e) copy skip =
      if skip || affineChecks ((sq (d + 1) e).toMat (d + 1)) then .ok ⟨c, some (sq (d + 1) e)⟩ else .error .shape := by
  unfold genSetHFull_Affine affineChecks
  rw [bottomClose_eq]
  cases skip <;> cases copy <;>
    simp [pyIn_23, pyIn_23', rowClose_sq, cornerClose_sq, DObj.setH] <;>
    (cases rowClose ((sq (d + 1) e).toMat (d + 1)) <;> cases cornerClose ((sq (d + 1) e).toMat (d + 1)) <;>
      (repeat' split) <;> simp_all)

/-- what every `_set_h_matrix` does to an object that has no matrix yet -/
def setSpec (c : HCls) (a : Arr2) (skip : Bool) : Except Err DObj :=
  if c == .Homogeneous || skip || affineChecks (a.toMat (d + 1)) then .ok ⟨c, some a⟩ else .error .shape

theorem sup_setH (c : HCls) :
    callMeth MT ._set_h_matrix (.fam c) (setHFullBodies MT T2) =
      some (match c with
        | .Homogeneous => genSetHFull_Homogeneous MT T2
        | .AlignmentAffine => genSetHFull_AlignmentAffine MT T2
        | _ => genSetHFull_Affine MT T2) := by
  cases c <;> rfl

theorem genSetHFull_Homogeneous_eq (o : DObj) (a : Arr2) (copy skip : Bool) :
    genSetHFull_Homogeneous MT T2 o a copy skip = .ok ⟨o.cls, some a⟩ := by
  unfold genSetHFull_Homogeneous; cases copy <;> rfl

theorem callSetH_fresh (c : HCls) (e : Nat → Nat → Rat) (copy skip : Bool) :
    callSetH MT (setHFullBodies MT T2) ⟨c, none⟩ (sq (d + 1) e) copy skip = setSpec (d := d) c (sq (d + 1) e) skip := by
  unfold callSetH setSpec
  rw [sup_setH]
  cases c <;>
    simp [genSetHFull_Homogeneous_eq, genSetHFull_AlignmentAffine, genSetHFull_Affine_fresh, exc_bind_pure']

theorem genInit_mat (c : HCls) (h : Option Arr2) (e : Nat → Nat → Rat) (copy skip : Bool) :
    genInit_Homogeneous MT T2 ⟨c, h⟩ (sq (d + 1) e) copy skip = setSpec (d := d) c (sq (d + 1) e) skip ∧
    genInit_Affine MT T2 ⟨c, h⟩ (sq (d + 1) e) copy skip = setSpec (d := d) c (sq (d + 1) e) skip ∧
    genInit_Similarity MT T2 ⟨c, h⟩ (sq (d + 1) e) copy skip = setSpec (d := d) c (sq (d + 1) e) skip := by
  have h1 : genInit_Homogeneous MT T2 ⟨c, h⟩ (sq (d + 1) e) copy skip = setSpec (d := d) c (sq (d + 1) e) skip := by
    simp [genInit_Homogeneous, DObj.clearH, callSetH_fresh, exc_bind_pure']
  have h2 : genInit_Affine MT T2 ⟨c, h⟩ (sq (d + 1) e) copy skip = setSpec (d := d) c (sq (d + 1) e) skip := by
    simp [genInit_Affine, h1, exc_bind_pure']
  exact ⟨h1, h2, by simp [genInit_Similarity, h2, exc_bind_pure']⟩

theorem asHT_sq (c : HCls) (e : Nat → Nat → Rat) :
    DObj.asHT d ⟨c, some (sq (d + 1) e)⟩ = .ok ⟨c, (sq (d + 1) e).toMat (d + 1)⟩ := by
  simp [DObj.asHT]

theorem setSpec_asHT (c : HCls) (e : Nat → Nat → Rat) (skip : Bool) :
    (setSpec (d := d) c (sq (d + 1) e) skip).bind (DObj.asHT d) =
      if c == .Homogeneous || skip || affineChecks ((sq (d + 1) e).toMat (d + 1)) then
        .ok ⟨c, (sq (d + 1) e).toMat (d + 1)⟩ else .error .shape := by
  unfold setSpec
  split
  · exact asHT_sq c e
  · rfl

theorem sup_initMat (c : HCls) :
    callMeth2 T2 .init c (initMatBodies MT T2) =
      (match c with
        | .Homogeneous => some (genInit_Homogeneous MT T2)
        | .Affine => some (genInit_Affine MT T2)
        | .Similarity => some (genInit_Similarity MT T2)
        | _ => none) := by
  cases c <;> rfl

theorem ctorMat_sq (c : HCls) (e : Nat → Nat → Rat) (copy skip : Bool) :
    (callInitMat T2 (initMatBodies MT T2) c (sq (d + 1) e) copy skip).bind (DObj.asHT d)
      = ctorMat c ((sq (d + 1) e).toMat (d + 1)) skip := by
  unfold callInitMat
  rw [sup_initMat]
  cases c <;> simp [DObj.new, genInit_mat, setSpec_asHT, ctorMat, GenProps.C03.exc_bind_error]

/-- OBLIGATION: `Homogeneous(M, copy, skip_checks)`, `Affine(…)`, `Similarity(…)` — and `cls(…)` for any class `cls` —
as the source says now are `ctorMat` -/
theorem ctorMat_src (c : HCls) (M : Mat (d + 1)) (copy skip : Bool) :
    (callInitMat T2 (initMatBodies MT T2) c (Arr2.ofMat M) copy skip).bind (DObj.asHT d) = ctorMat c M skip := by
  rw [ofMat_sq, ctorMat_sq]
  exact congrArg (fun M => ctorMat c M skip) (Arr2.toMat_ofMat M)

/-! ### `Rotation` -/

def eyeE : Nat → Nat → Rat := fun i j => if i = j then 1 else 0

theorem eye_succ (n : Nat) : Arr2.eye ((n : Int) + 1) = sq (n + 1) eyeE := by
  have : ((n : Int) + 1).toNat = n + 1 := by omega
  simp only [Arr2.eye, this]; rfl

theorem eye_nat (n : Nat) : Arr2.eye (n : Int) = sq n eyeE := by
  simp only [Arr2.eye, Int.toNat_natCast]; rfl

theorem sup_nDims (c : HCls) :
    callMeth2 T2 .n_dims c nDimsBodies = some (if isAlign expectedClassTable c then targetNDims else genNDims) := by
  cases c <;> rfl

theorem nDims_sq (c : HCls) (e : Nat → Nat → Rat) :
    callNDims T2 nDimsBodies ⟨c, some (sq (d + 1) e)⟩ = (d : Int) := by
  have h1 : genNDims ⟨c, some (sq (d + 1) e)⟩ = (d : Int) := by
    simp [genNDims, DObj.hm]
  have h2 : targetNDims ⟨c, some (sq (d + 1) e)⟩ = (d : Int) := by
    simp [targetNDims, DObj.hm]
  unfold callNDims
  rw [sup_nDims]
  show (if isAlign expectedClassTable c = true then targetNDims else genNDims) _ = _
  split <;> assumption

/-- the block written by `set_rotation_matrix` -/
def linBlockE (e r : Nat → Nat → Rat) : Nat → Nat → Rat :=
  fun i j => if i < d ∧ j < d then r i j else e i j

theorem setLinBlock_sq (c : HCls) (e r : Nat → Nat → Rat) :
    DObj.setLinBlock ⟨c, some (sq (d + 1) e)⟩ (sq d r) = .ok ⟨c, some (sq (d + 1) (linBlockE (d := d) e r))⟩ := by
  simp only [DObj.setLinBlock, DObj.onH, Arr2.setInitInit]
  have hc : (d = d + 1 - 1 ∨ d = 1) ∧ (d = d + 1 - 1 ∨ d = 1) := ⟨Or.inl rfl, Or.inl rfl⟩
  rw [if_pos hc]
  show Except.ok _ = Except.ok _
  congr 3
  funext i j
  simp only [linBlockE, Nat.add_sub_cancel]
  by_cases h : i < d ∧ j < d
  · simp only [h, and_self, if_true]
    by_cases h1 : d = 1
    · have hi : i = 0 := by omega
      have hj : j = 0 := by omega
      simp [h1, hi, hj]
    · simp [h1]
  · simp [h]

theorem genSetRot_sq (c : HCls) (e r : Nat → Nat → Rat) (skip : Bool) :
    genSetRot_Rotation MT T2 ⟨c, some (sq (d + 1) e)⟩ (sq d r) skip =
      .ok ⟨c, some (sq (d + 1) (linBlockE (d := d) e r))⟩ := by
  unfold genSetRot_Rotation
  cases skip <;> simp [nDims_sq, setLinBlock_sq, GenProps.C03.exc_bind_ok]

theorem sup_setRot (c : HCls) :
    callMeth2 T2 .set_rotation_matrix c (setRotBodies MT T2) =
      (match c with
        | .Rotation => some (genSetRot_Rotation MT T2)
        | .AlignmentRotation => some (genSetRot_AlignmentRotation MT T2)
        | _ => none) := by
  cases c <;> rfl

theorem linBlock_eye (r : Nat → Nat → Rat) :
    (sq (d + 1) (linBlockE (d := d) eyeE r)).toMat (d + 1) = mkAffine ((sq d r).toMat d) (zeroVec d) := by
  apply Mat.ext; intro i j
  show linBlockE (d := d) eyeE r i.val j.val = _
  simp only [linBlockE, mkAffine, zeroVec, eyeE, Arr2.toMat]
  by_cases hi : i.val < d <;> by_cases hj : j.val < d
  · simp [hi, hj]
  · have : i.val ≠ j.val := by omega
    simp [hi, hj, this]
  · have : i.val ≠ j.val := by omega
    simp [hi, hj, this]
  · have : i.val = j.val := by have := i.isLt; have := j.isLt; omega
    simp [hi, hj, this]

theorem ctorRotation_sq (c : HCls) (hc : c = .Rotation ∨ c = .AlignmentRotation) (h : Option Arr2)
    (r : Nat → Nat → Rat) (skip : Bool) :
    (genInit_Rotation MT T2 ⟨c, h⟩ (sq d r) skip).bind (DObj.asHT d)
      = .ok ⟨c, (ctorRotation ((sq d r).toMat d)).M⟩ := by
  unfold genInit_Rotation
  have hsh : (pyItem (pyShape (sq d r)) 0 + 1 : Int) = (d : Int) + 1 := rfl
  simp only [hsh, eye_succ, (genInit_mat c h eyeE false true).2.2, setSpec, Bool.or_true, Bool.true_or, if_true,
    GenProps.C03.exc_bind_ok, callSetRot, sup_setRot]
  rcases hc with rfl | rfl <;>
    simp [genSetRot_AlignmentRotation, genSetRot_sq, GenProps.C03.exc_bind_ok, asHT_sq, ctorRotation] <;>
    exact linBlock_eye r

/-- OBLIGATION: `Rotation(R, skip_checks)` as the source says now is `ctorRotation R` for every square `R` of every
size, whatever `skip_checks` — on a `Rotation` and on an `AlignmentRotation` under construction -/
theorem ctorRotation_src (c : HCls) (hc : c = .Rotation ∨ c = .AlignmentRotation) (h : Option Arr2) (R : Mat d)
    (skip : Bool) :
    (genInit_Rotation MT T2 ⟨c, h⟩ (Arr2.ofMat R) skip).bind (DObj.asHT d) = .ok ⟨c, (ctorRotation R).M⟩ := by
  rw [ofMat_sq, ctorRotation_sq c hc]
  exact congrArg (fun R => Except.ok (⟨c, (ctorRotation R).M⟩ : HT d)) (Arr2.toMat_ofMat R)

/-! ### `Translation`, `UniformScale`, `NonUniformScale` -/

theorem closeTo_00 : closeTo 0 0 = true := by decide +kernel
theorem closeTo_11 : closeTo 1 1 = true := by decide +kernel

theorem bottomClose_mkAffine (L : Mat d) (t : Vec d) : bottomClose (mkAffine L t) = true := by
  unfold bottomClose
  have h1 : ∀ j : Fin d, (mkAffine L t) (Fin.last d) j.castSucc = 0 := by
    intro j; simp [mkAffine, Fin.last]
  have h2 : (mkAffine L t) (Fin.last d) (Fin.last d) = 1 := by simp [mkAffine, Fin.last]
  simp [h1, h2, closeTo_00, closeTo_11]

theorem toList_length (t : Vec d) : t.toList.length = d := by simp [Vec.toList]

theorem toList_getD (t : Vec d) (i : Nat) (hi : i < d) : t.toList.getD i 0 = t ⟨i, hi⟩ := by
  simp [Vec.toList, List.getD, hi]

theorem gt3_lt2 (n : Nat) : (decide ((n : Int) > 3) || decide ((n : Int) < 2)) = !(n == 2 || n == 3) := by
  by_cases h2 : n = 2
  · subst h2; rfl
  · by_cases h3 : n = 3
    · subst h3; rfl
    · by_cases h : (n : Int) > 3
      · simp [h, h2, h3]
      · have : (n : Int) < 2 := by omega
        simp [h, this, h2, h3]

theorem lt2_gt3 (n : Nat) : (decide ((n : Int) < 2) || decide ((n : Int) > 3)) = !(n == 2 || n == 3) := by
  rw [Bool.or_comm]; exact gt3_lt2 n

/-- what the three discrete constructors hand to `Similarity.__init__` / `Affine.__init__`: an exactly affine matrix -/
theorem init_affine (c : HCls) (h : Option Arr2) (e : Nat → Nat → Rat) (L : Mat d) (t : Vec d) (skip : Bool)
    (he : (sq (d + 1) e).toMat (d + 1) = mkAffine L t) :
    ((genInit_Similarity MT T2 ⟨c, h⟩ (sq (d + 1) e) false skip).bind (DObj.asHT d) =
      if c == .Homogeneous || skip || (d == 2 || d == 3) then .ok ⟨c, mkAffine L t⟩ else .error .shape) ∧
    ((genInit_Affine MT T2 ⟨c, h⟩ (sq (d + 1) e) false skip).bind (DObj.asHT d) =
      if c == .Homogeneous || skip || (d == 2 || d == 3) then .ok ⟨c, mkAffine L t⟩ else .error .shape) := by
  obtain ⟨_, h2, h3⟩ := genInit_mat c h e false skip
  rw [h2, h3, setSpec_asHT, he]
  simp [affineChecks, bottomClose_mkAffine]

theorem setLastColInit_eye (t : Vec d) :
    Arr2.setLastColInit (sq (d + 1) eyeE) t.toList =
      .ok (sq (d + 1) fun i j => if i < d ∧ j = d then t.toList.getD i 0 else eyeE i j) := by
  simp [Arr2.setLastColInit, toList_length]

theorem transE_toMat (t : Vec d) :
    (sq (d + 1) fun i j => if i < d ∧ j = d then t.toList.getD i 0 else eyeE i j).toMat (d + 1)
      = mkAffine (Mat.one d) t := by
  apply Mat.ext; intro i j
  show (if i.val < d ∧ j.val = d then t.toList.getD i.val 0 else eyeE i.val j.val) = _
  simp only [mkAffine, Mat.one, eyeE]
  by_cases hi : i.val < d <;> by_cases hj : j.val < d
  · have : ¬ j.val = d := by omega
    simp [hi, hj, this, Fin.ext_iff]
  · have : j.val = d := by have := j.isLt; omega
    simp [hi, hj, this, Vec.toList]
  · have : i.val ≠ j.val := by omega
    simp [hi, hj, this]
  · have : i.val = j.val := by have := i.isLt; have := j.isLt; omega
    simp [hi, hj, this]

/-- OBLIGATION: `Translation(t, skip_checks)` as the source says now is `ctorTranslation` -/
theorem ctorTranslation_src (h : Option Arr2) (t : Vec d) (skip : Bool) :
    (genInit_Translation MT T2 ⟨.Translation, h⟩ t.toList skip).bind (DObj.asHT d) = ctorTranslation t skip := by
  unfold genInit_Translation
  have hsh : (pyItem (pyShape t.toList) 0 + 1 : Int) = (d : Int) + 1 := by
    show ((t.toList.length : Int) + 1) = _
    rw [toList_length]
  simp only [hsh, eye_succ, setLastColInit_eye, GenProps.C03.exc_bind_ok, exc_bind_pure']
  rw [(init_affine .Translation h _ (Mat.one d) t skip (transE_toMat t)).1]
  simp [ctorTranslation, Bool.or_assoc]

theorem scaleE_toMat (s : Rat) (n : Nat) :
    (Arr2.set (Arr2.fillDiagonal (sq (n + 1) eyeE) s) (-1) (-1) 1).toMat (n + 1)
      = mkAffine (scalarMat n s) (zeroVec n) := by
  apply Mat.ext; intro i j
  show (if i.val = normIdx (n + 1) (-1) ∧ j.val = normIdx (n + 1) (-1) then (1 : Rat) else
    (if i.val = j.val ∧ i.val < min (n + 1) (n + 1) then
      (match FillVal.cyc s i.val with | some x => x | none => eyeE i.val j.val) else eyeE i.val j.val)) = _
  rw [normIdx_neg1]
  simp only [mkAffine, scalarMat, zeroVec, eyeE, FillVal.cyc, Nat.min_self]
  by_cases hi : i.val < n <;> by_cases hj : j.val < n
  · have h1 : ¬ i.val = n := by omega
    simp [hi, hj, h1, Fin.ext_iff]
    split <;> simp_all
  · have : i.val ≠ j.val := by omega
    have h1 : ¬ i.val = n := by omega
    simp [hi, hj, this, h1]
  · have : i.val ≠ j.val := by omega
    have h1 : ¬ j.val = n := by omega
    simp [hi, hj, this, h1]
  · have h1 : i.val = n := by have := i.isLt; omega
    have h2 : j.val = n := by have := j.isLt; omega
    simp [hi, hj, h1, h2]

theorem set_sq (n : Nat) (e : Nat → Nat → Rat) (i j : Int) (v : Rat) :
    Arr2.set (sq n e) i j v = sq n (Arr2.set (sq n e) i j v).e := rfl
theorem fill_sq {α : Type} [FillVal α] (n : Nat) (e : Nat → Nat → Rat) (v : α) :
    Arr2.fillDiagonal (sq n e) v = sq n (Arr2.fillDiagonal (sq n e) v).e := rfl

/-- OBLIGATION: `UniformScale(s, n, skip_checks)` as the source says now is `ctorUniformScale` -/
theorem ctorUniformScale_src (h : Option Arr2) (s : Rat) (n : Nat) (skip : Bool) :
    (genInit_UniformScale MT T2 ⟨.UniformScale, h⟩ s (n : Int) skip).bind (DObj.asHT n) = ctorUniformScale s n skip := by
  unfold genInit_UniformScale
  have key : (genInit_Similarity MT T2 ⟨.UniformScale, h⟩ (Arr2.set (Arr2.fillDiagonal (sq (n + 1) eyeE) s) (-1) (-1) 1)
      false true).bind (DObj.asHT n) = .ok ⟨.UniformScale, mkAffine (scalarMat n s) (zeroVec n)⟩ :=
    (init_affine (d := n) .UniformScale h (Arr2.set (Arr2.fillDiagonal (sq (n + 1) eyeE) s) (-1) (-1) 1).e
      (scalarMat n s) (zeroVec n) true (scaleE_toMat s n)).1
  simp only [eye_succ, exc_bind_pure', gt3_lt2, lt2_gt3, key]
  cases skip <;> simp [ctorUniformScale, GenProps.C03.exc_bind_error] <;> (repeat' split) <;>
    simp_all [GenProps.C03.exc_bind_error]

theorem pySize_toList (v : Vec d) : pySize v.toList = (d : Int) := by
  show ((v.toList.length : Nat) : Int) = _
  rw [toList_length]

theorem nuscaleE_toMat (v : Vec d) :
    (Arr2.set (Arr2.fillDiagonal (sq (d + 1) eyeE) v.toList) (-1) (-1) 1).toMat (d + 1)
      = mkAffine (diagMat v) (zeroVec d) := by
  apply Mat.ext; intro i j
  show (if i.val = normIdx (d + 1) (-1) ∧ j.val = normIdx (d + 1) (-1) then (1 : Rat) else
    (if i.val = j.val ∧ i.val < min (d + 1) (d + 1) then
      (match FillVal.cyc v.toList i.val with | some x => x | none => eyeE i.val j.val) else eyeE i.val j.val)) = _
  rw [normIdx_neg1]
  simp only [mkAffine, diagMat, zeroVec, eyeE, FillVal.cyc, Nat.min_self, toList_length]
  by_cases hi : i.val < d <;> by_cases hj : j.val < d
  · have h1 : ¬ i.val = d := by omega
    have h0 : ¬ d = 0 := by omega
    by_cases hij : i.val = j.val
    · have hm : i.val % d = i.val := Nat.mod_eq_of_lt hi
      have : (⟨i.val, hi⟩ : Fin d) = ⟨j.val, hj⟩ := Fin.ext hij
      simp [hi, hj, h1, h0, hij, hm, this, Vec.toList]
      simp [← hij, hm, hi]
      intro h; exact absurd h h1
    · have : ¬ (⟨i.val, hi⟩ : Fin d) = ⟨j.val, hj⟩ := fun h => hij (Fin.mk.inj h)
      simp [hi, hj, h1, hij, this]
  · have : i.val ≠ j.val := by omega
    have h1 : ¬ i.val = d := by omega
    simp [hi, hj, this, h1]
  · have : i.val ≠ j.val := by omega
    have h1 : ¬ j.val = d := by omega
    simp [hi, hj, this, h1]
  · have h1 : i.val = d := by have := i.isLt; omega
    have h2 : j.val = d := by have := j.isLt; omega
    simp [hi, hj, h1, h2]

/-- OBLIGATION: `NonUniformScale(v, skip_checks)` as the source says now is `ctorNonUniformScale` -/
theorem ctorNonUniformScale_src (h : Option Arr2) (v : Vec d) (skip : Bool) :
    (genInit_NonUniformScale MT T2 ⟨.NonUniformScale, h⟩ v.toList skip).bind (DObj.asHT d)
      = ctorNonUniformScale v skip := by
  unfold genInit_NonUniformScale
  have key : (genInit_Affine MT T2 ⟨.NonUniformScale, h⟩
      (Arr2.set (Arr2.fillDiagonal (sq (d + 1) eyeE) v.toList) (-1) (-1) 1) false true).bind (DObj.asHT d)
        = .ok ⟨.NonUniformScale, mkAffine (diagMat v) (zeroVec d)⟩ :=
    (init_affine (d := d) .NonUniformScale h (Arr2.set (Arr2.fillDiagonal (sq (d + 1) eyeE) v.toList) (-1) (-1) 1).e
      (diagMat v) (zeroVec d) true (nuscaleE_toMat v)).2
  simp only [pySize_toList, eye_succ, exc_bind_pure', gt3_lt2, lt2_gt3, key]
  cases skip <;> simp [ctorNonUniformScale, GenProps.C03.exc_bind_error] <;> (repeat' split) <;>
    simp_all [GenProps.C03.exc_bind_error]

/-! ### `init_identity` -/

/-- `C.init_identity(n)`: the body of the class the table names, with `cls = C` -/
def entryIdentity (mt : MethodTable) (t2 : MethodTable2) (c : HCls) (n : Int) : Except Err DObj :=
  match callMeth2 t2 .init_identity c (identityBodies mt t2) with
  | some f => f c n
  | none => .error .noMethod

theorem sup_identity (c : HCls) :
    callMeth2 T2 .init_identity c (identityBodies MT T2) =
      some (match baseOf c with
        | .Homogeneous => genIdentity_Homogeneous MT T2
        | .Affine => genIdentity_Affine MT T2
        | .Similarity => genIdentity_Similarity MT T2
        | .Rotation => genIdentity_Rotation MT T2
        | .Translation => genIdentity_Translation MT T2
        | .UniformScale => genIdentity_UniformScale MT T2
        | _ => genIdentity_NonUniformScale MT T2) := by
  cases c <;> rfl

theorem ofMat_one (n : Nat) : (sq n eyeE).toMat n = Mat.one n := by
  apply Mat.ext; intro i j; simp [Arr2.toMat, eyeE, Mat.one, Fin.ext_iff]

theorem replicate_toList (x : Rat) : List.replicate d x = (⟨fun _ => x⟩ : Vec d).toList := by
  apply List.ext_getElem
  · simp [Vec.toList]
  · intro i h1 h2; simp [Vec.toList]

theorem npZeros_eq : npZeros (d : Int) = (zeroVec d).toList := by
  simp only [npZeros, Int.toNat_natCast, zeroVec]; exact replicate_toList 0

theorem npOnes_eq : npOnes (d : Int) = (⟨fun _ => 1⟩ : Vec d).toList := by
  simp only [npOnes, Int.toNat_natCast]; exact replicate_toList 1

/-- OBLIGATION: `C.init_identity(d)` as the source says now is `identityOf C d`, for each of the twelve classes -/
theorem identityOf_src (c : HCls) (d : Nat) :
    (entryIdentity MT T2 c (d : Int)).bind (DObj.asHT d) = identityOf c d := by
  unfold entryIdentity
  rw [sup_identity]
  have hM := fun c copy skip => ctorMat_sq (d := d) c eyeE copy skip
  have hR := fun skip => ctorRotation_sq (d := d) .Rotation (Or.inl rfl) none eyeE skip
  have hT := ctorTranslation_src (d := d) none (zeroVec d)
  have hU := ctorUniformScale_src none 1 d
  have hN := ctorNonUniformScale_src (d := d) none ⟨fun _ => 1⟩
  cases c <;> simp only [baseOf, identityOf, genIdentity_Homogeneous, genIdentity_Affine, genIdentity_Similarity,
    genIdentity_Rotation, genIdentity_Translation, genIdentity_UniformScale, genIdentity_NonUniformScale,
    npZeros_eq, npOnes_eq, DObj.new, hT, hU, hN, hM, hR, eye_succ, eye_nat, ofMat_one, ctorRotation] <;> rfl


/-! ### `_from_vector_inplace` -/

theorem toArray_getD (v : List Rat) (i : Nat) : v.toArray.getD i 0 = v.getD i 0 := by
  simp [Array.getD, List.getD]
  split <;> simp_all

/-- the matrix read back from a `(d+1) × (d+1)` array given entry by entry -/
theorem asHT_entries (c : HCls) (e : Nat → Nat → Rat) (M : Mat (d + 1))
    (h : ∀ (i j : Nat) (hi : i < d + 1) (hj : j < d + 1), e i j = M ⟨i, hi⟩ ⟨j, hj⟩) :
    DObj.asHT d ⟨c, some (sq (d + 1) e)⟩ = .ok ⟨c, M⟩ := by
  rw [asHT_sq]
  show Except.ok _ = Except.ok _
  congr 2
  apply Mat.ext; intro i j
  exact h i.val j.val i.isLt j.isLt

theorem asHT_setTrans (c : HCls) (e : Nat → Nat → Rat) (M : Mat (d + 1)) (w : Vec d)
    (hcol : ∀ i (hi : i < d), e i d = w ⟨i, hi⟩)
    (hrest : ∀ i j (hi : i < d + 1) (hj : j < d + 1), ¬ (i < d ∧ j = d) → e i j = M ⟨i, hi⟩ ⟨j, hj⟩) :
    DObj.asHT d ⟨c, some (sq (d + 1) e)⟩ = .ok ⟨c, setTrans M w⟩ := by
  refine asHT_entries c e _ (fun i j hi hj => ?_)
  simp only [setTrans]
  by_cases h1 : i < d <;> by_cases h2 : j < d
  · rw [hrest i j hi hj (by omega)]; simp [h1, h2]
  · have : j = d := by omega
    subst this; rw [hcol i h1]; simp [h1]
  · rw [hrest i j hi hj (by omega)]; simp [h1]
  · rw [hrest i j hi hj (by omega)]; simp [h1]

theorem asHT_setDiag (c : HCls) (e : Nat → Nat → Rat) (M : Mat (d + 1)) (w : Vec d)
    (hdiag : ∀ i (hi : i < d), e i i = w ⟨i, hi⟩) (hcorner : e d d = 1)
    (hoff : ∀ i j (hi : i < d + 1) (hj : j < d + 1), i ≠ j → e i j = M ⟨i, hi⟩ ⟨j, hj⟩) :
    DObj.asHT d ⟨c, some (sq (d + 1) e)⟩ = .ok ⟨c, setDiag M w⟩ := by
  refine asHT_entries c e _ (fun i j hi hj => ?_)
  simp only [setDiag]
  by_cases hij : i = j
  · subst hij
    by_cases h1 : i < d
    · rw [hdiag i h1]; simp [h1]
    · have : i = d := by omega
      subst this; rw [hcorner]; simp
  · have h4 : ¬ (⟨i, hi⟩ : Fin (d + 1)) = ⟨j, hj⟩ := fun h => hij (Fin.mk.inj h)
    rw [hoff i j hi hj hij]; simp [h4]

theorem exc_map_ok' {ε α β} (f : α → β) (a : α) : Except.map f (.ok a : Except ε α) = .ok (f a) := rfl
theorem exc_map_error' {ε α β} (f : α → β) (e : ε) : Except.map f (.error e : Except ε α) = .error e := rfl

/-- with `skip_checks=True` every `_set_h_matrix` just stores the array -/
theorem callSetH_skip (c : HCls) (h : Option Arr2) (a : Arr2) (copy : Bool) :
    callSetH MT (setHFullBodies MT T2) ⟨c, h⟩ a copy true = .ok ⟨c, some a⟩ := by
  unfold callSetH
  rw [sup_setH]
  have : ∀ o : DObj, genSetHFull_Affine MT T2 o a copy true = .ok ⟨o.cls, some a⟩ := by
    intro o; unfold genSetHFull_Affine; cases copy <;> simp [DObj.setH]
  cases c <;> simp [genSetHFull_Homogeneous_eq, genSetHFull_AlignmentAffine, this, GenProps.C03.exc_bind_ok]

/-- everything the in-place numpy words on an object are made of -/
macro "np_obj" "[" ls:Lean.Parser.Tactic.simpLemma,* "]" : tactic =>
  `(tactic| simp [DObj.ofHT, ofMat_sq, DObj.setTransCol, DObj.setLinBlock, DObj.fillDiag, DObj.setEntry, DObj.onH,
      Arr2.setLastColInit, fromVec, baseOf, exc_bind_pure', exc_bind_ok, exc_bind_error, exc_map_ok', exc_map_error',
      callSetH_skip, $ls,*])

/-- `Translation._from_vector_inplace` (also run by `AlignmentTranslation._from_vector_inplace`) -/
theorem fvi_Translation (c : HCls) (M : Mat (d + 1)) (v : List Rat) :
    (genFVI_Translation MT T2 (DObj.ofHT ⟨c, M⟩) v).bind (DObj.asHT d) =
      (fromVec .Translation M v).map fun M' => (⟨c, M'⟩ : HT d) := by
  unfold genFVI_Translation
  by_cases h1 : v.length = d
  · np_obj [h1]
    refine asHT_setTrans c _ M _ ?_ ?_
    · intro i hi; simp [hi, Vec.ofList, toArray_getD]
    · intro i j hi hj hn; simp [hn, hi, hj]
  · by_cases h2 : v.length = 1
    · have h1' : ¬ 1 = d := by omega
      np_obj [h2, h1']
      refine asHT_setTrans c _ M _ ?_ ?_
      · intro i hi; simp [hi]
      · intro i j hi hj hn; simp [hn, hi, hj]
    · np_obj [h1, h2]

/-- `UniformScale._from_vector_inplace` (also run by `AlignmentUniformScale._from_vector_inplace`) -/
theorem fvi_UniformScale (c : HCls) (M : Mat (d + 1)) (v : List Rat) :
    (genFVI_UniformScale MT T2 (DObj.ofHT ⟨c, M⟩) v).bind (DObj.asHT d) =
      (fromVec .UniformScale M v).map fun M' => (⟨c, M'⟩ : HT d) := by
  unfold genFVI_UniformScale
  have hs : pySize v = (v.length : Int) := rfl
  simp only [hs]
  by_cases h1 : v.length = 1
  · have i1 : (v.length : Int) = 1 := by omega
    np_obj [h1, i1]
    refine asHT_setDiag c _ M _ ?_ ?_ ?_
    · intro i hi
      have : ¬ i = d := by omega
      simp [Arr2.set, Arr2.fillDiagonal, normIdx_neg1, FillVal.cyc, h1, this, hi, Nat.lt_succ_of_lt hi, Nat.mod_one]
    · simp [Arr2.set, normIdx_neg1]
    · intro i j hi hj hij
      have : ¬ (i = d ∧ j = d) := by omega
      simp [Arr2.set, Arr2.fillDiagonal, normIdx_neg1, hij, this, hi, hj]
  · have i1 : ¬ (v.length : Int) = 1 := by omega
    np_obj [h1, i1]

/-- `NonUniformScale._from_vector_inplace` -/
theorem fvi_NonUniformScale (c : HCls) (M : Mat (d + 1)) (v : List Rat) :
    (genFVI_NonUniformScale MT T2 (DObj.ofHT ⟨c, M⟩) v).bind (DObj.asHT d) =
      (fromVec .NonUniformScale M v).map fun M' => (⟨c, M'⟩ : HT d) := by
  unfold genFVI_NonUniformScale
  by_cases h0 : v.length = 0
  · np_obj [h0]
    refine asHT_setDiag c _ M _ ?_ ?_ ?_
    · intro i hi
      have : ¬ i = d := by omega
      simp [Arr2.set, Arr2.fillDiagonal, normIdx_neg1, FillVal.cyc, h0, this, hi, Nat.lt_succ_of_lt hi]
    · simp [Arr2.set, normIdx_neg1]
    · intro i j hi hj hij
      have : ¬ (i = d ∧ j = d) := by omega
      simp [Arr2.set, Arr2.fillDiagonal, normIdx_neg1, hij, this, hi, hj]
  · np_obj [h0]
    refine asHT_setDiag c _ M _ ?_ ?_ ?_
    · intro i hi
      have : ¬ i = d := by omega
      simp [Arr2.set, Arr2.fillDiagonal, normIdx_neg1, FillVal.cyc, h0, this, hi, Nat.lt_succ_of_lt hi]
    · simp [Arr2.set, normIdx_neg1]
    · intro i j hi hj hij
      have : ¬ (i = d ∧ j = d) := by omega
      simp [Arr2.set, Arr2.fillDiagonal, normIdx_neg1, hij, this, hi, hj]

theorem npReshape_sq (v : List Rat) (n : Nat) :
    npReshape v [(n : Int), (n : Int)] =
      if v.length = n * n then .ok (sq n fun i j => v.getD (i * n + j) 0) else .error .shape := by
  simp [npReshape]

/-- `Homogeneous._from_vector_inplace` -/
theorem fvi_Homogeneous (M : Mat (d + 1)) (v : List Rat) :
    (genFVI_Homogeneous MT T2 (DObj.ofHT ⟨.Homogeneous, M⟩) v).bind (DObj.asHT d) =
      (fromVec .Homogeneous M v).map fun M' => (⟨.Homogeneous, M'⟩ : HT d) := by
  unfold genFVI_Homogeneous
  have hsh : pyShape (DObj.ofHT (⟨.Homogeneous, M⟩ : HT d)).hm = [((d + 1 : Nat) : Int), ((d + 1 : Nat) : Int)] := rfl
  simp only [hsh, npReshape_sq]
  by_cases h1 : v.length = (d + 1) * (d + 1)
  · np_obj [h1]
    refine asHT_entries .Homogeneous _ _ (fun i j hi hj => ?_)
    simp [Mat.ofList, toArray_getD]
  · np_obj [h1]

theorem asHT_ne (c : HCls) (n : Nat) (e : Nat → Nat → Rat) (h : n ≠ d + 1) :
    DObj.asHT d ⟨c, some (sq n e)⟩ = .error .shape := by
  simp [DObj.asHT, h]

theorem affine_block2 (p : List Rat) (hp : p.length = 6) :
    (npReshapeF p 2 3).bind (fun m => Arr2.addTopRows (Arr2.eye 3) 2 m) =
      .ok (sq 3 fun i j => if i < 2 then eyeE i j + p.getD (j * 2 + i) 0 else eyeE i j) := by
  simp [npReshapeF, Arr2.addTopRows, Arr2.eye, normIdx, hp, GenProps.C03.exc_bind_ok, eyeE]

theorem affine_block3 (p : List Rat) (hp : p.length = 12) :
    (npReshapeF p 3 4).bind (fun m => Arr2.addTopRows (Arr2.eye 4) 3 m) =
      .ok (sq 4 fun i j => if i < 3 then eyeE i j + p.getD (j * 3 + i) 0 else eyeE i j) := by
  simp [npReshapeF, Arr2.addTopRows, Arr2.eye, normIdx, hp, GenProps.C03.exc_bind_ok, eyeE]

theorem exc_bind_assoc {ε α β γ} (x : Except ε α) (f : α → Except ε β) (g : β → Except ε γ) :
    (x.bind f).bind g = x.bind fun a => (f a).bind g := by cases x <;> rfl

theorem affineOfParams_entries (k : Nat) (v : List Rat) (i j : Nat) (hi : i < k + 1) (hj : j < k + 1) :
    (if i < k then eyeE i j + v.getD (j * k + i) 0 else eyeE i j) = affineOfParams k v ⟨i, hi⟩ ⟨j, hj⟩ := by
  simp only [affineOfParams, eyeE, toArray_getD, Fin.mk.injEq]
  by_cases h : i < k <;> simp [h, Rat.add_zero]

/-- `Affine._from_vector_inplace` (also run on an `AlignmentAffine`) -/
theorem fvi_Affine (c : HCls) (M : Mat (d + 1)) (v : List Rat) :
    (genFVI_Affine MT T2 (DObj.ofHT ⟨c, M⟩) v).bind (DObj.asHT d) =
      (fromVec .Affine M v).map fun M' => (⟨c, M'⟩ : HT d) := by
  unfold genFVI_Affine
  have hs : pyItem (pyShape v) 0 = (v.length : Int) := rfl
  simp only [hs]
  by_cases h6 : v.length = 6
  · have i6 : (v.length : Int) = 6 := by omega
    have b2 := affine_block2 v h6
    by_cases hd : d = 2
    · subst hd
      np_obj [i6, ← exc_bind_assoc, b2]
      rw [if_pos (by omega)]
      np_obj []
      exact asHT_entries c _ _ (affineOfParams_entries 2 v)
    · have hn : ¬ ((d = 2 ∨ d = 3) ∧ v.length = d * (d + 1)) := by
        rintro ⟨h | h, h'⟩ <;> subst h <;> omega
      np_obj [i6, ← exc_bind_assoc, b2, hn]
      exact asHT_ne c 3 _ (by omega)
  · have i6 : ¬ (v.length : Int) = 6 := by omega
    by_cases h12 : v.length = 12
    · have i12 : (v.length : Int) = 12 := by omega
      have b3 := affine_block3 v h12
      by_cases hd : d = 3
      · subst hd
        np_obj [i6, i12, ← exc_bind_assoc, b3]
        rw [if_pos (by omega)]
        np_obj []
        exact asHT_entries c _ _ (affineOfParams_entries 3 v)
      · have hn : ¬ ((d = 2 ∨ d = 3) ∧ v.length = d * (d + 1)) := by
          rintro ⟨h | h, h'⟩ <;> subst h <;> omega
        np_obj [i6, i12, ← exc_bind_assoc, b3, hn]
        exact asHT_ne c 4 _ (by omega)
    · have i12 : ¬ (v.length : Int) = 12 := by omega
      have hn : ¬ ((d = 2 ∨ d = 3) ∧ v.length = d * (d + 1)) := by
        rintro ⟨h | h, h'⟩ <;> subst h <;> omega
      np_obj [i6, i12, hn]

theorem asHT_ofList (c : HCls) (e : Nat → Nat → Rat) (l : List Rat)
    (h : ∀ i, i < d + 1 → ∀ j, j < d + 1 → e i j = l.getD (i * (d + 1) + j) 0) :
    DObj.asHT d ⟨c, some (sq (d + 1) e)⟩ = .ok ⟨c, Mat.ofList (d + 1) l⟩ :=
  asHT_entries c e _ (fun i j hi hj => by simp only [Mat.ofList, toArray_getD]; exact h i hi j hj)

theorem list_len4 (v : List Rat) (h : v.length = 4) : ∃ a b c e, v = [a, b, c, e] := by
  match v, h with
  | [a, b, c, e], _ => exact ⟨a, b, c, e, rfl⟩

theorem lt3_cases {P : Nat → Prop} (h0 : P 0) (h1 : P 1) (h2 : P 2) : ∀ i, i < 3 → P i := by
  intro i hi
  match i, hi with
  | 0, _ => exact h0
  | 1, _ => exact h1
  | 2, _ => exact h2

theorem lt4_cases {P : (i : Nat) → i < 4 → Prop} (h0 : P 0 (by decide)) (h1 : P 1 (by decide)) (h2 : P 2 (by decide))
    (h3 : P 3 (by decide)) : ∀ i hi, P i hi := by
  intro i hi
  match i, hi with
  | 0, _ => exact h0
  | 1, _ => exact h1
  | 2, _ => exact h2
  | 3, _ => exact h3

/-- `Similarity._from_vector_inplace` (also run by `AlignmentSimilarity._from_vector_inplace`) -/
theorem fvi_Similarity (c : HCls) (M : Mat (d + 1)) (v : List Rat) :
    (genFVI_Similarity MT T2 (DObj.ofHT ⟨c, M⟩) v).bind (DObj.asHT d) =
      (fromVec .Similarity M v).map fun M' => (⟨c, M'⟩ : HT d) := by
  unfold genFVI_Similarity
  have hs : pyItem (pyShape v) 0 = (v.length : Int) := rfl
  simp only [hs]
  by_cases h4 : v.length = 4
  · have i4 : (v.length : Int) = 4 := by omega
    obtain ⟨a, b, c', e, rfl⟩ := list_len4 v h4
    by_cases hd : d = 2
    · subst hd
      np_obj [i4, Arr2.setColTop, pyDrop, normIdx]
      refine asHT_ofList c _ _ ?_
      refine lt3_cases (lt3_cases ?_ ?_ ?_) (lt3_cases ?_ ?_ ?_) (lt3_cases ?_ ?_ ?_) <;>
        simp [Arr2.set, Arr2.at, Arr2.eye, normIdx, pyItem, HasItem.item]
    · np_obj [i4, Arr2.setColTop, pyDrop, normIdx, hd]
      exact asHT_ne c 3 _ (by omega)
  · have i4 : ¬ (v.length : Int) = 4 := by omega
    by_cases h7 : v.length = 7
    · have i7 : (v.length : Int) = 7 := by omega
      np_obj [h4, h7, i4, i7]
    · have i7 : ¬ (v.length : Int) = 7 := by omega
      np_obj [h4, h7, i4, i7]

theorem vdot4 (w x y z : Rat) : vdot [w, x, y, z] [w, x, y, z] = w * w + x * x + y * y + z * z := by
  simp [vdot, Rat.add_assoc, Rat.add_zero]

theorem quat_eps : ((1 : Rat) / 4503599627370496) * (4 : Rat) = 1 / 1125899906842624 := by decide +kernel

theorem ofRows_33 (a0 a1 a2 b0 b1 b2 c0 c1 c2 : Rat) :
    Arr2.ofRows [[a0, a1, a2], [b0, b1, b2], [c0, c1, c2]] =
      sq 3 (fun i j => ([[a0, a1, a2], [b0, b1, b2], [c0, c1, c2]].getD i []).getD j 0) := rfl

theorem asHT_entries4 (c : HCls) (e : Nat → Nat → Rat) (M : Mat 4)
    (h : ∀ i, (hi : i < 4) → ∀ j, (hj : j < 4) → e i j = M ⟨i, hi⟩ ⟨j, hj⟩) :
    DObj.asHT 3 ⟨c, some (sq 4 e)⟩ = .ok ⟨c, M⟩ :=
  asHT_entries (d := 3) c e M (fun i j hi hj => h i hi j hj)

theorem callSetRot_sq (c : HCls) (hc : c = .Rotation ∨ c = .AlignmentRotation) (e r : Nat → Nat → Rat) (skip : Bool) :
    callSetRot T2 (setRotBodies MT T2) ⟨c, some (sq (d + 1) e)⟩ (sq d r) skip =
      .ok ⟨c, some (sq (d + 1) (linBlockE (d := d) e r))⟩ := by
  unfold callSetRot
  rw [sup_setRot]
  rcases hc with rfl | rfl <;> simp [genSetRot_AlignmentRotation, genSetRot_sq, GenProps.C03.exc_bind_ok]

/-- `Rotation._from_vector_inplace` (also run on an `AlignmentRotation`, whose `set_rotation_matrix` it then calls) -/
theorem fvi_Rotation (c : HCls) (hc : c = .Rotation ∨ c = .AlignmentRotation) (M : Mat (d + 1)) (v : List Rat) :
    (genFVI_Rotation MT T2 (DObj.ofHT ⟨c, M⟩) v).bind (DObj.asHT d) =
      (fromVec .Rotation M v).map fun M' => (⟨c, M'⟩ : HT d) := by
  unfold genFVI_Rotation
  have hn : callNDims T2 nDimsBodies (DObj.ofHT (⟨c, M⟩ : HT d)) = (d : Int) := nDims_sq c _
  have hl : pyLen v = (v.length : Int) := rfl
  have hmap : ∀ (A : Mat (d + 1)), Except.map (fun M' => (⟨c, M'⟩ : HT d)) (Except.ok A : Except Err _) = .ok ⟨c, A⟩ :=
    fun _ => rfl
  have hmape : ∀ e : Err, Except.map (fun M' => (⟨c, M'⟩ : HT d)) (Except.error e) = .error e := fun _ => rfl
  simp only [hn, hl]
  by_cases hd : d = 3
  · subst hd
    by_cases h4 : v.length = 4
    · obtain ⟨w, x, y, z, rfl⟩ := list_len4 v h4
      have g0 : [w, x, y, z].getD 0 0 = w := rfl
      have g1 : [w, x, y, z].getD 1 0 = x := rfl
      have g2 : [w, x, y, z].getD 2 0 = y := rfl
      have g3 : [w, x, y, z].getD 3 0 = z := rfl
      by_cases hz : w * w + x * x + y * y + z * z < 1 / 1125899906842624
      · simp [hn, hl, vdot4, quat_eps, hz, fromVec, baseOf, GenProps.C03.exc_bind_ok, GenProps.C03.exc_bind_error,
          exc_bind_pure', hmap, hmape, g0, g1, g2, g3]
        exact DObj.asHT_ofHT (⟨c, M⟩ : HT 3)
      · simp [hn, hl, vdot4, quat_eps, hz, fromVec, baseOf, GenProps.C03.exc_bind_ok, GenProps.C03.exc_bind_error,
          exc_bind_pure', hmap, hmape, g0, g1, g2, g3, ofRows_33, DObj.ofHT, ofMat_sq, callSetRot_sq c hc]
        refine asHT_entries4 c _ _ ?_
        refine lt4_cases (lt4_cases ?_ ?_ ?_ ?_) (lt4_cases ?_ ?_ ?_ ?_) (lt4_cases ?_ ?_ ?_ ?_)
          (lt4_cases ?_ ?_ ?_ ?_) <;>
          simp [linBlockE, setLin, quatRot, Mat.ofList, SVec.outerSelf, Arr2.at, Arr2.ofMat, normIdx] <;>
          (try (intro h; exact absurd h (by decide)))
    · have e4 : ¬ (v.length : Int) = 4 := by omega
      simp [hn, hl, e4, h4, fromVec, baseOf, GenProps.C03.exc_bind_error, hmape]
  · have e3 : ¬ (d : Int) = 3 := by omega
    simp [hn, hl, e3, hd, fromVec, baseOf, GenProps.C03.exc_bind_error, hmape]

/-! ### which body runs on which class, and the tie to `fromVec` / `famFromVec` -/

theorem sup_fvi (c : HCls) :
    callMeth MT ._from_vector_inplace (.fam c) (fviBodies MT T2) =
      some (match c with
        | .Homogeneous => genFVI_Homogeneous MT T2
        | .Affine | .AlignmentAffine => genFVI_Affine MT T2
        | .Similarity => genFVI_Similarity MT T2
        | .Rotation | .AlignmentRotation => genFVI_Rotation MT T2
        | .Translation => genFVI_Translation MT T2
        | .UniformScale => genFVI_UniformScale MT T2
        | .NonUniformScale => genFVI_NonUniformScale MT T2
        | .AlignmentSimilarity => genFVI_AlignmentSimilarity MT T2
        | .AlignmentTranslation => genFVI_AlignmentTranslation MT T2
        | .AlignmentUniformScale => genFVI_AlignmentUniformScale MT T2) := by
  cases c <;> rfl

/-- `self._from_vector_inplace(v)` on a `d`-dimensional family object, through the translated bodies: attribute
lookup by the method table, the body of the supplying class, the result read back as a `d`-dimensional object
(`shape`: the body built a matrix of another size) -/
def srcFromVec (mt : MethodTable) (t2 : MethodTable2) (s : HT d) (v : List Rat) : Except Err (HT d) :=
  match callMeth mt ._from_vector_inplace (.fam s.cls) (fviBodies mt t2) with
  | some f => (f (DObj.ofHT s) v).bind (DObj.asHT d)
  | none => .error .noMethod

/-- OBLIGATION: `_from_vector_inplace` of all twelve classes, as the source says now, is the model's `fromVec` — for
every dimension, every matrix and every vector of every length -/
theorem fromVec_src (s : HT d) (v : List Rat) :
    srcFromVec MT T2 s v = (fromVec s.cls s.M v).map fun M => (⟨s.cls, M⟩ : HT d) := by
  obtain ⟨c, M⟩ := s
  unfold srcFromVec
  rw [sup_fvi]
  cases c <;> simp only [genFVI_AlignmentSimilarity, genFVI_AlignmentTranslation, genFVI_AlignmentUniformScale,
    exc_bind_pure']
  · exact fvi_Homogeneous M v
  · exact fvi_Affine _ M v
  · exact fvi_Similarity _ M v
  · exact fvi_Rotation _ (Or.inl rfl) M v
  · exact fvi_Translation _ M v
  · exact fvi_UniformScale _ M v
  · exact fvi_NonUniformScale _ M v
  · exact fvi_Affine _ M v
  · exact fvi_Similarity _ M v
  · exact fvi_Rotation _ (Or.inr rfl) M v
  · exact fvi_Translation _ M v
  · exact fvi_UniformScale _ M v

/-- `x._from_vector_inplace(v)` on an object of the store, through the translated bodies -/
def srcFamFromVec (mt : MethodTable) (t2 : MethodTable2) (o : Obj) (v : List Rat) : Except Err Obj :=
  match o.cell with
  | .fam d s => (srcFromVec mt t2 s v).map fun t => o.withCell (.fam d t)
  | _ => .error .noMethod

/-- OBLIGATION: the word `famFromVec` of the translated `Homogeneous.from_vector` (Generated/C03Entry.lean) is itself
what the source says: `from_vector` = copy, then the translated `_from_vector_inplace` of the class -/
theorem famFromVec_src (o : Obj) (v : List Rat) : srcFamFromVec MT T2 o v = famFromVec o v := by
  unfold srcFamFromVec famFromVec
  cases o.cell with
  | fam d s =>
    simp only [fromVec_src]
    cases fromVec s.cls s.M v <;> rfl
  | chain ms => rfl
  | leaf p => rfl

/-! ### the properties -/

theorem genNDims_src (t : HT d) : genNDims (DObj.ofHT t) = (d : Int) := by
  simp [genNDims, DObj.hm, DObj.ofHT, ofMat_sq]

theorem genLinearComponent_src (t : HT d) :
    genLinearComponent (DObj.ofHT t) = sq d (Arr2.ofMat t.M).e ∧
      (genLinearComponent (DObj.ofHT t)).toMat d = lin t.M ∧ genRotationMatrix (DObj.ofHT t) = genLinearComponent (DObj.ofHT t) := by
  refine ⟨rfl, ?_, rfl⟩
  apply Mat.ext; intro i j
  have hi : i.val < d + 1 := Nat.lt_succ_of_lt i.isLt
  have hj : j.val < d + 1 := Nat.lt_succ_of_lt j.isLt
  simp [genLinearComponent, Arr2.initInit, Arr2.toMat, DObj.hm, DObj.ofHT, Arr2.ofMat, lin, hi, hj, Fin.castSucc,
    Fin.castAdd, Fin.castLE]

theorem genTranslationComponent_src (t : HT d) :
    genTranslationComponent (DObj.ofHT t) = (trans t.M).toList := by
  apply List.ext_getElem
  · simp [genTranslationComponent, Arr2.lastColInit, DObj.hm, DObj.ofHT, Arr2.ofMat, Vec.toList]
  · intro i h1 h2
    have hi : i < d := by simpa [Vec.toList] using h2
    simp [genTranslationComponent, Arr2.lastColInit, DObj.hm, DObj.ofHT, Arr2.ofMat, Vec.toList, hi,
      Nat.lt_succ_of_lt hi]
    rfl

theorem genUScale_src (t : HT d) : genUScale (DObj.ofHT t) = t.M 0 0 := by
  simp [genUScale, DObj.hm, DObj.ofHT, Arr2.at, Arr2.ofMat, normIdx]

theorem genNUScale_src (t : HT d) :
    genNUScale (DObj.ofHT t) = (List.finRange d).map fun i => t.M i.castSucc i.castSucc := by
  apply List.ext_getElem
  · simp [genNUScale, Arr2.diagonal, DObj.hm, DObj.ofHT, Arr2.ofMat]
  · intro i h1 h2
    have hi : i < d := by simpa using h2
    simp [genNUScale, Arr2.diagonal, DObj.hm, DObj.ofHT, Arr2.ofMat, hi, Nat.lt_succ_of_lt hi, Fin.castSucc,
      Fin.castAdd, Fin.castLE]


/-! ### `as_non_alignment` through the translated constructors -/

/-- `x.as_non_alignment()`: attribute lookup by the method table, then the translated body, whose constructor calls
run the translated `__init__`s and whose property reads run the translated properties -/
def srcANA (mt : MethodTable) (t2 : MethodTable2) (t : HT d) : Except Err (HT d) :=
  match callMeth mt .as_non_alignment (.fam t.cls) (ana2Bodies mt t2) with
  | some f => (f (DObj.ofHT t)).bind (DObj.asHT d)
  | none => .error .noMethod

theorem sup_ana2 (c : HCls) :
    callMeth MT .as_non_alignment (.fam c) (ana2Bodies MT T2) =
      (match c with
        | .AlignmentAffine => some (genANA2_AlignmentAffine MT T2)
        | .AlignmentSimilarity => some (genANA2_AlignmentSimilarity MT T2)
        | .AlignmentRotation => some (genANA2_AlignmentRotation MT T2)
        | .AlignmentTranslation => some (genANA2_AlignmentTranslation MT T2)
        | .AlignmentUniformScale => some (genANA2_AlignmentUniformScale MT T2)
        | _ => none) := by
  cases c <;> rfl

/-- OBLIGATION: `as_non_alignment` of every class, as the source says now — constructors, checks and property reads
included — is `anaCtor` (and no other class has the method) -/
theorem anaCtor_src (t : HT d) : srcANA MT T2 t = anaCtor t.cls t.M := by
  obtain ⟨c, M⟩ := t
  unfold srcANA
  rw [sup_ana2]
  have hhm : (DObj.ofHT (⟨c, M⟩ : HT d)).hm = Arr2.ofMat M := rfl
  cases c <;> simp only [anaCtor]
  · exact ctorMat_src .Affine M true true
  · exact ctorMat_src .Similarity M true true
  · show (genInit_Rotation MT T2 (DObj.new .Rotation) (genRotationMatrix (DObj.ofHT ⟨_, M⟩)) true).bind _ = _
    rw [(genLinearComponent_src (⟨.AlignmentRotation, M⟩ : HT d)).2.2, (genLinearComponent_src _).1]
    rw [show DObj.new .Rotation = ⟨.Rotation, none⟩ from rfl, ctorRotation_sq .Rotation (Or.inl rfl)]
    have := (genLinearComponent_src (⟨.AlignmentRotation, M⟩ : HT d)).2.1
    rw [(genLinearComponent_src _).1] at this
    rw [this]; rfl
  · show (genInit_Translation MT T2 (DObj.new .Translation) (genTranslationComponent (DObj.ofHT ⟨_, M⟩)) false).bind _ = _
    rw [genTranslationComponent_src]
    exact ctorTranslation_src none (C03.trans M) false
  · show (genInit_UniformScale MT T2 (DObj.new .UniformScale) (genUScale (DObj.ofHT ⟨_, M⟩))
      (callNDims T2 nDimsBodies (DObj.ofHT ⟨_, M⟩)) false).bind _ = _
    rw [genUScale_src, show callNDims T2 nDimsBodies (DObj.ofHT (⟨.AlignmentUniformScale, M⟩ : HT d)) = (d : Int) from
      nDims_sq _ _]
    exact ctorUniformScale_src none (M 0 0) d false

/-! ### the in-place matrix product on typed matrices -/

/-- OBLIGATION: `Homogeneous._compose_before_inplace` / `_compose_after_inplace` as the source says now, read on typed
matrices: `np.dot` in the order the direction prescribes, in numpy's promoted dtype, stored as it is (no cast back to
the receiver's dtype) — `rawComposeT`, of which `inplace_dtype_law` says that it loses nothing -/
theorem genInplaceT_eq (dir : Dir) (s t : TMat (d + 1)) : genInplaceT dir s t = rawComposeT dir s t := by
  cases dir <;> rfl

end MenpoModel.GenProps.C03
