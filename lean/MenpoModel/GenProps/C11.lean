/-
C11 — obligations over the tables `Generated.C11` (rewritten from the live code on every run).  They state what
the model and the theorems assume of the code that exists now:

* `ipca`'s `eps` default is the threshold the model discards with (`defaultEps`), and it is non-negative, so the
  invariant `ipca_reach_represents` applies to it;
* no forgetting unless asked for: the defaults of `f` / `forgetting_factor` are 1 (the property's "no forgetting" is
  the default path, `pcaRunForget_one_refines_batch`);
* `PCAVectorModel.increment` hands `ipca` the stored components / eigenvalues / count, `m_a = self._mean`,
  `f = forgetting_factor`, `centre = self.centred` and nothing else (no `eps`): the branch follows the model's flag,
  which is what `ipcaStepSpec` models;
* `GMRFVectorModel.__init__` / `_increment` pick the routine by `graph.n_edges == 0` and `sparse` exactly as
  `GSpec.diagonal` / `precisionStored` do (`gmrfDispatchOf`), and the constructor defaults are the expected ones.
-/
import MenpoModel.Props.C11
import MenpoModel.Generated.C11Live

namespace MenpoModel.GenProps.C11
open MenpoModel.C11 MenpoModel.Generated.C11

theorem eps_ok : ipcaEps = defaultEps := by decide +kernel
theorem eps_nonneg : 0 ≤ ipcaEps := by decide +kernel
theorem no_forgetting_by_default : ipcaF = 1 ∧ incrementF = 1 ∧ incrementObjF = 1 := by
  refine ⟨?_, ?_, ?_⟩ <;> decide +kernel
theorem ipcaCall_ok : ipcaCall = expectedIpcaCall := by decide
theorem gmrfDispatch_ok : gmrfDispatch = expectedGmrfDispatch := by decide
theorem gmrfDefaults_ok : gmrfDefaults = expectedGmrfDefaults := by decide

/-- the invariant over every chain of increments, instantiated at the live `eps` -/
theorem ipca_reach_represents_live (n : Nat) (centred : Bool) (X : Data) (D : Decomp n)
    (h : IpcaReach n ipcaEps centred X D) : X ≠ [] ∧ RepM (scatterM n centred X) D.U D.σ :=
  ipca_reach_represents n ipcaEps eps_nonneg centred X D h

end MenpoModel.GenProps.C11
