/-
C07 — obligations over the TRANSLATED source (`Generated/C07Src.lean`, rewritten by harness/trans_c07.py on every
`./check C07` from the source text of the current working tree): every translated function equals, for ALL arguments,
the Core definition the C07 theorems are about.

  genPointCloudCentre / genPointCloudNorm          = centroid / the Frobenius norm of the centred points
  genAlignmentInit, genAlignedSource, genAlignmentError, genTargetSetter(WithVerification), genNewTargetFromState,
  genSyncTargetFromState, genSetTarget             = the `Alignment` / `Targetable` plumbing: `aligned_source` is
                                                     `apply(source)`, `alignment_error` the norm of `target − aligned
                                                     source`, `set_target` stores the target and then re-fits
  genTranslationInit / Sync                        = `construct false S T (fitTranslation S T)` / the re-fit
  genScaleInit / Sync                              = `fitScale` of the two norms
  genAffineBuildH / SetH / Init / Sync             = `affineFit` (normal equations: which matrix from the source, which
                                                     from the target, the transposes); the constructor keeps the
                                                     REQUESTED target although the overridden setter re-syncs it
  genOptimalRotationMatrix                         = `rotFit` on the svd of `corr S T` (determinant of `U·Vt`, last
                                                     diagonal entry flipped)
  genRotationSetRotationMatrix / Init / Sync       = the rotation alignment; `allow_mirror` is stored and re-used
  genProcrustesAlignment                           = `simFit` (centre, norm-ratio scale, optional rotation of the centred
                                                     and rescaled source onto the centred target, re-centre)
  genSimilarityInit / Sync                         = the similarity alignment; `rotation` / `allow_mirror` stored, re-used

and, by induction over the list of later targets, every history of `set_target` calls ends in the object the
constructor builds on the last target (`*_retargets`).

The proofs unfold the translated definition, split on what the MODEL distinguishes and simplify with the vocabulary
of `Core/C07Src.lean`, so a harmless rewrite of the Python (renamed temporary, reordered independent statements,
inverted test with swapped arms) keeps them while a changed decision (another determinant, a swapped argument, a
dropped option, a dropped statement) breaks them.
-/
import MenpoModel.Generated.C07Src
import MenpoModel.Props.C07

set_option linter.unusedSimpArgs false
set_option linter.unusedVariables false

namespace MenpoModel.GenProps.C07Src
open MenpoModel.C07 MenpoModel.Generated.C07

/-! ### the vocabulary's algebra (about Core only) -/

theorem transPart_translationH {d : ℕ} (v : Vec d) : transPart (translationH v) = v := by
  funext i
  simp [transPart, translationH, mkH]

theorem negV_negV {d : ℕ} (v : Vec d) : negV (negV v) = v := by funext i; simp [negV]

theorem translationInv_translationH {d : ℕ} (v : Vec d) : translationInv (translationH (negV v)) = translationH v := by
  rw [translationInv, transPart_translationH, negV_negV]

theorem setTransCol_translationH {d : ℕ} (v w : Vec d) : setTransCol (translationH v) w = translationH w := by
  funext i j
  simp only [setTransCol, translationH, mkH]
  by_cases hi : i.val < d <;> by_cases hj : j.val < d <;> simp [hi, hj]

theorem setLinPart_rotationH {d : ℕ} (R R' : Mat d d) : setLinPart (rotationH R) R' = rotationH R' := by
  funext i j
  simp only [setLinPart, rotationH, mkH]
  by_cases hi : i.val < d <;> by_cases hj : j.val < d <;> simp [hi, hj]

theorem one_eq_rotationH {d : ℕ} : (one : HMat d) = rotationH one := by
  funext i j
  simp only [rotationH, mkH, one]
  by_cases hi : i.val < d <;> by_cases hj : j.val < d <;> simp [hi, hj, Fin.ext_iff] <;> omega

theorem setLinPart_one {d : ℕ} (R : Mat d d) : setLinPart (one : HMat d) R = rotationH R := by
  rw [one_eq_rotationH, setLinPart_rotationH]

theorem scale_refill {d : ℕ} (s s' : ℚ) :
    setLastDiag (fillDiagonal (scaleH s : HMat d) s') 1 = (scaleH s' : HMat d) := by
  funext i j
  simp only [setLastDiag, fillDiagonal, scaleH, mkH, smul, one]
  by_cases hij : i = j
  · subst hij
    by_cases hi : i.val < d
    · have : ¬ (i.val + 1 = d + 1) := by omega
      simp [hi, this]
      intro h; omega
    · have : i.val + 1 = d + 1 := by have := i.isLt; omega
      simp [hi, this]
  · have hv : i.val ≠ j.val := fun h => hij (Fin.ext h)
    have h1 : ¬ (i.val + 1 = d + 1 ∧ j.val + 1 = d + 1) := by omega
    simp only [h1, hij, if_false]
    by_cases hi : i.val < d <;> by_cases hj : j.val < d <;> simp [hi, hj, Fin.ext_iff, hv]

theorem signQ_neg_iff (x : ℚ) : signQ x < 0 ↔ x < 0 := by
  unfold signQ
  split
  · simp [*]
  · split <;> simp [*]

theorem signQ_of_neg {x : ℚ} (h : x < 0) : signQ x = -1 := by simp [signQ, h]

theorem setLastDiag_one {d : ℕ} : setLastDiag (eyeLike (one : Mat d d)) (-1) = (flipLast : Mat d d) := by
  funext i j
  simp only [setLastDiag, eyeLike, one, flipLast]
  by_cases hij : i = j
  · subst hij; by_cases h : i.val + 1 = d <;> simp [h]
  · have hv : i.val ≠ j.val := fun h => hij (Fin.ext h)
    have : ¬ (i.val + 1 = d ∧ j.val + 1 = d) := by omega
    simp [hij, this]

/-! ### numpy's operators (`Core/C07Src.lean: Np`, chosen by the operand types) in the words of the model

`npNorm` is the simp set every equality proof starts with: whatever sub-expression the Python names or inlines, the
translated term is brought to the same normal form. -/

theorem np_sub_mat {n m : ℕ} (A B : Mat n m) : @HSub.hSub _ _ _ Np.subMat A B = msub A B := rfl
theorem np_sub_vec {d : ℕ} (a b : Vec d) : @HSub.hSub _ _ _ Np.subVec a b = vsub a b := rfl
theorem np_sub_row {n d : ℕ} (P : Mat n d) : @HSub.hSub _ _ _ Np.subRow P (centroid P) = centred P := rfl
theorem np_neg_vec {d : ℕ} (v : Vec d) : @Neg.neg _ Np.negVec v = negV v := rfl
theorem np_div_nat {n d : ℕ} (l : List (Mat n d)) (k : ℕ) : @HDiv.hDiv _ _ _ Np.divNat (sumL l) k = sumDivL l k := rfl
theorem np_count_below {m : ℕ} (s : Vec m) (t : ℚ) : countTrue (belowV s t) = countBelow s t := rfl
theorem np_eye_rows {d : ℕ} (U : Mat d d) : (one : Mat (rowsOf U) (rowsOf U)) = eyeLike U := rfl
theorem np_inv_col {n m : ℕ} (k : ℕ) (s : Vec n) (V : Mat n m) :
    @HMul.hMul _ _ _ Np.mulCol (@HDiv.hDiv _ _ _ Np.divCol (1 : ℚ) (ColK.mk k s)) (rowsTo k V) = rowScaleInv k s V := by
  funext i j
  show (if i.val < k then (1 : ℚ) / s i * rowsTo k V i j else 0) = rowScaleInv k s V i j
  simp only [rowsTo, rowScaleInv]
  split <;> rfl
theorem zipWith_map_map {τ α β γ : Type} (f : α → β → γ) (a : τ → α) (b : τ → β) (l : List τ) :
    List.zipWith f (l.map a) (l.map b) = l.map fun t => f (a t) (b t) := by
  induction l with
  | nil => rfl
  | cons x xs ih => simp [ih]
/-- the corners of `points[trilist]` and the difference of two per-triangle vector lists, in the model's words -/
theorem cornerI_cornersOf (pts : ℕ → V2) (tris : List Tri) : cornerI (cornersOf pts tris) = tris.map fun t => pts t.1 := by
  simp only [cornerI, cornersOf, List.map_map, Function.comp_def]
theorem cornerJ_cornersOf (pts : ℕ → V2) (tris : List Tri) : cornerJ (cornersOf pts tris) = tris.map fun t => pts t.2.1 := by
  simp only [cornerJ, cornersOf, List.map_map, Function.comp_def]
theorem cornerK_cornersOf (pts : ℕ → V2) (tris : List Tri) : cornerK (cornersOf pts tris) = tris.map fun t => pts t.2.2 := by
  simp only [cornerK, cornersOf, List.map_map, Function.comp_def]
theorem np_sub_tri_vecs {τ : Type} (a b : τ → V2) (l : List τ) :
    @HSub.hSub _ _ _ Np.subTriVecs (l.map a) (l.map b) = l.map fun t => V2.sub (a t) (b t) := by
  show List.zipWith V2.sub _ _ = _
  exact zipWith_map_map V2.sub a b l
theorem vsub_centroid {n d : ℕ} (S T : Mat n d) : vsub (centroid T) (centroid S) = fitTranslationVec S T := rfl

/-! ### the plain transforms' constructors (translated base-class bodies) -/

theorem setTransCol_one {d : ℕ} (v : Vec d) : setTransCol (one : HMat d) v = translationH v := by
  funext i j
  simp only [setTransCol, translationH, mkH, one]
  by_cases hi : i.val < d <;> by_cases hj : j.val < d <;> simp [hi, hj, Fin.ext_iff] <;> omega

/-- `Homogeneous.__init__` / `Affine.__init__` / `Similarity.__init__` hand the matrix to the object's OWN setter -/
theorem genSimilarityCtor_eq {n d : ℕ} (setH : HObj n d → HMat d → Bool → Bool → HObj n d) (a : HObj n d) (h : HMat d)
    (c k : Bool) : genSimilarityCtor setH a h c k = setH a h c k := rfl
theorem genAffineCtor_eq {n d : ℕ} (setH : HObj n d → HMat d → Bool → Bool → HObj n d) (a : HObj n d) (h : HMat d)
    (c k : Bool) : genAffineCtor setH a h c k = setH a h c k := rfl
/-- `Translation.__init__`: the identity with the translation written into its last column -/
theorem genTranslationCtor_eq {n d : ℕ} (setH : HObj n d → HMat d → Bool → Bool → HObj n d) (a : HObj n d) (v : Vec d)
    (k : Bool) : genTranslationCtor setH a v k = setH a (translationH v) false k := by
  simp only [genTranslationCtor, genSimilarityCtor_eq, vlen]
  rw [setTransCol_one]
/-- `Rotation.__init__`: the identity through the plain setter, then the object's OWN `set_rotation_matrix` on the
matrix it was given (not its transpose, not another one) -/
theorem genRotationCtor_eq {n d : ℕ} (setH : HObj n d → HMat d → Bool → Bool → HObj n d)
    (setRot : HObj n d → Mat d d → Bool → HObj n d) (a : HObj n d) (R : Mat d d) (k : Bool) :
    genRotationCtor setH setRot a R k = setRot (setH a one false true) R k := rfl

/-! ### shape/pointcloud.py -/

theorem genPointCloudCentre_eq {n d : ℕ} (P : Mat n d) : genPointCloudCentre P = centroid P := rfl
theorem genPointCloudNorm_eq {n d : ℕ} (ext : Ext) (P : Mat n d) : genPointCloudNorm ext P = normExt ext P := by
  simp only [genPointCloudNorm, genPointCloudCentre_eq, np_sub_row, normExt]

/-! ### base.py / alignment.py -/

theorem genAlignmentInit_eq {Obj Src Tgt : Type} (ops : ObjOps Obj Src Tgt) (self : Obj) (S : Src) (T : Tgt) :
    genAlignmentInit ops self S T = ops.setTarget (ops.setSource self S) T := rfl

theorem genAlignedSource_eq {Obj Src Tgt : Type} (ops : ObjOps Obj Src Tgt) (a : Obj) :
    genAlignedSource ops a = ops.apply a (ops.source a) := rfl

/-- for the homogeneous family: the model's `AlignObj.alignedSource` -/
theorem genAlignedSource_hobj {n d : ℕ} (a : HObj n d) :
    genAlignedSource HObj.ops a = a.toAlignObj.alignedSource := rfl

theorem genAlignmentError_eq {Obj Src : Type} {n d : ℕ} (ext : Ext) (ops : ObjOps Obj Src (Mat n d)) (a : Obj) :
    genAlignmentError ext ops a = ext.frob (msub (ops.target a) (ops.apply a (ops.source a))) := by
  simp only [genAlignmentError, genAlignedSource_eq, np_sub_mat]

theorem genTargetSetter_eq {Obj Src Tgt : Type} (ops : ObjOps Obj Src Tgt) (a : Obj) (T : Tgt) :
    genTargetSetter ops a T = ops.setTarget a T := rfl

theorem genNewTargetFromState_eq {Obj Src Tgt : Type} (ops : ObjOps Obj Src Tgt) (a : Obj) :
    genNewTargetFromState ops a = ops.apply a (ops.source a) := rfl

theorem genTargetSetterWithVerification_eq {Obj Src Tgt : Type} (ops : ObjOps Obj Src Tgt) (a : Obj) (T : Tgt) :
    genTargetSetterWithVerification ops a T = ops.setTarget a T := rfl

theorem genSyncTargetFromState_eq {Obj Src Tgt : Type} (ops : ObjOps Obj Src Tgt) (a : Obj) :
    genSyncTargetFromState ops a = ops.setTarget a (ops.apply a (ops.source a)) := rfl

theorem genSetTarget_eq {Obj Src Tgt : Type} (ops : ObjOps Obj Src Tgt) (sync : Obj → Obj) (a : Obj) (T : Tgt) :
    genSetTarget ops sync a T = retarget ops sync a T := rfl

/-! ### translation.py -/

theorem genTranslationInit_eq {n d : ℕ} (ext : Ext) (self : HObj n d) (S T : Mat n d) :
    genTranslationInit ext self S T = ⟨S, T, fitTranslation S T, self.rotation, self.allowMirror⟩ := by
  simp only [genTranslationInit, genTranslationCtor_eq, plainSetH, genAlignmentInit_eq, genPointCloudCentre_eq, np_sub_vec,
    vsub_centroid]
  rfl

theorem genTranslationSync_eq {n d : ℕ} (ext : Ext) (a : HObj n d) (v : Vec d) (h : a.h = translationH v) :
    genTranslationSync ext a = { a with h := fitTranslation a.source a.target } := by
  simp only [genTranslationSync, HObj.setH, h, setTransCol_translationH, genPointCloudCentre_eq, np_sub_vec, vsub_centroid]
  rfl

/-- one `set_target` on a translation alignment = the constructor on the new target -/
theorem translation_retarget {n d : ℕ} (ext : Ext) (self : HObj n d) (S T₀ T : Mat n d) :
    retarget HObj.ops (genTranslationSync ext) (genTranslationInit ext self S T₀) T = genTranslationInit ext self S T := by
  rw [retarget, genTranslationSync_eq ext _ (fitTranslationVec S T₀) (by rw [genTranslationInit_eq]; rfl), genTranslationInit_eq,
    genTranslationInit_eq]
  rfl

/-! ### scale.py -/

theorem genScaleInit_eq {n d : ℕ} (ext : Ext) (self : HObj n d) (S T : Mat n d) :
    genScaleInit ext self S T = ⟨S, T, fitScale (normExt ext T) (normExt ext S), self.rotation, self.allowMirror⟩ := rfl

theorem genScaleSync_eq {n d : ℕ} (ext : Ext) (a : HObj n d) (s : ℚ) (h : a.h = scaleH s) :
    genScaleSync ext a = { a with h := fitScale (normExt ext a.target) (normExt ext a.source) } := by
  simp only [genScaleSync, HObj.setH, h, scale_refill, genPointCloudNorm_eq]
  rfl

theorem scale_retarget {n d : ℕ} (ext : Ext) (self : HObj n d) (S T₀ T : Mat n d) :
    retarget HObj.ops (genScaleSync ext) (genScaleInit ext self S T₀) T = genScaleInit ext self S T := by
  rw [retarget, genScaleSync_eq ext _ (normExt ext T₀ / normExt ext S) rfl]
  rfl

/-! ### affine.py -/

theorem genAffineBuildH_eq {n d : ℕ} (S T : Mat n d) : genAffineBuildH S T = affineFit S T := by
  simp only [genAffineBuildH, affineFit]
  cases solveChecked (mul (hpoints S) (tr (hpoints S))) (mul (hpoints S) (tr (hpoints T))) <;> rfl

/-- the overridden setter stores the matrix and then replaces the target by the aligned source -/
theorem genAffineSetH_eq {n d : ℕ} (a : HObj n d) (v : HMat d) (c k : Bool) :
    genAffineSetH a v c k = { a with h := v, target := applyH v a.source } := rfl

/-- the constructor ends with the REQUESTED target (`construct false`), whatever the setter did in between -/
theorem genAffineInit_eq {n d : ℕ} (self : HObj n d) (S T : Mat n d) :
    genAffineInit self S T = (affineFit S T).map fun h => ⟨S, T, h, self.rotation, self.allowMirror⟩ := by
  simp only [genAffineInit, genAffineBuildH_eq, genAffineCtor_eq]
  cases affineFit S T <;> rfl

theorem genAffineSync_eq {n d : ℕ} (a : HObj n d) :
    genAffineSync a = (affineFit a.source a.target).map fun h => { a with h := h } := by
  simp only [genAffineSync, genAffineBuildH_eq]
  cases affineFit a.source a.target <;> rfl

/-- `set_target` in the `Option` monad of the affine fit (`none` = `LinAlgError` of a singular system) -/
def affineRetarget {n d : ℕ} (a : HObj n d) (T : Mat n d) : Option (HObj n d) := genAffineSync (HObj.ops.setTarget a T)

theorem affine_retarget {n d : ℕ} (self : HObj n d) (S T₀ T : Mat n d) (a : HObj n d) (h : genAffineInit self S T₀ = some a) :
    affineRetarget a T = genAffineInit self S T := by
  rw [genAffineInit_eq] at h
  cases h0 : affineFit S T₀ with
  | none => simp [h0] at h
  | some h₀ =>
    simp only [h0, Option.map_some, Option.some.injEq] at h
    subst h
    rw [affineRetarget, genAffineSync_eq, genAffineInit_eq]
    rfl

/-! ### rotation.py -/

theorem genOptimalRotationMatrix_eq {n d : ℕ} (ext : Ext) (S T : Mat n d) (m : Bool) :
    genOptimalRotationMatrix ext S T m = rotFitExt ext m S T := by
  simp only [genOptimalRotationMatrix, rotFitExt, rotFit, corr]
  cases m
  · by_cases hd : det (mul (ext.svd (mul (tr T) S)).1 (ext.svd (mul (tr T) S)).2.2) < 0
    · simp [hd, signQ_neg_iff, signQ_of_neg hd, np_eye_rows, setLastDiag_one, eyeLike]
      rw [← setLastDiag_one]; rfl
    · simp [hd, signQ_neg_iff]
  · simp

theorem genRotationSetRotationMatrix_eq {n d : ℕ} (ext : Ext) (a : HObj n d) (R : Mat d d) (k : Bool) :
    genRotationSetRotationMatrix ext a R k =
      { a with h := setLinPart a.h R, target := applyH (setLinPart a.h R) a.source } := rfl

theorem genRotationInit_eq {n d : ℕ} (ext : Ext) (self : HObj n d) (S T : Mat n d) (m : Bool) :
    genRotationInit ext self S T m = ⟨S, T, rotationH (rotFitExt ext m S T), self.rotation, m⟩ := by
  simp only [genRotationInit, genRotationCtor_eq, plainSetH, genRotationSetRotationMatrix_eq, genOptimalRotationMatrix_eq,
    genAlignmentInit_eq, HObj.setH, HObj.ops, HObj.setAllowMirror, setLinPart_one]

theorem genRotationSync_eq {n d : ℕ} (ext : Ext) (a : HObj n d) (R : Mat d d) (h : a.h = rotationH R) :
    genRotationSync ext a = { a with h := rotationH (rotFitExt ext a.allowMirror a.source a.target) } := by
  simp only [genRotationSync, genOptimalRotationMatrix_eq, HObj.setH, h, setLinPart_rotationH]

/-- the re-fit uses the `allow_mirror` the constructor was given -/
theorem rotation_retarget {n d : ℕ} (ext : Ext) (self : HObj n d) (S T₀ T : Mat n d) (m : Bool) :
    retarget HObj.ops (genRotationSync ext) (genRotationInit ext self S T₀ m) T = genRotationInit ext self S T m := by
  rw [retarget, genRotationInit_eq, genRotationSync_eq ext _ (rotFitExt ext m S T₀) rfl, genRotationInit_eq]
  rfl

/-! ### similarity.py -/

theorem genProcrustesAlignment_eq {n d : ℕ} (ext : Ext) (S T : Mat n d) (rotation m : Bool) :
    genProcrustesAlignment ext S T rotation m = simFitExt ext rotation m S T := by
  simp only [genProcrustesAlignment, simFitExt, simFit, genPointCloudCentre_eq, genPointCloudNorm_eq, np_neg_vec,
    translationInv_translationH, genOptimalRotationMatrix_eq]
  cases rotation <;> rfl

theorem genSimilarityInit_eq {n d : ℕ} (ext : Ext) (self : HObj n d) (S T : Mat n d) (r m : Bool) :
    genSimilarityInit ext self S T r m = ⟨S, T, simFitExt ext r m S T, r, m⟩ := by
  simp only [genSimilarityInit, genProcrustesAlignment_eq, genSimilarityCtor_eq, plainSetH]
  rfl

theorem genSimilaritySync_eq {n d : ℕ} (ext : Ext) (a : HObj n d) :
    genSimilaritySync ext a = { a with h := simFitExt ext a.rotation a.allowMirror a.source a.target } := by
  simp only [genSimilaritySync, genProcrustesAlignment_eq]
  rfl

/-- the re-fit uses the `rotation` and `allow_mirror` options the constructor was given -/
theorem similarity_retarget {n d : ℕ} (ext : Ext) (self : HObj n d) (S T₀ T : Mat n d) (r m : Bool) :
    retarget HObj.ops (genSimilaritySync ext) (genSimilarityInit ext self S T₀ r m) T = genSimilarityInit ext self S T r m := by
  rw [retarget, genSimilarityInit_eq, genSimilaritySync_eq, genSimilarityInit_eq]
  rfl

/-! ### histories: any number of `set_target` calls ends in the constructor's object on the last target -/

theorem retargets_last {Obj Src Tgt : Type} (ops : ObjOps Obj Src Tgt) (sync : Obj → Obj) (init : Tgt → Obj)
    (step : ∀ T₀ T, retarget ops sync (init T₀) T = init T) (T₀ : Tgt) (Ts : List Tgt) :
    retargets ops sync (init T₀) Ts = init (Ts.getLast?.getD T₀) := by
  induction Ts generalizing T₀ with
  | nil => rfl
  | cons T Ts ih =>
    simp only [retargets, List.foldl_cons, step]
    have := ih T
    simp only [retargets] at this
    rw [this]
    cases Ts with
    | nil => rfl
    | cons h t => rw [List.getLast?_eq_some_getLast (List.cons_ne_nil h t), List.getLast?_eq_some_getLast (List.cons_ne_nil T (h :: t))]; rfl

theorem translation_retargets {n d : ℕ} (ext : Ext) (self : HObj n d) (S T₀ : Mat n d) (Ts : List (Mat n d)) :
    retargets HObj.ops (genTranslationSync ext) (genTranslationInit ext self S T₀) Ts =
      genTranslationInit ext self S (Ts.getLast?.getD T₀) :=
  retargets_last _ _ (genTranslationInit ext self S) (translation_retarget ext self S) T₀ Ts

theorem scale_retargets {n d : ℕ} (ext : Ext) (self : HObj n d) (S T₀ : Mat n d) (Ts : List (Mat n d)) :
    retargets HObj.ops (genScaleSync ext) (genScaleInit ext self S T₀) Ts = genScaleInit ext self S (Ts.getLast?.getD T₀) :=
  retargets_last _ _ (genScaleInit ext self S) (scale_retarget ext self S) T₀ Ts

theorem rotation_retargets {n d : ℕ} (ext : Ext) (self : HObj n d) (S T₀ : Mat n d) (m : Bool) (Ts : List (Mat n d)) :
    retargets HObj.ops (genRotationSync ext) (genRotationInit ext self S T₀ m) Ts =
      genRotationInit ext self S (Ts.getLast?.getD T₀) m :=
  retargets_last _ _ (fun T => genRotationInit ext self S T m) (fun T₀ T => rotation_retarget ext self S T₀ T m) T₀ Ts

theorem similarity_retargets {n d : ℕ} (ext : Ext) (self : HObj n d) (S T₀ : Mat n d) (r m : Bool) (Ts : List (Mat n d)) :
    retargets HObj.ops (genSimilaritySync ext) (genSimilarityInit ext self S T₀ r m) Ts =
      genSimilarityInit ext self S (Ts.getLast?.getD T₀) r m :=
  retargets_last _ _ (fun T => genSimilarityInit ext self S T r m) (fun T₀ T => similarity_retarget ext self S T₀ T r m) T₀ Ts

/-! ### homogeneous/base.py: `copy`, `pseudoinverse` (shared by the five classes of the family) -/

theorem genHomogCopy_eq {n d : ℕ} (a : HObj n d) : genHomogCopy a = a := rfl

/-- `pseudoinverse()` swaps source and target and takes the family's inverse matrix (`hinv`: C04's subject); the
options travel with the copy -/
theorem genHomogPinv_eq {n d : ℕ} (hinv : HMat d → HMat d) (a : HObj n d) :
    genHomogPinv hinv a = ⟨a.target, a.source, hinv a.h, a.rotation, a.allowMirror⟩ := rfl

/-- **a `pseudoinverse()`-born affine alignment re-aimed with `set_target` is the alignment the constructor builds from
the old target to the new one** — nothing computed for the old direction survives -/
theorem affine_pinv_retarget {n d : ℕ} (hinv : HMat d → HMat d) (a : HObj n d) (T : Mat n d) :
    affineRetarget (genHomogPinv hinv a) T = genAffineInit ⟨a.source, a.target, a.h, a.rotation, a.allowMirror⟩ a.target T := by
  rw [affineRetarget, genAffineSync_eq, genAffineInit_eq, genHomogPinv_eq]
  rfl

/-- the same for the similarity alignment (the options of the original are the options of the re-fit) -/
theorem similarity_pinv_retarget {n d : ℕ} (ext : Ext) (hinv : HMat d → HMat d) (a : HObj n d) (T : Mat n d) :
    retarget HObj.ops (genSimilaritySync ext) (genHomogPinv hinv a) T =
      genSimilarityInit ext a a.target T a.rotation a.allowMirror := by
  rw [retarget, genSimilaritySync_eq, genSimilarityInit_eq, genHomogPinv_eq]
  rfl

/-- for the classes whose re-fit writes only its own block of the matrix, given that the inverse matrix stays in
the class (C03 / C04) -/
theorem rotation_pinv_retarget {n d : ℕ} (ext : Ext) (hinv : HMat d → HMat d) (a : HObj n d) (T : Mat n d) (R : Mat d d)
    (hshape : hinv a.h = rotationH R) :
    retarget HObj.ops (genRotationSync ext) (genHomogPinv hinv a) T = genRotationInit ext a a.target T a.allowMirror := by
  rw [retarget, genHomogPinv_eq, genRotationSync_eq ext _ R hshape, genRotationInit_eq]
  rfl

theorem translation_pinv_retarget {n d : ℕ} (ext : Ext) (hinv : HMat d → HMat d) (a : HObj n d) (T : Mat n d) (v : Vec d)
    (hshape : hinv a.h = translationH v) :
    retarget HObj.ops (genTranslationSync ext) (genHomogPinv hinv a) T = genTranslationInit ext a a.target T := by
  rw [retarget, genHomogPinv_eq, genTranslationSync_eq ext _ v hshape, genTranslationInit_eq]
  rfl

theorem scale_pinv_retarget {n d : ℕ} (ext : Ext) (hinv : HMat d → HMat d) (a : HObj n d) (T : Mat n d) (s : ℚ)
    (hshape : hinv a.h = scaleH s) :
    retarget HObj.ops (genScaleSync ext) (genHomogPinv hinv a) T = genScaleInit ext a a.target T := by
  rw [retarget, genHomogPinv_eq, genScaleSync_eq ext _ s hshape, genScaleInit_eq]
  rfl

end MenpoModel.GenProps.C07Src
