/-
C07 — the property, stated for the TRANSLATED code itself.

`Generated/C07Src.lean` is what the source text of the working tree says (harness/trans_c07.py); `GenProps/C07Src*.lean`
prove it equal to the Core model.  Here the clauses of the property are stated directly about the translated
constructors (`gen…Init`), about their `aligned_source` / `alignment_error` (`genAlignedSource`, `genAlignmentError`) and
about EVERY history of later `set_target` calls (`retargets … (gen…Sync)`), by transporting the theorems of
`Props/C07Base.lean` / `Props/C07.lean` along those equalities.

Externals: `ext.frob` (`np.linalg.norm`) and `ext.svd` (`np.linalg.svd`) are arbitrary functions; each theorem takes
their contract at exactly the arguments the code calls them with (`FrobAt`, `SvdOK`).
-/
import MenpoModel.GenProps.C07Src
import MenpoModel.GenProps.C07SrcPwa
import MenpoModel.GenProps.C07SrcTps
import MenpoModel.GenProps.C07SrcGpa

set_option linter.unusedSimpArgs false
set_option linter.unusedVariables false

namespace MenpoModel.GenProps.C07Src
open MenpoModel.C07 MenpoModel.Generated.C07

/-- the contract of `np.linalg.norm` at one array: the non-negative root of the sum of squares -/
structure FrobAt (ext : Ext) {n m : ℕ} (A : Mat n m) : Prop where
  nonneg : 0 ≤ ext.frob A
  sq : ext.frob A * ext.frob A = frob2 A

/-- the contract of `np.linalg.svd` at one matrix -/
def SvdAt (ext : Ext) {d : ℕ} (M : Mat d d) : Prop := SvdOK M (ext.svd M).1 (ext.svd M).2.1 (ext.svd M).2.2

/-- the object every homogeneous constructor starts from -/
abbrev blankH {n d : ℕ} : HObj n d := HObj.blank

/-! ### aligned source and alignment error, for every homogeneous alignment object -/

/-- **the reported aligned source is the transform applied to the source** -/
theorem src_aligned_source {n d : ℕ} (a : HObj n d) : genAlignedSource HObj.ops a = applyH a.h a.source := rfl

/-- **the alignment error is the distance between the target the object holds and its aligned source**
(the square of the reported number is the exact squared distance; the number is not negative) -/
theorem src_alignment_error {n d : ℕ} (ext : Ext) (a : HObj n d)
    (hf : FrobAt ext (msub a.target (applyH a.h a.source))) :
    0 ≤ genAlignmentError ext HObj.ops a ∧
      genAlignmentError ext HObj.ops a * genAlignmentError ext HObj.ops a = err2 a.target (applyH a.h a.source) :=
  ⟨hf.nonneg, hf.sq⟩

/-! ### translation -/

/-- the constructor keeps the requested target and source -/
theorem src_translation_fields {n d : ℕ} (ext : Ext) (S T : Mat n d) :
    (genTranslationInit ext blankH S T).source = S ∧ (genTranslationInit ext blankH S T).target = T := ⟨rfl, rfl⟩

/-- **least-squares optimal among all translations**, after any history of `set_target` calls -/
theorem src_translation_ls_optimal {n d : ℕ} (hn : n ≠ 0) (ext : Ext) (S T₀ : Mat n d) (Ts : List (Mat n d)) (u : Vec d) :
    let a := retargets HObj.ops (genTranslationSync ext) (genTranslationInit ext blankH S T₀) Ts
    err2 (genAlignedSource HObj.ops a) a.target ≤ err2 (applyH (translationH u) S) a.target := by
  intro a
  have ha : a = genTranslationInit ext blankH S (Ts.getLast?.getD T₀) := translation_retargets ext blankH S T₀ Ts
  rw [ha, genTranslationInit_eq]
  exact translation_ls_optimal hn S _ u

/-- **a translated source is recovered exactly** -/
theorem src_translation_recovery {n d : ℕ} (hn : n ≠ 0) (ext : Ext) (S : Mat n d) (u : Vec d) :
    (genTranslationInit ext blankH S (applyH (translationH u) S)).h = translationH u := by
  rw [genTranslationInit_eq]; exact translation_recovery hn S u

/-! ### uniform scale -/

/-- **the scale alignment reproduces the target's size**, after any history of `set_target` calls -/
theorem src_scale_reproduces_size {n d : ℕ} (ext : Ext) (S T₀ : Mat n d) (Ts : List (Mat n d))
    (hS : FrobAt ext (centred S)) (hS0 : ext.frob (centred S) ≠ 0)
    (hT : FrobAt ext (centred (Ts.getLast?.getD T₀))) :
    let a := retargets HObj.ops (genScaleSync ext) (genScaleInit ext blankH S T₀) Ts
    norm2 (genAlignedSource HObj.ops a) = norm2 a.target := by
  intro a
  have ha : a = genScaleInit ext blankH S (Ts.getLast?.getD T₀) := scale_retargets ext blankH S T₀ Ts
  rw [ha, genScaleInit_eq]
  exact scale_reproduces_size S _ _ _ hT.sq hS.sq hS0

/-- **a (positively) scaled source is recovered exactly** -/
theorem src_scale_recovery {n d : ℕ} (ext : Ext) (S : Mat n d) (σ : ℚ) (hσ : 0 ≤ σ)
    (hS : FrobAt ext (centred S)) (hS0 : 0 < ext.frob (centred S)) (hT : FrobAt ext (centred (applyH (scaleH σ) S))) :
    (genScaleInit ext blankH S (applyH (scaleH σ) S)).h = scaleH σ := by
  rw [genScaleInit_eq]
  exact scale_recovery S σ _ _ hσ hT.nonneg hT.sq hS0 hS.sq

/-! ### affine -/

/-- **least-squares optimal among all affine maps**; the object holds the requested target -/
theorem src_affine_ls_optimal {n d : ℕ} (S T : Mat n d) (a : HObj n d) (h : genAffineInit blankH S T = some a)
    (H' : HMat d) (hH' : IsAff H') :
    a.source = S ∧ a.target = T ∧ err2 (genAlignedSource HObj.ops a) T ≤ err2 (applyH H' S) T := by
  rw [genAffineInit_eq] at h
  cases hf : affineFit S T with
  | none => simp [hf] at h
  | some H =>
    simp only [hf, Option.map_some, Option.some.injEq] at h
    subst h
    exact ⟨rfl, rfl, affine_ls_optimal hf H' hH'⟩

/-- the same after a `set_target` (the re-fit solves the normal equations of the NEW target) -/
theorem src_affine_retarget_ls_optimal {n d : ℕ} (S T₀ T : Mat n d) (a b : HObj n d)
    (h : genAffineInit blankH S T₀ = some a) (hb : affineRetarget a T = some b) (H' : HMat d) (hH' : IsAff H') :
    b.source = S ∧ b.target = T ∧ err2 (genAlignedSource HObj.ops b) T ≤ err2 (applyH H' S) T := by
  rw [affine_retarget blankH S T₀ T a h] at hb
  exact src_affine_ls_optimal S T b hb H' hH'

/-- **an affine image of the source is recovered exactly** (full-rank source: an inverse of `a aᵀ` exists) -/
theorem src_affine_recovery {n d : ℕ} (S : Mat n d) (H₀ : HMat d) (h₀ : IsAff H₀) (a : HObj n d)
    (h : genAffineInit blankH S (applyH H₀ S) = some a) (Ginv : Mat (d + 1) (d + 1))
    (hG : mul Ginv (mul (hpoints S) (tr (hpoints S))) = one) : a.h = H₀ := by
  rw [genAffineInit_eq] at h
  cases hf : affineFit S (applyH H₀ S) with
  | none => simp [hf] at h
  | some H =>
    simp only [hf, Option.map_some, Option.some.injEq] at h
    subst h
    exact affine_exact_recovery h₀ hf Ginv hG

/-! ### rotation -/

theorem linPart_rotationH {d : ℕ} (R : Mat d d) : linPart (rotationH R) = R := by
  funext i j
  have hi : i.castSucc.val < d := by simp
  have hj : j.castSucc.val < d := by simp
  simp only [linPart, rotationH, mkH, hi, hj, dite_true]
  rfl

theorem src_rotation_h {n d : ℕ} (ext : Ext) (S T₀ : Mat n d) (m : Bool) (Ts : List (Mat n d)) :
    retargets HObj.ops (genRotationSync ext) (genRotationInit ext blankH S T₀ m) Ts =
      ⟨S, Ts.getLast?.getD T₀, rotationH (rotFitExt ext m S (Ts.getLast?.getD T₀)), true, m⟩ := by
  rw [rotation_retargets, genRotationInit_eq]; rfl

/-- **mirroring allowed: least-squares optimal among all orthogonal maps** (every dimension, every history) -/
theorem src_rotation_ls_optimal_mirror {n d : ℕ} (ext : Ext) (S T₀ : Mat n d) (Ts : List (Mat n d))
    (hsvd : SvdAt ext (corr S (Ts.getLast?.getD T₀))) (Q : Mat d d) (hQ : IsOrth Q) :
    let a := retargets HObj.ops (genRotationSync ext) (genRotationInit ext blankH S T₀ true) Ts
    err2 (genAlignedSource HObj.ops a) a.target ≤ err2 (applyH (rotationH Q) S) a.target := by
  intro a
  have ha := src_rotation_h ext S T₀ true Ts
  simp only [a, ha, src_aligned_source]
  exact rotation_ls_optimal_mirror S _ hsvd Q hQ

/-- **no mirroring: least-squares optimal among proper rotations, 2-D** -/
theorem src_rotation_ls_optimal_2d {n : ℕ} (ext : Ext) (S T₀ : Mat n 2) (Ts : List (Mat n 2))
    (hsvd : SvdAt ext (corr S (Ts.getLast?.getD T₀))) (Q : Mat 2 2) (hQ : IsOrth Q) (hQd : det Q = 1) :
    let a := retargets HObj.ops (genRotationSync ext) (genRotationInit ext blankH S T₀ false) Ts
    err2 (genAlignedSource HObj.ops a) a.target ≤ err2 (applyH (rotationH Q) S) a.target := by
  intro a
  have ha := src_rotation_h ext S T₀ false Ts
  simp only [a, ha, src_aligned_source]
  exact rotation_ls_optimal_2d S _ hsvd Q hQ hQd

/-- **no mirroring: least-squares optimal among proper rotations, 3-D** -/
theorem src_rotation_ls_optimal_3d {n : ℕ} (ext : Ext) (S T₀ : Mat n 3) (Ts : List (Mat n 3))
    (hsvd : SvdAt ext (corr S (Ts.getLast?.getD T₀))) (Q : Mat 3 3) (hQ : IsOrth Q) (hQd : det Q = 1) :
    let a := retargets HObj.ops (genRotationSync ext) (genRotationInit ext blankH S T₀ false) Ts
    err2 (genAlignedSource HObj.ops a) a.target ≤ err2 (applyH (rotationH Q) S) a.target := by
  intro a
  have ha := src_rotation_h ext S T₀ false Ts
  simp only [a, ha, src_aligned_source]
  exact rotation_ls_optimal_3d S _ hsvd Q hQ hQd

/-- **never a reflection unless mirroring was allowed** (2-D and 3-D, every history: the re-fit keeps the option) -/
theorem src_rotation_no_reflection_2d {n : ℕ} (ext : Ext) (S T₀ : Mat n 2) (Ts : List (Mat n 2))
    (hsvd : SvdAt ext (corr S (Ts.getLast?.getD T₀))) :
    det (linPart (retargets HObj.ops (genRotationSync ext) (genRotationInit ext blankH S T₀ false) Ts).h) = 1 := by
  rw [src_rotation_h]
  rw [linPart_rotationH]
  exact rotation_no_reflection_2d hsvd.orthU hsvd.orthV

theorem src_rotation_no_reflection_3d {n : ℕ} (ext : Ext) (S T₀ : Mat n 3) (Ts : List (Mat n 3))
    (hsvd : SvdAt ext (corr S (Ts.getLast?.getD T₀))) :
    det (linPart (retargets HObj.ops (genRotationSync ext) (genRotationInit ext blankH S T₀ false) Ts).h) = 1 := by
  rw [src_rotation_h]
  rw [linPart_rotationH]
  exact rotation_no_reflection_3d hsvd.orthU hsvd.orthV

/-! ### similarity -/

theorem src_similarity_h {n d : ℕ} (ext : Ext) (S T₀ : Mat n d) (r m : Bool) (Ts : List (Mat n d)) :
    retargets HObj.ops (genSimilaritySync ext) (genSimilarityInit ext blankH S T₀ r m) Ts =
      ⟨S, Ts.getLast?.getD T₀, simFitExt ext r m S (Ts.getLast?.getD T₀), r, m⟩ := by
  rw [similarity_retargets, genSimilarityInit_eq]

/-- **the similarity alignment reproduces the target's centroid** (any options, any history; a source of positive size:
for a zero-size source the code divides by zero and has no finite answer) -/
theorem src_similarity_reproduces_centroid {n d : ℕ} (hn : n ≠ 0) (ext : Ext) (S T₀ : Mat n d) (r m : Bool)
    (Ts : List (Mat n d)) (hS0 : normExt ext S ≠ 0) :
    let a := retargets HObj.ops (genSimilaritySync ext) (genSimilarityInit ext blankH S T₀ r m) Ts
    centroid (genAlignedSource HObj.ops a) = centroid a.target := by
  intro a
  simp only [a, src_similarity_h, src_aligned_source, simFitExt]
  exact similarity_reproduces_centroid hn r _ _ _ S _

/-- **… and its overall size** -/
theorem src_similarity_reproduces_size {n d : ℕ} (hn : n ≠ 0) (ext : Ext) (S T₀ : Mat n d) (r m : Bool)
    (Ts : List (Mat n d)) (hS : FrobAt ext (centred S)) (hS0 : ext.frob (centred S) ≠ 0)
    (hT : FrobAt ext (centred (Ts.getLast?.getD T₀)))
    (hsvd : r = true → SvdAt ext (corr (simAlignedSrc (normExt ext (Ts.getLast?.getD T₀) / normExt ext S) S)
      (simAlignedTgt (Ts.getLast?.getD T₀)))) :
    let a := retargets HObj.ops (genSimilaritySync ext) (genSimilarityInit ext blankH S T₀ r m) Ts
    norm2 (genAlignedSource HObj.ops a) = norm2 a.target := by
  intro a
  simp only [a, src_similarity_h, src_aligned_source, simFitExt]
  refine similarity_reproduces_size hn r _ _ _ (fun hr => ?_) S _ hT.sq hS.sq hS0
  have h := hsvd hr
  exact rotFit_isOrth m h.orthU h.orthV

/-- **the similarity alignment uses the least-squares rotation** (mirroring allowed: among all orthogonal maps) -/
theorem src_similarity_uses_ls_rotation_mirror {n d : ℕ} (ext : Ext) (S T₀ : Mat n d) (Ts : List (Mat n d))
    (hsvd : SvdAt ext (corr (simAlignedSrc (normExt ext (Ts.getLast?.getD T₀) / normExt ext S) S)
      (simAlignedTgt (Ts.getLast?.getD T₀)))) (Q : Mat d d) (hQ : IsOrth Q) :
    let a := retargets HObj.ops (genSimilaritySync ext) (genSimilarityInit ext blankH S T₀ true true) Ts
    err2 (genAlignedSource HObj.ops a) a.target ≤
      err2 (applyH (simFit true (normExt ext a.target) (normExt ext S) Q S a.target) S) a.target := by
  intro a
  simp only [a, src_similarity_h, src_aligned_source, simFitExt, rotFitExt]
  exact similarity_uses_ls_rotation_mirror _ _ S _ hsvd Q hQ

theorem src_similarity_uses_ls_rotation_2d {n : ℕ} (ext : Ext) (S T₀ : Mat n 2) (Ts : List (Mat n 2))
    (hsvd : SvdAt ext (corr (simAlignedSrc (normExt ext (Ts.getLast?.getD T₀) / normExt ext S) S)
      (simAlignedTgt (Ts.getLast?.getD T₀)))) (Q : Mat 2 2) (hQ : IsOrth Q) (hQd : det Q = 1) :
    let a := retargets HObj.ops (genSimilaritySync ext) (genSimilarityInit ext blankH S T₀ true false) Ts
    err2 (genAlignedSource HObj.ops a) a.target ≤
      err2 (applyH (simFit true (normExt ext a.target) (normExt ext S) Q S a.target) S) a.target := by
  intro a
  simp only [a, src_similarity_h, src_aligned_source, simFitExt, rotFitExt]
  exact similarity_uses_ls_rotation_2d _ _ S _ hsvd Q hQ hQd

theorem src_similarity_uses_ls_rotation_3d {n : ℕ} (ext : Ext) (S T₀ : Mat n 3) (Ts : List (Mat n 3))
    (hsvd : SvdAt ext (corr (simAlignedSrc (normExt ext (Ts.getLast?.getD T₀) / normExt ext S) S)
      (simAlignedTgt (Ts.getLast?.getD T₀)))) (Q : Mat 3 3) (hQ : IsOrth Q) (hQd : det Q = 1) :
    let a := retargets HObj.ops (genSimilaritySync ext) (genSimilarityInit ext blankH S T₀ true false) Ts
    err2 (genAlignedSource HObj.ops a) a.target ≤
      err2 (applyH (simFit true (normExt ext a.target) (normExt ext S) Q S a.target) S) a.target := by
  intro a
  simp only [a, src_similarity_h, src_aligned_source, simFitExt, rotFitExt]
  exact similarity_uses_ls_rotation_3d _ _ S _ hsvd Q hQ hQd

/-- **never a reflection unless mirroring was allowed**: the linear part of the similarity alignment is the norm ratio
times a proper rotation (2-D / 3-D, every history) -/
theorem src_similarity_no_reflection_2d {n : ℕ} (ext : Ext) (S T₀ : Mat n 2) (Ts : List (Mat n 2))
    (hsvd : SvdAt ext (corr (simAlignedSrc (normExt ext (Ts.getLast?.getD T₀) / normExt ext S) S)
      (simAlignedTgt (Ts.getLast?.getD T₀)))) :
    ∃ R : Mat 2 2, IsOrth R ∧ det R = 1 ∧
      linPart (retargets HObj.ops (genSimilaritySync ext) (genSimilarityInit ext blankH S T₀ true false) Ts).h =
        smul (normExt ext (Ts.getLast?.getD T₀) / normExt ext S) R := by
  refine ⟨_, rotFit_isOrth false hsvd.orthU hsvd.orthV, rotation_no_reflection_2d hsvd.orthU hsvd.orthV, ?_⟩
  rw [src_similarity_h]
  exact linPart_simFit_rot ..

theorem src_similarity_no_reflection_3d {n : ℕ} (ext : Ext) (S T₀ : Mat n 3) (Ts : List (Mat n 3))
    (hsvd : SvdAt ext (corr (simAlignedSrc (normExt ext (Ts.getLast?.getD T₀) / normExt ext S) S)
      (simAlignedTgt (Ts.getLast?.getD T₀)))) :
    ∃ R : Mat 3 3, IsOrth R ∧ det R = 1 ∧
      linPart (retargets HObj.ops (genSimilaritySync ext) (genSimilarityInit ext blankH S T₀ true false) Ts).h =
        smul (normExt ext (Ts.getLast?.getD T₀) / normExt ext S) R := by
  refine ⟨_, rotFit_isOrth false hsvd.orthU hsvd.orthV, rotation_no_reflection_3d hsvd.orthU hsvd.orthV, ?_⟩
  rw [src_similarity_h]
  exact linPart_simFit_rot ..

/-! ### generalized Procrustes: every member is a similarity alignment built by the translated constructor -/

theorem simObj_eq_init {n d : ℕ} (ext : Ext) (m : Bool) (S T : Mat n d) :
    simObj ext m S T = genSimilarityInit ext blankH S T true m := by rw [genSimilarityInit_eq]; rfl

/-- **on every exit path of the translated `GeneralizedProcrustesAnalysis.__init__`, every member is exactly what the
translated `AlignmentSimilarity(source, Tf, allow_mirror=m)` builds, for one common final target `Tf`** — so every
`src_similarity_*` clause above (centroid, size, least-squares rotation, no reflection; with `Ts = []`) holds for it -/
theorem src_gpa_members {n d : ℕ} (ext : Ext) (fuel : ℕ) (sources : List (Mat n d)) (target : Option (Mat n d))
    (m : Bool) (g : GObj n d) (h : genGpaInit ext (genGpaRec ext fuel) GObj.blank sources target m = some g) :
    ∃ Tf : Mat n d, (target = none → g.target = Tf) ∧ g.transforms.length = sources.length ∧
      ∀ t ∈ g.transforms, ∃ S ∈ sources, t = genSimilarityInit ext blankH S Tf true m := by
  obtain ⟨Tf, ht, htt⟩ := src_gpa_transforms_are_alignments ext fuel sources target m g h
  refine ⟨Tf, htt, by rw [ht, List.length_map], fun t htm => ?_⟩
  rw [ht] at htm
  obtain ⟨S, hS, rfl⟩ := List.mem_map.1 htm
  exact ⟨S, hS, simObj_eq_init ext m S Tf⟩

/-- in particular every member reproduces the size of the common final target -/
theorem src_gpa_reproduces_size {n d : ℕ} (hn : n ≠ 0) (ext : Ext) (fuel : ℕ) (sources : List (Mat n d))
    (target : Option (Mat n d)) (m : Bool) (g : GObj n d)
    (h : genGpaInit ext (genGpaRec ext fuel) GObj.blank sources target m = some g) :
    ∃ Tf : Mat n d, ∀ t ∈ g.transforms, FrobAt ext (centred t.source) → ext.frob (centred t.source) ≠ 0 →
      FrobAt ext (centred Tf) →
      SvdAt ext (corr (simAlignedSrc (normExt ext Tf / normExt ext t.source) t.source) (simAlignedTgt Tf)) →
      norm2 (genAlignedSource HObj.ops t) = norm2 Tf := by
  obtain ⟨Tf, _, _, hm⟩ := src_gpa_members ext fuel sources target m g h
  refine ⟨Tf, fun t ht hS hS0 hT hsvd => ?_⟩
  obtain ⟨S, _, rfl⟩ := hm t ht
  have := src_similarity_reproduces_size hn ext S Tf true m [] (by simpa [genSimilarityInit_eq] using hS)
    (by simpa [genSimilarityInit_eq] using hS0) hT (fun _ => by simpa [genSimilarityInit_eq] using hsvd)
  simpa [retargets, genSimilarityInit_eq] using this

/-! ### piecewise affine -/

/-- the object `PythonPWA(source, target)` builds, and the triangle list it works on -/
theorem src_pwa_object (delaunay : (ℕ → V2) → List Tri) (source : SrcShape) (tgt : ℕ → V2) :
    ∃ a, genPythonPwaInit delaunay PwaObj.blank source tgt = some a ∧ a.source.trilist = pwaTrisOf delaunay source ∧
      a.target = tgt := by
  refine ⟨_, genPythonPwaInit_eq delaunay source tgt, ?_, rfl⟩
  cases source <;> rfl

/-- **a mesh source keeps its own triangulation** (the alignment is affine inside each of ITS triangles) -/
theorem src_pwa_mesh_keeps_trilist (delaunay : (ℕ → V2) → List Tri) (m : Mesh) (tgt : ℕ → V2) (a : PwaObj)
    (h : genPythonPwaInit delaunay PwaObj.blank (.mesh m) tgt = some a) : genPwaTrilist a = m.trilist := by
  rw [genPythonPwaInit_eq] at h
  simp only [Option.some.injEq] at h
  subst h; rfl

/-- **every source landmark is sent exactly onto its target landmark**, given the conformity certificate of the
triangle list the object works on -/
theorem src_pwa_interpolates (shape : SrcShape) (src tgt : ℕ → V2) (tris : List Tri) (hcert : pwaCertB src tris = true)
    (v : ℕ) (hv : ∃ t ∈ tris, IsVertex t v) :
    genPwaApply genPythonPwaIndexAlphaBeta (pwaObjOf shape src tgt tris) (src v) = some (tgt v) := by
  rw [genPwaApply_eq]; exact pwa_interpolates_cert src tgt tris hcert v hv

/-- **affine on every closed source triangle** (hence continuous across edges and vertices) -/
theorem src_pwa_affine_on_closed_triangle (shape : SrcShape) (src tgt : ℕ → V2) (tris : List Tri)
    (hcert : pwaCertB src tris = true) (t : Tri) (ht : t ∈ tris) (p : V2) (hc : containsAB (triAB src t p) = true) :
    genPwaApply genPythonPwaIndexAlphaBeta (pwaObjOf shape src tgt tris) p = some (triMap src tgt t p) := by
  rw [genPwaApply_eq]; exact pwa_affine_on_closed_triangle src tgt tris hcert t ht p hc

/-- the same after a `set_target`: the source vectors and the triangle list are untouched, the target vectors rebuilt -/
theorem src_pwa_retarget_interpolates (shape : SrcShape) (src tgt₀ tgt : ℕ → V2) (tris : List Tri)
    (h : shape.trilist = tris) (hcert : pwaCertB src tris = true) (v : ℕ) (hv : ∃ t ∈ tris, IsVertex t v) :
    genPwaApply genPythonPwaIndexAlphaBeta (retarget PwaObj.ops genPwaSync (pwaObjOf shape src tgt₀ tris) tgt) (src v) =
      some (tgt v) := by
  rw [pwa_retarget shape src tgt₀ tgt tris h]; exact src_pwa_interpolates shape src tgt tris hcert v hv

/-! ### thin-plate splines -/

/-- **every source landmark is sent exactly onto its target landmark** when no singular value is dropped — for the
constructor's object and after any `set_target` (the system matrix is the source's) -/
theorem src_tps_interpolates {n : ℕ} (ext : Ext) (kern : Kern n) (S T₀ T : Mat n 2) (minSing : ℚ) (hmin : 0 < minSing)
    (hK : ∀ i j, kern.app S i j = kern.app S j i) (hsvd : SvdAt ext (tpsL (kern.app S) S))
    (hall : ∀ i, minSing ≤ (ext.svd (tpsL (kern.app S) S)).2.1 i) :
    genTpsApply (retarget TpsObj.ops (genTpsSync ext) (tpsObjOf ext kern S T₀ minSing) T) S = some T := by
  rw [tps_retarget, genTpsApply_eq]
  congr 1
  funext i
  exact tps_svd_interpolates (kern.app S) S T _ _ _ minSing hmin hsvd (tpsL_symm _ S hK) hall i

/-- the constructor's own object (no `set_target`) -/
theorem src_tps_init_interpolates {n : ℕ} (ext : Ext) (rbf : Mat n 2 → Kern n) (S T : Mat n 2) (kernel : Option (Kern n))
    (minSing : ℚ) (hmin : 0 < minSing) (a : TpsObj n) (h : genTpsInit ext rbf TpsObj.blank S T kernel minSing = some a)
    (hK : ∀ i j, a.kernel.app S i j = a.kernel.app S j i) (hsvd : SvdAt ext (tpsL (a.kernel.app S) S))
    (hall : ∀ i, minSing ≤ (ext.svd (tpsL (a.kernel.app S) S)).2.1 i) :
    genTpsApply a S = some T := by
  rw [genTpsInit_eq] at h
  simp only [Option.some.injEq] at h
  subst h
  rw [genTpsApply_eq]
  congr 1
  funext i
  exact tps_svd_interpolates _ S T _ _ _ minSing hmin hsvd (tpsL_symm _ S hK) hall i

/-! ### the hypotheses are satisfiable: concrete externals on concrete data -/

/-- externals that answer correctly on the example data: norms `2` and `4` (`norm2 = 4`, `16`), the exact rational SVD
`exU · diag exD · exVt` -/
def exExt : Ext where
  frob A := if frob2 A = 4 then 2 else if frob2 A = 16 then 4 else 0
  svd _ := (ofArr #[#[(3:Rat)/5,-4/5],#[4/5,3/5]], fun i => (#[(2:Rat),1] : Array Rat).getD i.val 0,
            ofArr #[#[(5:Rat)/13,12/13],#[12/13,-5/13]])

example : FrobAt exExt (centred exS3) := ⟨by decide +kernel, by decide +kernel⟩
example : FrobAt exExt (centred exT3) := ⟨by decide +kernel, by decide +kernel⟩
example : SvdAt exExt (corr exS2 exT2) := svdContractB_sound (by decide +kernel)

/-- the scale alignment built by the translated constructor, re-aimed twice, reproduces the size of the last target -/
example : norm2 (genAlignedSource HObj.ops
      (retargets HObj.ops (genScaleSync exExt) (genScaleInit exExt blankH exS3 exS3) [exS3, exT3])) = norm2 exT3 :=
  src_scale_reproduces_size exExt exS3 exS3 [exS3, exT3] ⟨by decide +kernel, by decide +kernel⟩ (by decide +kernel)
    ⟨by decide +kernel, by decide +kernel⟩

/-- the rotation alignment built by the translated constructor (no mirroring: the corrected branch, `det (U·Vt) = -1`)
is no reflection and beats the concrete proper rotation `exU` -/
example : det (linPart (genRotationInit exExt blankH exS2 exT2 false).h) = 1 :=
  src_rotation_no_reflection_2d exExt exS2 exT2 [] (svdContractB_sound (by decide +kernel))
example : err2 (genAlignedSource HObj.ops (genRotationInit exExt blankH exS2 exT2 false)) exT2 ≤
    err2 (applyH (rotationH exU) exS2) exT2 :=
  src_rotation_ls_optimal_2d exExt exS2 exT2 [] (svdContractB_sound (by decide +kernel)) exU
    ⟨matEqB_eq (by decide +kernel), matEqB_eq (by decide +kernel)⟩ (by decide +kernel)

/-- the affine constructor succeeds on the generic 4-point example, and the translated piecewise-affine `_apply` on
the translated constructor's object sends a landmark onto its target landmark -/
example : (genAffineInit blankH exS exT).isSome = true := by
  rw [genAffineInit_eq]; simp only [Option.isSome_map]; decide +kernel
example : genPwaApply genPythonPwaIndexAlphaBeta (pwaObjOf (.mesh ⟨exSrc, exTris⟩) exSrc exTgt exTris) (exSrc 3) =
    some (exTgt 3) :=
  src_pwa_interpolates _ exSrc exTgt exTris (by decide +kernel) 3 ⟨(1, 3, 2), by simp [exTris], Or.inr (Or.inl rfl)⟩

end MenpoModel.GenProps.C07Src
