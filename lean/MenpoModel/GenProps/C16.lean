/-
C16 — obligations over the tables `Generated.C16` (rewritten from the live code on every run): the exporter
dictionaries the public `export_*` functions hand to the shared export machinery and the importer dictionaries the
public `import_*` functions hand to `_import`, each as (extension, name of the callable) sorted by extension.

* the live dictionaries are the model's (`exporterTable`, `importerTable`): a new or dropped extension, or another
  callable behind an extension, breaks the obligation before any behaviour is sampled;
* the live dictionaries pass the check the agreement theorem needs, so the theorem is instantiated AT THE LIVE
  DICTIONARIES: for every file name, exporter and importer choose the same (extension, compressed);
* the live `_ljson_parser_for_version` is the model's dispatch table and the version number the live exporter writes
  is 3, the version whose parser the round-trip theorem is about.
-/
import MenpoModel.Props.C16Ext
import MenpoModel.Props.C16Legacy
import MenpoModel.Generated.C16Tables

namespace MenpoModel.GenProps.C16
open MenpoModel.C16

def exporterLive : Kind → List (String × String)
  | .landmark => Generated.C16.landmarkExporters
  | .image => Generated.C16.imageExporters
  | .pickle => Generated.C16.pickleExporters
  | .video => Generated.C16.videoExporters

def importerLive : Kind → List (String × String)
  | .landmark => Generated.C16.landmarkImporters
  | .image => Generated.C16.imageImporters
  | .pickle => Generated.C16.pickleImporters
  | .video => Generated.C16.videoImporters

theorem exporterLive_ok : ∀ k, exporterLive k = exporterTable k := by
  intro k; cases k <;> decide +kernel

theorem importerLive_ok : ∀ k, importerLive k = importerTable k := by
  intro k; cases k <;> decide +kernel

theorem live_tables_ok : ∀ k, TablesOK (exporterLive k) (importerLive k) (k == .pickle) = true := by
  intro k; cases k <;> decide +kernel

/-- the agreement theorem at the dictionaries of the code that exists now -/
theorem export_import_agree_live (k : Kind) (name : List Char) (d : List Char × Bool)
    (h : exportDecisionT (exporterLive k) (k == .pickle) name = some d) :
    importDecisionT (importerLive k) name = some d :=
  (decisions_agree_of_tables _ _ _ (live_tables_ok k) name d h).1

/-- the live `_ljson_parser_for_version` is the table `ljson_dispatch_is_table` is about -/
theorem ljsonParsers_ok : Generated.C16.ljsonParsers = parserTable := by decide

/-- the live exporter writes the version whose parser the round-trip theorem (`ljson_roundtrip`) is about -/
theorem ljsonExportedVersion_ok : Generated.C16.ljsonExportedVersion = 3 ∧
    Generated.C16.ljsonParsers.find? (fun e => e.1 == Generated.C16.ljsonExportedVersion) =
      some (3, "_parse_ljson_v3") := by decide

end MenpoModel.GenProps.C16
