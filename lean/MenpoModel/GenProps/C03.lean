/-
C03 — obligations over the regenerated class table (DESIGN.md 2.3b, Appendix 13 item 1).

`Generated/C03Classes.lean` is rewritten from the live classes of menpo.transform by every
`./check C03`; these `decide` proofs are therefore re-checked against what the code says *now*.
All C03 theorems are stated over `expectedClassTable`; these obligations are what makes them
theorems about the current class hierarchy, `composes_inplace_with` / `composes_with` gates and
`as_non_alignment()` result classes.  A thirteenth family class, a changed MRO, a changed gate or
a changed alignment-stripping class, or a compose entry point supplied by another class of the MRO
breaks them before any behaviour is sampled.
-/
import MenpoModel.Generated.C03Classes
import MenpoModel.Core.C03Entry

namespace MenpoModel.GenProps.C03
open MenpoModel.C03

theorem familySize_ok : MenpoModel.Generated.C03.familySize = 12 := by decide

theorem classTable_ok : MenpoModel.Generated.C03.classTable = expectedClassTable := by decide

theorem classTable3_ok : MenpoModel.Generated.C03.classTable3 = expectedClassTable := by decide

/-- every entry point of the composition machinery resolves, on every class, to the function body the
model transcribes (an override of `_compose_before_inplace` in an alignment class, a new `_apply`,
a `copy` that stops being `Copyable.copy` on chains … breaks this before any behaviour is sampled) -/
theorem methodTable_ok : MenpoModel.Generated.C03.methodTable = expectedMethodTable := by decide

/-- the composition gates of the classes outside the family: a `TransformChain` composes (in place
and not) with every `Transform`; `WithDims`, thin-plate splines and piecewise affine transforms are
not `ComposableTransform`s (they have no gate: their `compose_before/after` always build a chain) -/
theorem otherGates_ok : MenpoModel.Generated.C03.otherGates = expectedOtherGates := by decide

end MenpoModel.GenProps.C03
