/-
C17 — obligations over the regenerated table `Generated.C17.queryWrites` (rewritten from the live mesh
classes on every run): which instance attributes each public query of TriMesh / ColouredTriMesh /
TexturedTriMesh rebinds, adds, removes or modifies in place.

`queryWrites_ok`: the table CONTAINS the rows the model assumes — every public query the model lists, none of them
writing anything but the lazily created (empty) landmark manager.  `geometry_never_written`: in
particular `points`, `trilist`, `colours`, `tcoords`, `texture` are never written and no attribute is
ever added: that is the frame condition of `queries_pure` / `mask_after_queries` for the real classes.
A memo kept on the instance by any query (an `_edge_indices` cache, say) breaks these obligations.

`suppliers_ok`: which class of the MRO defines each modelled method, for the three classes, is what the
model assumes (`from_mask` overridden per class, everything else TriMesh's, `copy` Copyable's).
`mechanism_ok`: the names referred to by the bodies `Core/C17Mesh.lean` still only transcribes (`TriMesh.as_pointgraph`,
`subsampled_grid_triangulation`) are those of the code that was transcribed.  Every other anchored function is translated
from its source text on every run and proved equal to the model (`GenProps/C17Src*.lean`), which supersedes a
fingerprint of names (and does not break on a behaviour-preserving rewrite).
-/
import MenpoModel.Core.C17Mesh
import MenpoModel.Generated.C17Writes

namespace MenpoModel.GenProps.C17
open MenpoModel.C17

/-- every query the model lists is there and writes what the model assumes (a NEW public attribute of the classes does not
break this; if it wrote geometry it would break `geometry_never_written`) -/
theorem queryWrites_ok : ∀ row ∈ expectedQueryWrites, row ∈ MenpoModel.Generated.C17.queryWrites := by decide +kernel

theorem geometry_never_written :
    ∀ row ∈ MenpoModel.Generated.C17.queryWrites, ∀ a ∈ row.2.2, a = "_landmarks" := by decide +kernel

theorem suppliers_ok : MenpoModel.Generated.C17.suppliers = expectedSuppliers := by decide +kernel

theorem mechanism_ok : MenpoModel.Generated.C17.mechanism = expectedMechanism := by decide +kernel

end MenpoModel.GenProps.C17
