/-
C15 — obligations over the SOURCE-TEXT translation `Generated/C15Src.lean` (hand-written; re-checked by `lake build` on every
run against what the source says now).

Part 1: every translated function equals, for ALL arguments, the code-shaped Core definition of Core/C15Src.lean
(`…_eq`).  The proofs are shape-independent: unfold, normalise the vocabulary (`src_unfold`), then `rfl` or a case split
on every `if` / `match` followed by `simp_all` (`src_close`); `for` loops through `forLoop_exit` (a translated loop
whose body may raise = the monadic fold of its step function).  A harmless rewrite of the Python (renamed temporary,
re-ordered independent statements, inverted test with swapped arms) keeps them; a changed decision breaks them.

Part 2 composes them with `Props/C15Src.lean` (code-shaped definition = the definition of Core/C15.lean the property theorems
are about, on every well-formed group): the property theorems become theorems about the translated source.
-/
import MenpoModel.Generated.C15Src
import MenpoModel.Props.C15
import Mathlib.Tactic.SplitIfs

set_option linter.unusedSimpArgs false
set_option linter.unusedVariables false

namespace MenpoModel.C15.GenProps.Src
open MenpoModel.C15 MenpoModel.C15.Src MenpoModel.C15.SrcGen

@[simp] theorem truth_bool (b : Bool) : PyTruth.truth b = b := rfl
@[simp] theorem truth_list {a} (l : List a) : PyTruth.truth l = !l.isEmpty := rfl
@[simp] theorem truth_dict {β} (d : ODict β) : PyTruth.truth d = !d.items.isEmpty := rfl
@[simp] theorem iter_list {a} (l : List a) : PyIter.iter l = l := rfl
@[simp] theorem iter_arg (a : PyArg) : PyIter.iter a = a.elems := rfl
@[simp] theorem iter_dict {β} (d : ODict β) : PyIter.iter d = d.keys := rfl
@[simp] theorem shape_list {a} (l : List a) : PyShape.shape0 l = .ok l.length := rfl
@[simp] theorem shape_mask (m : NpMask) : PyShape.shape0 m = m.shape0 := rfl
@[simp] theorem shape_adj (m : Adj) : PyShape.shape0 m = .ok m.shape0 := rfl
@[simp] theorem shapeD_adj (m : Adj) : PyShape.shape0D m = m.shape0 := rfl
@[simp] theorem has_arg (a : PyArg) (k : String) : PyHas.has a k = a.has k := rfl
@[simp] theorem has_list (a : List String) (k : String) : PyHas.has a k = a.contains k := rfl
@[simp] theorem has_dict {β} (a : ODict β) (k : String) : PyHas.has a k = a.has k := rfl

/-- the comprehension `[E for x in l if C]` as filter + map -/
theorem filterMap_ite {a b} (p : a → Bool) (f : a → b) (l : List a) :
    List.filterMap (fun x => if p x = true then some (f x) else none) l = (l.filter p).map f := by
  induction l with
  | nil => rfl
  | cons x xs ih => by_cases h : p x = true <;> simp [List.filterMap_cons, List.filter_cons, h, ih]

theorem filterMap_ite_not {a b} (p : a → Bool) (f : a → b) (l : List a) :
    List.filterMap (fun x => if p x = false then some (f x) else none) l = (l.filter fun x => !p x).map f := by
  induction l with
  | nil => rfl
  | cons x xs ih => by_cases h : p x = true <;> simp [List.filterMap_cons, List.filter_cons, h, ih]

/-- a translated `for` loop whose body may raise (the exit is carried in the first component) is the monadic fold of
its step function -/
theorem forLoop_exit {ε σ ρ α : Type} (step : σ → α → Except ε σ)
    (body : Option (Except ε ρ) × σ → α → Option (Except ε ρ) × σ)
    (hstop : ∀ st x, st.1.isSome = true → body st x = st)
    (hok : ∀ s x s', step s x = .ok s' → body (none, s) x = (none, s'))
    (herr : ∀ s x e, step s x = .error e → (body (none, s) x).1 = some (.error e))
    (xs : List α) (s : σ) :
    (∀ e, xs.foldlM step s = .error e → (MenpoModel.Py.forLoop (none, s) xs body).1 = some (.error e)) ∧
    (∀ s', xs.foldlM step s = .ok s' → MenpoModel.Py.forLoop (none, s) xs body = (none, s')) := by
  have stopped : ∀ (xs : List α) (st : Option (Except ε ρ) × σ), st.1.isSome = true →
      MenpoModel.Py.forLoop st xs body = st := by
    intro xs
    induction xs with
    | nil => intro st _; rfl
    | cons x xs ih => intro st h; rw [MenpoModel.Py.forLoop_cons, hstop st x h]; exact ih st h
  induction xs generalizing s with
  | nil =>
    constructor
    · intro e h; cases h
    · intro s' h; simp only [List.foldlM_nil] at h; cases h; rfl
  | cons x xs ih =>
    rw [MenpoModel.Py.forLoop_cons, List.foldlM_cons]
    cases hs : step s x with
    | ok s' => rw [hok s x s' hs]; exact ih s'
    | error e =>
      have h1 := herr s x e hs
      have h2 : (body (none, s) x).1.isSome = true := by rw [h1]; rfl
      rw [stopped xs _ h2]
      constructor
      · intro e' h; cases h; exact h1
      · intro s' h; cases h

theorem lookupG_eq (ls : List (String × List Bool)) (l : String) : lookupG ls l = lookup ls l := by
  induction ls with
  | nil => rfl
  | cons p ps ih => obtain ⟨k, v⟩ := p; simp only [lookupG, lookup, ih]

/-- `d[l]` under the comprehension's own test `l in d` -/
theorem guarded_get (ls : List (String × List Bool)) (l : String) :
    (if (ODict.mk ls).has l = true then some ((ODict.mk ls).getD l []) else none) = lookup ls l := by
  simp only [ODict.has, ODict.getD, lookupG_eq]
  cases lookup ls l <;> rfl

macro "src_norm" : tactic => `(tactic| try simp only [inlined, filterMap_ite, filterMap_ite_not, List.map_id', truth_dict, truth_bool, truth_list,
  guarded_get, shape_list, shape_mask, shape_adj, shapeD_adj, iter_list, iter_arg, iter_dict, has_arg, has_list, has_dict])
/-- the closing portfolio: definitional equality; else a case split on every `if` / `match` of both sides and `simp_all`,
the second time with the equivalences between the ways Python asks whether a collection is empty -/
macro "src_close" : tactic => `(tactic| first
  | rfl
  | ((repeat' split) <;> simp_all <;> done)
  | ((repeat' split) <;> simp_all [List.isEmpty_iff, List.length_pos_iff, List.length_eq_zero_iff, Nat.pos_iff_ne_zero]
      <;> done)
  | ((repeat' split) <;> (try split_ifs at *) <;> (try simp_all) <;> (try omega) <;> done))

theorem labels_prop_eq {α} (g : LGraph α) : labels_prop g = g.names := by
  unfold labels_prop LGraph.names ODict.keys
  try (src_norm <;> src_close)

theorem verify_eq {α} (g : LGraph α) : verify_all_labels_masked g = verifyCovered g := by
  unfold verify_all_labels_masked verifyCovered ODict.values
  try (src_norm <;> src_close)

theorem from_mask_eq {α} (g : LGraph α) (mask : NpMask) : from_mask g mask = fromMaskC g mask := by
  unfold from_mask fromMaskC
  cases mask with
  | scalar b => rfl
  | arr m =>
    simp only [shape_mask, NpMask.shape0, NpMask.all, puInit, adjOf, maskAdjPts]
    repeat' split
    all_goals simp_all

theorem lpug_init_eq {α} (pts : List α) (adj : Adj) (d : ODict (List Bool)) (c k : Bool) :
    lpug_init pts adj d c k = constructC pts adj d c k := by
  unfold lpug_init constructC
  simp only [verify_eq, truth_dict, truth_bool, shape_list, iter_list]
  cases puInit pts adj k with
  | error e => rfl
  | ok g0 =>
    simp only []
    repeat' split
    all_goals simp_all

macro "src_unfold" : tactic => `(tactic| simp only [inlined, truth_list, filterMap_ite, filterMap_ite_not, List.map_id', labels_prop_eq, verify_eq, from_mask_eq, lpug_init_eq, truth_dict, truth_bool,
  guarded_get, shape_list, shape_mask, shape_adj, shapeD_adj, iter_list, iter_arg, iter_dict, has_arg, has_list, has_dict])

theorem new_group_eq {α} (g : LGraph α) (a : PyArg) : new_group_with_only_labels g a = selectC g a := by
  unfold new_group_with_only_labels selectC
  src_unfold
  src_close

theorem with_labels_eq {α} (g : LGraph α) (a : PyArg) : with_labels g a = withLabelsC g a := by
  unfold with_labels withLabelsC
  simp only [new_group_eq]
  src_close

theorem without_labels_eq {α} (g : LGraph α) (a : PyArg) : without_labels g a = withoutLabelsC g a := by
  unfold without_labels withoutLabelsC
  simp only [new_group_eq]
  src_unfold
  src_close

theorem get_label_eq {α} (g : LGraph α) (l : String) : get_label g l = getLabelC g l := by
  unfold get_label getLabelC
  src_unfold
  simp only [ODict.get, lookupG_eq]
  src_close

theorem setLabel_self {ls : List (String × List Bool)} {k : String} {v : List Bool} (h : lookup ls k = some v) :
    setLabel ls k v = ls := by
  induction ls with
  | nil => simp [lookup] at h
  | cons p rest ih =>
    obtain ⟨k', v'⟩ := p
    simp only [lookup] at h
    simp only [setLabel]
    split
    · rename_i hk; simp only [hk, if_true, Option.some.injEq] at h; rw [h]
    · rename_i hk; simp only [hk] at h; rw [ih h]

theorem foldl_setLabel_id {α} (items : List (String × List Bool)) (g : LGraph α)
    (h : ∀ p ∈ items, lookup g.labels p.1 = some p.2) :
    List.foldl (fun (acc : LGraph α) it => { acc with labels := setLabel acc.labels it.1 it.2 }) g items = g := by
  induction items with
  | nil => rfl
  | cons p ps ih =>
    rw [List.foldl_cons, setLabel_self (h p List.mem_cons_self)]
    exact ih fun q hq => h q (List.mem_cons_of_mem _ hq)

/-- `copy()` re-assigns every label its own (copied) mask: the same group -/
theorem copy_eq {α} (g : LGraph α) (h : g.names.Nodup) : copy_ g = g := by
  unfold copy_
  simp only [MenpoModel.Py.forLoop_eq_foldl, iter_list]
  exact foldl_setLabel_id g.labels g fun p hp => lookup_of_mem_nodup h hp

theorem add_label_eq {α} (g : LGraph α) (l : String) (idx : List Int) (h : g.names.Nodup) :
    add_label g l idx = addLabelC g l idx := by
  unfold add_label addLabelC
  simp only [copy_eq g h]
  src_unfold
  src_close

theorem remove_label_eq {α} (g : LGraph α) (l : String) (h : g.names.Nodup) :
    remove_label g l = removeLabelC g l := by
  unfold remove_label removeLabelC
  simp only [copy_eq g h]
  src_unfold
  src_close

theorem indices_to_masks_eq (d : ODict (List Int)) (n : Nat) : indices_to_masks d n = indicesToMasksC d n := by
  unfold indices_to_masks indicesToMasksC
  simp only [Bool.not_true, Bool.false_eq_true, if_false, iter_dict]
  have key := @forLoop_exit Err (ODict (List Bool)) (ODict (List Bool)) String (indicesToMasksStep d n)
  cases hf : List.foldlM (indicesToMasksStep d n) ODict.empty d.keys with
  | error e =>
    rw [(key _ ?_ ?_ ?_ d.keys ODict.empty).1 e hf]
    · intro st x h; simp only [h, if_true]
    · intro s x s' h; simp only [Option.isSome_none, Bool.false_eq_true, if_false]; unfold indicesToMasksStep at h; split at h <;> simp_all
    · intro s x e h; simp only [Option.isSome_none, Bool.false_eq_true, if_false]; unfold indicesToMasksStep at h; split at h <;> simp_all
  | ok s' =>
    rw [(key _ ?_ ?_ ?_ d.keys ODict.empty).2 s' hf]
    · intro st x h; simp only [h, if_true]
    · intro s x s' h; simp only [Option.isSome_none, Bool.false_eq_true, if_false]; unfold indicesToMasksStep at h; split at h <;> simp_all
    · intro s x e h; simp only [Option.isSome_none, Bool.false_eq_true, if_false]; unfold indicesToMasksStep at h; split at h <;> simp_all

theorem init_from_indices_eq {α} (pts : List α) (adj : Adj) (d : ODict (List Int)) (c : Bool) :
    init_from_indices_mapping pts adj d c = initFromIndicesC pts adj d c := by
  unfold init_from_indices_mapping initFromIndicesC
  simp only [indices_to_masks_eq]
  src_unfold
  src_close

theorem init_with_all_label_eq {α} (pts : List α) (adj : Adj) (c : Bool) :
    init_with_all_label pts adj c = initWithAllLabelC pts adj c := by
  unfold init_with_all_label initWithAllLabelC
  src_unfold

/-- `init_from_edges`: the edge array becomes the symmetric adjacency matrix, then the constructor -/
theorem init_from_edges_eq {α} (pts : List α) (edges : Adj) (d : ODict (List Bool)) (c k : Bool) :
    init_from_edges pts edges d c k =
      match convertEdges edges pts.length with
      | .error e => .error e
      | .ok a => constructC pts a d c k := by
  unfold init_from_edges
  simp only [lpug_init_eq]
  src_norm
  src_close

theorem n_labels_eq {α} (g : LGraph α) : n_labels g = g.labels.length := by
  unfold n_labels
  simp [labels_prop_eq, LGraph.names]

theorem validate_input_eq {α} (xs : List α) (n : Nat) : validate_input xs n = validateInput xs.length n := by
  unfold validate_input validateInput
  src_close

theorem connectivity_from_array_eq (a : List Int) (c : Bool) : connectivity_from_array a c = connFromArray a c := by
  unfold connectivity_from_array connFromArray pyLast pyHead
  src_unfold
  src_close

theorem connectivity_from_range_eq (t : Int × Int) (c : Bool) :
    connectivity_from_range t c = connFromArray (arange t.1 t.2) c := by
  unfold connectivity_from_range
  simp only [connectivity_from_array_eq]


theorem from_ranges_eq {α} (pts : List α) (d : ODict (Int × Int × Bool)) :
    pcloud_and_lgroup_from_ranges pts d = fromRangesC pts d := by
  unfold pcloud_and_lgroup_from_ranges fromRangesC
  simp only [iter_list, inlined, connectivity_from_range_eq, connectivity_from_array_eq, init_from_indices_eq]
  have key := @forLoop_exit Err _ (LGraph α × ODict (List Int)) _ fromRangesStep
  cases hf : List.foldlM fromRangesStep ([], ODict.empty) d.items with
  | error e =>
    rw [(key _ ?_ ?_ ?_ d.items ([], ODict.empty)).1 e hf]
    · intro st x h; simp only [h, if_true]
    · intro s x s' h; simp only [Option.isSome_none, Bool.false_eq_true, if_false]; unfold fromRangesStep at h; split at h <;> simp_all
    · intro s x e h; simp only [Option.isSome_none, Bool.false_eq_true, if_false]; unfold fromRangesStep at h; split at h <;> simp_all
  | ok s' =>
    rw [(key _ ?_ ?_ ?_ d.items ([], ODict.empty)).2 s' hf]
    · src_close
    · intro st x h; simp only [h, if_true]
    · intro s x s' h; simp only [Option.isSome_none, Bool.false_eq_true, if_false]; unfold fromRangesStep at h; split at h <;> simp_all
    · intro s x e h; simp only [Option.isSome_none, Bool.false_eq_true, if_false]; unfold fromRangesStep at h; split at h <;> simp_all

/-- `labeller(landmarkable, group, label_func)`, translated from source, is `relabel` on the landmarkable's manager -/
theorem labeller_eq {α} (m : Manager α) (grp : Option String) (f : LabFunc) : labeller m grp f = relabel m grp f := by
  unfold labeller relabel callOnGroup
  try (src_norm <;> src_close)

/-! ## Part 2: the property theorems, about the translated source -/

/-- `_new_group_with_only_labels`, translated from source, is `select` -/
theorem src_new_group {α} (g : LGraph α) (hwf : WF g) (hpos : 0 < g.pts.length) (req : List String) :
    new_group_with_only_labels g (.list req) = select g req := by
  rw [new_group_eq, selectC_eq g hwf hpos]

/-- `with_labels`, translated from source (`str` or list argument), is `withLabelsA` -/
theorem src_with_labels {α} (g : LGraph α) (hwf : WF g) (hpos : 0 < g.pts.length) (a : LabelsArg) :
    with_labels g (.ofArg a) = withLabelsA g a := by
  rw [with_labels_eq, withLabelsC_eq g hwf hpos]

/-- `without_labels`, translated from source (`str` or list argument), is `withoutLabelsA` -/
theorem src_without_labels {α} (g : LGraph α) (hwf : WF g) (hpos : 0 < g.pts.length) (a : LabelsArg) :
    without_labels g (.ofArg a) = withoutLabelsA g a := by
  rw [without_labels_eq, withoutLabelsC_eq g hwf hpos]

/-- `get_label`, translated from source, is `getLabel` -/
theorem src_get_label {α} (g : LGraph α) (hwf : WF g) (hpos : 0 < g.pts.length) (l : String) :
    (get_label g l).map (fun r => (r.pts, r.edges)) = getLabel g l := by
  rw [get_label_eq, getLabelC_eq g hwf hpos]

/-- `add_label`, translated from source, is `addLabel` -/
theorem src_add_label {α} (g : LGraph α) (hwf : WF g) (l : String) (idx : List Int) :
    add_label g l idx = addLabel g l idx := by
  rw [add_label_eq g l idx hwf.names, addLabelC_eq g hwf]

/-- `remove_label`, translated from source, is `removeLabel` -/
theorem src_remove_label {α} (g : LGraph α) (hwf : WF g) (hpos : 0 < g.pts.length) (l : String) :
    remove_label g l = removeLabel g l := by
  rw [remove_label_eq g l hwf.names, removeLabelC_eq g hwf hpos]

/-- the constructor, translated from source, on an adjacency matrix of the right size and a label dictionary -/
theorem src_lpug_init {α} (pts : List α) (es : List (Nat × Nat)) (labels : List (String × List Bool)) (copy : Bool)
    (hn : (labels.map Prod.fst).Nodup) :
    lpug_init pts (.matrix pts.length es) ⟨labels⟩ copy false =
      if pts.isEmpty then .error .empty else construct pts es labels := by
  rw [lpug_init_eq, constructC_eq pts es labels copy hn]

/-- `indices_to_masks`, translated from source (a `for` loop over the dictionary), is `masksOfIndices` -/
theorem src_indices_to_masks (mapping : List (String × List Int)) (n : Nat) (hn : (mapping.map Prod.fst).Nodup) :
    indices_to_masks ⟨mapping⟩ n = (masksOfIndices n mapping).map ODict.mk := by
  rw [indices_to_masks_eq, indicesToMasksC_eq mapping n hn]

/-- `init_from_indices_mapping`, translated from source, on an edge array (not of exactly two edges, see
`initFromIndicesC_two_edges_refused`) is `initFromIndices` -/
theorem src_init_from_indices {α} (pts : List α) (es : List (Int × Int)) (mapping : List (String × List Int))
    (copy : Bool) (hk : es.length ≠ 2)
    (hin : ∀ e ∈ es, 0 ≤ e.1 ∧ 0 ≤ e.2 ∧ e.1 < pts.length ∧ e.2 < pts.length)
    (hn : (mapping.map Prod.fst).Nodup) (hpts : pts ≠ []) :
    init_from_indices_mapping pts (.edgeList es) ⟨mapping⟩ copy = initFromIndices pts (canonEdges es) mapping := by
  rw [init_from_indices_eq, initFromIndicesC_eq pts es mapping copy hk hin hn hpts]

/-- `init_from_edges` (the public constructor the harness itself uses), translated from source, on in-range edges and a
label dictionary: Core's `construct` over the upper triangle of the symmetric matrix of the edges -/
theorem src_init_from_edges {α} (pts : List α) (es : List (Int × Int)) (labels : List (String × List Bool)) (copy : Bool)
    (hin : ∀ e ∈ es, 0 ≤ e.1 ∧ 0 ≤ e.2 ∧ e.1 < pts.length ∧ e.2 < pts.length)
    (hn : (labels.map Prod.fst).Nodup) (hpts : pts ≠ []) :
    init_from_edges pts (.edgeList es) ⟨labels⟩ copy false = construct pts (canonEdges es) labels := by
  rw [init_from_edges_eq]
  unfold convertEdges
  have hany : es.any (fun e => e.1 < 0 || e.2 < 0 || e.1 ≥ pts.length || e.2 ≥ pts.length) = false := by
    apply Bool.eq_false_iff.mpr
    intro h
    obtain ⟨e, he, hb⟩ := List.any_eq_true.mp h
    obtain ⟨h1, h2, h3, h4⟩ := hin e he
    simp only [Bool.or_eq_true, decide_eq_true_eq] at hb
    omega
  simp only [hany, Bool.false_eq_true, if_false]
  rw [constructC_eq pts _ labels copy hn]
  have : pts.isEmpty = false := by cases pts <;> simp_all
  simp [this]

/-- `init_with_all_label`, translated from source, is `initWithAllLabel` -/
theorem src_init_with_all_label {α} (pts : List α) (es : List (Nat × Nat)) (copy : Bool) (hpts : pts ≠ []) :
    init_with_all_label pts (.matrix pts.length es) copy = initWithAllLabel pts es := by
  rw [init_with_all_label_eq, initWithAllLabelC_eq pts es copy hpts]

/-! ### operation sequences over the TRANSLATED operations -/

/-- one operation, executed by the translated source -/
def stepSrc {α} (g : LGraph α) : Op → Except Err (LGraph α)
  | .withL r => with_labels g (.list r)
  | .withoutL e => without_labels g (.list e)
  | .add l i => add_label g l i
  | .remove l => remove_label g l

theorem stepSrc_eq {α} (g : LGraph α) (hwf : WF g) (hpos : 0 < g.pts.length) (o : Op) : stepSrc g o = step g o := by
  cases o with
  | withL r => exact src_with_labels g hwf hpos (.list r)
  | withoutL e => exact src_without_labels g hwf hpos (.list e)
  | add l i => exact src_add_label g hwf l i
  | remove l => exact src_remove_label g hwf hpos l

theorem step_pos {α} {g g' : LGraph α} (hwf : WF g) (hpos : 0 < g.pts.length) (o : Op) (h : step g o = .ok g') :
    0 < g'.pts.length := by
  cases o with
  | withL r => exact List.length_pos_iff.mpr (select_nonempty hwf h).1
  | withoutL e => exact List.length_pos_iff.mpr (select_nonempty hwf h).1
  | add l i => rw [(addLabel_spec hwf h).1]; exact hpos
  | remove l => rw [(removeLabel_spec hwf h).1]; exact hpos

/-- every sequence of translated operations is the sequence of Core operations -/
theorem runSrc_eq {α} (ops : List Op) : ∀ (g : LGraph α), WF g → 0 < g.pts.length →
    run stepSrc g ops = run step g ops := by
  induction ops with
  | nil => intro g _ _; rfl
  | cons o os ih =>
    intro g hwf hpos
    simp only [run, stepSrc_eq g hwf hpos o]
    cases h : step g o with
    | error e => rfl
    | ok g₁ => exact ih g₁ (step_wf_covered hwf o h).1 (step_pos hwf hpos o h)

/-- **every point always carries at least one label, over every sequence of TRANSLATED operations**: starting from a
well-formed covered group with a point, every succeeding sequence of `with_labels` / `without_labels` / `add_label` /
`remove_label` as the source text of the current tree defines them ends in a well-formed covered group with a point -/
theorem runSrc_invariant {α} (ops : List Op) {g g' : LGraph α} (hwf : WF g) (hc : Covered g) (hpos : 0 < g.pts.length)
    (h : run stepSrc g ops = .ok g') : WF g' ∧ Covered g' ∧ 0 < g'.pts.length := by
  rw [runSrc_eq ops g hwf hpos] at h
  obtain ⟨h1, h2⟩ := run_invariant ops hwf hc h
  refine ⟨h1, h2, ?_⟩
  clear h1 h2 hc
  induction ops generalizing g with
  | nil => simp only [run] at h; injection h with h; subst h; exact hpos
  | cons o os ih =>
    simp only [run] at h
    split at h
    · cases h
    · rename_i g₁ hg₁
      exact ih (step_wf_covered hwf o hg₁).1 (step_pos hwf hpos o hg₁) h

/-- **selection is exact, for the translated `with_labels`**: it returns a group iff every requested label exists, the
request is not empty and a point lies under a requested label, and then exactly `selected g req` (the points under the
requested labels in their original order, the edges among them renumbered, each requested label with its mask
restricted, in request order) -/
theorem src_with_labels_exact {α} (g : LGraph α) (hwf : WF g) (hpos : 0 < g.pts.length) (req : List String)
    (g' : LGraph α) :
    with_labels g (.list req) = .ok g' ↔
      (∀ l ∈ req, l ∈ g.names) ∧ req ≠ [] ∧ (selMask g req).any id = true ∧ g' = selected g req := by
  have := src_with_labels g hwf hpos (.list req)
  simp only [PyArg.ofArg] at this
  rw [this]
  exact select_iff g hwf req g'

/-- **selection is exact, for the translated `without_labels`**: the labels kept are the group's own labels not in the
exclusion list, in their original order -/
theorem src_without_labels_exact {α} (g : LGraph α) (hwf : WF g) (hpos : 0 < g.pts.length) (excl : List String)
    (g' : LGraph α) :
    without_labels g (.list excl) = .ok g' ↔
      (g.names.filter fun l => !excl.contains l) ≠ [] ∧
      (selMask g (g.names.filter fun l => !excl.contains l)).any id = true ∧
      g' = selected g (g.names.filter fun l => !excl.contains l) := by
  have := src_without_labels g hwf hpos (.list excl)
  simp only [PyArg.ofArg] at this
  rw [this]
  show select g _ = .ok g' ↔ _
  rw [select_iff g hwf]
  constructor
  · rintro ⟨_, h2, h3, h4⟩; exact ⟨h2, h3, h4⟩
  · rintro ⟨h2, h3, h4⟩; exact ⟨fun l hl => (List.mem_filter.mp hl).1, h2, h3, h4⟩

/-- the `str` form, translated: `without_labels('x')` removes the label named exactly `x` (no substring test) -/
theorem src_without_labels_str {α} (g : LGraph α) (hwf : WF g) (hpos : 0 < g.pts.length) (s : String) :
    without_labels g (.str s) = without_labels g (.list [s]) := by
  rw [show PyArg.str s = .ofArg (.str s) from rfl, show PyArg.list [s] = .ofArg (.list [s]) from rfl,
    src_without_labels g hwf hpos, src_without_labels g hwf hpos]
  rfl

example : run stepSrc demo [.add "e" [2, 3], .withoutL ["c"], .remove "b", .withL ["d", "a"]] =
    run step demo [.add "e" [2, 3], .withoutL ["c"], .remove "b", .withL ["d", "a"]] := by decide
example : (with_labels demo (.str "c")).map LGraph.pts = .ok [12, 13, 14] := by decide
example : (without_labels demo (.str "a")).map LGraph.names = .ok ["b", "c", "d"] := by decide
example : WF demo ∧ Covered demo ∧ 0 < demo.pts.length := ⟨demo_wf, demo_covered, by decide⟩


/-! ## Part 3: the translated helpers of the labelling functions commute with every map of the points -/

theorem validate_input_map {α β} (h : α → β) (xs : List α) (n : Nat) :
    validate_input (xs.map h) n = validate_input xs n := by
  simp only [validate_input_eq, List.length_map]

theorem init_from_indices_map {α β} (h : α → β) (pts : List α) (adj : Adj) (d : ODict (List Int)) (c : Bool) :
    init_from_indices_mapping (pts.map h) adj d c = (init_from_indices_mapping pts adj d c).map (mapPts h) := by
  simp only [init_from_indices_eq, initFromIndicesC_map]

theorem from_ranges_map {α β} (h : α → β) (pts : List α) (d : ODict (Int × Int × Bool)) :
    pcloud_and_lgroup_from_ranges (pts.map h) d =
      (pcloud_and_lgroup_from_ranges pts d).map fun p => (mapPts h p.1, p.2) := by
  simp only [from_ranges_eq, fromRangesC_map]

/-- `labeller_func`'s wrapper, translated from source: an ndarray is wrapped into a point cloud over the same points;
the labelling method is handed the points; `return_mapping` chooses between the pair and the object -/
theorem wrapper_eq {α} (method : List α → Except Err (Obj α × ODict (List Int))) (x : InArg α) (rm : Bool) :
    wrapper method x rm =
      match method (match x with | .array p => p | .obj o => o.g.pts) with
      | .error e => .error e
      | .ok r => .ok (r.1, if rm then some r.2 else none) := by
  unfold wrapper
  cases x <;> cases rm <;>
    simp only [InArg.isArray, InArg.toCloud, methodOn, InArg.points, truth_bool, if_true, if_false,
      Bool.false_eq_true] <;> (split <;> simp_all [ToWrapOut.conv])

theorem callPlain_eq {α} (method : List α → Except Err (Obj α × ODict (List Int))) (xs : List α) :
    callPlain method xs = (method xs).map Prod.fst := by
  unfold callPlain
  rw [wrapper_eq]
  cases method xs <;> rfl

theorem callWithMapping_eq {α} (method : List α → Except Err (Obj α × ODict (List Int))) (xs : List α) :
    callWithMapping method xs = method xs := by
  unfold callWithMapping
  rw [wrapper_eq]
  cases method xs <;> rfl

theorem callPlain_map {m : ∀ {α : Type}, List α → Except Err (Obj α × ODict (List Int))}
    (hnat : ∀ {α β : Type} (h : α → β) (xs : List α), m (xs.map h) = (m xs).map (mapOut h))
    {α β : Type} (h : α → β) (xs : List α) :
    callPlain (@m β) (xs.map h) = (callPlain (@m α) xs).map (mapObj h) := by
  rw [callPlain_eq, callPlain_eq, hnat]
  cases m xs <;> rfl

theorem callWithMapping_map {m : ∀ {α : Type}, List α → Except Err (Obj α × ODict (List Int))}
    (hnat : ∀ {α β : Type} (h : α → β) (xs : List α), m (xs.map h) = (m xs).map (mapOut h))
    {α β : Type} (h : α → β) (xs : List α) :
    callWithMapping (@m β) (xs.map h) = (callWithMapping (@m α) xs).map (mapOut h) := by
  rw [callWithMapping_eq, callWithMapping_eq, hnat]

theorem callPlain_wrong {α} {method : List α → Except Err (Obj α × ODict (List Int))} {xs : List α} {e : Err}
    (h : method xs = .error e) : callPlain method xs = .error e := by
  rw [callPlain_eq, h]; rfl

theorem callWithMapping_wrong {α} {method : List α → Except Err (Obj α × ODict (List Int))} {xs : List α} {e : Err}
    (h : method xs = .error e) : callWithMapping method xs = .error e := by
  rw [callWithMapping_eq, h]

theorem validated_wrong {α} (xs : List α) (n : Nat) (h : xs.length ≠ n) :
    validated (validate_input xs n) xs = .error .labelling := by
  simp [validate_input_eq, validateInput, validated, h]

/-- normalisation used by the per-labeller obligations (GenProps/C15SrcLab.lean): push the map of the points through
every operation of the vocabulary -/
macro "lab_nat_simp" "[" ls:Lean.Parser.Tactic.simpLemma,* "]" : tactic => `(tactic|
  simp only [inlined, map_bind, bind_map, map_ok, map_error, mapOut_mk, mapOut_fst, mapOut_snd, points_list_map, points_mapObj, objEdges_mapObj,
    triMesh_map, validated_map, takePts_map, objFromVector_map, dropLastN_map, validate_input_map,
    init_from_indices_map, from_ranges_map, lgraphObj_map, rangesObj_map, List.length_map, $ls,*])

end MenpoModel.C15.GenProps.Src
