/-
C12 — obligations over the tables regenerated from the live source of menpo/model/gmrf.py
(`Generated/C12Tables.lean`, rewritten by harness/extract_c12.py on every run): the statements of the four
assembly routines, of the `indptr` loops and of the constructor dispatch, and the token streams of
`_covariance_matrix_inverse` and `_mahalanobis_distance`, are the ones the model interprets
(`Core/C12Table.lean`; `Props/C12.lean` proves `denseStep = denseStepT (modelDenseTable ·)` etc.).
-/
import MenpoModel.Core.C12Table
import MenpoModel.Generated.C12Tables

namespace MenpoModel.GenProps.C12
open MenpoModel.C12 MenpoModel.Generated.C12

theorem denseConcat_ok : denseConcat = modelDenseTable .concat := by decide
theorem denseSub_ok : denseSub = modelDenseTable .sub := by decide
theorem tripConcat_ok : tripConcat = modelTripTable .concat := by decide
theorem tripSub_ok : tripSub = modelTripTable .sub := by decide
theorem diagDense_ok : diagDense = modelDiagDenseTable := by decide
theorem diagTrip_ok : diagTrip = modelDiagTripTable := by decide
theorem indptrEdges_ok : indptrEdgesEmpty = modelIndptrEmpty ∧ indptrEdgesSome = modelIndptrSome := by decide
theorem indptrDiag_ok : indptrDiagEmpty = modelIndptrEmpty ∧ indptrDiagSome = modelIndptrSome := by decide
theorem dispatch_ok : dispatch = [(true, true, ctorOf true true), (true, false, ctorOf true false),
    (false, true, ctorOf false true), (false, false, ctorOf false false)] := by decide
theorem dispatch_total : ∀ e s : Bool, (e, s, ctorOf e s) ∈ dispatch := by decide
theorem covInverseSrc_ok : covInverseSrc = modelCovInverseSrc := rfl
theorem mahalanobisSrc_ok : mahalanobisSrc = modelMahalanobisSrc := rfl

end MenpoModel.GenProps.C12
