/-
C07 — obligations over the TRANSLATED thin-plate-spline source (`Generated/C07Src.lean`, harness/trans_c07.py):

  genTpsInit               the system matrix the constructor assembles from blocks (`[[k, p], [pᵀ, 0]]`, `p = [1 | source]`)
                           is the model's `tpsL` of the kernel matrix of the SOURCE; `kernel=None` means the kernel built
                           on the source points; the coefficients are `tpsFitSvd` of `np.linalg.svd(l)` and the target
  genTpsBuildCoefficients  `coefficients = tpsFitSvd U s Vt min_singular_val target` (which factor is cut where, which
                           block of `y` holds the target, the transposes); `l`, the kernel and the source are untouched
  genTpsSync               = genTpsBuildCoefficients; re-targeting = building on the new target
  genTpsApply              = `tpsApply` row by row (which coefficient row is the constant / x / y term, the kernel part)
-/
import MenpoModel.Generated.C07Src
import MenpoModel.Props.C07
import MenpoModel.GenProps.C07Src

set_option linter.unusedSimpArgs false
set_option linter.unusedVariables false

open Matrix
namespace MenpoModel.GenProps.C07Src
open MenpoModel.C07 MenpoModel.Generated.C07

/-! ### block assembly -/

/-- `[[k, p], [pᵀ, 0]]` with `p = [1 | s]` is the model's system matrix -/
theorem blocks_eq_tpsL {n : ℕ} (K : Mat n n) (S : Mat n 2) :
    (vcat (hcat K (hcat (onesM : Mat n 1) S)) (hcat (tr (hcat (onesM : Mat n 1) S)) (zerosM : Mat 3 3)) :
      Mat (n + 3) (n + 3)) = tpsL K S := by
  funext r c
  simp only [vcat, hcat, tpsL, tr, onesM, zerosM, pcol]
  by_cases hr : r.val < n <;> by_cases hc : c.val < n <;> simp only [hr, hc, dite_true, dite_false, if_true, if_false]
  · have h3 : c.val - n < 3 := by have := c.isLt; omega
    rcases Nat.lt_or_ge (c.val - n) 1 with h0 | h0
    · have : c.val - n = 0 := by omega
      simp [this]
    · rcases Nat.lt_or_ge (c.val - n) 2 with h1 | h1
      · have : c.val - n = 1 := by omega
        simp [this]
      · have : c.val - n = 2 := by omega
        simp [this]
  · have h3 : r.val - n < 3 := by have := r.isLt; omega
    rcases Nat.lt_or_ge (r.val - n) 1 with h0 | h0
    · have : r.val - n = 0 := by omega
      simp [this]
    · rcases Nat.lt_or_ge (r.val - n) 2 with h1 | h1
      · have : r.val - n = 1 := by omega
        simp [this]
      · have : r.val - n = 2 := by omega
        simp [this]

/-- `np.hstack([target.T, zeros(2, 3)]).T` is the model's right-hand side -/
theorem rhs_eq_tpsY {n : ℕ} (T : Mat n 2) : tr (hcat (tr T) (zerosM : Mat 2 3)) = tpsY T := by
  funext r c
  simp [tr, hcat, tpsY, zerosM]

theorem mul_assoc' {a b c e : ℕ} (A : Mat a b) (B : Mat b c) (C : Mat c e) : mul (mul A B) C = mul A (mul B C) := by
  apply toM_inj
  simp only [toM_mul, Matrix.mul_assoc]

/-- `u[:, :keep] · (1/s[:keep, None] * v[:keep, :]) · y` = the model's truncated pseudo-inverse applied to `y` -/
theorem truncated_inverse {m e : ℕ} (U Vt : Mat m m) (s : Vec m) (keep : ℕ) (Y : Mat m e) :
    mul (mul (colsTo keep U) (rowScaleInv keep s Vt)) Y = mul U (fun l j => tpsInvS s keep l * mul Vt Y l j) := by
  rw [mul_assoc']
  funext i j
  simp only [mul, sumF_eq, colsTo, rowScaleInv, tpsInvS]
  apply Finset.sum_congr rfl
  intro l _
  by_cases hl : l.val < keep
  · simp only [hl, if_true, Finset.mul_sum]
    congr 1
    funext x
    ring
  · simp [hl]

theorem keep_eq {m : ℕ} (s : Vec m) (t : ℚ) : vlen s - countBelow s t = tpsKeep s t := rfl

/-! ### `_build_coefficients` -/

theorem genTpsBuildCoefficients_eq {n : ℕ} (ext : Ext) (a : TpsObj n) :
    genTpsBuildCoefficients ext a =
      { a with v := tr a.target
               y := hcat (tr a.target) (zerosM : Mat 2 3)
               coefficients := tpsFitSvd (ext.svd a.l).1 (ext.svd a.l).2.1 (ext.svd a.l).2.2 a.minSing a.target } := by
  simp only [genTpsBuildCoefficients, np_count_below, np_inv_col, keep_eq, truncated_inverse, rhs_eq_tpsY, tpsFitSvd]

theorem genTpsSync_eq {n : ℕ} (ext : Ext) (a : TpsObj n) : genTpsSync ext a = genTpsBuildCoefficients ext a := rfl

/-! ### the constructor -/

/-- what `ThinPlateSplines(source, target, kernel, min_singular_val)` holds, in terms of the model -/
def tpsObjOf {n : ℕ} (ext : Ext) (kern : Kern n) (S T : Mat n 2) (minSing : ℚ) : TpsObj n where
  source := S
  target := T
  minSing := minSing
  kernel := kern
  k := kern.app S
  p := hcat (onesM : Mat n 1) S
  l := tpsL (kern.app S) S
  v := tr T
  y := hcat (tr T) (zerosM : Mat 2 3)
  coefficients := tpsFitSvd (ext.svd (tpsL (kern.app S) S)).1 (ext.svd (tpsL (kern.app S) S)).2.1
    (ext.svd (tpsL (kern.app S) S)).2.2 minSing T

theorem genTpsInit_eq {n : ℕ} (ext : Ext) (rbf : Mat n 2 → Kern n) (S T : Mat n 2) (kernel : Option (Kern n))
    (minSing : ℚ) :
    genTpsInit ext rbf TpsObj.blank S T kernel minSing = some (tpsObjOf ext (kernel.getD (rbf S)) S T minSing) := by
  cases kernel with
  | none =>
    simp only [genTpsInit, genAlignmentInit, TpsObj.ops, TpsObj.blank, genTpsBuildCoefficients_eq, AsKern.get, id,
      Option.isNone_none, if_true, bne_self_eq_false, Bool.false_eq_true, if_false, Option.getD_none, nPoints,
      blocks_eq_tpsL, tpsObjOf]
  | some k =>
    simp only [genTpsInit, genAlignmentInit, TpsObj.ops, TpsObj.blank, genTpsBuildCoefficients_eq, AsKern.get,
      Option.isNone_some, bne_self_eq_false, Bool.false_eq_true, if_false, Option.getD_some, nPoints,
      blocks_eq_tpsL, tpsObjOf]

/-- re-targeting a thin-plate spline = building it on the new target (the system matrix depends on the source only) -/
theorem tps_retarget {n : ℕ} (ext : Ext) (kern : Kern n) (S T₀ T : Mat n 2) (minSing : ℚ) :
    retarget TpsObj.ops (genTpsSync ext) (tpsObjOf ext kern S T₀ minSing) T = tpsObjOf ext kern S T minSing := by
  simp only [retarget, genTpsSync_eq, genTpsBuildCoefficients_eq, TpsObj.ops, tpsObjOf]

/-! ### `_apply` -/

theorem genTpsApply_eq {n m : ℕ} (a : TpsObj n) (P : Mat m 2) :
    genTpsApply a P = some (tpsApplyM a.coefficients a.kernel P) := by
  simp only [genTpsApply, nDims, bne_self_eq_false, Bool.false_eq_true, if_false, Option.some.injEq]
  funext i c
  simp only [HAdd.hAdd, HMul.hMul, madd, colOf, rowFromEnd, rowsButLast3, tpsApplyM, tpsApply, mul, sumF_eq]
  have e0 : (⟨n + 2 - (2 : Fin 3).val, by omega⟩ : Fin (n + 3)) = Fin.natAdd n 0 := by ext; simp
  have e1 : (⟨n + 2 - (1 : Fin 3).val, by omega⟩ : Fin (n + 3)) = Fin.natAdd n 1 := by ext; simp
  have e2 : (⟨n + 2 - (0 : Fin 3).val, by omega⟩ : Fin (n + 3)) = Fin.natAdd n 2 := by ext; simp
  rw [e0, e1, e2]
  try ring

/-! ### the coded (truncated-SVD) path recovers affine maps exactly -/

/-- with the SVD contract for the symmetric system and no singular value dropped, the coded coefficients solve the system -/
theorem tps_svd_solves {n : ℕ} (K : Mat n n) (S T : Mat n 2) (U Vt : Mat (n + 3) (n + 3)) (s : Vec (n + 3))
    (minSing : ℚ) (hmin : 0 < minSing) (hsvd : SvdOK (tpsL K S) U s Vt) (hsym : tr (tpsL K S) = tpsL K S)
    (hall : ∀ i, minSing ≤ s i) : mul (tpsL K S) (tpsFitSvd U s Vt minSing T) = tpsY T := by
  rw [tps_svd_product K S T U Vt s minSing hsvd hsym (fun i _ => by have := hall i; intro h0; rw [h0] at this; linarith)]
  have hk := tpsKeep_full s minSing hall
  have hmask : diagV (keepMask (tpsKeep s minSing) : Vec (n + 3)) = MenpoModel.C07.one := by
    funext a b
    have := a.isLt
    simp only [diagV, keepMask, MenpoModel.C07.one, hk, this, if_true]
  rw [hmask]
  apply toM_inj
  simp only [toM_mul, toM_tr, toM_one, Matrix.one_mul]
  rw [← Matrix.mul_assoc, hsvd.orthV.toM_left, Matrix.one_mul]

/-- **as coded, an affine image of the source is recovered exactly**: the coefficients `_build_coefficients` computes
are the purely affine ones (zero bending block), when no singular value is dropped and the system is invertible -/
theorem tps_svd_affine_recovery {n : ℕ} (K : Mat n n) (S : Mat n 2) (H0 : HMat 2) (U Vt : Mat (n + 3) (n + 3))
    (s : Vec (n + 3)) (minSing : ℚ) (hmin : 0 < minSing) (hsvd : SvdOK (tpsL K S) U s Vt)
    (hsym : tr (tpsL K S) = tpsL K S) (hall : ∀ i, minSing ≤ s i) (Li : Mat (n + 3) (n + 3))
    (hLi : mul (tpsL K S) Li = MenpoModel.C07.one) : tpsFitSvd U s Vt minSing (applyH H0 S) = tpsAffineCoef H0 :=
  solve_unique _ Li hLi _ _ (by rw [tps_svd_solves K S _ U Vt s minSing hmin hsvd hsym hall, tpsL_mul_affineCoef])

/-- the same for the object the translated constructor builds (and after any `set_target` to an affine image) -/
theorem src_tps_affine_recovery {n : ℕ} (ext : Ext) (kern : Kern n) (S T₀ : Mat n 2) (H0 : HMat 2) (minSing : ℚ)
    (hmin : 0 < minSing) (hK : ∀ i j, kern.app S i j = kern.app S j i)
    (hsvd : SvdOK (tpsL (kern.app S) S) (ext.svd (tpsL (kern.app S) S)).1 (ext.svd (tpsL (kern.app S) S)).2.1
      (ext.svd (tpsL (kern.app S) S)).2.2)
    (hall : ∀ i, minSing ≤ (ext.svd (tpsL (kern.app S) S)).2.1 i) (Li : Mat (n + 3) (n + 3))
    (hLi : mul (tpsL (kern.app S) S) Li = MenpoModel.C07.one) :
    (retarget TpsObj.ops (genTpsSync ext) (tpsObjOf ext kern S T₀ minSing) (applyH H0 S)).coefficients =
      tpsAffineCoef H0 := by
  rw [tps_retarget]
  exact tps_svd_affine_recovery _ S H0 _ _ _ minSing hmin hsvd (tpsL_symm _ S hK) hall Li hLi

/-- `pseudoinverse()`: a fresh spline from the target to the source, its kernel re-centred on the new source -/
theorem genTpsPinv_eq {n : ℕ} (ext : Ext) (rbf : Mat n 2 → Kern n) (rekern : Kern n → Mat n 2 → Kern n) (a : TpsObj n) :
    genTpsPinv ext rbf rekern a = some (tpsObjOf ext (rekern a.kernel a.target) a.target a.source a.minSing) := by
  simp only [genTpsPinv, genTpsInit_eq, Option.getD_some]

end MenpoModel.GenProps.C07Src
