/-
C10 — obligations over the TRANSLATED `menpo/math/decomposition.py` (`Generated/C10SrcDec.lean`, rewritten by
harness/trans_c10.py on every `./check C10` from the source text of the current working tree):

  genEigenvalueDecomposition   = Core `postprocess` on the zipped eigen-witness, with the threshold
                                 `max(eps, n · machine epsilon)` the code uses — for EVERY witness (dense and sparse branch):
                                 `np.argsort(..)[::-1]` + index-array gathering of eigenvalues and eigenvector columns is the
                                 descending sort of the pairs (`sorted_witness`), the two Boolean masks are the two filters,
                                 `[::-1] ** -1` is the inverted reversed list;
  genPca / genPcacov           = `Src.pcaPlan` / `Src.pcacovPlan`: which numpy operation on which operand in which branch
                                 (mean or zeros, `d < n`: `XᵀX` else `XXᵀ`, normaliser `n − 1`, symmetrisation,
                                 `is_inverse=False`, `eps` handed on, transposition, Gram rescale), independently of the
                                 in-place / copy decisions (`inplace`, integer dtype, read-only data).

`src_spectrum` states the spectrum clause of the property for the translated `eigenvalue_decomposition` itself.
-/
import MenpoModel.Generated.C10SrcDec
import MenpoModel.Props.C10

set_option linter.unusedSimpArgs false
set_option linter.unusedTactic false
set_option linter.unreachableTactic false
namespace MenpoModel.C10.GenProps
open MenpoModel.C10 MenpoModel.C10.Src MenpoModel.C10.Generated

variable {α β : Type}

/-! ### sorting only looks at the eigenvalue -/

theorem insertDesc_map (f : α → β) (x : Rat × α) (l : List (Rat × α)) :
    insertDesc (x.1, f x.2) (l.map fun p => (p.1, f p.2)) = (insertDesc x l).map fun p => (p.1, f p.2) := by
  induction l with
  | nil => rfl
  | cons y t ih =>
    simp only [List.map_cons, insertDesc]
    split <;> simp_all

theorem sortDesc_map (f : α → β) (l : List (Rat × α)) :
    sortDesc (l.map fun p => (p.1, f p.2)) = (sortDesc l).map fun p => (p.1, f p.2) := by
  induction l with
  | nil => rfl
  | cons x t ih =>
    simp only [List.map_cons, sortDesc, ih]
    exact insertDesc_map f x (sortDesc t)

theorem mem_zip_range {l : List Rat} {p : Rat × Nat} (h : p ∈ l.zip (List.range l.length)) :
    l[p.2]? = some p.1 ∧ p.2 < l.length := by
  obtain ⟨i, hi, rfl⟩ := List.mem_iff_getElem.mp h
  simp only [List.length_zip, List.length_range, Nat.min_self] at hi
  simp [List.getElem_zip, hi]

theorem filterMap_congr_mem {γ δ : Type} {l : List γ} {f g : γ → Option δ} (h : ∀ x ∈ l, f x = g x) :
    l.filterMap f = l.filterMap g := by
  induction l with
  | nil => rfl
  | cons x t ih =>
    simp only [List.filterMap_cons, h x (List.mem_cons_self)]
    rw [ih fun y hy => h y (List.mem_cons_of_mem _ hy)]

theorem sorted_witness_aux (a0 : α) (ev : List Rat) (vs : List α) (h : ev.length = vs.length) :
    PyIdx.idx ev (argsortDesc ev) = (sortDesc (ev.zip vs)).map Prod.fst ∧
    PyIdx.idx vs (argsortDesc ev) = (sortDesc (ev.zip vs)).map Prod.snd := by
  have hS : ∀ p ∈ sortDesc (ev.zip (List.range ev.length)), ev[p.2]? = some p.1 ∧ p.2 < ev.length :=
    fun p hp => mem_zip_range ((sortDesc_perm _).subset hp)
  have hz : ev.zip vs = (ev.zip (List.range ev.length)).map fun p => (p.1, vs.getD p.2 a0) := by
    apply List.ext_getElem
    · simp [h]
    · intro i h1 h2
      simp only [List.length_zip, List.length_range] at h1
      have hi : i < vs.length := by omega
      simp [List.getElem_zip, List.getD_eq_getElem?_getD, hi]
  have hsort : sortDesc (ev.zip vs)
      = (sortDesc (ev.zip (List.range ev.length))).map fun p => (p.1, vs.getD p.2 a0) := by
    rw [hz]; exact sortDesc_map (fun i => vs.getD i a0) _
  rw [hsort]
  simp only [PyIdx.idx, argsortDesc, List.filterMap_map, List.map_map, Function.comp_def]
  constructor
  · rw [filterMap_congr_mem (g := fun p => some p.1) (fun p hp => (hS p hp).1)]
    simp [List.filterMap_eq_map, Function.comp_def]
  · rw [filterMap_congr_mem (g := fun p => some (vs.getD p.2 a0)) (fun p hp => by
      have := (hS p hp).2
      have hi : p.2 < vs.length := by omega
      simp [List.getD_eq_getElem?_getD, hi])]
    simp [List.filterMap_eq_map, Function.comp_def]

/-- gathering by the sorting permutation IS sorting the pairs -/
theorem sorted_witness (ev : List Rat) (vs : List α) (h : ev.length = vs.length) :
    PyIdx.idx ev (argsortDesc ev) = (sortDesc (ev.zip vs)).map Prod.fst ∧
    PyIdx.idx vs (argsortDesc ev) = (sortDesc (ev.zip vs)).map Prod.snd := by
  cases vs with
  | nil =>
    have : ev = [] := List.eq_nil_of_length_eq_zero (by simpa using h)
    subst this
    exact ⟨rfl, rfl⟩
  | cons a0 vt => exact sorted_witness_aux a0 ev (a0 :: vt) h

/-- Boolean-mask indexing of two parallel columns of a list of pairs is filtering the pairs -/
theorem mask_fst (T : List (Rat × α)) (p : Rat → Bool) :
    PyIdx.idx (T.map Prod.fst) ((T.map Prod.fst).map p) = (T.filter fun q => p q.1).map Prod.fst := by
  induction T with
  | nil => rfl
  | cons x t ih =>
    simp only [PyIdx.idx, List.map_cons, List.zip_cons_cons, List.filterMap_cons, List.filter_cons] at ih ⊢
    cases p x.1 <;> simp_all

theorem mask_snd (T : List (Rat × α)) (p : Rat → Bool) :
    PyIdx.idx (T.map Prod.snd) ((T.map Prod.fst).map p) = (T.filter fun q => p q.1).map Prod.snd := by
  induction T with
  | nil => rfl
  | cons x t ih =>
    simp only [PyIdx.idx, List.map_cons, List.zip_cons_cons, List.filterMap_cons, List.filter_cons] at ih ⊢
    cases p x.1 <;> simp_all

theorem maxAbs_perm {a b : List Rat} (h : a.Perm b) : maxAbs a = maxAbs b := by
  induction h with
  | nil => rfl
  | cons x _ ih => simp [maxAbs, ih]
  | swap x y l => simp only [maxAbs]; rw [← max_assoc, ← max_assoc, max_comm (if y < 0 then -y else y)]
  | trans _ _ ih1 ih2 => exact ih1.trans ih2

theorem genEigenvalueDecomposition_eq (n : Nat) (macheps : Rat) (evals sevals : List Rat) (evecs sevecs : List α)
    (isinverse : Bool) (eps : Rat) (h : evals.length = evecs.length) :
    genEigenvalueDecomposition false n macheps evals sevals evecs sevecs isinverse eps =
      ((postprocess (max eps ((n : Rat) * macheps)) isinverse (evals.zip evecs)).map Prod.snd,
       (postprocess (max eps ((n : Rat) * macheps)) isinverse (evals.zip evecs)).map Prod.fst) := by
  obtain ⟨h1, h2⟩ := sorted_witness evals evecs h
  simp only [genEigenvalueDecomposition, postprocess, h1, h2, mask_fst, mask_snd, Bool.false_eq_true, if_false,
    gt_iff_lt]
  cases isinverse <;> simp [List.map_reverse, Function.comp_def]

theorem genEigenvalueDecomposition_sparse_eq (n : Nat) (macheps : Rat) (evals sevals : List Rat)
    (evecs sevecs : List α) (isinverse : Bool) (eps : Rat) (h : sevals.length = sevecs.length) :
    genEigenvalueDecomposition true n macheps evals sevals evecs sevecs isinverse eps =
      ((postprocess (max eps ((n : Rat) * macheps)) isinverse (sevals.zip sevecs)).map Prod.snd,
       (postprocess (max eps ((n : Rat) * macheps)) isinverse (sevals.zip sevecs)).map Prod.fst) := by
  obtain ⟨h1, h2⟩ := sorted_witness sevals sevecs h
  simp only [genEigenvalueDecomposition, postprocess, h1, h2, mask_fst, mask_snd, if_true, gt_iff_lt]
  cases isinverse <;> simp [List.map_reverse, Function.comp_def]

/-- PROPERTY (spectrum, translated): what the TRANSLATED `eigenvalue_decomposition` returns for any eigen-witness
(eigenvalues `evals`, as many eigenvector columns `evecs`): the eigenvalues are in descending order, strictly positive
and above `max(eps, n·ε) · max|λ|`; every returned (eigenvector, eigenvalue) pair is a pair of the witness, in the same
positions of the two results; nothing that passes both tests is dropped.  With `is_inverse` still descending positive. -/
theorem src_spectrum (n : Nat) (macheps : Rat) (evals sevals : List Rat) (evecs sevecs : List α) (eps : Rat)
    (h : evals.length = evecs.length) :
    let out := genEigenvalueDecomposition false n macheps evals sevals evecs sevecs false eps
    let eps' := max eps ((n : Rat) * macheps)
    out.2.Pairwise (· ≥ ·) ∧ (∀ v ∈ out.2, 0 < v ∧ maxAbs evals * eps' < v) ∧
    out.1.length = out.2.length ∧ (∀ q ∈ out.2.zip out.1, q ∈ evals.zip evecs) ∧
    (∀ q ∈ evals.zip evecs, 0 < q.1 → maxAbs evals * eps' < q.1 → q ∈ out.2.zip out.1) ∧
    (let inv := genEigenvalueDecomposition false n macheps evals sevals evecs sevecs true eps
     inv.2.Pairwise (· ≥ ·) ∧ ∀ v ∈ inv.2, 0 < v) := by
  intro out eps'
  have hmax : maxAbs ((sortDesc (evals.zip evecs)).map Prod.fst) = maxAbs evals := by
    have hperm : ((sortDesc (evals.zip evecs)).map Prod.fst).Perm evals := by
      have := (sortDesc_perm (evals.zip evecs)).map Prod.fst
      rwa [List.map_fst_zip (by omega)] at this
    exact maxAbs_perm hperm
  obtain ⟨s1, s2, ⟨l', hl1, hl2⟩, s4⟩ := spectrum_desc_pos eps' (evals.zip evecs)
  obtain ⟨i1, i2⟩ := spectrum_desc_pos_inverse eps' (evals.zip evecs)
  rw [hmax] at s2 s4
  have e := genEigenvalueDecomposition_eq n macheps evals sevals evecs sevecs false eps h
  have ei := genEigenvalueDecomposition_eq n macheps evals sevals evecs sevecs true eps h
  have hzip : out.2.zip out.1 = postprocess eps' false (evals.zip evecs) := by
    show (genEigenvalueDecomposition false n macheps evals sevals evecs sevecs false eps).2.zip
      (genEigenvalueDecomposition false n macheps evals sevals evecs sevecs false eps).1 = _
    rw [e]; exact (List.zip_of_prod rfl rfl).symm
  refine ⟨?_, ?_, ?_, ?_, ?_, ?_, ?_⟩
  · show (genEigenvalueDecomposition false n macheps evals sevals evecs sevecs false eps).2.Pairwise _
    rw [e]; simpa [List.pairwise_map] using s1
  · intro v hv
    have : v ∈ (postprocess eps' false (evals.zip evecs)).map Prod.fst := by
      have h' : out.2 = (postprocess eps' false (evals.zip evecs)).map Prod.fst := by
        show (genEigenvalueDecomposition false n macheps evals sevals evecs sevecs false eps).2 = _
        rw [e]
      rwa [h'] at hv
    obtain ⟨p, hp, rfl⟩ := List.mem_map.mp this
    exact s2 p hp
  · show (genEigenvalueDecomposition false n macheps evals sevals evecs sevecs false eps).1.length =
      (genEigenvalueDecomposition false n macheps evals sevals evecs sevecs false eps).2.length
    rw [e]; simp
  · intro q hq
    rw [hzip] at hq
    exact hl1.subset (hl2.subset hq)
  · intro q hq h0 hl
    rw [hzip]; exact s4 q hq h0 hl
  · show (genEigenvalueDecomposition false n macheps evals sevals evecs sevecs true eps).2.Pairwise _
    rw [ei]; simpa [List.pairwise_map] using i1
  · intro v hv
    have h' : (genEigenvalueDecomposition false n macheps evals sevals evecs sevecs true eps).2
        = (postprocess eps' true (evals.zip evecs)).map Prod.fst := by rw [ei]
    rw [h'] at hv
    obtain ⟨p, hp, rfl⟩ := List.mem_map.mp hv
    exact i2 p hp

variable {A : Type}

/-- `pca`: the copy / in-place decisions (`inplace`, integer dtype, read-only data) never change WHAT is computed -/
theorem genPca_eq (np : ND A) (inexact writeable : Bool) (X : A) (centre inplace : Bool) (eps : Rat) :
    genPca np inexact writeable X centre inplace eps = pcaPlan np X centre eps := by
  simp only [genPca, pcaPlan, ND.symm]
  repeat' split
  all_goals (try simp_all)
  all_goals (try omega)

theorem genPcacov_eq (np : ND A) (C : A) (isinverse : Bool) (eps : Rat) :
    genPcacov np C isinverse eps = pcacovPlan np C isinverse eps := by
  simp only [genPcacov, pcacovPlan, ND.symm]
  repeat' split
  all_goals (try simp_all)
  all_goals (try omega)
end MenpoModel.C10.GenProps
