/-
C03 — obligations over the TRANSLATED entry points of the composition machinery
(harness/trans_c03.py on top of harness/py2lean.py; vocabulary: Core/C03Entry.lean).

`Generated/C03Entry.lean` is rewritten on every `./check C03` from the source text of the current
working tree: one Lean definition per Python function

  genSetH_<Class>          <Class>._set_h_matrix (called with copy=False, skip_checks=True)
  genHomogInplace          Homogeneous._compose_before_inplace / _compose_after_inplace
  genChainInplace          TransformChain._compose_before_inplace / _compose_after_inplace
  genChainApply            TransformChain._apply
  genNaiveCompose          ComposableTransform._compose_before / _compose_after (copy, then in place)
  genTransformCompose      Transform.compose_before / compose_after
  genEntryCompose          ComposableTransform.compose_before / compose_after
  genEntryInplace          ComposableTransform.compose_before_inplace / compose_after_inplace
  genANA_<Class>           <Class>.as_non_alignment
  genFromVector, genFromVectorEntry   Homogeneous.from_vector / compose_after_from_vector_inplace
  genScale, genDecompose, genDecomposeDiscrete   the Scale factory, Affine.decompose, DiscreteAffine.decompose

A method call inside a body (`self._compose_before(t)`, `self._set_h_matrix(…)`, `x.as_non_alignment()` …)
is `callMeth`: the body of the class the *method table* names for the class of the receiver.  The
theorems below are stated over `expectedMethodTable` / an arbitrary class table, so together with
`methodTable_ok`, `classTable_ok`, `otherGates_ok` (GenProps/C03.lean) and `genLadder_eq`
(GenProps/C03Ladder.lean) they say: *what the source says now* — which body runs on which class and
what it does — *is* `composeCell`, `inplaceCell`, `fromVectorCell`, `chainAdd`, `rawCompose`,
`nonAlignmentMatrix`, `decomposeLeaves`, `scaleFactory`, the functions every C03 theorem is about.

The proofs split on what the *model* distinguishes (kind of the two cells, the gate, equal or different
dimension) and then simplify, so a harmless rewrite of the Python (negated test with swapped branches,
a renamed or extra temporary, an early `return`) keeps them, while a changed gate, a changed operand
order, a dropped copy, another product order, another class for a piece breaks them (tested on a
scratch worktree with eleven such changes, see DESIGN.md section 14 / the builder's report).
-/
import MenpoModel.Generated.C03Entry
import MenpoModel.GenProps.C03Ladder

namespace MenpoModel.GenProps.C03
open MenpoModel.C03 MenpoModel.Generated.C03

variable {d : Nat}

abbrev MT : MethodTable := expectedMethodTable

/-- the public call `a.compose_before(b)` / `a.compose_after(b)` on two store cells: attribute
lookup of the public method on the class of `a`, then the translated body of the supplier -/
def entryCompose (tbl : ClassTable) (mt : MethodTable) (st : Store) (dir : Dir) (a b : Nat) :
    Except Err Cell :=
  match st[a]?, st[b]? with
  | some ca, some cb =>
    callObj mt (match dir with | .before => .compose_before | .after => .compose_after)
      [(.ComposableTransform, genEntryCompose tbl mt dir), (.Transform, genTransformCompose dir)]
      ⟨some a, ca⟩ ⟨some b, cb⟩
  | _, _ => .error .badRef

def entryInplace (tbl : ClassTable) (mt : MethodTable) (st : Store) (dir : Dir) (a b : Nat) :
    Except Err Cell :=
  match st[a]?, st[b]? with
  | some ca, some cb =>
    callObj mt (match dir with | .before => .compose_before_inplace | .after => .compose_after_inplace)
      [(.ComposableTransform, genEntryInplace tbl mt dir)] ⟨some a, ca⟩ ⟨some b, cb⟩
  | _, _ => .error .badRef

theorem genSetH_eq (c : HCls) (s : HT d) (M : Mat (d + 1)) :
    (callMeth MT ._set_h_matrix (.fam c) setHBodies).map (fun f => f s M) = some ⟨s.cls, M⟩ := by
  cases c <;> rfl

theorem genHomogInplace_eq (dir : Dir) (s t : HT d) :
    genHomogInplace MT dir s t = some ⟨s.cls, rawCompose dir s.M t.M⟩ := by
  cases dir <;> simp only [genHomogInplace, genSetH_eq, rawCompose, Option.bind_some]

theorem genChainInplace_eq (dir : Dir) (ms : List Nat) (b : Nat) :
    genChainInplace dir ms b = chainAdd dir ms b := by
  cases dir <;> rfl

/-- the left fold both spellings of `TransformChain._apply` come to (`functools.reduce` with a lambda, or an explicit
`for` loop): the running point is threaded through the members, a member that cannot be applied ends it -/
theorem foldl_bind_applyMembers (g : Nat → Pt → Option Pt) (ms : List Nat) (o : Option Pt) :
    ms.foldl (fun acc m => acc.bind (g m)) o = o.bind (applyMembers g ms) := by
  induction ms generalizing o with
  | nil => cases o <;> rfl
  | cons m ms ih =>
    rw [List.foldl_cons, ih]
    cases o with
    | none => rfl
    | some x => simp only [Option.bind_some, applyMembers]

/-- `TransformChain._apply` (a left fold over `self.transforms`, however it is spelled) is `applyMembers`, the fold
`applyRef` — and by `applyRef_eq_flat` the application of the flattened leaves — is made of -/
theorem genChainApply_eq (g : Nat → Pt → Option Pt) (ms : List Nat) (x : Pt) :
    genChainApply g ms x = applyMembers g ms x := by
  have h := foldl_bind_applyMembers g ms (some x)
  simp only [Option.bind_some] at h
  unfold genChainApply
  first
    | exact h
    | (simp only [MenpoModel.Py.forLoop_eq_foldl]; exact h)

theorem sup_fam (c : HCls) :
    supplier MT (.fam c) .compose_before = some .ComposableTransform ∧
    supplier MT (.fam c) .compose_after = some .ComposableTransform ∧
    supplier MT (.fam c) .compose_before_inplace = some .ComposableTransform ∧
    supplier MT (.fam c) .compose_after_inplace = some .ComposableTransform ∧
    supplier MT (.fam c) ._compose_before = some .Homogeneous ∧
    supplier MT (.fam c) ._compose_after = some .Homogeneous ∧
    supplier MT (.fam c) ._compose_before_inplace = some .Homogeneous ∧
    supplier MT (.fam c) ._compose_after_inplace = some .Homogeneous := by
  cases c <;> decide

theorem sup_chain :
    supplier MT .TransformChain .compose_before = some .ComposableTransform ∧
    supplier MT .TransformChain .compose_after = some .ComposableTransform ∧
    supplier MT .TransformChain .compose_before_inplace = some .ComposableTransform ∧
    supplier MT .TransformChain .compose_after_inplace = some .ComposableTransform ∧
    supplier MT .TransformChain ._compose_before = some .ComposableTransform ∧
    supplier MT .TransformChain ._compose_after = some .ComposableTransform ∧
    supplier MT .TransformChain ._compose_before_inplace = some .TransformChain ∧
    supplier MT .TransformChain ._compose_after_inplace = some .TransformChain := by decide

theorem sup_plain (p : Plain) :
    supplier MT p.kls .compose_before = some .Transform ∧
    supplier MT p.kls .compose_after = some .Transform ∧
    supplier MT p.kls .compose_before_inplace = none ∧
    supplier MT p.kls .compose_after_inplace = none := by
  cases p <;> exact ⟨rfl, rfl, rfl, rfl⟩

theorem exc_map_ok {ε α β} (f : α → β) (a : α) : Except.map f (.ok a : Except ε α) = .ok (f a) := rfl
theorem exc_map_error {ε α β} (f : α → β) (e : ε) : Except.map f (.error e : Except ε α) = .error e := rfl
theorem exc_bind_ok {ε α β} (f : α → Except ε β) (a : α) : Except.bind (.ok a : Except ε α) f = f a := rfl
theorem exc_bind_error {ε α β} (f : α → Except ε β) (e : ε) : Except.bind (.error e : Except ε α) f = .error e := rfl

theorem exc_bind_pure {ε α} (x : Except ε α) : (x.bind fun r => .ok r) = x := by cases x <;> rfl
theorem exc_map_id {ε α} (x : Except ε α) : (x.map fun r => r) = x := by cases x <;> rfl

theorem onFam_same (f : {d : Nat} → HT d → HT d → Option (HT d)) (a b : Option Nat) (s t : HT d) :
    onFam f ⟨a, .fam d s⟩ ⟨b, .fam d t⟩ = match f s t with | some r => .ok (.fam d r) | none => .error .fuel := by
  simp only [onFam, dite_true]; rfl

theorem onFam_ne (f : {d : Nat} → HT d → HT d → Option (HT d)) (a b : Option Nat) {d' : Nat} (s : HT d) (t : HT d')
    (h : d' ≠ d) : onFam f ⟨a, .fam d s⟩ ⟨b, .fam d' t⟩ = .error .shape := by
  simp only [onFam, h, dite_false]

/-- everything a translated body is made of, except the case distinctions -/
macro "entry_simp" "[" ls:Lean.Parser.Tactic.simpLemma,* "]" : tactic =>
  `(tactic| simp [callObj, callMeth, Cell.kls, genEntryCompose, genEntryInplace, genNaiveCompose,
      genTransformCompose, gateCompose_chain, gateInplace_chain, gateCompose_leaf, gateInplace_leaf, gateCompose_fam, gateInplace_fam,
      gateCompose_fam_chain, gateInplace_fam_chain, gateCompose_fam_leaf, gateInplace_fam_leaf, composeBodies, inplaceBodies, mkChain, orderPair,
      onChain, Obj.copied, Obj.withCell, Obj.fresh, genChainInplace_eq, genHomogInplace_eq, genLadder_eq,
      exc_map_ok, exc_map_error, exc_bind_ok, exc_bind_error, exc_bind_pure, exc_map_id, onFam_same, nativeCompose, nativeInplace, $ls,*])

theorem entryInplace_eq (tbl : ClassTable) (st : Store) (dir : Dir) (a b : Nat) :
    entryInplace tbl MT st dir a b = inplaceCell tbl st dir a b := by
  unfold entryInplace inplaceCell
  cases ha : st[a]? with
  | none => simp
  | some ca =>
    cases hb : st[b]? with
    | none => cases ca <;> simp
    | some cb =>
      cases ca with
      | fam d s =>
        obtain ⟨_, _, h3, h4, _, _, h7, h8⟩ := sup_fam s.cls
        cases cb with
        | fam d' t =>
          by_cases hacc : accepts tbl (inplaceWith tbl s.cls) t.cls = true
          · by_cases hd : d' = d
            · subst hd; cases dir <;> entry_simp [h3, h4, h7, h8, hacc]
            · cases dir <;> entry_simp [h3, h4, h7, h8, hacc, hd, onFam_ne]
          · cases dir <;> entry_simp [h3, h4, h7, h8, hacc]
        | chain ns => cases dir <;> entry_simp [h3, h4, h7, h8]
        | leaf p => cases dir <;> entry_simp [h3, h4, h7, h8]
      | chain ms =>
        obtain ⟨_, _, h3, h4, _, _, h7, h8⟩ := sup_chain
        cases dir <;> entry_simp [h3, h4, h7, h8]
      | leaf p =>
        obtain ⟨_, _, h3, h4⟩ := sup_plain p
        cases dir <;> entry_simp [h3, h4]

theorem entryCompose_eq (tbl : ClassTable) (st : Store) (dir : Dir) (a b : Nat) :
    entryCompose tbl MT st dir a b = composeCell tbl st dir a b := by
  unfold entryCompose composeCell
  cases ha : st[a]? with
  | none => simp
  | some ca =>
    cases hb : st[b]? with
    | none => cases ca <;> simp
    | some cb =>
      cases ca with
      | fam d s =>
        obtain ⟨h1, h2, _, _, h5, h6, _, _⟩ := sup_fam s.cls
        cases cb with
        | fam d' t =>
          by_cases hacc : accepts tbl (composesWith tbl s.cls) t.cls = true
          · by_cases hd : d' = d
            · subst hd
              cases dir
              · cases hl : ladder tbl ladderFuel .before s t <;> entry_simp [h1, h2, h5, h6, hacc, hl]
              · cases hl : ladder tbl ladderFuel .after s t <;> entry_simp [h1, h2, h5, h6, hacc, hl]
            · cases dir <;> entry_simp [h1, h2, h5, h6, hacc, hd, onFam_ne]
          · cases dir <;> entry_simp [h1, h2, h5, h6, hacc]
        | chain ns => cases dir <;> entry_simp [h1, h2, h5, h6]
        | leaf p => cases dir <;> entry_simp [h1, h2, h5, h6]
      | chain ms =>
        obtain ⟨h1, h2, _, _, h5, h6, h7, h8⟩ := sup_chain
        cases dir <;> entry_simp [h1, h2, h5, h6, h7, h8] <;> rfl
      | leaf p =>
        obtain ⟨h1, h2, _, _⟩ := sup_plain p
        cases dir <;> entry_simp [h1, h2]

/-- the public call `a.compose_after_from_vector_inplace(v)` -/
def entryFromVector (tbl : ClassTable) (mt : MethodTable) (st : Store) (a : Nat) (v : List Rat) :
    Except Err Cell :=
  match st[a]? with
  | some ca =>
    match callMeth mt .compose_after_from_vector_inplace ca.kls [(Sup.Homogeneous, genFromVectorEntry tbl mt)] with
    | some f => f ⟨some a, ca⟩ v
    | none => .error .noMethod
  | none => .error .badRef

theorem sup_fam_vec (c : HCls) :
    supplier MT (.fam c) .compose_after_from_vector_inplace = some .Homogeneous ∧
    supplier MT (.fam c) .from_vector = some .Homogeneous := by
  cases c <;> decide

theorem entryFromVector_eq (tbl : ClassTable) (st : Store) (a : Nat) (v : List Rat) :
    entryFromVector tbl MT st a v = fromVectorCell tbl st a v := by
  unfold entryFromVector fromVectorCell
  cases ha : st[a]? with
  | none => rfl
  | some ca =>
    cases ca with
    | fam d s =>
      obtain ⟨h1, h2⟩ := sup_fam_vec s.cls
      obtain ⟨_, _, h3, h4, _, _, h7, h8⟩ := sup_fam s.cls
      cases hv : fromVec s.cls s.M v with
      | error e => entry_simp [h1, h2, genFromVectorEntry, genFromVector, famFromVec, hv]
      | ok Mv =>
        by_cases hacc : accepts tbl (inplaceWith tbl s.cls) s.cls = true
        · entry_simp [h1, h2, h4, h8, genFromVectorEntry, genFromVector, famFromVec, hv, hacc]
        · entry_simp [h1, h2, h4, h8, genFromVectorEntry, genFromVector, famFromVec, hv, hacc]
    | chain ms => rfl
    | leaf p => cases p <;> rfl

/-- one statement of a program, executed through the translated entry points -/
def entryStep (tbl : ClassTable) (mt : MethodTable) (st : Store) : Stmt → Except Err (Store × Option Nat)
  | .compose dir a b => (entryCompose tbl mt st dir a b).map fun c => (st ++ [c], some st.length)
  | .inplace dir a b => (entryInplace tbl mt st dir a b).map fun c => (st.set a c, none)
  | .fromVector a v => (entryFromVector tbl mt st a v).map fun c => (st.set a c, none)

/-- every statement of every program: what the translated source does is the model's `step`, hence
whole programs run through the source text are `runStmts` (the object of `prog_honest`,
`prog_denotation`, `prog_frame`, `prog_class_stable`, `expr_class_join`) -/
theorem entryStep_eq (tbl : ClassTable) (st : Store) (s : Stmt) :
    entryStep tbl MT st s = step tbl st s := by
  cases s <;> simp only [entryStep, step, entryCompose_eq, entryInplace_eq, entryFromVector_eq]

theorem entryRun_eq (tbl : ClassTable) (st : Store) (ss : List Stmt) :
    ss.foldl (fun st s => match entryStep tbl MT st s with | .ok (st', _) => st' | .error _ => st) st
      = runStmts tbl st ss := by
  simp only [runStmts, entryStep_eq]; rfl

theorem sup_fam_ana (c : HCls) (s : HT d) (h : isAlign expectedClassTable c = true) :
    (callMeth MT .as_non_alignment (.fam c) anaBodies).map (fun f => f s)
      = some ⟨stripCls expectedClassTable c, nonAlignmentMatrix c s.M⟩ := by
  cases c <;> first | rfl | exact absurd h (by decide)

/-- the classes that are not alignments have no `as_non_alignment` -/
theorem ana_only_alignments (c : HCls) (h : isAlign expectedClassTable c = false) :
    (callMeth MT .as_non_alignment (.fam c) (anaBodies (d := d))).isNone = true := by
  cases c <;> first | rfl | exact absurd h (by decide)

theorem vecAllNonzero_iff (s : Vec d) : vecAllNonzero s = true ↔ ∀ i, s i ≠ 0 := by
  simp [vecAllNonzero]

theorem genScale_eq (s : Vec d) (uniform : Bool) (h : ∀ i, s i ≠ 0) :
    genScale s uniform = .ok (scaleFactory s uniform) := by
  have hz := (vecAllNonzero_iff s).mpr h
  cases uniform <;> simp [genScale, hz, scaleFactory]

/-- `Scale` refuses a zero factor (`ValueError`) -/
theorem genScale_zero (s : Vec d) (uniform : Bool) (i : Fin d) (h : s i = 0) :
    genScale s uniform = .error .rejected := by
  have hz : vecAllNonzero s = false := by
    cases hv : vecAllNonzero s with
    | false => rfl
    | true => exact absurd h ((vecAllNonzero_iff s).mp hv i)
  simp [genScale, hz]

theorem genDecompose_eq (t : HT d) (U V : Mat d) (s : Vec d) (uniform : Bool) (h : ∀ i, s i ≠ 0) :
    genDecompose t U V s uniform = .ok (decomposeLeaves U V s uniform (trans t.M)) := by
  simp [genDecompose, genScale_eq s uniform h, exc_bind_ok, decomposeLeaves]

theorem genDecomposeDiscrete_eq (t : HT d) : genDecomposeDiscrete t = .ok (decomposeDiscrete t) := rfl

/-- `t.decompose()`: attribute lookup on the class of `t`, then the translated body -/
def entryDecompose (mt : MethodTable) (t : HT d) (U V : Mat d) (s : Vec d) (uniform : Bool) :
    Except Err (List Leaf) :=
  match callMeth mt .decompose (.fam t.cls)
      [(Sup.Affine, fun t => genDecompose t U V s uniform), (Sup.DiscreteAffine, genDecomposeDiscrete)] with
  | some f => f t
  | none => .error .noMethod

theorem sup_dec (c : HCls) : supplier MT (.fam c) .decompose =
    (if baseOf c = .Homogeneous then none
     else if baseOf c = .Affine ∨ baseOf c = .Similarity then some .Affine else some .DiscreteAffine) := by
  cases c <;> rfl

/-- which decomposition runs on which class: the SVD for `Affine`, `Similarity` and their alignment
variants, `[copy]` for the discrete classes, none on `Homogeneous` -/
theorem entryDecompose_eq (t : HT d) (U V : Mat d) (s : Vec d) (uniform : Bool) (h : ∀ i, s i ≠ 0) :
    entryDecompose MT t U V s uniform =
      if baseOf t.cls = .Homogeneous then .error .noMethod
      else if baseOf t.cls = .Affine ∨ baseOf t.cls = .Similarity then
        .ok (decomposeLeaves U V s uniform (trans t.M))
      else .ok (decomposeDiscrete t) := by
  obtain ⟨c, M⟩ := t
  cases c <;> simp only [entryDecompose, callMeth, sup_dec, baseOf] <;>
    simp [genDecompose_eq _ U V s uniform h, genDecomposeDiscrete_eq]

/-- thin-plate splines and piecewise affine transforms resolve every method of the composition
machinery alike, except `_apply` (so one opaque leaf kind stands for both) -/
theorem pwa_like_tps : ∀ m ∈ Meth.all, m ≠ ._apply →
    supplier MT .PiecewiseAffine m = supplier MT .ThinPlateSplines m := by decide

end MenpoModel.GenProps.C03
