/-
C06 — obligations over `Generated/C06Src.lean` (the bodies of the anchored menpo functions, TRANSLATED from the source
text of the working tree on every run): every translated function equals, for all arguments, the hand-written model
the C06 theorems are about; then the property theorems restated for the translated methods.

The proofs are by unfolding + case split on every branch + `simp` (straight-line bodies) and by induction over the
iterated list with the loop state generalised (loops), so that a harmless rewrite of the Python keeps them while a
changed decision breaks them.  Hand-written; `lake build` re-checks it against what the code says now.
-/
import MenpoModel.Props.C06
import MenpoModel.Generated.C06Src

set_option linter.unusedSimpArgs false
set_option linter.unusedVariables false

namespace MenpoModel.C06.SrcProps
open MenpoModel.C06 MenpoModel.C06.GenSrc

/-! ## Part 2 first (the simpler one): the landmark manager on the `LM.World` -/

section World
open MenpoModel.C06.LM

/-- a loop that returns from its first iteration -/
theorem forLoop_first {α β : Type} (f : Option β → α → Option β) (g : α → β)
    (hf : ∀ acc it, f acc it = if acc.isSome then acc else some (g it)) (x : α) (xs : List α) :
    Py.forLoop none (x :: xs) f = some (g x) := by
  rw [Py.forLoop_cons, hf]
  simp only [Option.isSome_none, Bool.false_eq_true, if_false]
  have : f = fun acc it => if (fun a : Option β => a.isSome) acc then acc else (fun _ it => some (g it)) acc it := by
    funext acc it; exact hf acc it
  rw [this]
  exact Py.forLoop_stopped (fun a : Option β => a.isSome) (fun _ it => some (g it)) (some (g x)) xs rfl

/-- `LandmarkManager.n_groups` -/
theorem lmNGroups_eq (w : World) (mi : Nat) : lmNGroups w mi = nGroups w mi := rfl

/-- `LandmarkManager.__len__` -/
theorem lmLen_eq (w : World) (mi : Nat) : lmLen w mi = nGroups w mi := rfl

/-- `LandmarkManager.has_landmarks` -/
theorem lmHasLandmarks_eq (w : World) (mi : Nat) : lmHasLandmarks w mi = hasLandmarks w mi := rfl

/-- `LandmarkManager.group_labels` -/
theorem lmGroupLabels_eq (w : World) (mi : Nat) : lmGroupLabels w mi = mgrKeys w mi := rfl

/-- `LandmarkManager.n_dims` -/
theorem lmNDims_eq (w : World) (mi : Nat) : lmNDims w mi = mgrNDims w mi := by
  unfold lmNDims mgrNDims lmNGroups Src.groups
  cases (w.mgrs[mi]?).getD [] with
  | nil => simp [Mgr.nDims]
  | cons p t =>
    obtain ⟨k, a⟩ := p
    simp only [Mgr.addrs, List.map_cons, Mgr.nDims, Src.shapeDim]
    rw [forLoop_first _ (fun a => (w.store[a]?).map (fun (s : Shape) => s.dim)) (fun acc it => rfl)]
    simp

theorem groups_of_some {w : World} {mi : Nat} {m : Mgr} (h : w.mgrs[mi]? = some m) : Src.groups w mi = m := by
  simp [Src.groups, h]

/-- `LandmarkManager.__setitem__`: the translated body is the model's `setItem` (Python tells the four
`ValueError` refusals apart by message only) -/
theorem lmSetItem_eq (w : World) (mi : Nat) (hm : mi < w.mgrs.length) (key : Option Nat) (arg : Arg) :
    lmSetItem w mi key arg = (setItem w mi key arg).mapError Src.toPy := by
  obtain ⟨m, hm⟩ : ∃ m, w.mgrs[mi]? = some m := ⟨w.mgrs[mi], by simp [hm]⟩
  unfold lmSetItem setItem
  rw [lmNDims_eq]
  simp only [mgrNDims, hm, Option.getD_some]
  cases key with
  | none => simp [Except.mapError, Src.toPy]
  | some k =>
    cases arg with
    | raw =>
      cases m.nDims w.store <;> simp [Src.argNDims, Src.argIsPC, Except.mapError, Src.toPy]
    | img d =>
      cases hn : m.nDims w.store with
      | none => simp [Src.argNDims, Src.argIsPC, Except.mapError, Src.toPy]
      | some n =>
        by_cases hd : d = n <;> simp [Src.argNDims, Src.argIsPC, Except.mapError, Src.toPy, hd]
    | ext i =>
      cases hi : w.exts[i]? with
      | none => cases m.nDims w.store <;> simp [Src.argNDims, Src.argIsPC, Src.copyArg, hi, Except.mapError, Src.toPy]
      | some a =>
        cases ha : w.store[a]? with
        | none =>
          cases m.nDims w.store <;> simp [Src.argNDims, Src.argIsPC, Src.copyArg, hi, ha, Except.mapError, Src.toPy]
        | some s =>
          cases hn : m.nDims w.store with
          | none =>
            simp [Src.argNDims, Src.argIsPC, Src.copyArg, hi, ha, Except.mapError, Src.storeGroupO, Src.storeGroup,
              Src.groups, hm]
          | some n =>
            by_cases hd : s.dim = n <;>
              simp [Src.argNDims, Src.argIsPC, Src.copyArg, hi, ha, Except.mapError, Src.toPy, hd, Src.storeGroupO,
                Src.storeGroup, Src.groups, hm]

/-- `LandmarkManager.__getitem__` -/
theorem lmGetItem_eq (w : World) (mi : Nat) (hm : mi < w.mgrs.length) (key : Option Nat) :
    lmGetItem w mi key = (getItem w mi key).mapError Src.toPy := by
  obtain ⟨m, hm⟩ : ∃ m, w.mgrs[mi]? = some m := ⟨w.mgrs[mi], by simp [hm]⟩
  unfold lmGetItem getItem lmNGroups lmGroupLabels
  simp only [groups_of_some hm, hm]
  cases key with
  | some k =>
    cases hl : m.lookup k <;> simp [Src.dictGet, hl, Except.mapError, Src.toPy]
  | none =>
    match m with
    | [] => simp [Except.mapError, Src.toPy]
    | [(k, a)] => simp [Mgr.keys, Src.dictGet, List.lookup, Except.mapError]
    | _ :: _ :: _ => simp [Except.mapError, Src.toPy]

/-- `LandmarkManager.__delitem__` -/
theorem lmDelItem_eq (w : World) (mi : Nat) (hm : mi < w.mgrs.length) (key : Option Nat) :
    lmDelItem w mi key = (delItem w mi key).mapError Src.toPy := by
  obtain ⟨m, hm⟩ : ∃ m, w.mgrs[mi]? = some m := ⟨w.mgrs[mi], by simp [hm]⟩
  unfold lmDelItem delItem Src.delGroup
  simp only [groups_of_some hm, hm]
  cases key with
  | none => simp [Except.mapError, Src.toPy]
  | some k => by_cases hk : m.any (·.1 == k) <;> simp [hk, Except.mapError, Src.toPy]

/-- `LandmarkManager._transform_inplace` -/
theorem lmTransformInplace_eq (w : World) (mi : Nat) (hm : mi < w.mgrs.length) (δ : Int) :
    lmTransformInplace w mi δ = (xformMgr w mi δ).mapError Src.toPy := by
  obtain ⟨m, hm⟩ : ∃ m, w.mgrs[mi]? = some m := ⟨w.mgrs[mi], by simp [hm]⟩
  unfold lmTransformInplace xformMgr
  simp [groups_of_some hm, hm, Except.mapError]

/-- `LandmarkManager.__init__`: the manager being created starts with an empty ordered dict -/
theorem lmInit_eq (w : World) : lmInit w w.mgrs.length = newMgr w := by
  simp [lmInit, Src.initGroups, newMgr]

/-- `d[k] = a` on an ordered dict whose keys are distinct replaces exactly the entry of `k` -/
theorem setKey_mid (pre t : Mgr) (k a b : Nat) (h1 : k ∉ pre.keys) :
    Mgr.setKey (pre ++ (k, a) :: t) k b = pre ++ (k, b) :: t.map (fun p => if p.1 == k then (k, b) else p) := by
  have hpre : pre.map (fun p => if p.1 == k then (k, b) else p) = pre := by
    induction pre with
    | nil => rfl
    | cons p t' ih =>
      simp only [Mgr.keys, List.map_cons, List.mem_cons, not_or] at h1
      have hne : (p.1 == k) = false := by
        simp only [beq_eq_false_iff_ne]
        exact fun e => h1.1 e.symm
      simp only [List.map_cons, hne]
      rw [ih (by simpa [Mgr.keys] using h1.2)]
      rfl
  simp only [Mgr.setKey, List.any_append, List.any_cons, beq_self_eq_true, Bool.true_or, Bool.or_true, if_true,
    List.map_append, List.map_cons, hpre]

theorem map_not_key (t : Mgr) (k b : Nat) (h : k ∉ t.keys) :
    t.map (fun p => if p.1 == k then (k, b) else p) = t := by
  induction t with
  | nil => rfl
  | cons p t' ih =>
    simp only [Mgr.keys, List.map_cons, List.mem_cons, not_or] at h
    have hne : (p.1 == k) = false := by
      simp only [beq_eq_false_iff_ne]
      exact fun e => h.1 e.symm
    simp only [List.map_cons, hne]
    rw [ih (by simpa [Mgr.keys] using h.2)]
    rfl

/-- the loop of `LandmarkManager.copy` on the world: every group of the new manager, in place, one after the other -/
theorem lmCopy_loop (ms : List Mgr) (o : List Owner) (e : List Nat) (f : World → Nat × Nat → World)
    (hf : ∀ acc it, f acc it =
      Src.storeGroup (Src.copyShape acc it.2).2 ms.length it.1 (Src.copyShape acc it.2).1) :
    ∀ (t pre : Mgr) (st : List Shape), (Mgr.keys (pre ++ t)).Nodup →
      Py.forLoop (⟨st, ms ++ [pre ++ t], o, e⟩ : World) t f =
      ⟨(copyGroups st t).1, ms ++ [pre ++ (copyGroups st t).2], o, e⟩ := by
  intro t
  induction t with
  | nil => intro pre st _; simp [Py.forLoop_nil, copyGroups]
  | cons p t ih =>
    intro pre st hnd
    obtain ⟨k, a⟩ := p
    have hk : k ∉ Mgr.keys pre ∧ k ∉ Mgr.keys t := by
      simp only [Mgr.keys, List.map_append, List.map_cons, List.nodup_append, List.nodup_cons] at hnd
      refine ⟨?_, ?_⟩
      · intro hmem
        exact hnd.2.2 k hmem k List.mem_cons_self rfl
      · exact hnd.2.1.1
    rw [Py.forLoop_cons, hf]
    have hstep : Src.storeGroup (Src.copyShape (⟨st, ms ++ [pre ++ (k, a) :: t], o, e⟩ : World) a).2 ms.length k
        (Src.copyShape (⟨st, ms ++ [pre ++ (k, a) :: t], o, e⟩ : World) a).1 =
        (⟨st ++ [(st[a]?).getD default], ms ++ [(pre ++ [(k, st.length)]) ++ t], o, e⟩ : World) := by
      simp only [Src.storeGroup, Src.copyShape, Src.groups]
      simp only [List.getElem?_append_right (Nat.le_refl _), Nat.sub_self, List.getElem?_cons_zero,
        Option.getD_some, setKey_mid pre t k a st.length hk.1, map_not_key t k st.length hk.2]
      simp
    simp only [hstep]
    rw [ih (pre ++ [(k, st.length)]) _ (by simpa [Mgr.keys, List.map_append] using hnd)]
    simp [copyGroups]

/-- `LandmarkManager.copy` on the world: the translated body (shallow copy of the manager, then every group
replaced by its copy, in place) is the model's `copyMgr` whenever the group names are distinct (an invariant of
every reachable world, `WInv.keys`) -/
theorem lmCopy_eq (w : World) (mi : Nat) (hnd : ∀ m, w.mgrs[mi]? = some m → m.keys.Nodup) :
    lmCopy w mi = ((copyMgr w mi).map fun r => (r.2, r.1)).mapError Src.toPy := by
  unfold lmCopy copyMgr Src.shallowCopyMgr
  cases hm : w.mgrs[mi]? with
  | none => simp [Except.mapError, Except.map, Src.toPy]
  | some m =>
    have hg : Src.groups { w with mgrs := w.mgrs ++ [m] } w.mgrs.length = m := by simp [Src.groups]
    simp only [hg]
    have := lmCopy_loop w.mgrs w.owners w.exts _ (fun _ _ => rfl) m [] w.store (by simpa using hnd m hm)
    simp only [List.nil_append] at this
    rw [this]
    simp [Except.mapError, Except.map]

/-- `Landmarkable.landmarks` setter -/
theorem setLandmarks_eq (w : World) (o mi : Nat) (ho : o < w.owners.length)
    (hnd : ∀ m, w.mgrs[mi]? = some m → m.keys.Nodup) :
    setLandmarks w o mi = (assign w o mi).mapError Src.toPy := by
  obtain ⟨ow, ho⟩ : ∃ ow, w.owners[o]? = some ow := ⟨w.owners[o], by simp [ho]⟩
  unfold setLandmarks assign
  rw [lmNDims_eq, lmCopy_eq w mi hnd]
  simp only [mgrNDims, Src.ownerDim, ho]
  cases hm : w.mgrs[mi]? with
  | none => simp [copyMgr, hm, Mgr.nDims, Except.mapError, Except.map, Src.toPy]
  | some m =>
    simp only [Option.getD_some, copyMgr, hm]
    cases hn : m.nDims w.store with
    | none => simp [Except.mapError, Except.map, Src.setOwnerMgr, ho]
    | some n =>
      by_cases hd : n = ow.dim <;> simp [hd, Except.mapError, Except.map, Src.setOwnerMgr, ho, Src.toPy]

end World


/-! ## Part 1 — the five `copy` methods on the heap -/

section HeapPart

/-- the state of a translated loop that may be left early: the pending result, the object being built, the heap -/
abbrev St := Option (Except Err (Src.PObj × Heap)) × Src.PObj × Heap

/-- what follows every such loop: leave with the pending result, else return the object and the heap -/
def loopOut (r : St) : Except Err (Src.PObj × Heap) :=
  match r.1 with
  | some v => v
  | none => .ok (r.2.1, r.2.2)

theorem forLoop_stop {σ α : Type} (P : σ → Prop) (f : σ → α → σ) (hf : ∀ s it, P s → f s it = s) (s : σ) (hs : P s)
    (xs : List α) : Py.forLoop s xs f = s := by
  induction xs with
  | nil => rfl
  | cons x xs ih => rw [Py.forLoop_cons, hf s x hs]; exact ih

theorem putSlot_fresh : ∀ (fs : Slots) (k : String) (v : Val), k ∉ slotNames fs → putSlot fs k v = fs ++ [(k, v)]
  | [], k, v, _ => rfl
  | (y, w) :: t, k, v, h => by
    simp only [slotNames, List.map_cons, List.mem_cons, not_or] at h
    have hne : (y == k) = false := by
      simp only [beq_eq_false_iff_ne]
      exact fun e => h.1 e.symm
    simp only [putSlot, hne, Bool.false_eq_true, if_false, List.cons_append]
    rw [putSlot_fresh t k v (by simpa [slotNames] using h.2)]

theorem callCopy_ok {rec : Src.Rec} {h : Heap} {v : Val} {h1 : Heap} {v1 : Val} (e : rec h v = .ok (h1, v1)) :
    Src.callCopy rec h v = .ok (v1, h1) := by simp [Src.callCopy, e, Except.map]

theorem callCopy_err {rec : Src.Rec} {h : Heap} {v : Val} {e : Err} (he : rec h v = .error e) :
    Src.callCopy rec h v = .error e := by simp [Src.callCopy, he, Except.map]

/-- what the body of the attribute loop of `Copyable.copy` does (the `try` / `except AttributeError`), whatever its
shape: nothing once the loop was left; a successful `v.copy()` is stored; an `AttributeError` stores `v` itself;
any other failure leaves the loop with that failure -/
structure CopyLoopBody (rec : Src.Rec) (f : St → String × Val → St) : Prop where
  stop : ∀ acc it, acc.1.isSome = true → f acc it = acc
  ok : ∀ n h it r, Src.callCopy rec h it.2 = .ok r → f (none, n, h) it = (none, Src.setAttr n it.1 r.1, r.2)
  attr : ∀ n h it, Src.callCopy rec h it.2 = .error .attr → f (none, n, h) it = (none, Src.setAttr n it.1 it.2, h)
  err : ∀ n h it e, Src.callCopy rec h it.2 = .error e → e ≠ .attr → (f (none, n, h) it).1 = some (.error e)

theorem loop_left {α : Type} (f : St → α → St) (hstop : ∀ acc it, acc.1.isSome = true → f acc it = acc) (s : St)
    (e : Except Err (Src.PObj × Heap)) (hs : s.1 = some e) (xs : List α) : loopOut (Py.forLoop s xs f) = e := by
  rw [forLoop_stop (fun s : St => s.1.isSome = true) f hstop s (by simp [hs])]
  simp [loopOut, hs]

theorem copyable_loop {rec : Src.Rec} {f : St → String × Val → St} (B : CopyLoopBody rec f) :
    ∀ (fs acc : Slots) (h : Heap), (slotNames acc ++ slotNames fs).Nodup →
      loopOut (Py.forLoop ((none, ⟨acc, none⟩, h) : St) fs f) =
        (copySlots rec h fs).map fun r => ((⟨acc ++ r.2, none⟩ : Src.PObj), r.1) := by
  intro fs
  induction fs with
  | nil => intro acc h _; simp [Py.forLoop_nil, loopOut, copySlots, Except.map]
  | cons p t ih =>
    obtain ⟨x, v⟩ := p
    intro acc h hnd
    have hx : x ∉ slotNames acc := by
      intro hmem
      have := (List.nodup_append.mp hnd).2.2 x hmem x (by simp [slotNames])
      exact this rfl
    have hnd' : ∀ u : Val, (slotNames (acc ++ [(x, u)]) ++ slotNames t).Nodup := by
      intro u
      simpa [slotNames, List.map_append] using hnd
    rw [Py.forLoop_cons]
    simp only [copySlots]
    cases hr : rec h v with
    | ok r =>
      obtain ⟨h1, v1⟩ := r
      rw [B.ok _ _ (x, v) _ (callCopy_ok hr)]
      simp only [Src.setAttr, putSlot_fresh acc x v1 hx]
      rw [ih (acc ++ [(x, v1)]) h1 (hnd' v1)]
      cases copySlots rec h1 t <;> simp [Except.map]
    | error e =>
      cases e with
      | attr =>
        rw [B.attr _ _ (x, v) (callCopy_err hr)]
        simp only [Src.setAttr, putSlot_fresh acc x v hx]
        rw [ih (acc ++ [(x, v)]) h (hnd' v)]
        cases copySlots rec h t <;> simp [Except.map]
      | fuel =>
        rw [loop_left f B.stop _ _ (B.err _ _ (x, v) _ (callCopy_err hr) (by decide))]
        simp [Except.map]
      | unknown =>
        rw [loop_left f B.stop _ _ (B.err _ _ (x, v) _ (callCopy_err hr) (by decide))]
        simp [Except.map]

/-- `Copyable.copy` (menpo/base.py): the translated body — a new blank object, then for every attribute
`try: new.__dict__[k] = v.copy() except AttributeError: new.__dict__[k] = v` — is the model's attribute loop
`copySlots`, whenever the attribute names are distinct (they are the keys of a Python dict) -/
theorem copyableCopy_eq (rec : Src.Rec) (h : Heap) (self : Src.SelfObj) (hnd : (slotNames self.fs).Nodup) :
    copyableCopy rec h self = (copySlots rec h self.fs).map fun r => ((⟨r.2, none⟩ : Src.PObj), r.1) := by
  unfold copyableCopy
  show loopOut (Py.forLoop ((none, Src.blank, h) : St) self.fs _) = _
  rw [show Src.blank = (⟨[], none⟩ : Src.PObj) from rfl,
    copyable_loop (rec := rec) ?B self.fs [] h (by simpa [slotNames] using hnd)]
  · simp
  · constructor
    · intro acc it hs
      simp [hs]
    · intro n h it r hr
      simp [hr]
    · intro n h it hr
      simp [hr]
    · intro n h it e hr hne
      cases e <;> simp_all


/-! ### Python dicts have distinct keys: an invariant of `copy` -/

-- `PyDict h` (every `__dict__`, dict and list cell has distinct slot names), its executable form `pyDictB` (run
-- by the driver on every sampled live heap) and `pyDict_of_pyDictB` are in `Core/C06Src.lean`.

theorem _root_.MenpoModel.C06.PyDict.alloc_node {h : Heap} (hp : PyDict h) (k : NodeKind) (fs : Slots) (hnd : (slotNames fs).Nodup) :
    PyDict (h ++ [.node k fs]) := by
  intro a k' fs' e
  rcases Nat.lt_or_ge a h.length with hlt | hge
  · rw [List.getElem?_append_left hlt] at e
    exact hp a k' fs' e
  · have hlt := get_lt e
    simp only [List.length_append, List.length_cons, List.length_nil] at hlt
    have : a = h.length := by omega
    subst this
    rw [get_last] at e
    cases e
    exact hnd

theorem _root_.MenpoModel.C06.PyDict.alloc_buf {h : Heap} (hp : PyDict h) (d : List Int) : PyDict (h ++ [.buf d]) := by
  intro a k' fs' e
  rcases Nat.lt_or_ge a h.length with hlt | hge
  · rw [List.getElem?_append_left hlt] at e
    exact hp a k' fs' e
  · have hlt := get_lt e
    simp only [List.length_append, List.length_cons, List.length_nil] at hlt
    have : a = h.length := by omega
    subst this
    rw [get_last] at e
    cases e

/-- what the translated methods need of the recursive `v.copy()`: it only allocates, and keeps keys distinct -/
structure RecOK (rec : Src.Rec) : Prop where
  ext : ∀ h v h' v', rec h v = .ok (h', v') → Ext h h'
  pyd : ∀ h v h' v', rec h v = .ok (h', v') → PyDict h → PyDict h'

theorem slotsRel_ok {rec : Src.Rec} (R : RecOK rec) {h : Heap} {fs : Slots} {h1 : Heap} {fs1 : Slots}
    (r : SlotsRel rec h fs h1 fs1) : Ext h h1 ∧ (PyDict h → PyDict h1) ∧ slotNames fs1 = slotNames fs := by
  induction r with
  | nil h => exact ⟨Ext.refl h, id, rfl⟩
  | copied hr _ ih =>
    obtain ⟨e, p, n⟩ := ih
    refine ⟨(R.ext _ _ _ _ hr).trans e, fun hp => p (R.pyd _ _ _ _ hr hp), ?_⟩
    simp only [slotNames, List.map_cons] at n ⊢
    rw [n]
  | shared hr _ ih =>
    obtain ⟨e, p, n⟩ := ih
    refine ⟨e, p, ?_⟩
    simp only [slotNames, List.map_cons] at n ⊢
    rw [n]

theorem copyCall_ok (res : String → CopyImpl) :
    ∀ (n : Nat) (h : Heap) (v : Val) (h' : Heap) (v' : Val), copyCall res n h v = .ok (h', v') →
      Ext h h' ∧ (PyDict h → PyDict h') := by
  intro n
  induction n with
  | zero => intro h v h' v' e; simp [copyCall] at e
  | succ n ih =>
    have R : RecOK (copyCall res n) := ⟨fun h v h' v' e => (ih h v h' v' e).1, fun h v h' v' e => (ih h v h' v' e).2⟩
    intro h v h' v' e
    cases v with
    | imm t => simp [copyCall] at e
    | ref a =>
      simp only [copyCall] at e
      split at e
      · cases e
      · simp only [Except.ok.injEq, Prod.mk.injEq] at e
        obtain ⟨rfl, rfl⟩ := e
        exact ⟨Ext.append _ _, fun hp => hp.alloc_buf _⟩
      · rename_i fs hcell
        simp only [Except.ok.injEq, Prod.mk.injEq] at e
        obtain ⟨rfl, rfl⟩ := e
        exact ⟨Ext.append _ _, fun hp => hp.alloc_node _ _ (hp a _ _ hcell)⟩
      · rename_i fs hcell
        simp only [Except.ok.injEq, Prod.mk.injEq] at e
        obtain ⟨rfl, rfl⟩ := e
        exact ⟨Ext.append _ _, fun hp => hp.alloc_node _ _ (hp a _ _ hcell)⟩
      · cases e
      · rename_i C fs hcell
        split at e
        · -- Copyable.copy
          split at e
          · rename_i h1 fs1 hcs
            simp only [Except.ok.injEq, Prod.mk.injEq] at e
            obtain ⟨rfl, rfl⟩ := e
            obtain ⟨e1, p1, n1⟩ := slotsRel_ok R (copySlots_rel _ _ _ _ hcs)
            exact ⟨e1.trans (Ext.append _ _), fun hp => (p1 hp).alloc_node _ _ (by rw [n1]; exact hp a _ _ hcell)⟩
          · cases e
        · -- LandmarkManager.copy
          split at e
          · rename_i h1 fs1 hcs
            split at e
            · rename_i h2 d2 hde
              simp only [Except.ok.injEq, Prod.mk.injEq] at e
              obtain ⟨rfl, rfl⟩ := e
              obtain ⟨e1, p1, n1⟩ := slotsRel_ok R (copySlots_rel _ _ _ _ hcs)
              simp only [deepenValues] at hde
              split at hde
              · rename_i d hl
                split at hde
                · rename_i gs hd
                  split at hde
                  · rename_i hv gs2 hcv
                    simp only [Except.ok.injEq, Prod.mk.injEq] at hde
                    obtain ⟨rfl, rfl⟩ := hde
                    obtain ⟨e2, p2, n2⟩ := slotsRel_ok R (copyValues_rel _ _ _ _ hcv)
                    refine ⟨(e1.trans e2).trans ((Ext.append _ _).trans (Ext.append _ _)), fun hp => ?_⟩
                    have hp1 := p1 hp
                    apply PyDict.alloc_node
                    · exact (p2 hp1).alloc_node _ _ (by rw [n2]; exact hp1 d _ _ hd)
                    · rw [setSlot_names, n1]; exact hp a _ _ hcell
                  · cases hde
                · cases hde
              · cases hde
            · cases e
          · cases e
        · -- LabelledPointUndirectedGraph.copy
          split at e
          · rename_i h1 fs1 hcs
            split at e
            · rename_i h2 d2 hde
              simp only [Except.ok.injEq, Prod.mk.injEq] at e
              obtain ⟨rfl, rfl⟩ := e
              obtain ⟨e1, p1, n1⟩ := slotsRel_ok R (copySlots_rel _ _ _ _ hcs)
              simp only [deepenValues] at hde
              split at hde
              · rename_i d hl
                split at hde
                · rename_i gs hd
                  split at hde
                  · rename_i hv gs2 hcv
                    simp only [Except.ok.injEq, Prod.mk.injEq] at hde
                    obtain ⟨rfl, rfl⟩ := hde
                    obtain ⟨e2, p2, n2⟩ := slotsRel_ok R (copyValues_rel _ _ _ _ hcv)
                    refine ⟨(e1.trans e2).trans ((Ext.append _ _).trans (Ext.append _ _)), fun hp => ?_⟩
                    have hp1 := p1 hp
                    apply PyDict.alloc_node
                    · exact (p2 hp1).alloc_node _ _ (by rw [n2]; exact hp1 d _ _ hd)
                    · rw [setSlot_names, n1]; exact hp a _ _ hcell
                  · cases hde
                · cases hde
              · cases hde
            · cases e
          · cases e
        · -- LazyList.copy
          split at e
          · rename_i h1 fs1 hcs
            split at e
            · rename_i l hll
              split at e
              · rename_i items hitems
                simp only [Except.ok.injEq, Prod.mk.injEq] at e
                obtain ⟨rfl, rfl⟩ := e
                obtain ⟨e1, p1, n1⟩ := slotsRel_ok R (copySlots_rel _ _ _ _ hcs)
                refine ⟨e1.trans ((Ext.append _ _).trans (Ext.append _ _)), fun hp => ?_⟩
                apply PyDict.alloc_node
                · exact (p1 hp).alloc_node _ _ (hp l _ _ hitems)
                · rw [setSlot_names, n1]; exact hp a _ _ hcell
              · cases e
            · cases e
          · cases e
        · -- HomogFamilyAlignment.copy
          split at e
          · rename_i m hlm
            split at e
            · rename_i h1 m1 hcm
              simp only [Except.ok.injEq, Prod.mk.injEq] at e
              obtain ⟨rfl, rfl⟩ := e
              obtain ⟨e1, p1⟩ := ih _ _ _ _ hcm
              refine ⟨e1.trans (Ext.append _ _), fun hp => (p1 hp).alloc_node _ _ ?_⟩
              rw [setSlot_names]; exact hp a _ _ hcell
            · cases e
          · cases e
        · cases e

theorem copyCall_recOK (res : String → CopyImpl) (n : Nat) : RecOK (copyCall res n) :=
  ⟨fun h v h' v' e => (copyCall_ok res n h v h' v' e).1, fun h v h' v' e => (copyCall_ok res n h v h' v' e).2⟩

/-- PROPERTY support (keys stay distinct): `copy()` keeps every dict's keys distinct -/
theorem copy_preserves_pyDict (res : String → CopyImpl) (n : Nat) (h : Heap) (v : Val) (h' : Heap) (v' : Val)
    (e : copyCall res n h v = .ok (h', v')) (hp : PyDict h) : PyDict h' := (copyCall_ok res n h v h' v' e).2 hp


/-! ### the two deepening overrides: `LandmarkManager.copy`, `LabelledPointUndirectedGraph.copy` -/

/-- what follows the loop of a deepening override: leave with the pending result, else return the object with the
container of attribute `x` re-initialised -/
def loopOutSeal (x : String) (r : St) : Except Err (Src.PObj × Heap) :=
  match r.1 with
  | some v => v
  | none => .ok (Src.sealOver r.2.2 r.2.1 x, r.2.2)

/-- what the body of the loop `for k, v in new.x.items(): new.x[k] = v.copy()` does, whatever its shape -/
structure DeepLoopBody (rec : Src.Rec) (x : String) (f : St → String × Val → St) : Prop where
  stop : ∀ acc it, acc.1.isSome = true → f acc it = acc
  ok : ∀ n h it r, Src.callCopy rec h it.2 = .ok r → f (none, n, h) it = (none, Src.setItem r.2 n x it.1 r.1, r.2)
  err : ∀ n h it e, Src.callCopy rec h it.2 = .error e → (f (none, n, h) it).1 = some (.error e)

theorem putSlot_mid : ∀ (pre t : Slots) (k : String) (v v1 : Val), k ∉ slotNames pre →
    putSlot (pre ++ (k, v) :: t) k v1 = pre ++ (k, v1) :: t
  | [], t, k, v, v1, _ => by simp [putSlot]
  | (y, w) :: pre, t, k, v, v1, h => by
    simp only [slotNames, List.map_cons, List.mem_cons, not_or] at h
    have hne : (y == k) = false := by
      simp only [beq_eq_false_iff_ne]
      exact fun e => h.1 e.symm
    simp only [List.cons_append, putSlot, hne, Bool.false_eq_true, if_false]
    rw [putSlot_mid pre t k v v1 (by simpa [slotNames] using h.2)]

theorem loopSeal_left {α : Type} (x : String) (f : St → α → St)
    (hstop : ∀ acc it, acc.1.isSome = true → f acc it = acc) (s : St)
    (e : Except Err (Src.PObj × Heap)) (hs : s.1 = some e) (xs : List α) :
    loopOutSeal x (Py.forLoop s xs f) = e := by
  rw [forLoop_stop (fun s : St => s.1.isSome = true) f hstop s (by simp [hs])]
  simp [loopOutSeal, hs]

theorem deepen_loop {rec : Src.Rec} {x : String} {f : St → String × Val → St} (B : DeepLoopBody rec x f)
    (fs1 : Slots) : ∀ (t pre : Slots) (hc : Heap), (slotNames (pre ++ t)).Nodup →
      loopOutSeal x (Py.forLoop ((none, ⟨fs1, some (x, pre ++ t)⟩, hc) : St) t f) =
        (copyValues rec hc t).map fun r => ((⟨fs1, some (x, pre ++ r.2)⟩ : Src.PObj), r.1) := by
  intro t
  induction t with
  | nil => intro pre hc _; simp [Py.forLoop_nil, loopOutSeal, Src.sealOver, copyValues, Except.map]
  | cons p t ih =>
    obtain ⟨k, v⟩ := p
    intro pre hc hnd
    have hk : k ∉ slotNames pre := by
      intro hmem
      simp only [slotNames, List.map_append, List.map_cons] at hnd
      exact (List.nodup_append.mp hnd).2.2 k hmem k (by simp) rfl
    rw [Py.forLoop_cons]
    simp only [copyValues]
    cases hr : rec hc v with
    | ok r =>
      obtain ⟨h1, v1⟩ := r
      rw [B.ok _ _ (k, v) _ (callCopy_ok hr)]
      have hset : Src.setItem h1 (⟨fs1, some (x, pre ++ (k, v) :: t)⟩ : Src.PObj) x k v1 =
          ⟨fs1, some (x, (pre ++ [(k, v1)]) ++ t)⟩ := by
        simp [Src.setItem, Src.curItems, putSlot_mid pre t k v v1 hk]
      simp only [hset]
      rw [ih (pre ++ [(k, v1)]) h1 (by simpa [slotNames, List.map_append] using hnd)]
      cases copyValues rec h1 t <;> simp [Except.map]
    | error e =>
      rw [loopSeal_left x f B.stop _ _ (B.err _ _ (k, v) _ (callCopy_err hr))]
      simp [Except.map]

/-- the model's phase after the generic one (`deepenValues`), before the cells are allocated -/
def deepenTail (rec : Src.Rec) (x : String) (h1 : Heap) (fs1 : Slots) : Except Err (Src.PObj × Heap) :=
  match fs1.lookup x with
  | some (.ref d) =>
    match h1[d]? with
    | some (.node .dict gs) =>
      match copyValues rec h1 gs with
      | .ok (h2, gs2) => .ok (⟨fs1, some (x, gs2)⟩, h2)
      | .error e => .error e
    | _ => .error .attr
  | _ => .error .attr

theorem deepen_tail {rec : Src.Rec} (R : RecOK rec) (x : String) {f : St → String × Val → St}
    (B : DeepLoopBody rec x f) (h1 : Heap) (hp1 : PyDict h1) (fs1 : Slots) :
    (match Src.itemsOf h1 (⟨fs1, none⟩ : Src.PObj) x with
      | .ok gs => loopOutSeal x (Py.forLoop ((none, ⟨fs1, none⟩, h1) : St) gs f)
      | .error e => .error e) = deepenTail rec x h1 fs1 := by
  unfold deepenTail Src.itemsOf Src.curItems
  simp only []
  cases hl : fs1.lookup x with
  | none => rfl
  | some w =>
    cases w with
    | imm i => rfl
    | ref d =>
      simp only []
      cases hd : h1[d]? with
      | none => rfl
      | some c =>
        cases c with
        | buf b => rfl
        | node k gs =>
          cases k with
          | list => rfl
          | frozen => rfl
          | obj C => rfl
          | dict =>
            simp only []
            have hnd : (slotNames gs).Nodup := hp1 d _ _ hd
            cases gs with
            | nil => simp [Py.forLoop_nil, loopOutSeal, Src.sealOver, Src.curItems, hl, hd, copyValues]
            | cons p t =>
              obtain ⟨k, v⟩ := p
              rw [Py.forLoop_cons]
              simp only [copyValues]
              cases hr : rec h1 v with
              | error e =>
                rw [loopSeal_left x f B.stop _ _ (B.err _ _ (k, v) _ (callCopy_err hr))]
              | ok r =>
                obtain ⟨h2, v1⟩ := r
                rw [B.ok _ _ (k, v) _ (callCopy_ok hr)]
                have hd2 : h2[d]? = some (.node .dict ((k, v) :: t)) := by
                  rw [(R.ext _ _ _ _ hr).get (get_lt hd)]; exact hd
                have hset : Src.setItem h2 (⟨fs1, none⟩ : Src.PObj) x k v1 = ⟨fs1, some (x, [(k, v1)] ++ t)⟩ := by
                  simp [Src.setItem, Src.curItems, hl, hd2, putSlot]
                simp only [hset]
                rw [deepen_loop B fs1 t [(k, v1)] h2 (by simpa [slotNames] using hnd)]
                cases copyValues rec h2 t <;> simp [Except.map]

theorem putSlot_eq_setSlot : ∀ (fs : Slots) (x : String) (v : Val), (fs.lookup x).isSome = true →
    putSlot fs x v = setSlot fs x v
  | [], x, v, h => by simp [List.lookup] at h
  | (y, w) :: t, x, v, h => by
    simp only [putSlot, setSlot]
    by_cases hxy : (y == x) = true
    · simp [hxy]
    · have hxy' : (x == y) = false := by
        simp only [Bool.not_eq_true, beq_eq_false_iff_ne] at hxy ⊢
        exact fun e => hxy e.symm
      simp only [List.lookup, hxy'] at h
      simp only [hxy, if_false, Bool.false_eq_true]
      rw [putSlot_eq_setSlot t x v h]

/-- the deepened object becomes two cells exactly as the model allocates them -/
theorem deepenTail_finish (rec : Src.Rec) (x C : String) (h1 : Heap) (fs1 : Slots) :
    (deepenTail rec x h1 fs1).map (Src.finish C) =
      match deepenValues rec x h1 fs1 with
      | .ok (h2, d2) => .ok (h2 ++ [.node (.obj C) (setSlot fs1 x d2)], .ref h2.length)
      | .error e => .error e := by
  unfold deepenTail deepenValues
  cases hl : fs1.lookup x with
  | none => rfl
  | some w =>
    cases w with
    | imm i => rfl
    | ref d =>
      simp only []
      cases hd : h1[d]? with
      | none => rfl
      | some c =>
        cases c with
        | buf b => rfl
        | node k gs =>
          cases k with
          | list => rfl
          | frozen => rfl
          | obj C => rfl
          | dict =>
            simp only []
            cases copyValues rec h1 gs with
            | error e => rfl
            | ok r =>
              obtain ⟨h2, gs2⟩ := r
              simp [Except.map, Src.finish, putSlot_eq_setSlot fs1 x _ (by simp [hl])]

theorem deepLoopBody_of {rec : Src.Rec} {x : String} {f : St → String × Val → St}
    (h1 : ∀ acc it, acc.1.isSome = true → f acc it = acc)
    (h2 : ∀ n h it r, Src.callCopy rec h it.2 = .ok r → f (none, n, h) it = (none, Src.setItem r.2 n x it.1 r.1, r.2))
    (h3 : ∀ n h it e, Src.callCopy rec h it.2 = .error e → (f (none, n, h) it).1 = some (.error e)) :
    DeepLoopBody rec x f := ⟨h1, h2, h3⟩

/-- `LandmarkManager.copy` (menpo/landmark/base.py): `new = Copyable.copy(self)`, then every value of
`new._landmark_groups` replaced by its copy — the model's `copySlots` followed by `deepenValues` -/
theorem landmarkManagerCopy_eq (rec : Src.Rec) (R : RecOK rec) (h : Heap) (hp : PyDict h) (self : Src.SelfObj)
    (hnd : (slotNames self.fs).Nodup) :
    landmarkManagerCopy rec h self =
      match copySlots rec h self.fs with
      | .ok (h1, fs1) => deepenTail rec "_landmark_groups" h1 fs1
      | .error e => .error e := by
  unfold landmarkManagerCopy
  rw [copyableCopy_eq rec h self hnd]
  cases hcs : copySlots rec h self.fs with
  | error e => rfl
  | ok r =>
    obtain ⟨h1, fs1⟩ := r
    simp only [Except.map]
    have hp1 := (slotsRel_ok R (copySlots_rel _ _ _ _ hcs)).2.1 hp
    refine deepen_tail R "_landmark_groups" (deepLoopBody_of ?_ ?_ ?_) h1 hp1 fs1
    · intro acc it hs
      simp [hs]
    · intro n h it r hr
      simp [hr]
    · intro n h it e hr
      simp [hr]

/-- `LabelledPointUndirectedGraph.copy` (menpo/shape/labelled.py): the same with `_labels_to_masks` -/
theorem labelledCopy_eq (rec : Src.Rec) (R : RecOK rec) (h : Heap) (hp : PyDict h) (self : Src.SelfObj)
    (hnd : (slotNames self.fs).Nodup) :
    labelledCopy rec h self =
      match copySlots rec h self.fs with
      | .ok (h1, fs1) => deepenTail rec "_labels_to_masks" h1 fs1
      | .error e => .error e := by
  unfold labelledCopy
  rw [copyableCopy_eq rec h self hnd]
  cases hcs : copySlots rec h self.fs with
  | error e => rfl
  | ok r =>
    obtain ⟨h1, fs1⟩ := r
    simp only [Except.map]
    have hp1 := (slotsRel_ok R (copySlots_rel _ _ _ _ hcs)).2.1 hp
    refine deepen_tail R "_labels_to_masks" (deepLoopBody_of ?_ ?_ ?_) h1 hp1 fs1
    · intro acc it hs
      simp [hs]
    · intro n h it r hr
      simp [hr]
    · intro n h it e hr
      simp [hr]


/-! ### `LazyList.copy`, `HomogFamilyAlignment.copy` -/

theorem isSome_lookup_iff : ∀ (fs : Slots) (x : String), (fs.lookup x).isSome = true ↔ x ∈ slotNames fs
  | [], x => by simp [List.lookup, slotNames]
  | (y, w) :: t, x => by
    simp only [List.lookup, slotNames, List.map_cons, List.mem_cons]
    by_cases hxy : x = y
    · subst hxy; simp
    · have : (x == y) = false := by simpa using hxy
      simp only [this, hxy, false_or]
      exact isSome_lookup_iff t x

/-- `LazyList.copy` (menpo/base.py): `new = Copyable.copy(self); new._callables = list(self._callables)` -/
theorem lazyListCopy_eq (rec : Src.Rec) (R : RecOK rec) (h : Heap) (self : Src.SelfObj)
    (hnd : (slotNames self.fs).Nodup) (hv : ∀ x b, (x, Val.ref b) ∈ self.fs → b < h.length) :
    lazyListCopy rec h self =
      match copySlots rec h self.fs with
      | .ok (h1, fs1) =>
        match self.fs.lookup "_callables" with
        | some (.ref l) =>
          match h[l]? with
          | some (.node .list items) =>
            .ok (⟨setSlot fs1 "_callables" (.ref h1.length), none⟩, h1 ++ [.node .list items])
          | _ => .error .attr
        | _ => .error .attr
      | .error e => .error e := by
  unfold lazyListCopy
  rw [copyableCopy_eq rec h self hnd]
  cases hcs : copySlots rec h self.fs with
  | error e => rfl
  | ok r =>
    obtain ⟨h1, fs1⟩ := r
    simp only [Except.map, Src.selfAttr]
    obtain ⟨e1, _, n1⟩ := slotsRel_ok R (copySlots_rel _ _ _ _ hcs)
    cases hl : self.fs.lookup "_callables" with
    | none => rfl
    | some w =>
      cases w with
      | imm i => simp [Src.listCopy]
      | ref l =>
        have hlt : l < h.length := hv _ _ (lookup_mem hl)
        have hget : h1[l]? = h[l]? := e1.get hlt
        have hsome : (fs1.lookup "_callables").isSome = true := by
          rw [isSome_lookup_iff, n1, ← isSome_lookup_iff, hl]; rfl
        simp only [Src.listCopy, hget]
        cases hc : h[l]? with
        | none => rfl
        | some c =>
          cases c with
          | buf b => rfl
          | node k items =>
            cases k with
            | dict => rfl
            | frozen => rfl
            | obj C => rfl
            | list => simp [Src.setAttr, putSlot_eq_setSlot fs1 _ _ hsome]

/-- `HomogFamilyAlignment.copy` (menpo/transform/homogeneous/base.py): a shallow copy of `__dict__`, only
`_h_matrix` is duplicated -/
theorem homogAlignCopy_eq (rec : Src.Rec) (h : Heap) (self : Src.SelfObj) :
    homogAlignCopy rec h self =
      match self.fs.lookup "_h_matrix" with
      | some m =>
        match rec h m with
        | .ok (h1, m1) => .ok (⟨setSlot self.fs "_h_matrix" m1, none⟩, h1)
        | .error e => .error e
      | none => .error .attr := by
  unfold homogAlignCopy
  simp only [Src.getAttr, Src.selfAttr, Src.withDict, Src.blank, Src.newOf]
  cases hl : self.fs.lookup "_h_matrix" with
  | none => rfl
  | some m =>
    simp only [Src.callCopy]
    cases hr : rec h m with
    | error e => rfl
    | ok r =>
      obtain ⟨h1, m1⟩ := r
      simp [Except.map, Src.setAttr, putSlot_eq_setSlot self.fs _ _ (by rw [hl]; rfl)]

/-! ### `o.copy()` assembled from the translated methods -/

/-- `o.copy()` of a menpo object of class `C` with `__dict__ = fs`: Python resolves `copy` for the class (`res`,
regenerated from the live MRO) and runs its body — here the body TRANSLATED from the source; the `copy()` calls it
makes on attribute values are the model's `copyCall` with one unit of fuel less; what it returns becomes a cell. -/
def srcCopyObj (res : String → CopyImpl) (n : Nat) (h : Heap) (C : String) (fs : Slots) : Except Err (Heap × Val) :=
  match res C with
  | .generic => (copyableCopy (copyCall res n) h ⟨C, fs⟩).map (Src.finish C)
  | .landmarkManager => (landmarkManagerCopy (copyCall res n) h ⟨C, fs⟩).map (Src.finish C)
  | .labelled => (labelledCopy (copyCall res n) h ⟨C, fs⟩).map (Src.finish C)
  | .lazyList => (lazyListCopy (copyCall res n) h ⟨C, fs⟩).map (Src.finish C)
  | .homogAlign => (homogAlignCopy (copyCall res n) h ⟨C, fs⟩).map (Src.finish C)
  | .unknown => .error .unknown

/-- OBLIGATION (the model's `copy` IS the translated code): on every closed heap whose dicts have distinct keys,
the model's `copyCall` on an object is the translated body of the `copy` method Python resolves for its class. -/
theorem srcCopyObj_eq (res : String → CopyImpl) (n : Nat) (h : Heap) (hc : Closed h) (hp : PyDict h)
    (a : Nat) (C : String) (fs : Slots) (hobj : h[a]? = some (.node (.obj C) fs)) :
    srcCopyObj res n h C fs = copyCall res (n + 1) h (.ref a) := by
  have R := copyCall_recOK res n
  have hnd : (slotNames fs).Nodup := hp a _ _ hobj
  have hv : ∀ x b, (x, Val.ref b) ∈ fs → b < h.length := fun x b m => hc a _ _ hobj x b m
  simp only [copyCall, hobj, srcCopyObj]
  cases res C with
  | generic =>
    simp only [copyableCopy_eq _ h ⟨C, fs⟩ hnd]
    cases copySlots (copyCall res n) h fs with
    | error e => rfl
    | ok r => simp [Except.map, Src.finish]
  | landmarkManager =>
    simp only [landmarkManagerCopy_eq _ R h hp ⟨C, fs⟩ hnd]
    cases copySlots (copyCall res n) h fs with
    | error e => rfl
    | ok r =>
      obtain ⟨h1, fs1⟩ := r
      simp only [deepenTail_finish]
      cases deepenValues (copyCall res n) _ h1 fs1 <;> rfl
  | labelled =>
    simp only [labelledCopy_eq _ R h hp ⟨C, fs⟩ hnd]
    cases copySlots (copyCall res n) h fs with
    | error e => rfl
    | ok r =>
      obtain ⟨h1, fs1⟩ := r
      simp only [deepenTail_finish]
      cases deepenValues (copyCall res n) _ h1 fs1 <;> rfl
  | lazyList =>
    simp only [lazyListCopy_eq _ R h ⟨C, fs⟩ hnd hv]
    cases copySlots (copyCall res n) h fs with
    | error e => rfl
    | ok r =>
      obtain ⟨h1, fs1⟩ := r
      simp only []
      cases hl : fs.lookup "_callables" with
      | none => rfl
      | some w =>
        cases w with
        | imm i => rfl
        | ref l =>
          simp only []
          cases hcl : h[l]? with
          | none => rfl
          | some c =>
            cases c with
            | buf b => rfl
            | node k items =>
              cases k with
              | dict => rfl
              | frozen => rfl
              | obj C' => rfl
              | list => simp [Except.map, Src.finish]
  | homogAlign =>
    simp only [homogAlignCopy_eq]
    cases hl : fs.lookup "_h_matrix" with
    | none => rfl
    | some m =>
      simp only []
      cases copyCall res n h m with
      | error e => rfl
      | ok r => simp [Except.map, Src.finish]
  | unknown => rfl


/-! ### the lazily created manager: `LandmarkManager.__init__` and the `Landmarkable.landmarks` getter on the heap -/

/-- `LandmarkManager.__init__`: the object under construction gets one attribute, a new empty ordered dict -/
theorem lmInitHeap_eq (h : Heap) (n : Src.PObj) :
    lmInitHeap h n = (⟨putSlot n.slots "_landmark_groups" (.ref h.length), n.over⟩, h ++ [.node .dict []]) := by
  simp [lmInitHeap, Src.newDict, Src.setAttr]

theorem construct_lm (h : Heap) :
    Src.construct Src.lmClass lmInitHeap h = (.ref (h.length + 1), h ++ Src.lmFrag h.length) := by
  simp [Src.construct, lmInitHeap_eq, Src.blank, Src.lmFrag, putSlot]

theorem lookup_putSlot_self : ∀ (fs : Slots) (x : String) (v : Val), (putSlot fs x v).lookup x = some v
  | [], x, v => by simp [putSlot, List.lookup]
  | (y, w) :: t, x, v => by
    simp only [putSlot]
    by_cases hxy : (y == x) = true
    · have : x = y := by simpa using (beq_iff_eq.mp hxy).symm
      subst this
      simp [List.lookup]
    · have hxy' : (x == y) = false := by
        simp only [Bool.not_eq_true, beq_eq_false_iff_ne] at hxy ⊢
        exact fun e => hxy e.symm
      simp only [hxy, if_false, Bool.false_eq_true, List.lookup, hxy']
      exact lookup_putSlot_self t x v

theorem fragOK_lmFrag (n : Nat) : fragOK n (Src.lmFrag n) = true := by
  simp [fragOK, Src.lmFrag, List.range, List.range.loop]

/-- `Landmarkable.landmarks` (getter), first access — `if self._landmarks is None: self._landmarks =
LandmarkManager()`: the translated body (with the translated `__init__`) performs exactly the heap operation
`putFresh` of `Core/C06Ops.lean` with the fragment `Src.lmFrag` (an empty ordered dict, then the manager holding
it), and returns the new manager.  So `history_frame` / `copy_then_history` cover the lazily created manager as the
code creates it. -/
theorem landmarksGetter_eq (tbl : AttrTable) (sup : SupplierTable) (w : HW) (i : Nat) (p : Path) (a : Nat)
    (k : NodeKind) (fs : Slots) (hn : nodeAt (resOf sup) w i p = .ok (a, k, fs)) (hk : k.assignable = true)
    (t : Int) (hnone : fs.lookup "_landmarks" = some (.imm t)) :
    ∃ w', stepH tbl sup w (.putFresh i p "_landmarks" (Src.lmFrag w.heap.length)) = .ok w' ∧
      landmarksGetter w.heap a = .ok (.ref (w.heap.length + 1), w'.heap) ∧ w'.roots = w.roots := by
  obtain ⟨ri, _, _, hcell⟩ := nodeAt_ok hn
  have halt : a < w.heap.length := get_lt hcell
  refine ⟨⟨(w.heap ++ Src.lmFrag w.heap.length).set a
    (.node k (putSlot fs "_landmarks" (.ref (w.heap.length + (Src.lmFrag w.heap.length).length - 1)))), w.roots⟩, ?_, ?_, rfl⟩
  · simp only [stepH, hn, hk, fragOK_lmFrag, if_true]
  · have hcell2 : (w.heap ++ Src.lmFrag w.heap.length)[a]? = some (.node k fs) := by
      rw [List.getElem?_append_left halt]; exact hcell
    have hlen : a < (w.heap ++ Src.lmFrag w.heap.length).length := by
      simp only [List.length_append]; omega
    simp only [landmarksGetter, Src.attrIsNone, hcell, hnone, if_true, construct_lm, Src.setAttrAt, hcell2,
      Src.attrAt, List.getElem?_set_self hlen, lookup_putSlot_self]
    simp [Src.lmFrag]

/-- the getter when the manager exists: it is returned, nothing changes -/
theorem landmarksGetter_noop (h : Heap) (a : Nat) (k : NodeKind) (fs : Slots) (hcell : h[a]? = some (.node k fs))
    (m : Nat) (hl : fs.lookup "_landmarks" = some (.ref m)) : landmarksGetter h a = .ok (.ref m, h) := by
  simp [landmarksGetter, Src.attrIsNone, hcell, hl, Src.attrAt]

end HeapPart


/-! ## Part 3 — the property theorems of `Props/C06.lean`, stated about the TRANSLATED methods -/

section Restated

theorem valid_of_cell {h : Heap} {a : Nat} {c : Cell} (hobj : h[a]? = some c) : Valid h (.ref a) := by
  intro b eb; cases eb; exact get_lt hobj

/-- PROPERTY (copies are equal), about the translated `copy` methods: whatever class the object has, the result
of the translated body of its resolved `copy` is a new cell that unfolds, to every depth, to the same tree as the
original, and nothing that existed is changed. -/
theorem src_copy_equal (res : String → CopyImpl) (n : Nat) (h : Heap) (hc : Closed h) (hp : PyDict h)
    (a : Nat) (C : String) (fs : Slots) (hobj : h[a]? = some (.node (.obj C) fs)) (h' : Heap) (v' : Val)
    (e : srcCopyObj res n h C fs = .ok (h', v')) :
    (∀ m, absF m h' v' = absF m h (.ref a)) ∧ Ext h h' ∧ (∀ m w, Valid h w → absF m h' w = absF m h w) ∧
      (∃ a', v' = .ref a' ∧ h.length ≤ a') := by
  rw [srcCopyObj_eq res n h hc hp a C fs hobj] at e
  exact copy_equal res h hc (.ref a) (valid_of_cell hobj) (n + 1) h' v' e

/-- PROPERTY (copies are independent), about the translated `copy` methods: under the regenerated tables
(`copyWF`), everything the result of the translated body owns is new, everything the original reaches is old. -/
theorem src_copy_independent (tbl : AttrTable) (sup : SupplierTable) (hwf : copyWF tbl sup = true)
    (h : Heap) (hc : Closed h) (hp : PyDict h) (hwt : wtHeap tbl sup h = true)
    (a : Nat) (C : String) (fs : Slots) (hobj : h[a]? = some (.node (.obj C) fs))
    (n : Nat) (h' : Heap) (v' : Val) (e : srcCopyObj (resOf sup) n h C fs = .ok (h', v')) :
    (∀ b, Own (resOf sup) h' .full v' b → h.length ≤ b) ∧ (∀ b, Reach h' (.ref a) b → b < h.length) := by
  rw [srcCopyObj_eq (resOf sup) n h hc hp a C fs hobj] at e
  exact copy_independent tbl sup hwf h hc hwt a C fs hobj (n + 1) h' v' e

/-- PROPERTY (totality), about the translated `copy` methods -/
theorem src_copy_total (tbl : AttrTable) (sup : SupplierTable) (hwf : copyWF tbl sup = true)
    (hknown : tbl.all (fun row => resOf sup row.1 != .unknown) = true)
    (h : Heap) (hc : Closed h) (hp : PyDict h) (ho : Ordered h) (hwt : wtHeap tbl sup h = true)
    (a : Nat) (C : String) (fs : Slots) (hobj : h[a]? = some (.node (.obj C) fs)) (n : Nat) (hn : a + 1 ≤ n) :
    ∃ h' v', srcCopyObj (resOf sup) n h C fs = .ok (h', v') := by
  rw [srcCopyObj_eq (resOf sup) n h hc hp a C fs hobj]
  exact copy_total tbl sup hwf hknown h hc ho hwt a C fs hobj (n + 1) (by omega)

open MenpoModel.C06.LM

theorem mapError_ok {ε ε' α : Type} {f : ε → ε'} {x : Except ε α} {a : α} :
    x.mapError f = .ok a ↔ x = .ok a := by
  cases x <;> simp [Except.mapError]

/-- PROPERTY (refinement), about the translated `__setitem__` / `__delitem__` / `__getitem__` -/
theorem src_lm_refines_ordered_map {w : World} (hw : WInv w) (mi : Nat) (hm : mi < w.mgrs.length) :
    (∀ key arg w', lmSetItem w mi key arg = .ok w' →
      ∃ k i s, key = some k ∧ arg = .ext i ∧ absExt w i = some s ∧
        absM w' mi = OMap.set (absM w mi) k s ∧
        (∀ mj, mj ≠ mi → absM w' mj = absM w mj) ∧ (∀ j, absExt w' j = absExt w j)) ∧
    (∀ key w', lmDelItem w mi key = .ok w' →
      ∃ k, key = some k ∧ absM w' mi = OMap.del (absM w mi) k ∧
        (∀ mj, mj ≠ mi → absM w' mj = absM w mj) ∧ (∀ j, absExt w' j = absExt w j)) ∧
    (∀ k a, lmGetItem w mi (some k) = .ok a →
      (absM w mi).lookup k = some ((w.store[a]?).getD default)) := by
  obtain ⟨r1, r2, r3⟩ := lm_refines_ordered_map hw mi
  refine ⟨?_, ?_, ?_⟩
  · intro key arg w' e
    rw [lmSetItem_eq w mi hm, mapError_ok] at e
    exact r1 key arg w' e
  · intro key w' e
    rw [lmDelItem_eq w mi hm, mapError_ok] at e
    exact r2 key w' e
  · intro k a e
    rw [lmGetItem_eq w mi hm, mapError_ok] at e
    exact r3 k a e

/-- PROPERTY (insertion order), about the translated `__setitem__` / `__delitem__` and `group_labels` -/
theorem src_keys_order (w : World) (mi : Nat) (hm : mi < w.mgrs.length) :
    (∀ k arg w', lmSetItem w mi (some k) arg = .ok w' →
      lmGroupLabels w' mi = if k ∈ lmGroupLabels w mi then lmGroupLabels w mi else lmGroupLabels w mi ++ [k]) ∧
    (∀ k w', lmDelItem w mi (some k) = .ok w' → lmGroupLabels w' mi = (lmGroupLabels w mi).filter (· != k)) := by
  obtain ⟨r1, r2⟩ := keys_order w mi
  simp only [lmGroupLabels_eq]
  refine ⟨?_, ?_⟩
  · intro k arg w' e
    rw [lmSetItem_eq w mi hm, mapError_ok] at e
    exact r1 k arg w' e
  · intro k w' e
    rw [lmDelItem_eq w mi hm, mapError_ok] at e
    exact r2 k w' e

/-- PROPERTY (the None key), about the translated methods: `lm[None]` succeeds iff `len(lm) == 1` and then returns
that group; `lm[None] = x` raises ValueError, `del lm[None]` raises KeyError -/
theorem src_get_none_iff_single (w : World) (mi : Nat) (m : Mgr) (hm : w.mgrs[mi]? = some m) :
    ((∃ a, lmGetItem w mi none = .ok a) ↔ lmLen w mi = 1) ∧
    (∀ a, lmGetItem w mi none = .ok a → ∃ k, m = [(k, a)]) ∧
    (∀ arg, lmSetItem w mi none arg = .error .valueError) ∧ lmDelItem w mi none = .error .keyError := by
  have hlt := mgr_lt hm
  obtain ⟨r1, r2, r3, r4⟩ := get_none_iff_single w mi m hm
  refine ⟨?_, ?_, ?_, ?_⟩
  · rw [lmLen_eq]
    simp only [lmGetItem_eq w mi hlt, mapError_ok]
    simpa [nGroups, hm] using r1
  · intro a e
    rw [lmGetItem_eq w mi hlt, mapError_ok] at e
    exact r2 a e
  · intro arg
    rw [lmSetItem_eq w mi hlt, r3 arg]
    rfl
  · rw [lmDelItem_eq w mi hlt, r4]
    rfl

/-- PROPERTY (`LandmarkManager.copy`), about the translated method -/
theorem src_copy_mgr_equal_independent {w : World} (hw : WInv w) {mi : Nat} {w' : World} {j : Nat}
    (hcp : lmCopy w mi = .ok (j, w')) :
    j = w.mgrs.length ∧ absM w' j = absM w mi ∧ (∀ mj, mj < w.mgrs.length → absM w' mj = absM w mj) ∧
      (∀ i, absExt w' i = absExt w i) ∧ WInv w' := by
  obtain ⟨tags, hi⟩ := hw
  rw [lmCopy_eq w mi (hi.keys mi), mapError_ok] at hcp
  cases hc : copyMgr w mi with
  | error e => simp [hc, Except.map] at hcp
  | ok r =>
    obtain ⟨w1, j1⟩ := r
    simp only [hc, Except.map, Except.ok.injEq, Prod.mk.injEq] at hcp
    obtain ⟨rfl, rfl⟩ := hcp
    exact copy_mgr_equal_independent ⟨tags, hi⟩ hc

/-- PROPERTY (assign stores a copy), about the translated `Landmarkable.landmarks` setter -/
theorem src_assign_stores_copy {w : World} (hw : WInv w) {o mi : Nat} (ho : o < w.owners.length) {w' : World}
    (ha : setLandmarks w o mi = .ok w') :
    (∃ ow, w'.owners[o]? = some ow ∧ ow.mgr = w.mgrs.length ∧ ow.mgr ≠ mi) ∧
    absM w' w.mgrs.length = absM w mi ∧ (∀ mj, mj < w.mgrs.length → absM w' mj = absM w mj) ∧
    (∀ i, absExt w' i = absExt w i) ∧
    (∀ ow m n, w.owners[o]? = some ow → w.mgrs[mi]? = some m → m.nDims w.store = some n → n = ow.dim) := by
  obtain ⟨tags, hi⟩ := hw
  rw [setLandmarks_eq w o mi ho (hi.keys mi), mapError_ok] at ha
  exact assign_stores_copy ⟨tags, hi⟩ ha

/-- PROPERTY (refinement of `_transform_inplace`), about the translated method -/
theorem src_xform_refines {w : World} (hw : WInv w) (mi : Nat) (hm : mi < w.mgrs.length) (δ : Int) (w' : World)
    (hx : lmTransformInplace w mi δ = .ok w') :
    absM w' mi = (absM w mi).map fun p => (p.1, p.2.shift δ) := by
  rw [lmTransformInplace_eq w mi hm, mapError_ok] at hx
  exact xform_refines hw mi δ w' hx

/-- PROPERTY (observers refine the ordered map), about the translated `group_labels`, `n_groups`, `__len__`,
`has_landmarks`, `n_dims` -/
theorem src_observers_refine {w : World} (hw : WInv w) (mi : Nat) :
    lmGroupLabels w mi = (absM w mi).map (·.1) ∧
    lmNGroups w mi = (absM w mi).length ∧
    lmLen w mi = (absM w mi).length ∧
    lmHasLandmarks w mi = !(absM w mi).isEmpty ∧
    lmNDims w mi = (absM w mi).head?.map (·.2.dim) := by
  obtain ⟨r1, r2, r3, _, _, r6⟩ := observers_refine hw mi []
  rw [lmGroupLabels_eq, lmNGroups_eq, lmLen_eq, lmHasLandmarks_eq, lmNDims_eq]
  exact ⟨r1, r2, r2, r3, r6⟩

end Restated

/-! ## non-vacuity: the hypotheses hold, and the translated methods run, on the example heap of `Props/C06.lean` -/

example : pyDictB exHeap = true := by decide
/-- the translated `Copyable.copy` on the landmarked cloud (cell 5) allocates the same six cells as the model -/
example : (srcCopyObj (resOf exSup) 4 exHeap "PointCloud" [("points", .ref 4), ("_landmarks", .ref 3)]).toOption =
    (copyCall (resOf exSup) 5 exHeap (.ref 5)).toOption := by decide
example : (srcCopyObj (resOf exSup) 4 exHeap "PointCloud"
    [("points", .ref 4), ("_landmarks", .ref 3)]).toOption.map (fun r => (r.1.length, r.2)) = some (17, .ref 16) := by
  decide
/-- the translated `HomogFamilyAlignment.copy`: only the matrix and the object are new -/
example : ((srcCopyObj (resOf exSup) 4 exHeap "AlignmentAffine"
      [("_h_matrix", .ref 6), ("_source", .ref 5), ("_target", .ref 1)]).toOption.map (fun r => r.1.drop 10)) =
    some [.buf [1, 0, 0, 1],
          .node (.obj "AlignmentAffine") [("_h_matrix", .ref 10), ("_source", .ref 5), ("_target", .ref 1)]] := by
  decide
/-- the translated getter on a cloud without landmarks (cell 1 of the example heap): two new cells, the manager last -/
example : (landmarksGetter exHeap 1).toOption.map (fun r => (r.1, r.2.drop 10, r.2[1]?)) =
    some (.ref 11, Src.lmFrag 10,
      some (.node (.obj "PointCloud") [("points", .ref 0), ("_landmarks", .ref 11)])) := by decide
/-- the translated manager methods on the world reached by the example history of part 2 -/
example : (lmSetItem (LM.run LM.World.empty LM.exOps) 0 (some 5) (.ext 0)).toOption.map (fun w => LM.absM w 0) =
    some [(3, ⟨0, 2, [111, 112, 113, 114]⟩), (5, ⟨0, 2, [11, 12, 13, 14]⟩)] := by decide +kernel
example : (lmCopy (LM.run LM.World.empty LM.exOps) 2).toOption.map (fun r => r.1) = some 5 := by decide +kernel
example : lmNDims (LM.run LM.World.empty LM.exOps) 2 = some 2 := by decide +kernel
example : (lmGetItem (LM.run LM.World.empty LM.exOps) 2 none).toOption = none := by decide +kernel

section Machine
open MenpoModel.C06.LM

/-! ## Part 4 — the manager machine run by the TRANSLATED methods, over every history -/

/-- a reply with the refusal reduced to its exception class (what Python shows) -/
inductive SReply where
  | ok
  | err (e : Src.PyExc)
  | shape (s : Shape)
  | keys (ks : List Nat)
  | idx (i : Nat)
  | items (l : List (Nat × Shape))
  | count (n : Nat) (has : Bool) (nd : Option Nat)
deriving DecidableEq, Repr

def Reply.cls : Reply → SReply
  | .ok => .ok
  | .err e => .err (Src.toPy e)
  | .shape s => .shape s
  | .keys ks => .keys ks
  | .idx i => .idx i
  | .items l => .items l
  | .count n h d => .count n h d

def sWithRef (w : World) (r : MRef) (f : Nat → World × SReply) : World × SReply :=
  match w.resolve r with
  | some mi => f mi
  | none => (w, .err .bad)

def sLift (w : World) : Except Src.PyExc World → World × SReply
  | .ok w' => (w', .ok)
  | .error e => (w, .err e)

/-- `LM.step` with every call of a manager method replaced by the body translated from the source: `lm[k] = x`
is `lmSetItem`, `lm[k]` `lmGetItem`, `del lm[k]` `lmDelItem`, `list(lm)` `lmGroupLabels`, `lm.copy()` `lmCopy`,
`owner.landmarks = lm` `setLandmarks`, `lm._transform_inplace(t)` `lmTransformInplace`, `len / has_landmarks /
n_dims` the translated observers, `LandmarkManager()` `lmInit`.  What stays hand-written is what is not menpo
code of this property: the caller creating a shape or an owner, the caller's in-place edit of an array, `fnmatch`. -/
def srcStep (w : World) : Op → World × SReply
  | .newMgr => (lmInit w w.mgrs.length, .idx w.mgrs.length)
  | .newOwner d => ({ lmInit w w.mgrs.length with owners := w.owners ++ [⟨d, w.mgrs.length⟩] }, .idx w.owners.length)
  | .newExt s => (newExt w s, .idx w.exts.length)
  | .set r key arg => sWithRef w r fun mi => sLift w (lmSetItem w mi key arg)
  | .get r key => sWithRef w r fun mi =>
      match lmGetItem w mi key with
      | .ok a => (w, match w.store[a]? with | some s => .shape s | none => .err .bad)
      | .error e => (w, .err e)
  | .del r key => sWithRef w r fun mi => sLift w (lmDelItem w mi key)
  | .keys r => sWithRef w r fun mi => (w, .keys (lmGroupLabels w mi))
  | .copy r => sWithRef w r fun mi =>
      match lmCopy w mi with
      | .ok (j, w') => (w', .idx j)
      | .error e => (w, .err e)
  | .assign o r => sWithRef w r fun mi =>
      if o < w.owners.length then sLift w (setLandmarks w o mi) else (w, .err .bad)
  | .copyOwner o =>
      match w.owners[o]? with
      | none => (w, .err .bad)
      | some ow =>
        match lmCopy w ow.mgr with
        | .ok (j, w1) => ({ w1 with owners := w1.owners ++ [{ ow with mgr := j }] }, .idx w.owners.length)
        | .error e => (w, .err e)
  | .mutExt i δ =>
      match w.exts[i]? with
      | some a => (mutateAt w a δ, .ok)
      | none => (w, .err .bad)
  | .mutGot r key δ => sWithRef w r fun mi =>
      match lmGetItem w mi key with
      | .ok a => (mutateAt w a δ, .ok)
      | .error e => (w, .err e)
  | .xform r δ => sWithRef w r fun mi => sLift w (lmTransformInplace w mi δ)
  | .items r sel => sWithRef w r fun mi => (w, .items (itemsMatching w mi sel))
  | .count r => sWithRef w r fun mi => (w, .count (lmNGroups w mi) (lmHasLandmarks w mi) (lmNDims w mi))

def srcRun (w : World) (ops : List Op) : World := ops.foldl (fun w op => (srcStep w op).1) w

theorem resolve_lt {w : World} {r : MRef} {mi : Nat} (h : w.resolve r = some mi) : mi < w.mgrs.length := by
  cases r with
  | mgr i =>
    simp only [World.resolve] at h
    split at h
    · cases h; assumption
    · cases h
  | owner o =>
    simp only [World.resolve] at h
    split at h
    · split at h
      · cases h; assumption
      · cases h
    · cases h

theorem sLift_mapError (w : World) (x : Except LM.Err World) :
    sLift w (x.mapError Src.toPy) = ((liftW w x).1, Reply.cls (liftW w x).2) := by
  cases x <;> rfl

/-- OBLIGATION-level fact over single steps: on every well-formed world the machine run by the translated methods
does what `LM.step` does (same world, same reply up to the exception class) -/
theorem srcStep_eq {w : World} (hw : WInv w) (op : Op) :
    srcStep w op = ((step w op).1, Reply.cls (step w op).2) := by
  obtain ⟨tags, hi⟩ := hw
  cases op with
  | newMgr => simp [srcStep, step, lmInit_eq, Reply.cls]
  | newOwner d => simp [srcStep, step, lmInit_eq, newMgr, newOwner, Reply.cls]
  | newExt s => simp [srcStep, step, Reply.cls]
  | set r key arg =>
    simp only [srcStep, step, sWithRef, withRef]
    cases hr : w.resolve r with
    | none => rfl
    | some mi => simp only [lmSetItem_eq w mi (resolve_lt hr), sLift_mapError]
  | get r key =>
    simp only [srcStep, step, sWithRef, withRef]
    cases hr : w.resolve r with
    | none => rfl
    | some mi =>
      simp only [lmGetItem_eq w mi (resolve_lt hr)]
      cases hg : getItem w mi key with
      | error e => rfl
      | ok a =>
        simp only [Except.mapError]
        cases w.store[a]? <;> rfl
  | del r key =>
    simp only [srcStep, step, sWithRef, withRef]
    cases hr : w.resolve r with
    | none => rfl
    | some mi => simp only [lmDelItem_eq w mi (resolve_lt hr), sLift_mapError]
  | keys r =>
    simp only [srcStep, step, sWithRef, withRef]
    cases hr : w.resolve r with
    | none => rfl
    | some mi => rfl
  | copy r =>
    simp only [srcStep, step, sWithRef, withRef]
    cases hr : w.resolve r with
    | none => rfl
    | some mi =>
      simp only [lmCopy_eq w mi (hi.keys mi)]
      cases hc : copyMgr w mi with
      | error e => rfl
      | ok p => obtain ⟨w', j⟩ := p; rfl
  | assign o r =>
    simp only [srcStep, step, sWithRef, withRef]
    cases hr : w.resolve r with
    | none => rfl
    | some mi =>
      simp only []
      by_cases ho : o < w.owners.length
      · simp only [ho, if_true, setLandmarks_eq w o mi ho (hi.keys mi), sLift_mapError]
      · have hno : w.owners[o]? = none := List.getElem?_eq_none (Nat.le_of_not_lt ho)
        simp [ho, assign, hno, liftW, Reply.cls, Src.toPy]
  | copyOwner o =>
    simp only [srcStep, step, copyOwner]
    cases ho : w.owners[o]? with
    | none => rfl
    | some ow =>
      simp only [lmCopy_eq w ow.mgr (hi.keys ow.mgr)]
      cases hc : copyMgr w ow.mgr with
      | error e => rfl
      | ok p => obtain ⟨w', j⟩ := p; rfl
  | mutExt i δ =>
    simp only [srcStep, step, mutateExt]
    cases w.exts[i]? <;> rfl
  | mutGot r key δ =>
    simp only [srcStep, step, sWithRef, withRef]
    cases hr : w.resolve r with
    | none => rfl
    | some mi =>
      simp only [lmGetItem_eq w mi (resolve_lt hr), mutateGot]
      cases hg : getItem w mi key <;> rfl
  | xform r δ =>
    simp only [srcStep, step, sWithRef, withRef]
    cases hr : w.resolve r with
    | none => rfl
    | some mi => simp only [lmTransformInplace_eq w mi (resolve_lt hr), sLift_mapError]
  | items r sel =>
    simp only [srcStep, step, sWithRef, withRef]
    cases hr : w.resolve r <;> rfl
  | count r =>
    simp only [srcStep, step, sWithRef, withRef]
    cases hr : w.resolve r with
    | none => rfl
    | some mi => simp only [lmNGroups_eq, lmHasLandmarks_eq, lmNDims_eq]; rfl

/-- PROPERTY (every history, translated machine): from the empty world the machine run by the translated methods
reaches exactly the worlds of `LM.run` — so every theorem about reachable worlds (`reachable_inv`,
`one_dimensionality`, `set_stores_copy`) is a theorem about the translated code. -/
theorem src_run_eq (ops : List Op) : ∀ w, WInv w → srcRun w ops = run w ops := by
  induction ops with
  | nil => intro w _; rfl
  | cons op t ih =>
    intro w hw
    simp only [srcRun, run, List.foldl_cons]
    have h1 : (srcStep w op).1 = (step w op).1 := by rw [srcStep_eq hw op]
    rw [h1]
    exact ih _ (step_inv hw op)

/-- PROPERTY (all histories, about the translated methods): every world the translated machine reaches is
well-formed — keys distinct, one dimensionality per manager, every stored shape referred to from one place -/
theorem src_reachable_inv (ops : List Op) : WInv (srcRun World.empty ops) := by
  rw [src_run_eq ops _ inv_empty]; exact reachable_inv ops

/-- PROPERTY (one dimensionality, about the translated methods) -/
theorem src_one_dimensionality (ops : List Op) (mi : Nat) :
    ∀ p q, p ∈ absM (srcRun World.empty ops) mi → q ∈ absM (srcRun World.empty ops) mi → p.2.dim = q.2.dim := by
  rw [src_run_eq ops _ inv_empty]; exact one_dimensionality ops mi

/-- PROPERTY (set stores a copy, about the translated methods): after any history of the translated machine an
in-place edit of a caller-held shape changes no manager's state -/
theorem src_set_stores_copy (ops : List Op) (i : Nat) (δ : Int) (w' : World)
    (hmu : mutateExt (srcRun World.empty ops) i δ = .ok w') :
    (∀ mi, absM w' mi = absM (srcRun World.empty ops) mi) ∧
    (∀ j, j ≠ i → absExt w' j = absExt (srcRun World.empty ops) j) := by
  rw [src_run_eq ops _ inv_empty] at hmu ⊢; exact set_stores_copy ops i δ w' hmu

/-- the replies too: the translated machine answers the example history of `Props/C06.lean` as the model does -/
example : (exOps.foldl (fun (acc : World × List SReply) op => ((srcStep acc.1 op).1, acc.2 ++ [(srcStep acc.1 op).2]))
    (World.empty, [])).2 = exReplies.map Reply.cls := by decide +kernel

end Machine

end MenpoModel.C06.SrcProps
