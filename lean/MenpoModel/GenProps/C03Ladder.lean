/-
C03 — obligation over the TRANSLATED composition ladder (harness/trans_c03.py, harness/py2lean.py).

`Generated/C03Ladder.lean` is rewritten from the source text of `Homogeneous._compose_before` /
`_compose_after` of the current working tree by every `./check C03`.  The theorem below says that what the
source says now is, for every fuel, direction and pair of family objects, the `ladder` all C03 composition
theorems are about.  The proof does not depend on the shape of the translated term (case split on every
`if`, then `simp`), so a harmless rewrite of the Python (re-ordered disjoint branches, renamed variables,
an extra temporary) keeps it; a changed decision or a changed product breaks it.
-/
import MenpoModel.Generated.C03Ladder

namespace MenpoModel.GenProps.C03
open MenpoModel.C03 MenpoModel.Generated.C03

variable {d : Nat}

theorem genLadder_eq (tbl : ClassTable) : ∀ (fuel : Nat) (dir : Dir) (s t : HT d),
    genLadder tbl fuel dir s t = ladder tbl fuel dir s t := by
  intro fuel
  induction fuel with
  | zero => intro dir s t; cases dir <;> rfl
  | succ n ih =>
    intro dir s t
    cases dir <;> simp only [genLadder, ladder, ih, Dir.flip, Option.bind_some, Option.bind_eq_bind] <;>
      (repeat' split) <;> simp_all

/-- the translated source agrees with the model on the fuel the model runs with -/
theorem genLadder_eq_fuel (tbl : ClassTable) (dir : Dir) (s t : HT d) :
    genLadder tbl ladderFuel dir s t = ladder tbl ladderFuel dir s t := genLadder_eq tbl _ dir s t

end MenpoModel.GenProps.C03
