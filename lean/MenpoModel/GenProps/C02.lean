/- Obligations over the regenerated tables (written by harness/extract_c02.py; the text is constant, the
   tables it speaks about are not).  `dispatch_ok` is what makes every theorem of Props/C02.lean, proved
   over `expectedDispatch`, a statement about the current class hierarchy; `attrKinds_ok` is what makes
   the heap layout assumed by `Rep` the layout of the live objects; `writes_ok` is what makes the frame of
   the heap model (the in-place pass rebinds `points` of shape objects and nothing else) the behaviour of
   the live methods. -/
import MenpoModel.Generated.C02Dispatch

namespace MenpoModel.C02.GenProps
open MenpoModel.C02

/-- the 8 shape classes, LandmarkManager and Image resolve `_transform_inplace`, `_transform_self_inplace`,
`_transform` and `copy` exactly as the model assumes; no Shape subclass has appeared or disappeared -/
theorem dispatch_ok : Generated.dispatch = expectedDispatch := by decide

/-- points are an array, `_landmarks` is None or a manager, a manager holds a dict of shapes, a labelled
graph a dict of mask arrays; no attribute of unknown kind; every container of mutable values belongs to a
class whose resolved `copy` deepens it -/
theorem attrKinds_ok : kindsWF Generated.dispatch Generated.attrKinds = true := by decide

/-- every class of the table was observed -/
theorem attrKinds_cover : kindsCover Generated.dispatch Generated.attrKinds = true := by decide

/-- the attributes the live `_transform_inplace` rebinds on each object of the private copy are exactly
those the heap model rebinds (`inplaceWrites`, `inplace_writes_in_table`) -/
theorem writes_ok : writesAgree Generated.dispatch Generated.measuredWrites = true := by decide

/-- every transformable class of the table was measured -/
theorem writes_cover : writesCover Generated.dispatch Generated.measuredWrites = true := by decide

/-- no array buffer written in place, no dict item rebound, the transform untouched -/
theorem no_other_writes : Generated.otherWrites = [] := by decide

/-- every concrete transform class resolves `apply` to `Transform.apply` (transcribed as `applyT`) and
`_apply` / `_apply_batched` to the implementation the model
transcribes for it (`homApply`, `affineApply`, `chainFn`, `withDims`, `applyBatched`) or treats as a contract
parameter; no transform class has appeared or disappeared -/
theorem applyTable_ok : Generated.applyTable = expectedApplyTable := by decide

end MenpoModel.C02.GenProps
