/- Obligations over the regenerated tables (written by harness/extract_c02.py; the text is constant, the
   tables it speaks about are not).  `dispatch_ok` is what makes every theorem of Props/C02.lean, proved
   over `expectedDispatch`, a statement about the current class hierarchy; `attrKinds_ok` is what makes
   the heap layout assumed by `Rep` the layout of the live objects. -/
import MenpoModel.Generated.C02Dispatch

namespace MenpoModel.C02.GenProps
open MenpoModel.C02

/-- the 8 shape classes, LandmarkManager and Image resolve `_transform_inplace`, `_transform_self_inplace`,
`_transform` and `copy` exactly as the model assumes; no Shape subclass has appeared or disappeared -/
theorem dispatch_ok : Generated.dispatch = expectedDispatch := by decide

/-- points are an array, `_landmarks` is None or a manager, a manager holds a dict of shapes, a labelled
graph a dict of mask arrays; no attribute of unknown kind; every container of mutable values belongs to a
class whose resolved `copy` deepens it -/
theorem attrKinds_ok : kindsWF Generated.dispatch Generated.attrKinds = true := by decide

/-- every class of the table was observed -/
theorem attrKinds_cover : kindsCover Generated.dispatch Generated.attrKinds = true := by decide

end MenpoModel.C02.GenProps
