/-
C18 — obligations over the regenerated table `Generated.C18.featureRows` (rewritten from the live features on every
run): every exported feature, and every listed feature-of-feature composition, called on a live Image and on a live
MaskedImage whose buffers are read-only, returns an image of the same kind carrying the same landmark groups and
changes no attribute (pixels, mask, landmarks: deep digests) of its input.  This is the measured `Frame` hypothesis of
`feature_seq_input_untouched` / `wrapper_input_untouched`, feature by feature, and the coverage statement says that no
exported feature is missing from the measurement.
-/
import MenpoModel.Core.C18Table
import MenpoModel.Generated.C18Table

namespace MenpoModel.GenProps.C18
open MenpoModel.C18

theorem featureRows_ok : MenpoModel.Generated.C18.featureRows.all FeatRow.ok = true := by decide

theorem featureRows_cover : covers MenpoModel.Generated.C18.featureRows = true := by decide

/-- the decorated features `menpo.feature` exports on this tree are all known to the model (a new feature would have to
be measured and modelled before the claim "every exported feature" can be made again) -/
theorem liveExported_known : allKnown MenpoModel.Generated.C18.liveExported = true := by decide

end MenpoModel.GenProps.C18
