/- Obligations over the SOURCE TRANSLATION of menpo.base.LazyList (Generated/C19Src.lean, rewritten from the source
   text of the working tree by harness/trans_c19.py on every run): every translated definition equals, for all
   arguments, the Core definition the C19 theorems are about.  The proofs are shape-independent (unfold, case split
   on every `if` / `match`, simp), so a harmless rewrite of the Python keeps them and a changed decision breaks them. -/
import MenpoModel.Generated.C19Src
import MenpoModel.Props.C19PyIO
set_option linter.unusedSimpArgs false

namespace MenpoModel.GenProps.C19Src
open MenpoModel.LazyList MenpoModel.PyData MenpoModel.Generated.C19Src MenpoModel.Py

/-- `LazyList.__init__` stores the list of callables it is given, untouched (no callable is called) -/
theorem genInit_eq (cs : List LThunk) : genInit cs = ⟨cs⟩ := by
  simp [genInit, Fresh.setCallables, LL.fresh, ToLL.toLL]

theorem genInit_eq_mk : genInit = LL.mk := funext genInit_eq

theorem newWith_genInit {α} [ToCallables α] (x : α) : LL.newWith genInit x = LL.new x := by
  simp [LL.newWith, LL.new, genInit_eq_mk]

theorem genCopy_eq (s : LL) : genCopy s = copyFull s := by
  simp [genCopy, copyFull, LL.fresh, Fresh.setCallables, ToLL.toLL, Py.list]

@[simp] theorem mapE_mapE {α β γ} (g : β → γ) (f : α → β) (x : Except Err α) : mapE g (mapE f x) = mapE (fun a => g (f a)) x := by
  cases x <;> rfl

theorem genGetitem_eq (s : LL) (x : GArg) : genGetitem s x = getitemFull s x := by
  obtain ⟨it, zd, isI, hasI, items, key⟩ := x
  unfold genGetitem getitemFull
  simp only [ToGetRes.ret, newWith_genInit, LL.new, ToCallables.toE, PyGetItem.get, PyIter.iter, id, mapE_mapE]
  cases it <;> cases zd <;> cases isI <;> cases hasI <;> simp <;>
    (first | done | (cases listGet s.callables key with
      | error e => simp [mapE]
      | ok v => cases v <;> simp [mapE]))

theorem seqE_map_of_ok {α β} (g : α → Except Err β) (f : α → β) (h : ∀ a, g a = .ok (f a)) (l : List α) :
    seqE (l.map g) = .ok (l.map f) := by
  induction l with
  | nil => rfl
  | cons a t ih => simp [seqE, ih, mapE, h]

theorem seqE_map_of_error {α β} (g : α → Except Err β) (e : Err) (h : ∀ a, g a = .error e) (l : List α) :
    seqE (l.map g) = if l = [] then .ok [] else .error e := by
  cases l with
  | nil => rfl
  | cons a t => simp [seqE, h]

theorem map_zip_eq_zipWith {α β γ} (f : α → β → γ) (l : List α) (l' : List β) :
    (l.zip l').map (fun p => f p.1 p.2) = List.zipWith f l l' := by
  induction l generalizing l' with
  | nil => simp
  | cons a t ih => cases l' <;> simp [ih]

theorem genInitFromIterable_eq (vs : List Int) (f : PFn) : genInitFromIterable vs f = initIterFull vs f := by
  unfold genInitFromIterable initIterFull
  cases f <;> simp only [PFn.isNone, newWith_genInit, LL.new, ToCallables.toE, PyIter.iter, PyPartial.ap, id, if_true, Bool.false_eq_true, if_false]
  all_goals (rw [seqE_map_of_ok _ _ (fun _ => rfl)]; rfl)

theorem genInitFromIndexCallable_eq (f : PFn) (n : Int) : genInitFromIndexCallable f n = initIndexFull f n := by
  unfold genInitFromIndexCallable initIndexFull
  cases f <;> simp only [newWith_genInit, LL.new, ToCallables.toE, PyIter.iter, PyPartial.ap, id]
  · rw [seqE_map_of_error _ _ (fun _ => rfl)]
    by_cases h : n ≤ 0
    · have : n.toNat = 0 := by omega
      simp [Py.range, this, h, mapE]
    · have : n.toNat ≠ 0 := by omega
      simp [Py.range, this, h, mapE]
  · rw [seqE_map_of_ok _ _ (fun _ => rfl)]; simp [mapE, Py.range, Function.comp_def]
  · rw [seqE_map_of_ok _ _ (fun _ => rfl)]; rfl

theorem genDelayed_eq (e : Env) (bad : Nat → Bool) (f : Nat) (t : LThunk) :
    genDelayed e bad f t = (LThunk.app f t).evalLogX e bad := by
  rfl

theorem genMap_eq (s : LL) (f : MArg) : genMap s f = mapFull s f := by
  unfold genMap mapFull
  simp only [genCopy_eq, copyFull, LL.fresh, Fresh.setCallables, Fresh.callables, ToLL.toLL, Py.list, PyIter.iter, PyLen.len,
    MArg.lenE, ToFnId.fid, PyZip.zip]
  split <;> (try split) <;> (try split) <;> simp_all [Except.bind, id, map_zip_eq_zipWith, Function.comp_def]

theorem genLen_eq (s : LL) : genLen s = s.callables.length := by
  simp [genLen, PyLen.len]

theorem genRepeat_eq (s : LL) (n : Int) : genRepeat s n = repeatFull s n := by
  simp [genRepeat, repeatFull, genCopy_eq, copyFull, LL.fresh, Fresh.setCallables, Fresh.callables, ToLL.toLL, PyMul.mul,
    chain_zip_mul, repCount]
  try simp [Py.list]

theorem genAdd_eq (fuel : Nat) (s : LL) (o : AArg) : genAdd (fuel + 2) s o = addFull s o := by
  simp only [genAdd, addFull, PyAdd.add, newWith_genInit, LL.new, ToCallables.toE, genInitFromIterable_eq, initIterFull, AArg.ofLL]
  split <;> (try split) <;> simp_all [mapE, Except.bind]

/-! ### menpo/io/input/base.py -/

theorem genGlobWithSuffix_eq (w : GlobWorld) (known : List Nat) (sort : Bool) :
    genGlobWithSuffix w () known sort = globWithSuffix known (w.listing sort) := by
  unfold genGlobWithSuffix
  simp only [forLoop_eq_foldl]
  refine (foldl_append_filter (extOk known) _ ?_ _ _).trans (by simp [globWithSuffix])
  intro acc x
  simp only [extOk]
  split <;> simp_all

theorem genImportGlob_eq (w : GlobWorld) (known : List Nat) (max : Option Int) (r : Option Nat)
    (shuffle asGen lmExt attach verbose : Bool) :
    genImportGlob w () known max r shuffle asGen lmExt attach () verbose
      = importGlobFull w known max r lmExt attach shuffle asGen := by
  unfold genImportGlob importGlobFull
  simp only [genGlobWithSuffix_eq, Py.list, PyLen.len, PyIter.iter, newWith_genInit, LL.new, ToCallables.toE, Py.progress,
    ToGlobRes.ret, id, mapE, Except.bind]
  cases max with
  | none =>
    cases shuffle <;> cases asGen <;> cases verbose <;>
      simp [capAssets, Py.truthyOptInt] <;> split <;> simp_all
  | some m =>
    by_cases hm : m ≤ 0
    · cases shuffle <;> simp [capAssets, Py.optLe, hm, Except.bind]
    · have hpos : 0 < m := by omega
      have hne : m ≠ 0 := by omega
      cases shuffle <;> cases asGen <;> cases verbose <;>
        simp [capAssets, Py.optLe, hm, Except.bind, Py.truthyOptInt, hne, sliceTo_pos _ _ hpos] <;>
        split <;> simp_all [Function.comp_def]

/-- the `for x in xs: found = g(x); if found is not None: break` loop is `findSome?` (the translator's state is
(break flag, found)) -/
theorem foldl_break_findSome {α β} (g : α → Option β) (body : Bool × Option β → α → Bool × Option β)
    (hstop : ∀ v x, body (true, v) x = (true, v))
    (hstep : ∀ v x, body (false, v) x = match g x with | some b => (true, some b) | none => (false, none))
    (l : List α) :
    (l.foldl body (false, none)).2 = l.findSome? g := by
  have stopped : ∀ (l : List α) v, l.foldl body (true, v) = (true, v) := by
    intro l; induction l with
    | nil => intro v; rfl
    | cons a t ih => intro v; rw [List.foldl_cons, hstop, ih]
  induction l with
  | nil => rfl
  | cons a t ih =>
    rw [List.foldl_cons, hstep, List.findSome?_cons]
    cases g a with
    | none => exact ih
    | some b => simp [stopped]

theorem genImporterFor_eq (f : FileEnt) (known : List Nat) : genImporterFor f known = importKind known f := by
  unfold genImporterFor importKind
  simp only []
  first
  | (rw [whileG_findSome_eq (Py.dictGet known) 0]
     · simp only [findSome?_dictGet]
       cases f.exts.find? (known.contains ·) <;> simp
     · intro s; rcases s with ⟨a, l⟩; cases a <;> cases l <;> simp [Py.truthyList]
     · intro s; rcases s with ⟨a, l⟩; simp)
  | (delta MenpoModel.Py.forLoop
     rw [foldl_break_findSome (Py.dictGet known)]
     · simp only [findSome?_dictGet]
       cases f.exts.find? (known.contains ·) <;> simp
     · intro v x; simp
     · intro v x
       cases h : Py.dictGet known x <;> simp [h])

theorem genAttachLazy_eq (built : List LL) (r : Option Nat) (lmx : Option Unit) :
    genAttachLazy built r lmx = attachLazyFull built r lmx := by
  cases lmx with
  | none => cases r <;> simp [genAttachLazy, attachLazyFull]
  | some u =>
    cases r with
    | none => simp [genAttachLazy, attachLazyFull]
    | some r0 =>
      unfold genAttachLazy attachLazyFull
      simp only [Option.isNone_some, Option.isSome_some, Bool.or_self, Bool.or_false, Bool.false_or, Bool.and_self,
        Bool.and_true, Bool.true_and, Bool.not_false, Bool.not_true, Bool.false_eq_true, if_false, if_true,
        forLoop_eq_foldl, PyIter.iter, id]
      rw [foldl_enumerate_set (fun x : LL =>
        (⟨List.zipWith LThunk.app ((List.range x.callables.length).map ((some r0).getD 0 + ·)) x.callables⟩ : LL))]
      · intro l k x
        simp [genMap_eq, mapFull_list, PyLen.len, Py.range, Py.frameResolver, Function.comp_def]

theorem genImport_eq (w : ImportWorld) (f : FileEnt) (known : List Nat) (r : Option Nat) (lmx att asset kw : Option Unit) :
    genImport w f known r lmx att asset kw = importFull w f known r lmx att := by
  unfold genImport importFull
  simp only [genImporterFor_eq]
  cases hf : w.isFile f <;> simp only [Bool.not_true, Bool.not_false, if_true, if_false, Bool.false_eq_true]
  cases hk : importKind known f with
  | none => simp [optE, Except.bind]
  | some k =>
    simp only [optE, Except.bind]
    cases kw <;> cases att <;> cases r <;> cases lmx <;> cases hs : w.arity k f <;>
      simp [Built.ofImporter, Built.isList, Built.wrap, Built.len, Built.first, Built.attach, finalShape, hs] <;>
      (try split) <;> simp_all

end MenpoModel.GenProps.C19Src
