/-
C07 — obligations over the regenerated entry table (`Generated/C07Entries.lean`, rewritten by `harness/c07.py` from the
live classes on every run).

`entries_wf`: every single-alignment class takes `(source, target)` first and only optional parameters after, gets
`aligned_source` / `alignment_error` from `Alignment` and `set_target` from `Targetable` (so the theorems
`aligned_source_def` / `alignment_error_def`, stated once, are about every class: an override in one class breaks
this obligation before any behaviour is sampled), and the option defaults are the ones the model is written for.
`dtype_rows_ok`: the storage dtype of every state array is independent of the dtype of a previous target.
`gpa_live_ok`: a live GPA holds one rotation-fitting `AlignmentSimilarity` per source with the mirroring it was asked
for and stops after 100 passes — the shape of `gpa` (`simAlign`, `maxIter`).
-/
import MenpoModel.Core.C07Table
import MenpoModel.Generated.C07Entries

namespace MenpoModel.GenProps.C07
open MenpoModel.C07

theorem entries_wf : EntriesWF MenpoModel.Generated.C07.entries = true := by decide

theorem gpa_live_ok : MenpoModel.Generated.C07.gpaLive.all GpaLive.ok = true ∧
    MenpoModel.Generated.C07.gpaLive.map (·.mirrorArg) = [false, true] := by decide

/-- measured on live objects on every run: after (construct on a first target of dtype A, `set_target` to a target of
dtype B) every state array of every alignment class has the dtype it has in an object built directly on the second
target, for all nine (A, B) in {int64, float32, float64}² — a buffer that keeps the first target's dtype breaks this
before any behaviour is sampled -/
theorem dtype_rows_ok : DtypeTableOK MenpoModel.Generated.C07.dtypeRows = true := by decide

end MenpoModel.GenProps.C07
