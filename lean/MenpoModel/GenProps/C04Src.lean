/-
C04 — obligations over the pseudoinverse code TRANSLATED FROM SOURCE (`Generated/C04Src.lean`, rewritten by
`harness/trans_c04.py` on every `./check C04` from the text of the working tree; vocabulary: `Core/C04Src.lean`).

One Lean definition per Python function; a method call on `self` is the translated body of the class the live
method-resolution table `supOf` names for the class of the receiver.  The theorems say: WHAT THE SOURCE SAYS NOW is the
model the C04 theorems are about —

  supOf_ok                              the live MRO table is the one the model expects (14 methods × 12 classes)
  m_*_eq, gen_*_init_FT_eq, ctor_*_eq   properties, `_set_h_matrix`, `__init__` chains: `Translation(t)` is
                                        `ofAffine 1 t`, `UniformScale(s, n)` / `NonUniformScale(v)` are `ofAffine (diag …) 0`
                                        (numpy's cycling `fill_diagonal` plus the corner reset), `Rotation(R)` is `ofAffine R 0`
  gen_<Class>_pseudoinverse_eq          each of the six `pseudoinverse` bodies computes the matrix `pinvHBy` says, builds
                                        the class the model says and (alignments) exchanges `_source` / `_target`
  srcPinv_eq                THE TIE     the dispatched translated `pseudoinverse()` = `pinv` on every well-formed object
  gen_ThinPlateSplines_*_eq, src_tps_pinv_eq      the spline constructor (default kernel centred on the source, system
                                        matrix = `sysL`) and its pseudoinverse = `TPS.pinvFixed` (kernel class and
                                        `min_singular_val` carried over, kernel RE-CENTRED)
  gen_AbstractPWA_*_eq, src_pwa_pinv_eq the PWA constructor and its pseudoinverse = `PWAMesh.pinv` (source trilist on the
                                        target points, whatever triangulation the target object carries)
  gen_alpha_beta_eq, gen_barycentric_vectors_eq, gen_rebuild_target_vectors_eq, gen_AbstractPWA_apply_eq, src_piece_eq
                                        the arithmetic of one triangle = `Tri.ab` / `piece`
  gen_Homogeneous_apply_eq              `Homogeneous._apply` = `applyH`
  gen_tcoords_to_image_coords_eq, gen_image_coords_to_tcoords_eq,  gen_pseudoinverse_vector_eq
and then the PROPERTY theorems restated about the translated code (`src_*`).

The proofs unfold, split on what the MODEL distinguishes (class, `inv` defined or not, kernel given or not, source a mesh
or not) and simplify; a renamed temporary, re-ordered independent statements or an inverted test with swapped arms keep
them, a changed decision (other constructor, other argument, dropped negation / reciprocal, kernel not re-centred, target
trilist used, swapped end points) breaks them.
-/
import MenpoModel.Props.C04
import MenpoModel.Generated.C04Src
import MenpoModel.Lemmas.C04Src

set_option linter.unusedSimpArgs false
set_option linter.unusedVariables false
set_option linter.unnecessarySeqFocus false
set_option linter.unreachableTactic false
set_option linter.unusedTactic false

namespace MenpoModel.GenProps.C04Src
open MenpoModel.C04 MenpoModel.Generated.C04Src

variable {d : ℕ} {α : Type}

theorem supOf_ok : ∀ c m, supOf c m = expectedSupOf c m := by
  intro c m; cases c <;> cases m <;> rfl

theorem m_h_matrix_eq (s : HT d α) : m_h_matrix s = some s.h := by
  unfold m_h_matrix; rw [supOf_ok]
  cases s.cls <;> simp [expectedSupOf, callM, gen_Homogeneous_h_matrix, gen_Affine_h_matrix]

theorem m_n_dims_eq (s : HT d α) (h : s.cls.isAlignment = false) : m_n_dims s = some d := by
  unfold m_n_dims; rw [supOf_ok]
  cases hc : s.cls <;> simp [hc, Cls.isAlignment] at h <;>
    simp [expectedSupOf, callM, gen_Homogeneous_n_dims, m_h_matrix_eq, shapeOf, Cls.isAlignment]

theorem m_translation_component_eq (s : HT d α) (h : s.cls ≠ .homogeneous) :
    m_translation_component s = some (transPart s.h) := by
  unfold m_translation_component; rw [supOf_ok]
  cases hc : s.cls <;> simp [hc] at h <;>
    simp [expectedSupOf, callM, gen_Affine_translation_component, m_h_matrix_eq]

theorem m_linear_component_eq (s : HT d α) (h : s.cls ≠ .homogeneous) :
    m_linear_component s = some (linPart s.h) := by
  unfold m_linear_component; rw [supOf_ok]
  cases hc : s.cls <;> simp [hc] at h <;>
    simp [expectedSupOf, callM, gen_Affine_linear_component, m_h_matrix_eq]

theorem m_rotation_matrix_eq (s : HT d α) (h : s.cls = .rotation ∨ s.cls = .alignmentRotation) :
    m_rotation_matrix s = some (linPart s.h) := by
  unfold m_rotation_matrix; rw [supOf_ok]
  rcases h with h | h <;>
    simp [h, expectedSupOf, callM, gen_Rotation_rotation_matrix, m_linear_component_eq]

theorem m_scale_u_eq (s : HT d α) (h : s.cls = .uniformScale ∨ s.cls = .alignmentUniformScale) :
    m_scale_u s = some (s.h 0 0) := by
  unfold m_scale_u; rw [supOf_ok]
  rcases h with h | h <;> simp [h, expectedSupOf, callM, gen_UniformScale_scale, m_h_matrix_eq]

theorem m_scale_v_eq (s : HT d α) (h : s.cls = .nonUniformScale) : m_scale_v s = some (diagHead s.h) := by
  unfold m_scale_v; rw [supOf_ok]
  simp [h, expectedSupOf, callM, gen_NonUniformScale_scale, m_h_matrix_eq]

theorem m_set_h_matrix_FT_eq (s : HT d α) (v : Mat (d + 1)) (h : s.cls ≠ .alignmentAffine) :
    m_set_h_matrix_FT s v = some (s.setH v) := by
  unfold m_set_h_matrix_FT; rw [supOf_ok]
  cases hc : s.cls <;> simp [hc] at h <;>
    simp [expectedSupOf, callM, gen_Homogeneous_set_h_matrix_FT, gen_Affine_set_h_matrix_FT]

theorem m_set_rotation_matrix_T_eq (s : HT d α) (v : Mat d) (h : s.cls = .rotation) :
    m_set_rotation_matrix_T s v = some (s.setH (setLin s.h v)) := by
  unfold m_set_rotation_matrix_T; rw [supOf_ok]
  simp [h, expectedSupOf, callM, gen_Rotation_set_rotation_matrix_T]


theorem gen_Homogeneous_init_FT_eq (s : HT d α) (M : Mat (d + 1)) (h : s.cls ≠ .alignmentAffine) :
    gen_Homogeneous_init_FT s M = some (s.setH M) := by
  simp [gen_Homogeneous_init_FT, m_set_h_matrix_FT_eq _ _ h]

theorem gen_Affine_init_FT_eq (s : HT d α) (M : Mat (d + 1)) (h : s.cls ≠ .alignmentAffine) :
    gen_Affine_init_FT s M = some (s.setH M) := by
  simp [gen_Affine_init_FT, gen_Homogeneous_init_FT_eq _ _ h]

theorem gen_Similarity_init_FT_eq (s : HT d α) (M : Mat (d + 1)) (h : s.cls ≠ .alignmentAffine) :
    gen_Similarity_init_FT s M = some (s.setH M) := by
  simp [gen_Similarity_init_FT, gen_Affine_init_FT_eq _ _ h]

/-- `cls(M, copy=False, skip_checks=True)` for the three classes constructed from a matrix -/
theorem ctor_dyn_FT_eq (c : Cls) (M : Mat (d + 1)) (h : c = .homogeneous ∨ c = .affine ∨ c = .similarity) :
    ctor_dyn_FT (α := α) c M = some ⟨c, M, none⟩ := by
  unfold ctor_dyn_FT; rw [supOf_ok]
  rcases h with h | h | h <;> subst h <;>
    simp [expectedSupOf, callM, gen_Homogeneous_init_FT_eq, gen_Affine_init_FT_eq, gen_Similarity_init_FT_eq,
      HT.blank, HT.setH]

theorem ctor_Translation_T_eq (t : Vec d) :
    ctor_Translation_T (α := α) t = some ⟨.translation, ofAffine Mat.one t, none⟩ := by
  simp [ctor_Translation_T, supOf_ok, expectedSupOf, gen_Translation_init_T, gen_Similarity_init_FT_eq, HT.blank,
    HT.setH, npEyeD, vlen, setTransCol_one]

theorem ctor_UniformScale_T_eq (x : ℚ) :
    ctor_UniformScale_T (d := d) (α := α) x d = some ⟨.uniformScale, ofAffine (diagM fun _ => x) fun _ => 0, none⟩ := by
  simp [ctor_UniformScale_T, supOf_ok, expectedSupOf, gen_UniformScale_init_T, gen_Similarity_init_FT_eq, HT.blank,
    HT.setH, npEyeD, fillDiag_corner]

theorem ctor_NonUniformScale_T_eq (v : Vec d) :
    ctor_NonUniformScale_T (α := α) v = some ⟨.nonUniformScale, ofAffine (diagM v) fun _ => 0, none⟩ := by
  simp [ctor_NonUniformScale_T, supOf_ok, expectedSupOf, gen_NonUniformScale_init_T, gen_Affine_init_FT_eq, HT.blank,
    HT.setH, npEyeD, vlen, fillDiagVec_corner]

theorem ctor_Rotation_T_eq (R : Mat d) :
    ctor_Rotation_T (α := α) R = some ⟨.rotation, ofAffine R fun _ => 0, none⟩ := by
  simp [ctor_Rotation_T, supOf_ok, expectedSupOf, gen_Rotation_init_T, gen_Similarity_init_FT_eq,
    m_set_rotation_matrix_T_eq, HT.blank, HT.setH, npEyeD, shapeOf, setLin_one]

theorem m_h_matrix_pseudoinverse_eq (s : HT d α) : m_h_matrix_pseudoinverse s = inv s.h := by
  unfold m_h_matrix_pseudoinverse; rw [supOf_ok]
  simp [expectedSupOf, callM, gen_Homogeneous_h_matrix_pseudoinverse, m_h_matrix_eq]

/-- every class of the family declares a true inverse -/
theorem m_has_true_inverse_eq (s : HT d α) : m_has_true_inverse s = some true := by
  unfold m_has_true_inverse; rw [supOf_ok]
  simp [expectedSupOf, callM, gen_Homogeneous_has_true_inverse]

theorem m_copy_eq (s : HT d α) (h : s.cls.isAlignment = true) : m_copy s = some s := by
  unfold m_copy; rw [supOf_ok]
  simp [expectedSupOf, h, callM, gen_HomogFamilyAlignment_copy, HT.blank, HT.withDictOf, HT.setH]


/-! ### the six `pseudoinverse` bodies -/

theorem gen_Homogeneous_pseudoinverse_eq (s : HT d α) (h : s.cls = .homogeneous ∨ s.cls = .affine ∨ s.cls = .similarity) :
    gen_Homogeneous_pseudoinverse s = (inv s.h).map fun B => ⟨s.cls, B, none⟩ := by
  simp only [gen_Homogeneous_pseudoinverse, m_h_matrix_pseudoinverse_eq]
  cases inv s.h <;> simp [ctor_dyn_FT_eq _ _ h]

theorem gen_Translation_pseudoinverse_eq (s : HT d α) (h : s.cls ≠ .homogeneous) :
    gen_Translation_pseudoinverse s = some ⟨.translation, ofAffine Mat.one (fun i => - transPart s.h i), none⟩ := by
  simp [gen_Translation_pseudoinverse, m_translation_component_eq _ h, ctor_Translation_T_eq, vneg_eq]

theorem gen_UniformScale_pseudoinverse_eq (s : HT d α) (h : s.cls = .uniformScale) :
    gen_UniformScale_pseudoinverse s = some ⟨.uniformScale, ofAffine (diagM fun _ => 1 / s.h 0 0) (fun _ => 0), none⟩ := by
  have hal : s.cls.isAlignment = false := by rw [h]; rfl
  simp [gen_UniformScale_pseudoinverse, m_scale_u_eq _ (Or.inl h), m_n_dims_eq _ hal, ctor_UniformScale_T_eq]

theorem gen_NonUniformScale_pseudoinverse_eq (s : HT d α) (h : s.cls = .nonUniformScale) :
    gen_NonUniformScale_pseudoinverse s =
      some ⟨.nonUniformScale, ofAffine (diagM fun i => 1 / s.h i.castSucc i.castSucc) (fun _ => 0), none⟩ := by
  simp [gen_NonUniformScale_pseudoinverse, m_scale_v_eq _ h, ctor_NonUniformScale_T_eq, vrecip_eq, diagHead_eq]

theorem gen_Rotation_pseudoinverse_eq (s : HT d α) (h : s.cls = .rotation ∨ s.cls = .alignmentRotation) :
    gen_Rotation_pseudoinverse s = (inv (linPart s.h)).map fun R => ⟨.rotation, ofAffine R (fun _ => 0), none⟩ := by
  simp only [gen_Rotation_pseudoinverse, m_rotation_matrix_eq _ h, Option.bind_some]
  cases inv (linPart s.h) <;> simp [ctor_Rotation_T_eq]

/-- `HomogFamilyAlignment.pseudoinverse`: copy, inverse matrix installed, `_source` and `_target` exchanged -/
theorem gen_HomogFamilyAlignment_pseudoinverse_eq (s : HT d α) (h : s.cls.isAlignment = true) :
    gen_HomogFamilyAlignment_pseudoinverse s =
      (inv s.h).map fun B => ⟨s.cls, B, s.ends.map fun e => (e.2, e.1)⟩ := by
  obtain ⟨c, M, e⟩ := s
  simp only [gen_HomogFamilyAlignment_pseudoinverse, m_copy_eq _ h, m_h_matrix_pseudoinverse_eq, Option.bind_some]
  cases inv M with
  | none => simp
  | some B =>
    first
    | (simp only [Option.bind_some, Option.map_some, HT.setH]; rw [ends_swap])
    | (rcases e with _ | ⟨a, b⟩ <;>
        simp [HT.setH, HT.setSource, HT.setTarget, HT.source, HT.target])

/-- THE TIE: `pseudoinverse()` as the source says it now — the translated body of the class the live MRO names, with the
translated constructors, properties and `_h_matrix_pseudoinverse` it calls — is the `pinv` of the model, on every
well-formed object of every class and dimension -/
theorem srcPinv_eq (t : HT d α) (hwf : t.WF) : srcPinv t = pinv t := by
  obtain ⟨c, M, e⟩ := t
  unfold srcPinv; rw [supOf_ok]
  cases c <;> (try (have he : e = none := hwf rfl; subst he)) <;>
    simp [expectedSupOf, implOf, callM, pinv, pinvH, pinvHBy, gen_Homogeneous_pseudoinverse_eq,
      gen_Translation_pseudoinverse_eq, gen_UniformScale_pseudoinverse_eq, gen_NonUniformScale_pseudoinverse_eq,
      gen_Rotation_pseudoinverse_eq, gen_HomogFamilyAlignment_pseudoinverse_eq, isAlignment_cases] <;>
    (try (cases inv (linPart M) <;> rfl))


/-! ### `pseudoinverse_vector`, `Homogeneous._apply` -/

theorem gen_pseudoinverse_vector_eq {V : Type} (fromVec : HT d α → V → Option (HT d α)) (asVec : HT d α → V)
    (t : HT d α) (v : V) (hwf : ∀ o, fromVec t v = some o → o.WF) :
    gen_VInvertible_pseudoinverse_vector fromVec asVec t v = pinvVector fromVec asVec t v := by
  unfold gen_VInvertible_pseudoinverse_vector pinvVector
  cases h : fromVec t v with
  | none => rfl
  | some o =>
    simp only [Option.bind_some]
    rw [srcPinv_eq o (hwf o h)]
    cases pinv o <;> rfl

theorem gen_Homogeneous_apply_eq (s : HT d α) (x : Vec d) : gen_Homogeneous_apply s x = s.apply x := rfl

/-! ### thin plate splines -/

theorem gen_ThinPlateSplines_has_true_inverse_eq {n : ℕ} (o : TPSObj n) :
    gen_ThinPlateSplines_has_true_inverse o = some false := rfl

/-- `ThinPlateSplines.__init__`: landmarks and options stored, the default kernel is `R2LogR2RBF` CENTRED ON THE SOURCE,
the system matrix is `sysL` of the source points and the kernel's centres -/
theorem gen_ThinPlateSplines_init_eq {n : ℕ} (φ : KCls → ℚ → ℚ) (o : TPSObj n) (src tgt : Fin n → P2)
    (k : Option (Kernel n)) (msv : ℚ) :
    gen_ThinPlateSplines_init φ o src tgt k msv =
      some { src := src, tgt := tgt, kernel := some (k.getD ⟨.R2LogR2RBF, src⟩), msv := msv,
             k := some (kernMat (φ (k.getD ⟨.R2LogR2RBF, src⟩).cls) src (k.getD ⟨.R2LogR2RBF, src⟩).c),
             p := some (pMat src),
             l := some (sysL (φ (k.getD ⟨.R2LogR2RBF, src⟩).cls) src (k.getD ⟨.R2LogR2RBF, src⟩).c) } := by
  cases k <;> simp [gen_ThinPlateSplines_init, kernApply, arrOr0, sysL_blocks]

/-- `ThinPlateSplines.pseudoinverse`: source and target exchanged, a kernel of the SAME CLASS centred on the NEW source
(our target), `min_singular_val` kept -/
theorem gen_ThinPlateSplines_pseudoinverse_eq {n : ℕ} (φ : KCls → ℚ → ℚ) (o : TPSObj n) (K : Kernel n)
    (hk : o.kernel = some K) :
    gen_ThinPlateSplines_pseudoinverse φ o =
      some { src := o.tgt, tgt := o.src, kernel := some ⟨K.cls, o.tgt⟩, msv := o.msv,
             k := some (kernMat (φ K.cls) o.tgt o.tgt), p := some (pMat o.tgt),
             l := some (sysL (φ K.cls) o.tgt o.tgt) } := by
  simp [gen_ThinPlateSplines_pseudoinverse, gen_ThinPlateSplines_init_eq, hk]

/-- … which is the `pinvFixed` of the model: the reverse fit -/
theorem src_tps_pinv_eq {n : ℕ} (φ : KCls → ℚ → ℚ) (o : TPSObj n) (K : Kernel n) (hk : o.kernel = some K) :
    (gen_ThinPlateSplines_pseudoinverse φ o).map TPSObj.toTPS = some o.toTPS.pinvFixed := by
  simp [gen_ThinPlateSplines_pseudoinverse_eq φ o K hk, TPSObj.toTPS, TPS.pinvFixed]

/-! ### piecewise affine -/

theorem gen_AbstractPWA_has_true_inverse_eq (o : PWAObj) : gen_AbstractPWA_has_true_inverse o = some true := rfl

/-- `AbstractPWA.__init__`: a source that is no mesh is triangulated, a source that is one keeps ITS trilist; the target
is stored as it comes (its own triangulation, if any, plays no role: `toMesh`) -/
theorem gen_AbstractPWA_init_eq (dl : List P2 → List (ℕ × ℕ × ℕ)) (o : PWAObj) (src tgt : ShapeObj) :
    gen_AbstractPWA_init dl o src tgt =
      some { kind := o.kind, source := if src.trilist.isSome then src else mkTriMesh dl src.points none,
             target := tgt } := by
  unfold gen_AbstractPWA_init
  cases h : src.trilist <;> simp [h]

/-- `AbstractPWA.pseudoinverse`: the SOURCE's trilist on the target points, mapping to the source points, same class -/
theorem gen_AbstractPWA_pseudoinverse_eq (dl : List P2 → List (ℕ × ℕ × ℕ)) (o : PWAObj) (tl : List (ℕ × ℕ × ℕ))
    (h : o.source.trilist = some tl) :
    gen_AbstractPWA_pseudoinverse dl o =
      some ⟨o.kind, ⟨o.target.points, some tl⟩, ⟨o.source.points, none⟩⟩ := by
  simp [gen_AbstractPWA_pseudoinverse, gen_AbstractPWA_init_eq, mkTriMesh, h, PWAObj.blank]

theorem src_pwa_pinv_eq (dl : List P2 → List (ℕ × ℕ × ℕ)) (o : PWAObj) (h : o.source.trilist.isSome = true) :
    (gen_AbstractPWA_pseudoinverse dl o).map PWAObj.toMesh = some o.toMesh.pinv ∧
    (gen_AbstractPWA_pseudoinverse dl o).map PWAObj.kind = some o.kind := by
  obtain ⟨tl, htl⟩ := Option.isSome_iff_exists.mp h
  simp [gen_AbstractPWA_pseudoinverse_eq dl o tl htl, PWAObj.toMesh, PWAMesh.pinv, htl]

/-! ### the arithmetic of one triangle -/

theorem gen_alpha_beta_eq (s : Tri) (p : P2) : gen_alpha_beta s.a (s.b - s.a) (s.c - s.a) p = some (s.ab p) := by
  unfold gen_alpha_beta Tri.ab
  refine congrArg some (Prod.ext ?_ ?_) <;> first | rfl | (simp only []; ring)

theorem gen_barycentric_vectors_eq (pts : List P2) (t : ℕ × ℕ × ℕ) :
    gen_barycentric_vectors pts t =
      some ((triOf pts t).a, (triOf pts t).b - (triOf pts t).a, (triOf pts t).c - (triOf pts t).a) := rfl

theorem gen_rebuild_target_vectors_eq (o : PWATri) :
    gen_rebuild_target_vectors o =
      some { o with vecs := ⟨(triOf o.tgt o.tri).a, (triOf o.tgt o.tri).b - (triOf o.tgt o.tri).a,
                             (triOf o.tgt o.tri).c - (triOf o.tgt o.tri).a⟩ } := rfl

theorem gen_AbstractPWA_apply_eq (iab : P2 → Option (ℕ × ℚ × ℚ)) (vecs : ℕ → TriVecs) (x : P2) :
    gen_AbstractPWA_apply iab vecs x =
      (iab x).map fun r => ((vecs r.1).ti + r.2.1 * (vecs r.1).tij) + r.2.2 * (vecs r.1).tik := by
  unfold gen_AbstractPWA_apply
  cases iab x <;> rfl

/-- the four translated pieces together are the affine piece of the model: barycentric vectors of the source triangle,
`alpha_beta` of the point, the rebuilt target vectors, and `_apply`'s combination -/
theorem src_piece_eq (src tgt : List P2) (tri : ℕ × ℕ × ℕ) (k : ℕ) (p : P2) (v0 : TriVecs) :
    (gen_barycentric_vectors src tri).bind (fun b =>
      (gen_alpha_beta b.1 b.2.1 b.2.2 p).bind fun ab =>
        (gen_rebuild_target_vectors ⟨tgt, tri, v0⟩).bind fun o =>
          gen_AbstractPWA_apply (fun _ => some (k, ab.1, ab.2)) (fun _ => o.vecs) p)
      = some (piece (triOf src tri) (triOf tgt tri) p) := by
  simp only [gen_barycentric_vectors_eq, gen_alpha_beta_eq, gen_rebuild_target_vectors_eq, gen_AbstractPWA_apply_eq,
    Option.bind_some, Option.map_some]
  congr 1
  apply P2.ext' <;> simp [piece] <;> ring

/-! ### tcoords.py -/

theorem ctor_Homogeneous_default_eq (M : Mat (d + 1)) :
    ctor_Homogeneous_default (α := α) M = some ⟨.homogeneous, M, none⟩ := by
  simp [ctor_Homogeneous_default, supOf_ok, expectedSupOf, gen_Homogeneous_init_TF, gen_Homogeneous_set_h_matrix_TF,
    HT.blank, HT.setH]

theorem gen_tcoords_to_image_coords_eq (h w : ℚ) :
    gen_tcoords_to_image_coords (h, w) = some ⟨.homogeneous, tcoordsToImage h w, none⟩ := by
  simp only [gen_tcoords_to_image_coords, ctor_Homogeneous_default_eq, Option.bind_some, vsubOne_shapeVec]
  rfl

theorem gen_image_coords_to_tcoords_eq (h w : ℚ) :
    (gen_image_coords_to_tcoords (h, w)).map (·.h) = imageToTcoords h w := by
  unfold gen_image_coords_to_tcoords
  rw [gen_tcoords_to_image_coords_eq]
  simp only [Option.bind_some]
  rw [srcPinv_eq _ (fun _ => rfl)]
  simp [pinv, imageToTcoords]
  cases pinvH Cls.homogeneous (tcoordsToImage h w) <;> rfl


/-! ## the property theorems, about the translated code -/

/-- every family class declares a true inverse, the spline does not, the piecewise affine warp does — read off the
translated `has_true_inverse` properties -/
theorem src_has_true_inverse {n : ℕ} (t : HT d α) (o : TPSObj n) (w : PWAObj) :
    m_has_true_inverse t = some true ∧ gen_ThinPlateSplines_has_true_inverse o = some false ∧
      gen_AbstractPWA_has_true_inverse w = some true :=
  ⟨m_has_true_inverse_eq t, rfl, rfl⟩

/-- PROPERTY (homogeneous family) ABOUT THE TRANSLATED `pseudoinverse()`: for an honest non-singular well-formed member of
any class and dimension it exists, has the same class, carries exactly the inverse matrix, is an honest member of that
class, has source and target exchanged and undoes `apply` from both sides on every point of either domain -/
theorem src_pinv_sound (hd : 0 < d) (t : HT d α) (hwf : t.WF) (hh : Honest t.cls t.h) (hdet : (toM t.h).det ≠ 0) :
    ∃ u, srcPinv t = some u ∧ u.cls = t.cls ∧ toM u.h = (toM t.h)⁻¹ ∧ Honest u.cls u.h ∧
      u.ends = t.ends.map (fun e => (e.2, e.1)) ∧
      (∀ x y, gen_Homogeneous_apply t x = some y → gen_Homogeneous_apply u y = some x) ∧
      (∀ x y, gen_Homogeneous_apply u y = some x → gen_Homogeneous_apply t x = some y) := by
  rw [srcPinv_eq t hwf]
  simp only [gen_Homogeneous_apply_eq]
  exact pinv_sound hd t hh hdet

/-- … and without any exactness: the translated `pseudoinverse()` of every non-singular member with the structural zero
pattern of its class (every matrix of floats the code can hold) carries the inverse matrix, exchanges the end points and
undoes the translated `_apply` from both sides -/
theorem src_pinv_inverts (hd : 0 < d) (t : HT d α) (hwf : t.WF) (hs : Structural t.cls t.h) (hdet : (toM t.h).det ≠ 0) :
    ∃ u, srcPinv t = some u ∧ u.cls = t.cls ∧ toM u.h = (toM t.h)⁻¹ ∧
      u.ends = t.ends.map (fun e => (e.2, e.1)) ∧
      (∀ x y, gen_Homogeneous_apply t x = some y → gen_Homogeneous_apply u y = some x) ∧
      (∀ x y, gen_Homogeneous_apply u y = some x → gen_Homogeneous_apply t x = some y) := by
  rw [srcPinv_eq t hwf]
  simp only [gen_Homogeneous_apply_eq]
  exact pinv_inverts hd t hs hdet

theorem states_wf (t : HT d α) (ops : List (Option (Op d α))) (hwf : t.WF) :
    ∀ s ∈ statesAtQueries HT.act t ops, s.WF := by
  induction ops generalizing t with
  | nil => intro s hs; simp [statesAtQueries] at hs
  | cons op ops ih =>
    cases op with
    | none =>
      intro s hs
      simp only [statesAtQueries, List.mem_cons] at hs
      rcases hs with rfl | hs
      · exact hwf
      · exact ih t hwf s hs
    | some m => exact ih (HT.act m t) (wf_act m t hwf)

/-- the translated method answers every query of every operation list as the model's does -/
theorem src_run_eq (t : HT d α) (ops : List (Option (Op d α))) (hwf : t.WF) :
    Live.run false srcPinv HT.act (Live.fresh t) ops = Live.run false pinv HT.act (Live.fresh t) ops := by
  rw [run_no_writes, run_no_writes]
  exact List.map_congr_left fun s hs => srcPinv_eq s (states_wf t ops hwf s hs)

/-- PROPERTY (objects with a history) ABOUT THE TRANSLATED `pseudoinverse()`: over every list of legal mutators and
queries each answer inverts the CURRENT map and has the CURRENT end points exchanged -/
theorem src_hom_ops_pinv_sound (hd : 0 < d) (t : HT d α) (ops : List (Option (Op d α))) (hwf : t.WF) (ht : Good t)
    (hops : ∀ op, some op ∈ ops → OpOK t.cls op) :
    List.Forall₂ (fun s a => s.cls = t.cls ∧ InvertsNow s a)
      (statesAtQueries HT.act t ops) (Live.run false srcPinv HT.act (Live.fresh t) ops) := by
  rw [src_run_eq t ops hwf]
  exact hom_ops_pinv_sound hd t ops ht hops

/-- PROPERTY: the translated pseudoinverse of the translated pseudoinverse is the object itself -/
theorem src_pinv_involutive (hd : 0 < d) (t : HT d α) (hwf : t.WF) (ht : Good t) :
    ∃ u, srcPinv t = some u ∧ Good u ∧ srcPinv u = some t := by
  obtain ⟨u, h1, h2, h3⟩ := pinv_involutive hd t ht
  have hu : u.WF := by
    obtain ⟨u', k1, k2, _, _, k5, _, _⟩ := pinv_sound hd t ht.1 ht.2
    rw [h1] at k1; cases k1
    intro hc
    rw [k5, hwf (k2 ▸ hc)]; rfl
  exact ⟨u, by rw [srcPinv_eq t hwf]; exact h1, h2, by rw [srcPinv_eq u hu]; exact h3⟩

/-- PROPERTY (thin plate splines) ABOUT THE TRANSLATED `pseudoinverse()`: it is the spline fitted in the reverse direction
— source and target exchanged, a kernel of the same class centred on the new source, the same truncation floor — and it
sends every target landmark exactly back onto its source landmark (whenever the reverse system is solvable) -/
theorem src_tps_pinv_reverse_fit {n : ℕ} (φ : KCls → ℚ → ℚ) (o : TPSObj n) (K : Kernel n) (hk : o.kernel = some K) :
    ∃ p, gen_ThinPlateSplines_pseudoinverse φ o = some p ∧ p.toTPS = TPS.fit o.tgt o.src ∧ p.src = o.tgt ∧
      p.tgt = o.src ∧ p.kernel = some ⟨K.cls, o.tgt⟩ ∧ p.msv = o.msv ∧
      p.l = some (sysL (φ K.cls) o.tgt o.tgt) ∧
      ∀ (ψ : ℚ → ℚ) (i : Fin n) (z : P2), p.toTPS.apply ψ (o.tgt i) = some z → z = o.src i := by
  refine ⟨_, gen_ThinPlateSplines_pseudoinverse_eq φ o K hk, rfl, rfl, rfl, rfl, rfl, rfl, ?_⟩
  intro ψ i z hz
  exact tps_fit_interpolates ψ o.tgt o.src i hz

/-- PROPERTY (piecewise affine) ABOUT THE TRANSLATED `pseudoinverse()`: same class, the source's trilist on the target
points mapping to the source points; on a mesh that passes the triangulation certificate it undoes the warp on the whole
source domain and is undone by it on the whole target domain -/
theorem src_pwa_pinv_roundtrip (dl : List P2 → List (ℕ × ℕ × ℕ)) (o : PWAObj) (h : o.source.trilist.isSome = true) :
    ∃ p, gen_AbstractPWA_pseudoinverse dl o = some p ∧ p.kind = o.kind ∧ p.toMesh = o.toMesh.pinv ∧
      (o.toMesh.certified = true →
        (∀ x y, o.toMesh.toPWA.apply x = some y → p.toMesh.toPWA.apply y = some x) ∧
        (∀ x y, p.toMesh.toPWA.apply y = some x → o.toMesh.toPWA.apply x = some y)) := by
  obtain ⟨tl, htl⟩ := Option.isSome_iff_exists.mp h
  refine ⟨_, gen_AbstractPWA_pseudoinverse_eq dl o tl htl, rfl, by simp [PWAObj.toMesh, PWAMesh.pinv, htl], ?_⟩
  intro hc
  have e : (⟨o.kind, ⟨o.target.points, some tl⟩, ⟨o.source.points, none⟩⟩ : PWAObj).toMesh = o.toMesh.pinv := by
    simp [PWAObj.toMesh, PWAMesh.pinv, htl]
  rw [e]
  obtain ⟨_, _, _, h1, h2, _⟩ := pwa_roundtrip_certified o.toMesh hc
  exact ⟨h1, h2⟩

/-- PROPERTY (tcoords) ABOUT THE TRANSLATED FUNCTIONS: for an image with more than one pixel along each axis both exist
and undo each other on every point from both sides -/
theorem src_tcoords_roundtrip (h w : ℚ) (hh : h ≠ 1) (hw : w ≠ 1) :
    ∃ T B, gen_tcoords_to_image_coords (h, w) = some T ∧ gen_image_coords_to_tcoords (h, w) = some B ∧
      toM B.h = (toM T.h)⁻¹ ∧
      (∀ p q, gen_Homogeneous_apply T p = some q → gen_Homogeneous_apply B q = some p) ∧
      (∀ p q, gen_Homogeneous_apply B q = some p → gen_Homogeneous_apply T p = some q) := by
  obtain ⟨M, hM, hinv, l, r⟩ := tcoords_roundtrip h w hh hw
  have hB := gen_image_coords_to_tcoords_eq h w
  rw [hM] at hB
  cases hb : gen_image_coords_to_tcoords (h, w) with
  | none => rw [hb] at hB; cases hB
  | some B =>
    rw [hb] at hB
    have hBh : B.h = M := by simpa using hB
    refine ⟨_, B, gen_tcoords_to_image_coords_eq h w, rfl, by rw [hBh]; exact hinv, ?_, ?_⟩
    · intro p q hpq; simp only [gen_Homogeneous_apply_eq, HT.apply, hBh] at hpq ⊢; exact l p q hpq
    · intro p q hpq; simp only [gen_Homogeneous_apply_eq, HT.apply, hBh] at hpq ⊢; exact r p q hpq

/-! ### `set_target` of the two warps, and whole histories of the translated objects -/

/-- `Targetable.set_target` on a spline (`_verify_target`, `Alignment._target_setter`, then
`ThinPlateSplines._sync_state_from_target` = rebuild the coefficients, a function of the state in the model): the target
landmarks are replaced, everything else stays — `TPS.setTarget` -/
theorem gen_set_target_tps_eq {n : ℕ} (φ : KCls → ℚ → ℚ) (o : TPSObj n) (T : Fin n → P2) :
    gen_Targetable_set_target_tps φ o T = some { o with tgt := T } ∧
      (gen_Targetable_set_target_tps φ o T).map TPSObj.toTPS = some (TPS.setTarget T o.toTPS) := by
  have h : gen_Targetable_set_target_tps φ o T = some { o with tgt := T } := by
    simp [gen_Targetable_set_target_tps, gen_Targetable_target_setter_with_verification_tps,
      gen_Targetable_verify_target_tps, gen_Alignment_target_setter_tps, gen_ThinPlateSplines_sync_state_from_target]
  exact ⟨h, by rw [h]; rfl⟩

/-- `Targetable.set_target` on a piecewise affine warp: refused when the number of points differs, else the target is
replaced and the SOURCE mesh (points and trilist) stays — `PWAMesh.setTarget` -/
theorem gen_set_target_pwa_eq (o : PWAObj) (T : ShapeObj) :
    gen_Targetable_set_target_pwa o T =
      (if T.points.length = o.target.points.length then some { o with target := T } else none) ∧
    (T.points.length = o.target.points.length →
      (gen_Targetable_set_target_pwa o T).map PWAObj.toMesh = some (PWAMesh.setTarget T.points o.toMesh)) := by
  have h : gen_Targetable_set_target_pwa o T =
      (if T.points.length = o.target.points.length then some { o with target := T } else none) := by
    by_cases hl : T.points.length = o.target.points.length <;>
      simp [gen_Targetable_set_target_pwa, gen_Targetable_target_setter_with_verification_pwa,
        gen_Targetable_verify_target_pwa, gen_Alignment_target_setter_pwa, gen_AbstractPWA_sync_state_from_target, hl]
  refine ⟨h, fun hl => ?_⟩
  rw [h, if_pos hl]; rfl

/-- `set_target` as a total mutator of the history model (a refused call leaves the object as it was) -/
def tpsAct {n : ℕ} (φ : KCls → ℚ → ℚ) (T : Fin n → P2) (o : TPSObj n) : TPSObj n :=
  (gen_Targetable_set_target_tps φ o T).getD o
def pwaAct (T : ShapeObj) (o : PWAObj) : PWAObj := (gen_Targetable_set_target_pwa o T).getD o

/-- PROPERTY (thin plate splines with a history) ABOUT THE TRANSLATED CODE: over every list of translated `set_target` and
`pseudoinverse()` calls on a spline, each answer is the reverse fit of the CURRENT state — current target as source, the
source as target, a kernel of the spline's class centred on the current target, the same truncation floor — and returns
every current target landmark to its source landmark -/
theorem src_tps_ops_pinv_sound {n : ℕ} (φ : KCls → ℚ → ℚ) (o : TPSObj n) (K : Kernel n) (hk : o.kernel = some K)
    (ops : List (Option (Fin n → P2))) :
    List.Forall₂ (fun (s : TPSObj n) (a : Option (TPSObj n)) => s.src = o.src ∧ s.msv = o.msv ∧
        ∃ p, a = some p ∧ p.toTPS = TPS.fit s.tgt s.src ∧ p.kernel = some ⟨K.cls, s.tgt⟩ ∧ p.msv = o.msv ∧
          ∀ (ψ : ℚ → ℚ) (i : Fin n) (z : P2), p.toTPS.apply ψ (s.tgt i) = some z → z = s.src i)
      (statesAtQueries (tpsAct φ) o ops)
      (Live.run false (gen_ThinPlateSplines_pseudoinverse φ) (tpsAct φ) (Live.fresh o) ops) := by
  rw [run_no_writes]
  simp only [Live.fresh]
  rw [List.forall₂_map_right_iff, List.forall₂_same]
  have inv : ∀ (ops : List (Option (Fin n → P2))) (o' : TPSObj n),
      (o'.kernel = some K ∧ o'.src = o.src ∧ o'.msv = o.msv) →
      ∀ s ∈ statesAtQueries (tpsAct φ) o' ops, s.kernel = some K ∧ s.src = o.src ∧ s.msv = o.msv := by
    intro ops
    induction ops with
    | nil => intro o' _ s hs; simp [statesAtQueries] at hs
    | cons op ops ih =>
      intro o' ho' s hs
      cases op with
      | none =>
        simp only [statesAtQueries, List.mem_cons] at hs
        rcases hs with rfl | hs
        · exact ho'
        · exact ih o' ho' s hs
      | some T =>
        refine ih (tpsAct φ T o') ?_ s hs
        simp only [tpsAct, (gen_set_target_tps_eq φ o' T).1, Option.getD_some]
        exact ho'
  intro s hs
  obtain ⟨h1, h2, h3⟩ := inv ops o ⟨hk, rfl, rfl⟩ s hs
  obtain ⟨p, q1, q2, _, _, q5, q6, _, q8⟩ := src_tps_pinv_reverse_fit φ s K h1
  exact ⟨h2, h3, p, q1, q2, q5, by rw [q6, h3], q8⟩

/-- PROPERTY (piecewise affine with a history) ABOUT THE TRANSLATED CODE: over every list of translated `set_target`
(refused ones included) and `pseudoinverse()` calls each answer is the warp on (CURRENT target points, the source's
trilist) → source points, of the same class, and on a certified mesh it undoes the current warp from both sides -/
theorem src_pwa_ops_pinv_sound (dl : List P2 → List (ℕ × ℕ × ℕ)) (o : PWAObj) (h : o.source.trilist.isSome = true)
    (ops : List (Option ShapeObj)) :
    List.Forall₂ (fun (s : PWAObj) (a : Option PWAObj) => s.source = o.source ∧ s.kind = o.kind ∧
        ∃ p, a = some p ∧ p.kind = o.kind ∧ p.toMesh = s.toMesh.pinv ∧
          (s.toMesh.certified = true →
            (∀ x y, s.toMesh.toPWA.apply x = some y → p.toMesh.toPWA.apply y = some x) ∧
            (∀ x y, p.toMesh.toPWA.apply y = some x → s.toMesh.toPWA.apply x = some y)))
      (statesAtQueries pwaAct o ops)
      (Live.run false (gen_AbstractPWA_pseudoinverse dl) pwaAct (Live.fresh o) ops) := by
  rw [run_no_writes]
  simp only [Live.fresh]
  rw [List.forall₂_map_right_iff, List.forall₂_same]
  have inv : ∀ (ops : List (Option ShapeObj)) (o' : PWAObj), (o'.source = o.source ∧ o'.kind = o.kind) →
      ∀ s ∈ statesAtQueries pwaAct o' ops, s.source = o.source ∧ s.kind = o.kind := by
    intro ops
    induction ops with
    | nil => intro o' _ s hs; simp [statesAtQueries] at hs
    | cons op ops ih =>
      intro o' ho' s hs
      cases op with
      | none =>
        simp only [statesAtQueries, List.mem_cons] at hs
        rcases hs with rfl | hs
        · exact ho'
        · exact ih o' ho' s hs
      | some T =>
        refine ih (pwaAct T o') ?_ s hs
        simp only [pwaAct, (gen_set_target_pwa_eq o' T).1]
        split <;> simpa using ho'
  intro s hs
  obtain ⟨h1, h2⟩ := inv ops o ⟨rfl, rfl⟩ s hs
  obtain ⟨p, q1, q2, q3, q4⟩ := src_pwa_pinv_roundtrip dl s (by rw [h1]; exact h)
  exact ⟨h1, h2, p, q1, by rw [q2, h2], q3, q4⟩

/-! ### chains -/

/-- the members' TRANSLATED pseudoinverses, last member first -/
def srcChainPinv : List (HT d α) → Option (List (HT d α))
  | [] => some []
  | t :: ts => (srcChainPinv ts).bind fun us => (srcPinv t).map fun u => us ++ [u]

theorem srcChainPinv_eq (ts : List (HT d α)) (h : ∀ t ∈ ts, t.WF) : srcChainPinv ts = chainPinv ts := by
  induction ts with
  | nil => rfl
  | cons t ts ih =>
    simp only [srcChainPinv, chainPinv, ih fun s hs => h s (List.mem_cons_of_mem _ hs), srcPinv_eq t (h t (by simp))]

/-- PROPERTY (chains of any length) ABOUT THE TRANSLATED `pseudoinverse()`: the reversed chain of the members' translated
pseudoinverses exists, has the members' classes in reversed order, carries the inverse of the chain's matrix and undoes
the chain from both sides on every point -/
theorem src_chain_pinv_sound (hd : 0 < d) (ts : List (HT d α)) (hwf : ∀ t ∈ ts, t.WF) (h : ∀ t ∈ ts, Good t) :
    ∃ us, srcChainPinv ts = some us ∧ us.map (·.cls) = (ts.map (·.cls)).reverse ∧
      toM (chainMat us) = (toM (chainMat ts))⁻¹ ∧
      (∀ x y, chainApply ts x = some y → chainApply us y = some x) ∧
      (∀ x y, chainApply us y = some x → chainApply ts x = some y) := by
  obtain ⟨us, h1, h2, _, h4, h5, h6⟩ := chain_pinv_sound hd ts h
  exact ⟨us, by rw [srcChainPinv_eq ts hwf]; exact h1, h2, h4, h5, h6⟩

/-! ### non-vacuity: the translated code, executed -/

/-- a 2-D alignment similarity (rotation by 90°, scale 2, translation (1, 3)): the translated pseudoinverse exchanges the
end points and sends (1, 5) back to (1, 0) -/
example : (srcPinv exSim).map (fun u => (u.cls, u.ends, (u.apply (fun i => if i.val = 0 then 1 else 5)).map
    fun v => (v 0, v 1))) = some (.alignmentSimilarity, some ("target", "source"), some (1, 0)) := by decide +kernel

/-- the closed forms through the translated constructors -/
example : (srcPinv (⟨.nonUniformScale, ofAffine (d := 3) (diagM fun i => (i.val : ℚ) + 2) (fun _ => 0), none⟩ :
    HT 3 Unit)).map (fun u => (u.cls, [u.h 0 0, u.h 1 1, u.h 2 2, u.h 3 3, u.h 0 1])) =
      some (.nonUniformScale, [1/2, 1/3, 1/4, 1, 0]) := by decide +kernel
example : (srcPinv (⟨.uniformScale, ofAffine (d := 2) (diagM fun _ => 4) (fun _ => 0), none⟩ : HT 2 Unit)).map
    (fun u => (u.cls, [u.h 0 0, u.h 1 1, u.h 2 2, u.h 0 2])) = some (.uniformScale, [1/4, 1/4, 1, 0]) := by
  decide +kernel
example : (srcPinv (⟨.translation, m3 1 0 5 0 1 (-7) 0 0 1, none⟩ : HT 2 Unit)).map
    (fun u => [u.h 0 2, u.h 1 2, u.h 0 0]) = some [-5, 7, 1] := by decide +kernel
example : (gen_image_coords_to_tcoords (5, 3)).map (fun u => [u.h 0 0, u.h 0 1, u.h 0 2, u.h 1 0, u.h 1 1, u.h 1 2]) =
    some [0, 1/2, 0, -1/4, 0, 1] := by decide +kernel

/-- a spline object with a history, executed: the five-point example of `Props/C04Base.lean` as a `ThinPlateSplines`
instance (default kernel, floor 1e-4); query, re-target onto the source itself, query — both translated pseudoinverses
keep the floor and send their own 5th source landmark (the current target) onto (0, 0) -/
def exObj : TPSObj 5 := ⟨exTPS.src, exTPS.tgt, some ⟨.R2LogR2RBF, exTPS.src⟩, 1 / 10000, none, none, none⟩

example : (Live.run false (gen_ThinPlateSplines_pseudoinverse fun _ => exφ) (tpsAct fun _ => exφ) (Live.fresh exObj)
    [none, some exTPS.src, none]).map (fun a => a.map fun p =>
      ((p.toTPS.apply exφ (p.src 4)).map fun z => (z.x, z.y), (p.src 4).x, p.msv, p.kernel.map (·.cls))) =
    [some (some (0, 0), 1 / 2, 1 / 10000, some .R2LogR2RBF), some (some (0, 0), 0, 1 / 10000, some .R2LogR2RBF)] := by
  decide +kernel

/-- a piecewise affine object whose TARGET is a mesh with a triangulation of its own (the other diagonal): the translated
pseudoinverse carries the SOURCE's trilist, and a re-target with a wrong number of points is refused -/
def exPwaObj : PWAObj := ⟨.CachedPWA, ⟨exMesh.src, some exMesh.tris⟩, ⟨exMesh.tgt, some [(0, 1, 3), (1, 2, 3)]⟩⟩

example :
    (Live.run false (gen_AbstractPWA_pseudoinverse fun _ => []) pwaAct (Live.fresh exPwaObj)
      [none, some ⟨[⟨0, 0⟩], none⟩, none]).map (fun a => match a with
        | some p => decide (p.kind = .CachedPWA) && (p.toMesh.tris == [(0, 1, 2), (0, 2, 3)]) && (p.toMesh.src == exMesh.tgt)
        | none => false) = [true, true] := by
  decide +kernel

end MenpoModel.GenProps.C04Src
