/-
C16 — the overwrite guard and the exporter / importer agreement AS THEOREMS ABOUT THE TRANSLATED FUNCTIONS
(`Generated/C16SrcPure.lean`, `Generated/C16SrcIO.lean`: rewritten from the source text of the working tree on every
run).  Each statement is the corresponding theorem of `Props/C16Src.lean` (about the specifications) carried over the
equalities `gen… = …Spec` of `GenProps/C16SrcPure.lean` / `C16SrcIO.lean`; the extension dictionaries are the LIVE ones
(`GenProps/C16.lean`).  A change of the Python text that alters one of these decisions breaks this file.
-/
import MenpoModel.GenProps.C16SrcIO
import MenpoModel.GenProps.C16
import MenpoModel.Props.C16Src
import MenpoModel.Lemmas.C16NormStr

set_option linter.unusedSimpArgs false
set_option linter.unusedVariables false

namespace MenpoModel.GenProps.C16
open MenpoModel.C16 MenpoModel.C16.PyX MenpoModel.Generated.C16

/-! ### which file an export is about -/

/-- the translated `_norm_path`, composed string by string as the code composes it, names the file of the direct
model (`normPath`: expand, normalise the components against the working directory) — for `str` and for `Path` -/
theorem genNormPath_key (env : Env) (cwd : Path) (h : CwdOK cwd) (s : List Char) :
    (genNormPath env cwd (Fp.toPath (.str s))).key cwd = normPath env cwd s ∧
    (genNormPath env cwd (.path s)).key cwd = normPath env cwd s := by
  rw [genNormPath_eq, genNormPath_eq]
  exact ⟨key_normPathSpec env cwd h _, key_normPathSpec env cwd h _⟩

theorem targetKey_eq_normPath (env : Env) (cwd : Path) (h : CwdOK cwd) (s : List Char) :
    targetKey env cwd (.str s) = normPath env cwd s ∧ targetKey env cwd (.path s) = normPath env cwd s :=
  ⟨key_normPathSpec env cwd h _, key_normPathSpec env cwd h _⟩

/-! ### the guard, one call -/

/-- PROPERTY (guard; translated `_export` = export_image / export_landmark_file).  A str or Path whose normalised
target exists, `overwrite` not requested: OverwriteError, and the file system is EXACTLY as before. -/
theorem export_guard_translated (env : Env) (cwd : Path) (obj : ExObj) (fp : Fp) (m : List (String × String))
    (ext : OStr) (kw : Option Kw) (fs : FSb) (hp : fp.isStrOrPath = true)
    (h : (fs (targetKey env cwd fp)).isSome = true) :
    genExport env cwd obj fp m ext false kw fs = (.error .overwriteError, fs) := by
  rw [genExport_eq]; exact export_refused env cwd obj fp m ext kw fs hp h

/-- OverwriteError is raised in exactly that situation -/
theorem export_guard_translated_iff (env : Env) (cwd : Path) (obj : ExObj) (fp : Fp) (m : List (String × String))
    (ext : OStr) (ow : Bool) (kw : Option Kw) (fs : FSb) (hp : fp.isStrOrPath = true) :
    (genExport env cwd obj fp m ext ow kw fs).1 = .error .overwriteError ↔
      ((fs (targetKey env cwd fp)).isSome = true ∧ ow = false) := by
  rw [genExport_eq]; exact export_refused_iff env cwd obj fp m ext ow kw fs hp

/-- whatever the call does, no file other than its normalised target changes -/
theorem export_frame_translated (env : Env) (cwd : Path) (obj : ExObj) (fp : Fp) (m : List (String × String))
    (ext : OStr) (ow : Bool) (kw : Option Kw) (fs : FSb) (hp : fp.isStrOrPath = true) (q : Path)
    (hq : q ≠ targetKey env cwd fp) : (genExport env cwd obj fp m ext ow kw fs).2 q = fs q := by
  rw [genExport_eq]; exact export_frame env cwd obj fp m ext ow kw fs hp q hq

/-- every spelling: two str / Path arguments that normalise to the same path get the same answer from the guard -/
theorem export_guard_translated_spelling (env : Env) (cwd : Path) (hc : CwdOK cwd) (obj : ExObj) (s s' : List Char)
    (m : List (String × String)) (ext : OStr) (ow : Bool) (kw : Option Kw) (fs : FSb)
    (h : normPath env cwd s = normPath env cwd s') :
    ((genExport env cwd obj (.str s) m ext ow kw fs).1 = .error .overwriteError ↔
      (genExport env cwd obj (.path s') m ext ow kw fs).1 = .error .overwriteError) := by
  rw [export_guard_translated_iff _ _ _ _ _ _ _ _ _ rfl, export_guard_translated_iff _ _ _ _ _ _ _ _ _ rfl,
    (targetKey_eq_normPath env cwd hc s).1, (targetKey_eq_normPath env cwd hc s').2, h]

/-- PROPERTY (guard; translated `export_pickle`) -/
theorem pickle_guard_translated (env : Env) (cwd : Path) (m : List (String × String)) (obj : ExObj) (fp : Fp) (ow : Bool)
    (protocol : Nat) (fs : FSb) (hp : fp.isStrOrPath = true) :
    ((genExportPickle env cwd m obj fp ow protocol fs).1 = .error .overwriteError ↔
      ((fs (targetKey env cwd fp)).isSome = true ∧ ow = false)) ∧
    ((fs (targetKey env cwd fp)).isSome = true → ow = false →
      genExportPickle env cwd m obj fp ow protocol fs = (.error .overwriteError, fs)) ∧
    (∀ q, q ≠ targetKey env cwd fp → (genExportPickle env cwd m obj fp ow protocol fs).2 q = fs q) := by
  rw [genExportPickle_eq]
  refine ⟨pickle_refused_iff env cwd m obj fp ow protocol fs hp, ?_, fun q hq => pickle_frame env cwd m obj fp ow protocol fs hp q hq⟩
  intro h how
  subst how
  exact pickle_refused env cwd m obj fp protocol fs hp h

/-- PROPERTY (guard; translated `export_landmark_file`): an existing target is left alone and the call fails -/
theorem landmark_guard_translated (env : Env) (cwd : Path) (m : List (String × String)) (obj : ExObj) (fp : Fp)
    (ext : OStr) (fs : FSb) (hp : fp.isStrOrPath = true) (h : (fs (targetKey env cwd fp)).isSome = true) :
    (genExportLandmarkFile env cwd m obj fp ext false fs).2 = fs ∧
      ∃ x, (genExportLandmarkFile env cwd m obj fp ext false fs).1 = .error x := by
  obtain ⟨gf, hgf⟩ := genExportLandmarkFile_eq
  rw [hgf]; exact landmarkV_guard gf env cwd m obj fp ext fs hp h

/-- … and IF the translated source is the guard-first variant (the repair), the error is OverwriteError for every
object, extension and name — the clause of the property; for the code as it stood `landmark_coded_value_error`
exhibits a dictionary aimed at an existing `x.pts` that gets ValueError instead -/
theorem landmark_guard_translated_first
    (hfirst : ∀ (env : Env) (cwd : Path) (m : List (String × String)) (obj : ExObj) (fp : Fp) (ext : OStr) (ow : Bool),
      genExportLandmarkFile env cwd m obj fp ext ow = exportLandmarkFileSpec env cwd m obj fp ext ow)
    (env : Env) (cwd : Path) (m : List (String × String)) (obj : ExObj) (fp : Fp)
    (ext : OStr) (fs : FSb) (hp : fp.isStrOrPath = true) (h : (fs (targetKey env cwd fp)).isSome = true) :
    genExportLandmarkFile env cwd m obj fp ext false fs = (.error .overwriteError, fs) := by
  rw [hfirst]; exact landmark_guard_first env cwd m obj fp ext fs hp h

/-- PROPERTY (guard; translated `export_video` → `_export_paths_only`): the exporter is handed the path that was
checked -/
theorem video_guard_translated (env : Env) (cwd : Path) (m : List (String × String)) (obj : ExObj) (fp : Fp) (ow : Bool)
    (fps : Nat) (kwargs : Kw) (fs : FSb) (hp : fp.isStrOrPath = true) :
    ((fs (targetKey env cwd fp)).isSome = true → ow = false →
      genExportVideo env cwd m obj fp ow fps kwargs fs = (.error .overwriteError, fs)) ∧
    (∀ q, q ≠ targetKey env cwd fp → (genExportVideo env cwd m obj fp ow fps kwargs fs).2 q = fs q) := by
  rw [genExportVideo_eq]
  refine ⟨?_, fun q hq => video_frame env cwd m obj fp ow fps kwargs fs hp q hq⟩
  intro h how
  subst how
  exact video_refused env cwd m obj fp fps kwargs fs hp h

/-! ### the guard, every history -/

/-- one call of a public exporter, executed by the TRANSLATED function -/
def runGen (env : Env) (cwd : Path) : XOp → IOx Unit
  | .image m obj fp ext ow => genExportImage env cwd m obj fp ext ow
  | .landmark m obj fp ext ow => genExportLandmarkFile env cwd m obj fp ext ow
  | .pickle m obj fp ow protocol => genExportPickle env cwd m obj fp ow protocol
  | .video m obj fp ow fps kwargs => genExportVideo env cwd m obj fp ow fps kwargs

def runGenX (env : Env) (cwd : Path) : FSb → List XOp → List (Except Exc Unit) × FSb
  | fs, [] => ([], fs)
  | fs, op :: ops =>
    let r := runGen env cwd op fs
    let rest := runGenX env cwd r.2 ops
    (r.1 :: rest.1, rest.2)

theorem runGen_eq : ∃ gf : Bool, ∀ (env : Env) (cwd : Path) (op : XOp), runGen env cwd op = op.run gf env cwd := by
  obtain ⟨gf, hgf⟩ := genExportLandmarkFile_eq
  refine ⟨gf, ?_⟩
  intro env cwd op
  cases op <;> simp [runGen, XOp.run, genExportImage_eq, hgf, genExportPickle_eq, genExportVideo_eq]

theorem runGenX_eq : ∃ gf : Bool, ∀ (env : Env) (cwd : Path) (ops : List XOp) (fs : FSb),
    runGenX env cwd fs ops = runX gf env cwd fs ops := by
  obtain ⟨gf, hgf⟩ := runGen_eq
  refine ⟨gf, ?_⟩
  intro env cwd ops
  induction ops with
  | nil => intro fs; rfl
  | cons op t ih => intro fs; simp only [runGenX, runX, hgf, ih]

/-- PROPERTY (guard, every history, translated entry points).  Any sequence of export_image / export_landmark_file /
export_pickle / export_video calls with str / Path arguments: a file that exists and is never targeted with
overwrite=True holds the same content at the end, and every call aimed at it was answered with OverwriteError
(export_landmark_file possibly with the error of its own earlier check). -/
theorem export_history_translated (env : Env) (cwd : Path) (p : Path) (v : Blob) (ops : List XOp) (fs : FSb)
    (hv : fs p = some v)
    (hall : ∀ op ∈ ops, op.fp.isStrOrPath = true ∧ (targetKey env cwd op.fp = p → op.ow = false)) :
    (runGenX env cwd fs ops).2 p = some v ∧
    ∀ x ∈ ops.zip (runGenX env cwd fs ops).1, targetKey env cwd x.1.fp = p →
      x.2 = .error .overwriteError ∨ (x.1.isLandmark = true ∧ ∃ e, x.2 = .error e) := by
  obtain ⟨gf, hgf⟩ := runGenX_eq
  rw [hgf]; exact history_never_clobbers gf env cwd p v ops fs hv hall

theorem export_history_frame_translated (env : Env) (cwd : Path) (q : Path) (ops : List XOp) (fs : FSb)
    (hall : ∀ op ∈ ops, op.fp.isStrOrPath = true ∧ targetKey env cwd op.fp ≠ q) :
    (runGenX env cwd fs ops).2 q = fs q := by
  obtain ⟨gf, hgf⟩ := runGenX_eq
  rw [hgf]; exact history_frame gf env cwd q ops fs hall

/-! ### exporter and importer agree — translated parsers, live dictionaries -/

/-- PROPERTY (multi-dot names; translated `_parse_and_validate_extension` and `importer_for_filepath`, LIVE
dictionaries).  Whatever extension the translated exporter-side parser reads off a path for the live exporter
dictionary of a kind, the translated importer-side loop finds, for the same path and the live importer dictionary, a
callable that reads what the exporter's callable writes. -/
theorem export_import_agree_translated (k : Kind) (p : Fp) (e : OStr)
    (he : genParseAndValidate p none (exporterLive k) = .ok e) :
    ∃ x ∈ exporterLive k, ∃ r, e = some x.1.toList ∧ genImporterFor p (importerLive k) = .ok (some r) ∧
      (readerOf x.2).contains r = true := by
  rw [genParseAndValidate_eq] at he
  rw [genImporterFor_eq]
  exact export_reader_agrees _ _ _ (live_tables_ok k) p e he

/-- … and for pickles: the translated `export_pickle` gzips iff the parsed extension ends in `.gz`, and the translated
importer loop then picks the gunzipping importer iff it does -/
theorem pickle_agree_translated (p : Fp) (e : OStr)
    (he : genParseAndValidate p none (exporterLive .pickle) = .ok e) :
    ∃ r, genImporterFor p (importerLive .pickle) = .ok (some r) ∧ (r == "pickle_gzip_importer") = strEndsGz e := by
  rw [genParseAndValidate_eq] at he
  rw [genImporterFor_eq]
  exact pickle_reader_agrees _ _ (live_tables_ok .pickle) p e he

/-- what the translated `export_pickle` leaves on disk (see `pickle_written`) -/
theorem pickle_written_translated (env : Env) (cwd : Path) (obj : ExObj) (fp : Fp) (ow : Bool)
    (protocol : Nat) (fs : FSb) (hp : fp.isStrOrPath = true)
    (hg : ¬((fs (targetKey env cwd fp)).isSome = true ∧ ow = false)) (e : OStr)
    (he : genParseAndValidate (genNormPath env cwd fp.toPath) none (exporterLive .pickle) = .ok e)
    (hstable : (genNormPath env cwd (Fp.path (genNormPath env cwd fp.toPath).toStr)).fileName =
      (genNormPath env cwd fp.toPath).fileName) :
    ∃ c, mapGet (exporterLive .pickle) e = some c ∧
      (genExportPickle env cwd (exporterLive .pickle) obj fp ow protocol fs).2 (targetKey env cwd fp) =
        some ⟨obj.content, e, c, strEndsGz e, [("protocol", protocol)], obj.exportable⟩ := by
  rw [genParseAndValidate_eq, genNormPath_eq] at he
  rw [genNormPath_eq, genNormPath_eq] at hstable
  rw [genExportPickle_eq]
  have hm : KeysNormal (exporterLive .pickle) := by rw [exporterLive_ok]; exact keysNormal_tables .pickle
  exact pickle_written env cwd _ obj fp ow protocol fs hp hm hg e he hstable

/-! ### non-vacuity: the translated functions, run on concrete values -/

def exFs : FSb := fun q => if q = ["d".toList, "m.pkl.gz".toList] then some ⟨7, none, "", false, [], true⟩ else none

/-- one existing file; the translated export_pickle refuses `./x/../m.pkl.gz` (a str) and `~/m.pkl.gz` (a Path, HOME=/d),
accepts a new name and gzips it, refuses the unknown extension -/
example :
    (match (genExportPickle ⟨[("HOME".toList, "/d".toList)]⟩ ["d".toList] (exporterLive .pickle) ⟨1, true, true⟩
        (.str "./x/../m.pkl.gz".toList) false 2 exFs).1 with | .error .overwriteError => true | _ => false) = true ∧
    (match (genExportPickle ⟨[("HOME".toList, "/d".toList)]⟩ ["d".toList] (exporterLive .pickle) ⟨1, true, true⟩
        (.path "~/m.pkl.gz".toList) false 2 exFs).1 with | .error .overwriteError => true | _ => false) = true ∧
    ((genExportPickle ⟨[("HOME".toList, "/d".toList)]⟩ ["d".toList] (exporterLive .pickle) ⟨1, true, true⟩
        (.str "a.b.PKL.gz".toList) false 2 exFs).2 ["d".toList, "a.b.PKL.gz".toList]).map (fun b => (b.content, b.gz, b.complete))
      = some (1, true, true) ∧
    (match (genExportPickle ⟨[]⟩ ["d".toList] (exporterLive .pickle) ⟨1, true, true⟩
        (.str "n.txt".toList) false 2 exFs).1 with | .error .valueError => true | _ => false) = true := by
  decide +kernel

end MenpoModel.GenProps.C16
