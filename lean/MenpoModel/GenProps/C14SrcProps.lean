/-
C14 — the property theorems restated about the TRANSLATED source (`Generated/C14Src.lean`, rewritten from
menpo/shape/graph.py of the working tree by every `./check C14`).

`GenProps/C14Src.lean` proves `translated definition = Core definition` for all arguments; the theorems below
compose those equalities with the property theorems of `Props/C14.lean`, so that what is proved correct is the
detector, the tree test, the path enumeration, the tree constructor and the tree queries *as the source text says
them now*, for graphs of every size.
-/
import MenpoModel.GenProps.C14Src
import MenpoModel.Props.C14

namespace MenpoModel.GenProps.C14
open MenpoModel.C14 MenpoModel.C14.Src MenpoModel.Generated.C14

/-- PROPERTY (unbounded, about the translated source of `_has_cycles` incl. its inner recursive `dfs`, directed
reading): on any adjacency list whose entries are vertex numbers the translated detector answers `True` exactly when
some edge `v → c` lies on a closed walk. -/
theorem translated_has_cycles_directed (adjL : List (List Nat))
    (hwf : ∀ u, ∀ y ∈ Dfs.adjOf adjL u, y < adjL.length) :
    genHasCycles adjL true = true ↔ ∃ v c, c ∈ Dfs.adjOf adjL v ∧ Dfs.Walk (Dfs.adjOf adjL) c v := by
  rw [genHasCycles_eq]; exact hasCyclesL_correct_directed adjL hwf

/-- PROPERTY (unbounded, translated `_has_cycles`, undirected reading): on a symmetric adjacency list without repeated
entries the translated detector answers `True` exactly when there is a self-loop or a simple cycle. -/
theorem translated_has_cycles_undirected (adjL : List (List Nat))
    (hwf : ∀ u, ∀ y ∈ Dfs.adjOf adjL u, y < adjL.length)
    (hsym : ∀ u v, v ∈ Dfs.adjOf adjL u → u ∈ Dfs.adjOf adjL v) (hnd : ∀ u, (Dfs.adjOf adjL u).Nodup) :
    genHasCycles adjL false = true ↔
      (∃ u, u ∈ Dfs.adjOf adjL u) ∨
      ∃ C : List Nat, 3 ≤ C.length ∧ C.Nodup ∧
        ∀ i, i < C.length → C.getD ((i + 1) % C.length) 0 ∈ Dfs.adjOf adjL (C.getD i 0) := by
  rw [genHasCycles_eq]; exact hasCyclesL_correct_undirected adjL hwf hsym hnd

/-- PROPERTY (unbounded, the translated METHOD `has_cycles` = translated `get_adjacency_list` fed to the translated
`_has_cycles`): on every graph it equals the closed-walk reference (directed) and, on every symmetric graph, it holds
exactly for a self-loop or a simple cycle and equals the cyclomatic-number reference (undirected). -/
theorem translated_has_cycles_method (g : Graph) :
    (genHasCyclesM g true = g.refCycleD ∧
      (genHasCyclesM g true = true ↔ ∃ v c, v < g.n ∧ c ∈ g.children v ∧ Reach g.children c v)) ∧
    (g.Symmetric →
      (genHasCyclesM g false = true ↔
        (∃ u, u < g.n ∧ g.isEdge u u = true) ∨
        ∃ C : List Nat, 3 ≤ C.length ∧ C.Nodup ∧ (∀ v ∈ C, v < g.n) ∧
          ∀ i, i < C.length → g.isEdge (C.getD i 0) (C.getD ((i + 1) % C.length) 0) = true) ∧
      genHasCyclesM g false = g.refCycleU) := by
  refine ⟨?_, fun hs => ?_⟩
  · rw [genHasCyclesM_eq]; exact hasCycles_correct_directed g
  · rw [genHasCyclesM_eq]; exact ⟨(hasCycles_correct_undirected g hs).1, (hasCycles_correct_undirected g hs).2.1⟩

/-- PROPERTY (unbounded, translated `is_tree`): undirected — exactly the non-empty connected graphs without cycle;
directed — exactly the graphs whose underlying undirected graph is a tree. -/
theorem translated_is_tree (g : Graph) :
    (g.Symmetric → (genIsTree g false = true ↔ 0 < g.n ∧ g.Connected ∧ ¬ g.HasUndCycle)) ∧
    genIsTree g true = g.refPolytree ∧
    (genIsTree g true = true ↔ g.nComponents = 1 ∧ g.edgesD.length + 1 = g.n) := by
  refine ⟨fun hs => ?_, ?_, ?_⟩
  · rw [genIsTree_eq]; exact (isTree_undirected_spec g hs).1
  · rw [genIsTree_eq]; exact (isTree_directed_spec g).1
  · rw [genIsTree_eq]; exact (isTree_directed_spec g).2.1

/-- PROPERTY (translated `find_all_paths` / `n_paths`): with the fuel `n + 2` the translated recursion returns exactly
the simple routes from `s` to `t`. -/
theorem translated_find_all_paths (g : Graph) (s t : Nat) (p : List Nat) (hp : ∀ x ∈ p, x < g.n) :
    (p ∈ genFindAllPaths g (g.n + 2) s t [] ↔
      (p.head? = some s ∧ p.getLast? = some t ∧ g.isRoute p = true ∧ p.Nodup)) ∧
    genNPaths g s t = (genFindAllPaths g (g.n + 2) s t []).length := by
  refine ⟨?_, ?_⟩
  · rw [genFindAllPaths_eq]; exact allPaths_exactly_simple_routes g s t p hp
  · rw [genNPaths_eq, genFindAllPaths_eq]; rfl

/-- PROPERTY (translated `Tree.__init__` with checks, after the translated `DirectedGraph.__init__`): the constructor
returns exactly for the arborescences rooted at `root_vertex` on at least two vertices, and then the object state is
`(root_vertex, predecessors_list)` with the predecessors the translated `_get_predecessors_list` computes. -/
theorem translated_tree_init (g : Graph) (r : Nat) (copy : Bool) :
    ((genTreeInit g r copy false).isSome = (decide (2 ≤ g.n) && g.refArborescence r)) ∧
    (∀ st, genTreeInit g r copy false = some st → st = (r, genGetPredecessorsList g) ∧ g.treeCtor r = .ok ()) := by
  rw [genTreeInit_eq, genGetPredecessorsList_eq]
  simp only [Graph.treeInit, Bool.false_or]
  refine ⟨?_, ?_⟩
  · rw [← (treeCtor_spec g r).1]; cases g.treeCtorOk r <;> rfl
  · intro st h
    by_cases hok : g.treeCtorOk r = true
    · rw [if_pos hok] at h
      refine ⟨(Option.some.inj h).symm, ?_⟩
      simp only [Graph.treeCtorOk] at hok
      cases hc : g.treeCtor r with
      | ok u => cases u; rfl
      | error e => rw [hc] at hok; cases hok
    · rw [if_neg hok] at h; cases h

/-- PROPERTY (translated tree queries on an accepted tree): `leaves`, `is_leaf`, `parent`, `depth_of_vertex` (the
`while` loop) never raise on a vertex of the tree and are the mutually consistent relations of `tree_relations_total`. -/
theorem translated_tree_queries (g : Graph) (r : Nat) (h : g.treeCtor r = .ok ()) :
    genLeaves g = some g.leaves ∧
    (∀ v, v < g.n → genIsLeaf g v false = some (g.isLeaf v) ∧ genParent g v false = some (g.parent v) ∧
      ∃ d, genDepthOfVertex g r v false = some d ∧ d < g.n ∧ g.depth r v = some d) ∧
    (∀ v, v ∈ g.leaves ↔ v < g.n ∧ ∀ c, c < g.n → g.parent c ≠ some v) := by
  refine ⟨genLeaves_eq g, ?_, (tree_relations_total g r h).2.2.2.2.1⟩
  intro v hv
  have hcv : g.checkVertex v = true := by simpa [Graph.checkVertex] using hv
  obtain ⟨d, hd, hdn⟩ := (tree_relations_total g r h).2.1 v hv
  refine ⟨?_, ?_, d, ?_, hdn, hd⟩
  · rw [genIsLeaf_eq]; simp [Graph.isLeafApi, hcv]
  · rw [genParent_eq]
    have := predList_get g v hv
    simp [Graph.parentApi, Graph.guard, hcv, List.getD_eq_getElem?_getD, this]
  · rw [genDepthOfVertex_eq]; simp [Graph.depthApi, Graph.guard, hcv, hd]

/-- PROPERTY (translated edge-list converters and edge arrays): the graph the translated
`_convert_edges_to_adjacency_matrix` / `_convert_edges_to_symmetric_adjacency_matrix` builds reports, through the
translated `edges` properties, exactly the given edge set (each undirected edge once, symmetric adjacency). -/
theorem translated_edges_exact (isList : Bool) (n : Nat) (es : List (Nat × Nat)) (hr : edgesInRange n es = true) :
    ((genEdgesD (genConvertEdges isList es n)).Nodup ∧
      ∀ u v, (u, v) ∈ genEdgesD (genConvertEdges isList es n) ↔ (u, v) ∈ es) ∧
    ((genConvertEdgesSym isList es n).Symmetric ∧ (genEdgesU (genConvertEdgesSym isList es n)).Nodup ∧
      ∀ u v, (u, v) ∈ genEdgesU (genConvertEdgesSym isList es n) ↔ u ≤ v ∧ ((u, v) ∈ es ∨ (v, u) ∈ es)) := by
  rw [genConvertEdges_eq, genConvertEdgesSym_eq, genEdgesD_eq, genEdgesU_eq]
  exact ⟨directed_edges_exact n es hr,
    (undirected_edges_once_symmetric n es hr).1, (undirected_edges_once_symmetric n es hr).2.1,
    (undirected_edges_once_symmetric n es hr).2.2.1⟩

/-- PROPERTY (translated `from_mask` of the Point graphs): whenever a result is returned for a mask that removes
something, it is the induced subgraph on the surviving vertices (`Graph.mask`) with the surviving points. -/
theorem translated_from_mask {α : Type} (g : Graph) (pts : List α) (m : List Bool) (hp : pts.length = g.n)
    (hlen : m.length = g.n) (hall : m.all id = false) (hc : m.count true ≠ 0) :
    genFromMaskD g pts m = some (g.mask m, maskFilter pts m) ∧
    (g.symmetricB = true → genFromMaskU g pts m = some (g.mask m, maskFilter pts m)) := by
  have h := (fromMask_spec g m hlen).2.2 hall hc
  refine ⟨?_, fun hs => ?_⟩
  · rw [genFromMaskD_eq g pts m hp]; simp [fromMaskResult, h]
  · rw [genFromMaskU_eq g pts m hp hs]; simp [fromMaskResult, h]

/-- PROPERTY (unbounded, translated `PointTree.from_mask`: the `while` loop over scipy's component labels, with the
index points `0 … n-1` so that the returned points name the surviving vertices): whenever a result is returned for a
mask that removes something, it is exactly the subgraph induced by the masked-in vertices joined to the root through
masked-in vertices, renumbered in increasing order, the root at its new index, connected, and it passed the `Tree`
constructor; a mask that removes the root is refused. -/
theorem translated_tree_from_mask (g : Graph) (r : Nat) (m : List Bool) :
    (m.length = g.n → m.all id = false → m.getD r false = false → genFromMaskT g r (List.range g.n) m = none) ∧
    (∀ g' r' keep', m.all id = false → genFromMaskT g r (List.range g.n) m = some (g', r', keep') →
      keep'.Pairwise (· < ·) ∧ (∀ v, v ∈ keep' ↔ Kept g m r v) ∧ g'.n = keep'.length ∧
      (∀ i j, i < g'.n → j < g'.n → g'.w i j = g.w (keep'.getD i 0) (keep'.getD j 0)) ∧
      r' < g'.n ∧ keep'.getD r' 0 = r ∧ g'.nComponents = 1 ∧ g'.treeCtor r' = .ok ()) := by
  refine ⟨fun hl ha hr => ?_, fun g' r' keep' hall h => ?_⟩
  · rw [genFromMaskT_eq, treeFromMaskResult, (treeFromMask_root_component g r m).2.2.1 hl ha hr]
  · rw [genFromMaskT_eq, treeFromMaskResult] at h
    have hok : g.treeFromMask r m = .ok (g', r', keep') := by
      cases hx : g.treeFromMask r m with
      | ok x => rw [hx] at h; exact congrArg _ (Option.some.inj h)
      | error e => rw [hx] at h; cases h
    have S := (treeFromMask_root_component g r m).2.2.2 g' r' keep' hall hok
    exact ⟨S.1, S.2.1, S.2.2.2.1, S.2.2.2.2.1, S.2.2.2.2.2.1, S.2.2.2.2.2.2.1, S.2.2.2.2.2.2.2.2.1, S.2.2.2.2.2.2.2.2.2⟩

example : genHasCycles [[1, 4], [0, 2], [1, 3], [2, 4, 5], [0, 3], [3]] false = true ∧
    genHasCycles [[1], [0, 2], [1]] false = false ∧ genHasCycles [[1], [2], [0], [0]] true = true ∧
    genHasCycles [[1, 2], [2], [], [0]] true = false := by decide

end MenpoModel.GenProps.C14
