/-
C16 — obligations over `Generated/C16SrcFmt.lean` (ljson_exporter, pts_exporter, pts_importer, the version dispatch of
ljson_importer, normalize_pixels_range, denormalize_pixels_range — TRANSLATED from the source text of the working tree
on every run): every translated function equals its specification in `Core/C16SrcFmt.lean`, for all arguments; and
the round-trip statements of the property, for the translated writer / reader pairs.
-/
import MenpoModel.Generated.C16SrcFmt
import MenpoModel.Lemmas.C16SrcFmt
import MenpoModel.Props.C16
import MenpoModel.Props.C16PtsN
import MenpoModel.Props.C16Soft

set_option linter.unusedSimpArgs false
set_option linter.unusedVariables false

namespace MenpoModel.GenProps.C16
open MenpoModel.C16 MenpoModel.C16.PyX MenpoModel.Generated.C16

/-! ### `ljson_exporter` -/

/-- what the loop of the exporter makes of one group: `tojson()` with the points re-tupled (NaN → null) -/
def procLG (s : Shape) : LG := { tojson s with points := exportPoints s.points }

theorem dumpGroup_procLG (s : Shape) : dumpGroup (procLG s) = encodeGroup s := rfl

theorem dumpDoc_proc (gs : List (String × Shape)) :
    dumpDoc ⟨3, gs.map fun p => (p.1, procLG p.2)⟩ = encodeDoc gs := by
  unfold dumpDoc encodeDoc sortGroups
  simp only
  rw [← List.map_mergeSort (r := fun a b => decide (a.1 ≤ b.1)) (f := fun p : String × Shape => (p.1, procLG p.2))
    (fun a _ b _ => rfl)]
  simp [List.map_map, Function.comp_def, dumpGroup_procLG]

theorem foldl_procLG (items : List (String × Shape)) :
    dumpDoc ⟨3, items.foldl (fun g it => dictSet g it.1 (procLG it.2)) []⟩ = encodeDoc (dictOfList items) := by
  have := foldl_dictSet_map procLG items []
  simp only [List.map_nil] at this
  rw [this, dumpDoc_proc]
  rfl

set_option hygiene false in
/-- one pass of the translated loop is `dictSet g key (procLG shape)`: cases on the first row of the points (the
re-tupling may be written per dimension or as one transposition of strided slices) -/
macro "ljson_step" : tactic => `(tactic|
  (intro g it
   obtain ⟨key, sh⟩ := it
   simp only [Option.isSome_none, Bool.false_eq_true, ↓reduceIte, tojson, rowLen0, map_nan_filter, procLG,
     exportPoints, zipRows2_takeEvery, zipRows3_takeEvery, transpose_pair, transpose_triple]
   cases sh.points with
   | nil => simp [Except.bind]
   | cons r rs =>
     simp only [Except.bind, tryE_ok]
     by_cases h2 : r.length = 2
     · simp [h2, transpose_stride2, transpose_pair]
     · by_cases h3 : r.length = 3
       · simp [h3, transpose_stride3, transpose_triple]
       · simp [h2, h3]))

/-- `ljson_exporter` (a shape is recognised by `n_points`: probed with try/except or with hasattr) -/
theorem genLjsonExporter_eq (o : LObj) : genLjsonExporter o = ljsonExporterSpec o := by
  unfold genLjsonExporter ljsonExporterSpec
  cases o with
  | single s =>
    simp only [LObj.nPoints, LObj.hasNPoints, Except.bind, tryE_ok, LObj.wrap, LObj.items, ↓reduceIte]
    rw [forLoop_no_exit _ (fun g it => dictSet g it.1 (procLG it.2)) ?_]
    · simp only [foldl_procLG]
    · ljson_step
  | multi gs =>
    simp only [LObj.nPoints, LObj.hasNPoints, Except.bind, tryE_error, LObj.wrap, LObj.items, beq_self_eq_true,
      ↓reduceIte, Bool.false_eq_true]
    rw [forLoop_no_exit _ (fun g it => dictSet g it.1 (procLG it.2)) ?_]
    · simp only [foldl_procLG]
    · ljson_step

/-! ### `pts_exporter`, `pts_importer` -/

/-- `pts_exporter` -/
theorem genPtsExporter_eq (pts : List (List (Option Rat))) : genPtsExporter pts = ptsExporterSpec pts := by
  rw [← swapAdd1_spec]
  unfold genPtsExporter
  dsimp only
  cases swapAdd1 pts <;> simp [Except.bind]

/-- `pts_importer` -/
theorem genPtsImporter_eq (lines : List PLine) (io : Bool) : genPtsImporter lines io = ptsImporterSpec lines io := by
  unfold genPtsImporter ptsImporterSpec
  dsimp only
  simp only [List.map_id', afterOpen_eq]
  cases lines with
  | nil => simp [linesHead, Except.bind]
  | cons a t =>
    simp only [linesHead, Except.bind]
    generalize hw : PyX.whileLoop _ _ _ _ = o
    have key := ptsWhile_loop_of _ _ _ _ _ _ hw ?_ ?_ (Nat.lt_succ_self _)
    · obtain ⟨r, hr, hcase⟩ := key
      subst hr
      simp only
      rcases hcase with ⟨hr1, hw'⟩ | ⟨e, hr1, hw'⟩
      · rw [hr1, hw']
        simp only
        generalize hfl : MenpoModel.Py.forLoop _ _ _ = res
        have key2 := ptsFor_loop_of _ _ _ _ _ hfl ?_ ?_
        · rcases key2 with ⟨rows, hb, hl⟩ | ⟨e, hb, hl⟩
          · rw [hl, hb]
            cases io <;> simp [hstackCols_minus1]
          · rw [hl, hb]
        · intro v xs ys ln; simp
        · intro xs ys ln
          simp only [Option.isSome_none, Bool.false_eq_true, ↓reduceIte]
          by_cases hc : ln.isClose = true
          · simp [hc]
          · simp only [hc, Bool.not_false, Bool.false_eq_true, ↓reduceIte, Bool.not_true]
            cases ln.first2 <;> simp
      · rw [hr1, hw']
    · intro r l ls; rfl
    · intro l ls
      simp only
      cases pop0 ls <;> rfl

/-! ### `ljson_importer` -/

/-- `ljson_importer`: the parser that is called is the entry of the live table for the file's version -/
theorem genLjsonImporter_eq (table : List (Nat × String)) (doc : Json) :
    genLjsonImporter table doc = ljsonDispatchSpec table doc := by
  unfold genLjsonImporter ljsonDispatchSpec parserLookup callParser
  dsimp only
  cases hv : doc.get .version with
  | none => simp
  | some v =>
    cases v with
    | num q =>
      simp only
      by_cases hq : q.den = 1 ∧ 0 ≤ q.num
      · rw [if_pos hq, if_pos hq]
        cases table.find? (fun e => e.1 == q.num.toNat) <;> simp
      · rw [if_neg hq, if_neg hq]
        simp
    | null => simp
    | str s => simp
    | arr xs => simp
    | obj kvs => simp

/-! ### `_ljson_parse_null_values`, `_parse_ljson_v3` -/

/-- `_ljson_parse_null_values` -/
theorem genParseNull_eq (pl : List (List (Option Rat))) : genParseNull pl = parseNullSpec pl := by
  unfold genParseNull parseNullSpec
  dsimp only
  have hmap : ∀ l : List (Option Rat), List.map (fun it0 => if it0.isNone = true then none else it0) l = l := by
    intro l
    induction l with
    | nil => rfl
    | cons a t ih => cases a <;> simp_all
  rw [hmap]
  cases pl with
  | nil => simp [rowLen0, Except.bind]
  | cons r t => simp [rowLen0, Except.bind]

theorem cls_of_truthy (ls : List (String × List Bool)) :
    (if truthy ls = true then Cls.lpug else Cls.pug) = (if ls.isEmpty = true then Cls.pug else Cls.lpug) := by
  cases ls <;> rfl

set_option hygiene false in
/-- one pass of a labels loop (in the body of the parser or in an inlined helper) is `labelStep` -/
macro "label_step" : tactic => `(tactic|
  (intro dd l
   simp only [Option.isSome_none, Bool.false_eq_true, ↓reduceIte]
   unfold labelStep
   cases maskSet (List.replicate pts.length false) l.mask <;> simp [tryE]))

/-- `_parse_ljson_v3` (on a schema-valid document; the labels loop may sit in the body or in a helper function, the
empty dictionary may be created before the test or in its else branch) -/
theorem genParseV3_eq (d : JDoc) : genParseV3 d = parseV3Spec d := by
  unfold genParseV3 parseV3Spec
  dsimp only
  generalize hfl : MenpoModel.Py.forLoop _ _ _ = res
  have key := forLoop_foldX_of _ groupStep _ _ _ hfl ?_ ?_
  · revert key
    cases foldX _ _ d with
    | error e => intro key; simp only at key; rw [key]
    | ok s' => intro key; simp only at key; rw [key]
  · intro v s a; simp
  · intro s a
    obtain ⟨name, g⟩ := a
    simp only [Option.isSome_none, Bool.false_eq_true, ↓reduceIte, genParseNull_eq]
    unfold groupStep groupSpec
    -- along the decisions of the specification
    cases hp : parseNullSpec g.points with
    | error e => simp [tryE]
    | ok pts =>
      by_cases hl : g.labels.length = 0
      · cases hi : initFromEdges Cls.pug pts g.conn [] <;> simp [tryE, hl, hi]
      · have hne : (g.labels.length != 0) = true := by simpa using hl
        simp only [tryE_ok, hne, ↓reduceIte, ne_eq, hl, not_false_eq_true]
        generalize hin : MenpoModel.Py.forLoop _ _ _ = ires
        have ikey := forLoop_foldX_of _ (labelStep pts.length) _ _ _ hin ?_ ?_
        · unfold labelsSpec
          revert ikey
          cases foldX _ _ g.labels with
          | error e => intro ikey; simp only at ikey; simp [ikey, tryE]
          | ok ls =>
            intro ikey
            simp only at ikey
            subst ikey
            simp only [cls_of_truthy]
            cases hi : initFromEdges (if ls.isEmpty = true then Cls.pug else Cls.lpug) pts g.conn ls <;>
              simp [tryE, hi]
        · intro v s a; simp
        · label_step

/-- `_parse_ljson_v2` (on a schema-valid document) -/
theorem genParseV2_eq (g : JGroup) : genParseV2 g = parseV2Spec g := by
  unfold genParseV2 parseV2Spec
  simp only [genParseNull_eq]
  cases parseNullSpec g.points with
  | error e => rfl
  | ok pts =>
    simp only [Except.bind]
    by_cases hc : g.conn.isNone = true ∧ g.labels.length = 0
    · obtain ⟨h1, h2⟩ := hc
      simp [h1, h2]
    · have hb : (g.conn.isNone && (g.labels.length == 0)) = false := by
        cases h1 : g.conn.isNone <;> by_cases h2 : g.labels.length = 0 <;> simp_all
      simp only [hb, Bool.false_eq_true, ↓reduceIte, hc]
      generalize hin : MenpoModel.Py.forLoop _ _ _ = ires
      have ikey := forLoop_foldX_of _ (labelStep pts.length) _ _ _ hin ?_ ?_
      · unfold labelsSpec
        revert ikey
        cases foldX _ _ g.labels with
        | error e => intro ikey; simp only at ikey; simp [ikey, Except.bind]
        | ok ls =>
          intro ikey
          simp only at ikey
          subst ikey
          cases hi : initFromEdges Cls.lpug pts g.conn ls <;> simp [Except.bind, hi]
      · intro v s a; simp
      · label_step

/-- `_parse_ljson_v1` (on a schema-valid document) -/
theorem genParseV1_eq (d : List JV1Group) : genParseV1 d = parseV1Spec d := by
  unfold genParseV1 parseV1Spec
  dsimp only
  generalize hfl : MenpoModel.Py.forLoop _ d _ = res
  have hres : res = d.foldl v1Step ([], [], [], [], 0) := by
    rw [← hfl, MenpoModel.Py.forLoop_eq_foldl]
    congr 1
    funext st g
    obtain ⟨a, c, l, ls, o⟩ := st
    simp only [v1Step, forLoop_append, truthy_list]
    cases h : (g.conn.getD []).isEmpty <;> simp [h, Nat.add_comm]
  subst hres
  simp only [genParseNull_eq]
  cases parseNullSpec (List.foldl v1Step ([], [], [], [], 0) d).1 with
  | error e => rfl
  | ok pts =>
    simp only [Except.bind, MenpoModel.Py.forLoop_eq_foldl]
    cases initFromEdges Cls.lpug pts _ _ <;> rfl

/-! ### the pixel ranges -/

/-- `normalize_pixels_range` -/
theorem genNormalizePixels_eq (p : PixArr) (err : Bool) : genNormalizePixels p err = normalizeSpec p err := by
  unfold genNormalizePixels normalizeSpec
  obtain ⟨d, vals⟩ := p
  cases d <;> cases err <;> simp

/-- `denormalize_pixels_range` -/
theorem genDenormalizePixels_eq (p : PixArr) (out : DType) : genDenormalizePixels p out = denormalizeSpec p out := by
  unfold genDenormalizePixels denormalizeSpec
  obtain ⟨d, vals⟩ := p
  cases d <;> cases out <;> simp [DType.isFloating] <;> (try (split <;> simp_all)) <;> (try (split <;> simp_all))

/-! ## the round trips of the property, for the TRANSLATED writer / reader pairs -/

theorem dictOfList_nodup {β : Type} (l : List (String × β)) (h : (l.map Prod.fst).Nodup) : dictOfList l = l := by
  have key : ∀ (l d : List (String × β)), ((d ++ l).map Prod.fst).Nodup →
      l.foldl (fun d p => dictSet d p.1 p.2) d = d ++ l := by
    intro l
    induction l with
    | nil => intro d _; simp
    | cons a t ih =>
      intro d hd
      simp only [List.foldl_cons]
      have hnot : d.any (fun p => p.1 == a.1) = false := by
        rw [List.any_eq_false]
        intro p hp hpa
        simp only [beq_iff_eq] at hpa
        simp only [List.map_append, List.map_cons] at hd
        have := (List.nodup_append.1 hd).2.2 p.1 (List.mem_map_of_mem hp) a.1 (by simp)
        exact this hpa
      have hset : dictSet d a.1 a.2 = d ++ [a] := by
        unfold dictSet
        simp [hnot]
      rw [hset, ih (d ++ [a]) (by simpa using hd)]
      simp
  unfold dictOfList
  simpa using key l [] (by simpa using h)

/-- PROPERTY (LJSON, translated exporter).  The document the TRANSLATED `ljson_exporter` writes for a dictionary of
well-formed groups is read back by the importer model with identical coordinates (missing values included), the
symmetrised edge set, the labels in their order and every group name. -/
theorem ljson_roundtrip_translated (gs : List (String × Shape)) (hk : (gs.map Prod.fst).Nodup) (h : ∀ g ∈ gs, g.2.WF) :
    ∃ j, genLjsonExporter (.multi gs) = .ok j ∧
      decodeDoc j = .ok ((sortGroups gs).map fun g => (g.1, expectedImport g.2)) := by
  refine ⟨encodeDoc gs, ?_, ljson_roundtrip gs h⟩
  rw [genLjsonExporter_eq]
  simp [ljsonExporterSpec, LObj.wrap, LObj.items, dictOfList_nodup gs hk]

/-- a single shape is written as the one group `LJSON` -/
theorem ljson_roundtrip_single_translated (s : Shape) (h : s.WF) :
    ∃ j, genLjsonExporter (.single s) = .ok j ∧ decodeDoc j = .ok [("LJSON", expectedImport s)] := by
  refine ⟨encodeDoc [("LJSON", s)], ?_, ?_⟩
  · rw [genLjsonExporter_eq]
    simp [ljsonExporterSpec, LObj.wrap, LObj.items, dictOfList, dictSet]
  · have := ljson_roundtrip [("LJSON", s)] (by simpa using h)
    simpa [sortGroups] using this

/-- the version the translated exporter writes is dispatched, by the translated `ljson_importer` and the LIVE table, to
the version-3 parser -/
theorem ljson_dispatch_translated (gs : List (String × Shape)) :
    genLjsonImporter parserTable (encodeDoc gs) = .ok "_parse_ljson_v3" := by
  rw [genLjsonImporter_eq]
  simp only [ljsonDispatchSpec, encodeDoc, get_version, jNat]
  decide

/-! ### LJSON: translated writer, translated version-3 reader -/

/-- the invariants of a real landmark group beyond `Shape.WF`: label names are the keys of a dictionary, and a labelled
graph labels every point (the constructor of LabelledPointUndirectedGraph insists on it) -/
def LabelsOK (s : Shape) : Prop :=
  (s.labels.map Prod.fst).Nodup ∧ (s.labels = [] ∨ allLabelled s.points.length s.labels = true)

theorem encodeGroup_eq_groupJson (s : Shape) : encodeGroup s = groupJson (exportedGroup s) := by
  obtain ⟨pts, conn, labels⟩ := s
  cases conn <;> simp [encodeGroup, groupJson, exportedGroup, encodeLabel, List.map_map, Function.comp_def]

/-- what the exporter writes is a schema-valid version-3 document: the JSON tree of a typed document -/
theorem encodeDoc_eq_docJson (gs : List (String × Shape)) :
    encodeDoc gs = docJson ((sortGroups gs).map fun g => (g.1, exportedGroup g.2)) := by
  unfold encodeDoc docJson
  simp [List.map_map, Function.comp_def, encodeGroup_eq_groupJson]

theorem parseNull_exported (s : Shape) (h : s.WF) : parseNullSpec (exportPoints s.points) = .ok s.points := by
  obtain ⟨hne, ⟨d, hd, hrows⟩, _, _⟩ := h
  have hdpos : 0 < d := by rcases hd with h | h <;> omega
  rw [exportPoints_id s.points hne d hd hrows]
  generalize s.points = pts at hne hrows
  cases pts with
  | nil => exact absurd rfl hne
  | cons r t =>
    have hr : r.length = d := hrows r (by simp)
    have hlen := length_flatten_uniform d (r :: t) hrows
    unfold parseNullSpec reshapeN
    simp only [hr]
    have h1 : ¬(d = 0 ∨ (r :: t).flatten.length % d ≠ 0) := by
      rw [hlen]
      simp only [not_or, ne_eq, Decidable.not_not]
      exact ⟨by omega, Nat.mul_mod_right _ _⟩
    rw [if_neg h1, chunksOf_flatten d hdpos (r :: t) hrows]
    rw [hlen]
    have : (r :: t).length ≤ d * (r :: t).length := Nat.le_mul_of_pos_left _ hdpos
    omega

theorem foldX_labels (n : Nat) (ls : List (String × List Bool)) (hl : ∀ l ∈ ls, l.2.length = n) :
    ∀ acc : List (String × List Bool), ((acc ++ ls).map Prod.fst).Nodup →
      foldX (labelStep n) acc (ls.map fun l => ⟨l.1, indicesOf l.2⟩) = .ok (acc ++ ls) := by
  induction ls with
  | nil => intro acc _; simp [foldX]
  | cons a t ih =>
    intro acc hnd
    simp only [List.map_cons, foldX, labelStep]
    have hm : maskSet (List.replicate n false) (indicesOf a.2) = .ok a.2 := by
      rw [maskSet_replicate]
      have hla := hl a (by simp)
      rw [← hla, indicesOf_lt, maskOf_indicesOf]
      rfl
    rw [hm]
    simp only
    have hnot : acc.any (fun p => p.1 == a.1) = false := by
      rw [List.any_eq_false]
      intro p hp hpa
      simp only [beq_iff_eq] at hpa
      simp only [List.map_append, List.map_cons] at hnd
      exact (List.nodup_append.1 hnd).2.2 p.1 (List.mem_map_of_mem hp) a.1 (by simp) hpa
    have hins : odInsert acc a.1 a.2 = acc ++ [a] := by
      unfold odInsert
      simp [hnot]
    rw [hins, ih (fun l hl' => hl l (by simp [hl'])) (acc ++ [a]) (by simpa using hnd)]
    simp

theorem groupSpec_exported (s : Shape) (h : s.WF) (hl : LabelsOK s) : groupSpec (exportedGroup s) = .ok (expectedImport s) := by
  have hpts := parseNull_exported s h
  obtain ⟨hne, _, hconn, hlab⟩ := h
  obtain ⟨hnd, hall⟩ := hl
  unfold groupSpec exportedGroup
  simp only [hpts]
  have hlabels : (if (s.labels.map fun l => (⟨l.1, indicesOf l.2⟩ : JLabel)).length ≠ 0 then
      labelsSpec s.points.length (s.labels.map fun l => ⟨l.1, indicesOf l.2⟩) else .ok []) = .ok s.labels := by
    cases hs : s.labels with
    | nil => simp
    | cons a t =>
      simp only [List.map_cons, List.length_cons, ne_eq, Nat.add_one_ne_zero, not_false_eq_true, ↓reduceIte]
      have := foldX_labels s.points.length (a :: t) (by rw [← hs]; exact hlab) [] (by rw [← hs]; simpa using hnd)
      simpa [labelsSpec] using this
  rw [hlabels]
  simp only
  unfold initFromEdges expectedImport
  have hrange : (List.all (s.conn.getD []) fun e => decide (e.1 < s.points.length) && decide (e.2 < s.points.length)) = true := by
    simp only [List.all_eq_true, Bool.and_eq_true, decide_eq_true_eq]
    exact hconn
  simp only [hrange, Bool.not_true, Bool.false_eq_true, ↓reduceIte]
  cases hs : s.labels with
  | nil => simp
  | cons a t =>
    rcases hall with hall | hall
    · rw [hs] at hall; simp at hall
    · rw [hs] at hall; simp [hall]

theorem foldX_groups (gs : List (String × Shape)) (h : ∀ g ∈ gs, g.2.WF ∧ LabelsOK g.2) :
    ∀ acc : List (String × Imported), ((acc.map Prod.fst) ++ (gs.map Prod.fst)).Nodup →
      foldX groupStep acc (gs.map fun g => (g.1, exportedGroup g.2)) =
      .ok (acc ++ gs.map fun g => (g.1, expectedImport g.2)) := by
  induction gs with
  | nil => intro acc _; simp [foldX]
  | cons a t ih =>
    intro acc hnd
    simp only [List.map_cons, foldX, groupStep]
    rw [groupSpec_exported a.2 (h a (by simp)).1 (h a (by simp)).2]
    simp only
    have hnot : acc.any (fun p => p.1 == a.1) = false := by
      rw [List.any_eq_false]
      intro p hp hpa
      simp only [beq_iff_eq] at hpa
      simp only [List.map_cons] at hnd
      exact (List.nodup_append.1 hnd).2.2 p.1 (List.mem_map_of_mem hp) a.1 (by simp) hpa
    have hset : dictSet acc a.1 (expectedImport a.2) = acc ++ [(a.1, expectedImport a.2)] := by
      unfold dictSet
      simp [hnot]
    rw [hset, ih (fun g hg => h g (by simp [hg])) _ (by simpa using hnd)]
    simp

/-- PROPERTY (LJSON, translated writer AND translated reader).  For every dictionary of landmark groups (distinct
names; each group well formed, label names distinct, a labelled graph labelling every point): the document the
TRANSLATED `ljson_exporter` writes is a schema-valid version-3 document, the TRANSLATED `ljson_importer` dispatches it
to `_parse_ljson_v3`, and the TRANSLATED `_parse_ljson_v3` returns every group under its name with identical
coordinates (missing values included), the symmetrised edge set and the same labels in the same order. -/
theorem ljson_v3_roundtrip_translated (gs : List (String × Shape)) (hk : (gs.map Prod.fst).Nodup)
    (h : ∀ g ∈ gs, g.2.WF ∧ LabelsOK g.2) :
    ∃ d : JDoc, genLjsonExporter (.multi gs) = .ok (docJson d) ∧
      genLjsonImporter parserTable (docJson d) = .ok "_parse_ljson_v3" ∧
      genParseV3 d = .ok ((sortGroups gs).map fun g => (g.1, expectedImport g.2)) := by
  refine ⟨(sortGroups gs).map fun g => (g.1, exportedGroup g.2), ?_, ?_, ?_⟩
  · rw [genLjsonExporter_eq, ← encodeDoc_eq_docJson]
    simp [ljsonExporterSpec, LObj.wrap, LObj.items, dictOfList_nodup gs hk]
  · rw [← encodeDoc_eq_docJson]; exact ljson_dispatch_translated gs
  · rw [genParseV3_eq]
    unfold parseV3Spec
    have hperm := sortGroups_perm gs
    have := foldX_groups (sortGroups gs) (fun g hg => h g (hperm.mem_iff.1 hg)) []
      (by simpa using (hperm.map Prod.fst).nodup_iff.2 hk)
    simpa using this

theorem allSome_map_map {α β γ : Type} (f : α → Option β) (g : β → γ) (l : List α) :
    allSome (l.map fun a => (f a).map g) = (allSome (l.map f)).map (List.map g) := by
  induction l with
  | nil => rfl
  | cons a t ih =>
    simp only [List.map_cons]
    cases hf : f a with
    | none => simp [allSome]
    | some b =>
      simp only [Option.map_some, allSome, ih]
      cases allSome (List.map f t) <;> simp

theorem bodyRows_rows (rows : List (Option Rat × Option Rat)) :
    bodyRows (rows.map (fun r => PLine.row [r.1, r.2]) ++ [PLine.close]) = .ok rows := by
  induction rows with
  | nil => simp [bodyRows, PLine.isClose]
  | cons a t ih =>
    simp only [List.map_cons, List.cons_append, bodyRows, PLine.isClose, Bool.false_eq_true, ↓reduceIte,
      PLine.first2, ih]

/-- PROPERTY (points format, translated writer and reader, FILE level).  Whatever lines the translated `pts_exporter`
writes for a shape with at least two axes, the translated `pts_importer` reads back: header skipped, one point per
line, axes swapped back, 1-based offset undone — exactly the row-level round trip `ptsRoundTripN` (whose distance from
the original is bounded by `ptsN_roundtrip`: three decimals, NaN preserved). -/
theorem pts_file_roundtrip_translated (pts : List (List (Option Rat))) (h : ∀ r ∈ pts, 2 ≤ r.length) :
    ∃ lines back, genPtsExporter pts = .ok lines ∧ genPtsImporter lines true = .ok back ∧
      ptsRoundTripN pts = some back := by
  obtain ⟨back, hback, _⟩ := ptsN_roundtrip pts h
  have hrt : ptsRoundTripN pts = (allSome (pts.map ptsExportRow)).map (List.map ptsImportRow) := by
    unfold ptsRoundTripN ptsRoundTripRow
    exact allSome_map_map ptsExportRow ptsImportRow pts
  cases hrows : allSome (pts.map ptsExportRow) with
  | none => rw [hrt, hrows] at hback; simp at hback
  | some rows =>
    rw [hrt, hrows] at hback
    simp only [Option.map_some, Option.some.injEq] at hback
    refine ⟨[PLine.other, .other, .open_] ++ rows.map (fun r => PLine.row [r.1, r.2]) ++ [.close], back, ?_, ?_, ?_⟩
    · rw [genPtsExporter_eq]; simp [ptsExporterSpec, hrows]
    · rw [genPtsImporter_eq]
      unfold ptsImporterSpec
      have ha : afterOpen ([PLine.other, .other, .open_] ++ rows.map (fun r => PLine.row [r.1, r.2]) ++ [.close]) =
          .ok (rows.map (fun r => PLine.row [r.1, r.2]) ++ [.close]) := by
        simp [afterOpen, afterOpen.dropToOpen, PLine.isOpen]
      rw [ha]
      simp only [bodyRows_rows, ↓reduceIte, ← hback]
      congr 1
      unfold hstackMinus1 ptsImportRow
      induction rows with
      | nil => rfl
      | cons a t ih => simp_all
    · rw [hrt, hrows, ← hback]; rfl

/-! ### eight-bit data through the translated range conversions -/

theorem normQ_nonneg (N k : Nat) : 0 ≤ normQ N k := by
  unfold normQ
  have h0 : (0 : Rat) ≤ (k : Rat) * rn53 (1 / (N : Rat)) := by
    apply mul_nonneg (by positivity)
    have := rn53_err (1 / (N : Rat))
    have hN : (0 : Rat) ≤ 1 / (N : Rat) := by positivity
    rw [abs_of_nonneg hN] at this
    have := (abs_le.1 this).1
    have h53 : (1 / (N : Rat)) / 2 ^ 53 ≤ 1 / (N : Rat) := by
      apply div_le_self hN
      norm_num
    linarith
  have := rn53_err ((k : Rat) * rn53 (1 / (N : Rat)))
  rw [abs_of_nonneg h0] at this
  have := (abs_le.1 this).1
  have h53 : ((k : Rat) * rn53 (1 / (N : Rat))) / 2 ^ 53 ≤ (k : Rat) * rn53 (1 / (N : Rat)) := by
    apply div_le_self h0
    norm_num
  linarith

theorem foldl_min_ge (l : List Rat) : ∀ a : Rat, 0 ≤ a → (∀ x ∈ l, 0 ≤ x) →
    0 ≤ l.foldl (fun a b => if b < a then b else a) a := by
  induction l with
  | nil => intro a ha _; exact ha
  | cons b t ih =>
    intro a ha hl
    simp only [List.foldl_cons]
    apply ih
    · split
      · exact hl b (by simp)
      · exact ha
    · intro x hx; exact hl x (by simp [hx])

theorem foldl_max_le (l : List Rat) : ∀ a : Rat, a ≤ 1 → (∀ x ∈ l, x ≤ 1) →
    l.foldl (fun a b => if a < b then b else a) a ≤ 1 := by
  induction l with
  | nil => intro a ha _; exact ha
  | cons b t ih =>
    intro a ha hl
    simp only [List.foldl_cons]
    apply ih
    · split
      · exact hl b (by simp)
      · exact ha
    · intro x hx; exact hl x (by simp [hx])

/-- PROPERTY (integer image data, translated `normalize_pixels_range` → `denormalize_pixels_range`).  An array of
levels `0 … N` of the integer type (uint8: N = 255, uint16: N = 65535) comes back unchanged — provided the normalised
values pass the `[0, 1]` range check of `denormalize_pixels_range` (they do: `normQ_255_le_one` for every eight-bit
level; the lower bound is proved in general). -/
theorem pixels_roundtrip_translated (N : Nat) (d : DType)
    (hd : (d = .uint8 ∧ N = 255) ∨ (d = .uint16 ∧ N = 65535)) (ks : List Nat) (hk : ∀ k ∈ ks, k ≤ N)
    (hrange : ∀ k ∈ ks, normQ N k ≤ 1) :
    ∃ q, genNormalizePixels ⟨d, ks.map fun (k : Nat) => (k : Rat)⟩ true = .ok q ∧
      genDenormalizePixels q d = .ok ⟨d, ks.map fun (k : Nat) => (k : Rat)⟩ := by
  have hN : 0 < N ∧ N ≤ 2 ^ 48 := by rcases hd with ⟨_, rfl⟩ | ⟨_, rfl⟩ <;> norm_num
  refine ⟨⟨.float64, ks.map fun (k : Nat) => normQ N k⟩, ?_, ?_⟩
  · rw [genNormalizePixels_eq]
    rcases hd with ⟨rfl, rfl⟩ | ⟨rfl, rfl⟩ <;>
      simp [normalizeSpec, PixArr.scaleRecip, normQ, List.map_map, Function.comp_def]
  · rw [genDenormalizePixels_eq]
    have hmin : ¬ (PixArr.min ⟨.float64, ks.map fun (k : Nat) => normQ N k⟩ < 0) := by
      rw [not_lt]
      unfold PixArr.min
      apply foldl_min_ge
      · cases ks with
        | nil => simp
        | cons a t => simpa using normQ_nonneg N a
      · intro x hx
        simp only [List.mem_map] at hx
        obtain ⟨k, _, rfl⟩ := hx
        exact normQ_nonneg N k
    have hmax : ¬ (1 < PixArr.max ⟨.float64, ks.map fun (k : Nat) => normQ N k⟩) := by
      rw [not_lt]
      unfold PixArr.max
      apply foldl_max_le
      · cases ks with
        | nil => simp
        | cons a t => simpa using hrange a (by simp)
      · intro x hx
        simp only [List.mem_map] at hx
        obtain ⟨k, hk', rfl⟩ := hx
        exact hrange k hk'
    have hround : ∀ k ∈ ks, ((roundHalfEven (rn53 (normQ N k * (N : Rat))) : Int) : Rat) = (k : Rat) := by
      intro k hk'
      have := range_roundtrip_round N k hN.1 hN.2 (hk k hk')
      unfold denormRoundQ at this
      rw [this]
      norm_cast
    rcases hd with ⟨rfl, rfl⟩ | ⟨rfl, rfl⟩ <;>
      simp [denormalizeSpec, DType.isFloating, hmin, hmax, PixArr.roundScale] <;>
      (intro a ha; simpa using hround a ha)

/-- every eight-bit level, normalised, passes the range check (kernel evaluation of the exact 53-bit model) -/
theorem normQ_255_le_one : ∀ k : Fin 256, normQ 255 k.val ≤ 1 := by decide +kernel

/-- PROPERTY (eight-bit image data): the translated pair returns every array of eight-bit values unchanged -/
theorem u8_roundtrip_translated (ks : List Nat) (hk : ∀ k ∈ ks, k ≤ 255) :
    ∃ q, genNormalizePixels ⟨.uint8, ks.map fun (k : Nat) => (k : Rat)⟩ true = .ok q ∧
      genDenormalizePixels q .uint8 = .ok ⟨.uint8, ks.map fun (k : Nat) => (k : Rat)⟩ :=
  pixels_roundtrip_translated 255 .uint8 (Or.inl ⟨rfl, rfl⟩) ks hk
    (fun k hk' => normQ_255_le_one ⟨k, by have := hk k hk'; omega⟩)

end MenpoModel.GenProps.C16
