/-
C04 — obligations over the tables regenerated from the live classes (`Generated/C04Tables.lean`, rewritten by
`harness/extract_c04.py` on every run).

  dispatch_ok        which class supplies `pseudoinverse`, `_h_matrix_pseudoinverse`, `has_true_inverse` for each of the 12
                     family classes and the 3 warps, and what `has_true_inverse` answers, is the table the model's
                     `pinvH` is assembled from (`implOf`)
  family_ok          menpo.transform defines no Homogeneous subclass the model does not know
  invertible_ok      … and no class mixing in `Invertible` that the model has no theorems for
  pinvWrites_ok      `pseudoinverse()` (and `has_true_inverse`, `pseudoinverse_vector`) writes NO instance attribute on any
                     class: there is no memo that a later mutation could leave stale
  no_writes_live     hence the frame condition of the operation-sequence theorems holds for every class
and the operation-sequence theorems instantiated with the measured table (`…_live`).
-/
import MenpoModel.Props.C04
import MenpoModel.Generated.C04Tables

namespace MenpoModel.GenProps.C04
open MenpoModel.C04

theorem dispatch_ok : MenpoModel.Generated.C04.dispatch = expectedDispatch := by decide

theorem family_ok : ∀ c ∈ MenpoModel.Generated.C04.familyClasses, c ∈ Cls.all.map Cls.name := by decide

/-- every class that mixes in `Invertible` is one the model has theorems for (the 12 family classes, the two piecewise
affine classes and their abstract base, the spline) or one of the two abstract mix-ins -/
theorem invertible_ok : ∀ c ∈ MenpoModel.Generated.C04.invertibleClasses,
    c ∈ classNames ++ ["AbstractPWA", "Invertible", "VInvertible"] := by decide

theorem pinvWrites_ok : MenpoModel.Generated.C04.pinvWrites = expectedPinvWrites := by decide

theorem no_writes_live : ∀ c ∈ classNames, writesOf MenpoModel.Generated.C04.pinvWrites c = false := by decide

theorem cls_no_writes (c : Cls) : writesOf MenpoModel.Generated.C04.pinvWrites c.name = false := by
  cases c <;> decide

/-- the operation-sequence theorem of the homogeneous family for `pseudoinverse()` as the live classes have it: the
write behaviour is read off the measured table -/
theorem hom_ops_pinv_sound_live {d : ℕ} {α : Type} (hd : 0 < d) (t : HT d α) (ops : List (Option (Op d α)))
    (ht : Good t) (hops : ∀ op, some op ∈ ops → OpOK t.cls op) :
    List.Forall₂ (fun s a => s.cls = t.cls ∧ InvertsNow s a) (statesAtQueries HT.act t ops)
      (Live.run (writesOf MenpoModel.Generated.C04.pinvWrites t.cls.name) pinv HT.act (Live.fresh t) ops) := by
  rw [cls_no_writes]
  exact hom_ops_pinv_sound hd t ops ht hops

theorem tps_ops_pinv_sound_live {n : ℕ} (φ : ℚ → ℚ) (t : TPS n) (ops : List (Option (Fin n → P2))) :
    List.Forall₂ (fun (s : TPS n) (a : TPS n) => s.src = t.src ∧ a = TPS.fit s.tgt s.src ∧ a.src = s.tgt ∧
        a.tgt = s.src ∧ ∀ (i : Fin n) (z : P2), a.apply φ (s.tgt i) = some z → z = s.src i)
      (statesAtQueries TPS.setTarget t ops)
      (Live.run (writesOf MenpoModel.Generated.C04.pinvWrites "ThinPlateSplines") TPS.pinvFixed TPS.setTarget
        (Live.fresh t) ops) := by
  rw [no_writes_live _ (by decide)]
  exact tps_ops_pinv_sound φ t ops

theorem pwa_ops_pinv_sound_live (m : PWAMesh) (ops : List (Option (List P2))) (c : String)
    (hc : c = "PythonPWA" ∨ c = "CachedPWA") :
    List.Forall₂ (fun (s : PWAMesh) (a : PWAMesh) => s.src = m.src ∧ s.tris = m.tris ∧
        a.src = s.tgt ∧ a.tgt = s.src ∧ a.tris = m.tris ∧ a.toPWA = s.toPWA.pinv ∧
        (NonDegenerate s.toPWA → TargetConsistent s.toPWA →
          ∀ x y, s.toPWA.apply x = some y → a.toPWA.apply y = some x))
      (statesAtQueries PWAMesh.setTarget m ops)
      (Live.run (writesOf MenpoModel.Generated.C04.pinvWrites c) PWAMesh.pinv PWAMesh.setTarget (Live.fresh m) ops) := by
  rw [no_writes_live c (by rcases hc with rfl | rfl <;> decide)]
  exact pwa_ops_pinv_sound m ops

end MenpoModel.GenProps.C04
