/-
C07 — obligations over the TRANSLATED generalized-Procrustes source (`Generated/C07Src.lean`, harness/trans_c07.py):

  genMeanPointcloud              = `meanL` (sum over the list divided by its length)
  genMultipleAlignmentInit       the `ValueError` guard (fewer than two sources and no target), the mean of the sources as
                                 default target, the given target otherwise
  genGpaRecursiveProcrustes      = `gpaStepExt`: the iteration bound, the mean of the ALIGNED sources rescaled about its
                                 centre to the initial size, the `1e-6` test, `set_target` on EVERY member, the new target
  genGpaInit                     = `gpaInitExt`: one rotation-fitting similarity alignment per source with the mirroring asked
                                 for, `n_iterations = 1`, `max_iterations = 100`, the reset of `.target` when one was given

and, proved for these definitions directly (induction over the unrolled recursion): on EVERY exit path every member is the
similarity alignment of its source to one common final target (`gpa_ext_inv`, `src_gpa_transforms_are_alignments`), hence
reproduces that target's centroid (`src_gpa_reproduces_centroid`).
-/
import MenpoModel.GenProps.C07Src

set_option linter.unusedSimpArgs false
set_option linter.unusedVariables false

namespace MenpoModel.GenProps.C07Src
open MenpoModel.C07 MenpoModel.Generated.C07

theorem genMeanPointcloud_eq {n d : ℕ} (l : List (Mat n d)) : genMeanPointcloud l = meanL l := by
  simp [genMeanPointcloud, meanL, np_div_nat]

/-! ### `MultipleAlignment.__init__` -/

theorem genMultipleAlignmentInit_eq {n d : ℕ} (self : GObj n d) (sources : List (Mat n d)) (target : Option (Mat n d)) :
    genMultipleAlignmentInit self sources target =
      if sources.length < 2 ∧ target.isNone then none
      else if target.isSome ∧ d = 0 then none
      else some { self with nSources := sources.length, sources := sources
                            target := target.getD (sumDivL sources sources.length) } := by
  cases target with
  | none => by_cases h : sources.length < 2 <;> simp [genMultipleAlignmentInit, h, AsPts.get, np_div_nat]
  | some t =>
    by_cases hd : d = 0 <;> simp [genMultipleAlignmentInit, hd, AsPts.get, np_div_nat]

/-! ### `_recursive_procrustes` -/

theorem gpaNewTargetExt_def {n d : ℕ} (ext : Ext) (g : GObj n d) :
    gpaNewTargetExt ext g =
      applyH (scaleAboutCentreH (meanL (g.transforms.map fun t => applyH t.h t.source))
        (g.initialTargetScale / normExt ext (meanL (g.transforms.map fun t => applyH t.h t.source))))
        (meanL (g.transforms.map fun t => applyH t.h t.source)) := rfl

theorem genGpaRecursiveProcrustes_eq {n d : ℕ} (ext : Ext) (rec : GObj n d → Bool × GObj n d) (g : GObj n d) :
    genGpaRecursiveProcrustes ext rec g = gpaStepExt ext rec g := by
  unfold gpaStepExt
  simp only [genGpaRecursiveProcrustes, genMeanPointcloud_eq, genAlignedSource_eq, genPointCloudNorm_eq, genSetTarget_eq,
    retarget, genSimilaritySync_eq, AsPts.get, id, HObj.ops, List.append_eq, List.nil_append, List.map_map,
    Function.comp_def, np_sub_mat]
  simp only [← gpaNewTargetExt_def]
  -- both sides now speak about the same two tests: split on them, whatever their order / polarity in the source
  by_cases h1 : g.nIterations > g.maxIterations <;>
    by_cases h2 : ext.frob (msub g.target (gpaNewTargetExt ext g)) < 1 / 1000000 <;>
    simp only [h1, h2, decide_true, decide_false, Bool.not_true, Bool.not_false, if_true, if_false, Bool.false_eq_true,
      not_true_eq_false, not_false_eq_true]

/-- the recursion unrolled `fuel` times -/
def genGpaRec {n d : ℕ} (ext : Ext) : ℕ → GObj n d → Bool × GObj n d
  | 0, g => (false, g)
  | fuel + 1, g => genGpaRecursiveProcrustes ext (genGpaRec ext fuel) g

theorem genGpaRec_eq {n d : ℕ} (ext : Ext) (fuel : ℕ) : (genGpaRec ext fuel : GObj n d → _) = gpaRecExt ext fuel := by
  induction fuel with
  | zero => rfl
  | succ f ih => funext g; simp only [genGpaRec, gpaRecExt, genGpaRecursiveProcrustes_eq, ih]

/-! ### `GeneralizedProcrustesAnalysis.__init__` -/

theorem genGpaInit_eq {n d : ℕ} (ext : Ext) (fuel : ℕ) (sources : List (Mat n d)) (target : Option (Mat n d)) (m : Bool) :
    genGpaInit ext (genGpaRec ext fuel) GObj.blank sources target m = gpaInitExt ext fuel sources target m := by
  simp only [genGpaInit, genMultipleAlignmentInit_eq, gpaInitExt, gpaStart, genGpaRec_eq, genSimilarityInit_eq,
    genPointCloudNorm_eq, AsPts.get, id, simObj, GObj.blank, HObj.blank, List.append_eq, List.nil_append]
  by_cases h1 : sources.length < 2 ∧ target.isNone
  · simp [h1]
  · by_cases h2 : target.isSome ∧ d = 0
    · simp [h1, h2]
    · simp only [h1, h2, if_false, Option.bind_some]
      cases target <;> simp

/-! ### the alignment invariant, for the translated iteration -/

/-- every member is the similarity alignment of its source to the object's current target -/
def GInv {n d : ℕ} (ext : Ext) (m : Bool) (g : GObj n d) : Prop :=
  g.transforms = g.sources.map fun S => simObj ext m S g.target

theorem gpaStep_inv {n d : ℕ} (ext : Ext) (m : Bool) (rec : GObj n d → Bool × GObj n d)
    (hrec : ∀ g, GInv ext m g → GInv ext m (rec g).2 ∧ (rec g).2.sources = g.sources) (g : GObj n d) (h : GInv ext m g) :
    GInv ext m (gpaStepExt ext rec g).2 ∧ (gpaStepExt ext rec g).2.sources = g.sources := by
  unfold gpaStepExt
  split
  · exact ⟨h, rfl⟩
  · split
    · exact ⟨h, rfl⟩
    · refine hrec _ ?_
      simp only [GInv] at h ⊢
      rw [h]
      simp [List.map_map, Function.comp_def, simObj]

theorem gpa_ext_inv {n d : ℕ} (ext : Ext) (m : Bool) (fuel : ℕ) (g : GObj n d) (h : GInv ext m g) :
    GInv ext m (gpaRecExt ext fuel g).2 ∧ (gpaRecExt ext fuel g).2.sources = g.sources := by
  induction fuel generalizing g with
  | zero => exact ⟨h, rfl⟩
  | succ f ih => exact gpaStep_inv ext m _ (fun g' h' => ih g' h') g h

/-- **on every exit path of the translated constructor, every member is the similarity alignment (rotation fitted,
mirroring as asked) of its source to ONE common final target** — the object's own target when none was given -/
theorem src_gpa_transforms_are_alignments {n d : ℕ} (ext : Ext) (fuel : ℕ) (sources : List (Mat n d))
    (target : Option (Mat n d)) (m : Bool) (g : GObj n d)
    (h : genGpaInit ext (genGpaRec ext fuel) GObj.blank sources target m = some g) :
    ∃ Tf : Mat n d, g.transforms = sources.map (fun S => simObj ext m S Tf) ∧ (target = none → g.target = Tf) := by
  rw [genGpaInit_eq] at h
  unfold gpaInitExt at h
  split at h
  · exact absurd h (by simp)
  · split at h
    · exact absurd h (by simp)
    · simp only [Option.some.injEq] at h
      subst h
      have hinv := gpa_ext_inv ext m fuel (gpaStart ext sources target m) rfl
      refine ⟨(gpaRecExt ext fuel (gpaStart ext sources target m)).2.target, ?_, ?_⟩
      · have h1 := hinv.1
        simp only [GInv, hinv.2] at h1
        exact h1
      · intro ht; subst ht; simp

/-- the `ValueError`: no object exactly when fewer than two sources come without a target (points of positive dimension) -/
theorem src_gpa_none_iff {n d : ℕ} (hd : d ≠ 0) (ext : Ext) (fuel : ℕ) (sources : List (Mat n d))
    (target : Option (Mat n d)) (m : Bool) :
    genGpaInit ext (genGpaRec ext fuel) GObj.blank sources target m = none ↔ sources.length < 2 ∧ target = none := by
  rw [genGpaInit_eq]
  unfold gpaInitExt
  cases target <;> simp [hd]

/-- **every member reproduces the centroid of the common final target** -/
theorem src_gpa_reproduces_centroid {n d : ℕ} (hn : n ≠ 0) (ext : Ext) (fuel : ℕ) (sources : List (Mat n d))
    (target : Option (Mat n d)) (m : Bool) (g : GObj n d)
    (h : genGpaInit ext (genGpaRec ext fuel) GObj.blank sources target m = some g) :
    ∃ Tf : Mat n d, ∀ t ∈ g.transforms, t.target = Tf ∧ centroid (genAlignedSource HObj.ops t) = centroid Tf := by
  obtain ⟨Tf, ht, _⟩ := src_gpa_transforms_are_alignments ext fuel sources target m g h
  refine ⟨Tf, fun t htm => ?_⟩
  rw [ht] at htm
  obtain ⟨S, _, rfl⟩ := List.mem_map.1 htm
  refine ⟨rfl, ?_⟩
  simp only [genAlignedSource_eq, HObj.ops, simObj, simFitExt]
  exact similarity_reproduces_centroid hn true _ _ _ S Tf

end MenpoModel.GenProps.C07Src
