/-
C16 — obligations over `Generated/C16SrcPure.lean` (the functions of menpo's io plumbing that only compute, TRANSLATED
from the source text of the working tree on every run): every translated function equals its specification in
`Core/C16Src.lean`, for all arguments.  The proofs unfold the translation, split on its conditionals and use loop
invariants for the two `while` loops; they do not depend on the names of temporaries or on the order of independent
statements.
-/
import MenpoModel.Generated.C16SrcPure
import MenpoModel.Lemmas.C16Src

set_option linter.unusedSimpArgs false
set_option linter.unusedVariables false

namespace MenpoModel.GenProps.C16
open MenpoModel.C16 MenpoModel.C16.PyX MenpoModel.Generated.C16

/-- `_normalize_extension` -/
theorem genNormalizeExtension_eq (x : OStr) : genNormalizeExtension x = normalizeExt x := by
  unfold genNormalizeExtension normalizeExt
  rcases x with _ | _ | ⟨c, t⟩ <;> simp [firstCharIsNot, strPrepend, strLower, Except.bind]
  by_cases h : c = '.' <;> simp [h]

/-- `_possible_extensions_from_filepath` -/
theorem genPossibleExts_eq (x : Fp) : genPossibleExts x = possibleExts x := by
  unfold genPossibleExts possibleExts Fp.suffixes
  exact comprehension_candidates _

/-- `_norm_path`: the composition of the five library calls in the order of the specification -/
theorem genNormPath_eq (env : Env) (cwd : Path) (x : Fp) : genNormPath env cwd x = normPathSpec env cwd x := by
  unfold genNormPath normPathSpec
  rfl

set_option hygiene false in
/-- after the search (`hr`: what it found is `parseExt`): along the decisions of the specification -/
macro "pav_tail" : tactic => `(tactic|
  (unfold parseAndValidateSpec
   rw [hr]
   cases parseExt (mapKeys m) x.fileName with
   | none => simp
   | some e =>
     cases ext with
     | none => simp
     | some u =>
       cases hn : normalizeExt (some u) with
       | error err => simp [genNormalizeExtension_eq, Except.bind, hn]
       | ok n => by_cases hne : n = some e <;> simp [genNormalizeExtension_eq, Except.bind, hn, hne]))

/-- `_parse_and_validate_extension` — the search for the first known suffix join may be written as a `while` over a
list that is popped, or as a `for` with a `break`: one proof script for each shape -/
theorem genParseAndValidate_eq (x : Fp) (ext : OStr) (m : List (String × String)) :
    genParseAndValidate x ext m = parseAndValidateSpec x ext m := by
  first
  | -- (a) `while known is None and candidates: cand = candidates.pop(0) …`
    unfold genParseAndValidate
    dsimp only
    split
    · -- the fuel never runs out: every pass shortens the list
      rename_i h
      refine absurd h (whileLoop_ne_none (fun _ => True) (fun s => s.2.length) _ _ ?_ _ _ trivial ?_)
      · rintro ⟨k, l⟩ - hc
        rcases l with _ | ⟨a, t⟩
        · simp_all
        · refine ⟨trivial, ?_⟩
          by_cases ha : mapHas m a = true <;> simp [ha]
      · simp [genPossibleExts_eq, possibleExts, Fp.suffixes, candidates_length]
    · rename_i r h
      have key := whileLoop_some (SearchInv (mapHas m) (genPossibleExts x)) _ _ ?_ _ _ _
        (searchInv_init _ _) h
      · obtain ⟨hinv, hexit⟩ := key
        have hx : r.1 = none → r.2 = [] := by
          intro h0
          rcases r with ⟨k, l⟩
          cases l <;> simp_all
        have hr : r.1 = parseExt (mapKeys m) x.fileName := by
          rw [searchInv_exit _ _ _ hinv hx, genPossibleExts_eq, find_possibleExts]
        pav_tail
      · rintro ⟨k, l⟩ hP hc
        rcases l with _ | ⟨a, t⟩
        · simp_all
        · have hk : k = none := by cases k <;> simp_all
          subst hk
          by_cases ha : mapHas m a = true
          · simp only [List.headD_cons, List.tail_cons, ha, Bool.not_true, Bool.false_eq_true, ↓reduceIte]
            exact searchInv_hit _ _ _ _ (mapHas_none m) ha hP
          · simp only [List.headD_cons, List.tail_cons, ha, Bool.not_false, Bool.false_eq_true, ↓reduceIte]
            exact searchInv_miss _ _ _ _ (by simpa using ha) hP
  | -- (b) `for cand in candidates: if cand in map: known = cand; break`
    unfold genParseAndValidate
    dsimp only
    generalize hfl : MenpoModel.Py.forLoop _ _ _ = res
    have key := forLoop_first_hit_of (mapHas m) _ _ _ _ hfl ?_ ?_
    · have hr : res.2 = parseExt (mapKeys m) x.fileName := by
        rw [key, genPossibleExts_eq, find_possibleExts]
      pav_tail
    · intro k a; simp
    · intro k a
      by_cases ha : mapHas m a = true <;> simp [ha]

/-- `importer_for_filepath` -/
theorem genImporterFor_eq (x : Fp) (m : List (String × String)) :
    genImporterFor x m = importerForSpec x m := by
  unfold genImporterFor
  dsimp only
  split
  · rename_i h
    refine absurd h (whileLoop_ne_none (fun _ => True) (fun s => s.2.length) _ _ ?_ _ _ trivial ?_)
    · rintro ⟨k, l⟩ - hc
      rcases l with _ | ⟨a, t⟩
      · simp_all
      · exact ⟨trivial, by simp⟩
    · simp [genPossibleExts_eq, possibleExts, Fp.suffixes, candidates_length]
  · rename_i r h
    have key := whileLoop_some (LookupInv (mapGet m) (genPossibleExts x)) _ _ ?_ _ _ _
      (lookupInv_init _ _) h
    · obtain ⟨hinv, hexit⟩ := key
      have hx : r.1 = none → r.2 = [] := by
        intro h0
        rcases r with ⟨k, l⟩
        cases l <;> simp_all
      have hr := lookupInv_exit _ _ _ hinv hx
      rw [genPossibleExts_eq, findSome_possibleExts] at hr
      unfold importerForSpec
      rw [hr]
      cases importerForT m x.fileName <;> simp
    · rintro ⟨k, l⟩ hP hc
      rcases l with _ | ⟨a, t⟩
      · simp_all
      · have hk : k = none := by cases k <;> simp_all
        subst hk
        exact lookupInv_step _ _ _ _ hP

/-- `_enforce_only_paths_supported` -/
theorem genEnforcePaths_eq (x : Fp) : genEnforcePaths x = enforcePathsSpec x := by
  unfold genEnforcePaths enforcePathsSpec
  rcases x with s | s | ⟨t, _ | n, g⟩ <;>
    simp [Fp.hasName, Fp.isPath, Fp.isStrOrPath, Fp.isStr, Fp.getName, Except.bind]

end MenpoModel.GenProps.C16
