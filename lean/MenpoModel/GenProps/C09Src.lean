/-
C09 — obligations over `Generated/C09Src.lean` (TRANSLATED from the source text of the current working tree on every
run by harness/trans_c09.py): every translated function equals, for ALL arguments, the definition of
`Core/C09Src.lean` that `Props/C09Src.lean` proves the property theorems about.

The proofs are shape-independent: definitional unfolding first (`rfl`: survives renamed temporaries, re-ordered
independent statements, extra temporaries), then a case analysis of the arguments the tests depend on (`None` / a batch
size, no points / some points, …) followed by `rfl` (survives inverted tests with swapped arms, merged or split
conditions, early returns), then unfolding, normalisation of negated tests, a case split on every `if` of both sides
and `simp_all` (the translation writes raising calls and loop exits with the same two functions `Py.tryCatch` /
`Py.onExit` as Core/C09Src.lean, so the two sides contain no auxiliary matchers and compare syntactically).  A changed decision — another
argument, a dropped or added branch, another bound, another accumulator — leaves a goal that is false, so the build
of this file fails: a BROKEN OBLIGATION (then: directed search on the real code), never an infrastructure error.
-/
import MenpoModel.Generated.C09Src
import MenpoModel.Props.C09Src
set_option linter.unusedSimpArgs false

namespace MenpoModel.GenProps.C09Src
open MenpoModel.C09 MenpoModel.Generated.C09Src

/-- `Transform._apply_batched` -/
theorem applyBatched_eq {α β ε : Type} (ap : List α → Except ε (List β)) (bs : Option Nat) (x : List α) :
    applyBatchedT ap bs x = applyBatchedSrc ap bs x := by
  first
    | rfl
    | (cases bs <;> cases x <;> rfl)
    | (unfold applyBatchedT applyBatchedSrc
       delta batchStep
       simp only [Py.forLoop_eq_foldl, Bool.not_eq_true', ← Bool.not_eq_true, ite_not, Bool.not_not]
       repeat' split
       all_goals first | rfl | simp_all)

/-- `AbstractPWA._apply_batched` -/
theorem pwaApplyBatched_eq {α β : Type} (ap : List α → Except (List Bool) (List β)) (bs : Option Nat) (x : List α) :
    pwaApplyBatchedT ap bs x = pwaApplyBatchedSrc ap bs x := by
  first
    | rfl
    | (cases bs <;> cases x <;> rfl)
    | (unfold pwaApplyBatchedT pwaApplyBatchedSrc
       delta pwaBatchStep
       simp only [Py.forLoop_eq_foldl, Bool.not_eq_true', ← Bool.not_eq_true, ite_not, Bool.not_not]
       repeat' split
       all_goals first | rfl | simp_all)

/-- `Transform.apply` -/
theorem apply_eq {α ε : Type} (ab : Option Nat → List α → Except ε (List α)) (bs : Option Nat) (x : PyVal α) :
    applyT ab bs x = applySrc ab bs x := by
  first
    | rfl
    | (cases x <;> rfl)
    | (unfold applyT applySrc
       repeat' split
       all_goals first | rfl | simp_all)

/-- `AbstractPWA._apply` -/
theorem pwaApply_eq (iab : List Pt → Except (List Bool) (List Nat × Vec × Vec)) (ti tij tik x : List Pt) :
    pwaApplyT iab ti tij tik x = pwaApplySrc iab ti tij tik x := by
  first
    | rfl
    | (unfold pwaApplyT pwaApplySrc
       repeat' split
       all_goals first | rfl | simp_all)

/-- `PythonPWA.index_alpha_beta` -/
theorem pythonIab_eq (src : List Tri) (points : List Pt) : pythonIabT src points = pythonIabSrc src points := by
  first
    | rfl
    | (unfold pythonIabT pythonIabSrc
       repeat' split
       all_goals first | rfl | simp_all)

/-- `CachedPWA.index_alpha_beta` -/
theorem cachedIab_eq {Val Res Err : Type} [DecidableEq Val] (shape : Val → Nat) (compute : Val → Except Err Res)
    (s : MemoSt Val Res) (points : Val) : cachedIabT shape compute s points = cachedIabSrc shape compute s points := by
  first
    | rfl
    | (obtain ⟨key, iab⟩ := s
       unfold cachedIabT cachedIabSrc
       dsimp only
       generalize shapeEqO shape points key = a
       generalize arrEqO points key = b
       cases key <;> cases a <;> cases b <;> rfl)
    | (unfold cachedIabT cachedIabSrc
       repeat' split
       all_goals first | rfl | simp_all)

/-- the module-level `index_alpha_beta` -/
theorem indexAlphaBeta_eq (i ij ik points : List Pt) : indexAlphaBetaT i ij ik points = indexAlphaBetaSrc i ij ik points := by
  first
    | rfl
    | (unfold indexAlphaBetaT indexAlphaBetaSrc
       repeat' split
       all_goals first | rfl | simp_all)

/-- `containment_from_alpha_beta` -/
theorem containment_eq (alpha beta : Arr2) : containmentT alpha beta = containmentSrc alpha beta := by
  first
    | rfl
    | (unfold containmentT containmentSrc
       repeat' split
       all_goals first | rfl | simp_all)

/-- `alpha_beta` -/
theorem alphaBeta_eq (i ij ik points : List Pt) : alphaBetaT i ij ik points = alphaBetaSrc i ij ik points := by
  first
    | rfl
    | (unfold alphaBetaT alphaBetaSrc
       simp_all)

/-- `TransformChain._apply` -/
theorem chainApply_eq {ε α : Type} (fs : List (List α → Except ε (List α))) (x : List α) :
    chainApplyT fs x = chainApplySrc fs x := by
  first
    | rfl
    | (unfold chainApplyT chainApplySrc
       simp_all)

/-- `TransformChain._apply_batched` -/
theorem chainApplyBatched_eq {α : Type} (ap : List α → Except (List Bool) (List α)) (bs : Option Nat) (x : List α) :
    chainApplyBatchedT ap bs x = chainApplyBatchedSrc ap bs x := by
  first
    | rfl
    | (cases bs <;> cases x <;> rfl)
    | (unfold chainApplyBatchedT chainApplyBatchedSrc
       repeat' split
       all_goals first | rfl | simp_all)

/-- `WithDims._apply` -/
theorem withDims_eq (dims : Dims) (x : List PtN) : withDimsT dims x = withDimsSrc dims x := by
  first
    | rfl
    | (cases dims <;> rfl)
    | (unfold withDimsT withDimsSrc
       repeat' split
       all_goals first | rfl | simp_all)

/-- `pwa_point_in_pointcloud` -/
theorem pointInPointcloud_eq {PC T : Type} (mk : PC → PC → T) (app : T → Option Nat → List Pt → Except (List Bool) (List Pt))
    (pcloud : PC) (indices : List Pt) (bs : Option Nat) :
    pointInPointcloudT mk app pcloud indices bs = pointInPointcloudSrc mk app pcloud indices bs := by
  first
    | rfl
    | (unfold pointInPointcloudT pointInPointcloudSrc
       repeat' split
       all_goals first | rfl | simp_all)

/-- no batching is the default of every public entry point that takes a batch size -/
theorem applyDefaults_ok : batchSizeDefaults =
    [("Transform.apply", "None"), ("pwa_point_in_pointcloud", "None"),
     ("BooleanImage.constrain_to_pointcloud", "None")] := by decide

/-! ### the property theorems, stated about the TRANSLATED functions themselves -/

/-- PROPERTY (batching): the translated `Transform._apply_batched` over a point-wise `_apply`, every valid batch size -/
theorem batched_eq_unbatched_translated {α β ε : Type} (g : α → β) (bs : Option Nat) (hbs : ValidBatch bs) (xs : List α) :
    applyBatchedT (fun c => (Except.ok (c.map g) : Except ε (List β))) bs xs = .ok (xs.map g) := by
  rw [applyBatched_eq]; exact batched_eq_unbatched_src g bs hbs xs

/-- PROPERTY (failure mask): the translated `AbstractPWA._apply_batched` over any piecewise `_apply`: the unbatched result;
on failure one mask entry per input point, `true` exactly at the points outside the domain -/
theorem pwa_mask_exact_translated {α β : Type} (d : Pwa α β) (bs : Option Nat) (hbs : ValidBatch bs) (xs : List α) :
    pwaApplyBatchedT d.apply bs xs =
      if xs.all d.inDom then .ok (xs.map d.f) else .error (xs.map fun x => !d.inDom x) := by
  rw [pwaApplyBatched_eq]; exact pwa_mask_exact_src d bs hbs xs

/-- PROPERTY (piecewise affine, end to end on translated functions): `_apply_batched` ∘ `_apply` ∘ `index_alpha_beta` -/
theorem pwa_translated_end_to_end (src tgt : List Tri) (bs : Option Nat) (hbs : ValidBatch bs) (ps : List Pt) :
    pwaApplyBatchedT (pwaApplyT (pythonIabT src) (tgt.map Tri.i) (tgt.map Tri.ij) (tgt.map Tri.ik)) bs ps =
      (toPwa src tgt).apply ps := by
  have h1 : pythonIabT src = pythonIabSrc src := funext (pythonIab_eq src)
  have h2 : pwaApplyT (pythonIabSrc src) (tgt.map Tri.i) (tgt.map Tri.ij) (tgt.map Tri.ik) =
      pwaApplySrc (pythonIabSrc src) (tgt.map Tri.i) (tgt.map Tri.ij) (tgt.map Tri.ik) := funext (pwaApply_eq _ _ _ _)
  rw [pwaApplyBatched_eq, h1, h2]
  exact pwa_src_end_to_end src tgt bs hbs ps

/-- … and the module-level `index_alpha_beta` / `alpha_beta` / `containment_from_alpha_beta` under it -/
theorem indexAlphaBeta_translated (src : List Tri) (ps : List Pt) :
    indexAlphaBetaT (src.map Tri.i) (src.map Tri.ij) (src.map Tri.ik) ps = (MenpoModel.C09.indexAlphaBeta src ps).map unzip3 ∧
    alphaBetaT (src.map Tri.i) (src.map Tri.ij) (src.map Tri.ik) ps =
      (ps.map fun p => src.map fun t => (MenpoModel.C09.alphaBeta t p).1,
       ps.map fun p => src.map fun t => (MenpoModel.C09.alphaBeta t p).2) := by
  constructor
  · rw [indexAlphaBeta_eq]; exact pythonIabSrc_eq src ps
  · rw [alphaBeta_eq]; exact alphaBetaSrc_eq src ps

/-- PROPERTY (chains with a piecewise-affine member): translated `TransformChain._apply_batched` over translated `_apply` -/
theorem chain_pwa_batched_translated {α : Type} (g h : α → α) (d : Pwa α α) (bs : Option Nat) (hbs : ValidBatch bs)
    (xs : List α) :
    chainApplyBatchedT (chainApplyT [liftOk (List.map g), d.apply, liftOk (List.map h)]) bs xs = (d.wrap g h).apply xs := by
  have h1 : chainApplyT [liftOk (List.map g), d.apply, liftOk (List.map h)] =
      chainApplySrc [liftOk (List.map g), d.apply, liftOk (List.map h)] := funext (chainApply_eq _)
  rw [chainApplyBatched_eq, h1]
  exact chain_pwa_batched_src g h d bs hbs xs

/-- PROPERTY (no history or aliasing effects): a fresh memo driven by the translated `CachedPWA.index_alpha_beta` through
any finite interleaving of applies and in-place edits returns the stateless result at every call -/
theorem cachedPwa_history_pure_translated {Val Res Err : Type} [DecidableEq Val] (shape : Val → Nat)
    (compute : Val → Except Err Res) (ops : List (Op Val)) (heap : Nat → Val) :
    ∀ p ∈ runMemo (cachedIabT shape compute) heap ⟨none, none⟩ ops, p.2 = liftRes (compute p.1) := by
  have h : cachedIabT shape compute = cachedIabSrc shape compute := funext fun s => funext fun v => cachedIab_eq shape compute s v
  rw [h]
  exact cachedPwa_history_pure_src shape compute ops heap

/-- PROPERTY (shapes): the translated `Transform.apply` on a shape returns a shape holding what the class's `_apply_batched`
gives for its points with the same batch size -/
theorem apply_shape_translated {α ε : Type} (ab : Option Nat → List α → Except ε (List α)) (bs : Option Nat) (a : List α) :
    applyT ab bs (.shape a) = (match ab bs a with
      | .ok r => .ok (.shape r)
      | .error e => .error (.other e)) ∧
    applyT ab bs (.arr a) = (match ab bs a with
      | .ok r => .ok (.arr r)
      | .error e => .error (.other e)) := by
  rw [apply_eq, apply_eq]; exact ⟨applySrc_shape ab bs a, applySrc_arr ab bs a⟩

/-- PROPERTY (`pwa_point_in_pointcloud`, on translated functions all the way down): the mask is the per-pixel test
`some triangle contains the pixel` of the model (the closed-triangle test for triangles of non-zero area, see
`contains_iff_closed_triangle`), whatever the (valid) batch size -/
theorem pointInPointcloud_translated (ts : List Tri) (bs : Option Nat) (hbs : ValidBatch bs) (ps : List Pt) :
    pointInPointcloudT (fun a b => (a, b))
      (fun t k x => pwaApplyBatchedT (pwaApplyT (pythonIabT t.1) (t.2.map Tri.i) (t.2.map Tri.ij) (t.2.map Tri.ik)) k x)
      ts ps bs = ps.map fun p => ts.any fun t => contains t p := by
  rw [pointInPointcloud_eq]
  have h := pwa_translated_end_to_end ts ts bs hbs ps
  have h2 := MenpoModel.C09.pwaApplyBatched_eq ts ts bs hbs ps
  have h3 := pwaApply_eq_toPwa ts ts ps
  rw [← MenpoModel.C09.pointInPointcloud_eq ts bs hbs ps, ← pointInPointcloudSrc_eq]
  unfold pointInPointcloudSrc
  dsimp only
  rw [h, h2, h3]

end MenpoModel.GenProps.C09Src
